import Slock.Proofs.Engine2Cur
/-! Stage-2 engine: following one attribute of the lock records (`π : Rec → α`: depth, timeouted, expried, a wheel entry …)
through the bookkeeping steps of an operation: no record appears, the surviving records keep the attribute. -/
namespace Slock.Engine2

structure PKeep {α : Type} (π : Rec → α) (k' k : Key) : Prop where
  sub : ∀ y, k'.hasRec y → k.hasRec y
  val : ∀ y, k'.hasRec y → π (k'.getR y) = π (k.getR y)

/-- the attribute does not read the fields every bookkeeping step may edit -/
structure Ins {α : Type} (π : Rec → α) : Prop where
  count : ∀ r n, π { r with refCount := n } = π r
  aofData : ∀ r b, π { r with aofData := b } = π r
  isAof : ∀ r b, π { r with isAof := b } = π r
  data : ∀ r d, π { r with data := d } = π r

namespace PKeep
variable {α : Type} {π : Rec → α}

theorem refl (k : Key) : PKeep π k k := ⟨fun _ h => h, fun _ _ => rfl⟩
theorem trans {a b c : Key} (h1 : PKeep π a b) (h2 : PKeep π b c) : PKeep π a c :=
  ⟨fun y h => h2.sub y (h1.sub y h), fun y h => (h1.val y h).trans (h2.val y (h1.sub y h))⟩

theorem of_eq {k' k : Key} (h1 : k'.recs = k.recs) : PKeep π k' k :=
  ⟨fun y h => by unfold Key.hasRec at h ⊢; rw [← h1]; exact h, fun y _ => by unfold Key.getR; rw [h1]⟩

theorem of_ids {k' k : Key} (hi : k'.ids = k.ids) (hp : ∀ y, π (k'.getR y) = π (k.getR y)) : PKeep π k' k :=
  ⟨fun y h => (hasRec_of_ids hi y).mp h, fun y _ => hp y⟩

theorem modRec (k : Key) (rid : Nat) (f : Rec → Rec) (hf : ∀ r, (f r).rid = r.rid) (hd : ∀ r, π (f r) = π r) :
    PKeep π (k.modRec rid f) k :=
  ⟨fun y h => (hasRec_modRec _ _ _ _ hf).mp h, fun y _ => getR_modRec_proj π k rid y f hf hd⟩

/-- an edit of one record that keeps the attribute of THAT record -/
theorem modRec_at (k : Key) (rid : Nat) (f : Rec → Rec) (hf : ∀ r, (f r).rid = r.rid) (hd : k.hasRec rid → π (f (k.getR rid)) = π (k.getR rid)) :
    PKeep π (k.modRec rid f) k := by
  refine ⟨fun y h => (hasRec_modRec _ _ _ _ hf).mp h, fun y h => ?_⟩
  have hk := (hasRec_modRec _ _ _ _ hf).mp h
  by_cases e : y = rid
  · subst e; rw [getR_modRec_same _ _ _ hf hk]; exact hd hk
  · rw [getR_modRec_other _ _ _ _ hf e]

theorem free (k : Key) (rid : Nat) : PKeep π (k.free rid) k := by
  refine ⟨fun y h => (hasRec_free_sub k rid y h).1, fun y h => ?_⟩
  by_cases e : y = rid
  · subst e
    have := hasRec_free_sub k y y h
    exact absurd rfl (this.2 this.1)
  · rw [getR_free_other _ _ _ e]

theorem unrefOnly (hπ : Ins π) (k : Key) (x : Nat) : PKeep π (k.unrefOnly x) k :=
  modRec k x _ (fun _ => rfl) (fun r => hπ.count r _)

theorem unref (hπ : Ins π) (k : Key) (x : Nat) : PKeep π (k.unref x) k := by
  unfold Key.unref
  simp only []
  split
  · exact (free _ x).trans (unrefOnly hπ k x)
  · exact unrefOnly hπ k x

theorem foldl_unref (hπ : Ins π) (d : List Nat) (k : Key) : PKeep π (d.foldl (fun k x => k.unref x) k) k := by
  induction d generalizing k with
  | nil => exact refl _
  | cons a as ih => simp only [List.foldl_cons]; exact (ih _).trans (unref hπ _ _)

theorem foldl_unrefW (hπ : Ins π) (d : List WEnt) (k : Key) : PKeep π (d.foldl (fun k x => k.unref x.rid) k) k := by
  induction d generalizing k with
  | nil => exact refl _
  | cons a as ih => simp only [List.foldl_cons]; exact (ih _).trans (unref hπ _ _)

theorem locksPush (hπ : Ins π) (k : Key) (rid : Nat) : PKeep π (k.locksPush rid) k := by
  unfold Key.locksPush
  simp only []
  split
  · exact of_eq rfl
  · split
    · exact of_eq rfl
    · refine (foldl_unref hπ _ _).trans ?_
      split <;> exact of_eq rfl

theorem locksSkip (hπ : Ins π) (take : Bool) (l : List Nat) (k : Key) : PKeep π (Slock.Engine2.locksSkip take l k).1 k := by
  induction l generalizing k with
  | nil => exact refl _
  | cons x rest ih =>
    unfold Slock.Engine2.locksSkip
    split
    · split
      · exact of_eq rfl
      · exact refl _
    · exact (ih _).trans ((unref hπ _ _).trans (of_eq rfl))

theorem waitPush (hπ : Ins π) (k : Key) (e : WEnt) : PKeep π (k.waitPush e) k := by
  unfold Key.waitPush
  split
  · exact of_eq rfl
  · simp only []
    split
    · exact of_eq rfl
    · split
      · exact of_eq rfl
      · refine (foldl_unrefW hπ _ _).trans ?_
        split <;> exact of_eq rfl

theorem waitSkip (hπ : Ins π) (l : List WEnt) (k : Key) : PKeep π (Slock.Engine2.waitSkip l k).1 k := by
  induction l generalizing k with
  | nil => exact refl _
  | cons e rest ih =>
    unfold Slock.Engine2.waitSkip
    split
    · exact (ih _).trans ((unref hπ _ _).trans (of_eq rfl))
    · exact refl _

theorem getWaitLock (hπ : Ins π) (k : Key) : PKeep π k.getWaitLock.1 k := waitSkip hπ _ _

theorem settleWait (hπ : Ins π) (k : Key) : PKeep π k.settleWait k := by
  unfold Key.settleWait
  split
  · exact (of_eq (k' := clearWaited k.getWaitLock.1) (k := k.getWaitLock.1) rfl).trans (getWaitLock hπ k)
  · exact getWaitLock hπ k

theorem addWaitLock (hπ : Ins π) (k : Key) (rid : Nat) : PKeep π (k.addWaitLock rid) k := by
  unfold Key.addWaitLock
  simp only []
  have step : ∀ k1 : Key, PKeep π k1 k →
      PKeep π { (k1.waitPush ⟨rid, Slock.Engine.cmdPriority (k.getR rid).cmd⟩).modRec rid (fun r => { r with refCount := r.refCount + 1 }) with waited := true } k := by
    intro k1 h1
    have a := waitPush hπ k1 ⟨rid, Slock.Engine.cmdPriority (k.getR rid).cmd⟩
    have b := modRec (π := π) (k1.waitPush ⟨rid, Slock.Engine.cmdPriority (k.getR rid).cmd⟩) rid (fun r => { r with refCount := r.refCount + 1 })
      (by intro _; rfl) (fun r => hπ.count r _)
    have c0 : PKeep π ({ (k1.waitPush ⟨rid, Slock.Engine.cmdPriority (k.getR rid).cmd⟩).modRec rid (fun r => { r with refCount := r.refCount + 1 }) with waited := true } : Key)
        ((k1.waitPush ⟨rid, Slock.Engine.cmdPriority (k.getR rid).cmd⟩).modRec rid (fun r => { r with refCount := r.refCount + 1 })) := of_eq rfl
    exact c0.trans (b.trans (a.trans h1))
  apply step
  split
  · split
    · split
      · exact of_eq rfl
      · exact refl _
    · exact refl _
  · exact refl _

/-- `RemoveLock(rid)`: for an attribute that does not read `depth` -/
theorem removeLock (hπ : Ins π) (hd : ∀ r n, π { r with depth := n } = π r) (k : Key) (rid : Nat) : PKeep π (k.removeLock rid) k := by
  unfold Key.removeLock
  simp only []
  have h1 : PKeep π (k.modRec rid fun r => { r with depth := 0 }) k := modRec k rid _ (fun _ => rfl) (fun r => hd r 0)
  split
  · have h2 : PKeep π ({ (k.modRec rid fun r => { r with depth := 0 }).unrefOnly rid with current := none } : Key) k :=
      PKeep.trans (b := (k.modRec rid fun r => { r with depth := 0 }).unrefOnly rid) (of_eq rfl) ((unrefOnly hπ _ rid).trans h1)
    exact PKeep.trans (b := (Slock.Engine2.locksSkip true
      ({ (k.modRec rid fun r => { r with depth := 0 }).unrefOnly rid with current := none } : Key).locks
      { (k.modRec rid fun r => { r with depth := 0 }).unrefOnly rid with current := none }).1) (of_eq rfl) ((locksSkip hπ true _ _).trans h2)
  · exact (locksSkip hπ false _ _).trans h1

/-- `AddLock(rid)` with a record edit that keeps the attribute -/
theorem addLock (hπ : Ins π) (k : Key) (rid : Nat) (f : Rec → Rec) (hf : ∀ r, (f r).rid = r.rid) (hp : ∀ r, π (f r) = π r) :
    PKeep π (k.addLock rid f) k := by
  unfold Key.addLock
  split
  · exact PKeep.trans (b := k.modRec rid f) (of_eq rfl) (modRec k rid f hf hp)
  · exact (locksPush hπ _ rid).trans (modRec k rid f hf hp)

theorem aofLockData (hπ : Ins π) (k : Key) (b : Bool) (rid : Nat) : PKeep π (Slock.Engine2.aofLockData k b rid).1 k :=
  of_ids (ids_aofLockData k b rid) (fun y => aofLockData_proj π hπ.aofData k b rid y)

end PKeep

/-! ### through the helpers of an operation -/

/-- `PKeep` between two working states -/
def PK {α : Type} (π : Rec → α) (w' w : W) : Prop := PKeep π w'.k w.k

section
variable {α : Type} {π : Rec → α}

theorem PK.refl (w : W) : PK π w w := PKeep.refl _
theorem PK.trans {a b c : W} (h1 : PK π a b) (h2 : PK π b c) : PK π a c := PKeep.trans h1 h2
theorem PK.of_k {w w' : W} (h : w'.k = w.k) : PK π w' w := by unfold PK; rw [h]; exact PKeep.refl _

theorem pk_procData (hπ : Ins π) (w : W) (ct : Slock.Value.CmdType) (c : Cmd) (f : Option Bytes) (rid : Nat) : PK π (w.procData ct c f rid) w := by
  unfold W.procData
  split
  · exact PK.refl _
  · simp only []
    split
    · exact PKeep.of_eq rfl
    · split
      · exact PKeep.trans (b := { w.k with cell := _ }) (PKeep.modRec _ rid _ (by intro _; rfl) (fun r => hπ.aofData r _)) (PKeep.of_eq rfl)
      · exact PKeep.of_eq rfl

theorem pk_pushLockAof (hπ : Ins π) (w : W) (rid flag : Nat) : PK π (w.pushLockAof rid flag) w :=
  PKeep.of_ids (ids_pushLockAof w rid flag) (fun y => pushLockAof_proj π hπ.aofData hπ.isAof w rid flag y)

theorem pk_pushLockAofN (hπ : Ins π) (n : Nat) (w : W) (rid : Nat) : PK π (W.pushLockAofN n w rid) w :=
  PKeep.of_ids (ids_pushLockAofN n w rid) (fun y => pushLockAofN_proj π hπ.aofData hπ.isAof n w rid y)

theorem pk_pushUnLockAof (hπ : Ins π) (w : W) (rid : Nat) (lc : Cmd) (fa ia : Bool) (flag : Nat) : PK π (w.pushUnLockAof rid lc fa ia flag) w := by
  unfold W.pushUnLockAof
  split
  · exact PK.refl _
  · split
    · exact PKeep.modRec _ rid _ (by intro _; rfl) (fun r => hπ.isAof r _)
    · exact (PKeep.modRec _ rid _ (by intro _; rfl) (fun r => hπ.isAof r _)).trans (PKeep.aofLockData hπ w.k false rid)

theorem pk_when (w : W) (b : Bool) (f : W → W) (h : PK π (f w) w) : PK π (w.when b f) w := by
  cases b
  · exact PK.refl _
  · exact h

theorem pk_journalLock (hπ : Ins π) (w : W) (rid flag : Nat) : PK π (w.journalLock rid flag) w := pk_when _ _ _ (pk_pushLockAof hπ _ _ _)
theorem pk_journalUnlock (hπ : Ins π) (w : W) (rid : Nat) (fa ia : Bool) (flag : Nat) : PK π (w.journalUnlock rid fa ia flag) w :=
  pk_when _ _ _ (pk_pushUnLockAof hπ _ _ _ _ _ _)
theorem pk_modR (w : W) (rid : Nat) (f : Rec → Rec) (hf : ∀ r, (f r).rid = r.rid) (hd : ∀ r, π (f r) = π r) : PK π (w.modR rid f) w :=
  PKeep.modRec w.k rid f hf hd
theorem pk_modK (w : W) (f : Key → Key) (h : PKeep π (f w.k) w.k) : PK π (w.modK f) w := h
theorem pk_ref (hπ : Ins π) (w : W) (rid : Nat) : PK π (w.ref rid) w := PKeep.modRec w.k rid _ (fun _ => rfl) (fun r => hπ.count r _)

/-- `AddTimeOut` for an attribute that does not read what it arms -/
theorem pk_addTimeOut (w : W) (rid : Nat) (hp : ∀ r a, π (Rec.armT a r) = π r) : PK π (w.addTimeOut rid) w :=
  PKeep.modRec w.k rid _ (fun _ => rfl) (fun r => hp r _)
theorem pk_schedExpried (w : W) (rid : Nat) (hp : ∀ r a, π (Rec.armE a r) = π r) : PK π (w.schedExpried rid) w :=
  PKeep.modRec w.k rid _ (fun _ => rfl) (fun r => hp r _)
theorem pk_addExpried (hπ : Ins π) (w : W) (rid : Nat) (hp : ∀ r a, π (Rec.armE a r) = π r) : PK π (w.addExpried rid) w := by
  unfold W.addExpried
  simp only []
  exact (pk_when _ _ _ (pk_pushLockAofN hπ _ _ _)).trans (pk_schedExpried _ _ hp)

theorem pk_removeLongT (hπ : Ins π) (w : W) (rid : Nat) (hp : ∀ r s, π { r with tSched := s } = π r) : PK π (w.removeLongT rid) w := by
  unfold W.removeLongT
  exact (PKeep.unrefOnly hπ _ rid).trans (PKeep.modRec w.k rid _ (by intro _; rfl) (fun r => hp r none))
theorem pk_removeLongE (hπ : Ins π) (w : W) (rid : Nat) (hp : ∀ r s, π { r with eSched := s } = π r) : PK π (w.removeLongE rid) w := by
  unfold W.removeLongE
  exact (PKeep.unrefOnly hπ _ rid).trans (PKeep.modRec w.k rid _ (by intro _; rfl) (fun r => hp r none))
theorem pk_dropLongT (hπ : Ins π) (w : W) (rid : Nat) (hp : ∀ r s, π { r with tSched := s } = π r) : PK π (w.dropLongT rid) w :=
  pk_when _ _ _ (pk_removeLongT hπ _ _ hp)
theorem pk_dropLongE (hπ : Ins π) (w : W) (rid : Nat) (hp : ∀ r s, π { r with eSched := s } = π r) : PK π (w.dropLongE rid) w :=
  pk_when _ _ _ (pk_removeLongE hπ _ _ hp)

theorem pk_grantNoHold (hπ : Ins π) (w : W) (rid : Nat) : PK π (w.grantNoHold rid) w := by
  unfold W.grantNoHold
  simp only []
  exact (pk_modR _ rid (fun r => { r with data := none }) (by intro _; rfl) (fun r => hπ.data r _)).trans
    ((pk_when _ _ (·.pushLockAof rid 0) (pk_pushLockAof hπ _ _ _)).trans (pk_procData hπ _ _ _ _ _))

theorem pk_removeIfZero (w : W) : PK π w.removeIfZero w := by
  unfold W.removeIfZero
  split
  · exact PKeep.of_eq rfl
  · exact PK.refl _

theorem pk_freeCheck (w : W) (rid : Nat) : PK π (w.freeCheck rid) w := by
  unfold W.freeCheck
  exact (pk_removeIfZero _).trans (pk_modK w _ (PKeep.free _ _))

theorem pk_unrefCheck (hπ : Ins π) (w : W) (rid : Nat) : PK π (w.unrefCheck rid) w := by
  unfold W.unrefCheck
  simp only []
  exact (pk_when _ _ _ (pk_freeCheck _ _)).trans (pk_modK w _ (PKeep.unrefOnly hπ _ rid))

theorem pk_dropT (hπ : Ins π) (w : W) (rid : Nat) (hp : ∀ r s, π { r with tSched := s } = π r) : PK π (w.dropT rid) w := by
  unfold W.dropT
  exact (pk_unrefCheck hπ _ _).trans (pk_modR w rid (fun r => { r with tSched := none }) (by intro _; rfl) (fun r => hp r none))
theorem pk_dropE (hπ : Ins π) (w : W) (rid : Nat) (hp : ∀ r s, π { r with eSched := s } = π r) : PK π (w.dropE rid) w := by
  unfold W.dropE
  exact (pk_unrefCheck hπ _ _).trans (pk_modR w rid (fun r => { r with eSched := none }) (by intro _; rfl) (fun r => hp r none))

end

/-! ### the attributes used below -/

theorem ins_timeouted : Ins (·.timeouted) := ⟨fun _ _ => rfl, fun _ _ => rfl, fun _ _ => rfl, fun _ _ => rfl⟩
theorem ins_depth : Ins (·.depth) := ⟨fun _ _ => rfl, fun _ _ => rfl, fun _ _ => rfl, fun _ _ => rfl⟩
theorem ins_expried : Ins (·.expried) := ⟨fun _ _ => rfl, fun _ _ => rfl, fun _ _ => rfl, fun _ _ => rfl⟩
theorem ins_tSched : Ins (·.tSched) := ⟨fun _ _ => rfl, fun _ _ => rfl, fun _ _ => rfl, fun _ _ => rfl⟩
theorem ins_eSched : Ins (·.eSched) := ⟨fun _ _ => rfl, fun _ _ => rfl, fun _ _ => rfl, fun _ _ => rfl⟩

end Slock.Engine2
