import Slock.Gen.Kernels
/-!
G3 tie for the client package's flag merging (C19): every primitive a `Database` builds gets its packed timeout word from
`mergeTimeoutFlag` and its packed expried word from `mergeExpriedFlag` (regenerated as `K.clientMergeTimeoutFlag` /
`K.clientMergeExpriedFlag`). The timeout word takes the default TIMEOUT flags, the expried word the default EXPRIED flags — never
the other way round — and a zero default changes nothing.
-/
namespace Slock.Client
open Slock.Gen

theorem mergeTimeoutFlag_generated (t dT dE : Nat) (h : dT < 65536) :
    K.clientMergeTimeoutFlag t dT dE = t ||| (dT <<< 16) := by
  unfold K.clientMergeTimeoutFlag
  by_cases h0 : dT = 0
  · simp [h0]
  · have : dT <<< 16 < 4294967296 := by
      rw [Nat.shiftLeft_eq]; omega
    simp [h0, Nat.mod_eq_of_lt this]

theorem mergeExpriedFlag_generated (e dT dE : Nat) (h : dE < 65536) :
    K.clientMergeExpriedFlag e dT dE = e ||| (dE <<< 16) := by
  unfold K.clientMergeExpriedFlag
  by_cases h0 : dE = 0
  · simp [h0]
  · have : dE <<< 16 < 4294967296 := by
      rw [Nat.shiftLeft_eq]; omega
    simp [h0, Nat.mod_eq_of_lt this]

/-- the two words do not borrow each other's defaults -/
theorem merge_independent (t e dT dE dT' dE' : Nat) :
    K.clientMergeTimeoutFlag t dT dE = K.clientMergeTimeoutFlag t dT dE' ∧
    K.clientMergeExpriedFlag e dT dE = K.clientMergeExpriedFlag e dT' dE := ⟨rfl, rfl⟩

end Slock.Client
