import Slock.Model.TextCmd
/-! Helper lemmas for M-TEXT: key/id normalisation (C14 text part). -/
namespace Slock.Text

theorem hexDecode_length : ∀ (k v : Bytes), hexDecode k = some v → k.length = 2 * v.length
  | [], v, h => by simp [hexDecode] at h; subst h; rfl
  | [_], v, h => by simp [hexDecode] at h
  | a :: b :: rest, v, h => by
    unfold hexDecode at h
    cases ha : hexNib a <;> cases hb : hexNib b <;> cases hr : hexDecode rest <;> simp [ha, hb, hr] at h
    subst h
    have := hexDecode_length rest _ hr
    simp only [List.length_cons]; omega

theorem leftPad16_full (k : Bytes) (h : k.length = 16) : leftPad16 k = k := by
  simp [leftPad16, h]

theorem padLoop_eq (k : Bytes) (h : k.length < 16) :
    (List.range 16).map (fun i => if i < 16 - k.length then (0 : UInt8) else k.getD (i - (16 - k.length)) 0) = leftPad16 k := by
  apply List.ext_getElem
  · simp [leftPad16]; omega
  · intro i h1 h2
    simp only [List.getElem_map, List.getElem_range, leftPad16]
    by_cases hi : i < 16 - k.length
    · simp [hi]
    · simp only [hi, if_false]
      rw [List.getElem_append_right (by simp; omega)]
      simp only [List.length_replicate]
      simp only [List.length_map, List.length_range] at h1
      rw [List.getD_eq_getElem?_getD, List.getElem?_eq_getElem (by omega)]
      simp

theorem key_eq_doc (h : Bytes → Bytes) (hh : ∀ x, (h x).length = 16) (k : Bytes) :
    convertString2LockKey h k = docRule h k := by
  unfold convertString2LockKey docRule
  by_cases h16 : k.length = 16
  · simp [h16, leftPad16_full k h16]
  · by_cases hgt : k.length > 16
    · have hle : ¬ k.length ≤ 16 := by omega
      simp only [h16, hgt, hle, if_false, if_true]
      by_cases h32 : k.length = 32
      · simp only [h32, if_true]
        cases hd : hexDecode k with
        | none => simp [List.take_of_length_le, hh]
        | some v =>
          have := hexDecode_length k v hd
          simp only
          rw [List.take_of_length_le (by omega)]
      · simp [h32, List.take_of_length_le, hh]
    · have hle : k.length ≤ 16 := by omega
      simp [h16, hgt, hle]

theorem argId_eq_key (h : Bytes → Bytes) (k : Bytes) :
    convertArgId2LockId h k = convertString2LockKey h k := by
  unfold convertArgId2LockId convertString2LockKey
  by_cases h16 : k.length = 16
  · simp [h16]
  · by_cases hgt : k.length > 16
    · simp [h16, hgt]
    · simp only [h16, hgt, if_false]
      exact padLoop_eq k (by omega)

theorem argId_eq_doc (h : Bytes → Bytes) (hh : ∀ x, (h x).length = 16) (k : Bytes) :
    convertArgId2LockId h k = docRule h k := by
  rw [argId_eq_key, key_eq_doc h hh]

end Slock.Text
