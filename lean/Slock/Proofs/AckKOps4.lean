import Slock.Proofs.AckKOps3
/-! M-ACK: `InvK` through the sweeps, journal delivery, reports, demotion; every event; every run. -/
namespace Slock.Ack

theorem InvK.fireTimeout {db : DB} (ha : InvA db) (hk : InvK db) (hid : Nat) (hnt : (db.getR hid).timeouted = false) : InvK (fireTimeout db hid).1 := by
  have hpr := present_of (Or.inr (Or.inr (Or.inl hnt)))
  have h0 := (AtK.start ha hk hpr).modR (fun r => { r with timeouted := true }) (by intro _; rfl)
  have ha0 : InvA (db.modR hid (fun r => { r with timeouted := true })) := ha.modR_irrel hid _ (irrel_timeouted true)
  unfold Slock.Ack.fireTimeout
  simp only []
  split
  · obtain ⟨r2, h2, c1, c2⟩ := h0.rollback
    have hk' := (h2.ctrMod (fun x => { x with timeoutedCount := x.timeoutedCount + 1 })).finishD (KR_dead' c1 c2) c1
    exact InvK.wake ((ha0.rollback hid).ctrMod _) hk' _ _
  · rename_i hd
    have hd0 : (db.getR hid).depth = 0 := by omega
    have h1 := h0.modR (fun r => { r with queued := false }) (by intro _; rfl)
    have hkr := hk.recs _ (findR_some_mem hpr).1
    have hdw : InvK (db.dropWaiter hid) := by
      unfold DB.dropWaiter
      simp only []
      split
      · exact ((h1.modKey (db.getR hid).cmd.key (fun k => { k with waited := false })).ctrMod _).finishD ⟨hkr.1, by intro h; simp only [] at h; omega⟩ hd0
      · exact (h1.ctrMod _).finishD ⟨hkr.1, by intro h; simp only [] at h; omega⟩ hd0
    exact InvK.wake (ha.dropWaiter hid) hdw _ _

theorem InvK.fireExpire {db : DB} (ha : InvA db) (hk : InvK db) (hid : Nat) (hne : (db.getR hid).expried = false) : InvK (fireExpire db hid).1 := by
  have hpr := present_of (Or.inr (Or.inr (Or.inr (Or.inl hne))))
  have hs := AtK.start ha hk hpr
  have hkr := hk.recs _ (findR_some_mem hpr).1
  unfold Slock.Ack.fireExpire
  simp only []
  split
  · have h1 := hs.modR (fun r => { r with expT := db.now + 30 }) (by intro _; rfl)
    obtain ⟨r2, h2, c1, c2, c3⟩ := h1.addExpried
    refine h2.finishN ⟨by rw [c2]; exact hkr.1, by intro _ hh; rw [c3] at hh; exact absurd hh (by decide)⟩ (fp_false_of_expried c3) ?_
    intro hj
    have hj' : jc db hid > 0 := hj
    unfold Rec.pending; rw [c1, c2]
    exact hk.kj hid hj'
  · have h1 := (hs.modR (fun r => { r with expried := true }) (by intro _; rfl)).modKey (db.getR hid).cmd.key
      (fun k => { k with locked := k.locked - (db.getR hid).depth })
    obtain ⟨r2, h2, _, _⟩ := h1.journalUnlock false
    obtain ⟨r3, h3, c1, c2⟩ := h2.removeLock
    have hk' := (h3.ctrMod (fun x => { x with lockedCount := x.lockedCount - (db.getR hid).depth, expriedCount := x.expriedCount + 1 })).finishD
      (KR_dead' c1 c2) c1
    have ha' : InvA (((((db.modR hid (fun r => { r with expried := true })).modKey (db.getR hid).cmd.key (fun k => { k with locked := k.locked - (db.getR hid).depth })).journalUnlock hid false).removeLock hid).ctrMod
        (fun x => { x with lockedCount := x.lockedCount - (db.getR hid).depth, expriedCount := x.expriedCount + 1 })) := by
      apply InvA.ctrMod; apply InvA.removeLock; apply InvA.journalUnlock; apply InvA.modKey
      exact ha.modR_irrel hid _ (irrel_expried true)
    exact InvK.wake ha' hk' _ _

theorem InvK.timeoutStep (acc : DB × List Nat) (r0 : Rec) (hk : InvK acc.1) : InvK (timeoutStep acc r0).1 := by
  unfold Slock.Ack.timeoutStep
  simp only []
  split
  · exact hk.irrel' _ _ rfl (by intro _; exact ⟨rfl, rfl, rfl, rfl⟩) rfl rfl rfl
  · exact hk

theorem InvK.expireStep (acc : DB × List Nat) (r0 : Rec) (hk : InvK acc.1) : InvK (expireStep acc r0).1 := by
  unfold Slock.Ack.expireStep
  simp only []
  split
  · exact hk.irrel' _ _ rfl (by intro _; exact ⟨rfl, rfl, rfl, rfl⟩) rfl rfl rfl
  · exact hk

theorem InvK.sweepTimeout {db : DB} (ha : InvA db) (hk : InvK db) (c : Nat) : InvK (sweepTimeout db c).1 := by
  unfold Slock.Ack.sweepTimeout
  simp only []
  have h1 := foldl_inv (fun acc : DB × List Nat => InvA acc.1 ∧ InvK acc.1) Slock.Ack.timeoutStep
    (fun b a hb => ⟨InvA.timeoutStep b a hb.1, InvK.timeoutStep b a hb.2⟩) (slotT db c false) (db, []) ⟨ha, hk⟩
  have h2 := foldl_inv (fun acc : DB × List Reply => InvA acc.1 ∧ InvK acc.1) fireTimeoutStep
    (fun b a hb => by
      unfold fireTimeoutStep
      split
      · exact hb
      · rename_i hnt
        exact ⟨hb.1.fireTimeout a, InvK.fireTimeout hb.1 hb.2 a (by simpa using hnt)⟩)
    (((slotT db c false).foldl Slock.Ack.timeoutStep (db, [])).2 ++ (slotT db c true).map (·.hid)) (((slotT db c false).foldl Slock.Ack.timeoutStep (db, [])).1, []) h1
  exact h2.2

theorem InvK.sweepExpire {db : DB} (ha : InvA db) (hk : InvK db) (c : Nat) : InvK (sweepExpire db c).1 := by
  unfold Slock.Ack.sweepExpire
  simp only []
  have h1 := foldl_inv (fun acc : DB × List Nat => InvA acc.1 ∧ InvK acc.1) Slock.Ack.expireStep
    (fun b a hb => ⟨InvA.expireStep b a hb.1, InvK.expireStep b a hb.2⟩) (slotE db c false) (db, []) ⟨ha, hk⟩
  have h2 := foldl_inv (fun acc : DB × List Reply => InvA acc.1 ∧ InvK acc.1) fireExpireStep
    (fun b a hb => by
      unfold fireExpireStep
      split
      · exact hb
      · rename_i hne
        exact ⟨hb.1.fireExpire a, InvK.fireExpire hb.1 hb.2 a (by simpa using hne)⟩)
    (((slotE db c false).foldl Slock.Ack.expireStep (db, [])).2 ++ (slotE db c true).map (·.hid)) (((slotE db c false).foldl Slock.Ack.expireStep (db, [])).1, []) h1
  exact h2.2

theorem InvK.opTick {db : DB} (ha : InvA db) (hk : InvK db) : InvK (opTick db).1 := by
  rw [opTick_eq]
  have ha0 : InvA (tickT db) := ha.frame rfl rfl rfl rfl
  have hk0 : InvK (tickT db) := hk.frame rfl rfl rfl rfl
  have ha1 : InvA (tickE (Slock.Ack.sweepTimeout (tickT db) (db.now + 1)).1 (db.now + 1)) := (ha0.sweepTimeout (db.now + 1)).frame rfl rfl rfl rfl
  have hk1 : InvK (tickE (Slock.Ack.sweepTimeout (tickT db) (db.now + 1)).1 (db.now + 1)) := (InvK.sweepTimeout ha0 hk0 (db.now + 1)).frame rfl rfl rfl rfl
  exact InvK.sweepExpire ha1 hk1 (db.now + 1)

/-! ### journal delivery and reports -/

theorem InvK.leaderPushLock {db : DB} (ha : InvA db) (hk : InvK db) (id hid : Nat)
    (h0 : (db.getR hid).fp = true → jc db hid = 0 ∧ tc db hid = 0)
    (he : (db.getR hid).pending = true → (db.getR hid).depth > 0 → (db.getR hid).expried = true) : InvK (leaderPushLock db id hid).1 := by
  unfold Slock.Ack.leaderPushLock
  split
  · exact InvK.ackDone ha hk _ _ he (by intro hh; cases hh)
  · split
    · exact InvK.ackDone ha hk _ _ he (by intro hh; cases hh)
    · simp only []
      cases e : findR db.recs hid with
      | none =>
        have hd : db.getR hid = deadRec hid := by rw [getR_eq, e]; rfl
        -- no such record: nothing changes but one more (inert) table entry
        have hrec : (db.modR hid (fun r => { r with ack := reqAcks db.cfg })).recs = db.recs := by
          rw [modR_recs]
          have : ∀ rs : List Rec, findR rs hid = none → modRecs hid (fun r => { r with ack := reqAcks db.cfg }) rs = rs := by
            intro rs; induction rs with
            | nil => intro _; rfl
            | cons x xs ih =>
              intro hn; unfold findR at hn; unfold modRecs
              by_cases ex : (x.hid == hid) = true
              · simp [List.find?, ex] at hn
              · have ex' : (x.hid == hid) = false := by simpa using ex
                simp only [List.find?, ex'] at hn
                rw [ex']; simp only [Bool.false_eq_true, if_false]; rw [ih hn]
          exact this _ e
        have hg : ∀ a, ({ db.modR hid (fun r => { r with ack := reqAcks db.cfg }) with
            tab := db.tab ++ [{ id := id, req := (db.getR hid).cmd.req, hid := hid }] } : DB).getR a = db.getR a := fun a => getR_frame hrec a
        refine ⟨hk.cfg, by show ∀ r ∈ (db.modR hid _).recs, KR r; rw [hrec]; exact hk.recs, ?_, ?_, ?_⟩
        · intro a hfp; rw [hg] at hfp
          have := hk.k2 a hfp
          have hne : a ≠ hid := by intro h; rw [h, hd, fp_dead] at hfp; exact absurd hfp (by decide)
          show jcL db.journal a + tcL (db.tab ++ [_]) a ≤ 1
          rw [tcL_append]
          have : tcL [({ id := id, req := (db.getR hid).cmd.req, hid := hid } : Ent)] a = 0 := by
            rw [tcL_zero_iff]; intro x hx; simp at hx; subst hx; exact fun h => hne h.symm
          unfold jc tc at *; omega
        · intro x hx hfp
          rw [hg] at hfp ⊢
          rcases List.mem_append.mp hx with hx | hx
          · exact hk.k1 x hx hfp
          · simp at hx; subst hx; simp only [] at hfp; rw [hd, fp_dead] at hfp; exact absurd hfp (by decide)
        · intro a hj; rw [hg]; exact hk.kj a hj
      | some r =>
        have hg : db.getR hid = r := by rw [getR_eq, e]; rfl
        have hkr := hk.recs r (findR_some_mem e).1
        have h1 := (AtK.start ha hk e).modR (fun r => { r with ack := reqAcks db.cfg }) (by intro _; rfl)
        have h2 : AtK ({ db.modR hid (fun r => { r with ack := reqAcks db.cfg }) with
            tab := db.tab ++ [{ id := id, req := (db.getR hid).cmd.req, hid := hid }] } : DB) hid ({ r with ack := reqAcks db.cfg } : Rec) := by
          have hgg : ∀ a, ({ db.modR hid (fun r => { r with ack := reqAcks db.cfg }) with
            tab := db.tab ++ [{ id := id, req := (db.getR hid).cmd.req, hid := hid }] } : DB).getR a =
              (db.modR hid (fun r => { r with ack := reqAcks db.cfg })).getR a := fun a => getR_frame rfl a
          refine ⟨h1.cfg, h1.nd, h1.fnd, h1.orec, ?_, ?_, ?_⟩
          rotate_left 2
          · intro a hne hj; rw [hgg]; exact h1.oj a hne hj
          · intro a hne hfp; rw [hgg] at hfp
            have := h1.ok2 a hne hfp
            show jcL db.journal a + tcL (db.tab ++ [_]) a ≤ 1
            rw [tcL_append]
            have : tcL [({ id := id, req := (db.getR hid).cmd.req, hid := hid } : Ent)] a = 0 := by
              rw [tcL_zero_iff]; intro x hx; simp at hx; subst hx; exact fun h => hne h.symm
            unfold jc tc at *; simp only [modR_tab, modR_journal] at *; omega
          · intro x hx hne hfp
            rw [hgg] at hfp ⊢
            rcases List.mem_append.mp hx with hx | hx
            · exact h1.ok1 x hx hne hfp
            · simp at hx; subst hx; exact absurd rfl hne
        have hfp : ({ r with ack := reqAcks db.cfg } : Rec).fp = true → r.fp = true := by
          intro hh
          unfold Rec.fp at hh ⊢
          simp at hh ⊢
          exact ⟨hh.1, hkr.2 hh.1.1 hh.1.2⟩
        have hpn : ({ r with ack := reqAcks db.cfg } : Rec).pending = true := by
          unfold Rec.pending; simp only []; have := hk.cfg; simp; unfold NOACK at *; omega
        refine h2.finish ⟨by simp only []; have := hk.cfg; omega, fun _ _ => hpn⟩ ?_ ?_ (fun _ => Or.inr hpn)
        · intro hh
          have hz := h0 (by rw [hg]; exact hfp hh)
          show jcL db.journal hid + tcL (db.tab ++ [_]) hid ≤ 1
          rw [tcL_append]
          have : tcL [({ id := id, req := (db.getR hid).cmd.req, hid := hid } : Ent)] hid ≤ 1 := by unfold tcL; simp [List.filter]
          unfold jc tc at hz; omega
        · intro x hx hxe hh
          have hz := h0 (by rw [hg]; exact hfp hh)
          rcases List.mem_append.mp hx with hx | hx
          · exact absurd hxe ((tcL_zero_iff _ _).mp hz.2 x hx)
          · simp at hx; subst hx; simp [cnt]

theorem InvK.leaderPushUnLock {db : DB} (ha : InvA db) (hk : InvK db) (hid : Nat)
    (he : (db.getR hid).pending = true → (db.getR hid).depth > 0 → (db.getR hid).expried = true) : InvK (leaderPushUnLock db hid).1 := by
  unfold Slock.Ack.leaderPushUnLock
  split
  · rename_i e _; exact InvK.ackDone (ha.dropEnt e.id) (hk.dropEnt e.id) _ _ he (by intro hh; cases hh)
  · exact hk

theorem InvK.popJ {db : DB} (hk : InvK db) (k : Nat) : InvK (popJ db k) := hk.sub rfl (List.Sublist.refl _) List.eraseP_sublist rfl

theorem jc_pos_of_mem {db : DB} {j : JRec} {h : Nat} (hm : j ∈ db.journal) (hl : j.isLock = true) (hh : j.hid = some h) : jc db h > 0 := by
  cases e : jc db h with
  | zero => exact absurd hh ((jcL_zero_iff _ _).mp e j hm hl)
  | succ n => omega

theorem tc_pos_of_mem {db : DB} {e : Ent} (hm : e ∈ db.tab) : tc db e.hid > 0 := by
  cases h : tc db e.hid with
  | zero => exact absurd rfl ((tcL_zero_iff _ _).mp h e hm)
  | succ n => omega

/-- the LOCK record being delivered to a leader belongs to a lock that is dead or still waiting for it (`InvK.kj`): the guard of the balance -/
theorem InvK.pushGuard {db : DB} (hk : InvK db) {j : JRec} {hid : Nat} (hm : j ∈ db.journal) (hl : j.isLock = true) (hh : j.hid = some hid) :
    (db.getR hid).depth > 0 → (db.getR hid).pending = true := by
  intro hd
  rcases hk.kj hid (jc_pos_of_mem hm hl hh) with h | h
  · omega
  · exact h

theorem InvK.opPush {db : DB} (ha : InvA db) (hk : InvK db) (hq : InvQ db) (k : Nat) (werr : Bool) : InvK (opPush db k werr).1 := by
  rw [opPush_eq]
  split
  · exact hk
  · rename_i j hj
    have hjm : j ∈ db.journal := List.mem_of_find?_eq_some hj
    have ha1 := ha.popJ k
    have hk1 := hk.popJ k
    have hq1 := hq.popJ k
    split
    · exact hk1
    · rename_i hid hh
      have hgr : ∀ a, (Slock.Ack.popJ db k).getR a = db.getR a := fun a => getR_frame rfl a
      have hex : ((Slock.Ack.popJ db k).getR hid).pending = true → ((Slock.Ack.popJ db k).getR hid).depth > 0 → ((Slock.Ack.popJ db k).getR hid).expried = true :=
        fun hp _ => expried_of_pending (hq1.getR hid) hp
      have h2 : InvA (if (Slock.Ack.popJ db k).leader = true then (if j.isLock = true then Slock.Ack.leaderPushLock (Slock.Ack.popJ db k) (Slock.Ack.popJ db k).nextId hid
            else Slock.Ack.leaderPushUnLock (Slock.Ack.popJ db k) hid) else (Slock.Ack.popJ db k, [])).1 ∧
          InvK (if (Slock.Ack.popJ db k).leader = true then (if j.isLock = true then Slock.Ack.leaderPushLock (Slock.Ack.popJ db k) (Slock.Ack.popJ db k).nextId hid
            else Slock.Ack.leaderPushUnLock (Slock.Ack.popJ db k) hid) else (Slock.Ack.popJ db k, [])).1 ∧
          InvQ (if (Slock.Ack.popJ db k).leader = true then (if j.isLock = true then Slock.Ack.leaderPushLock (Slock.Ack.popJ db k) (Slock.Ack.popJ db k).nextId hid
            else Slock.Ack.leaderPushUnLock (Slock.Ack.popJ db k) hid) else (Slock.Ack.popJ db k, [])).1 := by
        split
        · split
          · rename_i hil
            have hjr := ha.jrn j hjm hil hid hh
            refine ⟨ha1.leaderPushLock _ _ hjr.1 (by rw [hgr]; exact hjr.2), InvK.leaderPushLock ha1 hk1 _ _ ?_ hex,
              (leaderPushLock_cons ((0, 0) : Rid) ha1 hq1 _ hid (fun _ hd => by rw [hgr] at hd ⊢; exact hk.pushGuard hjm hil hh hd)).1⟩
            intro hfp
            rw [hgr] at hfp
            have h2 := hk.k2 hid hfp
            have he := jcL_eraseP db.journal k hid
            rw [hj] at he
            have : (j.isLock && j.hid == some hid) = true := by simp [hil, hh]
            simp only [this, if_true] at he
            have e1 : jc (Slock.Ack.popJ db k) hid = jcL (db.journal.eraseP (·.key == k)) hid := rfl
            have e2 : tc (Slock.Ack.popJ db k) hid = tc db hid := rfl
            unfold jc at h2
            constructor <;> omega
          · exact ⟨ha1.leaderPushUnLock _, InvK.leaderPushUnLock ha1 hk1 _ hex, (leaderPushUnLock_cons ((0, 0) : Rid) ha1 hq1 hid).1⟩
        · exact ⟨ha1, hk1, hq1⟩
      dsimp only
      split
      · exact InvK.ackDone h2.1 h2.2.1 _ _ (fun hp _ => expried_of_pending (h2.2.2.getR hid) hp) (by intro hh; cases hh)
      · exact h2.2.1

/-- `noteOk` replaces the first entry with that id by one with one more positive report noted -/
theorem noteOk_split {id : Nat} {who : Option Nat} {l : List Ent} {e : Ent} (h : l.find? (·.id == id) = some e) :
    ∃ l1 l2 e', l = l1 ++ e :: l2 ∧ noteOk id who l = l1 ++ e' :: l2 ∧ e'.hid = e.hid ∧ e'.id = e.id ∧ e'.oks = e.oks ++ [who] := by
  induction l with
  | nil => simp at h
  | cons x xs ih =>
    unfold noteOk
    by_cases ex : (x.id == id) = true
    · simp only [List.find?, ex] at h
      have : x = e := by simpa using h
      subst this
      rw [if_pos ex]
      exact ⟨[], xs, _, rfl, rfl, rfl, rfl, rfl⟩
    · have ex' : (x.id == id) = false := by simpa using ex
      simp only [List.find?, ex'] at h
      rw [ex']; simp only [Bool.false_eq_true, if_false]
      obtain ⟨l1, l2, e', a1, a2, a3⟩ := ih h
      exact ⟨x :: l1, l2, e', by rw [a1]; rfl, by rw [a2]; rfl, a3⟩

theorem tcL_noteOk {id : Nat} {who : Option Nat} {l : List Ent} (h : Nat) : tcL (noteOk id who l) h = tcL l h := by
  induction l with
  | nil => rfl
  | cons x xs ih =>
    unfold noteOk
    split
    · unfold tcL; simp only [List.filter]; split <;> simp
    · unfold tcL at ih ⊢; simp only [List.filter]; split <;> simp [ih]

/-- fewer table entries -/
theorem AtK.subTab {db db' : DB} {hid : Nat} {r : Rec} (h : AtK db hid r) (e1 : db'.recs = db.recs) (e2 : db'.tab.Sublist db.tab)
    (e3 : db'.journal = db.journal) (e4 : db'.cfg = db.cfg) : AtK db' hid r := by
  have hg : ∀ a, db'.getR a = db.getR a := fun a => getR_frame e1 a
  refine ⟨by rw [e4]; exact h.cfg, by rw [e1]; exact h.nd, by rw [e1]; exact h.fnd, by rw [e1]; exact h.orec, ?_, ?_, ?_⟩
  · intro a ha hfp; rw [hg] at hfp
    have := h.ok2 a ha hfp
    have h2 : tc db' a ≤ tc db a := tcL_sublist e2 a
    have h1 : jc db' a = jc db a := by unfold jc; rw [e3]
    omega
  · rw [e4]; intro x hx hne hfp; rw [hg] at hfp ⊢; exact h.ok1 x (e2.subset hx) hne hfp
  · intro a ha hj; rw [jc_of_journal e3] at hj; rw [hg]; exact h.oj a ha hj

theorem InvK.opReport {db : DB} (ha : InvA db) (hk : InvK db) (hq : InvQ db) (id : Nat) (who : Option Nat) (ok : Bool) : InvK (opReport db id who ok).1 := by
  unfold Slock.Ack.opReport
  split
  · exact hk
  · rename_i e he
    have hem : e ∈ db.tab := List.mem_of_find?_eq_some he
    simp only []
    split
    · exact InvK.ackDone (ha.dropEnt id) (hk.dropEnt id) _ _ (fun hp _ => expried_of_pending ((hq.dropEnt id).getR e.hid) hp) (by intro hh; cases hh)
    · rename_i hc
      have hp : (db.getR e.hid).pending = true := by
        cases hh : (db.getR e.hid).pending with
        | true => rfl
        | false => simp [hh] at hc
      have hpr := present_of (Or.inl hp)
      have hkr := hk.recs _ (findR_some_mem hpr).1
      have hge := (ha.tabOk e hem).2.2 hp
      have hne : (db.getR e.hid).ack ≠ NOACK := (pending_iff _).mp hp
      have hdec : decU8 (db.getR e.hid).ack = (db.getR e.hid).ack - 1 := by unfold decU8; rw [if_neg (by omega)]
      have hs := (AtK.start ha hk hpr).modR (fun r => { r with ack := decU8 r.ack }) (by intro _; rfl)
      have hpend' : ({ (db.getR e.hid) with ack := decU8 (db.getR e.hid).ack } : Rec).pending = true := by
        unfold Rec.pending; simp only []; rw [hdec]; have := hkr.1; unfold NOACK at *; simp; omega
      have hfp' : ({ (db.getR e.hid) with ack := decU8 (db.getR e.hid).ack } : Rec).fp = (db.getR e.hid).fp := by
        unfold Rec.fp; rw [hpend', hp]
      split
      · -- still waiting: the counter went down by one, the entry notes one more positive report
        obtain ⟨l1, l2, e', a1, a2, a3, a4, a5⟩ := noteOk_split (who := who) he
        have hg : ∀ a, ({ db.modR e.hid (fun r => { r with ack := decU8 r.ack }) with tab := noteOk id who (db.modR e.hid (fun r => { r with ack := decU8 r.ack })).tab } : DB).getR a =
            (db.modR e.hid (fun r => { r with ack := decU8 r.ack })).getR a := fun a => getR_frame rfl a
        have h2 : AtK ({ db.modR e.hid (fun r => { r with ack := decU8 r.ack }) with tab := noteOk id who (db.modR e.hid (fun r => { r with ack := decU8 r.ack })).tab } : DB)
            e.hid ({ (db.getR e.hid) with ack := decU8 (db.getR e.hid).ack } : Rec) := by
          refine ⟨hs.cfg, hs.nd, hs.fnd, hs.orec, ?_, ?_, ?_⟩
          rotate_left 2
          · intro a hne' hj; rw [hg]; exact hs.oj a hne' hj
          · intro a hne' hfp; rw [hg] at hfp
            have := hs.ok2 a hne' hfp
            show jcL db.journal a + tcL (noteOk id who db.tab) a ≤ 1
            rw [tcL_noteOk]; exact this
          · intro x hx hne' hfp
            rw [hg] at hfp ⊢
            have hx' : x ∈ noteOk id who db.tab := hx
            rw [a2] at hx'
            have : x ∈ db.tab := by
              rw [a1]
              rcases List.mem_append.mp hx' with h | h
              · exact List.mem_append_left _ h
              · rcases List.mem_cons.mp h with h | h
                · rw [h, a3] at hne'; exact absurd rfl hne'
                · exact List.mem_append_right _ (List.mem_cons_of_mem _ h)
            exact hs.ok1 x this hne' hfp
        refine h2.finish ⟨by simp only []; rw [hdec]; have := hkr.1; omega, fun _ _ => hpend'⟩ ?_ ?_ (fun _ => Or.inr hpend')
        · intro hf; rw [hfp'] at hf
          show jcL db.journal e.hid + tcL (noteOk id who db.tab) e.hid ≤ 1
          rw [tcL_noteOk]; exact hk.k2 e.hid hf
        · intro x hx hxe hf
          rw [hfp'] at hf
          have h2' := hk.k2 e.hid hf
          have h1' := hk.k1 e hem hf
          have hx' : x ∈ noteOk id who db.tab := hx
          rw [a2] at hx'
          -- by k2 the only entry of this record is `e` itself
          have htc : tcL l1 e.hid = 0 ∧ tcL l2 e.hid = 0 := by
            unfold tc at h2'; rw [a1, tcL_append] at h2'
            have : tcL (e :: l2) e.hid = 1 + tcL l2 e.hid := by unfold tcL; simp [List.filter]; omega
            omega
          have : x = e' := by
            rcases List.mem_append.mp hx' with h | h
            · exact absurd hxe ((tcL_zero_iff _ _).mp htc.1 x h)
            · rcases List.mem_cons.mp h with h | h
              · exact h
              · exact absurd hxe ((tcL_zero_iff _ _).mp htc.2 x h)
          subst this
          unfold cnt at *
          simp only []
          rw [a5, hdec]; simp; omega
      · -- the last decrement: the entry goes, `DoAckLock(lock, true)` settles the record
        have h3 := hs.subTab (db' := (db.modR e.hid (fun r => { r with ack := decU8 r.ack })).dropEnt id) rfl List.filter_sublist rfl rfl
        have h0 := h3.modR (fun r => { r with timeouted := true }) (by intro _; rfl)
        have hp3 : (((db.modR e.hid (fun r => { r with ack := decU8 r.ack })).dropEnt id).getR e.hid).pending = true := by rw [h3.getR]; exact hpend'
        unfold Slock.Ack.ackDone classifyAck
        simp only [hp3, Bool.not_true, Bool.false_eq_true, if_false, if_true]
        split
        · unfold Slock.Ack.applyAck; simp only []
          rename_i hb
          have h1 := h0.modR (fun r => { r with ack := NOACK, undo := none }) (by intro _; rfl)
          have hexq : (db.getR e.hid).expried = true := expried_of_pending (hq.getR e.hid) hp
          rw [h3.getR] at hb
          simp only [] at hb
          simp at hb
          refine h1.finishN ⟨Nat.le_refl _, ?_⟩ (fp_false_of_noack rfl) ?_
          · intro hd hex
            simp only [] at hd hex
            rcases hb with hb | hb
            · rw [hb] at hex; exact absurd hex (by decide)
            · omega
          · intro _
            rcases hb with hb | hb
            · rw [hb] at hexq; exact absurd hexq (by decide)
            · exact Or.inl hb
        · unfold Slock.Ack.applyAck; simp only []
          have h1 := h0.modR (fun r => { r with ack := NOACK, undo := none, expT := r.startT + r.cmd.expried + 1 }) (by intro _; rfl)
          obtain ⟨r2, h2, c1, c2, c3⟩ := h1.addExpried
          rename_i hb
          rw [h3.getR] at hb
          simp only [] at hb
          simp at hb
          have hfp0 : (db.getR e.hid).fp = true := by unfold Rec.fp; simp [hp, hb.1]; omega
          have hz : jc db e.hid = 0 := by have := hk.k2 e.hid hfp0; have := tc_pos_of_mem hem; omega
          refine h2.finishN ⟨by rw [c2]; exact Nat.le_refl _, by intro _ hh; rw [c3] at hh; exact absurd hh (by decide)⟩ (fp_false_of_expried c3) ?_
          intro hj
          have hj' : jc db e.hid > 0 := hj
          omega

theorem InvK.opFailAll {db : DB} (ha : InvA db) (hk : InvK db) (hq : InvQ db) (order : List Nat) : InvK (opFailAll db order).1 := by
  unfold Slock.Ack.opFailAll
  simp only []
  have h1 := foldl_inv (fun acc : DB × List Reply => InvA acc.1 ∧ InvK acc.1 ∧ InvQ acc.1) failStep (fun b a hb => by
      unfold failStep
      exact ⟨hb.1.ackDone a false, InvK.ackDone hb.1 hb.2.1 a false (fun hp _ => expried_of_pending (hb.2.2.getR a) hp) (by intro hh; cases hh),
        (ackDone_cons ((0, 0) : Rid) hb.1 hb.2.2 a false).1⟩)
    (order.filterMap (fun id => (db.findId id).map (·.hid)) ++ (db.tab.filter (fun e => !order.contains e.id)).map (·.hid)) (db, []) ⟨ha, hk, hq⟩
  exact h1.2.1.sub rfl (List.nil_sublist _) (List.Sublist.refl _) rfl

theorem InvK.step {db : DB} (ha : InvA db) (hk : InvK db) (hq : InvQ db) (e : Ev) : InvK (step db e).1 := by
  cases e with
  | lock c => exact InvK.opLock ha hk c
  | unlock c => exact InvK.opUnlock ha hk c
  | tick => exact InvK.opTick ha hk
  | push k => exact InvK.opPush ha hk hq k false
  | pushW k => exact InvK.opPush ha hk hq k true
  | aofed id ok => unfold Slock.Ack.step opAofed; simp only []; split; exact InvK.opReport ha hk hq _ _ _; exact hk
  | acked id f ok => exact InvK.opReport ha hk hq _ _ _
  | role b => exact hk.frame rfl rfl rfl rfl
  | closed b => exact hk.frame rfl rfl rfl rfl
  | demote o => exact InvK.opFailAll ha hk hq o
  | flush o => exact InvK.opFailAll ha hk hq o

theorem InvK.init (cfg : Cfg) (now : Nat) (hc : reqAcks cfg < NOACK) : InvK (DB.init cfg now) := by
  refine ⟨hc, ?_, ?_, ?_, ?_⟩
  rotate_left 3
  · intro h hj; simp [jc, jcL, DB.init] at hj
  · intro r hr; simp [DB.init] at hr
  · intro h hf
    have : (DB.init cfg now).getR h = deadRec h := rfl
    rw [this, fp_dead] at hf; exact absurd hf (by decide)
  · intro e he; simp [DB.init] at he

end Slock.Ack
