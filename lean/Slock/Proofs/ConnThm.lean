import Slock.Proofs.ConnRun
/-! Consequences of the M-CONN invariants used by the C18 statements: idempotence of close, routing, what close does to the
engine, answerability of pending tokens, the bookkeeping of will registrations. -/
namespace Slock.Conn

/-! ### close is idempotent -/
theorem stepClose_idem (s : Server) (c : Nat) (hd : s.dead = none) :
    (step (stepClose s c).1 (.close c .server)).1 = (stepClose s c).1 := by
  unfold stepClose
  cases hx : s.conns[c]? with
  | none =>
    simp only []
    unfold step stepClose; simp [hd, hx]
  | some x =>
    simp only []
    split
    · rename_i hc
      unfold step stepClose; simp [hd, hx, hc]
    · rename_i hc
      split
      · rename_i ha
        have h1 : (s.conns.set c { x with halfClosed := true })[c]? = some { x with halfClosed := true } := get_set_self hx _
        unfold step stepClose
        simp only [hd, h1]
        rw [if_neg (show ¬ ({ x with halfClosed := true } : Conn).closed = true from hc),
          if_pos (show ({ x with halfClosed := true } : Conn).awaiting ≠ 0 from ha)]
        simp [List.set_set]
      · rename_i ha
        cases hf : (drainK (closeState s c x) c x).2 with
        | some f =>
          rw [doClose_some s c x f hf]
          unfold step; simp
        | none =>
          rw [doClose_none s c x hf]
          have h1 := closed_get_self hx { closing x with inited := false }
          unfold step stepClose
          simp only [h1]
          simp [closing]

theorem close_idem (s : Server) (c : Nat) (k k' : Cause) :
    (step (step s (.close c k)).1 (.close c k')).1 = (step s (.close c k)).1 := by
  cases hd : s.dead with
  | some f =>
    have : (step s (.close c k)).1 = s := step_dead _ f hd
    rw [this]; exact step_dead _ f hd
  | none =>
    have e1 : (step s (.close c k)).1 = (stepClose s c).1 := by unfold step; simp [hd]
    have e2 : ∀ t : Server, (step t (.close c k')).1 = (step t (.close c .server)).1 := by
      intro t; unfold step; cases t.dead <;> rfl
    rw [e1, e2]; exact stepClose_idem s c hd

/-! ### routing -/
theorem recvN_open (s : Server) (n d tok : Nat) (y : Conn) (hy : s.conns[d]? = some y) (ho : y.closed = false) (e : Nat)
    (h : recvN s (n + 1) d tok = .to e) : e = d := by
  unfold recvN at h
  simp only [hy] at h
  cases hk : y.kind <;> simp only [hk] at h
  · simp [ho] at h; exact h.symm
  · split at h
    · cases h
    · simp [ho] at h
      split at h
      · cases h
      · cases h; rfl

theorem route_to {s : Server} (hg : Good s) (tok o : Nat) (x : Conn) (d : Nat) (ho : aget s.owner tok = some o)
    (hx : s.conns[o]? = some x) (hd : (route s tok).2 = .to d) :
    (d = o ∧ x.closed = false) ∨
    (x.closed = true ∧ d ≠ o ∧ x.cid ≠ 0 ∧ x.cid ∈ x.announced ∧
      ∃ y, s.conns[d]? = some y ∧ y.closed = false ∧ x.cid ∈ y.announced) := by
  unfold route at hd
  simp only [ho, hx] at hd
  cases ht : x.target with
  | self =>
    simp only [ht] at hd
    have hop : x.closed = false := by
      cases hc : x.closed
      · rfl
      · exact absurd ht (hg.closedShape o x hx hc).2.1
    exact .inl ⟨recv_open s o tok x hx hop d hd, hop⟩
  | conn d0 =>
    simp only [ht] at hd
    obtain ⟨hnz, y, hy, hyo, hya⟩ := hg.adopted o x d0 hx ht
    have hxc : x.closed = true := closed_of_target hg hx (by rw [ht]; simp)
    have : d = d0 := recv_open s d0 tok y hy hyo d hd
    subst this
    refine .inr ⟨hxc, ?_, hnz, hg.announcedOwn o x hx (.inl hnz), y, hy, hyo, hya⟩
    intro e; subst e; rw [hx] at hy; cases hy; rw [hxc] at hyo; cases hyo
  | default =>
    simp only [ht] at hd
    have hxc : x.closed = true := closed_of_target hg hx (by rw [ht]; simp)
    by_cases hnz : x.cid = 0
    · simp [hnz] at hd
    · simp only [hnz, if_false] at hd
      cases hl : aget s.clients x.cid with
      | none => simp [hl] at hd
      | some d0 =>
        simp only [hl] at hd
        obtain ⟨y, hy, hyo, _, _, hya, _⟩ := hg.clientsOk x.cid d0 hl
        have hd' : recv s d0 tok = .to d := by
          split at hd <;> exact hd
        have : d = d0 := recv_open s d0 tok y hy hyo d hd'
        subst this
        refine .inr ⟨hxc, ?_, hnz, hg.announcedOwn o x hx (.inl hnz), y, hy, hyo, hya⟩
        intro e; subst e; rw [hx] at hy; cases hy; rw [hxc] at hyo; cases hyo

/-- a closed, inited binary connection still registered under its own id forwards to itself for ever -/
theorem recvN_self_loop (s : Server) (c tok : Nat) (z : Conn) (hz : s.conns[c]? = some z) (hk : z.kind = .binary)
    (hc : z.closed = true) (hi : z.inited = true) (hr : aget s.clients z.cid = some c) : ∀ n, recvN s n c tok = .loop := by
  intro n
  induction n with
  | zero => rfl
  | succ n ih =>
    unfold recvN
    simp [hz, hk, hc, hi, hr, ih]

/-- where the immediate reply of a will goes: to the OPEN connection registered under the closing connection's id -/
theorem will_reply_to {s : Server} (hg : Good s) (c : Nat) (x : Conn) (hx : s.conns[c]? = some x) (t d : Nat)
    (h : recv (closeState s c x) c t = .to d) :
    x.inited = true ∧ aget s.clients x.cid = some d ∧ d ≠ c ∧ ∃ y, s.conns[d]? = some y ∧ y.closed = false := by
  have hc1 : (closeState s c x).conns[c]? = some (closing x) := closed1_get_self hx
  unfold recv recvN at h
  simp only [hc1] at h
  cases hk : x.kind with
  | text =>
    have : (closing x).kind = .text := by simp [closing, hk]
    simp only [this] at h
    split at h
    · cases h
    · simp [closing] at h
  | binary =>
    have hkk : (closing x).kind = .binary := by simp [closing, hk]
    simp only [hkk] at h
    have hcl : (closing x).closed = true := rfl
    simp only [hcl, Bool.not_true, Bool.false_eq_true, if_false] at h
    cases hi : x.inited with
    | false =>
      have : (closing x).inited = false := by simp [closing, hi]
      simp [this] at h
    | true =>
      have hii : (closing x).inited = true := by simp [closing, hi]
      have hcid : (closing x).cid = x.cid := rfl
      simp only [hii, Bool.not_true, Bool.false_eq_true, if_false, hcid] at h
      have hcl' : (closeState s c x).clients = unregister s c x := rfl
      rw [hcl'] at h
      cases hl : aget (unregister s c x) x.cid with
      | none => simp [hl] at h
      | some e =>
        simp only [hl] at h
        obtain ⟨h1, hec⟩ := unregister_some hg hx _ _ hl
        obtain ⟨y, hy, hyo, _⟩ := hg.clientsOk x.cid e h1
        have hy1 : (closeState s c x).conns[e]? = some (unadopt c y) := by
          show ((s.conns.map (unadopt c)).set c (closing x))[e]? = _
          rw [closed1_get_ne x hec, hy]; rfl
        have hlen : (closeState s c x).conns.length = (s.conns.length - 1) + 1 := by
          show ((s.conns.map (unadopt c)).set c (closing x)).length = _
          have := lt_of_get hx
          simp; omega
        rw [hlen] at h
        have := recvN_open (closeState s c x) _ e t (unadopt c y) hy1 (by rw [unadopt_closed]; exact hyo) d h
        subst this
        exact ⟨rfl, h1, hec, y, hy, hyo⟩

/-- the same, read off the output of the close event -/
theorem close_reply_to {s : Server} (hg : Good s) (c : Nat) (k : Cause) (res : List WillRes) (f : Option Fatal)
    (r : WillRes) (d : Nat) (h : (step s (.close c k)).2 = .closed res f) (hm : r ∈ res) (hrd : r.reply = some (Dest.to d)) :
    ∃ x, s.conns[c]? = some x ∧ x.inited = true ∧ aget s.clients x.cid = some d ∧ d ≠ c ∧
      ∃ y, s.conns[d]? = some y ∧ y.closed = false := by
  unfold step at h
  cases hd : s.dead with
  | some ff => simp [hd] at h
  | none =>
    simp only [hd] at h
    unfold stepClose at h
    cases hx : s.conns[c]? with
    | none => simp [hx] at h
    | some x =>
      simp only [hx] at h
      split at h
      · cases h
      · split at h
        · cases h
        · have hres : res = (drainK (closeState s c x) c x).1 := by
            cases hf : (drainK (closeState s c x) c x).2 with
            | none => rw [doClose_none s c x hf] at h; simp at h; exact h.1.symm
            | some ff => rw [doClose_some s c x ff hf] at h; simp at h; exact h.1.symm
          rw [hres] at hm
          unfold drainK at hm
          cases hk : x.kind with
          | text => simp only [hk] at hm; exact absurd hrd (drainT_no_to _ r d hm)
          | binary =>
            simp only [hk] at hm
            have hr := drain_to _ c x.wills r d hm hrd
            exact ⟨x, rfl, will_reply_to hg c x hx r.tok d hr⟩

/-! ### what close does to the engine -/
theorem aget_putOwners_notin (m : List (Nat × Nat)) (c : Nat) (toks : List Nat) (tok : Nat) (h : tok ∉ toks) :
    aget (putOwners m c toks) tok = aget m tok := by
  induction toks generalizing m with
  | nil => rfl
  | cons t ts ih =>
    simp only [List.mem_cons, not_or] at h
    unfold putOwners
    rw [ih _ h.2, aget_aput_ne _ _ _ _ h.1]

/-- `Close` touches the engine only by submitting wills of the closing connection, a prefix of its queue in order (all of
it unless `Close` dies), and leaves the issuer of every other pending token as it was -/
theorem doClose_engine (s : Server) (c : Nat) (x : Conn) :
    ∃ toks rest, (doClose s c x).1.willLog = s.willLog ++ toks.map (fun t => (c, t)) ∧
      x.wills.map (·.tok) = toks ++ rest ∧
      ((doClose s c x).2.2 = none → rest = []) ∧
      (∀ tok, tok ∉ toks → aget (doClose s c x).1.owner tok = aget s.owner tok) := by
  obtain ⟨rest, hr⟩ := drainK_prefix (closeState s c x) c x
  cases hf : (drainK (closeState s c x) c x).2 with
  | none =>
    rw [doClose_none s c x hf]
    refine ⟨_, rest, rfl, hr, ?_, fun tok h => aget_putOwners_notin _ _ _ _ h⟩
    intro _
    have := drainK_nonfatal_toks _ c x hf
    rw [this] at hr
    have hl := congrArg List.length hr
    simp only [List.length_append] at hl
    exact List.eq_nil_of_length_eq_zero (by omega)
  | some f =>
    rw [doClose_some s c x f hf]
    exact ⟨_, rest, rfl, hr, (fun h => by simp at h), fun tok h => aget_putOwners_notin _ _ _ _ h⟩

theorem stepClose_engine (s : Server) (c : Nat) :
    ∃ toks, (stepClose s c).1.willLog = s.willLog ++ toks.map (fun t => (c, t)) ∧
      (∀ x, s.conns[c]? = some x → ∃ rest, x.wills.map (·.tok) = toks ++ rest) ∧
      (∀ tok, tok ∉ toks → aget (stepClose s c).1.owner tok = aget s.owner tok) := by
  unfold stepClose
  cases hx : s.conns[c]? with
  | none => exact ⟨[], by simp, (by intro x h; cases h), fun _ _ => rfl⟩
  | some x =>
    simp only []
    split
    · exact ⟨[], by simp, fun x' _ => ⟨_, rfl⟩, fun _ _ => rfl⟩
    · split
      · exact ⟨[], by simp, fun x' _ => ⟨_, rfl⟩, fun _ _ => rfl⟩
      · obtain ⟨toks, rest, h1, h2, _, h4⟩ := doClose_engine s c x
        exact ⟨toks, h1, fun x' hx' => by cases hx'; exact ⟨rest, h2⟩, h4⟩

/-- in a reachable state `Close` handles every will of the queue, in order, each with the outcome `willOutcome` says —
whatever the outcome of the earlier ones (the error `ProcessCommad` returns for a self-answered will is ignored) -/
theorem doClose_outcomes {s : Server} (hg : Good s) {c : Nat} {x : Conn} (hx : s.conns[c]? = some x) (hk : x.kind = .binary) :
    (doClose s c x).2.1 = x.wills.map (willOutcome (closeState s c x) c) := by
  have ha := doClose_alive hg hx
  have hdn : (drainK (closeState s c x) c x).2 = none := by
    cases h2 : (drainK (closeState s c x) c x).2 with
    | none => rfl
    | some f => rw [doClose_some _ _ _ f h2] at ha; cases ha
  rw [doClose_none _ _ _ hdn]
  show (drainK (closeState s c x) c x).1 = _
  unfold drainK at hdn ⊢
  simp only [hk] at hdn ⊢
  exact drain_nonfatal _ c x.wills hdn

/-- in a reachable state `Close` submits the WHOLE will queue -/
theorem doClose_all {s : Server} (hg : Good s) {c : Nat} {x : Conn} (hx : s.conns[c]? = some x) :
    (doClose s c x).1.willLog = s.willLog ++ (x.wills.map (·.tok)).map (fun t => (c, t)) := by
  obtain ⟨toks, rest, h1, h2, h3, _⟩ := doClose_engine s c x
  have := h3 (doClose_alive hg hx)
  subst this
  rw [h1, h2, List.append_nil]

/-! ### pending tokens stay answerable -/
theorem recv_noloop {s : Server} (hg : Good s) (d tok : Nat) : recv s d tok ≠ .loop := by
  cases hd : s.conns[d]? with
  | none => rw [recv_none s d tok hd]; simp
  | some y =>
    cases hc : y.closed
    · exact recv_open_noloop s d tok y hd hc
    · exact (recv_closed_plain s d tok y hd hc (hg.closedShape d y hd hc).1).1

theorem route_noloop {s : Server} (hg : Good s) (tok : Nat) : (route s tok).2 ≠ .loop := by
  unfold route
  cases ho : aget s.owner tok with
  | none => simp
  | some o =>
    simp only []
    cases hx : s.conns[o]? with
    | none => simp
    | some x =>
      simp only []
      cases ht : x.target with
      | self => exact recv_noloop hg o tok
      | conn d => exact recv_noloop hg d tok
      | default =>
        simp only []
        split
        · simp
        · cases hl : aget s.clients x.cid with
          | none => simp
          | some d =>
            simp only []
            split <;> exact recv_noloop hg d tok

/-- nothing refers to a closed connection any more -/
theorem closed_unreferenced {s : Server} (hg : Good s) (c : Nat) (x : Conn) (hx : s.conns[c]? = some x) (hc : x.closed = true) :
    (∀ k, aget s.clients k ≠ some c) ∧ (∀ (o : Nat) (y : Conn), s.conns[o]? = some y → y.target ≠ .conn c) := by
  constructor
  · intro k h
    obtain ⟨z, hz, hzo, _⟩ := hg.clientsOk k c h
    rw [hx] at hz; cases hz; rw [hc] at hzo; cases hzo
  · intro o y hy ht
    obtain ⟨_, z, hz, hzo, _⟩ := hg.adopted o y c hy ht
    rw [hx] at hz; cases hz; rw [hc] at hzo; cases hzo

end Slock.Conn
