import Slock.Proofs.ConnRun
/-! Consequences of the M-CONN invariants used by the C18 statements: idempotence of close, routing, what close does to the
engine, answerability of pending tokens, the bookkeeping of will registrations. -/
namespace Slock.Conn

/-! ### close is idempotent -/
theorem closeOne_none {t : Server} {j : Nat} (h : t.conns[j]? = none) : closeOne t j = (t, .ignored) := by
  unfold closeOne; simp [h]

theorem closeOne_noop {t : Server} {j : Nat} {x : Conn} (h : t.conns[j]? = some x) (hc : x.closed = true) :
    closeOne t j = (t, .noop) := by
  unfold closeOne; simp [h, hc]

theorem closeOne_defer {t : Server} {j : Nat} {x : Conn} (h : t.conns[j]? = some x) (hc : x.closed = false)
    (ha : x.awaiting ≠ 0) :
    closeOne t j = ({ t with conns := t.conns.set j { x with halfClosed := true } }, .deferred) := by
  unfold closeOne; simp [h, hc, ha]

theorem closeOne_do {t : Server} {j : Nat} {x : Conn} (h : t.conns[j]? = some x) (hc : x.closed = false)
    (ha : x.awaiting = 0) :
    closeOne t j = ((doClose t j x).1, .closed (doClose t j x).2.1 (doClose t j x).2.2) := by
  unfold closeOne; simp [h, hc, ha]

theorem doClose_dead (t : Server) (j : Nat) (x : Conn) : (doClose t j x).1.dead = (doClose t j x).2.2 := by
  cases hf : (drainK (closeState t j x) j x).2 with
  | none => rw [doClose_none t j x hf]
  | some f => rw [doClose_some t j x f hf]

/-- the record `Close()` worked on is closed afterwards -/
theorem doClose_self_closed {t : Server} {j : Nat} {x : Conn} (h : t.conns[j]? = some x) :
    ∃ y', (doClose t j x).1.conns[j]? = some y' ∧ y'.closed = true ∧ y'.outer = x.outer ∧ y'.nested = x.nested ∧ y'.awaiting = x.awaiting := by
  cases hf : (drainK (closeState t j x) j x).2 with
  | none => rw [doClose_none t j x hf]; exact ⟨_, closed_get_self h _, rfl, rfl, rfl, rfl⟩
  | some f => rw [doClose_some t j x f hf]; exact ⟨_, closed1_get_self h, rfl, rfl, rfl, rfl⟩

theorem doClose_other {t : Server} {j i : Nat} (x : Conn) (e : i ≠ j) :
    (doClose t j x).1.conns[i]? = (t.conns[i]?).map (unadopt j) := by
  cases hf : (drainK (closeState t j x) j x).2 with
  | none => rw [doClose_none t j x hf]; exact closed_get_ne x _ e
  | some f => rw [doClose_some t j x f hf]; exact closed1_get_ne x e

/-- `Close()` of one protocol object twice = once -/
theorem closeOne_idem (s : Server) (c : Nat) : (closeOne (closeOne s c).1 c).1 = (closeOne s c).1 := by
  cases hx : s.conns[c]? with
  | none => rw [closeOne_none hx]; simp only []; rw [closeOne_none hx]
  | some x =>
    cases hc : x.closed with
    | true => rw [closeOne_noop hx hc]; simp only []; rw [closeOne_noop hx hc]
    | false =>
      by_cases ha : x.awaiting = 0
      · rw [closeOne_do hx hc ha]
        simp only []
        obtain ⟨y', hy', hyc, _⟩ := doClose_self_closed (t := s) hx
        rw [closeOne_noop hy' hyc]
      · rw [closeOne_defer hx hc ha]
        simp only []
        have h1 : (s.conns.set c { x with halfClosed := true })[c]? = some { x with halfClosed := true } := get_set_self hx _
        rw [closeOne_defer (t := { s with conns := s.conns.set c { x with halfClosed := true } }) h1 hc ha]
        simp [List.set_set]

/-- what `Close()` of record `j` leaves of every record: existence, the ADMIN links, and closed stays closed -/
theorem closeOne_get_none (t : Server) (j i : Nat) (h : t.conns[i]? = none) : (closeOne t j).1.conns[i]? = none := by
  have hl : t.conns.length ≤ i := by
    by_cases hh : i < t.conns.length
    · rw [List.getElem?_eq_getElem hh] at h; cases h
    · omega
  cases hx : t.conns[j]? with
  | none => rw [closeOne_none hx]; exact h
  | some x =>
    cases hc : x.closed with
    | true => rw [closeOne_noop hx hc]; exact h
    | false =>
      have hij : i ≠ j := by intro e; subst e; rw [hx] at h; cases h
      by_cases ha : x.awaiting = 0
      · rw [closeOne_do hx hc ha]; simp only []; rw [doClose_other x hij, h]; rfl
      · rw [closeOne_defer hx hc ha]; simp only []; rw [get_set_ne hij]; exact h

theorem closeOne_get_some (t : Server) (j i : Nat) (y : Conn) (h : t.conns[i]? = some y) :
    ∃ y', (closeOne t j).1.conns[i]? = some y' ∧ y'.outer = y.outer ∧ y'.nested = y.nested ∧ y'.awaiting = y.awaiting ∧
      (y.closed = true → y'.closed = true) := by
  cases hx : t.conns[j]? with
  | none => rw [closeOne_none hx]; exact ⟨y, h, rfl, rfl, rfl, id⟩
  | some x =>
    cases hc : x.closed with
    | true => rw [closeOne_noop hx hc]; exact ⟨y, h, rfl, rfl, rfl, id⟩
    | false =>
      by_cases ha : x.awaiting = 0
      · rw [closeOne_do hx hc ha]
        simp only []
        by_cases e : i = j
        · subst e; rw [hx] at h; cases h
          obtain ⟨y', h1, h2, h3, h4, h5⟩ := doClose_self_closed (t := t) hx
          exact ⟨y', h1, h3, h4, h5, fun _ => h2⟩
        · refine ⟨unadopt j y, by rw [doClose_other x e, h]; rfl, ?_, ?_, ?_, ?_⟩
          · unfold unadopt; split <;> rfl
          · unfold unadopt; split <;> rfl
          · unfold unadopt; split <;> rfl
          · rw [unadopt_closed]; exact id
      · rw [closeOne_defer hx hc ha]
        simp only []
        by_cases e : i = j
        · subst e; rw [hx] at h; cases h
          exact ⟨_, get_set_self hx _, rfl, rfl, rfl, id⟩
        · exact ⟨y, by rw [get_set_ne e]; exact h, rfl, rfl, rfl, id⟩

theorem closeOne_streamOf (t : Server) (j c : Nat) : streamOf (closeOne t j).1 c = streamOf t c := by
  unfold streamOf
  cases h : t.conns[c]? with
  | none => rw [closeOne_get_none t j c h]
  | some y =>
    obtain ⟨y', h1, h2, _⟩ := closeOne_get_some t j c y h
    rw [h1]; simp only [h2]

/-- a `Close()` that reports its wills has closed the record -/
theorem closeOne_closed (t : Server) (j : Nat) (res : List WillRes) (f : Option Fatal) (h : (closeOne t j).2 = .closed res f) :
    ∃ y', (closeOne t j).1.conns[j]? = some y' ∧ y'.closed = true := by
  cases hx : t.conns[j]? with
  | none => rw [closeOne_none hx] at h; cases h
  | some x =>
    cases hc : x.closed with
    | true => rw [closeOne_noop hx hc] at h; cases h
    | false =>
      by_cases ha : x.awaiting = 0
      · rw [closeOne_do hx hc ha]
        obtain ⟨y', h1, h2, _⟩ := doClose_self_closed (t := t) hx
        exact ⟨y', h1, h2⟩
      · rw [closeOne_defer hx hc ha] at h; cases h

/-- no nested protocol is running any more once its record is closed -/
theorem nestedOf_none_of_closed (t : Server) (o n : Nat) (h : ∀ x, t.conns[o]? = some x → x.nested = some n →
    ∀ y, t.conns[n]? = some y → y.closed = true) (hn : ∀ x, t.conns[o]? = some x → x.nested = none ∨ x.nested = some n) :
    nestedOf t o = none := by
  unfold nestedOf
  cases hx : t.conns[o]? with
  | none => rfl
  | some x =>
    simp only []
    rcases hn x hx with e | e
    · simp [e]
    · simp only [e]
      cases hy : t.conns[n]? with
      | none => rfl
      | some y => simp [h x hx e y hy]

theorem nestedOf_spec (t : Server) (o n : Nat) (h : nestedOf t o = some n) :
    ∃ x y, t.conns[o]? = some x ∧ x.nested = some n ∧ t.conns[n]? = some y ∧ y.closed = false := by
  unfold nestedOf at h
  cases hx : t.conns[o]? with
  | none => simp [hx] at h
  | some x =>
    simp only [hx] at h
    cases hn : x.nested with
    | none => simp [hn] at h
    | some m =>
      simp only [hn] at h
      cases hy : t.conns[m]? with
      | none => simp [hy] at h
      | some y =>
        simp only [hy] at h
        split at h
        · cases h
        · rename_i hc
          cases h
          exact ⟨x, y, rfl, hn, hy, by cases hh : y.closed <;> simp_all⟩

theorem nestedOf_none_spec (t : Server) (o : Nat) (h : nestedOf t o = none) (x : Conn) (hx : t.conns[o]? = some x) (n : Nat)
    (hn : x.nested = some n) (y : Conn) (hy : t.conns[n]? = some y) : y.closed = true := by
  unfold nestedOf at h
  simp only [hx, hn, hy] at h
  split at h
  · assumption
  · cases h

/-- after `Close()` of record `j` the nested protocol of `o` is the one it was, or none -/
theorem closeOne_nestedOf_none (t : Server) (j o : Nat) (h : nestedOf t o = none) : nestedOf (closeOne t j).1 o = none := by
  cases hx : t.conns[o]? with
  | none =>
    unfold nestedOf; rw [closeOne_get_none t j o hx]
  | some x =>
    obtain ⟨x', hx', _, hn', _⟩ := closeOne_get_some t j o x hx
    cases hn : x.nested with
    | none => unfold nestedOf; simp [hx', hn', hn]
    | some n =>
      unfold nestedOf
      simp only [hx', hn', hn]
      cases hy : t.conns[n]? with
      | none => rw [closeOne_get_none t j n hy]
      | some y =>
        obtain ⟨y', hy', _, _, _, hc⟩ := closeOne_get_some t j n y hy
        simp [hy', hc (nestedOf_none_spec t o h x hx n hn y hy)]

theorem set_same {l : List Conn} {i : Nat} {z : Conn} (h : l[i]? = some z) : l.set i z = l := by
  apply List.ext_getElem?
  intro k
  by_cases e : k = i
  · subst e; rw [get_set_self h]; exact h.symm
  · rw [get_set_ne e]

theorem half_same (z : Conn) (h : z.halfClosed = true) : ({ z with halfClosed := true } : Conn) = z := by
  cases z; simp_all

theorem stepClose_idem (s : Server) (c : Nat) (hd : (stepClose s c).1.dead = none) :
    (stepClose (stepClose s c).1 c).1 = (stepClose s c).1 := by
  generalize ho : streamOf s c = o at *
  cases hn : nestedOf s o with
  | none =>
    have e1 : (stepClose s c) = closeOne s o := by unfold stepClose; rw [ho, hn]
    rw [e1]
    have e2 : streamOf (closeOne s o).1 c = o := by rw [closeOne_streamOf, ho]
    have e3 := closeOne_nestedOf_none s o o hn
    have e4 : stepClose (closeOne s o).1 c = closeOne (closeOne s o).1 o := by unfold stepClose; rw [e2, e3]
    rw [e4, closeOne_idem]
  | some n =>
    obtain ⟨x, y, hx, hxn, hy, hyo⟩ := nestedOf_spec s o n hn
    cases hr : (closeOne s n).2 with
    | closed res f =>
      cases f with
      | some ff =>
        have e1 : (stepClose s c).1 = (closeOne s n).1 := by unfold stepClose; rw [ho, hn]; simp only [hr]
        -- the state is dead: excluded
        rw [e1] at hd
        by_cases ha : y.awaiting = 0
        · rw [closeOne_do hy hyo ha] at hr hd
          simp only [Out.closed.injEq] at hr
          rw [doClose_dead, hr.2] at hd; cases hd
        · rw [closeOne_defer hy hyo ha] at hr; cases hr
      | none =>
        have e1 : (stepClose s c).1 = (closeOne (closeOne s n).1 o).1 := by
          unfold stepClose; rw [ho, hn]; simp only [hr]
          cases (closeOne (closeOne s n).1 o).2 <;> rfl
        rw [e1]
        have e2 : streamOf (closeOne (closeOne s n).1 o).1 c = o := by rw [closeOne_streamOf, closeOne_streamOf, ho]
        -- n is closed from now on, so no nested protocol is running
        obtain ⟨y1, hy1, hy1c⟩ := closeOne_closed s n res none hr
        obtain ⟨x1, hx1, _, hx1n, _⟩ := closeOne_get_some s n o x hx
        have e3 : nestedOf (closeOne s n).1 o = none := by
          apply nestedOf_none_of_closed _ o n
          · intro x' hx' _ y' hy'; rw [hy1] at hy'; cases hy'; exact hy1c
          · intro x' hx'; rw [hx1] at hx'; cases hx'; right; rw [hx1n]; exact hxn
        have e4 := closeOne_nestedOf_none (closeOne s n).1 o o e3
        have e5 : stepClose (closeOne (closeOne s n).1 o).1 c = closeOne (closeOne (closeOne s n).1 o).1 o := by
          unfold stepClose; rw [e2, e4]
        rw [e5, closeOne_idem]
    | deferred =>
      -- the nested handler is blocked: both records get marked, and marking again changes nothing
      have hya : y.awaiting ≠ 0 := by
        intro ha; rw [closeOne_do hy hyo ha] at hr; cases hr
      have e0 : (closeOne s n).1 = { s with conns := s.conns.set n { y with halfClosed := true } } := by
        rw [closeOne_defer hy hyo hya]
      obtain ⟨x1, hx1, _, hx1n, _, _⟩ := closeOne_get_some s n o x hx
      have e1 : (stepClose s c).1 = { (closeOne s n).1 with conns := (closeOne s n).1.conns.set o { x1 with halfClosed := true } } := by
        unfold stepClose; rw [ho, hn]; simp only [hr, hx1]
      rw [e1]
      generalize hs1 : (closeOne s n).1 = s1 at *
      -- the records of n and o in the marked state
      have hn1 : ∃ y1, s1.conns[n]? = some y1 ∧ y1.closed = false ∧ y1.awaiting ≠ 0 ∧ y1.halfClosed = true := by
        rw [e0]; exact ⟨_, get_set_self hy _, hyo, hya, rfl⟩
      obtain ⟨y1, hy1, hy1o, hy1a, hy1h⟩ := hn1
      let s2 : Server := { s1 with conns := s1.conns.set o { x1 with halfClosed := true } }
      have ho2 : s2.conns[o]? = some { x1 with halfClosed := true } := get_set_self hx1 _
      have hn2 : ∃ y2, s2.conns[n]? = some y2 ∧ y2.closed = false ∧ y2.awaiting ≠ 0 ∧ y2.halfClosed = true := by
        by_cases e : n = o
        · subst e
          rw [hy1] at hx1; cases hx1
          exact ⟨_, ho2, hy1o, hy1a, rfl⟩
        · exact ⟨y1, by show (s1.conns.set o _)[n]? = _; rw [get_set_ne e]; exact hy1, hy1o, hy1a, hy1h⟩
      obtain ⟨y2, hy2, hy2o, hy2a, hy2h⟩ := hn2
      have hst : streamOf s2 c = o := by
        have : streamOf s1 c = o := by rw [← hs1, closeOne_streamOf, ho]
        unfold streamOf at this ⊢
        by_cases e : c = o
        · subst e
          show (match (s1.conns.set c _)[c]? with | some x => x.outer.getD c | none => c) = c
          rw [get_set_self hx1]; simp only []
          rw [hx1] at this; exact this
        · show (match (s1.conns.set o _)[c]? with | some x => x.outer.getD c | none => c) = o
          rw [get_set_ne e]; exact this
      have hne2 : nestedOf s2 o = some n := by
        unfold nestedOf
        simp only [ho2, hx1n, hxn, hy2, hy2o]
        simp
      have hc2 : closeOne s2 n = (s2, .deferred) := by
        rw [closeOne_defer hy2 hy2o hy2a, half_same y2 hy2h, set_same hy2]
      show (stepClose s2 c).1 = s2
      unfold stepClose
      rw [hst, hne2]
      simp only [hc2, ho2]
      rw [half_same { x1 with halfClosed := true } rfl, set_same ho2]
    | opened _ =>
      exfalso
      by_cases ha : y.awaiting = 0
      · rw [closeOne_do hy hyo ha] at hr; cases hr
      · rw [closeOne_defer hy hyo ha] at hr; cases hr
    | ignored =>
      exfalso
      by_cases ha : y.awaiting = 0
      · rw [closeOne_do hy hyo ha] at hr; cases hr
      · rw [closeOne_defer hy hyo ha] at hr; cases hr
    | inited _ =>
      exfalso
      by_cases ha : y.awaiting = 0
      · rw [closeOne_do hy hyo ha] at hr; cases hr
      · rw [closeOne_defer hy hyo ha] at hr; cases hr
    | ok =>
      exfalso
      by_cases ha : y.awaiting = 0
      · rw [closeOne_do hy hyo ha] at hr; cases hr
      · rw [closeOne_defer hy hyo ha] at hr; cases hr
    | routed _ =>
      exfalso
      by_cases ha : y.awaiting = 0
      · rw [closeOne_do hy hyo ha] at hr; cases hr
      · rw [closeOne_defer hy hyo ha] at hr; cases hr
    | routedClosed _ _ _ =>
      exfalso
      by_cases ha : y.awaiting = 0
      · rw [closeOne_do hy hyo ha] at hr; cases hr
      · rw [closeOne_defer hy hyo ha] at hr; cases hr
    | noop =>
      exfalso
      by_cases ha : y.awaiting = 0
      · rw [closeOne_do hy hyo ha] at hr; cases hr
      · rw [closeOne_defer hy hyo ha] at hr; cases hr

theorem close_idem (s : Server) (c : Nat) (k k' : Cause) :
    (step (step s (.close c k)).1 (.close c k')).1 = (step s (.close c k)).1 := by
  cases hd : s.dead with
  | some f =>
    have : (step s (.close c k)).1 = s := step_dead _ f hd
    rw [this]; exact step_dead _ f hd
  | none =>
    have e1 : (step s (.close c k)).1 = (stepClose s c).1 := by unfold step; simp [hd]
    rw [e1]
    cases hd2 : (stepClose s c).1.dead with
    | some f => exact step_dead _ f hd2
    | none =>
      have e2 : (step (stepClose s c).1 (.close c k')).1 = (stepClose (stepClose s c).1 c).1 := by unfold step; simp [hd2]
      rw [e2]; exact stepClose_idem s c hd2

/-! ### routing -/
theorem recvN_open (s : Server) (n d tok : Nat) (y : Conn) (hy : s.conns[d]? = some y) (ho : y.closed = false) (e : Nat)
    (h : recvN s (n + 1) d tok = .to e) : e = d := by
  unfold recvN at h
  simp only [hy] at h
  cases hk : y.kind <;> simp only [hk] at h
  · simp [ho] at h
    split at h
    · cases h
    · cases h; rfl
  · split at h
    · cases h
    · simp [ho] at h
      split at h
      · cases h
      · cases h; rfl

theorem route_to {s : Server} (hg : Good s) (tok o : Nat) (x : Conn) (d : Nat) (ho : aget s.owner tok = some o)
    (hx : s.conns[o]? = some x) (hd : (route s tok).2 = .to d) :
    (d = o ∧ x.closed = false) ∨
    (x.closed = true ∧ d ≠ o ∧ x.cid ≠ 0 ∧ x.cid ∈ x.announced ∧
      ∃ y, s.conns[d]? = some y ∧ y.closed = false ∧ x.cid ∈ y.announced) := by
  unfold route at hd
  simp only [ho, hx] at hd
  cases ht : x.target with
  | self =>
    simp only [ht] at hd
    have hop : x.closed = false := by
      cases hc : x.closed
      · rfl
      · exact absurd ht (hg.closedShape o x hx hc).2.1
    exact .inl ⟨recv_open s o tok x hx hop d hd, hop⟩
  | conn d0 =>
    simp only [ht] at hd
    obtain ⟨hnz, y, hy, hyo, hya⟩ := hg.adopted o x d0 hx ht
    have hxc : x.closed = true := closed_of_target hg hx (by rw [ht]; simp)
    have : d = d0 := recv_open s d0 tok y hy hyo d hd
    subst this
    refine .inr ⟨hxc, ?_, hnz, hg.announcedOwn o x hx (.inl hnz), y, hy, hyo, hya⟩
    intro e; subst e; rw [hx] at hy; cases hy; rw [hxc] at hyo; cases hyo
  | default =>
    simp only [ht] at hd
    have hxc : x.closed = true := closed_of_target hg hx (by rw [ht]; simp)
    by_cases hnz : x.cid = 0
    · simp [hnz] at hd
    · simp only [hnz, if_false] at hd
      cases hl : aget s.clients x.cid with
      | none => simp [hl] at hd
      | some d0 =>
        simp only [hl] at hd
        obtain ⟨y, hy, hyo, _, _, hya, _⟩ := hg.clientsOk x.cid d0 hl
        have hd' : recv s d0 tok = .to d := by
          split at hd <;> exact hd
        have : d = d0 := recv_open s d0 tok y hy hyo d hd'
        subst this
        refine .inr ⟨hxc, ?_, hnz, hg.announcedOwn o x hx (.inl hnz), y, hy, hyo, hya⟩
        intro e; subst e; rw [hx] at hy; cases hy; rw [hxc] at hyo; cases hyo

/-- a closed, inited binary connection still registered under its own id forwards to itself for ever -/
theorem recvN_self_loop (s : Server) (c tok : Nat) (z : Conn) (hz : s.conns[c]? = some z) (hk : z.kind = .binary)
    (hc : z.closed = true) (hi : z.inited = true) (hr : aget s.clients z.cid = some c) : ∀ n, recvN s n c tok = .loop := by
  intro n
  induction n with
  | zero => rfl
  | succ n ih =>
    unfold recvN
    simp [hz, hk, hc, hi, hr, ih]

/-- where the immediate reply of a will goes: to the OPEN connection registered under the closing connection's id -/
theorem will_reply_to {s : Server} (hg : Good s) (c : Nat) (x : Conn) (hx : s.conns[c]? = some x) (t d : Nat)
    (h : recv (closeState s c x) c t = .to d) :
    x.inited = true ∧ aget s.clients x.cid = some d ∧ d ≠ c ∧ ∃ y, s.conns[d]? = some y ∧ y.closed = false := by
  have hc1 : (closeState s c x).conns[c]? = some (closing x) := closed1_get_self hx
  unfold recv recvN at h
  simp only [hc1] at h
  cases hk : x.kind with
  | text =>
    have : (closing x).kind = .text := by simp [closing, hk]
    simp only [this] at h
    split at h
    · cases h
    · simp [closing] at h
  | binary =>
    have hkk : (closing x).kind = .binary := by simp [closing, hk]
    simp only [hkk] at h
    have hcl : (closing x).closed = true := rfl
    simp only [hcl, Bool.not_true, Bool.false_eq_true, if_false] at h
    cases hi : x.inited with
    | false =>
      have : (closing x).inited = false := by simp [closing, hi]
      simp [this] at h
    | true =>
      have hii : (closing x).inited = true := by simp [closing, hi]
      have hcid : (closing x).cid = x.cid := rfl
      simp only [hii, Bool.not_true, Bool.false_eq_true, if_false, hcid] at h
      have hcl' : (closeState s c x).clients = unregister s c x := rfl
      rw [hcl'] at h
      cases hl : aget (unregister s c x) x.cid with
      | none => simp [hl] at h
      | some e =>
        simp only [hl] at h
        obtain ⟨h1, hec⟩ := unregister_some hg hx _ _ hl
        obtain ⟨y, hy, hyo, _⟩ := hg.clientsOk x.cid e h1
        have hy1 : (closeState s c x).conns[e]? = some (unadopt c y) := by
          show ((s.conns.map (unadopt c)).set c (closing x))[e]? = _
          rw [closed1_get_ne x hec, hy]; rfl
        have hlen : (closeState s c x).conns.length = (s.conns.length - 1) + 1 := by
          show ((s.conns.map (unadopt c)).set c (closing x)).length = _
          have := lt_of_get hx
          simp; omega
        rw [hlen] at h
        have := recvN_open (closeState s c x) _ e t (unadopt c y) hy1 (by rw [unadopt_closed]; exact hyo) d h
        subst this
        exact ⟨rfl, h1, hec, y, hy, hyo⟩

/-- the same, read off the result of the `Close()` of record `c` -/
theorem close_reply_to {s : Server} (hg : Good s) (c : Nat) (res : List WillRes) (f : Option Fatal)
    (r : WillRes) (d : Nat) (h : (closeOne s c).2 = .closed res f) (hm : r ∈ res) (hrd : r.reply = some (Dest.to d)) :
    ∃ x, s.conns[c]? = some x ∧ x.inited = true ∧ aget s.clients x.cid = some d ∧ d ≠ c ∧
      ∃ y, s.conns[d]? = some y ∧ y.closed = false := by
  cases hx : s.conns[c]? with
  | none => rw [closeOne_none hx] at h; cases h
  | some x =>
    cases hc : x.closed with
    | true => rw [closeOne_noop hx hc] at h; cases h
    | false =>
      by_cases ha : x.awaiting = 0
      · rw [closeOne_do hx hc ha] at h
        simp only [Out.closed.injEq] at h
        have hres : res = (drainK (closeState s c x) c x).1 := by
          cases hf : (drainK (closeState s c x) c x).2 with
          | none => rw [doClose_none s c x hf] at h; exact h.1.symm
          | some ff => rw [doClose_some s c x ff hf] at h; exact h.1.symm
        rw [hres] at hm
        unfold drainK at hm
        cases hk : x.kind with
        | text => simp only [hk] at hm; exact absurd hrd (drainT_no_to _ r d hm)
        | binary =>
          simp only [hk] at hm
          have hr := drain_to _ c x.wills r d hm hrd
          exact ⟨x, rfl, will_reply_to hg c x hx r.tok d hr⟩
      · rw [closeOne_defer hx hc ha] at h; cases h

/-! ### what close does to the engine -/
theorem aget_putOwners_notin (m : List (Nat × Nat)) (c : Nat) (toks : List Nat) (tok : Nat) (h : tok ∉ toks) :
    aget (putOwners m c toks) tok = aget m tok := by
  induction toks generalizing m with
  | nil => rfl
  | cons t ts ih =>
    simp only [List.mem_cons, not_or] at h
    unfold putOwners
    rw [ih _ h.2, aget_aput_ne _ _ _ _ h.1]

/-- `Close` touches the engine only by submitting wills of the closing connection, a prefix of its queue in order (all of
it unless `Close` dies), and leaves the issuer of every other pending token as it was -/
theorem doClose_engine (s : Server) (c : Nat) (x : Conn) :
    ∃ toks rest, (doClose s c x).1.willLog = s.willLog ++ toks.map (fun t => (c, t)) ∧
      x.wills.map (·.tok) = toks ++ rest ∧
      ((doClose s c x).2.2 = none → rest = []) ∧
      (∀ tok, tok ∉ toks → aget (doClose s c x).1.owner tok = aget s.owner tok) := by
  obtain ⟨rest, hr⟩ := drainK_prefix (closeState s c x) c x
  cases hf : (drainK (closeState s c x) c x).2 with
  | none =>
    rw [doClose_none s c x hf]
    refine ⟨_, rest, rfl, hr, ?_, fun tok h => aget_putOwners_notin _ _ _ _ h⟩
    intro _
    have := drainK_nonfatal_toks _ c x hf
    rw [this] at hr
    have hl := congrArg List.length hr
    simp only [List.length_append] at hl
    exact List.eq_nil_of_length_eq_zero (by omega)
  | some f =>
    rw [doClose_some s c x f hf]
    exact ⟨_, rest, rfl, hr, (fun h => by simp at h), fun tok h => aget_putOwners_notin _ _ _ _ h⟩

theorem closeOne_engine (s : Server) (c : Nat) :
    ∃ toks, (closeOne s c).1.willLog = s.willLog ++ toks.map (fun t => (c, t)) ∧
      (∀ x, s.conns[c]? = some x → ∃ rest, x.wills.map (·.tok) = toks ++ rest) ∧
      (∀ tok, tok ∉ toks → aget (closeOne s c).1.owner tok = aget s.owner tok) := by
  cases hx : s.conns[c]? with
  | none => rw [closeOne_none hx]; exact ⟨[], by simp, (by intro x h; cases h), fun _ _ => rfl⟩
  | some x =>
    cases hc : x.closed with
    | true => rw [closeOne_noop hx hc]; exact ⟨[], by simp, fun x' _ => ⟨_, rfl⟩, fun _ _ => rfl⟩
    | false =>
      by_cases ha : x.awaiting = 0
      · rw [closeOne_do hx hc ha]
        obtain ⟨toks, rest, h1, h2, _, h4⟩ := doClose_engine s c x
        exact ⟨toks, h1, fun x' hx' => by cases hx'; exact ⟨rest, h2⟩, h4⟩
      · rw [closeOne_defer hx hc ha]; exact ⟨[], by simp, fun x' _ => ⟨_, rfl⟩, fun _ _ => rfl⟩

/-- the end of a stream touches the will log only by appending executed wills, and leaves the issuer the engine
remembers for every other pending token as it was -/
theorem stepClose_engine (s : Server) (c : Nat) :
    ∃ subs : List (Nat × Nat), (stepClose s c).1.willLog = s.willLog ++ subs ∧
      (∀ tok, tok ∉ subs.map (·.2) → aget (stepClose s c).1.owner tok = aget s.owner tok) := by
  refine stepClose_ind (fun t => ∃ subs : List (Nat × Nat), t.willLog = s.willLog ++ subs ∧
      (∀ tok, tok ∉ subs.map (·.2) → aget t.owner tok = aget s.owner tok)) s c ⟨[], by simp, fun _ _ => rfl⟩ ?_ ?_
  · intro t j ⟨subs, h1, h2⟩
    obtain ⟨toks, g1, _, g3⟩ := closeOne_engine t j
    refine ⟨subs ++ toks.map (fun t => (j, t)), by rw [g1, h1, List.append_assoc], ?_⟩
    intro tok hn
    simp only [List.map_append, List.mem_append, not_or, List.map_map] at hn
    rw [g3 tok (by intro hm; exact hn.2 (by simpa using hm)), h2 tok hn.1]
  · intro t j x ⟨subs, h1, h2⟩ _
    exact ⟨subs, h1, h2⟩

/-- in a reachable state `Close` handles every will of the queue, in order, each with the outcome `willOutcome` says —
whatever the outcome of the earlier ones (the error `ProcessCommad` returns for a self-answered will is ignored) -/
theorem doClose_outcomes {s : Server} (hg : Good s) {c : Nat} {x : Conn} (hx : s.conns[c]? = some x) (hk : x.kind = .binary) :
    (doClose s c x).2.1 = x.wills.map (willOutcome (closeState s c x) c) := by
  have ha := doClose_alive hg hx
  have hdn : (drainK (closeState s c x) c x).2 = none := by
    cases h2 : (drainK (closeState s c x) c x).2 with
    | none => rfl
    | some f => rw [doClose_some _ _ _ f h2] at ha; cases ha
  rw [doClose_none _ _ _ hdn]
  show (drainK (closeState s c x) c x).1 = _
  unfold drainK at hdn ⊢
  simp only [hk] at hdn ⊢
  exact drain_nonfatal _ c x.wills hdn

/-- in a reachable state `Close` submits the WHOLE will queue -/
theorem doClose_all {s : Server} (hg : Good s) {c : Nat} {x : Conn} (hx : s.conns[c]? = some x) :
    (doClose s c x).1.willLog = s.willLog ++ (x.wills.map (·.tok)).map (fun t => (c, t)) := by
  obtain ⟨toks, rest, h1, h2, h3, _⟩ := doClose_engine s c x
  have := h3 (doClose_alive hg hx)
  subst this
  rw [h1, h2, List.append_nil]

/-! ### pending tokens stay answerable -/
theorem recv_noloop {s : Server} (hg : Good s) (d tok : Nat) : recv s d tok ≠ .loop := by
  cases hd : s.conns[d]? with
  | none => rw [recv_none s d tok hd]; simp
  | some y =>
    cases hc : y.closed
    · exact recv_open_noloop s d tok y hd hc
    · exact (recv_closed_plain s d tok y hd hc (hg.closedShape d y hd hc).1).1

theorem route_noloop {s : Server} (hg : Good s) (tok : Nat) : (route s tok).2 ≠ .loop := by
  unfold route
  cases ho : aget s.owner tok with
  | none => simp
  | some o =>
    simp only []
    cases hx : s.conns[o]? with
    | none => simp
    | some x =>
      simp only []
      cases ht : x.target with
      | self => exact recv_noloop hg o tok
      | conn d => exact recv_noloop hg d tok
      | default =>
        simp only []
        split
        · simp
        · cases hl : aget s.clients x.cid with
          | none => simp
          | some d =>
            simp only []
            split <;> exact recv_noloop hg d tok

/-- nothing refers to a closed connection any more -/
theorem closed_unreferenced {s : Server} (hg : Good s) (c : Nat) (x : Conn) (hx : s.conns[c]? = some x) (hc : x.closed = true) :
    (∀ k, aget s.clients k ≠ some c) ∧ (∀ (o : Nat) (y : Conn), s.conns[o]? = some y → y.target ≠ .conn c) := by
  constructor
  · intro k h
    obtain ⟨z, hz, hzo, _⟩ := hg.clientsOk k c h
    rw [hx] at hz; cases hz; rw [hc] at hzo; cases hzo
  · intro o y hy ht
    obtain ⟨_, z, hz, hzo, _⟩ := hg.adopted o y c hy ht
    rw [hx] at hz; cases hz; rw [hc] at hzo; cases hzo

/-! ### the end of a stream in ADMIN mode -/
theorem stepClose_plain {s : Server} {c : Nat} {x : Conn} (hx : s.conns[c]? = some x) (h1 : x.nested = none)
    (h2 : x.outer = none) : stepClose s c = closeOne s c := by
  have e1 : streamOf s c = c := by unfold streamOf; simp [hx, h2]
  have e2 : nestedOf s c = none := by unfold nestedOf; simp [hx, h1]
  unfold stepClose; rw [e1, e2]

/-- the stream of a binary connection in ADMIN mode ends: the nested text protocol's wills run first, in order, then the
connection's own -/
theorem stepClose_admin_log {s : Server} (h : GSA s) {o n : Nat} {x y : Conn} (hx : s.conns[o]? = some x)
    (hxo : x.closed = false) (hxa : x.awaiting = 0) (hxn : x.nested = some n) (hxu : x.outer = none) (hne : n ≠ o)
    (hy : s.conns[n]? = some y) (hyo : y.closed = false) (hya : y.awaiting = 0) :
    (stepClose s o).1.willLog =
      s.willLog ++ (y.wills.map (·.tok)).map (fun t => (n, t)) ++ (x.wills.map (·.tok)).map (fun t => (o, t)) := by
  obtain ⟨hg, hs, hd⟩ := h
  have e1 : streamOf s o = o := by unfold streamOf; simp [hx, hxu]
  have e2 : nestedOf s o = some n := by unfold nestedOf; simp [hx, hxn, hy, hyo]
  have c1 := closeOne_do hy hyo hya
  have a1 : (doClose s n y).2.2 = none := doClose_alive hg hy
  have g1 : GSA (closeOne s n).1 := gsa_closeOne ⟨hg, hs, hd⟩ n
  rw [c1] at g1
  -- the outer record after the nested protocol closed
  have hx1 : (doClose s n y).1.conns[o]? = some (unadopt n x) := by
    rw [doClose_other y (fun e => hne e.symm), hx]; rfl
  have c2 := closeOne_do (t := (doClose s n y).1) hx1 (by rw [unadopt_closed]; exact hxo)
    (by unfold unadopt; split <;> exact hxa)
  have l1 := doClose_all hg hy
  have l2 := doClose_all g1.1 hx1
  unfold stepClose
  rw [e1, e2]
  simp only [c1, a1, c2]
  rw [l2, l1, unadopt_wills]

end Slock.Conn
