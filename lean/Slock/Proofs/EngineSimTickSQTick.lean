import Slock.Proofs.EngineSimTickSQOps
/-! Stage 1 (M-ENGINE): distinct key ids (`KN`), distinct (RequestId, connection) pairs per key (`Engine.WU`) and the wheel sequence
numbers (`SQ`) together (`S3`) through the timer sweeps and the clock tick. -/
namespace Slock.SimTick
open Slock Slock.Engine

/-! ### `WU` through the sweeps' critical sections -/

theorem rcW_rearmed (db : DB) (w : Waiter) : rcW (rearmed db w) = rcW w := rfl

theorem rearmWaiter_wu (db : DB) (w : Waiter) (h : Engine.WU db) : Engine.WU (rearmWaiter db w) := by
  rw [rearmWaiter_eq]
  unfold updateWaiter
  refine setKey_wu (h.of_keys_eq rfl) ?_
  have hk := getKey_wu h w.cmd.key
  have e : ((db.getKey w.cmd.key).waiters.map
      (fun x => if x.cmd.req == w.cmd.req && x.conn == w.conn then rearmed db w else x)).map rcW =
      (db.getKey w.cmd.key).waiters.map rcW := by
    rw [List.map_map]
    apply List.map_congr_left
    intro x _
    simp only [Function.comp]
    split
    · rename_i hp
      simp only [Bool.and_eq_true, beq_iff_eq] at hp
      rw [rcW_rearmed]; unfold rcW; rw [hp.1, hp.2]
    · rfl
  exact e ▸ hk

theorem rearmHold_wu (db : DB) (x : Hold) (h : Engine.WU db) : Engine.WU (rearmHold db x) := by
  rw [rearmHold_eq]
  unfold updateHoldIn
  exact setKey_wu (h.of_keys_eq rfl) (getKey_wu h x.cmd.key)

theorem fireTimeout_wu (db : DB) (key : Nat) (w : Waiter) (h : Engine.WU db) : Engine.WU (fireTimeout db key w).1 := by
  unfold fireTimeout
  exact wake_setKey_wu _ h rfl ((List.Sublist.map _ (removeWaiter_sublist _ _)).nodup (getKey_wu h key))

theorem fireExpire_wu (db : DB) (key : Nat) (x : Hold) (h : Engine.WU db) : Engine.WU (fireExpire db key x).1 := by
  unfold fireExpire
  exact wake_setKey_wu _ h rfl (getKey_wu h key)

theorem rearmWaiter_kn (db : DB) (w : Waiter) (hk : KN db) : KN (rearmWaiter db w) := by
  rw [rearmWaiter_eq]; exact KN_updateWaiter _ _ _ (hk.of_keys_eq rfl)

theorem rearmHold_kn (db : DB) (x : Hold) (hk : KN db) : KN (rearmHold db x) := by
  rw [rearmHold_eq]; exact KN_updateHoldIn _ _ _ (hk.of_keys_eq rfl)

/-! ### the three together -/

structure S3 (db : DB) : Prop where
  kn : KN db
  wu : Engine.WU db
  sq : SQ db

theorem S3.init (now : Nat) : S3 (DB.init now) :=
  ⟨by unfold KN DB.init; exact List.nodup_nil, WU.init now, SQ.init now⟩

theorem S3.of_keys_eq {db db' : DB} (h : S3 db) (e : db'.keys = db.keys) (hs : db.seq ≤ db'.seq) : S3 db' :=
  ⟨h.kn.of_keys_eq e, h.wu.of_keys_eq e, h.sq.of_keys_eq e hs⟩

theorem rearmWaiter_s3 (db : DB) (w : Waiter) (h : S3 db) : S3 (rearmWaiter db w) :=
  ⟨rearmWaiter_kn db w h.kn, rearmWaiter_wu db w h.wu, rearmWaiter_sq db w h.kn h.wu h.sq⟩

theorem rearmHold_s3 (db : DB) (x : Hold) (h : S3 db) : S3 (rearmHold db x) :=
  ⟨rearmHold_kn db x h.kn, rearmHold_wu db x h.wu, rearmHold_sq db x h.kn h.sq⟩

theorem fireTimeout_s3 (db : DB) (key : Nat) (w : Waiter) (h : S3 db) : S3 (fireTimeout db key w).1 :=
  ⟨KN_fireTimeout db key w h.kn, fireTimeout_wu db key w h.wu, fireTimeout_sq db key w h.kn h.sq⟩

theorem fireExpire_s3 (db : DB) (key : Nat) (x : Hold) (h : S3 db) : S3 (fireExpire db key x).1 :=
  ⟨KN_fireExpire db key x h.kn, fireExpire_wu db key x h.wu, fireExpire_sq db key x h.kn h.sq⟩

/-- LOCK keeps the three when the command's id is not already queued under its key -/
theorem opLock_s3 (db : DB) (c : Cmd) (hf : FreshK db c) (h : S3 db) : S3 (opLock db c).1 :=
  ⟨opLock_cinv_kn db c h.kn, opLock_wu db c hf h.wu, opLock_sq db c h.kn h.sq⟩

theorem opUnlock_s3 (db : DB) (c : Cmd) (h : S3 db) : S3 (opUnlock db c).1 :=
  ⟨opUnlock_kn db c h.kn, opUnlock_wu db c h.wu, opUnlock_sq db c h.kn h.sq⟩

theorem timeoutStep_s3 (acc : DB × List Waiter) (w : Waiter) (h : S3 acc.1) : S3 (timeoutStep acc w).1 := by
  unfold timeoutStep
  split
  · exact rearmWaiter_s3 _ _ h
  · exact h

theorem expireStep_s3 (acc : DB × List Hold) (x : Hold) (h : S3 acc.1) : S3 (expireStep acc x).1 := by
  unfold expireStep
  split
  · exact rearmHold_s3 _ _ h
  · exact h

theorem fireTimeoutStep_s3 (acc : DB × List Reply) (w : Waiter) (h : S3 acc.1) : S3 (fireTimeoutStep acc w).1 := by
  unfold fireTimeoutStep
  split
  · exact fireTimeout_s3 _ _ _ h
  · exact h

theorem fireExpireStep_s3 (acc : DB × List Reply) (x : Hold) (h : S3 acc.1) : S3 (fireExpireStep acc x).1 := by
  unfold fireExpireStep
  split
  · exact fireExpire_s3 _ _ _ h
  · exact h

theorem timeoutPass1_s3 (db : DB) (c : Nat) (h : S3 db) : S3 (timeoutPass1 db c).1 := by
  unfold timeoutPass1
  exact foldl_P S3 _ timeoutStep_s3 _ _ h

theorem expirePass1_s3 (db : DB) (c : Nat) (h : S3 db) : S3 (expirePass1 db c).1 := by
  unfold expirePass1
  exact foldl_P S3 _ expireStep_s3 _ _ h

theorem sweepTimeout_s3 (db : DB) (c : Nat) (h : S3 db) : S3 (sweepTimeout db c).1 := by
  unfold sweepTimeout
  exact foldl_P S3 _ fireTimeoutStep_s3 _ _ (timeoutPass1_s3 db c h)

theorem sweepExpire_s3 (db : DB) (c : Nat) (h : S3 db) : S3 (sweepExpire db c).1 := by
  unfold sweepExpire
  exact foldl_P S3 _ fireExpireStep_s3 _ _ (expirePass1_s3 db c h)

theorem opTick_s3 (db : DB) (h : S3 db) : S3 (opTick db).1 := by
  unfold opTick
  simp only []
  have h0 : S3 { db with now := db.now + 1, tCheck := db.now + 1 + 1 } := h.of_keys_eq rfl (Nat.le_refl _)
  have h1 := sweepTimeout_s3 _ (db.now + 1) h0
  have h2 : S3 { (sweepTimeout { db with now := db.now + 1, tCheck := db.now + 1 + 1 } (db.now + 1)).1 with eCheck := db.now + 1 + 1 } :=
    h1.of_keys_eq rfl (Nat.le_refl _)
  exact sweepExpire_s3 _ (db.now + 1) h2

end Slock.SimTick
