import Slock.Proofs.ValueOps
/-! Crash-freedom of M-VALUE over ARBITRARY request bytes: the invariant `CellSane` (every stored cell has its 6 header
    bytes and a property header that fits) is established by the parser's refusal rule and preserved by every operation,
    and under it no operation panics. -/
namespace Slock.Value

/-- the property header `hdr` (bytes [6, valueOffset)) is what the flag byte announces -/
def HdrOK (fl : UInt8) (hdr : Bytes) : Prop :=
  (hasFlag fl fPROP = true ∧ ∃ a b rest, hdr = a :: b :: rest ∧ a.toNat + 256 * b.toNat = rest.length)
  ∨ (hasFlag fl fPROP = false ∧ hdr = [])

/-- `d = [4 bytes | b4 | fl | hdr | v]` with a fitting header -/
structure Shape (d : Bytes) (fl : UInt8) (hdr v : Bytes) : Prop where
  ex : ∃ a b c e b4, d = a :: b :: c :: e :: b4 :: fl :: (hdr ++ v)
  ok : HdrOK fl hdr

theorem len4 (x : Bytes) (h : x.length = 4) : ∃ a b c e, x = [a, b, c, e] := by
  rcases x with _ | ⟨a, _ | ⟨b, _ | ⟨c, _ | ⟨e, _ | ⟨f, t⟩⟩⟩⟩⟩ <;> simp at h
  exact ⟨a, b, c, e, rfl⟩

theorem shape_of (x4 : Bytes) (b4 fl : UInt8) (hdr v d : Bytes) (h4 : x4.length = 4)
    (hd : d = x4 ++ b4 :: fl :: (hdr ++ v)) (hok : HdrOK fl hdr) : Shape d fl hdr v := by
  obtain ⟨a, b, c, e, rfl⟩ := len4 x4 h4
  exact ⟨⟨a, b, c, e, b4, by simpa using hd⟩, hok⟩

theorem hdrOK_flag (fl fl' : UInt8) (hdr : Bytes) (h : hasFlag fl' fPROP = hasFlag fl fPROP) (hok : HdrOK fl hdr) :
    HdrOK fl' hdr := by
  rcases hok with ⟨h1, h2⟩ | ⟨h1, h2⟩
  · exact Or.inl ⟨by rw [h, h1], h2⟩
  · exact Or.inr ⟨by rw [h, h1], h2⟩

theorem Shape.length {d fl hdr v} (s : Shape d fl hdr v) : d.length = 6 + hdr.length + v.length := by
  obtain ⟨a, b, c, e, b4, hd⟩ := s.ex; rw [hd]; simp
  omega

theorem Shape.idx5 {d fl hdr v} (s : Shape d fl hdr v) (site : Site) : idx site d 5 = .ok fl := by
  obtain ⟨a, b, c, e, b4, hd⟩ := s.ex; rw [hd]; rfl

theorem Shape.getD5 {d fl hdr v} (s : Shape d fl hdr v) : d.getD 5 0 = fl := by
  obtain ⟨a, b, c, e, b4, hd⟩ := s.ex; rw [hd]; rfl

theorem Shape.drop6 {d fl hdr v} (s : Shape d fl hdr v) : d.drop 6 = hdr ++ v := by
  obtain ⟨a, b, c, e, b4, hd⟩ := s.ex; rw [hd]; rfl

theorem Shape.take4 {d fl hdr v} (s : Shape d fl hdr v) : (d.take 4).length = 4 := by
  obtain ⟨a, b, c, e, b4, hd⟩ := s.ex; rw [hd]; rfl

theorem Shape.drop5 {d fl hdr v} (s : Shape d fl hdr v) : d.drop 5 = fl :: (hdr ++ v) := by
  obtain ⟨a, b, c, e, b4, hd⟩ := s.ex; rw [hd]; rfl

theorem Shape.drop4 {d fl hdr v} (s : Shape d fl hdr v) (ex : Bytes) :
    ∃ b4, (d ++ ex).drop 4 = b4 :: fl :: (hdr ++ (v ++ ex)) := by
  obtain ⟨a, b, c, e, b4, hd⟩ := s.ex; rw [hd]; exact ⟨b4, by simp⟩

theorem Shape.hdr {d fl hdr v} (s : Shape d fl hdr v) : (d.drop 6).take hdr.length = hdr := by
  rw [s.drop6]; exact take_left' _ _ _ rfl

theorem Shape.dropOff {d fl hdr v} (s : Shape d fl hdr v) (n : Nat) : d.drop (6 + hdr.length + n) = v.drop n := by
  rw [Nat.add_assoc, ← List.drop_drop, s.drop6, ← List.drop_drop, drop_left' _ _ _ rfl]

theorem Shape.cellOff {d fl hdr v} (s : Shape d fl hdr v) : cellOff d = 6 + hdr.length := by
  obtain ⟨a, b, c, e, b4, hd⟩ := s.ex
  rcases s.ok with ⟨h1, a', b', rest, hh, hl⟩ | ⟨h1, hh⟩
  · subst hd; subst hh
    have : ¬ (a :: b :: c :: e :: b4 :: fl :: (a' :: b' :: rest ++ v)).length < 8 := by simp
    unfold Slock.Value.cellOff
    rw [if_neg this]
    simp [h1]; omega
  · subst hd; subst hh
    unfold Slock.Value.cellOff
    simp [h1]

/-- what the parser lets through -/
def CmdSane (c : Cmd) : Prop := ∃ hdr v, Shape c.data c.flag hdr v ∧ cmdOff c = .ok (6 + hdr.length)

def CellSane : Option Cell → Prop
  | none => True
  | some x => ∃ fl hdr v, Shape x.data fl hdr v

theorem parseFrame_sane (d ex : Bytes) (c : Cmd) (h : parseFrame d ex = some c) :
    c.data = d ∧ c.extra = ex ∧ CmdSane c := by
  rcases d with _ | ⟨a, _ | ⟨b, _ | ⟨c3, _ | ⟨e, _ | ⟨b4, _ | ⟨b5, t⟩⟩⟩⟩⟩⟩ <;> simp [parseFrame] at h
  cases hp : hasFlag b5 fPROP with
  | false =>
    simp [hp] at h; subst h
    refine ⟨rfl, rfl, [], t, ⟨⟨a, b, c3, e, b4, rfl⟩, Or.inr ⟨hp, rfl⟩⟩, ?_⟩
    simp [cmdOff, hp, pure, Except.pure]
  | true =>
    simp only [hp, if_true] at h
    rcases t with _ | ⟨a', _ | ⟨b', rest⟩⟩ <;> simp at h
    obtain ⟨hle, hc⟩ := h; subst hc
    have hn : a'.toNat + 256 * b'.toNat ≤ rest.length := by omega
    refine ⟨rfl, rfl, a' :: b' :: rest.take (a'.toNat + 256 * b'.toNat), rest.drop (a'.toNat + 256 * b'.toNat), ⟨⟨a, b, c3, e, b4, by simp⟩,
      Or.inl ⟨hp, a', b', _, rfl, by simp [List.length_take]; omega⟩⟩, ?_⟩
    simp [cmdOff, hp, idx, bind, Except.bind, pure, Except.pure, List.length_take]; omega


/-- the call returns and the new cell is sane -/
def Good (r : M (Option Cell)) : Prop := ∃ cur', r = .ok cur' ∧ CellSane cur'

theorem good_ok (cur : Option Cell) (h : CellSane cur) : Good (.ok cur) := ⟨cur, rfl, h⟩

theorem good_data (fl : UInt8) (hdr v d ex : Bytes) (ct : Nat) (aof : Bool) (s : Shape d fl hdr v) :
    Good (.ok (some ⟨d, ex, ct, aof⟩)) := ⟨_, rfl, fl, hdr, v, s⟩

theorem unsetCell_sane (aof : Bool) : CellSane (some (unsetCell aof)) :=
  ⟨0, [], [], ⟨⟨2, 0, 0, 0, 1, rfl⟩, Or.inr ⟨by decide, rfl⟩⟩⟩

theorem good_of_eq (d ex : Bytes) (ct : Nat) (aof : Bool) (x4 : Bytes) (b4 fl : UInt8) (hdr v : Bytes)
    (h4 : x4.length = 4) (hok : HdrOK fl hdr) (hd : d = x4 ++ b4 :: fl :: (hdr ++ v)) : Good (.ok (some ⟨d, ex, ct, aof⟩)) :=
  good_data fl hdr v d ex ct aof (shape_of x4 b4 fl hdr v d h4 hd hok)

theorem opSet_good (cx : Ctx) (cur : Option Cell) (c : Cmd) (hc : CmdSane c) (hcur : CellSane cur) :
    Good (.ok (opSet cx cur c)) := by
  obtain ⟨hdr, v, s, _⟩ := hc
  cases cur with
  | none => simp only [opSet, Bool.and_false, Bool.false_eq_true, if_false]; exact good_data _ _ _ _ _ _ _ s
  | some k =>
    simp only [opSet]
    split
    · exact good_ok _ hcur
    · exact good_data _ _ _ _ _ _ _ s

theorem opUnset_good (cx : Ctx) (cur : Option Cell) (hcur : CellSane cur) : Good (.ok (opUnset cx cur)) := by
  unfold opUnset
  cases cur with
  | none => exact good_ok _ trivial
  | some k =>
    simp only
    split
    · exact good_ok _ hcur
    · exact good_ok _ (unsetCell_sane _)

theorem opExecute_good (cx : Ctx) (cur : Option Cell) (c : Cmd) (hc : CmdSane c) (hcur : CellSane cur) :
    Good (opExecute cx cur c) := by
  obtain ⟨hdr, v, s, hoff⟩ := hc
  unfold opExecute
  split
  · simp only [hoff, bind, Except.bind]; exact good_ok _ hcur
  · exact good_ok _ hcur

theorem opIncr_good (cx : Ctx) (cur : Option Cell) (c : Cmd) (hc : CmdSane c) (hcur : CellSane cur) :
    Good (opIncr cx cur c) := by
  obtain ⟨hdr, v, s, hoff⟩ := hc
  simp only [opIncr, hoff, bind, Except.bind]
  by_cases h8 : c.data.length = 6 + hdr.length + 8
  · rw [if_pos h8, s.idx5]
    simp only [pure, Except.pure]
    have e1 : 6 + hdr.length - 6 = hdr.length := by omega
    rw [e1, s.hdr]
    exact good_of_eq _ _ _ _ (c.data.take 4) 0 (c.flag ||| fNUMBER) hdr _ s.take4
      (hdrOK_flag _ _ _ (flag_or_num_prop _) s.ok) (by simp only [List.append_assoc]; rfl)
  · rw [if_neg h8]
    cases cur with
    | none =>
      simp only [Nat.le_refl, if_true, pure, Except.pure]
      exact good_data 1 [] (le64 _) _ _ _ _ ⟨⟨10, 0, 0, 0, 0, rfl⟩, Or.inr ⟨by decide, rfl⟩⟩
    | some x =>
      obtain ⟨fl', hdr', v', s'⟩ := hcur
      simp only [s'.cellOff]
      by_cases ho : 6 + hdr'.length ≤ 6
      · rw [if_pos ho]
        exact good_data 1 [] (le64 _) _ _ _ _ ⟨⟨10, 0, 0, 0, 0, rfl⟩, Or.inr ⟨by decide, rfl⟩⟩
      · rw [if_neg ho, s'.idx5]
        simp only [pure, Except.pure]
        have e1 : 6 + hdr'.length - 6 = hdr'.length := by omega
        rw [e1, s'.drop6, padTake_left]
        exact good_of_eq _ _ _ _ (le32 _) 0 (fl' ||| fNUMBER) hdr' _ (le32_length _)
          (hdrOK_flag _ _ _ (flag_or_num_prop _) s'.ok) (by simp only [List.append_assoc]; rfl)


theorem opAppend_good (cx : Ctx) (cur : Option Cell) (c : Cmd) (hc : CmdSane c) (hcur : CellSane cur) :
    Good (opAppend cx cur c) := by
  obtain ⟨hdr, v, s, hoff⟩ := hc
  have hlen := s.length
  have hfresh : Good (if c.data.length < 5 then (panic .appendHdr : M (Option Cell)) else do
        if cx.requireRecover then
          let _ ← cmdOff c
        pure (some ⟨c.data.take 4 ++ [0] ++ c.data.drop 5, c.extra, APPEND, cx.fromAof⟩)) := by
    rw [if_neg (by omega)]
    have hg : Good (.ok (some ⟨c.data.take 4 ++ [0] ++ c.data.drop 5, c.extra, APPEND, cx.fromAof⟩)) := by
      rw [s.drop5]
      exact good_of_eq _ _ _ _ (c.data.take 4) 0 c.flag hdr v s.take4 s.ok (by simp only [List.append_assoc]; rfl)
    cases cx.requireRecover <;> simpa [hoff, bind, Except.bind, pure, Except.pure] using hg
  cases cur with
  | none => simpa [opAppend] using hfresh
  | some x =>
    obtain ⟨fl', hdr', v', s'⟩ := hcur
    have hlen' := s'.length
    cases hd : x.hasData with
    | false => simpa [opAppend, hd] using hfresh
    | true =>
      simp only [opAppend, hd, Bool.not_true, Bool.false_eq_true, if_false, hoff, bind, Except.bind]
      have : ¬ ((x.data.length < 6 || c.data.length < 6 + hdr.length) = true) := by simp; omega
      rw [if_neg this, s'.idx5]
      simp only [pure, Except.pure]
      rw [s'.drop6]
      exact good_of_eq _ _ _ _ (le32 _) 0 fl' hdr' _ (le32_length _) s'.ok (by simp only [List.append_assoc]; rfl)

theorem opShift_good (cx : Ctx) (cur : Option Cell) (c : Cmd) (hc : CmdSane c) (hcur : CellSane cur) :
    Good (opShift cx cur c) := by
  obtain ⟨hdr, v, s, hoff⟩ := hc
  simp only [opShift, hoff, bind, Except.bind]
  cases cur with
  | none => exact good_ok _ trivial
  | some x =>
    simp only
    split
    · exact good_ok _ hcur
    · obtain ⟨fl', hdr', v', s'⟩ := hcur
      have hlen' := s'.length
      simp only [s'.cellOff]
      rw [if_pos (by omega), s'.idx5]
      simp only [pure, Except.pure]
      have e1 : 6 + hdr'.length - 6 = hdr'.length := by omega
      rw [e1, s'.hdr, s'.dropOff]
      exact good_of_eq _ _ _ _ (le32 _) 0 fl' hdr' _ (le32_length _) s'.ok (by simp only [List.append_assoc]; rfl)

theorem opPush_good (cx : Ctx) (cur : Option Cell) (c : Cmd) (hc : CmdSane c) (hcur : CellSane cur) :
    Good (opPush cx cur c) := by
  obtain ⟨hdr, v, s, hoff⟩ := hc
  have hlen := s.length
  have hfresh : Good (do
        let b5 ← idx .pushBounds c.data 5
        let off ← cmdOff c
        if off > c.data.length then (panic .pushBounds : M (Option Cell)) else
        pure (some ⟨le32 c.data.length ++ [0, (b5 &&& 0xf8) ||| fARRAY] ++ (c.data.drop 6).take (off - 6)
            ++ le32 (c.data.length - off) ++ c.data.drop off, [], PUSH, cx.fromAof⟩)) := by
    simp only [s.idx5, hoff, bind, Except.bind]
    rw [if_neg (by omega)]
    simp only [pure, Except.pure]
    have e1 : 6 + hdr.length - 6 = hdr.length := by omega
    rw [e1, s.hdr]
    exact good_of_eq _ _ _ _ (le32 _) 0 ((c.flag &&& 0xf8) ||| fARRAY) hdr _ (le32_length _)
      (hdrOK_flag _ _ _ (flag_push_prop _) s.ok) (by simp only [List.append_assoc]; rfl)
  cases cur with
  | none => simpa [opPush] using hfresh
  | some x =>
    cases hd : (x.hasData && x.isArray) with
    | false => simpa [opPush, hd] using hfresh
    | true =>
      obtain ⟨fl', hdr', v', s'⟩ := hcur
      simp only [opPush, hd, Bool.not_true, Bool.false_eq_true, if_false, hoff, bind, Except.bind]
      rw [if_neg (by omega), s'.idx5]
      simp only [pure, Except.pure]
      rw [s'.drop6]
      exact good_of_eq _ _ _ _ (le32 _) 0 ((fl' &&& 0xf8) ||| fARRAY) hdr' _ (le32_length _)
        (hdrOK_flag _ _ _ (flag_push_prop _) s'.ok) (by simp only [List.append_assoc]; rfl)

theorem opPop_good (cx : Ctx) (cur : Option Cell) (c : Cmd) (hc : CmdSane c) (hcur : CellSane cur) :
    Good (opPop cx cur c) := by
  obtain ⟨hdr, v, s, hoff⟩ := hc
  simp only [opPop, hoff, bind, Except.bind]
  cases cur with
  | none => exact good_ok _ trivial
  | some x =>
    simp only
    split
    · exact good_ok _ hcur
    · obtain ⟨fl', hdr', v', s'⟩ := hcur
      have hlen' := s'.length
      simp only [s'.cellOff]
      rw [if_neg (by omega)]
      simp only [pure, Except.pure]
      obtain ⟨b4, hd4⟩ := s'.drop4 x.extra
      have e1 : 6 + hdr'.length - 4 = hdr'.length + 2 := by omega
      rw [hd4, e1]
      simp only [List.take_succ_cons]
      rw [take_left' _ _ _ rfl]
      exact good_of_eq _ _ _ _ (le32 _) b4 fl' hdr' _ (le32_length _) s'.ok (by simp only [List.append_assoc]; rfl)

theorem procOp_good (cx : Ctx) (cur : Option Cell) (c : Cmd) (hc : CmdSane c) (hcur : CellSane cur) :
    Good (procOp cx cur c) := by
  unfold procOp
  split
  · exact opSet_good cx cur c hc hcur
  split
  · exact opUnset_good cx cur hcur
  split
  · exact opIncr_good cx cur c hc hcur
  split
  · exact opAppend_good cx cur c hc hcur
  split
  · exact opShift_good cx cur c hc hcur
  split
  · exact opExecute_good cx cur c hc hcur
  split
  · exact opPush_good cx cur c hc hcur
  split
  · exact opPop_good cx cur c hc hcur
  · exact good_ok _ hcur


theorem pipeFinish_sane (pre cur : Option Cell) (h : CellSane cur) : CellSane (pipeFinish pre cur) := by
  unfold pipeFinish
  cases cur with
  | none => trivial
  | some k =>
    simp only
    split <;> (split <;> exact h)

theorem pipeLoop_good (rec : Option Cell → Cmd → M (Option Cell)) (L : Nat)
    (hrec : ∀ cur c, CmdSane c → c.data.length ≤ L → CellSane cur → Good (rec cur c))
    (pre : Option Cell) (extra : Bytes) (hpre : CellSane pre) :
    ∀ (fuel : Nat) (rem : Bytes) (cur : Option Cell), rem.length ≤ L → CellSane cur →
      Good (pipeLoop rec pre extra fuel rem cur) := by
  intro fuel
  induction fuel with
  | zero => intro rem cur _ hc; exact good_ok _ hc
  | succ n ih =>
    intro rem cur hL hc
    unfold pipeLoop
    split
    · exact good_ok _ hc
    · simp only
      split
      · exact good_ok _ hc
      · rename_i hlen4 hover
        split
        · exact good_ok _ hc
        · rename_i c hparse
          obtain ⟨hdata, _, hsane⟩ := parseFrame_sane _ _ c hparse
          have hcl : c.data.length ≤ L := by
            rw [hdata, List.length_take]; omega
          have hc1 : CellSane (if c.ctype ≠ EXECUTE then pre else cur) := by
            split
            · exact hpre
            · exact hc
          obtain ⟨cur2, h2, hs2⟩ := hrec _ c hsane hcl hc1
          simp only [bind, Except.bind, h2]
          exact ih _ _ (by rw [List.length_drop]; omega) hs2

theorem proc_good : ∀ (fuel : Nat) (cx : Ctx) (cur : Option Cell) (c : Cmd),
    c.data.length < fuel → CmdSane c → CellSane cur → Good (proc fuel cx cur c) := by
  intro fuel
  induction fuel with
  | zero => intro cx cur c h; omega
  | succ n ih =>
    intro cx cur c hlen hsane hcur
    unfold proc
    split
    · exact good_ok _ hcur
    · split
      · obtain ⟨hdr, v, s, hoff⟩ := hsane
        have hl := s.length
        simp only [hoff, bind, Except.bind]
        rw [if_neg (by omega)]
        have hb : (c.data.drop (6 + hdr.length)).length < n := by rw [List.length_drop]; omega
        obtain ⟨cur', h1, hs1⟩ := pipeLoop_good (proc n cx) (c.data.drop (6 + hdr.length)).length
          (fun cur0 c0 hs0 hl0 hc0 => ih cx cur0 c0 (by omega) hs0 hc0) cur c.extra hcur _ _ cur (Nat.le_refl _) hcur
        rw [h1]
        exact good_ok _ (pipeFinish_sane _ _ hs1)
      · exact procOp_good cx cur c hsane hcur

theorem processFrame_good (cx : Ctx) (cur : Option Cell) (frame : Bytes) (hcur : CellSane cur) :
    Good (processFrame cx cur frame) := by
  unfold processFrame
  split
  · exact good_ok _ hcur
  · rename_i c hparse
    obtain ⟨hdata, _, hsane⟩ := parseFrame_sane _ _ c hparse
    exact proc_good _ cx cur c (by rw [hdata]; omega) hsane hcur

theorem runAll_good (cx : Ctx) : ∀ (frames : List Bytes) (cur : Option Cell), CellSane cur → Good (runAll cx cur frames) := by
  intro frames
  induction frames with
  | nil => intro cur h; exact good_ok _ h
  | cons f fs ih =>
    intro cur h
    obtain ⟨cur', h1, hs1⟩ := processFrame_good cx cur f h
    simp only [runAll, bind, Except.bind, h1]
    exact ih cur' hs1

theorem good_no_panic (r : M (Option Cell)) (h : Good r) : isPanic r = false := by
  obtain ⟨c, hc, _⟩ := h; rw [hc]; rfl

/-- every well-formed cell of the refinement theorems is sane -/
theorem cellWF_sane (cur : Option Cell) (h : CellWF cur) : CellSane cur := by
  cases h with
  | none => trivial
  | unset aof => exact unsetCell_sane aof
  | data g ex ct aof h0 hgw ha hct =>
    obtain ⟨a, b, c, d, he⟩ := encode_cons g
    refine ⟨g.flag, propHdr g.props, g.payload, ⟨⟨a, b, c, d, _, he⟩, ?_⟩⟩
    cases hp : g.props with
    | none => exact Or.inr ⟨by rw [hgw.flag_props, hp]; rfl, rfl⟩
    | some p =>
      have hl := hgw.props_len p hp
      refine Or.inl ⟨by rw [hgw.flag_props, hp]; rfl, (p.length % 256).toUInt8, (p.length / 256 % 256).toUInt8, p, ?_, ?_⟩
      · simp [propHdr, le16, leN]
      · rw [toUInt8_toNat_mod, toUInt8_toNat_mod]; omega

/-- observation helpers for the concrete witnesses -/
def okVal : M (Option Cell) → Option Val
  | .ok c => some (absCell c)
  | .error _ => none

def okCellAll (p : Cell → Bool) : M (Option Cell) → Bool
  | .ok (some c) => p c
  | _ => false

def cx0 : Ctx := ⟨1, false, .lock, false, false, false⟩

end Slock.Value
