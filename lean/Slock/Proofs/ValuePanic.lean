import Slock.Proofs.ValueOps
/-! Crash-freedom lemmas for M-VALUE over ARBITRARY request bytes (no canonical-frame assumption). -/
namespace Slock.Value

/-- the decoded view of raw frame bytes (total; only used for frames of ≥ 6 bytes) -/
def cmdOfBytes (frame : Bytes) : Cmd :=
  ⟨frame, [], (frame.getD 4 0).toNat / 64, (frame.getD 4 0).toNat % 64, frame.getD 5 0⟩

theorem idx_ok (s : Site) (l : Bytes) (i : Nat) (h : i < l.length) : idx s l i = .ok (l.getD i 0) := by
  simp [idx, List.getD, List.getElem?_eq_getElem h]

theorem idx_panic (s : Site) (l : Bytes) (i : Nat) (h : l.length ≤ i) : idx s l i = .error ⟨s⟩ := by
  simp [idx, List.getElem?_eq_none h, panic]

theorem fromOriginBytes_ok (frame : Bytes) (h : 6 ≤ frame.length) : fromOriginBytes frame [] = .ok (cmdOfBytes frame) := by
  simp [fromOriginBytes, idx_ok _ frame 4 (by omega), idx_ok _ frame 5 (by omega), bind, Except.bind, pure, Except.pure, cmdOfBytes]

theorem fromOriginBytes_short (frame ex : Bytes) (h : frame.length < 6) : isPanic (fromOriginBytes frame ex) = true := by
  by_cases h4 : frame.length ≤ 4
  · simp [fromOriginBytes, idx_panic _ frame 4 h4, bind, Except.bind, isPanic]
  · simp [fromOriginBytes, idx_ok _ frame 4 (by omega), idx_panic _ frame 5 (by omega), bind, Except.bind, isPanic]

/-- single (non-PIPELINE) frames of at least 6 bytes: gate, then `procOp` -/
theorem processFrame_single (cx : Ctx) (cur : Option Cell) (frame : Bytes) (h6 : 6 ≤ frame.length)
    (hp : (cmdOfBytes frame).ctype ≠ PIPELINE) :
    processFrame cx cur frame = if gate cx (cmdOfBytes frame) then procOp cx cur (cmdOfBytes frame) else .ok cur := by
  simp only [processFrame, fromOriginBytes_ok frame h6, bind, Except.bind, proc]
  cases gate cx (cmdOfBytes frame) <;> simp [hp, pure, Except.pure]

/-- the value offset is computable and lies inside the frame -/
def OffsetOK (c : Cmd) : Prop := ∃ off, cmdOff c = .ok off ∧ off ≤ c.data.length

theorem offsetOK_noprop (c : Cmd) (h : hasFlag c.flag fPROP = false) (h6 : 6 ≤ c.data.length) : OffsetOK c :=
  ⟨6, by simp [cmdOff, h, pure, Except.pure], h6⟩

theorem cmdOff_ok_of_len (c : Cmd) (h8 : 8 ≤ c.data.length) : ∃ off, cmdOff c = .ok off := by
  unfold cmdOff
  cases hasFlag c.flag fPROP with
  | false => exact ⟨6, rfl⟩
  | true =>
    simp [idx_ok _ c.data 6 (by omega), idx_ok _ c.data 7 (by omega), bind, Except.bind, pure, Except.pure]

theorem opAppend_no_panic (cx : Ctx) (cur : Option Cell) (c : Cmd) (ho : OffsetOK c) (h5 : 5 ≤ c.data.length)
    (hcell : ∀ x, cur = some x → 6 ≤ x.data.length) : isPanic (opAppend cx cur c) = false := by
  obtain ⟨off, hoff, hle⟩ := ho
  have hfresh : isPanic (if c.data.length < 5 then (panic .appendHdr : M (Option Cell)) else do
        if cx.requireRecover then
          let _ ← cmdOff c
        pure (some ⟨c.data.take 4 ++ [0] ++ c.data.drop 5, c.extra, APPEND, cx.fromAof⟩)) = false := by
    rw [if_neg (by omega)]
    cases cx.requireRecover <;> simp [hoff, bind, Except.bind, pure, Except.pure, isPanic]
  cases cur with
  | none => simpa [opAppend] using hfresh
  | some x =>
    have hx := hcell x rfl
    cases hd : x.hasData with
    | false => simpa [opAppend, hd] using hfresh
    | true =>
      simp only [opAppend, hd, Bool.not_true, Bool.false_eq_true, if_false, hoff, bind, Except.bind]
      have : ¬ ((x.data.length < 6 || c.data.length < off) = true) := by simp; omega
      rw [if_neg this, idx_ok _ x.data 5 (by omega)]
      rfl

theorem opPush_no_panic (cx : Ctx) (cur : Option Cell) (c : Cmd) (ho : OffsetOK c) (h6 : 6 ≤ c.data.length) :
    isPanic (opPush cx cur c) = false := by
  obtain ⟨off, hoff, hle⟩ := ho
  have hfresh : isPanic (do
        let b5 ← idx .pushBounds c.data 5
        let off ← cmdOff c
        if off > c.data.length then (panic .pushBounds : M (Option Cell)) else
        pure (some ⟨le32 c.data.length ++ [0, (b5 &&& 0xf8) ||| fARRAY] ++ (c.data.drop 6).take (off - 6)
            ++ le32 (c.data.length - off) ++ c.data.drop off, [], PUSH, cx.fromAof⟩)) = false := by
    simp [idx_ok _ c.data 5 (by omega), hoff, bind, Except.bind, Nat.not_lt.mpr hle, pure, Except.pure, isPanic]
  cases cur with
  | none => simpa [opPush] using hfresh
  | some x =>
    cases hd : (x.hasData && x.isArray) with
    | false => simpa [opPush, hd] using hfresh
    | true =>
      have harr : x.isArray = true := by
        cases h1 : x.isArray with
        | true => rfl
        | false => simp [h1] at hd
      have hx : 6 ≤ x.data.length := by
        simp [Cell.isArray] at harr; exact harr.1
      simp only [opPush, hd, Bool.not_true, Bool.false_eq_true, if_false, hoff, bind, Except.bind]
      rw [if_neg (Nat.not_lt.mpr hle), idx_ok _ x.data 5 (by omega)]
      rfl

theorem opIncr_no_panic (cx : Ctx) (cur : Option Cell) (c : Cmd) (ho : OffsetOK c) (_h6 : 6 ≤ c.data.length)
    (h : (∃ off, cmdOff c = .ok off ∧ c.data.length = off + 8) ∨ cur ≠ none) : isPanic (opIncr cx cur c) = false := by
  obtain ⟨off, hoff, hle⟩ := ho
  simp only [opIncr, hoff, bind, Except.bind]
  by_cases h8 : c.data.length = off + 8
  · rw [if_pos h8, idx_ok _ c.data 5 (by omega)]; rfl
  · rw [if_neg h8]
    cases cur with
    | none =>
      rcases h with ⟨o, ho', hl⟩ | h
      · rw [hoff] at ho'; cases ho'; exact absurd hl h8
      · exact absurd rfl h
    | some x =>
      simp only
      by_cases ho6 : cellOff x.data ≤ 6
      · rw [if_pos ho6]; rfl
      · rw [if_neg ho6]
        have : 8 ≤ x.data.length := by
          unfold cellOff at ho6
          by_cases hl : x.data.length < 8
          · simp [hl] at ho6
          · omega
        rw [idx_ok _ x.data 5 (by omega)]; rfl

/-- SHIFT never panics exactly when the count fits into the VALUE (the Go code clamps against the whole frame). -/
theorem opShift_no_panic (cx : Ctx) (cur : Option Cell) (c : Cmd) (off : Nat) (hoff : cmdOff c = .ok off)
    (hfit : ∀ x, cur = some x → x.hasData = true → cellOff x.data + readAt c.data off 4 ≤ x.data.length) :
    isPanic (opShift cx cur c) = false := by
  simp only [opShift, hoff, bind, Except.bind]
  cases cur with
  | none => rfl
  | some x =>
    simp only
    by_cases hc : (!(x.hasData && decide (0 < readAt c.data off 4))) = true
    · rw [if_pos hc]; rfl
    · rw [if_neg hc]
      have hd : x.hasData = true := by
        cases h1 : x.hasData with
        | true => rfl
        | false => simp [h1] at hc
      have hf := hfit x rfl hd
      have hle : ¬ (readAt c.data off 4 > x.data.length) := by omega
      rw [if_neg hle, if_neg (by omega)]
      have : 6 ≤ cellOff x.data := by
        unfold cellOff; split
        · omega
        · split <;> omega
      rw [idx_ok _ x.data 5 (by omega)]; rfl

/-- …and it does panic whenever a positive count exceeds the value length. -/
theorem opShift_beyond_panics (cx : Ctx) (x : Cell) (c : Cmd) (off : Nat) (hoff : cmdOff c = .ok off)
    (hd : x.hasData = true) (hpos : 0 < readAt c.data off 4)
    (hbeyond : x.data.length < cellOff x.data + readAt c.data off 4) :
    opShift cx (some x) c = .error ⟨.shiftBounds⟩ := by
  simp only [opShift, hoff, bind, Except.bind, hd, hpos, decide_true, Bool.and_self, Bool.not_true, Bool.false_eq_true, if_false]
  have h6 : 6 ≤ cellOff x.data := by
    unfold cellOff; split
    · omega
    · split <;> omega
  by_cases hbig : readAt c.data off 4 > x.data.length
  · rw [if_pos hbig, if_pos (by omega)]; rfl
  · rw [if_neg hbig, if_pos (by omega)]; rfl

end Slock.Value

namespace Slock.Value

theorem processFrame_short_panics (cx : Ctx) (cur : Option Cell) (frame : Bytes) (h : frame.length < 6) :
    isPanic (processFrame cx cur frame) = true := by
  have := fromOriginBytes_short frame [] h
  unfold processFrame
  cases hh : fromOriginBytes frame [] with
  | error e => rfl
  | ok c => rw [hh] at this; cases this

/-- observation helpers for the concrete witnesses -/
def okVal : M (Option Cell) → Option Val
  | .ok c => some (absCell c)
  | .error _ => none

def okCellAll (p : Cell → Bool) : M (Option Cell) → Bool
  | .ok (some c) => p c
  | _ => false

def cx0 : Ctx := ⟨1, false, .lock, false, false, false⟩

end Slock.Value
