import Slock.Model.MsWheel
import Slock.Gen.Kernels
/-! G3 tie of M-MSWHEEL: the park time, the hand-over decision and the second-wheel deadline are REGENERATED from
`AddMillisecondTimeOut` / `checkMillisecondTimeOut` / `AddMillisecondExpried` / `checkMillisecondExpried` on every run and
proved equal to the model's. -/
namespace Slock.Ms
open Slock.Gen

theorem parkEnd_generated (nowMs T : Nat) :
    K.msParkEndTimeout nowMs T = (parkEnd nowMs T : Int) ∧ K.msParkEndExpried nowMs T = (parkEnd nowMs T : Int) := by
  unfold K.msParkEndTimeout K.msParkEndExpried parkEnd QLEN
  constructor <;> simp

theorem afterPark_generated (start T : Nat) :
    afterPark start T = (if K.msToSecondWheelTimeout T then .second (K.msSecondDeadlineTimeout start T).toNat else .fire) ∧
    afterPark start T = (if K.msToSecondWheelExpried T then .second (K.msSecondDeadlineExpried start T).toNat else .fire) := by
  unfold afterPark K.msToSecondWheelTimeout K.msSecondDeadlineTimeout K.msToSecondWheelExpried K.msSecondDeadlineExpried QLEN
  constructor <;> (by_cases hT : T ≥ 3000 <;> simp [hT] <;> omega)

/-- the follower re-arm is regenerated from `doExpried` -/
theorem followerDefer_generated (now : Nat) : K.followerRearm now = (followerDefer now : Int) := by
  unfold K.followerRearm followerDefer REARM; simp

/-- Call-site facts (regenerated): the sweeps of BOTH wheels reach `doExpried` / `doTimeOut` with `forcedExpried = false`, i.e. through the
branch that defers to the leader on a follower; only the flush-on-close paths force. A call site that starts passing `true` (ending
replicated holds on a follower's own clock) changes the regenerated list and this theorem stops checking. -/
theorem sweep_call_sites_do_not_force :
    K.doExpriedCalls_checkMillisecondExpried = [["lock", "false", "true"]] ∧
    K.doExpriedCalls_checkTimeExpried = [["lock", "false", "false"]] ∧
    K.doTimeOutCalls_checkMillisecondTimeOut = [["lock", "false", "true"]] ∧
    K.doTimeOutCalls_checkTimeTimeOut = [["lock", "false", "false"]] := by
  decide

end Slock.Ms
