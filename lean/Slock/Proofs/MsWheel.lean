import Slock.Model.MsWheel
import Slock.Gen.Kernels
/-! G3 tie of M-MSWHEEL: the park time, the hand-over decision and the second-wheel deadline are REGENERATED from
`AddMillisecondTimeOut` / `checkMillisecondTimeOut` / `AddMillisecondExpried` / `checkMillisecondExpried` on every run and
proved equal to the model's. -/
namespace Slock.Ms
open Slock.Gen

theorem parkEnd_generated (nowMs T : Nat) :
    K.msParkEndTimeout nowMs T = (parkEnd nowMs T : Int) ∧ K.msParkEndExpried nowMs T = (parkEnd nowMs T : Int) := by
  unfold K.msParkEndTimeout K.msParkEndExpried parkEnd QLEN
  constructor <;> simp

theorem afterPark_generated (start T : Nat) :
    afterPark start T = (if K.msToSecondWheelTimeout T then .second (K.msSecondDeadlineTimeout start T).toNat else .fire) ∧
    afterPark start T = (if K.msToSecondWheelExpried T then .second (K.msSecondDeadlineExpried start T).toNat else .fire) := by
  unfold afterPark K.msToSecondWheelTimeout K.msSecondDeadlineTimeout K.msToSecondWheelExpried K.msSecondDeadlineExpried QLEN
  constructor <;> (by_cases hT : T ≥ 3000 <;> simp [hT] <;> omega)

end Slock.Ms
