import Slock.Proofs.AckKOps2
import Slock.Proofs.AckConsStep
/-! M-ACK: `InvK` through LOCK, UNLOCK, the sweeps, journal delivery, reports, demotion; every event; every run. -/
namespace Slock.Ack

theorem notfp_of_notpending {r : Rec} (h : r.pending = false) : r.fp = false := by unfold Rec.fp; simp [h]

/-- a live hold that is not pending is in the expiry wheel -/
theorem notexp_of_held {r : Rec} (hk : KR r) (hd : r.depth > 0) (hp : r.pending = false) : r.expried = false := by
  cases e : r.expried with
  | false => rfl
  | true => have := hk.2 hd e; rw [hp] at this; exact absurd this (by decide)

theorem pushJ_unlock_jc (db : DB) (r0 : Rec) (h : Nat) : jc (db.pushJ r0 false).1 h = jc db h := by
  have := pushJ_jc db r0 false h
  simp at this
  unfold DB.pushJ at this ⊢
  split
  · rfl
  · split
    · rfl
    · show jcL (db.journal ++ [_]) h = _
      rw [jcL_append, jcL_single]; simp; rfl

theorem pushJ_noack_jc (db : DB) (r0 : Rec) (b : Bool) (h : Nat) (hr : r0.cmd.ack = false) : jc (db.pushJ r0 b).1 h = jc db h := by
  unfold DB.pushJ
  split
  · rfl
  · split
    · rfl
    · show jcL (db.journal ++ [_]) h = _
      rw [jcL_append, jcL_single]; simp [hr]; rfl

theorem updateHold_journal (db : DB) (hid : Nat) (c : Cmd) : (db.updateHold hid c).journal = db.journal := by
  unfold DB.updateHold; simp only []; split <;> rfl

theorem InvK.newRec {db : DB} (ha : InvA db) (hk : InvK db) (c : Cmd) : InvK (db.newRec c).1 := by
  obtain ⟨r0, e0, e1, e2, e3, e4, _⟩ := newRec_recs db c
  have hg : ∀ a, a ≠ db.nextHid → (db.newRec c).1.getR a = db.getR a := fun a ha => newRec_getR db c a ha
  have hnew : ((db.newRec c).1.getR db.nextHid).fp = false := by
    obtain ⟨r1, f0, _, f2, _⟩ := newRec_findR ha c
    rw [newRec_snd] at f0
    rw [getR_eq, f0]; exact fp_false_of_depth f2
  refine ⟨hk.cfg, ?_, ?_, ?_, ?_⟩
  · intro r hr; rw [e0] at hr
    rcases List.mem_append.mp hr with hr | hr
    · exact hk.recs r hr
    · simp at hr; subst hr; exact ⟨by rw [e4]; exact Nat.le_refl _, by intro h; omega⟩
  · intro a hfp
    by_cases e : a = db.nextHid
    · rw [e, hnew] at hfp; exact absurd hfp (by decide)
    · rw [hg a e] at hfp; exact hk.k2 a hfp
  · intro x hx hfp
    have hlt := (ha.tabOk x hx).1
    rw [hg _ (by omega)] at hfp ⊢; exact hk.k1 x hx hfp
  · intro a hj
    have hj' : jc db a > 0 := hj
    by_cases e : a = db.nextHid
    · have := (ha.unref (h := a) (Or.inr (by omega))).1; omega
    · rw [hg a e]; exact hk.kj a hj'

theorem InvK.opLock {db : DB} (ha : InvA db) (hk : InvK db) (c : Cmd) : InvK (opLock db c).1 := by
  have hs := classifyLock_spec db c
  unfold Slock.Ack.opLock
  cases e : classifyLock db c with
  | stateError => exact hk
  | ackWaiting h => exact hk
  | relockRefused h => exact hk
  | timeout => exact hk
  | relock h =>
    obtain ⟨r, hr, e1, hnp⟩ := hs.1 h e
    have hm := findHolder_mem hr
    have hkr := hk.recs r hm.1
    have hne := notexp_of_held hkr hm.2 hnp
    have hpr : findR db.recs h = some r := by rw [← e1]; exact findR_of_mem ha.nodup hm.1
    have h1 := ((AtK.start ha hk hpr).modR (fun r => { r with depth := r.depth + 1 }) (by intro _; rfl)).modKey c.key (fun k => { k with locked := k.locked + 1 })
    have hgr : db.getR h = r := by rw [getR_eq, hpr]; rfl
    have hjz : jc db h = 0 := hk.jz (by rw [hgr]; exact hm.2) (by rw [hgr]; exact hnp)
    have hfin : ∀ (d : DB) (r1 : Rec), AtK d h r1 → r1.ack = r.ack → r1.expried = false → jc d h = 0 →
        InvK (if ((d.updateHold h c).getR h).isAof = true then ((d.updateHold h c).pushJ ((d.updateHold h c).getR h).noAckFlag true).1 else d.updateHold h c) := by
      intro d r1 hd c3 c6 hjd
      have hju : jc (d.updateHold h c) h = 0 := by rw [jc_of_journal (updateHold_journal d h c)]; exact hjd
      have hu : ∃ r2, AtK (d.updateHold h c) h r2 ∧ r2.ack = r.ack ∧ r2.expried = false := by
        unfold DB.updateHold
        simp only []
        have hd1 := hd.modR (Rec.updateF d.now c) (by intro _; rfl)
        split
        · obtain ⟨r3, h3, f1, f2, f3⟩ := hd1.addExpried
          exact ⟨r3, h3, by rw [f2]; exact c3, f3⟩
        · exact ⟨_, hd1, c3, c6⟩
      obtain ⟨r2, h2, g3, g6⟩ := hu
      split
      · exact (h2.pushJ ((d.updateHold h c).getR h).noAckFlag (by rw [noAck_hid, getR_hid]) true).finishN
          ⟨by rw [g3]; exact hkr.1, by intro _ hh; rw [g6] at hh; exact absurd hh (by decide)⟩ (fp_false_of_expried g6)
          (by intro hh; rw [pushJ_noack_jc _ _ _ _ (noAck_ack _), hju] at hh; omega)
      · exact h2.finishN ⟨by rw [g3]; exact hkr.1, by intro _ hh; rw [g6] at hh; exact absurd hh (by decide)⟩ (fp_false_of_expried g6)
          (by intro hh; rw [hju] at hh; omega)
    have hrl : InvK (db.relockHold c h) := by
      unfold DB.relockHold
      simp only []
      split
      · rename_i fr _
        exact (hfin _ _ (h1.modKey c.key (fun k => { k with cell := some (applyFrame k.cell fr).1 })) rfl hne
          (by rw [jc_of_journal (db := db) (by simp)]; exact hjz)).ctrMod _
      · exact (hfin _ _ h1 rfl hne (by rw [jc_of_journal (db := db) (by simp)]; exact hjz)).ctrMod _
    unfold applyLock
    simp only []
    exact InvK.wake (ha.relockHold c h (classifyLock_relock ha e)) hrl _ _
  | grant =>
    obtain ⟨r0, f0, f1, f2, f3, f4, f5, f6⟩ := newRec_findR ha c
    have h1 : InvK ((db.newRec c).1.grant (db.newRec c).2).1 := InvK.grant (ha.newRec c) (InvK.newRec ha hk c) _ f0 (by rw [f4]; exact Nat.le_refl _)
      (ha.unref (h := db.nextHid) (Or.inr (Nat.le_refl _))).1
    unfold applyLock
    simp only []
    split
    · exact InvK.wake ((ha.newRec c).grant _ (ha.newRec_unref c)) h1 _ _
    · exact h1
  | ackGrant =>
    have hca := hs.2.2 e
    obtain ⟨r0, f0, f1, f2, f3, f4, f5, f6⟩ := newRec_findR ha c
    have han := ha.newRec c
    have hkn := InvK.newRec ha hk c
    have hu0 := ha.unref (h := db.nextHid) (Or.inr (Nat.le_refl _))
    have hu : jc (db.newRec c).1 (db.newRec c).2 = 0 ∧ tc (db.newRec c).1 (db.newRec c).2 = 0 := hu0
    obtain ⟨r1, h1, a1, a2, a3, a4⟩ := (AtK.start han hkn f0).ackHold
    obtain ⟨r2, h2, b2, b3, b4, b5⟩ := h1.addTimeOut
    obtain ⟨r3, h3, s, t3, j3⟩ := h2.pushLock
    obtain ⟨s1, s2, s3, s4, s5, s6⟩ := s
    rw [f1, hca] at a3; simp at a3
    have hack : r3.ack = 0 := by rw [s3, b3, a3]
    have hk3 : InvK ((((db.newRec c).1.ackHold (db.newRec c).2).addTimeOut (db.newRec c).2).pushLock (db.newRec c).2).1 := by
      refine h3.finish ⟨by rw [hack]; decide, by intro _ _; unfold Rec.pending; rw [hack]; decide⟩ ?_ ?_
        (fun _ => Or.inr (by unfold Rec.pending; rw [hack]; decide))
      · intro _
        have e1 : tc ((((db.newRec c).1.ackHold (db.newRec c).2).addTimeOut (db.newRec c).2).pushLock (db.newRec c).2).1 (db.newRec c).2 = 0 := by
          unfold tc; rw [t3]; show tcL (((db.newRec c).1.ackHold (db.newRec c).2)).tab _ = 0; rw [ackHold_tab]; exact hu.2
        have e2 : jc (((db.newRec c).1.ackHold (db.newRec c).2).addTimeOut (db.newRec c).2) (db.newRec c).2 = 0 := by
          unfold jc; show jcL (((db.newRec c).1.ackHold (db.newRec c).2)).journal _ = 0; rw [ackHold_journal]; exact hu.1
        omega
      · intro x hx hxe _
        have hx' : x ∈ (db.newRec c).1.tab := by
          rw [t3] at hx
          have : x ∈ ((db.newRec c).1.ackHold (db.newRec c).2).tab := hx
          rw [ackHold_tab] at this; exact this
        exact absurd hxe ((tcL_zero_iff _ _).mp hu.2 x hx')
    have hai : InvA ((((db.newRec c).1.ackHold (db.newRec c).2).addTimeOut (db.newRec c).2).pushLock (db.newRec c).2).1 := by
      apply InvA.pushLock ((han.ackHold _ (ha.newRec_unref c)).addTimeOut _)
      · rw [addTimeOut_nextHid, ackHold_nextHid, newRec_nextHid, newRec_snd]; omega
      · rw [queued_addTimeOut]; exact queued_ackHold_self _ _
    unfold applyLock
    simp only []
    split
    · exact hk3
    · exact InvK.ackDone hai hk3 _ _ (by intro _ _; rw [h3.getR, s6, b4, a4]; exact f6) (by intro hh; cases hh)
  | queue =>
    obtain ⟨r0, f0, f1, f2, f3, f4, f5, f6⟩ := newRec_findR ha c
    have h1 := (AtK.start (ha.newRec c) (InvK.newRec ha hk c) f0).modR (fun r => { r with queued := true }) (by intro _; rfl)
    obtain ⟨r2, h2, b2, b3, b4, b5⟩ := h1.addTimeOut
    unfold applyLock
    simp only []
    exact ((h2.modKey c.key (fun k => { k with waited := true })).ctrMod (fun x => { x with waitCount := x.waitCount + 1 })).finishD
      ⟨by rw [b3]; show r0.ack ≤ NOACK; rw [f4]; exact Nat.le_refl _, by intro hd; rw [b2] at hd; simp [f2] at hd⟩ (by rw [b2]; exact f2)

/-- an update of the record `hid` that keeps "is a hold", the wheel flag and the counter -/
theorem InvK.modR_keep {db : DB} (ha : InvA db) (hk : InvK db) (hid : Nat) (f : Rec → Rec) (hf : ∀ r, (f r).hid = r.hid)
    (hfr : ((f (db.getR hid)).depth > 0 ↔ (db.getR hid).depth > 0) ∧ (f (db.getR hid)).expried = (db.getR hid).expried ∧ (f (db.getR hid)).ack = (db.getR hid).ack) :
    InvK (db.modR hid f) := by
  cases e : findR db.recs hid with
  | none =>
    have : (db.modR hid f).recs = db.recs := by
      rw [modR_recs]
      have : ∀ rs : List Rec, findR rs hid = none → modRecs hid f rs = rs := by
        intro rs; induction rs with
        | nil => intro _; rfl
        | cons x xs ih =>
          intro hn; unfold findR at hn; unfold modRecs
          by_cases ex : (x.hid == hid) = true
          · simp [List.find?, ex] at hn
          · have ex' : (x.hid == hid) = false := by simpa using ex
            simp only [List.find?, ex'] at hn
            rw [ex']; simp only [Bool.false_eq_true, if_false]; rw [ih hn]
      exact this _ e
    exact hk.frame this rfl rfl rfl
  | some r =>
    have hg : db.getR hid = r := by rw [getR_eq, e]; rfl
    rw [hg] at hfr
    have h1 := (AtK.start ha hk e).modR f hf
    have hfp : (f r).fp = r.fp := by
      unfold Rec.fp Rec.pending; rw [hfr.2.1, hfr.2.2]
      have : decide ((f r).depth > 0) = decide (r.depth > 0) := by
        by_cases h : r.depth > 0
        · simp [h, hfr.1.mpr h]
        · have : ¬ (f r).depth > 0 := fun hh => h (hfr.1.mp hh)
          simp [h, this]
      rw [this]
    have hkr := hk.recs r (findR_some_mem e).1
    refine h1.finish ⟨by rw [hfr.2.2]; exact hkr.1, ?_⟩ ?_ ?_ ?_
    · intro hd he; unfold Rec.pending; rw [hfr.2.2]; exact hkr.2 (hfr.1.mp hd) (by rw [← hfr.2.1]; exact he)
    · intro hh; rw [hfp] at hh; exact hk.k2 hid (by rw [hg]; exact hh)
    · intro x hx hxe hh; rw [hfp] at hh
      have := hk.k1 x hx (by rw [hxe, hg]; exact hh)
      rw [hxe, hg] at this; rw [hfr.2.2]; exact this
    · intro hj
      have hj' : jc db hid > 0 := hj
      rcases hk.kj hid hj' with h | h
      · rw [hg] at h
        by_cases hd : (f r).depth > 0
        · have := hfr.1.mp hd; omega
        · exact Or.inl (by omega)
      · rw [hg] at h; exact Or.inr (by unfold Rec.pending at h ⊢; rw [hfr.2.2]; exact h)

theorem InvK.journalUnlock {db : DB} (ha : InvA db) (hk : InvK db) (hid : Nat) (keep : Bool) : InvK (db.journalUnlock hid keep) := by
  unfold DB.journalUnlock
  split
  · simp only []
    have h1 : InvK (db.pushJ (db.getR hid) false).1 := by
      have hg : ∀ a, (db.pushJ (db.getR hid) false).1.getR a = db.getR a := fun a => getR_frame (pushJ_recs _ _ _) a
      refine ⟨by rw [pushJ_cfg]; exact hk.cfg, by rw [pushJ_recs]; exact hk.recs, ?_, ?_, ?_⟩
      · intro a hfp; rw [hg] at hfp
        have e1 : tc (db.pushJ (db.getR hid) false).1 a = tc db a := by unfold tc; rw [pushJ_tab]
        rw [pushJ_unlock_jc, e1]; exact hk.k2 a hfp
      · rw [pushJ_tab, pushJ_cfg]; intro x hx hfp; rw [hg] at hfp ⊢; exact hk.k1 x hx hfp
      · intro a hj; rw [pushJ_unlock_jc] at hj; rw [hg]; exact hk.kj a hj
    split
    · exact h1.irrel' hid _ rfl (by intro _; exact ⟨rfl, rfl, rfl, rfl⟩) rfl rfl rfl
    · exact h1
  · exact hk

theorem classifyUnlock_holder (db : DB) (c : Cmd) :
    (∀ h, classifyUnlock db c = .dec h ∨ classifyUnlock db c = .release h → ∃ r ∈ db.recs, r.hid = h ∧ r.depth > 0) ∧
    (∀ h, classifyUnlock db c = .dec h → ∃ r ∈ db.recs, r.hid = h ∧ r.depth > 1) := by
  constructor
  · intro h hh
    obtain ⟨r, hm, e, hd, _⟩ := classifyUnlock_spec db c h hh
    exact ⟨r, hm, e, hd⟩
  · intro h hh
    unfold classifyUnlock at hh
    simp only [] at hh
    split at hh
    · simp at hh
    · split at hh
      · simp at hh
      · split at hh
        · rename_i r hr
          have hm := findHolder_mem hr
          split at hh
          · simp at hh
          · split at hh
            · rename_i hc; simp at hh; exact ⟨r, hm.1, hh, by simp at hc; exact hc.1⟩
            · simp at hh
        · split at hh
          · split at hh
            · rename_i r hr
              have hm := holders_head_mem hr
              split at hh
              · simp at hh
              · split at hh
                · rename_i hc; simp at hh; exact ⟨r, hm.1, hh, by simp at hc; exact hc.1⟩
                · simp at hh
            · simp at hh
          · simp at hh

theorem InvK.opUnlock {db : DB} (ha : InvA db) (hk : InvK db) (c : Cmd) : InvK (opUnlock db c).1 := by
  have hs := classifyUnlock_holder db c
  unfold Slock.Ack.opUnlock
  cases e : classifyUnlock db c with
  | stateError => unfold applyUnlock DB.bumpErr; dsimp only; exact hk.ctrMod _
  | notLocked => unfold applyUnlock DB.bumpErr; dsimp only; exact hk.ctrMod _
  | unown => unfold applyUnlock DB.bumpErr; dsimp only; exact hk.ctrMod _
  | ackWaiting h => unfold applyUnlock DB.bumpErr; dsimp only; exact hk.ctrMod _
  | dec h =>
    obtain ⟨r, hm, e1, hd⟩ := hs.2 h e
    have hg : db.getR h = r := by rw [← e1]; exact ha.getR_of_mem hm
    have hk1 : InvK (db.modR h (fun r => { r with depth := r.depth - 1 })) :=
      InvK.modR_keep ha hk h _ (by intro _; rfl) (by rw [hg]; exact ⟨⟨fun _ => by omega, fun _ => by show r.depth - 1 > 0; omega⟩, rfl, rfl⟩)
    have ha1 : InvA ((db.modR h (fun r => { r with depth := r.depth - 1 })).modKey c.key (fun k => { k with locked := k.locked - 1 })) := by
      apply InvA.modKey
      exact ha.modR_holder h _ (by intro _; exact ⟨rfl, rfl, rfl⟩) (by intro r hd; simp at hd; omega)
    unfold applyUnlock
    simp only []
    exact InvK.wake ((ha1.journalUnlock h true).ctrMod _) ((InvK.journalUnlock ha1 (hk1.modKey _ _) h true).ctrMod _) _ _
  | release h =>
    obtain ⟨r, hm, e1, hd⟩ := hs.1 h (Or.inr e)
    have hpr : findR db.recs h = some r := by rw [← e1]; exact findR_of_mem ha.nodup hm
    have h1 := ((AtK.start ha hk hpr).modR (fun r => { r with expried := true }) (by intro _; rfl)).modKey c.key
      (fun k => { k with locked := k.locked - (db.getR h).depth })
    obtain ⟨r2, h2, _, _⟩ := h1.journalUnlock false
    obtain ⟨r3, h3, c1, c2⟩ := h2.removeLock
    have hk' := (h3.ctrMod (fun x => { x with unLockCount := x.unLockCount + (db.getR h).depth, lockedCount := x.lockedCount - (db.getR h).depth })).finishD
      (KR_dead' c1 c2) c1
    have ha' : InvA ((((db.modR h (fun r => { r with expried := true })).modKey c.key (fun k => { k with locked := k.locked - (db.getR h).depth })).journalUnlock h false).removeLock h |>.ctrMod
        (fun x => { x with unLockCount := x.unLockCount + (db.getR h).depth, lockedCount := x.lockedCount - (db.getR h).depth })) := by
      apply InvA.ctrMod; apply InvA.removeLock; apply InvA.journalUnlock; apply InvA.modKey
      exact ha.modR_irrel h _ (irrel_expried true)
    unfold applyUnlock
    simp only []
    exact InvK.wake ha' hk' _ _

end Slock.Ack
