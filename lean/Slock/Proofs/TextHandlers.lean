import Slock.Model.TextHandlers
/-! Soundness of `Read.check` (C13 text part: handler argument indexing). -/
namespace Slock.TextH

theorem minLen_le (fs : List Fact) (len i : Nat) (h : ∀ f ∈ fs, f.holds len i) : minLen fs ≤ len := by
  induction fs with
  | nil => simp [minLen]
  | cons f fs ih =>
    have ht := ih (fun g hg => h g (by simp [hg]))
    cases f with
    | lenGe n =>
      have hn : n ≤ len := h (.lenGe n) (by simp)
      simp only [minLen]
      omega
    | lenNe n => simpa [minLen] using ht
    | iLtLen => simpa [minLen] using ht
    | iPlusLt k => simpa [minLen] using ht
    | iLtDiv c d => simpa [minLen] using ht
    | unknown => simpa [minLen] using ht

theorem minLen'_le (fs : List Fact) (len i : Nat) (h : ∀ f ∈ fs, f.holds len i) : minLen' fs ≤ len := by
  have hm := minLen_le fs len i h
  unfold minLen'
  simp only
  by_cases hc : fs.contains (.lenNe (minLen fs)) = true
  · simp only [hc, if_true]
    have hmem : Fact.lenNe (minLen fs) ∈ fs := by simpa using hc
    have hne : len ≠ minLen fs := h _ hmem
    omega
  · simp only [hc]
    exact hm

theorem check_sound (r : Read) (hc : r.check = true) : r.safe := by
  intro len i hf
  unfold Read.check at hc
  by_cases ha0 : r.a = 0
  · simp only [ha0, if_true, decide_eq_true_eq] at hc
    have := minLen'_le r.facts len i hf
    rw [ha0]; omega
  · simp only [ha0, if_false] at hc
    by_cases ha1 : r.a = 1
    · simp only [ha1, if_true, Bool.or_eq_true, Bool.and_eq_true, decide_eq_true_eq, List.any_eq_true] at hc
      rw [ha1]
      rcases hc with ⟨hb, hmem⟩ | ⟨f, hmem, hk⟩
      · have hmem' : Fact.iLtLen ∈ r.facts := by simpa using hmem
        have : i < len := hf _ hmem'
        omega
      · cases f with
        | iPlusLt k =>
          have : i + k < len := hf _ hmem
          simp only [decide_eq_true_eq] at hk
          omega
        | lenGe n => simp at hk
        | lenNe n => simp at hk
        | iLtLen => simp at hk
        | iLtDiv c d => simp at hk
        | unknown => simp at hk
    · simp only [ha1, if_false, List.any_eq_true] at hc
      obtain ⟨f, hmem, hk⟩ := hc
      cases f with
      | iLtDiv c d =>
        simp only [Bool.and_eq_true, decide_eq_true_eq, List.any_eq_true] at hk
        obtain ⟨⟨hd, hpos, hb⟩, g, hg, hgk⟩ := hk
        have hi : i < (len - c) / d := hf _ hmem
        cases g with
        | lenGe n =>
          simp only [decide_eq_true_eq] at hgk
          have hn : n ≤ len := hf _ hg
          have h1 : (i + 1) * d ≤ len - c := (Nat.le_div_iff_mul_le hpos).mp hi
          rw [← hd]
          have h2 : (i + 1) * d = d * i + d := by rw [Nat.add_mul, Nat.mul_comm]; simp
          omega
        | lenNe n => simp at hgk
        | iLtLen => simp at hgk
        | iPlusLt k => simp at hgk
        | iLtDiv c' d' => simp at hgk
        | unknown => simp at hgk
      | lenGe n => simp at hk
      | lenNe n => simp at hk
      | iLtLen => simp at hk
      | iPlusLt k => simp at hk
      | unknown => simp at hk

theorem all_safe (rs : List Read) (h : rs.all Read.check = true) : ∀ r ∈ rs, r.safe := by
  intro r hr
  exact check_sound r (List.all_eq_true.mp h r hr)

theorem dbs_check_sound (size : Nat) (r : DbsRead) (hc : r.check size = true) : r.safe size := by
  intro idx hp
  unfold DbsRead.check at hc
  cases hk : r.kind with
  | u8 =>
    simp only [hk, decide_eq_true_eq] at hc
    rw [hk] at hp
    simp only [DbsKind.premise] at hp
    omega
  | range => rw [hk] at hp; exact hp
  | guarded =>
    rw [hk] at hp
    simp only [DbsKind.premise] at hp
    omega
  | unguarded => simp [hk] at hc
  | unknown => simp [hk] at hc

theorem dbs_all_safe (size : Nat) (rs : List DbsRead) (h : rs.all (DbsRead.check size) = true) : ∀ r ∈ rs, r.safe size := by
  intro r hr
  exact dbs_check_sound size r (List.all_eq_true.mp h r hr)

end Slock.TextH
