import Slock.Proofs.Engine2QIWake
/-! Stage-2 engine: every LOCK / UNLOCK branch keeps the queue invariants `QI`. -/
namespace Slock.Engine2
open Slock.Engine (has)

theorem qi_getKey {db : DB} (hq : ∀ k ∈ db.keys, QI k) (n : Nat) : QI (db.getKey n) := by
  cases hh : db.hasKey n with
  | true => exact hq _ (getKey_mem db n hh)
  | false => rw [getKey_of_not_hasKey db n hh]; exact QI.newKey n

theorem qi_enter {db : DB} (hq : ∀ k ∈ db.keys, QI k) (n : Nat) : QI (db.enter n).k := by rw [enter_k]; exact qi_getKey hq n
theorem qi_openKey {db : DB} (hq : ∀ k ∈ db.keys, QI k) (n : Nat) : QI (db.openKey n).k := qi_getKey hq n

theorem mem_insertPrio (ws : List WEnt) (e : WEnt) : e ∈ insertPrio ws e := by
  induction ws with
  | nil => simp [insertPrio]
  | cons x xs ih =>
    unfold insertPrio
    split
    · simp
    · exact List.mem_cons_of_mem _ ih

theorem waitPush_spec (k : Key) (e : WEnt) : e ∈ (k.waitPush e).wait ∧ (k.waitPush e).current = k.current ∧ (k.waitPush e).locks = k.locks := by
  unfold Key.waitPush
  split
  · exact ⟨mem_insertPrio _ _, rfl, rfl⟩
  · simp only []
    split
    · exact ⟨by simp, rfl, rfl⟩
    · split
      · exact ⟨by simp, rfl, rfl⟩
      · have := queues_eq (foldl_unrefW_queues (k.wait.filter (fun x => k.deadWaiter x.rid))
          (if (k.wait.filter (fun x => !k.deadWaiter x.rid)).length < k.waitPopped + k.wait.length then
            { k with wait := k.wait.filter (fun x => !k.deadWaiter x.rid) ++ [e], waitPopped := 0 }
          else { k with wait := k.wait.filter (fun x => !k.deadWaiter x.rid) ++ [e], waitCap := 2 * k.waitCap }))
        refine ⟨?_, this.1.trans ?_, this.2.1.trans ?_⟩
        · rw [this.2.2]; split <;> simp
        · split <;> rfl
        · split <;> rfl

theorem addWaitLock_spec (k : Key) (rid : Nat) :
    (∃ e ∈ (k.addWaitLock rid).wait, e.rid = rid) ∧ (k.addWaitLock rid).current = k.current ∧ (k.addWaitLock rid).locks = k.locks := by
  unfold Key.addWaitLock
  simp only []
  have step : ∀ k1 : Key, k1.current = k.current → k1.locks = k.locks →
      (∃ e ∈ ({ (k1.waitPush ⟨rid, Slock.Engine.cmdPriority (k.getR rid).cmd⟩).modRec rid (fun r => { r with refCount := r.refCount + 1 }) with waited := true } : Key).wait,
        e.rid = rid) ∧
      ({ (k1.waitPush ⟨rid, Slock.Engine.cmdPriority (k.getR rid).cmd⟩).modRec rid (fun r => { r with refCount := r.refCount + 1 }) with waited := true } : Key).current = k.current ∧
      ({ (k1.waitPush ⟨rid, Slock.Engine.cmdPriority (k.getR rid).cmd⟩).modRec rid (fun r => { r with refCount := r.refCount + 1 }) with waited := true } : Key).locks = k.locks := by
    intro k1 h1 h2
    obtain ⟨a, b, c⟩ := waitPush_spec k1 ⟨rid, Slock.Engine.cmdPriority (k.getR rid).cmd⟩
    exact ⟨⟨_, a, rfl⟩, b.trans h1, c.trans h2⟩
  apply step
  · split
    · split
      · split
        · rfl
        · rfl
      · rfl
    · rfl
  · split
    · split
      · split
        · rfl
        · rfl
      · rfl
    · rfl

/-- a request that has just been queued and armed is live -/
theorem timeouted_ref_addTimeOut (w : W) (rid : Nat) (h : w.k.hasRec rid) : (((w.addTimeOut rid).ref rid).k.getR rid).timeouted = false := by
  have a := getR_modRec_proj (·.timeouted) (w.addTimeOut rid).k rid rid (fun r => { r with refCount := r.refCount + 1 }) (by intro _; rfl) (by intro _; rfl)
  show (((w.addTimeOut rid).k.modRec rid (fun r => { r with refCount := r.refCount + 1 })).getR rid).timeouted = false
  rw [a]
  unfold W.addTimeOut
  show ((w.k.modRec rid (Rec.armT _)).getR rid).timeouted = false
  rw [getR_modRec_same _ _ _ (by intro _; rfl) h]
  rfl

theorem applyLock_qi (db : DB) (hdb : DBI db) (ht : ∀ k ∈ db.keys, KeyTight k) (hq : ∀ k ∈ db.keys, QI k) (c : Cmd) (data : Option Bytes) (b : LockBranch)
    (hb : ∀ h, b.holderOf = some h → h ∈ (db.getKey c.key).current.toList ++ (db.getKey c.key).locks)
    (hrel : ∀ h, b = .relock h → 0 < ((db.getKey c.key).getR h).depth)
    (huwr : b = .unlockedWaitRefused → (db.getKey c.key).waited = true)
    (hupd : ∀ h, b = .update h → 0 < ((db.getKey c.key).getR h).depth) :
    QIG (applyLock db c data b) := by
  have t := applyLock_tight db hdb ht c data b hb hrel huwr hupd
  have ge := Good.enter hdb ht c.key
  have le := ge.lv
  have ce := cur_enter ht c.key
  have qe := qi_enter hq c.key
  have qo := qi_openKey hq c.key
  cases b with
  | p0a => exact QIG.of_qi qo
  | p0b => exact QIG.of_qi qo
  | stateError => exact (QIG.removeIfZero (QIG.of_qi qe)).reply _ _ _ _
  | «show» cur => exact QIG.of_qi qe
  | updateEqual h => exact QIG.of_qi qe
  | relockNoHold h => exact QIG.of_qi qe
  | relockRefused h => exact QIG.of_qi qe
  | unlockedWaitRefused => exact QIG.of_qi qe
  | updateEqualData h =>
    simp only [applyLock] at t ⊢
    intro hg
    have d := qk_procData (db.enter c.key) .lock (lockCmdOf (db.enter c.key).k c (.updateEqualData h))
      (frameOf (lockCmdOf (db.enter c.key).k c (.updateEqualData h)) data) h
    exact qe.of_qk ⟨d.q, d.t⟩ (t.good hg).lv
  | update h =>
    simp only [applyLock] at t ⊢
    have hhold : (db.enter c.key).k.hasRec h := by
      apply hasRec_of_holder le
      rw [enter_k]; exact hb h rfl
    have tp := update_tight_pre db hdb ht c data h hhold (hupd h rfl)
    refine qi_wake (tp.reply _ _ _ _) (QIG.reply ?_ _ _ _ _)
    intro hg
    have d1 := qk_procData (db.enter c.key) .lock (lockCmdOf (db.enter c.key).k c (.update h)) (frameOf (lockCmdOf (db.enter c.key).k c (.update h)) data) h
    have d2 := (qk_updateLocked _ h (lockCmdOf (db.enter c.key).k c (.update h))).trans d1
    have d3 := (qk_when _ (!has (lockCmdOf (db.enter c.key).k c (.update h)).flag Slock.Engine.F_FROM_AOF) (·.journalLock h AOF_UPDATED) (qk_journalLock _ _ _)).trans d2
    exact qe.of_qk ⟨d3.q, d3.t⟩ (tp.good hg).lv
  | relock h =>
    simp only [applyLock] at t ⊢
    have hhold : (db.enter c.key).k.hasRec h := by
      apply hasRec_of_holder le
      rw [enter_k]; exact hb h rfl
    have tp := relock_tight_pre db hdb ht c data h hhold (hrel h rfl)
    refine qi_wake ((tp.ctr _).reply _ _ _ _) (QIG.reply (QIG.ctr ?_ _) _ _ _ _)
    intro hg
    have d0 : QK (((db.enter c.key).modR h (fun r => { r with depth := r.depth + 1 })).modK incLocked) (db.enter c.key) :=
      (qk_modK _ incLocked rfl rfl).trans (qk_modR _ h _ (by intro _; rfl) (by intro _; rfl))
    have d1 := (qk_procData _ .lock c (frameOf c data) h).trans d0
    have d2 := (qk_updateLocked _ h c).trans d1
    have d3 := (qk_journalLock _ h AOF_UPDATED).trans d2
    exact qe.of_qk ⟨d3.q, d3.t⟩ (tp.good hg).lv
  | grant =>
    simp only [applyLock] at t ⊢
    obtain ⟨ln, hn, _, _, _, hg⟩ := le.newLock zero_nonneg c data
    have g := newRec_grantable (db.enter c.key) c data hn hg
    have n0 : Nz ((db.enter c.key).newLock c data).1 (some (db.enter c.key).db.nextRid) := ⟨⟨ln.rc.nodup⟩, nz_addRec ge.nz.nz _⟩
    obtain ⟨l1, hh1⟩ := ln.grant zero_nonneg _ g
    have g1 : Good (((db.enter c.key).newLock c data).1.grant (db.enter c.key).db.nextRid) := ⟨l1, n0.grant _ hn⟩
    have cn : CurLive ((db.enter c.key).newLock c data).1.k := ce.addRec _ (hasRec_current le)
    have t1 := Tight.of_good g1 (recs_ne_of_hasRec hh1) (cur_grant cn ln _ g)
    have q1 : QI (((db.enter c.key).newLock c data).1.grant (db.enter c.key).db.nextRid).k := (qe.newLock le c data).grant ln _ g
    unfold W.when
    split
    · exact qi_wake t1 (QIG.of_qi q1)
    · exact QIG.of_qi q1
  | grantNoHold =>
    simp only [applyLock] at t ⊢
    obtain ⟨ln, hn, _, hq0, _, hg⟩ := le.newLock zero_nonneg c data
    have n0 : Nz ((db.enter c.key).newLock c data).1 (some (db.enter c.key).db.nextRid) := ⟨⟨ln.rc.nodup⟩, nz_addRec ge.nz.nz _⟩
    have l1 := ln.grantNoHold (db.enter c.key).db.nextRid
    have n1 := n0.of_up (up_grantNoHold ((db.enter c.key).newLock c data).1 (db.enter c.key).db.nextRid)
    have cn : CurLive ((db.enter c.key).newLock c data).1.k := ce.addRec _ (hasRec_current le)
    have hz : ((((db.enter c.key).newLock c data).1.grantNoHold (db.enter c.key).db.nextRid).k.qRefs (db.enter c.key).db.nextRid : Int) +
        zero (db.enter c.key).db.nextRid ≤ 0 := by rw [qRefs_of_queues (queues_grantNoHold _ _), hq0]; simp [zero]
    have t2 := good_freeCheck_clear l1 n1 hz (cn.of_dk (dk_grantNoHold _ _) l1)
    have t3 := (t2.ctr (fun x => { x with lockCount := x.lockCount + 1 })).reply c Slock.Engine.RESULT_SUCCED 0 (db.enter c.key).lockData
    have q1 : QI (((db.enter c.key).newLock c data).1.grantNoHold (db.enter c.key).db.nextRid).k :=
      (qe.newLock le c data).of_qk (qk_grantNoHold _ _) l1
    have l2 : Lv ((((db.enter c.key).newLock c data).1.grantNoHold (db.enter c.key).db.nextRid).modK (·.free (db.enter c.key).db.nextRid)) zero :=
      l1.modK _ (l1.rc.free _ hz) (RecsLe.free _ _)
    have q2 := q1.of_qk (qk_free _ (db.enter c.key).db.nextRid) l2
    have q3 : QIG ((((db.enter c.key).newLock c data).1.grantNoHold (db.enter c.key).db.nextRid).freeCheck (db.enter c.key).db.nextRid) := by
      unfold W.freeCheck
      exact QIG.removeIfZero (QIG.of_qi q2)
    have q4 := (q3.ctr (fun x => { x with lockCount := x.lockCount + 1 })).reply c Slock.Engine.RESULT_SUCCED 0 (db.enter c.key).lockData
    unfold W.when
    split
    · exact qi_wake t3 q4
    · exact q4
  | queue =>
    simp only [applyLock] at t ⊢
    intro hgone
    obtain ⟨ln, hn, _, hq0, _, hg⟩ := le.newLock zero_nonneg c data
    have qn := qe.newLock le c data
    obtain ⟨⟨e, he, her⟩, a2, a3⟩ := addWaitLock_spec ((db.enter c.key).newLock c data).1.k (db.enter c.key).db.nextRid
    have lfin := (t.good hgone).lv
    have hh := wait_hasRec lfin
    refine ⟨?_, ?_⟩
    · exact qn.cn.of_cl a2 a3
    · intro _
      refine ⟨e, he, ?_⟩
      rw [her]
      -- the new request: armed by `AddTimeOut`
      have hrec := hh e he
      rw [her] at hrec
      have h1 : (((db.enter c.key).newLock c data).1.modK (·.addWaitLock (db.enter c.key).db.nextRid)).k.hasRec (db.enter c.key).db.nextRid := by
        have := (hasRec_modR ((((db.enter c.key).newLock c data).1.modK (·.addWaitLock (db.enter c.key).db.nextRid)).addTimeOut (db.enter c.key).db.nextRid)
          (db.enter c.key).db.nextRid (db.enter c.key).db.nextRid (fun r => { r with refCount := r.refCount + 1 }) (by intro _; rfl)).mp hrec
        exact (hasRec_of_ids (ids_addTimeOut _ _) _).mp this
      exact timeouted_ref_addTimeOut _ _ h1
  | timeout =>
    simp only [applyLock] at t ⊢
    obtain ⟨ln, hn, _, hq0, _, hg⟩ := le.newLock zero_nonneg c data
    have qn := qe.newLock le c data
    have hz : ((((db.enter c.key).newLock c data).1).k.qRefs (db.enter c.key).db.nextRid : Int) + zero (db.enter c.key).db.nextRid ≤ 0 := by
      rw [hq0]; simp [zero]
    have l2 : Lv ((((db.enter c.key).newLock c data).1).modK (·.free (db.enter c.key).db.nextRid)) zero :=
      ln.modK _ (ln.rc.free _ hz) (RecsLe.free _ _)
    have q2 := qn.of_qk (qk_free _ (db.enter c.key).db.nextRid) l2
    have q3 : QIG ((((db.enter c.key).newLock c data).1).freeCheck (db.enter c.key).db.nextRid) := by
      unfold W.freeCheck
      exact QIG.removeIfZero (QIG.of_qi q2)
    exact q3.reply _ _ _ _

theorem qi_settleWait_cn {k : Key} (h : CurNone k) : QI k.settleWait := by
  obtain ⟨a, b⟩ := waitSkip_cl k.wait k
  have q : QI k.getWaitLock.1 := ⟨h.of_cl a b, wl_getWaitLock k⟩
  unfold Key.settleWait
  split
  · exact q.of_same rfl rfl
  · exact q

/-- the release of a hold, up to the wake pass -/
theorem release_qi {w : W} (g : Good w) (q : QI w.k) (h : Nat) (hh : w.k.hasRec h)
    (c' : Cmd) (fr : Option Bytes) (n : Nat) (fa : Bool) (b : Bool)
    (w2 : W) (e2 : w2 = ((w.modR h (fun r => { r with expried := true })).modK (fun k => { k with locked := k.locked - n })).procData .unlock c' fr h)
    (w5 : W) (e5 : w5 = ((w2.dropLongE h).journalUnlock h fa false 0).modK (·.removeLock h)) :
    QIG (w5.when (b && (w5.k.getR h).refCount == 0) (·.freeCheck h)) := by
  have le := g.lv
  have l1 : Lv (w.modR h (fun r => { r with expried := true })) zero :=
    le.modR_plain h _ (fun _ => rfl) (fun _ => rfl) (fun _ => rfl) (fun _ => rfl) (fun _ => rfl)
  have hh1 : (w.modR h (fun r => { r with expried := true })).k.hasRec h := (hasRec_modR _ h h _ (by intro _; rfl)).mpr hh
  have l2 : Lv ((w.modR h (fun r => { r with expried := true })).modK (fun k => { k with locked := k.locked - n })) zero :=
    l1.modK _ (l1.rc.transfer rfl rfl (fun _ => rfl)) (RecsLe.of_eq rfl)
  have l3 : Lv w2 zero := by rw [e2]; exact l2.procData .unlock c' fr h
  have kp := keep_procData ((w.modR h (fun r => { r with expried := true })).modK (fun k => { k with locked := k.locked - n })) .unlock c' fr h h
  have hh3 : w2.k.hasRec h := by rw [e2]; exact kp.1.mpr hh1
  have l4 := (l3.dropLongE zero_nonneg h hh3).journalUnlock h fa false 0
  have l5 : Lv w5 zero := by rw [e5]; exact l4.modK (·.removeLock h) (removeLock_rc zero_nonneg l4.rc h) (RecsLe.removeLock _ _)
  have d2 : QK w2 w := by
    rw [e2]
    exact (qk_procData _ _ _ _ _).trans ((qk_modK _ _ rfl rfl).trans (qk_modR w h _ (by intro _; rfl) (by intro _; rfl)))
  have d4 : QK ((w2.dropLongE h).journalUnlock h fa false 0) w := (qk_journalUnlock _ _ _ _ _).trans ((qk_dropLongE _ _).trans d2)
  have q4 := q.of_qk d4 l4
  have q5 : QI w5.k := by
    have hd := wait_hasRec l5
    rw [e5] at hd ⊢
    exact q4.removeLock h hd
  unfold W.when
  split
  · rename_i hcnd
    have hz : (w5.k.qRefs h : Int) + zero h ≤ 0 := by
      simp only [zero, Int.add_zero]
      by_cases hx : w5.k.hasRec h
      · have := l5.rc.refCount_of hx
        have hz : (w5.k.getR h).refCount = 0 := by
          simp only [Bool.and_eq_true, beq_iff_eq] at hcnd; exact hcnd.2
        rw [hz] at this; simp only [zero] at this; omega
      · apply Classical.byContradiction
        intro hn
        exact hx (l5.rc.dang h (by simp only [zero]; omega))
    have l6 : Lv (w5.modK (·.free h)) zero := l5.modK _ (l5.rc.free h hz) (RecsLe.free _ _)
    unfold W.freeCheck
    exact QIG.removeIfZero (QIG.of_qi (q5.of_qk (qk_free w5 h) l6))
  · exact QIG.of_qi q5

theorem applyUnlock_qi (db : DB) (hdb : DBI db) (ht : ∀ k ∈ db.keys, KeyTight k) (hq : ∀ k ∈ db.keys, QI k) (c : Cmd) (data : Option Bytes) (b : UnlockBranch)
    (hb : ∀ h, b.holderOf = some h → h ∈ (db.getKey c.key).current.toList ++ (db.getKey c.key).locks)
    (hc : ∀ x, b = .cancel x → x ∈ (db.getKey c.key).wait.map (·.rid) ∧ (db.getKey c.key).deadWaiter x = false)
    (hdec : ∀ h c', b = .dec h c' → 1 < ((db.getKey c.key).getR h).depth)
    (hrel : ∀ h c', b = .release h c' → 0 < ((db.getKey c.key).getR h).depth) :
    QIG (applyUnlock db c data b) := by
  have ge := Good.openKey hdb ht c.key
  have le := ge.lv
  have ce := cur_openKey ht c.key
  have qo := qi_openKey hq c.key
  cases b with
  | noManager => exact QIG.of_qi qo
  | stateError | notLocked | unown | cancelNone => exact QIG.of_qi qo
  | cancel x =>
    simp only [applyUnlock]
    have d2 : QK (((db.openKey c.key).modR x (fun r => { r with timeouted := true })).dropLongT x) ((db.openKey c.key).modR x (fun r => { r with timeouted := true })) :=
      qk_dropLongT _ x
    have cn2 : CurNone (((db.openKey c.key).modR x (fun r => { r with timeouted := true })).dropLongT x).k := by
      have c1 : CurNone ((db.openKey c.key).modR x (fun r => { r with timeouted := true })).k := qo.cn
      exact c1.of_q d2.q
    have q3 : QI ((((db.openKey c.key).modR x (fun r => { r with timeouted := true })).dropLongT x).modK (·.settleWait)).k := qi_settleWait_cn cn2
    have q4 : QIG ((((((db.openKey c.key).modR x (fun r => { r with timeouted := true })).dropLongT x).modK (·.settleWait)).ctr
        (fun y => { y with waitCount := y.waitCount - 1 })).removeIfZero) := QIG.removeIfZero (QIG.of_qi q3)
    obtain ⟨hm, hd⟩ := hc x rfl
    have tp := cancel_tight_pre db hdb ht c x hm hd
    exact qi_wake (((tp.ctr (fun y => { y with unLockCount := y.unLockCount + 1 })).reply _ _ _ _).reply _ _ _ _)
      (((q4.ctr _).reply _ _ _ _).reply _ _ _ _)
  | dec h c' =>
    simp only [applyUnlock]
    have hh := hasRec_of_holder le h (hb h rfl)
    have hd : 1 < ((db.openKey c.key).k.getR h).depth := hdec h c' rfl
    have l1 : Lv ((db.openKey c.key).modR h (fun r => { r with depth := r.depth - 1 })) zero :=
      le.modR_plain h _ (fun _ => rfl) (fun _ => rfl) (fun _ => rfl) (fun _ => rfl) (fun _ => rfl)
    have n1 : Nz ((db.openKey c.key).modR h (fun r => { r with depth := r.depth - 1 })) none :=
      ge.nz.modR_at h _ (fun _ => rfl) (fun _ hf => ⟨hf.pos, fun _ => hf.hold (by omega), fun hx => by
        have := hf.ended hx; simp only []; omega, fun hz => by simp only [] at hz; omega⟩)
    have c1 : CurLive ((db.openKey c.key).modR h (fun r => { r with depth := r.depth - 1 })).k :=
      ce.modDepth h _ (fun _ => rfl) hh (by simp only []; omega)
    have hh1 : ((db.openKey c.key).modR h (fun r => { r with depth := r.depth - 1 })).k.hasRec h := (hasRec_modR _ h h _ (by intro _; rfl)).mpr hh
    have g2 : Good (((db.openKey c.key).modR h (fun r => { r with depth := r.depth - 1 })).modK (fun k => { k with locked := k.locked - 1 })) :=
      ⟨l1.modK _ (l1.rc.transfer rfl rfl (fun _ => rfl)) (RecsLe.of_eq rfl), n1.modK_eq _ rfl⟩
    have c2 : CurLive (((db.openKey c.key).modR h (fun r => { r with depth := r.depth - 1 })).modK (fun k => { k with locked := k.locked - 1 })).k := c1
    have g3 := g2.of_up (g2.lv.procData .unlock c' (frameOf c' data) h) (up_procData _ _ _ _ _)
    have c3 := c2.of_dk (dk_procData _ .unlock c' (frameOf c' data) h) g3.lv
    have hh3 := (keep_procData (((db.openKey c.key).modR h (fun r => { r with depth := r.depth - 1 })).modK (fun k => { k with locked := k.locked - 1 }))
      .unlock c' (frameOf c' data) h h).1.mpr hh1
    have g4 := g3.of_up (g3.lv.journalUnlock h (has c'.flag Slock.Engine.F_FROM_AOF) true AOF_UPDATED) (up_journalUnlock _ _ _ _ _)
    have c4 := c3.of_dk (dk_journalUnlock _ h (has c'.flag Slock.Engine.F_FROM_AOF) true AOF_UPDATED) g4.lv
    have hh4 := (hasRec_of_ids (ids_journalUnlock _ h (has c'.flag Slock.Engine.F_FROM_AOF) true AOF_UPDATED) h).mpr hh3
    have t4 := Tight.of_good g4 (recs_ne_of_hasRec hh4) c4
    have d0 : QK (((db.openKey c.key).modR h (fun r => { r with depth := r.depth - 1 })).modK (fun k => { k with locked := k.locked - 1 })) (db.openKey c.key) :=
      (qk_modK _ _ rfl rfl).trans (qk_modR _ h _ (by intro _; rfl) (by intro _; rfl))
    have d1 := (qk_procData _ .unlock c' (frameOf c' data) h).trans d0
    have d2 := (qk_journalUnlock _ h (has c'.flag Slock.Engine.F_FROM_AOF) true AOF_UPDATED).trans d1
    have q4 := qo.of_qk d2 g4.lv
    exact qi_wake ((t4.ctr _).reply _ _ _ _) (((QIG.of_qi q4).ctr _).reply _ _ _ _)
  | release h c' =>
    simp only [applyUnlock]
    have hh := hasRec_of_holder le h (hb h rfl)
    have hd : 0 < ((db.openKey c.key).k.getR h).depth := hrel h c' rfl
    have t6 := release_tight ge ce h hh hd c' (frameOf c' data) ((db.openKey c.key).k.getR h).depth (has c'.flag Slock.Engine.F_FROM_AOF) _ rfl _ rfl
    have q6 := release_qi ge qo h hh c' (frameOf c' data) ((db.openKey c.key).k.getR h).depth (has c'.flag Slock.Engine.F_FROM_AOF)
      (((((db.openKey c.key).modR h (fun r => { r with expried := true })).modK (fun k => { k with locked := k.locked - ((db.openKey c.key).k.getR h).depth })).procData .unlock c'
        (frameOf c' data) h).k.getR h).eLong _ rfl _ rfl
    exact qi_wake ((t6.ctr _).reply _ _ _ _) ((q6.ctr _).reply _ _ _ _)

end Slock.Engine2
