import Slock.Proofs.Engine2Inv
/-! Stage-2 engine: nothing leaks, key-record level. `NZx k x`: every un-freed lock record of `k` — except the one an operation in
progress is allowed to hold at count 0 for a moment (`x`) — has `refCount ≥ 1`; i.e. a record whose count reaches 0 is freed. -/
namespace Slock.Engine2

/-- a lock record in order: counted at least once; if it is a hold (depth > 0) it has an expiry-wheel entry; if it has been ended
(`expried`) it is not a hold any more; an expiry-wheel entry of a record that is not a hold is a tombstone (`expried` is set: the
sweeper will only drop it) -/
structure RecFine (r : Rec) : Prop where
  pos : 1 ≤ r.refCount
  hold : 0 < r.depth → r.eSched.isSome = true
  ended : r.expried = true → r.depth = 0
  fin : r.depth = 0 → r.eSched.isSome = true → r.expried = true

def NZx (k : Key) (x : Option Nat) : Prop := ∀ r ∈ k.recs, some r.rid ≠ x → RecFine r

theorem NZx.weaken {k : Key} (h : NZx k none) (x : Option Nat) : NZx k x := fun r hr _ => h r hr (by simp)

theorem NZx.of_recs {k k' : Key} {x : Option Nat} (h : NZx k x) (e : k'.recs = k.recs) : NZx k' x := by
  intro r hr; rw [e] at hr; exact h r hr

/-- a record edit that keeps records in order -/
theorem NZx.modRec {k : Key} {x : Option Nat} (h : NZx k x) (rid : Nat) (f : Rec → Rec) (hf : ∀ r, (f r).rid = r.rid)
    (hc : ∀ r, RecFine r → RecFine (f r)) : NZx (k.modRec rid f) x := by
  intro r hr hx
  unfold Key.modRec at hr
  simp only [List.mem_map] at hr
  obtain ⟨r0, hr0, e⟩ := hr
  split at e
  · rw [← e] at hx ⊢; rw [hf] at hx; exact hc r0 (h r0 hr0 hx)
  · rw [← e] at hx ⊢; exact h r0 hr0 hx

/-- editing the exempt record only -/
theorem NZx.modRec_ex {k : Key} (rid : Nat) (h : NZx k (some rid)) (f : Rec → Rec) (hf : ∀ r, (f r).rid = r.rid) : NZx (k.modRec rid f) (some rid) := by
  intro r hr hx
  unfold Key.modRec at hr
  simp only [List.mem_map] at hr
  obtain ⟨r0, hr0, e⟩ := hr
  split at e
  · rename_i hc
    rw [← e, hf] at hx
    exact absurd (by simp; simpa using hc) hx
  · rw [← e] at hx ⊢; exact h r0 hr0 hx

/-- an edit that puts the exempt record in order ends the exemption -/
theorem NZx.modRec_clear {k : Key} (rid : Nat) (h : NZx k (some rid)) (f : Rec → Rec) (hf : ∀ r, (f r).rid = r.rid)
    (hc : ∀ r ∈ k.recs, r.rid = rid → RecFine (f r)) : NZx (k.modRec rid f) none := by
  intro r hr _
  unfold Key.modRec at hr
  simp only [List.mem_map] at hr
  obtain ⟨r0, hr0, e⟩ := hr
  split at e
  · rename_i hcnd
    rw [← e]; exact hc r0 hr0 (by simpa using hcnd)
  · rename_i hne
    rw [← e]; exact h r0 hr0 (by simpa using hne)

theorem NZx.free {k : Key} {x : Option Nat} (h : NZx k x) (rid : Nat) : NZx (k.free rid) x := by
  unfold Key.free
  split
  · intro r hr; exact h r (List.mem_filter.mp hr).1
  · exact h

theorem NZx.free_clear {k : Key} (rid : Nat) (h : NZx k (some rid)) : NZx (k.free rid) none := by
  unfold Key.free
  split
  · intro r hr _
    have := List.mem_filter.mp hr
    exact h r this.1 (by simpa using this.2)
  · rename_i hn
    intro r hr _
    apply h r hr
    intro e
    have : r.rid = rid := by simpa using e
    have hh : k.recs.any (·.rid == rid) = true := List.any_eq_true.mpr ⟨r, hr, by simp [this]⟩
    exact hn hh

theorem recFine_dec {r : Rec} (h : RecFine r) (hne : decU8 r.refCount ≠ 0) : RecFine { r with refCount := decU8 r.refCount } :=
  ⟨by simp only []; omega, h.hold, h.ended, h.fin⟩

/-- `refCount--; if refCount == 0 { FreeLock }`: the record is gone or still in order; the exemption stays as it is -/
theorem NZx.unref {k : Key} {x : Option Nat} (hn : (k.recs.map (·.rid)).Nodup) (h : NZx k x) (y : Nat) : NZx (k.unref y) x := by
  unfold Key.unref
  simp only []
  have hn1 : ((k.unrefOnly y).recs.map (·.rid)).Nodup := by unfold Key.unrefOnly; rw [map_rid_modRec _ _ _ (by intro _; rfl)]; exact hn
  have hmem : ∀ r ∈ (k.unrefOnly y).recs, (∃ r0 ∈ k.recs, r0.rid = y ∧ r = { r0 with refCount := decU8 r0.refCount }) ∨ (r ∈ k.recs ∧ r.rid ≠ y) := by
    intro r hr
    unfold Key.unrefOnly Key.modRec at hr
    simp only [List.mem_map] at hr
    obtain ⟨r0, hr0, e⟩ := hr
    split at e
    · rename_i hc; exact Or.inl ⟨r0, hr0, by simpa using hc, e.symm⟩
    · rename_i hc; exact Or.inr ⟨by rw [← e]; exact hr0, by rw [← e]; simpa using hc⟩
  split
  · -- freed
    unfold Key.free
    split
    · intro r hr hx
      have hm := List.mem_filter.mp hr
      have hne : r.rid ≠ y := by simpa using hm.2
      rcases hmem r hm.1 with ⟨r0, _, e0, e1⟩ | ⟨h1, _⟩
      · rw [e1] at hne; exact absurd e0 hne
      · exact h r h1 hx
    · rename_i hany
      intro r hr hx
      rcases hmem r hr with ⟨r0, hr0, e0, e1⟩ | ⟨h1, _⟩
      · exfalso; apply hany
        exact List.any_eq_true.mpr ⟨r, hr, by rw [e1]; simp [e0]⟩
      · exact h r h1 hx
  · rename_i hz
    intro r hr hx
    rcases hmem r hr with ⟨r0, hr0, e0, e1⟩ | ⟨h1, _⟩
    · have hg : (k.unrefOnly y).getR y = r := by
        have := mem_eq_getR hn1 hr
        rw [e1] at this ⊢; simpa [e0] using this
      rw [hg] at hz
      have hne : r.refCount ≠ 0 := by simpa using hz
      rw [e1] at hx hne ⊢
      exact recFine_dec (h r0 hr0 hx) hne
    · exact h r h1 hx

/-- `refCount--` without the zero check: fine if the count was ≥ 2 -/
theorem NZx.unrefOnly {k : Key} {x : Option Nat} (hn : (k.recs.map (·.rid)).Nodup) (h : NZx k x) (y : Nat)
    (h2 : k.hasRec y → 2 ≤ (k.getR y).refCount) : NZx (k.unrefOnly y) x := by
  intro r hr hx
  unfold Key.unrefOnly Key.modRec at hr
  simp only [List.mem_map] at hr
  obtain ⟨r0, hr0, e⟩ := hr
  split at e
  · rename_i hc
    have hry : r0.rid = y := by simpa using hc
    have hg : k.getR y = r0 := by rw [← hry]; exact mem_eq_getR hn hr0
    have := h2 ⟨r0, hr0, hry⟩
    rw [hg] at this
    rw [← e] at hx ⊢
    refine recFine_dec (h r0 hr0 hx) ?_
    simp only [decU8]
    have hne : r0.refCount ≠ 0 := by omega
    simp only [hne, if_false]; omega
  · rw [← e] at hx ⊢; exact h r0 hr0 hx

/-- the exemption can be dropped for a record that is gone or in order -/
theorem NZx.clear {k : Key} (hn : (k.recs.map (·.rid)).Nodup) (y : Nat) (h : NZx k (some y)) (hy : k.hasRec y → RecFine (k.getR y)) : NZx k none := by
  intro r hr _
  by_cases e : r.rid = y
  · have hg : k.getR y = r := by rw [← e]; exact mem_eq_getR hn hr
    have := hy ⟨r, hr, e⟩
    rw [hg] at this; exact this
  · exact h r hr (by simpa using e)

/-- a record becomes the exempt one -/
theorem NZx.exempt {k : Key} (h : NZx k none) (y : Nat) : NZx k (some y) := h.weaken _

/-! ### through the queues -/

structure Key.NoDup (k : Key) : Prop where
  nd : (k.recs.map (·.rid)).Nodup

theorem Key.NoDup.modRec {k : Key} (h : k.NoDup) (rid : Nat) (f : Rec → Rec) (hf : ∀ r, (f r).rid = r.rid) : (k.modRec rid f).NoDup :=
  ⟨by rw [map_rid_modRec _ _ _ hf]; exact h.nd⟩

theorem Key.NoDup.free {k : Key} (h : k.NoDup) (rid : Nat) : (k.free rid).NoDup := by
  unfold Key.free
  split
  · have : (k.recs.filter (·.rid != rid)).map (·.rid) = (k.recs.map (·.rid)).filter (· != rid) := by rw [List.filter_map]; rfl
    exact ⟨by simp only []; rw [this]; exact List.Nodup.sublist List.filter_sublist h.nd⟩
  · exact h

theorem Key.NoDup.unref {k : Key} (h : k.NoDup) (y : Nat) : (k.unref y).NoDup := by
  unfold Key.unref
  simp only []
  have h1 : (k.unrefOnly y).NoDup := h.modRec y _ (by intro _; rfl)
  split
  · exact h1.free y
  · exact h1

theorem Key.NoDup.of_recs {k k' : Key} (h : k.NoDup) (e : k'.recs = k.recs) : k'.NoDup := ⟨by rw [e]; exact h.nd⟩

/-- both facts together through a list of `unref`s -/
theorem nz_foldl_unref {x : Option Nat} (d : List Nat) (k : Key) (hn : k.NoDup) (h : NZx k x) :
    (d.foldl (fun k y => k.unref y) k).NoDup ∧ NZx (d.foldl (fun k y => k.unref y) k) x := by
  induction d generalizing k with
  | nil => exact ⟨hn, h⟩
  | cons a as ih => simp only [List.foldl_cons]; exact ih _ (hn.unref a) (NZx.unref hn.nd h a)

theorem nz_foldl_unrefW {x : Option Nat} (d : List WEnt) (k : Key) (hn : k.NoDup) (h : NZx k x) :
    (d.foldl (fun k y => k.unref y.rid) k).NoDup ∧ NZx (d.foldl (fun k y => k.unref y.rid) k) x := by
  induction d generalizing k with
  | nil => exact ⟨hn, h⟩
  | cons a as ih => simp only [List.foldl_cons]; exact ih _ (hn.unref a.rid) (NZx.unref hn.nd h a.rid)

theorem nz_locksPush {k : Key} {x : Option Nat} (hn : k.NoDup) (h : NZx k x) (rid : Nat) : (k.locksPush rid).NoDup ∧ NZx (k.locksPush rid) x := by
  unfold Key.locksPush
  simp only []
  split
  · exact ⟨hn.of_recs rfl, h.of_recs rfl⟩
  · split
    · exact ⟨hn.of_recs rfl, h.of_recs rfl⟩
    · split
      · exact nz_foldl_unref _ _ (hn.of_recs rfl) (h.of_recs rfl)
      · exact nz_foldl_unref _ _ (hn.of_recs rfl) (h.of_recs rfl)

theorem nz_locksSkip {x : Option Nat} (take : Bool) (l : List Nat) (k : Key) (hn : k.NoDup) (h : NZx k x) :
    (locksSkip take l k).1.NoDup ∧ NZx (locksSkip take l k).1 x := by
  induction l generalizing k with
  | nil => exact ⟨hn, h⟩
  | cons a rest ih =>
    unfold locksSkip
    split
    · split
      · exact ⟨hn.of_recs rfl, h.of_recs rfl⟩
      · exact ⟨hn, h⟩
    · have hn' : ({ k with locks := rest, locksPopped := k.locksPopped + 1 } : Key).NoDup := hn.of_recs rfl
      have h' : NZx ({ k with locks := rest, locksPopped := k.locksPopped + 1 } : Key) x := h.of_recs rfl
      exact ih _ (hn'.unref a) (NZx.unref hn'.nd h' a)

theorem nz_waitSkip {x : Option Nat} (l : List WEnt) (k : Key) (hn : k.NoDup) (h : NZx k x) :
    (waitSkip l k).1.NoDup ∧ NZx (waitSkip l k).1 x := by
  induction l generalizing k with
  | nil => exact ⟨hn, h⟩
  | cons a rest ih =>
    unfold waitSkip
    split
    · have hn' : ({ k with wait := rest, waitPopped := if k.waitPrio then k.waitPopped else k.waitPopped + 1 } : Key).NoDup := hn.of_recs rfl
      have h' : NZx ({ k with wait := rest, waitPopped := if k.waitPrio then k.waitPopped else k.waitPopped + 1 } : Key) x := h.of_recs rfl
      exact ih _ (hn'.unref a.rid) (NZx.unref hn'.nd h' a.rid)
    · exact ⟨hn, h⟩

theorem nz_getWaitLock {k : Key} {x : Option Nat} (hn : k.NoDup) (h : NZx k x) : k.getWaitLock.1.NoDup ∧ NZx k.getWaitLock.1 x :=
  nz_waitSkip _ _ hn h

theorem nz_settleWait {k : Key} {x : Option Nat} (hn : k.NoDup) (h : NZx k x) : k.settleWait.NoDup ∧ NZx k.settleWait x := by
  have := nz_getWaitLock hn h
  unfold Key.settleWait
  split
  · exact ⟨this.1.of_recs rfl, this.2.of_recs rfl⟩
  · exact this

theorem nz_waitPush {k : Key} {x : Option Nat} (hn : k.NoDup) (h : NZx k x) (e : WEnt) : (k.waitPush e).NoDup ∧ NZx (k.waitPush e) x := by
  unfold Key.waitPush
  split
  · exact ⟨hn.of_recs rfl, h.of_recs rfl⟩
  · simp only []
    split
    · exact ⟨hn.of_recs rfl, h.of_recs rfl⟩
    · split
      · exact ⟨hn.of_recs rfl, h.of_recs rfl⟩
      · split
        · exact nz_foldl_unrefW _ _ (hn.of_recs rfl) (h.of_recs rfl)
        · exact nz_foldl_unrefW _ _ (hn.of_recs rfl) (h.of_recs rfl)

/-- `AddWaitLock(rid)`: whatever the exemption, it stays (only counts go up, and tombstones are dropped) -/
theorem nz_addWaitLock {k : Key} {x : Option Nat} (hn : k.NoDup) (rid : Nat) (h : NZx k x) : (k.addWaitLock rid).NoDup ∧ NZx (k.addWaitLock rid) x := by
  unfold Key.addWaitLock
  simp only []
  have step : ∀ k1 : Key, k1.NoDup → NZx k1 x →
      ({ (k1.waitPush ⟨rid, Slock.Engine.cmdPriority (k.getR rid).cmd⟩).modRec rid (fun r => { r with refCount := r.refCount + 1 }) with waited := true } : Key).NoDup ∧
      NZx { (k1.waitPush ⟨rid, Slock.Engine.cmdPriority (k.getR rid).cmd⟩).modRec rid (fun r => { r with refCount := r.refCount + 1 }) with waited := true } x := by
    intro k1 hn1 h1
    have := nz_waitPush hn1 h1 ⟨rid, Slock.Engine.cmdPriority (k.getR rid).cmd⟩
    exact ⟨(this.1.modRec rid _ (by intro _; rfl)).of_recs rfl,
      (this.2.modRec rid (fun r => { r with refCount := r.refCount + 1 }) (fun _ => rfl)
        (fun r hr => ⟨Nat.le_add_left 1 r.refCount, hr.hold, hr.ended, hr.fin⟩)).of_recs rfl⟩
  split
  · split
    · split
      · exact step _ (hn.of_recs rfl) (h.of_recs rfl)
      · exact step _ hn h
    · exact step _ hn h
  · exact step _ hn h

/-- `AddLock(rid)` with the exempt record: it stays exempt (it is a hold without expiry entry until `AddExpried`) -/
theorem nz_addLock_ex {k : Key} (hn : k.NoDup) (rid : Nat) (f : Rec → Rec) (hf : ∀ r, (f r).rid = r.rid)
    (h : NZx k (some rid)) : (k.addLock rid f).NoDup ∧ NZx (k.addLock rid f) (some rid) := by
  have h1 := NZx.modRec_ex rid h f hf
  unfold Key.addLock
  split
  · exact ⟨(hn.modRec rid f hf).of_recs rfl, h1.of_recs rfl⟩
  · exact nz_locksPush (hn.modRec rid f hf) h1 rid

/-- `RemoveLock(rid)`: the record (count possibly 0 now, depth 0) becomes the exempt one, or stays it -/
theorem nz_removeLock {k : Key} (hn : k.NoDup) (rid : Nat) (h : NZx k (some rid)) : (k.removeLock rid).NoDup ∧ NZx (k.removeLock rid) (some rid) := by
  unfold Key.removeLock
  simp only []
  have hn1 : (k.modRec rid fun r => { r with depth := 0 }).NoDup := hn.modRec rid _ (by intro _; rfl)
  have h1 : NZx (k.modRec rid fun r => { r with depth := 0 }) (some rid) := NZx.modRec_ex rid h _ (by intro _; rfl)
  split
  · have h2 : NZx ((k.modRec rid fun r => { r with depth := 0 }).unrefOnly rid) (some rid) := by
      unfold Key.unrefOnly; exact NZx.modRec_ex rid h1 _ (by intro _; rfl)
    have hn2 : ((k.modRec rid fun r => { r with depth := 0 }).unrefOnly rid).NoDup := hn1.modRec rid _ (by intro _; rfl)
    have hn3 : ({ (k.modRec rid fun r => { r with depth := 0 }).unrefOnly rid with current := none } : Key).NoDup := hn2.of_recs rfl
    have h3 : NZx ({ (k.modRec rid fun r => { r with depth := 0 }).unrefOnly rid with current := none } : Key) (some rid) := h2.of_recs rfl
    have := nz_locksSkip true ({ (k.modRec rid fun r => { r with depth := 0 }).unrefOnly rid with current := none } : Key).locks _ hn3 h3
    exact ⟨this.1.of_recs rfl, this.2.of_recs rfl⟩
  · exact nz_locksSkip false (k.modRec rid fun r => { r with depth := 0 }).locks _ hn1 h1

theorem nz_addRec {k : Key} (h : NZx k none) (r : Rec) : NZx (k.addRec r) (some r.rid) := by
  intro r1 hr1 hx
  unfold Key.addRec at hr1
  rcases List.mem_append.mp hr1 with h1 | h1
  · exact h r1 h1 (by simp)
  · simp at h1; subst h1; exact absurd rfl hx

end Slock.Engine2
