import Slock.Proofs.Engine2Frame
/-! Stage-2 engine: the frame relation `Fr w w'` — what EVERY helper of an operation respects: the key it works on, the
leader flag, the clock, "replies are only appended", "a reclaimed record stays reclaimed", and "off-leader nothing is pushed
to the journal". Composite helpers are chains of such steps. -/
namespace Slock.Engine2

structure Fr (w w' : W) : Prop where
  key : w'.k.key = w.k.key
  leader : w'.db.leader = w.db.leader
  now : w'.db.now = w.db.now
  aof : w.db.leader = false → w'.db.aofOut = w.db.aofOut
  out : ∃ more, w'.out = w.out ++ more
  gone : w.gone = true → w'.gone = true

theorem Fr.refl (w : W) : Fr w w := ⟨rfl, rfl, rfl, fun _ => rfl, ⟨[], by simp⟩, id⟩

theorem Fr.trans {a b c : W} (h1 : Fr a b) (h2 : Fr b c) : Fr a c := by
  refine ⟨h2.key.trans h1.key, h2.leader.trans h1.leader, h2.now.trans h1.now, ?_, ?_, fun h => h2.gone (h1.gone h)⟩
  · intro h; rw [h2.aof (by rw [h1.leader]; exact h), h1.aof h]
  · obtain ⟨m1, e1⟩ := h1.out
    obtain ⟨m2, e2⟩ := h2.out
    exact ⟨m1 ++ m2, by rw [e2, e1, List.append_assoc]⟩

/-- replacing the key record by one with the same key -/
theorem Fr.setK (w : W) (k' : Key) (h : k'.key = w.k.key) : Fr w { w with k := k' } :=
  ⟨h, rfl, rfl, fun _ => rfl, ⟨[], by simp⟩, id⟩

theorem Fr.reply (w : W) (c : Cmd) (a b : Nat) (d : Option Bytes) : Fr w (w.reply c a b d) :=
  ⟨rfl, rfl, rfl, fun _ => rfl, ⟨_, rfl⟩, id⟩
theorem Fr.ctr (w : W) (f : Counters → Counters) : Fr w (w.ctr f) := ⟨rfl, rfl, rfl, fun _ => rfl, ⟨[], by simp⟩, id⟩
theorem Fr.bumpErr (w : W) : Fr w w.bumpErr := Fr.ctr _ _

theorem Fr.removeIfZero (w : W) : Fr w w.removeIfZero :=
  ⟨by simp, by simp, by simp, fun _ => by simp, ⟨[], by simp⟩, removeIfZero_gone_mono w⟩

theorem Fr.unrefCheck (w : W) (rid : Nat) : Fr w (w.unrefCheck rid) := by
  unfold W.unrefCheck
  simp only []
  split
  · exact (Fr.setK w _ (by simp)).trans (Fr.removeIfZero _)
  · exact Fr.setK w _ (by simp)

theorem Fr.procData (w : W) (ct : Slock.Value.CmdType) (c : Cmd) (f : Option Bytes) (rid : Nat) : Fr w (w.procData ct c f rid) :=
  ⟨by simp, by simp, by simp, fun _ => by simp, ⟨[], by simp⟩, fun h => by simpa using h⟩

theorem Fr.pushLockAof (w : W) (rid flag : Nat) : Fr w (w.pushLockAof rid flag) := by
  obtain ⟨a1, a2, a3, a4, a5, _, _, a8⟩ := pushLockAof_frame w rid flag
  exact ⟨a3, a4, a5, a8, ⟨[], by simp [a1]⟩, fun h => by rw [a2]; exact h⟩
theorem Fr.pushLockAofN (n : Nat) (w : W) (rid : Nat) : Fr w (W.pushLockAofN n w rid) := by
  obtain ⟨a1, a2, a3, a4, a5, _, _, a8⟩ := pushLockAofN_frame n w rid
  exact ⟨a3, a4, a5, a8, ⟨[], by simp [a1]⟩, fun h => by rw [a2]; exact h⟩
theorem Fr.pushUnLockAof (w : W) (rid : Nat) (lc : Cmd) (fa ia : Bool) (flag : Nat) : Fr w (w.pushUnLockAof rid lc fa ia flag) := by
  obtain ⟨a1, a2, a3, a4, a5, _, _, a8⟩ := pushUnLockAof_frame w rid lc fa ia flag
  exact ⟨a3, a4, a5, a8, ⟨[], by simp [a1]⟩, fun h => by rw [a2]; exact h⟩
theorem Fr.addTimeOut (w : W) (rid : Nat) : Fr w (w.addTimeOut rid) := by
  obtain ⟨a1, a2, a3, a4, a5, _, _, a8⟩ := addTimeOut_frame w rid
  exact ⟨a3, a4, a5, fun _ => a8, ⟨[], by simp [a1]⟩, fun h => by rw [a2]; exact h⟩
theorem Fr.addExpried (w : W) (rid : Nat) : Fr w (w.addExpried rid) := by
  obtain ⟨a1, a2, a3, a4, a5, _, _, a8⟩ := addExpried_frame w rid
  exact ⟨a3, a4, a5, a8, ⟨[], by simp [a1]⟩, fun h => by rw [a2]; exact h⟩
theorem Fr.removeLongT (w : W) (rid : Nat) : Fr w (w.removeLongT rid) := by
  obtain ⟨a1, a2, a3, a4, _, _⟩ := removeLongT_frame w rid
  exact ⟨a3, by rw [a4], by rw [a4], fun _ => by rw [a4], ⟨[], by simp [a1]⟩, fun h => by rw [a2]; exact h⟩
theorem Fr.removeLongE (w : W) (rid : Nat) : Fr w (w.removeLongE rid) := by
  obtain ⟨a1, a2, a3, a4, _, _⟩ := removeLongE_frame w rid
  exact ⟨a3, by rw [a4], by rw [a4], fun _ => by rw [a4], ⟨[], by simp [a1]⟩, fun h => by rw [a2]; exact h⟩
theorem Fr.newLock (w : W) (c : Cmd) (d : Option Bytes) : Fr w (w.newLock c d).1 := by
  obtain ⟨a1, a2, a3, a4, a5, _, _, a8, _⟩ := newLock_frame w c d
  exact ⟨a3, a4, a5, fun _ => a8, ⟨[], by simp [a1]⟩, fun h => by rw [a2]; exact h⟩
theorem Fr.addLock (w : W) (rid : Nat) : Fr w (w.addLock rid) := by
  obtain ⟨a1, a2, a3, a4, _, _⟩ := addLock_frame w rid
  exact ⟨a3, by rw [a4], by rw [a4], fun _ => by rw [a4], ⟨[], by simp [a1]⟩, fun h => by rw [a2]; exact h⟩

/-! ### composite helpers -/

theorem Fr.grant (w : W) (rid : Nat) : Fr w (w.grant rid) := by
  unfold W.grant
  simp only []
  refine Fr.trans ?_ (Fr.reply _ _ _ _ _)
  refine Fr.trans ?_ (Fr.ctr _ _)
  refine Fr.trans ?_ (Fr.setK _ _ (by simp))
  refine Fr.trans ?_ (Fr.addExpried _ _)
  refine Fr.trans ?_ (Fr.setK _ _ (by simp))
  refine Fr.trans ?_ (Fr.procData _ _ _ _ _)
  refine Fr.trans ?_ (Fr.setK _ _ rfl)
  exact Fr.addLock _ _

theorem Fr.grantNoHold (w : W) (rid : Nat) : Fr w (w.grantNoHold rid).1 := by
  unfold W.grantNoHold
  simp only []
  refine Fr.trans ?_ (Fr.setK _ _ (by simp))
  split
  · split
    · exact (Fr.procData _ _ _ _ _).trans (Fr.pushLockAof _ _ _)
    · exact Fr.procData _ _ _ _ _
  · exact Fr.refl _

theorem Fr.updateLocked (w : W) (rid : Nat) (c : Cmd) : Fr w (w.updateLocked rid c) := by
  unfold W.updateLocked
  simp only []
  refine Fr.trans ?_ (Fr.setK _ _ (by simp))
  split
  · refine Fr.trans ?_ (Fr.setK _ _ (by simp))
    refine Fr.trans ?_ (Fr.addExpried _ _)
    refine Fr.trans ?_ (Fr.removeLongE _ _)
    exact Fr.setK _ _ (by simp)
  · exact Fr.setK _ _ (by simp)

theorem Fr.wakeOne (w : W) (rid : Nat) : Fr w (w.wakeOne rid) := by
  unfold W.wakeOne
  simp only []
  have h2 : Fr w (if ({ w with k := w.k.modRec rid fun r => { r with timeouted := true } } : W).k.getR rid |>.tLong
      then ({ w with k := w.k.modRec rid fun r => { r with timeouted := true } } : W).removeLongT rid
      else { w with k := w.k.modRec rid fun r => { r with timeouted := true } }) := by
    split
    · exact (Fr.setK w _ (by simp)).trans (Fr.removeLongT _ _)
    · exact Fr.setK w _ (by simp)
  refine Fr.trans h2 ?_
  split
  · exact (Fr.ctr _ _).trans (Fr.grant _ _)
  · refine Fr.trans ?_ (Fr.reply _ _ _ _ _)
    refine Fr.trans ?_ (Fr.ctr _ _)
    exact (Fr.ctr _ _).trans (Fr.grantNoHold _ _)

theorem Fr.wakePass (fuel : Nat) (w : W) : Fr w (W.wakePass fuel w) := by
  induction fuel generalizing w with
  | zero => exact Fr.refl _
  | succ n ih =>
    unfold W.wakePass
    simp only []
    have h1 : Fr w { w with k := w.k.getWaitLock.1 } := Fr.setK w _ (by simp)
    split
    · exact h1.trans ((Fr.setK _ _ rfl).trans (Fr.removeIfZero _))
    · split
      · exact h1
      · exact h1.trans ((Fr.wakeOne _ _).trans (ih _))

theorem Fr.wake (w : W) : Fr w w.wake := by
  unfold W.wake
  split
  · exact Fr.wakePass _ _
  · exact Fr.refl _

end Slock.Engine2
