import Slock.Proofs.Engine2Frame
/-! Stage-2 engine: two step relations on the working state of an operation.

* `Fr w w'` — what EVERY helper respects: the key it works on, the leader flag, the clock, "replies are only appended", "a
  reclaimed record stays reclaimed", and "off-leader nothing is pushed to the journal".
* `Qt w w'` — a QUIET step: no reply, and the value cell is untouched up to its journalling bit, `locked` too. Every helper
  except `reply`, `procData` (the value operation), `removeIfZero` (a reclaimed record loses its cell) and the grants is quiet.

Composite helpers are chains of such steps. -/
namespace Slock.Engine2
open Slock.Value (Cell getLockData)

/-- the key record was unlinked from the database (`RemoveLockManager` ran, or it never existed) -/
def W.Reclaimed (w : W) : Prop := w.gone = true ∧ w.db.hasKey w.k.key = false

/-- what a step does to the table of key records: nothing, or — once, by `RemoveLockManager` — this key's record is unlinked -/
def W.DbStep (w w' : W) : Prop :=
  (w'.db.keys = w.db.keys ∧ w'.db.keyCount = w.db.keyCount ∧ w'.gone = w.gone) ∨
  (w.gone = false ∧ w'.gone = true ∧ w'.db.keys = w.db.keys.filter (·.key != w.k.key) ∧ w'.db.keyCount = decU32 w.db.keyCount)

theorem W.DbStep.same (w w' : W) (h1 : w'.db.keys = w.db.keys) (h2 : w'.db.keyCount = w.db.keyCount) (h3 : w'.gone = w.gone) :
    w.DbStep w' := Or.inl ⟨h1, h2, h3⟩

structure Fr (w w' : W) : Prop where
  key : w'.k.key = w.k.key
  leader : w'.db.leader = w.db.leader
  now : w'.db.now = w.db.now
  aof : w.db.leader = false → w'.db.aofOut = w.db.aofOut
  out : ∃ more, w'.out = w.out ++ more
  gone : w.gone = true → w'.gone = true
  recl : w.Reclaimed → w'.Reclaimed
  rid : w.db.nextRid ≤ w'.db.nextRid
  dbk : w.DbStep w'
  seq : w.db.seq ≤ w'.db.seq

theorem Fr.refl (w : W) : Fr w w := ⟨rfl, rfl, rfl, fun _ => rfl, ⟨[], by simp⟩, id, id, Nat.le_refl _, Or.inl ⟨rfl, rfl, rfl⟩, Nat.le_refl _⟩

theorem W.DbStep.trans {a b c : W} (hk : b.k.key = a.k.key) (h1 : a.DbStep b) (h2 : b.DbStep c) : a.DbStep c := by
  unfold W.DbStep at *
  rcases h1 with ⟨a1, a2, a3⟩ | ⟨a1, a2, a3, a4⟩
  · rcases h2 with ⟨b1, b2, b3⟩ | ⟨b1, b2, b3, b4⟩
    · exact Or.inl ⟨b1.trans a1, b2.trans a2, b3.trans a3⟩
    · exact Or.inr ⟨by rw [← a3]; exact b1, b2, by rw [b3, a1, hk], by rw [b4, a2]⟩
  · rcases h2 with ⟨b1, b2, b3⟩ | ⟨b1, _⟩
    · exact Or.inr ⟨a1, by rw [b3]; exact a2, by rw [b1]; exact a3, by rw [b2]; exact a4⟩
    · rw [a2] at b1; exact absurd b1 (by simp)

theorem Fr.trans {a b c : W} (h1 : Fr a b) (h2 : Fr b c) : Fr a c := by
  refine ⟨h2.key.trans h1.key, h2.leader.trans h1.leader, h2.now.trans h1.now, ?_, ?_, fun h => h2.gone (h1.gone h),
    fun h => h2.recl (h1.recl h), Nat.le_trans h1.rid h2.rid, W.DbStep.trans h1.key h1.dbk h2.dbk, Nat.le_trans h1.seq h2.seq⟩
  · intro h; rw [h2.aof (by rw [h1.leader]; exact h), h1.aof h]
  · obtain ⟨m1, e1⟩ := h1.out
    obtain ⟨m2, e2⟩ := h2.out
    exact ⟨m1 ++ m2, by rw [e2, e1, List.append_assoc]⟩

structure Qt (w w' : W) : Prop where
  out : w'.out = w.out
  cell : vstrip w'.k.cell = vstrip w.k.cell
  locked : w'.k.locked = w.k.locked
  gone : w'.gone = w.gone

theorem Qt.refl (w : W) : Qt w w := ⟨rfl, rfl, rfl, rfl⟩
theorem Qt.trans {a b c : W} (h1 : Qt a b) (h2 : Qt b c) : Qt a c :=
  ⟨h2.out.trans h1.out, h2.cell.trans h1.cell, h2.locked.trans h1.locked, h2.gone.trans h1.gone⟩
theorem Qt.lockData {a b : W} (h : Qt a b) : b.lockData = a.lockData := getLockData_congr h.cell

/-- both at once -/
structure FQ (w w' : W) : Prop where
  fr : Fr w w'
  qt : Qt w w'
theorem FQ.refl (w : W) : FQ w w := ⟨Fr.refl w, Qt.refl w⟩
theorem FQ.trans {a b c : W} (h1 : FQ a b) (h2 : FQ b c) : FQ a c := ⟨h1.fr.trans h2.fr, h1.qt.trans h2.qt⟩

/-! ### generic steps -/

/-- editing the key record by a function that keeps key, cell and `locked` -/
theorem FQ.modK (w : W) (f : Key → Key) (hk : (f w.k).key = w.k.key) (hc : (f w.k).cell = w.k.cell) (hl : (f w.k).locked = w.k.locked) :
    FQ w (w.modK f) :=
  ⟨⟨hk, rfl, rfl, fun _ => rfl, ⟨[], by simp⟩, id, fun h => ⟨h.1, by simpa [hk] using h.2⟩, Nat.le_refl _, Or.inl ⟨rfl, rfl, rfl⟩, Nat.le_refl _⟩, ⟨rfl, by simp [hc], hl, rfl⟩⟩
theorem FQ.modR (w : W) (rid : Nat) (f : Rec → Rec) : FQ w (w.modR rid f) :=
  ⟨⟨rfl, rfl, rfl, fun _ => rfl, ⟨[], by simp⟩, id, id, Nat.le_refl _, Or.inl ⟨rfl, rfl, rfl⟩, Nat.le_refl _⟩, ⟨rfl, rfl, rfl, rfl⟩⟩
theorem FQ.ref (w : W) (rid : Nat) : FQ w (w.ref rid) := FQ.modR _ _ _
theorem FQ.when (w : W) (b : Bool) (f : W → W) (h : FQ w (f w)) : FQ w (w.when b f) := by
  cases b
  · exact FQ.refl _
  · exact h
theorem Fr.when (w : W) (b : Bool) (f : W → W) (h : Fr w (f w)) : Fr w (w.when b f) := by
  cases b
  · exact Fr.refl _
  · exact h
theorem FQ.ctr (w : W) (f : Counters → Counters) : FQ w (w.ctr f) :=
  ⟨⟨rfl, rfl, rfl, fun _ => rfl, ⟨[], by simp⟩, id, id, Nat.le_refl _, Or.inl ⟨rfl, rfl, rfl⟩, Nat.le_refl _⟩, ⟨rfl, rfl, rfl, rfl⟩⟩
theorem FQ.bumpErr (w : W) : FQ w w.bumpErr := FQ.ctr _ _
theorem Fr.reply (w : W) (c : Cmd) (a b : Nat) (d : Option Bytes) : Fr w (w.reply c a b d) :=
  ⟨rfl, rfl, rfl, fun _ => rfl, ⟨_, rfl⟩, id, id, Nat.le_refl _, Or.inl ⟨rfl, rfl, rfl⟩, Nat.le_refl _⟩

/-- editing only `locked` -/
theorem Fr.modLocked (w : W) (f : Key → Key) (hk : (f w.k).key = w.k.key) : Fr w (w.modK f) :=
  ⟨hk, rfl, rfl, fun _ => rfl, ⟨[], by simp⟩, id, fun h => ⟨h.1, by simpa [hk] using h.2⟩, Nat.le_refl _, Or.inl ⟨rfl, rfl, rfl⟩, Nat.le_refl _⟩

theorem Fr.removeIfZero (w : W) : Fr w w.removeIfZero := by
  refine ⟨by simp, by simp, by simp, fun _ => by simp, ⟨[], by simp⟩, removeIfZero_gone_mono w, ?_, ?_, ?_, ?_⟩
  · intro h
    have : w.removeIfZero = w := by unfold W.removeIfZero; simp [h.1]
    rw [this]; exact h
  · rcases removeIfZero_cases w with e | ⟨_, _, _, _, hd⟩
    · rw [e]; exact Nat.le_refl _
    · rw [hd]; exact Nat.le_refl _
  · rcases removeIfZero_cases w with e | ⟨hg, _, h0, _, hd⟩
    · rw [e]; exact Or.inl ⟨rfl, rfl, rfl⟩
    · exact Or.inr ⟨h0, hg, by rw [hd]; rfl, by rw [hd]; rfl⟩
  · rcases removeIfZero_cases w with e | ⟨_, _, _, _, hd⟩
    · rw [e]; exact Nat.le_refl _
    · rw [hd]; exact Nat.le_refl _

/-- when `removeIfZero` fires, the record is unlinked -/
theorem removeIfZero_reclaimed (w : W) (h : w.removeIfZero.gone = true) (h0 : w.gone = false) : w.removeIfZero.Reclaimed := by
  rcases removeIfZero_cases w with e | ⟨hg, _, _, _, hd⟩
  · rw [e] at h; simp [h0] at h
  · exact ⟨hg, by rw [hd, removeIfZero_key]; exact hasKey_dropKey _ _⟩

theorem procData_keys (w : W) (ct : Slock.Value.CmdType) (c : Cmd) (f : Option Bytes) (rid : Nat) :
    (w.procData ct c f rid).db.keys = w.db.keys := by
  unfold W.procData; split
  · rfl
  · simp only []; split <;> rfl

theorem procData_nextRid (w : W) (ct : Slock.Value.CmdType) (c : Cmd) (f : Option Bytes) (rid : Nat) :
    (w.procData ct c f rid).db.nextRid = w.db.nextRid := by
  unfold W.procData; split
  · rfl
  · simp only []; split <;> rfl
theorem procData_keyCount (w : W) (ct : Slock.Value.CmdType) (c : Cmd) (f : Option Bytes) (rid : Nat) :
    (w.procData ct c f rid).db.keyCount = w.db.keyCount := by
  unfold W.procData; split
  · rfl
  · simp only []; split <;> rfl

theorem hasKey_congr {a b : DB} (h : a.keys = b.keys) (n : Nat) : a.hasKey n = b.hasKey n := by
  unfold DB.hasKey DB.findKey; rw [h]

theorem Fr.procData (w : W) (ct : Slock.Value.CmdType) (c : Cmd) (f : Option Bytes) (rid : Nat) : Fr w (w.procData ct c f rid) :=
  ⟨by simp, by simp, by simp, fun _ => by simp, ⟨[], by simp⟩, fun h => by simpa using h,
   fun h => ⟨by simpa using h.1, by rw [hasKey_congr (procData_keys w ct c f rid), procData_key]; exact h.2⟩,
   by rw [procData_nextRid]; exact Nat.le_refl _, Or.inl ⟨procData_keys w ct c f rid, procData_keyCount w ct c f rid, by simp⟩, by
     unfold W.procData; split
     · exact Nat.le_refl _
     · simp only []; split
       · exact Nat.le_refl _
       · split <;> exact Nat.le_refl _⟩

/-! ### journalling -/

theorem FQ.pushLockAof (w : W) (rid flag : Nat) : FQ w (w.pushLockAof rid flag) := by
  unfold W.pushLockAof
  split
  · exact FQ.refl _
  · rename_i hl
    simp only []
    split
    · exact ⟨⟨rfl, rfl, rfl, fun _ => rfl, ⟨[], by simp⟩, id, id, Nat.le_refl _, Or.inl ⟨rfl, rfl, rfl⟩, Nat.le_refl _⟩, ⟨rfl, rfl, rfl, rfl⟩⟩
    · refine ⟨⟨by simp, rfl, rfl, ?_, ⟨[], by simp⟩, id, ?_, Nat.le_refl _, Or.inl ⟨rfl, rfl, rfl⟩, Nat.le_refl _⟩, ⟨rfl, by simpa using aofLockData_vstrip w.k true rid, by simp, rfl⟩⟩
      · intro h; simp [h] at hl
      · intro h; exact ⟨h.1, by simpa [DB.hasKey, DB.findKey] using h.2⟩

theorem FQ.pushLockAofN (n : Nat) (w : W) (rid : Nat) : FQ w (W.pushLockAofN n w rid) := by
  induction n generalizing w with
  | zero => exact FQ.refl _
  | succ n ih => unfold W.pushLockAofN; exact (FQ.pushLockAof w rid 0).trans (ih _)

theorem FQ.pushUnLockAof (w : W) (rid : Nat) (lc : Cmd) (fa ia : Bool) (flag : Nat) : FQ w (w.pushUnLockAof rid lc fa ia flag) := by
  unfold W.pushUnLockAof
  split
  · exact FQ.refl _
  · rename_i hl
    split
    · exact ⟨⟨rfl, rfl, rfl, fun _ => rfl, ⟨[], by simp⟩, id, id, Nat.le_refl _, Or.inl ⟨rfl, rfl, rfl⟩, Nat.le_refl _⟩, ⟨rfl, rfl, rfl, rfl⟩⟩
    · refine ⟨⟨by simp, rfl, rfl, ?_, ⟨[], by simp⟩, id, ?_, Nat.le_refl _, Or.inl ⟨rfl, rfl, rfl⟩, Nat.le_refl _⟩, ⟨rfl, by simpa using aofLockData_vstrip w.k false rid, by simp, rfl⟩⟩
      · intro h; simp [h] at hl
      · intro h; exact ⟨h.1, by simpa [DB.hasKey, DB.findKey] using h.2⟩

theorem FQ.journalLock (w : W) (rid flag : Nat) : FQ w (w.journalLock rid flag) := FQ.when _ _ _ (FQ.pushLockAof _ _ _)
theorem FQ.journalUnlock (w : W) (rid : Nat) (fa ia : Bool) (flag : Nat) : FQ w (w.journalUnlock rid fa ia flag) :=
  FQ.when _ _ _ (FQ.pushUnLockAof _ _ _ _ _ _)

/-! ### wheels and records -/

theorem FQ.addTimeOut (w : W) (rid : Nat) : FQ w (w.addTimeOut rid) :=
  ⟨⟨rfl, rfl, rfl, fun _ => rfl, ⟨[], by simp [W.addTimeOut]⟩, id, id, Nat.le_refl _, Or.inl ⟨rfl, rfl, rfl⟩, Nat.le_succ _⟩, ⟨rfl, rfl, rfl, rfl⟩⟩
theorem FQ.schedExpried (w : W) (rid : Nat) : FQ w (w.schedExpried rid) :=
  ⟨⟨rfl, rfl, rfl, fun _ => rfl, ⟨[], by simp [W.schedExpried]⟩, id, id, Nat.le_refl _, Or.inl ⟨rfl, rfl, rfl⟩, Nat.le_succ _⟩, ⟨rfl, rfl, rfl, rfl⟩⟩
theorem FQ.addExpried (w : W) (rid : Nat) : FQ w (w.addExpried rid) := by
  unfold W.addExpried
  exact (FQ.schedExpried w rid).trans (FQ.when _ _ _ (FQ.pushLockAofN _ _ _))
theorem FQ.removeLongT (w : W) (rid : Nat) : FQ w (w.removeLongT rid) := FQ.modK _ _ rfl rfl rfl
theorem FQ.removeLongE (w : W) (rid : Nat) : FQ w (w.removeLongE rid) := FQ.modK _ _ rfl rfl rfl
theorem FQ.dropLongT (w : W) (rid : Nat) : FQ w (w.dropLongT rid) := FQ.when _ _ _ (FQ.removeLongT _ _)
theorem FQ.dropLongE (w : W) (rid : Nat) : FQ w (w.dropLongE rid) := FQ.when _ _ _ (FQ.removeLongE _ _)

theorem FQ.newLock (w : W) (c : Cmd) (d : Option Bytes) : FQ w (w.newLock c d).1 :=
  ⟨⟨rfl, rfl, rfl, fun _ => rfl, ⟨[], by simp [W.newLock]⟩, id, id, Nat.le_succ _, Or.inl ⟨rfl, rfl, rfl⟩, Nat.le_refl _⟩, ⟨rfl, rfl, rfl, rfl⟩⟩

@[simp] theorem Key.addLock_key (k : Key) (r : Nat) (f : Rec → Rec) : (k.addLock r f).key = k.key := by unfold Key.addLock; split <;> simp
@[simp] theorem Key.addLock_cell (k : Key) (r : Nat) (f : Rec → Rec) : (k.addLock r f).cell = k.cell := by unfold Key.addLock; split <;> simp
@[simp] theorem Key.addLock_locked (k : Key) (r : Nat) (f : Rec → Rec) : (k.addLock r f).locked = k.locked := by unfold Key.addLock; split <;> simp
theorem FQ.addLock (w : W) (rid : Nat) : FQ w (w.addLock rid) := FQ.modK _ _ (by simp) (by simp) (by simp)

@[simp] theorem settleWait_key (k : Key) : k.settleWait.key = k.key := by unfold Key.settleWait; split <;> simp [clearWaited]
@[simp] theorem settleWait_cell (k : Key) : k.settleWait.cell = k.cell := by unfold Key.settleWait; split <;> simp [clearWaited]
@[simp] theorem settleWait_locked (k : Key) : k.settleWait.locked = k.locked := by unfold Key.settleWait; split <;> simp [clearWaited]

theorem FQ.updateLocked (w : W) (rid : Nat) (c : Cmd) : FQ w (w.updateLocked rid c) := by
  unfold W.updateLocked
  simp only []
  refine FQ.trans ?_ (FQ.modR _ _ _)
  refine FQ.trans (FQ.modR w rid (updF w.db (!(w.k.getR rid).isAof && w.k.current == some rid && w.k.locks.isEmpty) c)) ?_
  refine FQ.when _ _ _ ?_
  exact ((FQ.removeLongE _ _).trans (FQ.addExpried _ _)).trans (FQ.ref _ _)

/-! ### freeing: quiet unless the key record is reclaimed -/

theorem Fr.freeCheck (w : W) (rid : Nat) : Fr w (w.freeCheck rid) :=
  (FQ.modK w _ (by simp) (by simp) (by simp)).fr.trans (Fr.removeIfZero _)

theorem Fr.unrefCheck (w : W) (rid : Nat) : Fr w (w.unrefCheck rid) := by
  unfold W.unrefCheck
  exact (FQ.modK w _ (by simp) (by simp) (by simp)).fr.trans (Fr.when _ _ _ (Fr.freeCheck _ _))

/-! ### composite helpers -/

theorem Fr.grant (w : W) (rid : Nat) : Fr w (w.grant rid) := by
  unfold W.grant
  simp only []
  refine Fr.trans ?_ (Fr.reply _ _ _ _ _)
  refine Fr.trans ?_ (FQ.ctr _ _).fr
  refine Fr.trans ?_ (FQ.ref _ _).fr
  refine Fr.trans ?_ (FQ.addExpried _ _).fr
  refine Fr.trans ?_ (FQ.modR _ _ _).fr
  refine Fr.trans ?_ (Fr.procData _ _ _ _ _)
  exact (FQ.addLock _ _).fr.trans (Fr.modLocked _ _ rfl)

theorem Fr.grantNoHold (w : W) (rid : Nat) : Fr w (w.grantNoHold rid) := by
  unfold W.grantNoHold
  simp only []
  refine Fr.trans ?_ (FQ.modR _ _ _).fr
  exact (Fr.procData _ _ _ _ _).trans (Fr.when _ _ _ (FQ.pushLockAof _ _ _).fr)

theorem Fr.wakeOne (w : W) (rid : Nat) : Fr w (w.wakeOne rid) := by
  unfold W.wakeOne
  simp only []
  have h2 : Fr w (((w.modR rid fun r => { r with timeouted := true }).dropLongT rid).ctr fun c => { c with waitCount := c.waitCount - 1 }) :=
    ((FQ.modR w rid _).trans ((FQ.dropLongT _ _).trans (FQ.ctr _ _))).fr
  refine Fr.trans h2 ?_
  split
  · exact Fr.grant _ _
  · exact (Fr.grantNoHold _ _).trans ((FQ.ctr _ _).fr.trans (Fr.reply _ _ _ _ _))

theorem Fr.wakePass (fuel : Nat) (w : W) : Fr w (W.wakePass fuel w) := by
  induction fuel generalizing w with
  | zero => exact Fr.refl _
  | succ n ih =>
    unfold W.wakePass
    simp only []
    have h1 : Fr w (w.modK (·.getWaitLock.1)) := (FQ.modK w _ (by simp) (by simp) (by simp)).fr
    split
    · exact h1.trans ((FQ.modK _ clearWaited rfl rfl rfl).fr.trans (Fr.removeIfZero _))
    · split
      · exact h1
      · exact h1.trans ((Fr.wakeOne _ _).trans (ih _))

theorem Fr.wake (w : W) : Fr w w.wake := Fr.when _ _ _ (Fr.wakePass _ _)

end Slock.Engine2
