import Slock.Proofs.Engine2SimEnqList
/-! Simulation stage 2 → stage 1: what `AddWaitLock` does to the wait queue, case by case. -/
namespace Slock.Sim
open Slock Slock.Engine2
open Slock.Engine (has)

/-- the re-filing of `RePushPriorityRingQueue` -/
def recache (k : Key) (e : WEnt) : WEnt := { e with prio := Engine.cmdPriority (k.getR e.rid).cmd }

theorem rePush_wait (k : Key) : k.rePush.wait = (k.wait.map (recache k)).foldl insertPrio [] ∧ k.rePush.waitPrio = true := ⟨rfl, rfl⟩

/-- does `AddWaitLock(rid)` switch the queue to priority mode first? -/
def rePushes (k : Key) (rid : Nat) : Bool :=
  k.waited && !k.waitPrio &&
    (match k.wait.head? with
     | some e => Engine.cmdPriority (k.getR rid).cmd != Engine.cmdPriority (k.getR e.rid).cmd
     | none => false)

theorem addWaitLock_pre (k : Key) (rid : Nat) :
    (k.addWaitLock rid).wait = ((if rePushes k rid then k.rePush else k).waitPush ⟨rid, Engine.cmdPriority (k.getR rid).cmd⟩).wait ∧
    (k.addWaitLock rid).waitPrio = ((if rePushes k rid then k.rePush else k).waitPush ⟨rid, Engine.cmdPriority (k.getR rid).cmd⟩).waitPrio := by
  unfold Key.addWaitLock rePushes
  simp only []
  cases hw : k.waited <;> cases hp : k.waitPrio <;> simp only [Bool.true_and, Bool.false_and, Bool.not_true, Bool.not_false, Bool.false_eq_true, if_false, if_true, Bool.and_true, Bool.and_false]
  all_goals first
    | exact ⟨rfl, rfl⟩
    | (cases hh : k.wait.head? with
       | none => exact ⟨rfl, rfl⟩
       | some e0 =>
         simp only []
         split <;> exact ⟨rfl, rfl⟩)

theorem waitPush_prio (k : Key) (e : WEnt) (h : k.waitPrio = true) : (k.waitPush e).wait = insertPrio k.wait e ∧ (k.waitPush e).waitPrio = true := by
  unfold Key.waitPush
  rw [if_pos h]
  exact ⟨rfl, h⟩

theorem foldl_unrefW_wp (d : List WEnt) (k : Key) : (d.foldl (fun k x => k.unref x.rid) k).waitPrio = k.waitPrio := by
  induction d generalizing k with
  | nil => rfl
  | cons a as ih => simp only [List.foldl_cons]; exact (ih _).trans (unref_queues k a.rid).2.2.2.2.1

/-- FIFO push: the entry goes to the back; a compaction drops tombstoned entries only -/
theorem waitPush_fifo (k : Key) (e : WEnt) (h : k.waitPrio = false) :
    (k.waitPush e).waitPrio = false ∧
    ((k.waitPush e).wait = k.wait ++ [e] ∨ (k.waitPush e).wait = k.wait.filter (fun x => !k.deadWaiter x.rid) ++ [e]) := by
  unfold Key.waitPush
  rw [if_neg (by rw [h]; simp)]
  simp only []
  split
  · exact ⟨h, Or.inl rfl⟩
  · split
    · rename_i hem
      refine ⟨h, Or.inl ?_⟩
      have : k.wait = [] := by simpa using hem
      rw [this]; rfl
    · refine ⟨?_, Or.inr ?_⟩
      · rw [foldl_unrefW_wp]; split <;> exact h
      · obtain ⟨_, _, q3⟩ := queues_eq (foldl_unrefW_queues (k.wait.filter (fun x => k.deadWaiter x.rid))
          (if (k.wait.filter (fun x => !k.deadWaiter x.rid)).length < k.waitPopped + k.wait.length then
            { k with wait := k.wait.filter (fun x => !k.deadWaiter x.rid) ++ [e], waitPopped := 0 }
           else { k with wait := k.wait.filter (fun x => !k.deadWaiter x.rid) ++ [e], waitCap := 2 * k.waitCap }))
        rw [q3]
        split <;> rfl

end Slock.Sim
