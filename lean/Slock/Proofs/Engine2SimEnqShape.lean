import Slock.Proofs.Engine2SimEnqList
/-! Simulation stage 2 → stage 1: what `AddWaitLock` does to the wait queue, case by case. -/
namespace Slock.Sim
open Slock Slock.Engine2
open Slock.Engine (has)

/-- the re-filing of `RePushPriorityRingQueue` -/
def recache (k : Key) (e : WEnt) : WEnt := { e with prio := Engine.cmdPriority (k.getR e.rid).cmd }

theorem rePush_wait (k : Key) : k.rePush.wait = (k.wait.map (recache k)).foldl insertPrio [] ∧ k.rePush.waitPrio = true := ⟨rfl, rfl⟩

/-- does `AddWaitLock(rid)` switch the queue to priority mode first? -/
def rePushes (k : Key) (rid : Nat) : Bool :=
  k.waited && !k.waitPrio &&
    (match k.wait.head? with
     | some e => Engine.cmdPriority (k.getR rid).cmd != Engine.cmdPriority (k.getR e.rid).cmd
     | none => false)

theorem addWaitLock_pre (k : Key) (rid : Nat) :
    (k.addWaitLock rid).wait = ((if rePushes k rid then k.rePush else k).waitPush ⟨rid, Engine.cmdPriority (k.getR rid).cmd⟩).wait ∧
    (k.addWaitLock rid).waitPrio = ((if rePushes k rid then k.rePush else k).waitPush ⟨rid, Engine.cmdPriority (k.getR rid).cmd⟩).waitPrio := by
  unfold Key.addWaitLock rePushes
  simp only []
  cases hw : k.waited <;> cases hp : k.waitPrio <;> simp only [Bool.true_and, Bool.false_and, Bool.not_true, Bool.not_false, Bool.false_eq_true, if_false, if_true, Bool.and_true, Bool.and_false]
  all_goals first
    | exact ⟨rfl, rfl⟩
    | (cases hh : k.wait.head? with
       | none => exact ⟨rfl, rfl⟩
       | some e0 =>
         simp only []
         split <;> exact ⟨rfl, rfl⟩)

theorem waitPush_prio (k : Key) (e : WEnt) (h : k.waitPrio = true) : (k.waitPush e).wait = insertPrio k.wait e ∧ (k.waitPush e).waitPrio = true := by
  unfold Key.waitPush
  rw [if_pos h]
  exact ⟨rfl, h⟩

theorem foldl_unrefW_wp (d : List WEnt) (k : Key) : (d.foldl (fun k x => k.unref x.rid) k).waitPrio = k.waitPrio := by
  induction d generalizing k with
  | nil => rfl
  | cons a as ih => simp only [List.foldl_cons]; exact (ih _).trans (unref_queues k a.rid).2.2.2.2.1

/-- FIFO push: the entry goes to the back; a compaction drops tombstoned entries only -/
theorem waitPush_fifo (k : Key) (e : WEnt) (h : k.waitPrio = false) :
    (k.waitPush e).waitPrio = false ∧
    ((k.waitPush e).wait = k.wait ++ [e] ∨ (k.waitPush e).wait = k.wait.filter (fun x => !k.deadWaiter x.rid) ++ [e]) := by
  unfold Key.waitPush
  rw [if_neg (by rw [h]; simp)]
  simp only []
  split
  · exact ⟨h, Or.inl rfl⟩
  · split
    · rename_i hem
      refine ⟨h, Or.inl ?_⟩
      have : k.wait = [] := by simpa using hem
      rw [this]; rfl
    · refine ⟨?_, Or.inr ?_⟩
      · rw [foldl_unrefW_wp]; split <;> exact h
      · obtain ⟨_, _, q3⟩ := queues_eq (foldl_unrefW_queues (k.wait.filter (fun x => k.deadWaiter x.rid))
          (if (k.wait.filter (fun x => !k.deadWaiter x.rid)).length < k.waitPopped + k.wait.length then
            { k with wait := k.wait.filter (fun x => !k.deadWaiter x.rid) ++ [e], waitPopped := 0 }
           else { k with wait := k.wait.filter (fun x => !k.deadWaiter x.rid) ++ [e], waitCap := 2 * k.waitCap }))
        rw [q3]
        split <;> rfl

theorem prOf_dead (k : Key) (y : Nat) (h : ¬ k.hasRec y) : prOf k y = 0 := by
  unfold prOf; rw [getR_of_not_hasRec k y h]
  show Engine.cmdPriority (default : Engine.Cmd) = 0
  decide

theorem foldl_insertPrio_head (l : List WEnt) (y : WEnt) (t : List WEnt) (h : ∀ z ∈ l, z.prio ≤ y.prio) :
    ∃ t', l.foldl insertPrio (y :: t) = y :: t' := by
  induction l generalizing t with
  | nil => exact ⟨t, rfl⟩
  | cons a as ih =>
    simp only [List.foldl_cons]
    have : insertPrio (y :: t) a = y :: insertPrio t a := by
      conv => lhs; unfold insertPrio
      rw [if_neg (Nat.not_lt.mpr (h a (by simp)))]
    rw [this]
    exact ih (insertPrio t a) (fun z hz => h z (List.mem_cons_of_mem _ hz))

theorem mem_foldl_insertPrio (l acc : List WEnt) (x : WEnt) : x ∈ l.foldl insertPrio acc ↔ x ∈ acc ∨ x ∈ l := by
  induction l generalizing acc with
  | nil => simp
  | cons a as ih =>
    simp only [List.foldl_cons]
    rw [ih, insertPrio_mem']
    simp only [List.mem_cons]
    constructor
    · rintro ((h | h) | h)
      · exact Or.inr (Or.inl h)
      · exact Or.inl h
      · exact Or.inr (Or.inr h)
    · rintro (h | h | h)
      · exact Or.inl (Or.inr h)
      · exact Or.inl (Or.inl h)
      · exact Or.inr h

/-- every entry of the queue after `AddWaitLock(rid)` is the new one or (a re-filed copy of) an old one -/
theorem addWaitLock_mem (k : Key) (rid : Nat) (x : WEnt) (hx : x ∈ (k.addWaitLock rid).wait) :
    x = ⟨rid, Engine.cmdPriority (k.getR rid).cmd⟩ ∨ (∃ y ∈ k.wait, x = y ∨ x = recache k y) := by
  rw [(addWaitLock_pre k rid).1] at hx
  cases hr : rePushes k rid with
  | true =>
    rw [hr] at hx
    simp only [if_true] at hx
    rw [(waitPush_prio k.rePush _ (rePush_wait k).2).1, (rePush_wait k).1, insertPrio_mem', mem_foldl_insertPrio] at hx
    rcases hx with h | h | h
    · exact Or.inl h
    · simp at h
    · obtain ⟨y, hy, e⟩ := List.mem_map.mp h
      exact Or.inr ⟨y, hy, Or.inr e.symm⟩
  | false =>
    rw [hr] at hx
    simp only [Bool.false_eq_true, if_false] at hx
    cases hp : k.waitPrio with
    | true =>
      rw [(waitPush_prio k _ hp).1, insertPrio_mem'] at hx
      rcases hx with h | h
      · exact Or.inl h
      · exact Or.inr ⟨x, h, Or.inl rfl⟩
    | false =>
      rcases (waitPush_fifo k ⟨rid, Engine.cmdPriority (k.getR rid).cmd⟩ hp).2 with e | e
      · rw [e] at hx
        rcases List.mem_append.mp hx with h | h
        · exact Or.inr ⟨x, h, Or.inl rfl⟩
        · exact Or.inl (by simpa using h)
      · rw [e] at hx
        rcases List.mem_append.mp hx with h | h
        · exact Or.inr ⟨x, (List.mem_filter.mp h).1, Or.inl rfl⟩
        · exact Or.inl (by simpa using h)

theorem addWaitLock_waited (k : Key) (rid : Nat) : (k.addWaitLock rid).waited = true := rfl

end Slock.Sim
