import Slock.Model.Value
/-! Helper lemmas for M-VALUE: little-endian codecs, the canonical frame image `encode`, and how the
    model's accessors compute on it. -/
namespace Slock.Value

theorem leN_length (k n : Nat) : (leN k n).length = k := by
  induction k generalizing n with
  | zero => rfl
  | succ k ih => simp [leN, ih]

@[simp] theorem le16_length (n : Nat) : (le16 n).length = 2 := leN_length 2 n
@[simp] theorem le32_length (n : Nat) : (le32 n).length = 4 := leN_length 4 n
@[simp] theorem le64_length (n : Nat) : (le64 n).length = 8 := leN_length 8 n

theorem toUInt8_toNat_mod (n : Nat) : (n % 256).toUInt8.toNat = n % 256 := by
  simp [Nat.toUInt8, UInt8.toNat_ofNat']

theorem readLE_leN (k n : Nat) : readLE (leN k n) = n % 256 ^ k := by
  induction k generalizing n with
  | zero => simp [leN, readLE, Nat.mod_one]
  | succ k ih =>
    simp only [leN, readLE, ih, toUInt8_toNat_mod]
    rw [Nat.pow_succ, Nat.mul_comm (256 ^ k) 256, Nat.mod_mul]

theorem readLE_le32 (n : Nat) (h : n < 2 ^ 32) : readLE (le32 n) = n := by
  rw [le32, readLE_leN]; exact Nat.mod_eq_of_lt (by simpa using h)

theorem readLE_le16 (n : Nat) (h : n < 65536) : readLE (le16 n) = n := by
  rw [le16, readLE_leN]; exact Nat.mod_eq_of_lt (by simpa using h)

theorem readLE_le64 (n : Nat) : readLE (le64 n) = n % 2 ^ 64 := by
  rw [le64, readLE_leN]

theorem take_left' {α} (a b : List α) (n : Nat) (h : a.length = n) : (a ++ b).take n = a := by
  subst h; simp

theorem drop_left' {α} (a b : List α) (n : Nat) (h : a.length = n) : (a ++ b).drop n = b := by
  subst h; simp

def propHdr : Option Bytes → Bytes
  | none => []
  | some p => le16 p.length ++ p

/-- a canonical frame image: `[len32 | op (stage 0) | flag | (proplen16 props)? | payload]` -/
structure Frm where
  op : Nat
  flag : UInt8
  props : Option Bytes
  payload : Bytes

def Frm.hdrLen (f : Frm) : Nat := (propHdr f.props).length

def encode (f : Frm) : Bytes :=
  le32 (2 + f.hdrLen + f.payload.length) ++ (f.op.toUInt8 :: f.flag :: (propHdr f.props ++ f.payload))

structure Frm.WF (f : Frm) : Prop where
  op_lt : f.op < 64
  flag_props : hasFlag f.flag fPROP = f.props.isSome
  props_len : ∀ p, f.props = some p → p.length < 65536

def mkCmd (f : Frm) : Cmd := ⟨encode f, [], 0, f.op, f.flag⟩

theorem encode_cons (f : Frm) : ∃ a b c d, encode f = a :: b :: c :: d :: f.op.toUInt8 :: f.flag :: (propHdr f.props ++ f.payload) := by
  simp [encode, le32, leN]

theorem encode_length (f : Frm) : (encode f).length = 6 + f.hdrLen + f.payload.length := by
  simp [encode, Frm.hdrLen]; omega

theorem encode_drop6 (f : Frm) : (encode f).drop 6 = propHdr f.props ++ f.payload := by
  obtain ⟨a, b, c, d, h⟩ := encode_cons f; rw [h]; rfl

theorem encode_take4 (f : Frm) : (encode f).take 4 = le32 (2 + f.hdrLen + f.payload.length) := by
  rw [encode]; exact take_left' _ _ 4 (le32_length _)

theorem encode_idx5 (f : Frm) : (encode f)[5]? = some f.flag := by
  obtain ⟨a, b, c, d, h⟩ := encode_cons f; rw [h]; rfl

theorem encode_idx4 (f : Frm) : (encode f)[4]? = some f.op.toUInt8 := by
  obtain ⟨a, b, c, d, h⟩ := encode_cons f; rw [h]; rfl

theorem op_byte (n : Nat) (h : n < 64) : n.toUInt8.toNat / 64 = 0 ∧ n.toUInt8.toNat % 64 = n := by
  have : n.toUInt8.toNat = n := by simp [Nat.toUInt8, UInt8.toNat_ofNat']; omega
  rw [this]; omega

theorem encode_idx67 (f : Frm) (p : Bytes) (hp : f.props = some p) :
    (encode f)[6]? = some (p.length % 256).toUInt8 ∧ (encode f)[7]? = some (p.length / 256 % 256).toUInt8 := by
  obtain ⟨a, b, c, d, h⟩ := encode_cons f
  rw [h, hp]; simp [propHdr, le16, leN]

theorem parseFrame_encode (f : Frm) (h : f.WF) : parseFrame (encode f) [] = some (mkCmd f) := by
  unfold parseFrame
  rw [encode_idx4, encode_idx5]
  cases hp : f.props with
  | none =>
    have : hasFlag f.flag fPROP = false := by rw [h.flag_props, hp]; rfl
    simp [this, mkCmd]
    have := h.op_lt; omega
  | some p =>
    have : hasFlag f.flag fPROP = true := by rw [h.flag_props, hp]; rfl
    have hl := h.props_len p hp
    obtain ⟨h6, h7⟩ := encode_idx67 f p hp
    simp only [this, if_true, h6, h7, toUInt8_toNat_mod]
    have hlen : ¬ (p.length % 256 + 256 * (p.length / 256 % 256) + 8 > (encode f).length) := by
      rw [encode_length]; simp [Frm.hdrLen, hp, propHdr]; omega
    rw [if_neg hlen]
    simp [mkCmd]
    have := h.op_lt; omega

theorem cmdOff_mkCmd (f : Frm) (h : f.WF) : cmdOff (mkCmd f) = .ok (6 + f.hdrLen) := by
  unfold cmdOff
  cases hp : f.props with
  | none =>
    have : hasFlag f.flag fPROP = false := by rw [h.flag_props, hp]; rfl
    simp [mkCmd, this, Frm.hdrLen, hp, propHdr, pure, Except.pure]
  | some p =>
    have : hasFlag f.flag fPROP = true := by rw [h.flag_props, hp]; rfl
    have hl := h.props_len p hp
    obtain ⟨a, b, c, d, he⟩ := encode_cons f
    simp [mkCmd, this, Frm.hdrLen, hp, propHdr, pure, Except.pure, bind, Except.bind, idx, he, le16, leN]
    omega

theorem cellOff_encode (f : Frm) (h : f.WF) : cellOff (encode f) = 6 + f.hdrLen := by
  unfold cellOff
  obtain ⟨a, b, c, d, he⟩ := encode_cons f
  have hlen := encode_length f
  cases hp : f.props with
  | none =>
    have : hasFlag f.flag fPROP = false := by rw [h.flag_props, hp]; rfl
    simp [he, this, Frm.hdrLen, hp, propHdr]
  | some p =>
    have : hasFlag f.flag fPROP = true := by rw [h.flag_props, hp]; rfl
    have hl := h.props_len p hp
    have h8 : ¬ (encode f).length < 8 := by
      rw [hlen]; simp [Frm.hdrLen, hp, propHdr]; omega
    rw [if_neg h8]
    simp [he, this, Frm.hdrLen, hp, propHdr, le16, leN]
    omega

theorem encode_drop_off (f : Frm) : (encode f).drop (6 + f.hdrLen) = f.payload := by
  rw [← List.drop_drop, encode_drop6]
  exact drop_left' _ _ _ rfl

theorem encode_hdr (f : Frm) : ((encode f).drop 6).take f.hdrLen = propHdr f.props := by
  rw [encode_drop6]; exact take_left' _ _ _ rfl

def ElemsOK (xs : List Bytes) : Prop := ∀ x ∈ xs, x.length < 2 ^ 32

theorem encElems_cons (x : Bytes) (xs : List Bytes) : encElems (x :: xs) = le32 x.length ++ (x ++ encElems xs) := by
  simp [encElems, List.flatMap_cons]

theorem encElems_append (xs ys : List Bytes) : encElems (xs ++ ys) = encElems xs ++ encElems ys := by
  simp [encElems, List.flatMap_append]

theorem encElems_nil : encElems [] = [] := rfl

theorem parseElems_enc (xs : List Bytes) (h : ElemsOK xs) (fuel : Nat)
    (hf : (encElems xs).length ≤ fuel) : parseElems fuel (encElems xs) = xs := by
  induction xs generalizing fuel with
  | nil =>
    cases fuel with
    | zero => rfl
    | succ n => simp [parseElems, encElems_nil]
  | cons x xs ih =>
    have hx := h x (List.mem_cons_self ..)
    have hxs : ElemsOK xs := fun y hy => h y (List.mem_cons_of_mem _ hy)
    rw [encElems_cons] at hf ⊢
    have hlen : (le32 x.length ++ (x ++ encElems xs)).length = 4 + x.length + (encElems xs).length := by
      simp; omega
    cases fuel with
    | zero => rw [hlen] at hf; omega
    | succ n =>
      have h1 : ¬ (le32 x.length ++ (x ++ encElems xs)).length < 4 := by rw [hlen]; omega
      have h2 : readLE ((le32 x.length ++ (x ++ encElems xs)).take 4) = x.length := by
        rw [take_left' _ _ 4 (le32_length _)]; exact readLE_le32 _ hx
      have h3 : (le32 x.length ++ (x ++ encElems xs)).drop (4 + x.length) = encElems xs := by
        rw [← List.drop_drop, drop_left' _ _ 4 (le32_length _), drop_left' _ _ _ rfl]
      have h4 : ((le32 x.length ++ (x ++ encElems xs)).drop 4).take x.length = x := by
        rw [drop_left' _ _ 4 (le32_length _), take_left' _ _ _ rfl]
      unfold parseElems
      rw [if_neg h1]
      simp only [h2]
      rw [if_neg (by rw [hlen]; omega), h3, h4, ih hxs n (by rw [hlen] at hf; omega)]

theorem forall_uint8 (P : UInt8 → Prop) (h : ∀ n, n < 256 → P (UInt8.ofNat n)) (f : UInt8) : P f := by
  have := h f.toNat (UInt8.toNat_lt f)
  simpa using this

set_option maxRecDepth 100000 in
theorem flag_or_num_prop (f : UInt8) : hasFlag (f ||| fNUMBER) fPROP = hasFlag f fPROP := by
  revert f; apply forall_uint8; decide

set_option maxRecDepth 100000 in
theorem flag_or_num_arr (f : UInt8) : hasFlag (f ||| fNUMBER) fARRAY = hasFlag f fARRAY := by
  revert f; apply forall_uint8; decide

set_option maxRecDepth 100000 in
theorem flag_push_prop (f : UInt8) : hasFlag ((f &&& 0xf8) ||| fARRAY) fPROP = hasFlag f fPROP := by
  revert f; apply forall_uint8; decide

set_option maxRecDepth 100000 in
theorem flag_push_arr (f : UInt8) : hasFlag ((f &&& 0xf8) ||| fARRAY) fARRAY = true := by
  revert f; apply forall_uint8; decide
end Slock.Value
