import Slock.Proofs.EngineSimTickSQTick
import Slock.Proofs.EngineSimTickLong
import Slock.Proofs.EngineNotLate
/-! Clock-tick simulation (`sim_tick`), stage 1: the facts about the stage-1 database that are carried through the steps of a sweep
(`I1`): distinct key ids, distinct (RequestId, connection) per key, distinct wheel sequence numbers (`S3`), `locked = Σ depth` (`DBInv`),
`waited ⇒ something is queued` (`FL`), every queued request / hold sits under the key its command names (`KW`, `KH`). -/
namespace Slock.SimTick
open Slock Slock.Engine Slock.Sim

def FL (a : DB) : Prop := ∀ k ∈ a.keys, k.waited = true → k.waiters ≠ []
def KH (a : DB) : Prop := ∀ n x, HoldAt a n x → x.cmd.key = n

theorem FL.getKey {a : DB} (h : FL a) (n : Nat) : (a.getKey n).waited = true → (a.getKey n).waiters ≠ [] := by
  rcases getKey_mem_or_empty a n with h1 | h1
  · exact h _ h1
  · rw [h1]; intro hw; simp [emptyKey] at hw

theorem FL.setKey {a : DB} (h : FL a) {k : Key} (hk : k.waited = true → k.waiters ≠ []) : FL (a.setKey k) := by
  intro x hx
  rcases mem_setKey_keys hx with ⟨h1, _⟩ | h1
  · exact h x h1
  · rw [h1]; exact hk

theorem FL.of_keys_eq {a a' : DB} (h : FL a) (e : a'.keys = a.keys) : FL a' := by intro k hk; rw [e] at hk; exact h k hk

theorem wake_fl (db : DB) (k : Key) (out : List Reply) : (wake db k out).2.1.waited = true → (wake db k out).2.1.waiters ≠ [] := by
  rcases wake_settled db k out with ⟨_, h2⟩ | ⟨w, rest, h1, _⟩ | h1
  · intro hw; rw [h2] at hw; exact absurd hw (by simp)
  · intro _; rw [h1]; simp
  · intro hw; rw [h1] at hw; exact absurd hw (by simp)

theorem wake_store_fl {db0 db : DB} {k : Key} (out : List Reply) (h0 : FL db0) (e : db.keys = db0.keys) :
    FL ((wake db k out).1.setKey (wake db k out).2.1) :=
  (h0.of_keys_eq (by rw [wake_keys, e])).setKey (wake_fl db k out)

theorem KH.of_sub {a a' : DB} (h : KH a) (hs : ∀ n x, HoldAt a' n x → HoldAt a n x) : KH a' := fun n x hx => h n x (hs n x hx)

structure I1 (a : DB) : Prop where
  s3 : S3 a
  inv : DBInv a
  fl : FL a
  kw : KW a
  kh : KH a

theorem I1.of_keys_eq {a a' : DB} (h : I1 a) (e : a'.keys = a.keys) (hs : a.seq ≤ a'.seq) : I1 a' :=
  ⟨h.s3.of_keys_eq e hs, h.inv.of_keys_eq e, h.fl.of_keys_eq e, h.kw.of_sub (fun _ _ hx => hx.of_keys_eq e), h.kh.of_sub (fun _ _ hx => hx.of_keys_eq e)⟩

theorem rearmWaiter_i1 (a : DB) (w : Waiter) (h : I1 a) : I1 (rearmWaiter a w) := by
  refine ⟨rearmWaiter_s3 a w h.s3, rearmWaiter_inv a w h.inv, ?_, rearmWaiter_KW a w h.kw, h.kh.of_sub (fun _ _ hx => rearmWaiter_holdAt hx)⟩
  rw [rearmWaiter_eq]
  refine (h.fl.of_keys_eq (a' := seqUp a) rfl).setKey ?_
  intro hw e
  have e' : (a.getKey w.cmd.key).waiters = [] := by
    have : (mapW (a.getKey w.cmd.key) w (rearmW a.tCheck a.seq w)).waiters = [] := e
    unfold mapW at this
    simpa using this
  exact h.fl.getKey w.cmd.key hw e'

theorem rearmHold_i1 (a : DB) (x : Hold) (h : I1 a) : I1 (rearmHold a x) := by
  refine ⟨rearmHold_s3 a x h.s3, rearmHold_inv a x h.inv, ?_, h.kw.of_sub (fun _ _ hx => rearmHold_waitAt hx), ?_⟩
  · rw [rearmHold_eq']
    exact (h.fl.of_keys_eq (a' := seqUp a) rfl).setKey (h.fl.getKey x.cmd.key)
  · intro n y hy
    rcases rearmHold_holdAt hy with ⟨_, h1⟩ | ⟨hn, h1⟩
    · exact h.kh n y h1
    · rcases mem_replaceHolder h1 with h2 | h2
      · exact h.kh n y (hn ▸ holdAt_getKey h2)
      · rw [h2, hn]; rfl

theorem wakeGrant_key {a : DB} {ws : List Waiter} {x : Hold} {n : Nat} (h : WakeGrant a ws x) (hw : ∀ w ∈ ws, w.cmd.key = n) : x.cmd.key = n := by
  obtain ⟨db', w, _, _, hm, e⟩ := h
  rw [e]
  exact hw w hm

theorem fireTimeout_i1 (a : DB) (key : Nat) (w : Waiter) (h : I1 a) : I1 (fireTimeout a key w).1 := by
  refine ⟨fireTimeout_s3 a key w h.s3, fireTimeout_inv a key w h.inv, ?_, ?_, ?_⟩
  · rw [fireTimeout_eq]; exact wake_store_fl _ h.fl rfl
  · intro n v hv
    rcases fireTimeout_waitAt hv with ⟨_, h1⟩ | ⟨hn, h1⟩
    · exact h.kw n v h1
    · exact h.kw n v (hn ▸ waitAt_getKey (mem_removeWaiter h1))
  · intro n y hy
    rcases fireTimeout_holdAt hy with h1 | ⟨hn, h1⟩
    · exact h.kh n y h1
    · rw [hn]; exact wakeGrant_key h1 (fun v hv => h.kw key v (waitAt_getKey hv))

theorem fireExpire_i1 (a : DB) (key : Nat) (x : Hold) (hm : x ∈ (a.getKey key).holders) (h : I1 a) : I1 (fireExpire a key x).1 := by
  refine ⟨fireExpire_s3 a key x h.s3, fireExpire_inv a key x hm h.inv, ?_, h.kw.of_sub (fun _ _ hx => fireExpire_waitAt hx), ?_⟩
  · rw [fireExpire_eq]; exact wake_store_fl _ h.fl rfl
  · intro n y hy
    rcases fireExpire_holdAt hy with ⟨_, h1⟩ | ⟨hn, h1 | h1⟩
    · exact h.kh n y h1
    · exact h.kh n y (hn ▸ holdAt_getKey (mem_removeHolder h1))
    · rw [hn]; exact wakeGrant_key h1 (fun v hv => h.kw key v (waitAt_getKey hv))

theorem timeoutStep_i1 (acc : DB × List Waiter) (w : Waiter) (h : I1 acc.1) : I1 (timeoutStep acc w).1 := by
  unfold timeoutStep; split
  · exact rearmWaiter_i1 _ _ h
  · exact h

theorem expireStep_i1 (acc : DB × List Hold) (x : Hold) (h : I1 acc.1) : I1 (expireStep acc x).1 := by
  unfold expireStep; split
  · exact rearmHold_i1 _ _ h
  · exact h

theorem fireTimeoutStep_i1 (acc : DB × List Reply) (w : Waiter) (h : I1 acc.1) : I1 (fireTimeoutStep acc w).1 := by
  unfold fireTimeoutStep; split
  · exact fireTimeout_i1 _ _ _ h
  · exact h

theorem fireExpireStep_i1 (acc : DB × List Reply) (x : Hold) (h : I1 acc.1) : I1 (fireExpireStep acc x).1 := by
  unfold fireExpireStep; split
  · rename_i h' hf; exact fireExpire_i1 _ _ _ (List.mem_of_find?_eq_some hf) h
  · exact h

theorem I1.init (now : Nat) : I1 (DB.init now) :=
  ⟨S3.init now, DBInv.init now, by intro k hk; simp [DB.init] at hk, KW.init now, by intro n x ⟨k, hk, _⟩; simp [DB.init] at hk⟩

end Slock.SimTick
