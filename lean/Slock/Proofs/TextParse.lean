import Slock.Proofs.TextNum
/-! Helper lemmas for M-TEXT: the parser automaton on `BuildRequest` output (C14 text part). -/
namespace Slock.Text

theorem runBytes_append (s : PState) (l : Loc) (acc : Replies) (xs ys : Bytes) :
    runBytes s l acc (xs ++ ys) =
      match runBytes s l acc xs with
      | .ok acc' s' l' => runBytes s' l' acc' ys
      | r => r := by
  induction xs generalizing s l acc with
  | nil => simp [runBytes]
  | cons x xs ih =>
    simp only [List.cons_append, runBytes]
    cases step s l x <;> simp [ih]

theorem lfBad_cr : lfBad (some 13) = false := by decide

/-- a `<digits>\r\n` line in stage 1 -/
theorem numLine_s1 (ds : Bytes) (hd : ∀ b ∈ ds, isDigit b) (pre : Bytes) (hlen : pre.length + ds.length ≤ 128)
    (v : Int) (hv : atoi (pre ++ ds) = some v) (g : Nat) (cl : Int) (as : List Bytes) (ac : Int) (rs : Bool) (ty : Nat) (l : Loc) (acc : Replies) (tail : Bytes) :
    runBytes ⟨.s1, pre, g, cl, as, ac, rs, ty⟩ l acc (ds ++ 13 :: 10 :: tail) =
      runBytes ⟨.s2, [], g, cl, as, v, rs, ty⟩ ⟨some 10, .entry⟩ acc tail := by
  induction ds generalizing pre l with
  | nil =>
    simp only [List.append_nil] at hv
    simp [runBytes, step, numStep, lfBad_cr, hv]
  | cons d ds ih =>
    have hdd := isDigit_ne d (hd d (by simp))
    simp only [List.length_cons] at hlen
    have hlt : ¬ (pre.length ≥ MAX_CARG_LEN) := by unfold MAX_CARG_LEN; omega
    simp only [List.cons_append, runBytes, step, numStep, hdd.1, hdd.2.1, if_false, hlt]
    apply ih (fun b hb => hd b (by simp [hb])) (pre ++ [d]) (by simp; omega) (by simpa using hv)

/-- a `<digits>\r\n` line in stage 3 -/
theorem numLine_s3 (ds : Bytes) (hd : ∀ b ∈ ds, isDigit b) (pre : Bytes) (hlen : pre.length + ds.length ≤ 128)
    (v : Int) (hv : atoi (pre ++ ds) = some v) (g : Nat) (cl : Int) (as : List Bytes) (ac : Int) (rs : Bool) (ty : Nat) (l : Loc) (acc : Replies) (tail : Bytes) :
    runBytes ⟨.s3, pre, g, cl, as, ac, rs, ty⟩ l acc (ds ++ 13 :: 10 :: tail) =
      runBytes ⟨.s4, [], 0, v, as, ac, rs, ty⟩ ⟨some 10, .entry⟩ acc tail := by
  induction ds generalizing pre l with
  | nil =>
    simp only [List.append_nil] at hv
    simp [runBytes, step, numStep, lfBad_cr, hv]
  | cons d ds ih =>
    have hdd := isDigit_ne d (hd d (by simp))
    simp only [List.length_cons] at hlen
    have hlt : ¬ (pre.length ≥ MAX_CARG_LEN) := by unfold MAX_CARG_LEN; omega
    simp only [List.cons_append, runBytes, step, numStep, hdd.1, hdd.2.1, if_false, hlt]
    apply ih (fun b hb => hd b (by simp [hb])) (pre ++ [d]) (by simp; omega) (by simpa using hv)

theorem appendLast_snoc (as : List Bytes) (x : Bytes) (b : UInt8) :
    appendLast (as ++ [x]) b = some (as ++ [x ++ [b]]) := by
  induction as with
  | nil => simp [appendLast]
  | cons a as ih =>
    cases h : as ++ [x] with
    | nil => simp at h
    | cons y ys =>
      simp only [List.cons_append, h, appendLast]
      rw [← h, ih]
      simp

/-- the rest of an argument's bytes inside the block copy (binary-safe: any bytes) -/
theorem dataRun (xs : Bytes) (hx : xs ≠ []) (x : Bytes) (as : List Bytes) (g : Nat) (hg : g ≠ 0) (cl ac : Int)
    (rs : Bool) (ty : Nat) (p : Option UInt8) (acc : Replies) (tail : Bytes) :
    runBytes ⟨.s4, [], g, cl, as ++ [x], ac, rs, ty⟩ ⟨p, .data xs.length⟩ acc (xs ++ tail) =
      runBytes ⟨.s4, [], cl.toNat, cl, as ++ [x ++ xs], ac, rs, ty⟩ ⟨some (xs.getLast hx), .scan⟩ acc tail := by
  induction xs generalizing x g p with
  | nil => exact absurd rfl hx
  | cons b bs ih =>
    cases bs with
    | nil =>
      simp [runBytes, step, step4, dataByte, hg, appendLast_snoc]
    | cons c cs =>
      rw [show (b :: c :: cs) ++ tail = b :: ((c :: cs) ++ tail) by simp, runBytes]
      have h3 : ¬ ((b :: c :: cs).length ≤ 1) := by simp
      simp only [step, step4, dataByte, hg, if_false, appendLast_snoc, h3]
      have e : (b :: c :: cs).length - 1 = (c :: cs).length := by simp
      rw [e, ih (by simp) (x ++ [b]) (g + 1) (by omega) (some b)]
      simp

/-- one `$<len>\r\n<arg>\r\n` item, from stage 2: the argument is appended; `k` says what the closing LF does -/
theorem bulkRun (a : Bytes) (ha : a.length < 9223372036854775808) (as : List Bytes) (ac : Int) (rs : Bool) (ty : Nat) (l : Loc) (acc : Replies) (tail : Bytes) :
    runBytes ⟨.s2, [], 0, 0, as, ac, rs, ty⟩ l acc (bulk a ++ tail) =
      if ((as ++ [a]).length : Int) < ac then runBytes ⟨.s2, [], 0, 0, as ++ [a], ac, rs, ty⟩ ⟨some 10, .entry⟩ acc tail
      else runBytes ⟨.s0, [], 0, 0, [], 0, rs, ty⟩ ⟨some 10, .entry⟩ (acc ++ [(ty, as ++ [a])]) tail := by
  unfold bulk crlf
  simp only [List.cons_append, List.append_assoc, List.nil_append]
  rw [runBytes]
  simp only [step, if_true]
  have hv := atoi_natToDec a.length ha
  have hl := natToDec_length a.length ha
  rw [numLine_s3 (natToDec a.length) (natToDec_all_digit _) [] (by simp; omega) (a.length : Int) (by simpa using hv)]
  by_cases hc : ((as ++ [a]).length : Int) < ac
  · have hc' : (as.length : Int) + 1 < ac := by simpa using hc
    simp only [hc, if_true]
    cases a with
    | nil =>
      simp [runBytes, step, step4, scanByte, lfBad_cr, hc']
    | cons b bs =>
      cases bs with
      | nil =>
        simp only [List.cons_append, List.nil_append, List.length_singleton]
        simp [runBytes, step, step4, dataByte, scanByte, lfBad_cr, hc']
      | cons c cs =>
        rw [show (b :: c :: cs) ++ 13 :: 10 :: tail = b :: ((c :: cs) ++ 13 :: 10 :: tail) by simp]
        rw [runBytes]
        have hpos : ((b :: c :: cs).length : Int) - ((0 : Nat) : Int) > 0 := by simp only [List.length_cons]; omega
        simp only [step, step4, hpos, if_true, dataByte]
        have h1 : ¬ (((b :: c :: cs).length : Int) - ((0 : Nat) : Int)).toNat ≤ 1 := by simp only [List.length_cons]; omega
        simp only [h1, if_false]
        have h2 : (((b :: c :: cs).length : Int) - ((0 : Nat) : Int)).toNat - 1 = (c :: cs).length := by simp only [List.length_cons]; omega
        rw [h2, dataRun (c :: cs) (by simp) [b] as 1 (by omega)]
        have hz : ¬ ((cs.length : Int) + 1 + 1 = 0) := by omega
        simp [runBytes, step, step4, scanByte, lfBad_cr, hc', hz]
  · have hc' : ¬ ((as.length : Int) + 1 < ac) := by simpa using hc
    simp only [hc, if_false]
    cases a with
    | nil =>
      simp [runBytes, step, step4, scanByte, lfBad_cr, hc']
    | cons b bs =>
      cases bs with
      | nil =>
        simp only [List.cons_append, List.nil_append, List.length_singleton]
        simp [runBytes, step, step4, dataByte, scanByte, lfBad_cr, hc']
      | cons c cs =>
        rw [show (b :: c :: cs) ++ 13 :: 10 :: tail = b :: ((c :: cs) ++ 13 :: 10 :: tail) by simp]
        rw [runBytes]
        have hpos : ((b :: c :: cs).length : Int) - ((0 : Nat) : Int) > 0 := by simp only [List.length_cons]; omega
        simp only [step, step4, hpos, if_true, dataByte]
        have h1 : ¬ (((b :: c :: cs).length : Int) - ((0 : Nat) : Int)).toNat ≤ 1 := by simp only [List.length_cons]; omega
        simp only [h1, if_false]
        have h2 : (((b :: c :: cs).length : Int) - ((0 : Nat) : Int)).toNat - 1 = (c :: cs).length := by simp only [List.length_cons]; omega
        rw [h2, dataRun (c :: cs) (by simp) [b] as 1 (by omega)]
        have hz : ¬ ((cs.length : Int) + 1 + 1 = 0) := by omega
        simp [runBytes, step, step4, scanByte, lfBad_cr, hc', hz]

theorem bulksRun (rest : List Bytes) (hr : rest ≠ []) (hlen : ∀ a ∈ rest, a.length < 9223372036854775808)
    (rs : Bool) (ty : Nat) (done : List Bytes) (l : Loc) (acc : Replies) (tail : Bytes) :
    runBytes ⟨.s2, [], 0, 0, done, ((done.length + rest.length : Nat) : Int), rs, ty⟩ l acc (bulks rest ++ tail) =
      runBytes ⟨.s0, [], 0, 0, [], 0, rs, ty⟩ ⟨some 10, .entry⟩ (acc ++ [(ty, done ++ rest)]) tail := by
  induction rest generalizing done l with
  | nil => exact absurd rfl hr
  | cons a rest ih =>
    simp only [bulks, List.append_assoc]
    rw [bulkRun a (hlen a (by simp))]
    cases rest with
    | nil =>
      have : ¬ (((done ++ [a]).length : Int) < ((done.length + [a].length : Nat) : Int)) := by simp
      simp [bulks]
    | cons b rest =>
      have : (((done ++ [a]).length : Int) < ((done.length + (a :: b :: rest).length : Nat) : Int)) := by
        simp; omega
      simp only [this, if_true]
      have e : done.length + (a :: b :: rest).length = (done ++ [a]).length + (b :: rest).length := by simp; omega
      rw [e, ih (by simp) (fun x hx => hlen x (by simp [hx])) (done ++ [a])]
      simp

/-- a whole request, from the initial state, followed by anything -/
theorem buildRun (args : List Bytes) (hne : args ≠ []) (hcount : args.length < 9223372036854775808)
    (hlen : ∀ a ∈ args, a.length < 9223372036854775808) (l : Loc) (acc : Replies) (tail : Bytes) :
    runBytes {} l acc (buildRequest args ++ tail) = runBytes {} ⟨some 10, .entry⟩ (acc ++ [(0, args)]) tail := by
  unfold buildRequest crlf
  simp only [List.cons_append, List.append_assoc, List.nil_append]
  rw [runBytes]
  simp only [step, if_true, Bool.false_eq_true, if_false]
  have hv := atoi_natToDec args.length hcount
  have hl := natToDec_length args.length hcount
  rw [numLine_s1 (natToDec args.length) (natToDec_all_digit _) [] (by simp; omega) (args.length : Int) (by simpa using hv)]
  have := bulksRun args hne hlen false 0 [] ⟨some 10, .entry⟩ acc tail
  simpa using this

end Slock.Text
