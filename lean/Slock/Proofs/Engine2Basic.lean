import Slock.Model.Engine2
/-! Stage-2 engine: how an operation opens, edits and stores one key record (`create` / `openKey` / `commit`), and the
simple frame facts of the `W` helpers (what each leaves untouched). -/
namespace Slock.Engine2

/-! ### key lookup -/

theorem hasKey_eq_false_iff (db : DB) (n : Nat) : db.hasKey n = false ↔ ∀ k ∈ db.keys, k.key ≠ n := by
  unfold DB.hasKey DB.findKey
  cases h : db.keys.find? (·.key == n) with
  | none =>
    simp only [Option.isSome_none, true_iff]
    intro k hk e
    have := List.find?_eq_none.mp h k hk
    simp [e] at this
  | some k0 =>
    simp only [Option.isSome_some, Bool.true_eq_false, false_iff]
    intro hall
    have hm := List.mem_of_find?_eq_some h
    have hp := List.find?_some h
    exact hall k0 hm (by simpa using hp)

theorem getKey_key (db : DB) (n : Nat) : (db.getKey n).key = n := by
  unfold DB.getKey DB.findKey
  cases h : db.keys.find? (·.key == n) with
  | none => rfl
  | some k => have := List.find?_some h; simpa using this

theorem getKey_of_not_hasKey (db : DB) (n : Nat) (h : db.hasKey n = false) : db.getKey n = newKey n := by
  unfold DB.hasKey at h
  unfold DB.getKey
  cases hf : db.findKey n with
  | none => rfl
  | some k => simp [hf] at h

theorem getKey_mem (db : DB) (n : Nat) (h : db.hasKey n = true) : db.getKey n ∈ db.keys := by
  unfold DB.hasKey at h
  unfold DB.getKey
  cases hf : db.findKey n with
  | none => simp [hf] at h
  | some k => exact List.mem_of_find?_eq_some hf

theorem find_append_new (ks : List Key) (n : Nat) (h : ∀ k ∈ ks, k.key ≠ n) (x : Key) (hx : x.key = n) :
    (ks ++ [x]).find? (·.key == n) = some x := by
  induction ks with
  | nil => simp [List.find?, hx]
  | cons a as ih =>
    have ha : (a.key == n) = false := by simpa using h a (by simp)
    simp only [List.cons_append, List.find?, ha]
    exact ih (fun k hk => h k (List.mem_cons_of_mem _ hk))

theorem find_append_other (ks : List Key) (n m : Nat) (x : Key) (hx : x.key = n) (hne : m ≠ n) :
    (ks ++ [x]).find? (·.key == m) = ks.find? (·.key == m) := by
  induction ks with
  | nil => simp [List.find?, hx]; intro e; exact hne e.symm
  | cons a as ih =>
    simp only [List.cons_append, List.find?]
    cases (a.key == m) <;> simp [ih]

/-- `GetOrNewLockManager` does not change what any key looks like; it only makes the record exist -/
theorem getKey_create (db : DB) (n m : Nat) : (db.create n).getKey m = db.getKey m := by
  unfold DB.create
  cases h : db.hasKey n with
  | true => simp
  | false =>
    simp only [Bool.false_eq_true, if_false]
    have hall := (hasKey_eq_false_iff db n).mp h
    by_cases e : m = n
    · subst e
      rw [getKey_of_not_hasKey db m h]
      unfold DB.getKey DB.findKey
      simp only []
      rw [find_append_new db.keys m hall (newKey m) rfl]; rfl
    · unfold DB.getKey DB.findKey
      simp only []
      rw [find_append_other db.keys n m (newKey n) rfl e]

theorem hasKey_create (db : DB) (n : Nat) : (db.create n).hasKey n = true := by
  unfold DB.create
  cases h : db.hasKey n with
  | true => simp [h]
  | false =>
    simp only [Bool.false_eq_true, if_false]
    have hall := (hasKey_eq_false_iff db n).mp h
    unfold DB.hasKey DB.findKey
    simp only []
    rw [find_append_new db.keys n hall (newKey n) rfl]; rfl

/-- the key record an operation works on after `GetOrNewLockManager` -/
theorem openKey_create (db : DB) (n : Nat) :
    ((db.create n).openKey n).k = db.getKey n ∧ ((db.create n).openKey n).gone = false ∧
    ((db.create n).openKey n).db = db.create n ∧ ((db.create n).openKey n).out = [] := by
  unfold DB.openKey
  simp [getKey_create, hasKey_create]

theorem create_fields (db : DB) (n : Nat) :
    (db.create n).leader = db.leader ∧ (db.create n).aofOut = db.aofOut ∧ (db.create n).now = db.now ∧
    (db.create n).ctr = db.ctr ∧ (db.create n).panicked = db.panicked ∧ (db.create n).seq = db.seq ∧
    (db.create n).tCheck = db.tCheck ∧ (db.create n).eCheck = db.eCheck ∧ (db.create n).aofTime = db.aofTime := by
  unfold DB.create; split <;> simp

/-! ### storing a key record -/

theorem find_map_replace (ks : List Key) (k : Key) :
    (ks.map (fun x => if x.key == k.key then k else x)).find? (·.key == k.key) =
      (ks.find? (·.key == k.key)).map (fun _ => k) := by
  induction ks with
  | nil => rfl
  | cons a as ih =>
    by_cases h : (a.key == k.key) = true
    · simp only [List.map_cons, h, if_true, List.find?_cons, beq_self_eq_true, Option.map_some]
    · have h' : (a.key == k.key) = false := by simpa using h
      simp only [List.map_cons, h', Bool.false_eq_true, if_false, List.find?_cons]
      exact ih

theorem find_map_replace_other (ks : List Key) (k : Key) (m : Nat) (hne : m ≠ k.key) :
    (ks.map (fun x => if x.key == k.key then k else x)).find? (·.key == m) = ks.find? (·.key == m) := by
  induction ks with
  | nil => rfl
  | cons a as ih =>
    by_cases h : (a.key == k.key) = true
    · have e : a.key = k.key := by simpa using h
      have h1 : (k.key == m) = false := by simpa using (fun e' => hne e'.symm)
      have h2 : (a.key == m) = false := by rw [e]; exact h1
      simp only [List.map_cons, h, if_true, List.find?_cons, h1, h2]
      exact ih
    · have h' : (a.key == k.key) = false := by simpa using h
      simp only [List.map_cons, h', Bool.false_eq_true, if_false, List.find?_cons]
      cases (a.key == m)
      · exact ih
      · rfl

theorem getKey_setKey_same (db : DB) (k : Key) : (db.setKey k).getKey k.key = k := by
  unfold DB.setKey
  cases h : db.hasKey k.key with
  | true =>
    simp only [if_true]
    unfold DB.getKey DB.findKey
    simp only []
    rw [find_map_replace]
    unfold DB.hasKey DB.findKey at h
    cases hf : db.keys.find? (·.key == k.key) with
    | none => simp [hf] at h
    | some _ => rfl
  | false =>
    simp only [Bool.false_eq_true, if_false]
    unfold DB.getKey DB.findKey
    simp only []
    rw [find_append_new db.keys k.key ((hasKey_eq_false_iff db k.key).mp h) k rfl]; rfl

theorem getKey_setKey_other (db : DB) (k : Key) (m : Nat) (hne : m ≠ k.key) : (db.setKey k).getKey m = db.getKey m := by
  unfold DB.setKey
  cases h : db.hasKey k.key with
  | true =>
    simp only [if_true]
    unfold DB.getKey DB.findKey
    simp only []
    rw [find_map_replace_other _ _ _ hne]
  | false =>
    simp only [Bool.false_eq_true, if_false]
    unfold DB.getKey DB.findKey
    simp only []
    rw [find_append_other db.keys k.key m k rfl hne]

theorem setKey_fields (db : DB) (k : Key) :
    (db.setKey k).leader = db.leader ∧ (db.setKey k).aofOut = db.aofOut ∧ (db.setKey k).now = db.now ∧
    (db.setKey k).ctr = db.ctr ∧ (db.setKey k).panicked = db.panicked ∧ (db.setKey k).keyCount = db.keyCount ∧
    (db.setKey k).seq = db.seq ∧ (db.setKey k).tCheck = db.tCheck ∧ (db.setKey k).eCheck = db.eCheck ∧
    (db.setKey k).aofTime = db.aofTime ∧ (db.setKey k).nextRid = db.nextRid := by
  unfold DB.setKey; split <;> simp

theorem dropKey_fields (db : DB) (n : Nat) :
    (db.dropKey n).leader = db.leader ∧ (db.dropKey n).aofOut = db.aofOut ∧ (db.dropKey n).now = db.now ∧
    (db.dropKey n).ctr = db.ctr ∧ (db.dropKey n).panicked = db.panicked ∧ (db.dropKey n).seq = db.seq ∧
    (db.dropKey n).tCheck = db.tCheck ∧ (db.dropKey n).eCheck = db.eCheck ∧ (db.dropKey n).aofTime = db.aofTime ∧
    (db.dropKey n).nextRid = db.nextRid := by
  unfold DB.dropKey; simp

theorem hasKey_dropKey (db : DB) (n : Nat) : (db.dropKey n).hasKey n = false := by
  rw [hasKey_eq_false_iff]
  intro k hk
  unfold DB.dropKey at hk
  simp only [] at hk
  have := (List.mem_filter.mp hk).2
  simpa using this

theorem getKey_dropKey_same (db : DB) (n : Nat) : (db.dropKey n).getKey n = newKey n :=
  getKey_of_not_hasKey _ _ (hasKey_dropKey db n)

theorem find_filter_other (ks : List Key) (n m : Nat) (hne : m ≠ n) :
    (ks.filter (·.key != n)).find? (·.key == m) = ks.find? (·.key == m) := by
  induction ks with
  | nil => rfl
  | cons a as ih =>
    by_cases h : a.key = n
    · have h1 : (a.key != n) = false := by simp [h]
      have h2 : (a.key == m) = false := by rw [h]; simpa using (fun e : n = m => hne e.symm)
      simp [List.filter, h1, List.find?, h2, ih]
    · have h1 : (a.key != n) = true := by simpa using h
      simp only [List.filter, h1, List.find?]
      cases (a.key == m) <;> simp [ih]

theorem getKey_dropKey_other (db : DB) (n m : Nat) (hne : m ≠ n) : (db.dropKey n).getKey m = db.getKey m := by
  unfold DB.dropKey DB.getKey DB.findKey
  simp only []
  rw [find_filter_other _ _ _ hne]

end Slock.Engine2
