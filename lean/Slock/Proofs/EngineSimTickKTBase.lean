import Slock.Proofs.EngineSimTickKT
/-! `KT` pass, part 1: the projections `KT` reads, the step relation `KTK` between two versions of a key record (records outside `XW` keep
their wait-queue side, records outside `XH` keep their depth; live entries stay in the wait queue, holds stay in the holder queue), its
working-state version `TK`, the working-state invariant `WT`, and the helper steps `KT` does not see. -/
namespace Slock.SimTick
open Slock Slock.Sim Slock.Engine2
open Slock.Engine (has)

/-- the wait-queue side of a lock record: tombstone, the back-off counter cached in the timeout-wheel entry, the record's counter -/
def πW (r : Rec) : Bool × Option Nat × Nat := (r.timeouted, r.tSched.map (·.checked), r.tChecked)
/-- the holder-queue side -/
def πD (r : Rec) : Nat := r.depth
def πT (r : Rec) : (Bool × Option Nat × Nat) × Nat := (πW r, πD r)

theorem ins_πW : Ins πW := ⟨fun _ _ => rfl, fun _ _ => rfl, fun _ _ => rfl, fun _ _ => rfl⟩
theorem ins_πD : Ins πD := ⟨fun _ _ => rfl, fun _ _ => rfl, fun _ _ => rfl, fun _ _ => rfl⟩
theorem ins_πT : Ins πT := ⟨fun _ _ => rfl, fun _ _ => rfl, fun _ _ => rfl, fun _ _ => rfl⟩

/-- the timeout-wheel entry caches the back-off counter -/
def WS (r : Rec) : Prop := r.tSched.map (·.checked) = some r.tChecked

theorem ws_iff (r : Rec) : (∃ sc, r.tSched = some sc ∧ sc.checked = r.tChecked) ↔ WS r := by
  unfold WS
  cases h : r.tSched with
  | none => simp
  | some s => simp

theorem ws_of_πW {r r' : Rec} (h : πW r' = πW r) : WS r' ↔ WS r := by
  have e2 : r'.tSched.map (·.checked) = r.tSched.map (·.checked) := congrArg (fun t => t.2.1) h
  have e3 : r'.tChecked = r.tChecked := congrArg (fun t => t.2.2) h
  unfold WS; rw [e2, e3]

theorem to_of_πW {r r' : Rec} (h : πW r' = πW r) : r'.timeouted = r.timeouted := congrArg (fun t => t.1) h

theorem hasRec_of_live {k : Key} {y : Nat} (h : (k.getR y).timeouted = false) : k.hasRec y := by
  by_cases hh : k.hasRec y
  · exact hh
  · rw [timeouted_dead k y hh] at h; exact absurd h (by simp)

theorem hasRec_of_depth {k : Key} {y : Nat} (h : 0 < (k.getR y).depth) : k.hasRec y := by
  by_cases hh : k.hasRec y
  · exact hh
  · rw [getR_of_not_hasRec k y hh] at h; exact absurd h (by simp [deadRec])

theorem pkx_fst {X : Nat → Prop} {k' k : Key} (p : PKeepX πT X k' k) : PKeepX πW X k' k :=
  ⟨p.sub, fun y hx h => congrArg Prod.fst (p.val y hx h)⟩
theorem pkx_snd {X : Nat → Prop} {k' k : Key} (p : PKeepX πT X k' k) : PKeepX πD X k' k :=
  ⟨p.sub, fun y hx h => congrArg Prod.snd (p.val y hx h)⟩

/-- an edit of one record: it is in `X`, or the attribute does not see the edit -/
theorem pkx_modRec {α : Type} {π : Rec → α} {X : Nat → Prop} (k : Key) (rid : Nat) (f : Rec → Rec) (hf : ∀ r, (f r).rid = r.rid)
    (h : X rid ∨ ∀ r, π (f r) = π r) : PKeepX π X (k.modRec rid f) k := by
  rcases h with hx | hp
  · exact PKeepX.modRec k rid f hf hx
  · exact PKeepX.of_pk (PKeep.modRec k rid f hf hp)

/-! ### the step relation on key records -/

structure KTK (XW XH : Nat → Prop) (k' k : Key) : Prop where
  pw : PKeepX πW XW k' k
  pd : PKeepX πD XH k' k
  qw : ∀ y, ¬ XW y → (k'.getR y).timeouted = false → y ∈ k.wait.map (·.rid) → y ∈ k'.wait.map (·.rid)
  qh : ∀ y, ¬ XH y → 0 < (k'.getR y).depth → y ∈ k.current.toList ++ k.locks → y ∈ k'.current.toList ++ k'.locks

namespace KTK
variable {XW XH : Nat → Prop}

theorem refl (k : Key) : KTK XW XH k k := ⟨PKeepX.refl _, PKeepX.refl _, fun _ _ _ h => h, fun _ _ _ h => h⟩

theorem trans {a b c : Key} (h1 : KTK XW XH a b) (h2 : KTK XW XH b c) : KTK XW XH a c := by
  refine ⟨h1.pw.trans h2.pw, h1.pd.trans h2.pd, ?_, ?_⟩
  · intro y hx hl hm
    have hh := hasRec_of_live hl
    have e := to_of_πW (h1.pw.val y hx hh)
    exact h1.qw y hx hl (h2.qw y hx (by rw [← e]; exact hl) hm)
  · intro y hx hd hm
    have hh := hasRec_of_depth hd
    have e : (a.getR y).depth = (b.getR y).depth := h1.pd.val y hx hh
    exact h1.qh y hx hd (h2.qh y hx (by rw [← e]; exact hd) hm)

/-- same queues, every surviving record reads the same -/
theorem of_pk {k' k : Key} (q : k'.queues = k.queues) (p : PKeep πT k' k) : KTK XW XH k' k := by
  obtain ⟨q1, q2, q3⟩ := queues_eq q
  exact ⟨pkx_fst (PKeepX.of_pk p), pkx_snd (PKeepX.of_pk p), fun _ _ _ h => by rw [q3]; exact h, fun _ _ _ h => by rw [q1, q2]; exact h⟩

/-- same queues, an edit of one record -/
theorem modRec (k : Key) (rid : Nat) (f : Rec → Rec) (hf : ∀ r, (f r).rid = r.rid)
    (hw : XW rid ∨ ∀ r, πW (f r) = πW r) (hd : XH rid ∨ ∀ r, πD (f r) = πD r) : KTK XW XH (k.modRec rid f) k :=
  ⟨pkx_modRec k rid f hf hw, pkx_modRec k rid f hf hd, fun _ _ _ h => h, fun _ _ _ h => h⟩

end KTK

/-- **the step lemma**: the records in `XW` / `XH` are argued for directly -/
theorem KT.step {k k' : Key} (h : KT k) {XW XH : Nat → Prop} (d : KTK XW XH k' k)
    (xw : ∀ y, XW y → (k'.getR y).timeouted = false → y ∈ k'.wait.map (·.rid) ∧ WS (k'.getR y))
    (xh : ∀ y, XH y → 0 < (k'.getR y).depth → y ∈ k'.current.toList ++ k'.locks) : KT k' := by
  refine ⟨?_, ?_, ?_⟩
  · intro y hy hl
    by_cases hx : XW y
    · exact (xw y hx hl).1
    · have v := d.pw.val y hx hy
      exact d.qw y hx hl (h.wq y (d.pw.sub y hx hy) (by rw [← to_of_πW v]; exact hl))
  · intro y hy hl
    apply (ws_iff _).mpr
    by_cases hx : XW y
    · exact (xw y hx hl).2
    · have v := d.pw.val y hx hy
      exact (ws_of_πW v).mpr ((ws_iff _).mp (h.ws y (d.pw.sub y hx hy) (by rw [← to_of_πW v]; exact hl)))
  · intro y hy hd
    by_cases hx : XH y
    · exact xh y hx hd
    · have v : (k'.getR y).depth = (k.getR y).depth := d.pd.val y hx hy
      exact d.qh y hx hd (h.hq y (d.pd.sub y hx hy) (by rw [← v]; exact hd))

/-- no record excepted -/
abbrev NoX : Nat → Prop := fun _ => False

theorem KT.quiet {k k' : Key} (h : KT k) (d : KTK NoX NoX k' k) : KT k' :=
  h.step d (fun _ hx => absurd hx id) (fun _ hx => absurd hx id)

/-! ### working states -/

/-- `KT` of the key record being worked on, as long as it is linked -/
def WT (w : W) : Prop := w.gone = false → KT w.k

structure TK (XW XH : Nat → Prop) (w w' : W) : Prop where
  g : w'.gone = w.gone
  k : KTK XW XH w'.k w.k

theorem WT.tk {w w' : W} (h : WT w) {XW XH : Nat → Prop} (d : TK XW XH w w')
    (xw : KT w.k → ∀ y, XW y → (w'.k.getR y).timeouted = false → y ∈ w'.k.wait.map (·.rid) ∧ WS (w'.k.getR y))
    (xh : KT w.k → ∀ y, XH y → 0 < (w'.k.getR y).depth → y ∈ w'.k.current.toList ++ w'.k.locks) : WT w' := by
  intro hg
  have h0 := h (by rw [← d.g]; exact hg)
  exact h0.step d.k (xw h0) (xh h0)

theorem WT.q {w w' : W} (h : WT w) (d : TK NoX NoX w w') : WT w' :=
  h.tk d (fun _ _ hx => absurd hx id) (fun _ _ hx => absurd hx id)

theorem WT.removeIfZero {w : W} (h : WT w) : WT w.removeIfZero := by
  rcases removeIfZero_cases w with e | ⟨hg, _⟩
  · rw [e]; exact h
  · intro hg'; rw [hg] at hg'; exact absurd hg' (by simp)

namespace TK
variable {XW XH : Nat → Prop}

theorem refl (w : W) : TK XW XH w w := ⟨rfl, KTK.refl _⟩
theorem trans {a b c : W} (h1 : TK XW XH a b) (h2 : TK XW XH b c) : TK XW XH a c := ⟨h2.g.trans h1.g, h2.k.trans h1.k⟩
theorem of_k {w w' : W} (e : w'.k = w.k) (g : w'.gone = w.gone) : TK XW XH w w' := ⟨g, by rw [e]; exact KTK.refl _⟩
theorem reply (w : W) (c : Engine.Cmd) (a b : Nat) (d : Option Bytes) : TK XW XH w (w.reply c a b d) := of_k rfl rfl
theorem ctr (w : W) (f : Engine.Counters → Engine.Counters) : TK XW XH w (w.ctr f) := of_k rfl rfl
theorem wheelBroken (w : W) : TK XW XH w w.wheelBroken := of_k rfl rfl
theorem when (w : W) (b : Bool) (f : W → W) (h : TK XW XH w (f w)) : TK XW XH w (w.when b f) := by
  cases b
  · exact refl w
  · exact h
/-- an edit of one record (in the excepted sets, or invisible) -/
theorem modR (w : W) (rid : Nat) (f : Rec → Rec) (hf : ∀ r, (f r).rid = r.rid)
    (hw : XW rid ∨ ∀ r, πW (f r) = πW r) (hd : XH rid ∨ ∀ r, πD (f r) = πD r) : TK XW XH w (w.modR rid f) :=
  ⟨rfl, KTK.modRec w.k rid f hf hw hd⟩
theorem modR_q (w : W) (rid : Nat) (f : Rec → Rec) (hf : ∀ r, (f r).rid = r.rid) (hp : ∀ r, πT (f r) = πT r) : TK XW XH w (w.modR rid f) :=
  modR w rid f hf (Or.inr fun r => congrArg Prod.fst (hp r)) (Or.inr fun r => congrArg Prod.snd (hp r))
theorem modK (w : W) (f : Key → Key) (h1 : (f w.k).recs = w.k.recs) (h2 : (f w.k).queues = w.k.queues) : TK XW XH w (w.modK f) :=
  ⟨rfl, KTK.of_pk h2 (PKeep.of_eq h1)⟩
theorem of_pk {w w' : W} (g : w'.gone = w.gone) (q : w'.k.queues = w.k.queues) (p : PK πT w' w) : TK XW XH w w' := ⟨g, KTK.of_pk q p⟩
theorem procData (w : W) (t : Slock.Value.CmdType) (c : Engine.Cmd) (f : Option Bytes) (rid : Nat) : TK XW XH w (w.procData t c f rid) :=
  of_pk (gone_procData w t c f rid) (queues_procData w t c f rid) (pk_procData ins_πT w t c f rid)
theorem pushLockAof (w : W) (rid flag : Nat) : TK XW XH w (w.pushLockAof rid flag) :=
  of_pk (gone_pushLockAof w rid flag) (queues_pushLockAof w rid flag) (pk_pushLockAof ins_πT w rid flag)
theorem pushLockAofN (n : Nat) (w : W) (rid : Nat) : TK XW XH w (W.pushLockAofN n w rid) := by
  induction n generalizing w with
  | zero => exact refl _
  | succ n ih => unfold W.pushLockAofN; exact (pushLockAof _ _ _).trans (ih _)
theorem pushUnLockAof (w : W) (rid : Nat) (lc : Engine.Cmd) (fa ia : Bool) (flag : Nat) : TK XW XH w (w.pushUnLockAof rid lc fa ia flag) :=
  of_pk (SC.pushUnLockAof w rid lc fa ia flag).gone (qk_pushUnLockAof w rid lc fa ia flag).q (pk_pushUnLockAof ins_πT w rid lc fa ia flag)
theorem journalLock (w : W) (rid flag : Nat) : TK XW XH w (w.journalLock rid flag) := when _ _ _ (pushLockAof _ _ _)
theorem journalUnlock (w : W) (rid : Nat) (fa ia : Bool) (flag : Nat) : TK XW XH w (w.journalUnlock rid fa ia flag) :=
  when _ _ _ (pushUnLockAof _ _ _ _ _ _)
theorem ref (w : W) (rid : Nat) : TK XW XH w (w.ref rid) := modR_q w rid _ (fun _ => rfl) (fun _ => rfl)
theorem grantNoHold (w : W) (rid : Nat) : TK XW XH w (w.grantNoHold rid) :=
  of_pk (gone_grantNoHold w rid) (queues_grantNoHold w rid) (pk_grantNoHold ins_πT w rid)
theorem free (w : W) (rid : Nat) : TK XW XH w (w.modK (·.free rid)) := by
  obtain ⟨a, b, c, _⟩ := free_queues w.k rid
  exact ⟨rfl, KTK.of_pk (queues_mk c a b) (PKeep.free _ _)⟩
theorem unrefOnly (w : W) (rid : Nat) : TK XW XH w (w.modK (·.unrefOnly rid)) := ⟨rfl, KTK.of_pk rfl (PKeep.unrefOnly ins_πT _ _)⟩
theorem schedExpried (w : W) (rid : Nat) : TK XW XH w (w.schedExpried rid) :=
  of_pk rfl rfl (pk_schedExpried w rid (fun _ _ => rfl))
theorem addExpried (w : W) (rid : Nat) : TK XW XH w (w.addExpried rid) :=
  of_pk (gone_addExpried w rid) (qk_addExpried w rid).q (pk_addExpried ins_πT w rid (fun _ _ => rfl))
theorem removeLongE (w : W) (rid : Nat) : TK XW XH w (w.removeLongE rid) := of_pk rfl rfl (pk_removeLongE ins_πT w rid (fun _ _ => rfl))
theorem dropLongE (w : W) (rid : Nat) : TK XW XH w (w.dropLongE rid) := when _ _ _ (removeLongE _ _)
/-- the sweeper collects a long-table entry: the cached counter stays -/
theorem collectT (w : W) (rid : Nat) : TK XW XH w (w.collectT rid) := by
  refine modR_q w rid _ (fun _ => rfl) (fun r => ?_)
  show ((r.timeouted, (r.tSched.map (fun s => { s with long := false })).map (·.checked), r.tChecked), r.depth) =
    ((r.timeouted, r.tSched.map (·.checked), r.tChecked), r.depth)
  generalize r.tSched = o
  cases o <;> rfl
end TK

theorem WT.freeCheck {w : W} (h : WT w) (rid : Nat) : WT (w.freeCheck rid) := by
  unfold W.freeCheck
  exact (h.q (TK.free w rid)).removeIfZero

theorem WT.unrefCheck {w : W} (h : WT w) (rid : Nat) : WT (w.unrefCheck rid) := by
  unfold W.unrefCheck
  simp only []
  unfold W.when
  split
  · exact (h.q (TK.unrefOnly w rid)).freeCheck rid
  · exact h.q (TK.unrefOnly w rid)

theorem WT.dropE {w : W} (h : WT w) (rid : Nat) : WT (w.dropE rid) := by
  unfold W.dropE
  exact (h.q (TK.modR_q w rid (fun r => { r with eSched := none }) (fun _ => rfl) (fun _ => rfl))).unrefCheck rid

end Slock.SimTick
