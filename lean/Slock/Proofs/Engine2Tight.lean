import Slock.Proofs.Engine2NzWake
/-! Stage-2 engine: "nothing leaks" for whole operations and for every reachable state: every un-freed lock record is counted at
least once (a record whose count reaches 0 is freed), a hold has its expiry-wheel entry, and a key record that is still linked
has at least one lock record (the key record is reclaimed together with its last lock record). -/
namespace Slock.Engine2
open Slock.Engine (has)

/-- a record edit at one place, justified for the records it applies to -/
theorem Nz.modR_at {w : W} {x : Option Nat} (h : Nz w x) (rid : Nat) (f : Rec → Rec) (hf : ∀ r, (f r).rid = r.rid)
    (hc : w.k.hasRec rid → RecFine (w.k.getR rid) → RecFine (f (w.k.getR rid))) : Nz (w.modR rid f) x := by
  refine ⟨h.nd.modRec rid f hf, ?_⟩
  intro r hr hx
  have : (w.k.modRec rid f).recs = w.k.recs.map (fun y => if y.rid == rid then f y else y) := rfl
  simp only [modR_k, this, List.mem_map] at hr
  obtain ⟨r0, hr0, e⟩ := hr
  split at e
  · rename_i hcnd
    have er : r0.rid = rid := by simpa using hcnd
    have hg : w.k.getR rid = r0 := by rw [← er]; exact mem_eq_getR h.nd.nd hr0
    rw [← e] at hx ⊢; rw [hf] at hx
    have := hc ⟨r0, hr0, er⟩ (by rw [hg]; exact h.nz r0 hr0 hx)
    rw [hg] at this; exact this
  · rw [← e] at hx ⊢; exact h.nz r0 hr0 hx

/-- `AddExpried(rid)` of a hold (an expiry entry that is not a tombstone belongs to a record with depth > 0) -/
theorem Nz.addExpried_hold {w : W} {x : Option Nat} (h : Nz w x) (rid : Nat) (hd : w.k.hasRec rid → 0 < (w.k.getR rid).depth) :
    Nz (w.addExpried rid) x := by
  unfold W.addExpried
  simp only []
  have h1 : Nz (w.schedExpried rid) x := by
    have := h.modR_at rid (Rec.armE (Slock.Engine.wheelAdd w.db.eCheck w.db.seq (w.k.getR rid).expT (w.k.getR rid).eChecked)) (fun _ => rfl)
      (fun hh hf => ⟨hf.pos, fun _ => rfl, fun hx => by simp [Rec.armE] at hx, fun hz => by
        have := hd hh
        simp only [Rec.armE] at hz; omega⟩)
    exact ⟨this.nd, this.nz⟩
  exact h1.of_up (up_when _ _ _ (up_pushLockAofN _ _ _))

theorem Good.of_up {w w' : W} (g : Good w) (l : Lv w' zero) (u : RecsUp w'.k w.k) : Good w' := ⟨l, g.nz.of_up u⟩

theorem Good.reply {w : W} (g : Good w) (c : Cmd) (a b : Nat) (d : Option Bytes) : Good (w.reply c a b d) :=
  g.of_up (g.lv.reply _ _ _ _) (RecsUp.of_eq rfl)
theorem Good.ctr {w : W} (g : Good w) (f : Counters → Counters) : Good (w.ctr f) := g.of_up (g.lv.ctr _) (RecsUp.of_eq rfl)

theorem GoodG.step {w w' : W} (h : GoodG w) (f : Fr w w') (hs : Good w → Good w') : GoodG w' := by
  intro hg
  apply hs; apply h
  cases h0 : w.gone with
  | false => rfl
  | true => rw [f.gone h0] at hg; exact absurd hg (by simp)

theorem SettledG.step_ids {w w' : W} (h : SettledG w) (f : Fr w w') (hi : w'.k.ids = w.k.ids) : SettledG w' :=
  h.of_ids hi (fun hg => by
    cases h0 : w.gone with
    | false => rfl
    | true => rw [f.gone h0] at hg; exact absurd hg (by simp))

theorem SettledG.reply {w : W} (h : SettledG w) (c : Cmd) (a b : Nat) (d : Option Bytes) : SettledG (w.reply c a b d) := h
theorem SettledG.ctr {w : W} (h : SettledG w) (f : Counters → Counters) : SettledG (w.ctr f) := h

theorem GoodG.removeIfZero' {w : W} (h : GoodG w) : GoodG w.removeIfZero ∧ SettledG w.removeIfZero := by
  refine ⟨?_, settled_removeIfZero (fun hg => (h hg).lv.rc)⟩
  intro hg
  rcases removeIfZero_cases w with e | ⟨hg', _⟩
  · rw [e] at hg ⊢; exact h hg
  · rw [hg'] at hg; exact absurd hg (by simp)

theorem Tight.removeIfZero {w : W} (h : GoodG w) (c : CurG w) : Tight w.removeIfZero := by
  obtain ⟨g, s⟩ := GoodG.removeIfZero' h
  exact ⟨g, s, c.of_dk (gone_of_fr (Fr.removeIfZero w)) (dk_removeIfZero w) g⟩

theorem Tight.of_good {w : W} (g : Good w) (s : w.k.recs ≠ []) (c : CurLive w.k) : Tight w := ⟨fun _ => g, fun _ => s, fun _ => c⟩

/-- a step that keeps the records' ids, `currentLock` and every depth -/
theorem Tight.step {w w' : W} (t : Tight w) (f : Fr w w') (hs : Good w → Good w') (hi : w'.k.ids = w.k.ids) (d : DK w' w) : Tight w' := by
  have g := t.good.step f hs
  exact ⟨g, t.set.step_ids f hi, t.cur.of_dk (gone_of_fr f) d g⟩

theorem Tight.reply {w : W} (t : Tight w) (c : Cmd) (a b : Nat) (d : Option Bytes) : Tight (w.reply c a b d) :=
  t.step (Fr.reply _ c a b d) (fun g => g.reply _ _ _ _) rfl (DK.of_k rfl)
theorem Tight.ctr {w : W} (t : Tight w) (f : Counters → Counters) : Tight (w.ctr f) :=
  t.step (FQ.ctr _ f).fr (fun g => g.ctr _) rfl (DK.of_k rfl)

/-- freeing the exempt record, then the reclaim check -/
theorem good_freeCheck_clear {w : W} (l : Lv w zero) (n : Nz w (some rid)) (hz : (w.k.qRefs rid : Int) + zero rid ≤ 0) (c : CurLive w.k) :
    Tight (w.freeCheck rid) := by
  have l1 : Lv (w.modK (·.free rid)) zero := l.modK _ (l.rc.free rid hz) (RecsLe.free _ _)
  have n1 : Nz (w.modK (·.free rid)) none := ⟨n.nd.free rid, NZx.free_clear rid n.nz⟩
  unfold W.freeCheck
  exact Tight.removeIfZero (GoodG.of_good ⟨l1, n1⟩) (fun _ => c.of_dk (dk_modK w _ (DepthKeep.free _ _)) l1)

/-- counters, reply, wake -/
theorem good_finish {w : W} (t : Tight w) (cf : Counters → Counters) (c : Cmd) (a b : Nat) (d : Option Bytes) :
    Tight (((w.ctr cf).reply c a b d).wake) := good_wake ((t.ctr cf).reply c a b d)

/-! ### facts from the classification -/

theorem findHolder_live (k : Key) (lockId h : Nat) (hf : findHolder k lockId = some h) : k.liveHolder h = true := by
  unfold findHolder at hf
  have := List.find?_some hf
  simp only [Bool.and_eq_true] at this
  exact this.1

theorem classifyLock_relock (db : DB) (c : Cmd) (data : Option Bytes) (h : Nat) (hb : classifyLock db c data = .relock h) :
    0 < ((db.getKey c.key).getR h).depth := by
  unfold classifyLock at hb
  simp only [] at hb
  repeat' split at hb
  all_goals (try (simp at hb))
  all_goals (first
    | (have hc : findHolder (db.getKey c.key) c.lockId = some h := by rw [← hb]; assumption
       have := findHolder_live _ _ _ hc
       simpa [Key.liveHolder] using this)
    | skip)

/-- the hold an update replaces the terms of is a hold -/
theorem classifyLock_update_depth (db : DB) (c : Cmd) (data : Option Bytes) (h : Nat) (hb : classifyLock db c data = .update h)
    (hc : ∀ x, (db.getKey c.key).current = some x → 0 < ((db.getKey c.key).getR x).depth) : 0 < ((db.getKey c.key).getR h).depth := by
  have key : ∀ y, findHolder (db.getKey c.key) c.lockId = some y → 0 < ((db.getKey c.key).getR y).depth := by
    intro y hy
    have := findHolder_live _ _ _ hy
    simpa [Key.liveHolder] using this
  unfold classifyLock at hb
  simp only [] at hb
  repeat' split at hb
  all_goals (try (simp at hb))
  all_goals (first
    | (subst hb; apply key; assumption)
    | (subst hb; apply hc; assumption)
    | skip)
  all_goals (
    subst hb; apply hc
    rename_i hq _ _ _
    split at hq
    · exact hq
    · simp at hq)

theorem classifyLock_uwr (db : DB) (c : Cmd) (data : Option Bytes) (hb : classifyLock db c data = .unlockedWaitRefused) :
    (db.getKey c.key).waited = true := by
  unfold classifyLock at hb
  simp only [] at hb
  repeat' split at hb
  all_goals (try (simp at hb))
  all_goals simp_all

theorem classifyUnlock_dec_depth (db : DB) (c c' : Cmd) (h : Nat) (hb : classifyUnlock db c = .dec h c') :
    1 < ((db.getKey c.key).getR h).depth := by
  unfold classifyUnlock at hb
  simp only [] at hb
  repeat' split at hb
  all_goals (try (simp at hb))
  all_goals (first
    | (obtain ⟨h1, _⟩ := hb; subst h1; simp_all; done)
    | skip)

/-! ### update of a hold -/

theorem Nz.updateLocked {w : W} (l : Lv w zero) (n : Nz w none) (rid : Nat) (c : Cmd) (hh : w.k.hasRec rid) (hd : 0 < (w.k.getR rid).depth) :
    Nz (w.updateLocked rid c) none := by
  unfold W.updateLocked
  simp only []
  have hf := updF_fields w.db (!(w.k.getR rid).isAof && w.k.current == some rid && w.k.locks.isEmpty) c
  have hexp : ∀ r, (updF w.db (!(w.k.getR rid).isAof && w.k.current == some rid && w.k.locks.isEmpty) c r).expried = r.expried := by
    intro r; unfold updF; simp only []; split <;> split <;> rfl
  have n1 : Nz (w.modR rid (updF w.db (!(w.k.getR rid).isAof && w.k.current == some rid && w.k.locks.isEmpty) c)) none :=
    n.of_up (RecsUp.modRec _ rid _ (fun r => (hf r).1) (fun r h => ⟨by rw [(hf r).2.1]; exact h.pos,
      by rw [(hf r).2.2.2.2.2, (hf r).2.2.2.1]; exact h.hold, by rw [hexp, (hf r).2.2.2.2.2]; exact h.ended,
      by rw [hexp, (hf r).2.2.2.2.2, (hf r).2.2.2.1]; exact h.fin⟩) (fun r => (hf r).2.2.2.2.2))
  have hh1 : (w.modR rid (updF w.db (!(w.k.getR rid).isAof && w.k.current == some rid && w.k.locks.isEmpty) c)).k.hasRec rid :=
    (hasRec_modR _ rid rid _ (fun r => (hf r).1)).mpr hh
  refine Nz.of_up (w := (w.modR rid (updF w.db (!(w.k.getR rid).isAof && w.k.current == some rid && w.k.locks.isEmpty) c)).when _ _) ?_
    (RecsUp.modRec _ rid (fun r => { r with conn := c.conn }) (by intro _; rfl) (by intro _ h; exact ⟨h.pos, h.hold, h.ended, h.fin⟩))
  unfold W.when
  split
  · -- long-table move: out (exempt: a hold without expiry entry), in again, counted
    have a1 := (n1.weaken (some rid)).removeLongE_ex rid
    obtain ⟨hh2, _, _⟩ := getR_removeLongE _ rid hh1
    have a2 := a1.addExpried_ex rid
    have hh3 := (hasRec_of_ids (ids_addExpried _ rid) rid).mpr hh2
    obtain ⟨e3, x3, d3⟩ := getR_addExpried _ rid hh2
    have d2 : (((w.modR rid (updF w.db (!(w.k.getR rid).isAof && w.k.current == some rid && w.k.locks.isEmpty) c)).removeLongE rid).k.getR rid).depth =
        (w.k.getR rid).depth := by
      rw [(dk_removeLongE _ rid).depth rid hh2]
      exact getR_modRec_proj (·.depth) w.k rid rid _ (fun r => (hf r).1) (fun r => (hf r).2.2.2.2.2)
    have a3 := a2.modR_ex rid (fun r => { r with refCount := r.refCount + 1 }) (fun _ => rfl)
    have g3 := getR_modRec_same _ rid (fun r => { r with refCount := r.refCount + 1 }) (fun _ => rfl) hh3
    exact a3.clear rid (fun _ => by
      show RecFine (((((w.modR rid (updF w.db (!(w.k.getR rid).isAof && w.k.current == some rid && w.k.locks.isEmpty) c)).removeLongE rid).addExpried rid).k.modRec rid
        (fun r => { r with refCount := r.refCount + 1 })).getR rid)
      rw [g3]
      exact ⟨Nat.le_add_left 1 _, fun _ => e3, fun hx => by simp only [] at hx; rw [x3] at hx; exact absurd hx (by simp),
        fun hz => by simp only [] at hz; rw [d3, d2] at hz; omega⟩)
  · exact n1

/-- `AddWaitLock(rid)` changes nothing but the count of `rid`'s record (for a record that is not in the queue yet) -/
theorem proj_addWaitLock {α : Type} (π : Rec → α) (hπ : ∀ r n, π { r with refCount := n } = π r) (k : Key) (rid : Nat) (hh : k.hasRec rid)
    (hn : (k.wait.map (·.rid)).count rid = 0) : π ((k.addWaitLock rid).getR rid) = π (k.getR rid) := by
  unfold Key.addWaitLock
  simp only []
  have step : ∀ k1 : Key, k1.hasRec rid → (k1.wait.map (·.rid)).count rid = 0 → k1.getR rid = k.getR rid →
      π (({ (k1.waitPush ⟨rid, Slock.Engine.cmdPriority (k.getR rid).cmd⟩).modRec rid (fun r => { r with refCount := r.refCount + 1 }) with waited := true } : Key).getR rid) =
        π (k.getR rid) := by
    intro k1 h1 hn1 hg1
    have hp : (k1.waitPush ⟨rid, Slock.Engine.cmdPriority (k.getR rid).cmd⟩).hasRec rid := (hasRec_waitPush _ _ _ hn1).mpr h1
    have hgp : (k1.waitPush ⟨rid, Slock.Engine.cmdPriority (k.getR rid).cmd⟩).getR rid = k1.getR rid := by
      unfold Key.waitPush
      split
      · rfl
      · simp only []
        split
        · rfl
        · split
          · rfl
          · have hnd : rid ∉ (k1.wait.filter (fun y => k1.deadWaiter y.rid)).map (·.rid) := by
              intro hm
              obtain ⟨y, hy, e'⟩ := List.mem_map.mp hm
              have : 0 < (k1.wait.map (·.rid)).count rid := List.count_pos_iff.mpr (List.mem_map.mpr ⟨y, (List.mem_filter.mp hy).1, e'⟩)
              omega
            have hf : ∀ k2 : Key, (List.foldl (fun k y => k.unref y.rid) k2 (k1.wait.filter (fun y => k1.deadWaiter y.rid))).getR rid = k2.getR rid := by
              intro k2
              have : (k1.wait.filter (fun y => k1.deadWaiter y.rid)).foldl (fun k y => k.unref y.rid) k2 =
                  ((k1.wait.filter (fun y => k1.deadWaiter y.rid)).map (·.rid)).foldl (fun k y => k.unref y) k2 := by rw [List.foldl_map]
              rw [this]; exact (keep_foldl_unref _ _ _ hnd).1
            split
            · rw [hf]; rfl
            · rw [hf]; rfl
    have hgm := getR_modRec_same (k1.waitPush ⟨rid, Slock.Engine.cmdPriority (k.getR rid).cmd⟩) rid (fun r => { r with refCount := r.refCount + 1 }) (fun _ => rfl) hp
    show π (((k1.waitPush ⟨rid, Slock.Engine.cmdPriority (k.getR rid).cmd⟩).modRec rid (fun r => { r with refCount := r.refCount + 1 })).getR rid) = _
    rw [hgm, hπ, hgp, hg1]
  split
  · split
    · split
      · refine step _ hh ?_ rfl
        have := qRefs_rePush k rid
        unfold Key.qRefs at this
        have hc : k.rePush.current = k.current := rfl
        have hl : k.rePush.locks = k.locks := rfl
        rw [hc, hl] at this
        omega
      · exact step _ hh hn rfl
    · exact step _ hh hn rfl
  · exact step _ hh hn rfl

theorem ids_when (w : W) (b : Bool) (f : W → W) (hf : ∀ w, (f w).k.ids = w.k.ids) : (w.when b f).k.ids = w.k.ids := by
  cases b
  · rfl
  · exact hf w
theorem ids_journalLock (w : W) (rid flag : Nat) : (w.journalLock rid flag).k.ids = w.k.ids := (up_journalLock w rid flag).ids
theorem ids_journalUnlock (w : W) (rid : Nat) (a b : Bool) (flag : Nat) : (w.journalUnlock rid a b flag).k.ids = w.k.ids :=
  (up_journalUnlock w rid a b flag).ids
theorem ids_procData (w : W) (ct : Slock.Value.CmdType) (c : Cmd) (f : Option Bytes) (rid : Nat) : (w.procData ct c f rid).k.ids = w.k.ids :=
  (up_procData w ct c f rid).ids

theorem ids_removeLongE (w : W) (rid : Nat) : (w.removeLongE rid).k.ids = w.k.ids := by
  unfold W.removeLongE Key.unrefOnly
  exact (ids_modRec _ rid _ (by intro _; rfl)).trans (ids_modRec _ rid _ (by intro _; rfl))
theorem ids_removeLongT (w : W) (rid : Nat) : (w.removeLongT rid).k.ids = w.k.ids := by
  unfold W.removeLongT Key.unrefOnly
  exact (ids_modRec _ rid _ (by intro _; rfl)).trans (ids_modRec _ rid _ (by intro _; rfl))

theorem ids_updateLocked (w : W) (rid : Nat) (c : Cmd) : (w.updateLocked rid c).k.ids = w.k.ids := by
  unfold W.updateLocked
  simp only []
  have hf := updF_fields w.db (!(w.k.getR rid).isAof && w.k.current == some rid && w.k.locks.isEmpty) c
  have h1 : (w.modR rid (updF w.db (!(w.k.getR rid).isAof && w.k.current == some rid && w.k.locks.isEmpty) c)).k.ids = w.k.ids :=
    ids_modRec _ rid _ (fun r => (hf r).1)
  have hm : ∀ w' : W, (w'.modR rid (fun r => { r with conn := c.conn })).k.ids = w'.k.ids := fun w' => ids_modRec _ _ _ (by intro _; rfl)
  rw [hm]
  unfold W.when
  split
  · have hr : ∀ w' : W, (w'.ref rid).k.ids = w'.k.ids := fun w' => ids_modRec _ _ _ (by intro _; rfl)
    rw [hr, ids_addExpried, ids_removeLongE]; exact h1
  · exact h1

theorem getR_modRec_depth (k : Key) (rid y : Nat) (f : Rec → Rec) (hf : ∀ r, (f r).rid = r.rid) (hp : ∀ r, (f r).depth = r.depth) :
    ((k.modRec rid f).getR y).depth = (k.getR y).depth := getR_modRec_proj (·.depth) k rid y f hf hp
theorem getR_modRec_tSome (k : Key) (rid y : Nat) (f : Rec → Rec) (hf : ∀ r, (f r).rid = r.rid) (hp : ∀ r, (f r).tSched.isSome = r.tSched.isSome) :
    ((k.modRec rid f).getR y).tSched.isSome = (k.getR y).tSched.isSome := getR_modRec_proj (·.tSched.isSome) k rid y f hf hp
theorem getR_modRec_eSome (k : Key) (rid y : Nat) (f : Rec → Rec) (hf : ∀ r, (f r).rid = r.rid) (hp : ∀ r, (f r).eSched.isSome = r.eSched.isSome) :
    ((k.modRec rid f).getR y).eSched.isSome = (k.getR y).eSched.isSome := getR_modRec_proj (·.eSched.isSome) k rid y f hf hp
theorem getR_modRec_expried (k : Key) (rid y : Nat) (f : Rec → Rec) (hf : ∀ r, (f r).rid = r.rid) (hp : ∀ r, (f r).expried = r.expried) :
    ((k.modRec rid f).getR y).expried = (k.getR y).expried := getR_modRec_proj (·.expried) k rid y f hf hp

/-! ### LOCK -/

def KeyTight (k : Key) : Prop := NZx k none ∧ k.recs ≠ [] ∧ CurLive k

theorem curLive_newKey (n : Nat) : CurLive (newKey n) := by intro c hc; simp [newKey] at hc

theorem cur_getKey {db : DB} (ht : ∀ k ∈ db.keys, KeyTight k) (n : Nat) : CurLive (db.getKey n) := by
  cases hh : db.hasKey n with
  | true => exact (ht _ (getKey_mem db n hh)).2.2
  | false => rw [getKey_of_not_hasKey db n hh]; exact curLive_newKey n

theorem cur_enter {db : DB} (ht : ∀ k ∈ db.keys, KeyTight k) (n : Nat) : CurLive (db.enter n).k := by rw [enter_k]; exact cur_getKey ht n
theorem cur_openKey {db : DB} (ht : ∀ k ∈ db.keys, KeyTight k) (n : Nat) : CurLive (db.openKey n).k := cur_getKey ht n

theorem Good.enter {db : DB} (hdb : DBI db) (ht : ∀ k ∈ db.keys, KeyTight k) (n : Nat) : Good (db.enter n) := by
  have l := Lv.enter hdb n
  refine ⟨l, ⟨l.rc.nodup⟩, ?_⟩
  rw [enter_k]
  cases hh : db.hasKey n with
  | true => exact (ht _ (getKey_mem db n hh)).1
  | false => rw [getKey_of_not_hasKey db n hh]; intro r hr; simp [newKey] at hr

theorem Good.openKey {db : DB} (hdb : DBI db) (ht : ∀ k ∈ db.keys, KeyTight k) (n : Nat) : Good (db.openKey n) := by
  have l := Lv.openKey hdb n
  refine ⟨l, ⟨l.rc.nodup⟩, ?_⟩
  show NZx (db.getKey n) none
  cases hh : db.hasKey n with
  | true => exact (ht _ (getKey_mem db n hh)).1
  | false => rw [getKey_of_not_hasKey db n hh]; intro r hr; simp [newKey] at hr

theorem settled_openKey {db : DB} (ht : ∀ k ∈ db.keys, KeyTight k) (n : Nat) : SettledG (db.openKey n) := by
  intro hg
  have hh : db.hasKey n = true := by simpa [DB.openKey] using hg
  exact (ht _ (getKey_mem db n hh)).2.1

theorem tight_openKey {db : DB} (hdb : DBI db) (ht : ∀ k ∈ db.keys, KeyTight k) (n : Nat) : Tight (db.openKey n) :=
  ⟨fun _ => Good.openKey hdb ht n, settled_openKey ht n, fun _ => cur_openKey ht n⟩

theorem settled_enter_of_hasKey {db : DB} (ht : ∀ k ∈ db.keys, KeyTight k) (n : Nat) (hh : db.hasKey n = true) : SettledG (db.enter n) := by
  intro _; rw [enter_k]; exact (ht _ (getKey_mem db n hh)).2.1

theorem hasKey_of_waited {db : DB} (n : Nat) (h : (db.getKey n).waited = true) : db.hasKey n = true := by
  cases hh : db.hasKey n with
  | true => rfl
  | false => rw [getKey_of_not_hasKey db n hh] at h; simp [newKey] at h

end Slock.Engine2
