import Slock.Proofs.ConnInv
/-! Every event of M-CONN preserves `Good` (while alive) and `Safe` (always). -/
namespace Slock.Conn

/-! ### Close -/
def closeState (s : Server) (c : Nat) (x : Conn) : Server :=
  { s with conns := (s.conns.map (unadopt c)).set c (closing x), clients := unregister s c x }

theorem drainK_nonfatal_toks (s₁ : Server) (c : Nat) (x : Conn) (h : (drainK s₁ c x).2 = none) :
    (drainK s₁ c x).1.map (·.tok) = x.wills.map (·.tok) := by
  unfold drainK at h ⊢
  cases hk : x.kind <;> simp only [hk] at h ⊢
  · exact drain_nonfatal_toks s₁ c x.wills h
  · exact drainT_toks x.wills

theorem drainK_prefix (s₁ : Server) (c : Nat) (x : Conn) :
    ∃ rest, x.wills.map (·.tok) = (drainK s₁ c x).1.map (·.tok) ++ rest := by
  unfold drainK
  cases hk : x.kind <;> simp only []
  · exact drain_toks_prefix s₁ c x.wills
  · exact ⟨[], by simp [drainT_toks]⟩

theorem doClose_none (s : Server) (c : Nat) (x : Conn) (h : (drainK (closeState s c x) c x).2 = none) :
    doClose s c x =
      ({ conns := ((s.conns.map (unadopt c)).set c (closing x)).set c { closing x with inited := false },
         clients := unregister s c x,
         owner := putOwners s.owner c ((drainK (closeState s c x) c x).1.map (·.tok)),
         willLog := s.willLog ++ ((drainK (closeState s c x) c x).1.map (·.tok)).map (fun t => (c, t)),
         dead := none },
       (drainK (closeState s c x) c x).1, none) := by
  unfold doClose
  unfold closeState at h ⊢
  simp only []
  split
  · rename_i f hf; rw [h] at hf; cases hf
  · simp only [h]

theorem doClose_some (s : Server) (c : Nat) (x : Conn) (f : Fatal) (h : (drainK (closeState s c x) c x).2 = some f) :
    doClose s c x =
      ({ conns := (s.conns.map (unadopt c)).set c (closing x),
         clients := unregister s c x,
         owner := putOwners s.owner c ((drainK (closeState s c x) c x).1.map (·.tok)),
         willLog := s.willLog ++ ((drainK (closeState s c x) c x).1.map (·.tok)).map (fun t => (c, t)),
         dead := some f },
       (drainK (closeState s c x) c x).1, some f) := by
  unfold doClose
  unfold closeState at h ⊢
  simp only []
  split
  · simp only [h]
  · rename_i hf; rw [h] at hf; cases hf

theorem unadopt_closed (c : Nat) (y : Conn) : (unadopt c y).closed = y.closed := by unfold unadopt; split <;> rfl
theorem unadopt_inited (c : Nat) (y : Conn) : (unadopt c y).inited = y.inited := by unfold unadopt; split <;> rfl
theorem unadopt_cid (c : Nat) (y : Conn) : (unadopt c y).cid = y.cid := by unfold unadopt; split <;> rfl
theorem unadopt_kind (c : Nat) (y : Conn) : (unadopt c y).kind = y.kind := by unfold unadopt; split <;> rfl
theorem unadopt_wills (c : Nat) (y : Conn) : (unadopt c y).wills = y.wills := by unfold unadopt; split <;> rfl
theorem unadopt_reg (c : Nat) (y : Conn) : (unadopt c y).reg = y.reg := by unfold unadopt; split <;> rfl
theorem unadopt_announced (c : Nat) (y : Conn) : (unadopt c y).announced = y.announced := by unfold unadopt; split <;> rfl
theorem unadopt_target (c : Nat) (y : Conn) :
    (y.target = .conn c ∧ (unadopt c y).target = .default) ∨ (y.target ≠ .conn c ∧ (unadopt c y).target = y.target) := by
  unfold unadopt; split
  · rename_i h; exact .inl ⟨h, rfl⟩
  · rename_i h; exact .inr ⟨h, rfl⟩

/-- lookup in the connection table after `Close` of `c` finished -/
theorem closed_get_self {s : Server} {c : Nat} {x : Conn} (hx : s.conns[c]? = some x) (xf : Conn) :
    (((s.conns.map (unadopt c)).set c (closing x)).set c xf)[c]? = some xf := by
  apply List.getElem?_set_self
  simp [lt_of_get hx]

theorem closed_get_ne {s : Server} {c j : Nat} (x xf : Conn) (h : j ≠ c) :
    (((s.conns.map (unadopt c)).set c (closing x)).set c xf)[j]? = (s.conns[j]?).map (unadopt c) := by
  rw [get_set_ne h, get_set_ne h, List.getElem?_map]

theorem closed1_get_self {s : Server} {c : Nat} {x : Conn} (hx : s.conns[c]? = some x) :
    ((s.conns.map (unadopt c)).set c (closing x))[c]? = some (closing x) := by
  apply List.getElem?_set_self
  simp [lt_of_get hx]

theorem closed1_get_ne {s : Server} {c j : Nat} (x : Conn) (h : j ≠ c) :
    ((s.conns.map (unadopt c)).set c (closing x))[j]? = (s.conns[j]?).map (unadopt c) := by
  rw [get_set_ne h, List.getElem?_map]

theorem unregister_some {s : Server} (hg : Good s) {c : Nat} {x : Conn} (hx : s.conns[c]? = some x) (k d : Nat)
    (h : aget (unregister s c x) k = some d) : aget s.clients k = some d ∧ d ≠ c := by
  unfold unregister at h
  have hk' : aget s.clients k = some d ∧ ¬ (x.kind = .binary ∧ x.inited = true ∧ aget s.clients x.cid = some c ∧ k = x.cid) := by
    split at h
    · obtain ⟨h1, h2⟩ := aget_adel_some _ _ _ _ h
      exact ⟨h1, fun hh => h2 hh.2.2.2⟩
    · rename_i hc
      exact ⟨h, fun hh => hc ⟨hh.1, hh.2.1, hh.2.2.1⟩⟩
  refine ⟨hk'.1, ?_⟩
  obtain ⟨z, hz, _, b, e1, _, g⟩ := hg.clientsOk k d hk'.1
  intro e'; subst e'
  rw [hx] at hz; cases hz
  exact hk'.2 ⟨g, b, by rw [e1]; exact hk'.1, e1.symm⟩

theorem good_doClose {s : Server} (hg : Good s) (hs : Safe s) {c : Nat} {x : Conn} (hx : s.conns[c]? = some x)
    (ho : x.closed = false) (hn : (doClose s c x).2.2 = none) : Good (doClose s c x).1 := by
  have hd : (drainK (closeState s c x) c x).2 = none := by
    cases h : (drainK (closeState s c x) c x).2 with
    | none => rfl
    | some f => rw [doClose_some s c x f h] at hn; cases hn
  rw [doClose_none s c x hd]
  have htoks := drainK_nonfatal_toks _ c x hd
  generalize (drainK (closeState s c x) c x).1.map (·.tok) = toks at htoks
  have lkc := closed_get_self hx { closing x with inited := false }
  constructor
  · intro j y hj hcl
    dsimp only at hj
    by_cases e : j = c
    · subst e; rw [lkc] at hj; cases hj
      exact ⟨rfl, by simp [closing], rfl⟩
    · rw [closed_get_ne x _ e] at hj
      cases h0 : s.conns[j]? with
      | none => rw [h0] at hj; cases hj
      | some y0 =>
        rw [h0] at hj; simp only [Option.map] at hj; cases hj
        rw [unadopt_closed] at hcl
        obtain ⟨a, b, d⟩ := hg.closedShape j y0 h0 hcl
        refine ⟨by rw [unadopt_inited]; exact a, ?_, by rw [unadopt_wills]; exact d⟩
        rcases unadopt_target c y0 with ⟨_, h2⟩ | ⟨_, h2⟩
        · rw [h2]; simp
        · rw [h2]; exact b
  · intro j y hj hop
    dsimp only at hj
    by_cases e : j = c
    · subst e; rw [lkc] at hj; cases hj; simp [closing] at hop
    · rw [closed_get_ne x _ e] at hj
      cases h0 : s.conns[j]? with
      | none => rw [h0] at hj; cases hj
      | some y0 =>
        rw [h0] at hj; simp only [Option.map] at hj; cases hj
        rw [unadopt_closed] at hop
        have := hg.openShape j y0 h0 hop
        rcases unadopt_target c y0 with ⟨h1, _⟩ | ⟨_, h2⟩
        · rw [this] at h1; cases h1
        · rw [h2]; exact this
  · intro j y d hj ht
    dsimp only at hj
    by_cases e : j = c
    · subst e; rw [lkc] at hj; cases hj; simp [closing] at ht
    · rw [closed_get_ne x _ e] at hj
      cases h0 : s.conns[j]? with
      | none => rw [h0] at hj; cases hj
      | some y0 =>
        rw [h0] at hj; simp only [Option.map] at hj; cases hj
        rcases unadopt_target c y0 with ⟨_, h2⟩ | ⟨h1, h2⟩
        · rw [h2] at ht; cases ht
        · rw [h2] at ht
          have hdc : d ≠ c := fun e' => h1 (e' ▸ ht)
          obtain ⟨hnz, z, hz, hzo, hza⟩ := hg.adopted j y0 d h0 ht
          refine ⟨by rw [unadopt_cid]; exact hnz, unadopt c z, ?_, by rw [unadopt_closed]; exact hzo,
            by rw [unadopt_cid, unadopt_announced]; exact hza⟩
          dsimp only
          rw [closed_get_ne x _ hdc, hz]; rfl
  · intro k d hk
    dsimp only at hk
    obtain ⟨hk1, hdc⟩ := unregister_some hg hx k d hk
    obtain ⟨z, hz, a, b, e1, f, g⟩ := hg.clientsOk k d hk1
    refine ⟨unadopt c z, ?_, by rw [unadopt_closed]; exact a, by rw [unadopt_inited]; exact b, by rw [unadopt_cid]; exact e1,
      by rw [unadopt_announced]; exact f, by rw [unadopt_kind]; exact g⟩
    dsimp only
    rw [closed_get_ne x _ hdc, hz]; rfl
  · intro j y hj hop
    dsimp only at hj
    by_cases e : j = c
    · subst e; rw [lkc] at hj; cases hj; simp [closing] at hop
    · rw [closed_get_ne x _ e] at hj
      cases h0 : s.conns[j]? with
      | none => rw [h0] at hj; cases hj
      | some y0 =>
        rw [h0] at hj; simp only [Option.map] at hj; cases hj
        rw [unadopt_closed] at hop
        rw [unadopt_reg, unadopt_wills]; exact hg.willsOpen j y0 h0 hop
  · intro j y hj hcl
    dsimp only at hj
    show execL (s.willLog ++ toks.map (fun t => (c, t))) j = y.reg
    rw [execL_append]
    by_cases e : j = c
    · subst e; rw [lkc] at hj; cases hj
      rw [execL_same]
      have h1 : execL s.willLog j = [] := hs.execOpen j x hx ho
      rw [h1, htoks]
      simp only [closing, List.nil_append]
      exact (hg.willsOpen j x hx ho).symm
    · rw [closed_get_ne x _ e] at hj
      cases h0 : s.conns[j]? with
      | none => rw [h0] at hj; cases hj
      | some y0 =>
        rw [h0] at hj; simp only [Option.map] at hj; cases hj
        rw [execL_other c j e, List.append_nil, unadopt_reg]
        rw [unadopt_closed] at hcl
        exact hg.willsClosed j y0 h0 hcl
  · intro j y hj hh
    dsimp only at hj
    by_cases e : j = c
    · subst e; rw [lkc] at hj; cases hj
      have : x.cid ≠ 0 := by
        rcases hh with hh | hh
        · exact hh
        · cases hh
      exact hg.announcedOwn j x hx (.inl this)
    · rw [closed_get_ne x _ e] at hj
      cases h0 : s.conns[j]? with
      | none => rw [h0] at hj; cases hj
      | some y0 =>
        rw [h0] at hj; simp only [Option.map] at hj; cases hj
        rw [unadopt_cid, unadopt_announced]
        rw [unadopt_cid, unadopt_inited] at hh
        exact hg.announcedOwn j y0 h0 hh

/-- `Safe` survives `Close` whether or not it is fatal -/
theorem safe_doClose {s : Server} (hs : Safe s) {c : Nat} {x : Conn} (hx : s.conns[c]? = some x) :
    Safe (doClose s c x).1 := by
  have hlen : c < s.conns.length := lt_of_get hx
  have key : ∀ (conns' : List Conn) (cl' ow' : List (Nat × Nat)) (dd : Option Fatal) (toks : List Nat),
      conns'.length = s.conns.length →
      (∀ xc, conns'[c]? = some xc → xc.closed = true) →
      (∀ j, j ≠ c → conns'[j]? = (s.conns[j]?).map (unadopt c)) →
      Safe { conns := conns', clients := cl', owner := ow', willLog := s.willLog ++ toks.map (fun t => (c, t)), dead := dd } := by
    intro conns' cl' ow' dd toks hl hc hne
    constructor
    · intro e he
      dsimp only at he ⊢
      rw [hl]
      rcases List.mem_append.mp he with h | h
      · exact hs.engRange e h
      · obtain ⟨t, _, rfl⟩ := List.mem_map.mp h
        exact hlen
    · intro j y hj hop
      dsimp only at hj
      show execL (s.willLog ++ toks.map (fun t => (c, t))) j = []
      by_cases e : j = c
      · subst e; have := hc y hj; rw [this] at hop; cases hop
      · rw [hne j e] at hj
        cases h0 : s.conns[j]? with
        | none => rw [h0] at hj; cases hj
        | some y0 =>
          rw [h0] at hj; simp only [Option.map] at hj; cases hj
          rw [unadopt_closed] at hop
          rw [execL_append, execL_other c j e, List.append_nil]
          exact hs.execOpen j y0 h0 hop
  cases hd : (drainK (closeState s c x) c x).2 with
  | none =>
    rw [doClose_none s c x hd]
    refine key _ _ _ _ _ (by simp) ?_ ?_
    · intro xc hxc
      rw [closed_get_self hx] at hxc; cases hxc
      rfl
    · intro j e; exact closed_get_ne x _ e
  | some f =>
    rw [doClose_some s c x f hd]
    refine key _ _ _ _ _ (by simp) ?_ ?_
    · intro xc hxc
      rw [closed1_get_self hx] at hxc; cases hxc
      rfl
    · intro j e; exact closed1_get_ne x e

/-! ### `Close` cannot be fatal any more -/
theorem recvN_open_to (s : Server) (n d tok : Nat) (y : Conn) (hy : s.conns[d]? = some y) (ho : y.closed = false) :
    recvN s (n + 1) d tok ≠ .loop := by
  unfold recvN
  simp only [hy]
  cases hk : y.kind
  · simp [ho]; split <;> simp
  · simp only []
    split
    · simp
    · simp [ho]; split <;> simp

theorem drain_alive (s₁ : Server) (c : Nat) (ws : List Will) (h : ∀ tok, recv s₁ c tok ≠ .loop) : (drain s₁ c ws).2 = none := by
  induction ws with
  | nil => rfl
  | cons w ws ih =>
    unfold drain
    by_cases hi : (w.imm || w.self) = true
    · simp only [hi, if_true]
      split
      · rename_i hl; exact absurd hl (h w.tok)
      · exact ih
    · simp only [hi]; exact ih

theorem doClose_alive {s : Server} (hg : Good s) {c : Nat} {x : Conn} (hx : s.conns[c]? = some x) :
    (doClose s c x).2.2 = none := by
  have hd : (drainK (closeState s c x) c x).2 = none := by
    unfold drainK
    cases hk : x.kind
    case text => rfl
    case binary =>
      simp only []
      apply drain_alive
      intro tok
      have hc1 : (closeState s c x).conns[c]? = some (closing x) := closed1_get_self hx
      unfold recv recvN
      simp only [hc1]
      have hkk : (closing x).kind = .binary := by simp [closing, hk]
      simp only [hkk]
      have hcl : (closing x).closed = true := rfl
      simp only [hcl, Bool.not_true, Bool.false_eq_true, if_false]
      cases hi : (closing x).inited with
      | false => simp
      | true =>
        simp only [Bool.not_true, Bool.false_eq_true, if_false]
        cases hl : aget (closeState s c x).clients (closing x).cid with
        | none => simp
        | some e =>
          simp only []
          have hl' : aget (unregister s c x) x.cid = some e := hl
          obtain ⟨h1, hec⟩ := unregister_some hg hx _ _ hl'
          obtain ⟨y, hy, hyo, _⟩ := hg.clientsOk x.cid e h1
          have hy1 : (closeState s c x).conns[e]? = some (unadopt c y) := by
            show ((s.conns.map (unadopt c)).set c (closing x))[e]? = _
            rw [closed1_get_ne x hec, hy]; rfl
          have hlen : (closeState s c x).conns.length = (s.conns.length - 1) + 1 := by
            show ((s.conns.map (unadopt c)).set c (closing x)).length = _
            have := lt_of_get hx
            simp; omega
          rw [hlen]
          exact recvN_open_to _ _ e tok (unadopt c y) hy1 (by rw [unadopt_closed]; exact hyo)
  rw [doClose_none s c x hd]

end Slock.Conn
