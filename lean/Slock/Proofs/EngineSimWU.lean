import Slock.Proofs.ClientQueue
/-! Stage 1: the live queued requests of a key carry pairwise distinct (RequestId, connection) pairs, in every state reached by LOCK /
UNLOCK operations whose queued LOCKs are `Fresh` (new file; the stage-1 proof files are not edited). -/
namespace Slock.Engine

/-- what `removeWaiter` identifies a queued request by -/
def rcW (w : Waiter) : Nat × Nat := (w.cmd.req, w.conn)

def WU (db : DB) : Prop := ∀ k ∈ db.keys, (k.waiters.map rcW).Nodup

theorem WU.init (n : Nat) : WU (DB.init n) := by intro k hk; simp [DB.init] at hk

theorem getKey_wu {db : DB} (h : WU db) (n : Nat) : ((db.getKey n).waiters.map rcW).Nodup := by
  unfold DB.getKey
  cases hf : db.keys.find? (·.key == n) with
  | none => simp [emptyKey]
  | some k => exact h k (List.mem_of_find?_eq_some hf)

theorem setKey_wu {db : DB} (h : WU db) {k : Key} (hk : (k.waiters.map rcW).Nodup) : WU (db.setKey k) := by
  unfold DB.setKey
  intro x hx
  simp only [] at hx
  split at hx
  · exact h x (List.mem_filter.mp hx).1
  · rcases List.mem_append.mp hx with h1 | h1
    · exact h x (List.mem_filter.mp h1).1
    · simp at h1; rw [h1]; exact hk

theorem WU.of_keys_eq {db db' : DB} (h : WU db) (e : db'.keys = db.keys) : WU db' := by
  intro k hk; rw [e] at hk; exact h k hk

theorem wakePass_sub (fuel : Nat) (db : DB) (k : Key) (out : List Reply) : (wakePass fuel db k out).2.1.waiters.Sublist k.waiters := by
  induction fuel generalizing db k out with
  | zero => unfold wakePass; split <;> exact List.Sublist.refl _
  | succ n ih =>
    unfold wakePass
    split
    · exact List.Sublist.refl _
    · cases hw : wakeIter db k with
      | none => simp only []; split <;> exact List.Sublist.refl _
      | some t =>
        obtain ⟨db', k', r⟩ := t
        simp only []
        obtain ⟨w, rest, e1, e2, _⟩ := wakeIter_head hw
        refine (ih db' k' _).trans ?_
        rw [e2, e1]; exact List.sublist_cons_self _ _

theorem wake_sub (db : DB) (k : Key) (out : List Reply) : (wake db k out).2.1.waiters.Sublist k.waiters := wakePass_sub _ db k out

theorem wake_setKey_wu {db0 db : DB} {k : Key} (out : List Reply) (h0 : WU db0) (e : db.keys = db0.keys)
    (hk : (k.waiters.map rcW).Nodup) : WU ((wake db k out).1.setKey (wake db k out).2.1) :=
  setKey_wu (h0.of_keys_eq (by rw [wake_keys, e])) ((List.Sublist.map _ (wake_sub db k out)).nodup hk)

theorem insertWaiter_wu (ws : List Waiter) (w : Waiter) (h : (ws.map rcW).Nodup) (hn : rcW w ∉ ws.map rcW) : ((insertWaiter ws w).map rcW).Nodup := by
  induction ws with
  | nil => simp [insertWaiter]
  | cons a as ih =>
    simp only [List.map_cons, List.nodup_cons] at h
    unfold insertWaiter
    split
    · simp only [List.map_cons, List.nodup_cons]
      exact ⟨by simpa using hn, h⟩
    · simp only [List.map_cons, List.nodup_cons]
      refine ⟨?_, ih h.2 (fun hm => hn (by simp [hm]))⟩
      intro hm
      obtain ⟨x, hx, e⟩ := List.mem_map.mp hm
      rcases mem_insertWaiter hx with h1 | h1
      · apply hn; rw [h1] at e; rw [e]; simp
      · exact h.1 (e ▸ List.mem_map.mpr ⟨x, h1, rfl⟩)

/-- the LOCK command's id is not borne by a request queued under ITS key -/
def FreshK (db : DB) (c : Cmd) : Prop := ∀ w ∈ (db.getKey c.key).waiters, ¬ (w.cmd.req = c.req ∧ w.conn = c.conn)

theorem opLock_wu (db : DB) (c : Cmd) (hf : FreshK db c) (h : WU db) : WU (opLock db c).1 := by
  unfold opLock
  have hk := getKey_wu h c.key
  cases hb : classifyLock db c with
  | p0a | p0b | stateError | unlockedWaitRefused | timeout => exact h
  | «show» cur | updateEqual h' | relockNoHold h' | relockRefused h' => exact h
  | update h' =>
    simp only [applyLock]
    exact wake_setKey_wu _ h (updateHold_db_keys _ _ _) hk
  | relock h' =>
    simp only [applyLock]
    exact wake_setKey_wu _ h (by simp [updateHold_db_keys]) hk
  | grant =>
    simp only [applyLock]
    have hg : ((grantHold db (db.getKey c.key) c).2.waiters.map rcW).Nodup := by rw [grantHold_waiters_eq]; exact hk
    split
    · exact wake_setKey_wu _ h (grantHold_db_keys _ _ _) hg
    · exact setKey_wu (h.of_keys_eq (grantHold_db_keys db (db.getKey c.key) c)) hg
  | grantNoHold =>
    simp only [applyLock]
    split
    · exact wake_setKey_wu _ h rfl hk
    · exact setKey_wu (h.of_keys_eq rfl) hk
  | queue =>
    simp only [applyLock]
    refine setKey_wu (h.of_keys_eq rfl) (insertWaiter_wu _ _ hk ?_)
    intro hm
    obtain ⟨x, hx, e⟩ := List.mem_map.mp hm
    have := hf x hx
    unfold rcW at e
    simp only [Prod.mk.injEq] at e
    exact this e

theorem opUnlock_wu (db : DB) (c : Cmd) (h : WU db) : WU (opUnlock db c).1 := by
  unfold opUnlock
  have hk := getKey_wu h c.key
  cases hb : classifyUnlock db c with
  | stateError | notLocked | unown | cancelNone => exact h.of_keys_eq rfl
  | cancel w =>
    simp only [applyUnlock]
    exact wake_setKey_wu _ h rfl ((List.Sublist.map _ (removeWaiter_sublist _ _)).nodup hk)
  | dec h' c' =>
    simp only [applyUnlock]
    exact wake_setKey_wu _ h rfl hk
  | release h' c' =>
    simp only [applyUnlock]
    exact wake_setKey_wu _ h rfl hk

end Slock.Engine
