import Slock.Proofs.Engine2SimInvTick
/-! Simulation stage 2 → stage 1: `KI` is an invariant of every reachable state (`run_dbk`). -/
namespace Slock.Sim
open Slock Slock.Engine2
open Slock.Engine (has)

/-- every key record satisfies `KI` at the database's sequence counter -/
def DBK (s : DB) : Prop := ∀ k ∈ s.keys, KI s.seq k

theorem DBK.init (now aofTime : Nat) : DBK (DB.init now aofTime) := by intro k hk; simp [DB.init] at hk

theorem DBK.getKey {s : DB} (h : DBK s) (n : Nat) : KI s.seq (s.getKey n) := by
  cases hh : s.hasKey n with
  | true => exact h _ (getKey_mem s n hh)
  | false => rw [getKey_of_not_hasKey s n hh]; exact KI.newKey _ _

theorem commit_seq (w : W) : w.commit.seq = w.db.seq := by
  unfold W.commit
  split
  · rfl
  · exact (setKey_fields w.db w.k).2.2.2.2.2.2.1

/-- the common end: store the key record -/
theorem DBK.commit {s : DB} (h : DBK s) (w0 w : W) (f : Fr w0 w) (hs0 : w0.db.seq = s.seq)
    (ho0 : ∀ k ∈ w0.db.keys, k.key ≠ w0.k.key → KI s.seq k) (hs : DBside w) (hw : WI w) : DBK w.commit := by
  intro k hk
  rw [commit_seq]
  have hle : s.seq ≤ w.db.seq := by rw [← hs0]; exact f.seq
  exact commit_p (P := KI w.db.seq) hs (fun k hk hne => (others_of_fr ho0 f k hk hne).mono hle) (fun _ => hw) k hk

theorem opLock_dbk (s : DB) (hq : DBQ s) (h : DBK s) (c : Engine.Cmd) (data : Option Bytes) : DBK (opLock s c data).1 := by
  unfold opLock
  simp only []
  have hdbi := hq.dbt.dbi
  have f := applyLock_fr s c data (classifyLock s c data)
  have hs := (DBside.lockBase hdbi c (classifyLock s c data)).of_fr f
  have hw := applyLock_wi s hdbi hq.dbt.tight c (h.getKey c.key) data (classifyLock s c data) (fun x hx => classifyLock_holder s c data x hx)
    (fun x hx => classifyLock_relock s c data x hx) (fun x hx => classifyLock_update_depth s c data x hx (cur_getKey hq.dbt.tight c.key))
  refine h.commit _ _ f ?_ (others_lockBase_p h c (classifyLock s c data)) hs hw
  cases classifyLock s c data <;> first | rfl | exact (enter_fields s c.key).2.2.2.2.1

theorem opUnlock_dbk (s : DB) (hq : DBQ s) (h : DBK s) (c : Engine.Cmd) (data : Option Bytes) : DBK (opUnlock s c data).1 := by
  unfold opUnlock
  simp only []
  have hdbi := hq.dbt.dbi
  have f := applyUnlock_fr s c data (classifyUnlock s c)
  have hs := (hdbi.openKey c.key).of_fr f
  have hw := applyUnlock_wi s hdbi hq.dbt.tight c (h.getKey c.key) data (classifyUnlock s c) (fun x hx => classifyUnlock_holder s c x hx)
    (fun x hx => classifyUnlock_cancel s c x hx) (fun x c' hx => classifyUnlock_dec_depth s c c' x hx)
    (fun x c' hx => classifyUnlock_release_depth s c c' x hx (cur_getKey hq.dbt.tight c.key))
  exact h.commit (s.openKey c.key) _ f rfl (fun k hk _ => h k hk) hs hw

/-- a step of a sweep on the key record `key` -/
theorem DBK.stepW {s : DB} (hq : DBQ s) (h : DBK s) (key : Nat) (w' : W) (f : Fr (s.openKey key) w')
    (hstep : Good (s.openKey key) → CurLive (s.openKey key).k → (s.openKey key).gone = false → WI (s.openKey key) → WI w')
    (hgone : (s.openKey key).gone = true → WI w') : DBK w'.commit := by
  have hw0 : WI (s.openKey key) := WI.openKey s key (h.getKey key)
  have hw : WI w' := by
    cases hg : (s.openKey key).gone with
    | true => exact hgone hg
    | false => exact hstep (Good.openKey hq.dbt.dbi hq.dbt.tight key) (cur_openKey hq.dbt.tight key) hg hw0
  exact h.commit (s.openKey key) _ f rfl (fun k hk _ => h k hk) ((hq.dbt.dbi.openKey key).of_fr f) hw

theorem hasT_nil {k : Key} (h : k.recs = []) (rid : Nat) : k.hasT rid = false := by unfold Key.hasT; rw [h]; rfl
theorem hasE_nil {k : Key} (h : k.recs = []) (rid : Nat) : k.hasE rid = false := by unfold Key.hasE; rw [h]; rfl

theorem openKey_gone_recs (s : DB) (key : Nat) (hg : (s.openKey key).gone = true) : (s.openKey key).k.recs = [] := by
  have hk : s.hasKey key = false := by simpa [DB.openKey] using hg
  show (s.getKey key).recs = []
  rw [getKey_of_not_hasKey s key hk]; rfl

theorem timeoutStep_dbk (slot : Bool) (acc : DB × List Ent) (e : Ent) (hq : DBQ acc.1) (h : DBK acc.1) : DBK (timeoutStep slot acc e).1 := by
  unfold timeoutStep
  split
  · rename_i w hw
    have f := W.visitTimeout_fr _ _ _ _ hw
    refine DBK.stepW hq h e.key w f (fun _ _ _ h0 => visitTimeout_wi h0 slot e.rid w hw) (fun hg => ?_)
    exact visitTimeout_wi (WI.openKey _ e.key (h.getKey e.key)) slot e.rid w hw
  · cases slot
    · simp only [Bool.false_eq_true, if_false]
      exact DBK.stepW hq h e.key _ (W.collectT_fr _ _) (fun _ _ _ h0 => collectT_wi h0 e.rid)
        (fun _ => collectT_wi (WI.openKey _ e.key (h.getKey e.key)) e.rid)
    · exact h

theorem expireStep_dbk (slot : Bool) (acc : DB × List Ent) (e : Ent) (hq : DBQ acc.1) (h : DBK acc.1) : DBK (expireStep slot acc e).1 := by
  unfold expireStep
  split
  · rename_i w hw
    have f := W.visitExpire_fr _ _ _ _ hw
    exact DBK.stepW hq h e.key w f (fun _ _ _ h0 => visitExpire_wi h0 slot e.rid w hw)
      (fun _ => visitExpire_wi (WI.openKey _ e.key (h.getKey e.key)) slot e.rid w hw)
  · exact h

theorem fireTimeoutStep_dbk (acc : DB × List Reply) (e : Ent) (hq : DBQ acc.1) (h : DBK acc.1) : DBK (fireTimeoutStep acc e).1 := by
  unfold fireTimeoutStep fireTimeout
  refine DBK.stepW hq h e.key _ (W.fireTimeout_fr _ _) (fun g cl hg h0 => fireTimeout_wi h0 g cl hg e.rid) (fun hg => ?_)
  have : (acc.1.openKey e.key).fireTimeout e.rid = (acc.1.openKey e.key).wheelBroken := by
    unfold W.fireTimeout
    simp only [hasT_nil (openKey_gone_recs _ _ hg), Bool.not_false, if_true]
  rw [this]
  exact WI.openKey _ e.key (h.getKey e.key)

theorem fireExpireStep_dbk (acc : DB × List Reply) (e : Ent) (hq : DBQ acc.1) (h : DBK acc.1) : DBK (fireExpireStep acc e).1 := by
  unfold fireExpireStep fireExpire
  refine DBK.stepW hq h e.key _ (W.fireExpire_fr _ _) (fun g cl hg h0 => fireExpire_wi h0 g cl hg e.rid) (fun hg => ?_)
  have : (acc.1.openKey e.key).fireExpire e.rid = (acc.1.openKey e.key).wheelBroken := by
    unfold W.fireExpire
    simp only [hasE_nil (openKey_gone_recs _ _ hg), Bool.not_false, if_true]
  rw [this]
  exact WI.openKey _ e.key (h.getKey e.key)

/-- `DBQ` and `DBK` together through a fold -/
theorem foldl_qk {α β} (f : DB × β → α → DB × β) (hq : ∀ acc a, DBQ acc.1 → DBQ (f acc a).1) (hk : ∀ acc a, DBQ acc.1 → DBK acc.1 → DBK (f acc a).1)
    (l : List α) (acc : DB × β) (h1 : DBQ acc.1) (h2 : DBK acc.1) : DBQ (l.foldl f acc).1 ∧ DBK (l.foldl f acc).1 := by
  induction l generalizing acc with
  | nil => exact ⟨h1, h2⟩
  | cons a as ih => simp only [List.foldl_cons]; exact ih _ (hq acc a h1) (hk acc a h1 h2)

theorem sweepTimeout_dbk (s : DB) (c : Nat) (hq : DBQ s) (h : DBK s) : DBK (sweepTimeout s c).1 := by
  unfold sweepTimeout
  simp only []
  obtain ⟨q1, k1⟩ := foldl_qk _ (timeoutStep_dbq true) (timeoutStep_dbk true) _ (s, []) hq h
  obtain ⟨q2, k2⟩ := foldl_qk _ (timeoutStep_dbq false) (timeoutStep_dbk false) _ _ q1 k1
  exact (foldl_qk _ fireTimeoutStep_dbq fireTimeoutStep_dbk _ _ q2 k2).2

theorem sweepExpire_dbk (s : DB) (c : Nat) (hq : DBQ s) (h : DBK s) : DBK (sweepExpire s c).1 := by
  unfold sweepExpire
  simp only []
  obtain ⟨q1, k1⟩ := foldl_qk _ (expireStep_dbq true) (expireStep_dbk true) _ (s, []) hq h
  obtain ⟨q2, k2⟩ := foldl_qk _ (expireStep_dbq false) (expireStep_dbk false) _ _ q1 k1
  exact (foldl_qk _ fireExpireStep_dbq fireExpireStep_dbk _ _ q2 k2).2

theorem DBK.of_keys {s s' : DB} (h : DBK s) (h1 : s'.keys = s.keys) (h2 : s'.seq = s.seq) : DBK s' := by
  intro k hk; rw [h2]; rw [h1] at hk; exact h k hk

theorem opTick_dbk (s : DB) (hq : DBQ s) (h : DBK s) : DBK (opTick s).1 := by
  unfold opTick
  simp only []
  have hq0 : DBQ { s with now := s.now + 1, tCheck := s.now + 1 + 1 } := hq.of_keys rfl rfl rfl
  have hk0 : DBK { s with now := s.now + 1, tCheck := s.now + 1 + 1 } := h.of_keys rfl rfl
  have hq1 := sweepTimeout_dbq _ (s.now + 1) hq0
  have hk1 := sweepTimeout_dbk _ (s.now + 1) hq0 hk0
  apply sweepExpire_dbk
  · exact hq1.of_keys rfl rfl rfl
  · exact hk1.of_keys rfl rfl

theorem step_dbk (s : DB) (o : Op) (hq : DBQ s) (h : DBK s) : DBK (step s o).1 := by
  cases o with
  | lock c d => exact opLock_dbk s hq h c d
  | unlock c d => exact opUnlock_dbk s hq h c d
  | tick => exact opTick_dbk s hq h
  | setLeader b => exact h.of_keys rfl rfl

/-- **every reachable state satisfies the simulation's record-level invariant** -/
theorem run_dbk (s : DB) (ops : List Op) (hq : DBQ s) (h : DBK s) : DBK (run s ops) := by
  induction ops generalizing s with
  | nil => exact h
  | cons o os ih => unfold run; simp only [List.foldl_cons]; exact ih _ (step_dbq s o hq) (step_dbk s o hq h)

end Slock.Sim
