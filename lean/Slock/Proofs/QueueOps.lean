import Slock.Proofs.QueueFlat
/-! C20: per-operation refinement lemmas for the segmented deque (server/queue.go). -/
namespace Slock.Queue

@[simp] theorem Res.ok_bind {α β : Type} (a : α) (f : α → Res β) : (Res.ok a >>= f) = f a := rfl
@[simp] theorem Res.pure_eq {α : Type} (a : α) : (pure a : Res α) = Res.ok a := rfl

theorem doubled_bounds (qs : Int) (h1 : 0 < qs) (h2 : qs < 1073741824) :
    0 < doubled qs ∧ doubled qs < 1073741824 := by
  have hw : wrap32 (qs * 2) = qs * 2 := by unfold wrap32; omega
  have hm : (maxMalloc : Int) = 67108863 := by simp [maxMalloc, Slock.Gen.C.QUEUE_MAX_MALLOC_SIZE]
  unfold doubled
  simp only [hw, hm]
  split <;> omega

theorem shape_append (L : List (Option Arr)) (a : Arr) : shape (L ++ [some a]) = shape L ++ [some a.length] := by
  simp [shape]

theorem shape_set_none_some (L : List (Option Arr)) (j : Nat) (a : Arr) :
    shape (L.set j (some a)) = (shape L).set j (some a.length) := by
  simp [shape, List.map_set]

theorem malloc_spec {q : Q} (h : QInv q) (L' : List (Option Arr)) (hs : shape L' = shape q.queues)
    (_hfull : q.tqi + 1 = q.tqs) :
    ∃ q', mallocQueue { q with queues := L', tqi := q.tqi + 1 } = .ok q' ∧ QInv q' ∧
      q'.hni = q.hni ∧ q'.hqi = q.hqi ∧ q'.tni = q.tni + 1 ∧ q'.tqi = 0 ∧
      q'.queues.take (q.tni + 1) = L'.take (q.tni + 1) ∧ q.tni + 1 < q'.queues.length := by
  have hd := doubled_bounds q.queueSize h.qsPos h.qsLt
  have hlen : L'.length = q.nodeSize := by rw [← shape_length, hs]; exact h.lenQ
  obtain ⟨h1, h2, h3, h4, h5, h6, h7, h8, h9, h10, h11, h12, h13, h14, h15, h16, h17⟩ := h
  by_cases c1 : q.tni + 1 ≥ q.nodeSize
  · -- append a node
    have hni : q.nodeIndex = q.tni := by omega
    have hns : q.nodeSize = q.tni + 1 := by omega
    have hneg : ¬ doubled q.queueSize < 0 := by omega
    have e1 : (L' ++ [some (List.replicate (doubled q.queueSize).toNat none)])[q.tni + 1]? = some (some (List.replicate (doubled q.queueSize).toNat none)) := by
      rw [List.getElem?_append_right (by omega)]; simp [hlen, hns]
    have e2 : (q.sizes ++ [(doubled q.queueSize).toNat])[q.tni + 1]? = some (doubled q.queueSize).toNat := by
      rw [List.getElem?_append_right (by omega)]; simp [h2, hns]
    refine ⟨{ q with queues := L' ++ [some (List.replicate (doubled q.queueSize).toNat none)], sizes := q.sizes ++ [(doubled q.queueSize).toNat],
                     tqi := 0, tni := q.tni + 1, queueSize := doubled q.queueSize, nodeIndex := q.nodeIndex + 1, nodeSize := q.nodeSize + 1,
                     tailQueue := .node (q.tni + 1), tqs := (doubled q.queueSize).toNat }, ?_, ?_, rfl, rfl, rfl, rfl, ?_, ?_⟩
    · simp only [mallocQueue, c1, if_true, hneg, if_false, Res.ok_bind, mkRef, size, e1, e2, Res.pure_eq]
    · have hsl : (shape L').length = q.nodeSize := by rw [hs]; exact h1
      constructor <;> simp only [shape_append, List.length_append, List.length_cons, List.length_nil] <;> (try assumption) <;> (try omega)
      case alloc =>
        intro j hj
        by_cases hjj : j ≤ q.nodeIndex
        · obtain ⟨n, a1, a2, a3, a4⟩ := h4 j hjj
          refine ⟨n, ?_, ?_, a3, a4⟩
          · rw [List.getElem?_append_left (by omega), hs]; exact a1
          · rw [List.getElem?_append_left (by omega)]; exact a2
        · have : j = q.tni + 1 := by omega
          subst this
          refine ⟨(doubled q.queueSize).toNat, ?_, e2, by omega, by omega⟩
          rw [List.getElem?_append_right (by omega)]; simp [hsl, hns]
      case hqs => rw [List.getElem?_append_left (by omega)]; exact h10
    · have : L'.take (q.tni + 1) = L' := List.take_of_length_le (by omega)
      simp [hlen, hns, this]
    · simp [hlen, hns]
  · have c1' : ¬ (q.tni + 1 ≥ q.nodeSize) := c1
    have hsl : (shape L').length = q.nodeSize := by rw [hs]; exact h1
    by_cases c2 : q.tni + 1 ≤ q.nodeIndex
    · -- the next node is already allocated
      obtain ⟨n, a1, a2, a3, a4⟩ := h4 (q.tni + 1) c2
      obtain ⟨a, ha, hal⟩ := shape_some (by rw [hs]; exact a1 : (shape L')[q.tni + 1]? = some (some n))
      refine ⟨{ q with queues := L', tqi := 0, tni := q.tni + 1, tailQueue := .node (q.tni + 1), tqs := n }, ?_, ?_, rfl, rfl, rfl, rfl, rfl, ?_⟩
      · simp only [mallocQueue, c1', if_false, ha, Res.ok_bind, mkRef, size, a2, Res.pure_eq]
      · constructor <;> simp only [hs] <;> (try assumption) <;> (try omega)
      · simp only []; omega
    · -- the next slot is nil: allocate
      have hni : q.nodeIndex = q.tni := by omega
      have hneg : ¬ doubled q.queueSize < 0 := by omega
      obtain ⟨f1, f2⟩ := h5 (q.tni + 1) (by omega) (by omega)
      have hn : L'[q.tni + 1]? = some none := shape_none (by rw [hs]; exact f1)
      have hsz : q.tni + 1 < q.sizes.length := by omega
      refine ⟨{ q with queues := L'.set (q.tni + 1) (some (List.replicate (doubled q.queueSize).toNat none)),
                       sizes := q.sizes.set (q.tni + 1) (doubled q.queueSize).toNat,
                       tqi := 0, tni := q.tni + 1, queueSize := doubled q.queueSize, nodeIndex := q.nodeIndex + 1,
                       tailQueue := .node (q.tni + 1), tqs := (doubled q.queueSize).toNat }, ?_, ?_, rfl, rfl, rfl, rfl, ?_, ?_⟩
      · have e1 : (L'.set (q.tni + 1) (some (List.replicate (doubled q.queueSize).toNat none)))[q.tni + 1]? =
            some (some (List.replicate (doubled q.queueSize).toNat none)) := by
          rw [List.getElem?_set_self (by omega)]
        have e2 : (q.sizes.set (q.tni + 1) (doubled q.queueSize).toNat)[q.tni + 1]? = some (doubled q.queueSize).toNat := by
          rw [List.getElem?_set_self (by omega)]
        simp only [mallocQueue, c1', if_false, hn, hneg, hsz, if_true, Res.ok_bind, mkRef, size, e1, e2, Res.pure_eq]
      · constructor <;> simp only [shape_set_none_some, List.length_set, hs] <;> (try assumption) <;> (try omega)
        case alloc =>
          intro j hj
          by_cases hjj : j ≤ q.nodeIndex
          · obtain ⟨n, a1, a2, a3, a4⟩ := h4 j hjj
            refine ⟨n, ?_, ?_, a3, a4⟩
            · rw [List.getElem?_set_ne (by omega)]; exact a1
            · rw [List.getElem?_set_ne (by omega)]; exact a2
          · have : j = q.tni + 1 := by omega
            subst this
            refine ⟨(doubled q.queueSize).toNat, ?_, ?_, by omega, by omega⟩
            · rw [List.getElem?_set_self (by omega)]; simp
            · rw [List.getElem?_set_self (by omega)]
        case free =>
          intro j hj1 hj2
          obtain ⟨g1, g2⟩ := h5 j (by omega) hj2
          constructor
          · rw [List.getElem?_set_ne (by omega)]; exact g1
          · rw [List.getElem?_set_ne (by omega)]; exact g2
        case hqs => rw [List.getElem?_set_ne (by omega)]; exact h10
        case tqs => rw [List.getElem?_set_self (by omega)]
      · simp only []; rw [List.take_set_of_le (by omega)]
      · simp only [List.length_set]; omega


theorem writeRef_node {q : Q} {j i : Nat} {a : Arr} (v : Elem) (hj : q.queues[j]? = some (some a)) (hi : i < a.length) :
    writeRef q (.node j) i v = .ok { q with queues := q.queues.set j (some (a.set i v)) } := by
  simp [writeRef, hj, hi]

theorem readRef_node {q : Q} {j i : Nat} {a : Arr} (hj : q.queues[j]? = some (some a)) (hi : i < a.length) :
    readRef q (.node j) i = .ok a[i] := by
  simp [readRef, refArr, hj, hi]

theorem getElem_of_getElem? {α : Type} {L : List α} {j : Nat} {x : α} (h : L[j]? = some x) :
    ∃ hj : j < L.length, L[j] = x := List.getElem?_eq_some_iff.mp h

theorem absL_cross (L : List (Option Arr)) (h hi t : Nat) (ht : t < L.length) :
    absL L h hi (t + 1) 0 = absL L h hi t (nodeOf L[t]).length := by
  unfold absL; rw [off_succ L t ht]; rfl

/-- after the tail cursor moved to cell 0 of the next node of a table that agrees with `L2` on nodes `0..t` -/
theorem absL_cross_congr (L1 L2 : List (Option Arr)) (h hi t s : Nat) (a : Arr) (hle : h ≤ t)
    (hp : L1.take (t + 1) = L2.take (t + 1)) (h1 : t + 1 < L1.length) (h2 : L2[t]? = some (some a)) (hs : a.length = s) :
    absL L1 h hi (t + 1) 0 = absL L2 h hi t s := by
  obtain ⟨h2l, h2e⟩ := getElem_of_getElem? h2
  have e : L1[t]? = L2[t]? := by
    have a1 : (L1.take (t + 1))[t]? = L1[t]? := by rw [List.getElem?_take]; simp
    have a2 : (L2.take (t + 1))[t]? = L2[t]? := by rw [List.getElem?_take]; simp
    rw [← a1, hp, a2]
  have e1 : L1[t]'(by omega) = some a := by
    have := e; rw [h2, List.getElem?_eq_getElem (by omega)] at this; simpa using this
  rw [absL_cross L1 h hi t (by omega), e1]
  simp only [nodeOf, hs]
  exact absL_congr L1 L2 h hi t s hle (by omega) h2l hp (by rw [e1]; simp [nodeOf, hs])

theorem QInv_push_nocross {q : Q} (h : QInv q) (L' : List (Option Arr)) (hs : shape L' = shape q.queues)
    (hlt : q.tqi + 1 < q.tqs) : QInv { q with queues := L', tqi := q.tqi + 1 } := by
  obtain ⟨h1, h2, h3, h4, h5, h6, h7, h8, h9, h10, h11, h12, h13, h14, h15, h16, h17⟩ := h
  constructor <;> simp only [hs] <;> first | assumption | omega

/-- **Push** refines append-at-end, for every state satisfying the invariant. -/
theorem push_spec {q : Q} (h : QInv q) (x : Elem) :
    ∃ q', push q x = .ok q' ∧ QInv q' ∧ abs q' = abs q ++ [x] ∧ (HeadClean q → HeadClean q') := by
  obtain ⟨a, ha, hal⟩ := h.tailNode
  have hi : q.tqi < a.length := by rw [hal]; exact h.tlt
  have hs := shape_set_cell q.queues q.tni q.tqi a x ha
  obtain ⟨p1, p2, p3⟩ := h.pos
  have key : absL (q.queues.set q.tni (some (a.set q.tqi x))) q.hni q.hqi q.tni (q.tqi + 1) = abs q ++ [x] := by
    unfold abs absL
    rw [F_set_cell _ _ _ _ _ ha hi, off_set_len _ _ _ a _ ha (by simp), off_set_len _ _ _ a _ ha (by simp)]
    have hT : off q.queues q.tni + q.tqi < (F q.queues).length := by omega
    exact G_push _ _ _ _ p1 hT
  have hcl : HeadClean q → cleanL (q.queues.set q.tni (some (a.set q.tqi x))) q.hni q.hqi := by
    intro hc
    apply cleanL_set _ _ _ _ _ ha hi q.hni q.hqi q.hni q.hqi hc
    intro p hp; right; omega
  unfold push
  rw [h.tq, writeRef_node x ha hi]
  simp only [Res.ok_bind]
  by_cases c : q.tqi + 1 ≥ q.tqs
  · have hfull : q.tqi + 1 = q.tqs := by have := h.tlt; omega
    obtain ⟨q', e, hq', e1, e2, e3, e4, e5, e6⟩ := malloc_spec h _ hs hfull
    refine ⟨q', ?_, hq', ?_, ?_⟩
    · simp only [c, if_true]; exact e
    · rw [← key]; unfold abs; rw [e1, e2, e3, e4]
      have hset : (q.queues.set q.tni (some (a.set q.tqi x)))[q.tni]? = some (some (a.set q.tqi x)) := by
        rw [List.getElem?_set_self (getElem_of_getElem? ha).1]
      exact absL_cross_congr _ _ _ _ _ _ _ h.hle e5 e6 hset (by simp; omega)
    · intro hc
      unfold HeadClean
      rw [e1, e2]
      apply cleanL_prefix _ _ (q.tni + 1) _ _ e5 (by have := h.hle; omega) _ (hcl hc)
      rw [off_shape hs, off_shape hs]
      have hg := (getElem_of_getElem? ha)
      have s2 := off_succ q.queues q.tni hg.1
      omega
  · refine ⟨_, ?_, QInv_push_nocross h _ hs (by omega), key, hcl⟩
    simp only [c, if_false, Res.pure_eq]

theorem push_refines {q : Q} (h : QInv q) (x : Elem) :
    ∃ q', push q x = .ok q' ∧ QInv q' ∧ abs q' = abs q ++ [x] := by
  obtain ⟨q', a, b, c, _⟩ := push_spec h x
  exact ⟨q', a, b, c⟩

theorem absL_set (L : List (Option Arr)) (j i : Nat) (a : Arr) (v : Elem) (hj : L[j]? = some (some a)) (hi : i < a.length)
    (h hi' t ti : Nat) :
    absL (L.set j (some (a.set i v))) h hi' t ti =
      (((F L).set (off L j + i) v).take (off L t + ti)).drop (off L h + hi') := by
  unfold absL
  rw [F_set_cell _ _ _ _ _ hj hi, off_set_len _ _ _ a _ hj (by simp), off_set_len _ _ _ a _ hj (by simp)]

theorem QInv.empty_abs {q : Q} (h : QInv q) (he : isEmpty q = true) : abs q = [] ∧ q.hni = q.tni ∧ q.hqi = q.tqi := by
  simp only [isEmpty, Bool.and_eq_true, decide_eq_true_eq] at he
  have e1 : q.hni = q.tni := by have := h.hle; omega
  have e2 : q.hqi = q.tqi := by have := h.ord e1; omega
  refine ⟨?_, e1, e2⟩
  unfold abs absL
  rw [e1, e2]
  apply List.drop_eq_nil_of_le
  simp only [List.length_take]; omega

theorem QInv.nonempty {q : Q} (h : QInv q) (he : ¬ isEmpty q = true) :
    off q.queues q.hni + q.hqi < off q.queues q.tni + q.tqi ∧ (q.hni = q.tni → q.hqi < q.tqi) ∧ (q.tqi = 0 → q.hni < q.tni) := by
  simp only [isEmpty, Bool.and_eq_true, decide_eq_true_eq, not_and] at he
  obtain ⟨ah, hah, hahl⟩ := h.headNode
  obtain ⟨hhl, hhe⟩ := getElem_of_getElem? hah
  have s2 := off_succ q.queues q.hni hhl
  rw [hhe] at s2
  simp only [nodeOf, hahl] at s2
  have hlt := h.hlt
  have hle := h.hle
  by_cases e : q.hni = q.tni
  · have := h.ord e
    have : q.hqi < q.tqi := by omega
    refine ⟨by rw [e]; omega, fun _ => this, fun _ => by omega⟩
  · have : off q.queues (q.hni + 1) ≤ off q.queues q.tni := off_mono _ (by omega)
    refine ⟨by omega, fun e' => absurd e' e, fun _ => by omega⟩

/-- **Head** returns the first element of the abstract deque (nil for a hole or an empty queue). -/
theorem head_refines {q : Q} (h : QInv q) : head q = .ok (abs q).head?.join := by
  unfold head
  by_cases he : isEmpty q = true
  · simp [he, (h.empty_abs he).1]
  · obtain ⟨p, _, _⟩ := h.nonempty he
    obtain ⟨ah, hah, hahl⟩ := h.headNode
    have hi : q.hqi < ah.length := by rw [hahl]; exact h.hlt
    simp only [he, if_false, Bool.false_eq_true, h.hq, readRef_node hah hi]
    unfold abs absL
    rw [G_head _ _ _ p, F_get_cell _ _ _ _ hah hi]
    rfl


/-- **Pop** refines remove-first. -/
theorem pop_spec {q : Q} (h : QInv q) :
    ∃ q', pop q = .ok (q', (abs q).head?.join) ∧ QInv q' ∧ abs q' = (abs q).tail ∧ (HeadClean q → HeadClean q') := by
  unfold pop
  by_cases he : isEmpty q = true
  · refine ⟨q, ?_, h, ?_, id⟩ <;> simp [he, (h.empty_abs he).1]
  · obtain ⟨p, pe, _⟩ := h.nonempty he
    obtain ⟨ah, hah, hahl⟩ := h.headNode
    obtain ⟨hhl, hhe⟩ := getElem_of_getElem? hah
    have hi : q.hqi < ah.length := by rw [hahl]; exact h.hlt
    have hs := shape_set_cell q.queues q.hni q.hqi ah none hah
    have hx : (abs q).head?.join = ah[q.hqi] := by
      unfold abs absL
      rw [G_head _ _ _ p, F_get_cell _ _ _ _ hah hi]; rfl
    have s2 := off_succ q.queues q.hni hhl
    rw [hhe] at s2
    simp only [nodeOf, hahl] at s2
    -- content after the write, with the head position advanced by one
    have key : ∀ n i, off q.queues n + i = off q.queues q.hni + q.hqi + 1 →
        absL (q.queues.set q.hni (some (ah.set q.hqi none))) n i q.tni q.tqi = (abs q).tail := by
      intro n i hni
      rw [absL_set _ _ _ _ _ hah hi, hni, G_dropset _ _ _ _ _ (by omega)]
      exact G_tail _ _ _
    have key2 : ∀ n i, off q.queues n + i = off q.queues q.hni + q.hqi + 1 → HeadClean q →
        cleanL (q.queues.set q.hni (some (ah.set q.hqi none))) n i := by
      intro n i hni hc
      apply cleanL_set _ _ _ _ _ hah hi q.hni q.hqi n i hc
      intro p hp
      by_cases cp : p = off q.queues q.hni + q.hqi
      · exact Or.inl ⟨cp, rfl⟩
      · right; omega
    simp only [he, if_false, Bool.false_eq_true, h.hq, readRef_node hah hi, writeRef_node none hah hi, Res.ok_bind, hx]
    obtain ⟨h1, h2, h3, h4, h5, h6, h7, h8, h9, h10, h11, h12, h13, h14, h15, h16, h17⟩ := h
    by_cases c : q.hqi + 1 ≥ q.hqs
    · have hfull : q.hqi + 1 = q.hqs := by omega
      have hlt : q.hni < q.tni := by
        by_cases e : q.hni = q.tni
        · have := pe e; rw [e] at h10; rw [h10] at h11; simp at h11; omega
        · omega
      obtain ⟨n, a1, a2, a3, a4⟩ := h4 (q.hni + 1) (by omega)
      obtain ⟨a', ha', hal'⟩ := shape_some (by rw [hs]; exact a1 :
        (shape (q.queues.set q.hni (some (ah.set q.hqi none))))[q.hni + 1]? = some (some n))
      refine ⟨{ q with queues := q.queues.set q.hni (some (ah.set q.hqi none)), hni := q.hni + 1, hqi := 0,
                       headQueue := .node (q.hni + 1), hqs := n }, ?_, ?_, ?_, ?_⟩
      · simp only [c, if_true, mkRef, ha', size, a2, Res.ok_bind, Res.pure_eq]
      · constructor <;> simp only [hs] <;> (try assumption) <;> (try omega)
      · exact key (q.hni + 1) 0 (by omega)
      · exact key2 (q.hni + 1) 0 (by omega)
    · refine ⟨{ q with queues := q.queues.set q.hni (some (ah.set q.hqi none)), hqi := q.hqi + 1, headQueue := .node q.hni }, ?_, ?_, ?_, ?_⟩
      · simp only [c, if_false, Res.pure_eq]
      · constructor <;> simp only [hs] <;> (try assumption) <;> (try omega)
      · exact key q.hni (q.hqi + 1) (by omega)
      · exact key2 q.hni (q.hqi + 1) (by omega)

theorem pop_refines {q : Q} (h : QInv q) :
    ∃ q', pop q = .ok (q', (abs q).head?.join) ∧ QInv q' ∧ abs q' = (abs q).tail := by
  obtain ⟨q', a, b, c, _⟩ := pop_spec h
  exact ⟨q', a, b, c⟩

/-- **PopRight** refines remove-last. -/
theorem popRight_spec {q : Q} (h : QInv q) :
    ∃ q', popRight q = .ok (q', (abs q).getLast?.join) ∧ QInv q' ∧ abs q' = (abs q).dropLast ∧
      (HeadClean q → HeadClean q') := by
  unfold popRight
  by_cases he : isEmpty q = true
  · refine ⟨q, ?_, h, ?_, id⟩ <;> simp [he, (h.empty_abs he).1]
  · obtain ⟨p, pe, pz⟩ := h.nonempty he
    obtain ⟨p1, p2, p3⟩ := h.pos
    simp only [he, if_false, Bool.false_eq_true]
    -- the cell to remove: (n, i) with global position pt - 1
    have main : ∀ (n i : Nat) (a : Arr) (q1 : Q), q1.queues = q.queues → q1.tqi = i →
        q1.hni = q.hni → q1.hqi = q.hqi → q1.tni = n →
        q.queues[n]? = some (some a) → i < a.length → off q.queues n + i + 1 = off q.queues q.tni + q.tqi →
        QInv { q1 with queues := q.queues.set n (some (a.set i none)) } →
        ∃ q', (do
            let x ← readRef q1 (.node n) i
            let q2 ← writeRef q1 (.node n) i none
            pure (q2, x) : Res (Q × Elem)) = .ok (q', (abs q).getLast?.join) ∧ QInv q' ∧ abs q' = (abs q).dropLast ∧
          (HeadClean q → HeadClean q') := by
      intro n i a q1 e1 e3 e4 e5 e6 ha hi hpos hinv
      have ha1 : q1.queues[n]? = some (some a) := by rw [e1]; exact ha
      refine ⟨{ q1 with queues := q.queues.set n (some (a.set i none)) }, ?_, hinv, ?_, ?_⟩
      rotate_left 2
      · intro hc
        show cleanL (q.queues.set n (some (a.set i none))) q1.hni q1.hqi
        rw [e4, e5]
        apply cleanL_set _ _ _ _ _ ha hi q.hni q.hqi q.hni q.hqi hc
        intro p' hp'; right; omega
      · rw [readRef_node ha1 hi, writeRef_node none ha1 hi]
        simp only [Res.ok_bind, Res.pure_eq, e1]
        have : (abs q).getLast?.join = a[i] := by
          unfold abs absL
          rw [G_last _ _ _ p (by omega)]
          have : off q.queues q.tni + q.tqi - 1 = off q.queues n + i := by omega
          rw [this, F_get_cell _ _ _ _ ha hi]; rfl
        rw [this]
      · show absL (q.queues.set n (some (a.set i none))) q1.hni q1.hqi q1.tni q1.tqi = _
        rw [e3, e4, e5, e6, absL_set _ _ _ _ _ ha hi, G_takeset _ _ _ _ _ (Nat.le_refl _)]
        unfold abs absL
        have : off q.queues n + i = off q.queues q.tni + q.tqi - 1 := by omega
        rw [this]
        exact G_dropLast _ _ _ (by omega) (by omega)
    obtain ⟨h1, h2, h3, h4, h5, h6, h7, h8, h9, h10, h11, h12, h13, h14, h15, h16, h17⟩ := h
    by_cases c : q.tqi = 0
    · have hlt := pz c
      have c0 : ¬ q.tni = 0 := by omega
      obtain ⟨n, a1, a2, a3, a4⟩ := h4 (q.tni - 1) (by omega)
      obtain ⟨a, ha, hal⟩ := shape_some a1
      obtain ⟨hl, hle⟩ := getElem_of_getElem? ha
      have s2 := off_succ q.queues (q.tni - 1) hl
      rw [hle] at s2
      simp only [nodeOf, hal] at s2
      have e : q.tni - 1 + 1 = q.tni := by omega
      rw [e] at s2
      have hn0 : ¬ n = 0 := by omega
      simp only [c, if_true, c0, if_false, size, a2, mkRef, ha, hn0, Res.ok_bind]
      have hs := shape_set_cell q.queues (q.tni - 1) (n - 1) a none ha
      refine main (q.tni - 1) (n - 1) a { q with tni := q.tni - 1, tqi := n - 1, tailQueue := .node (q.tni - 1), tqs := n } rfl rfl rfl rfl rfl ha (by omega) (by omega) ?_
      constructor <;> simp only [hs] <;> (try assumption) <;> (try omega)
      case ord =>
        intro e'
        have : n = q.hqs := by rw [e', a2] at h10; simpa using h10
        omega
    · simp only [c, if_false, Res.ok_bind, h9]
      obtain ⟨n, a1, a2, a3, a4⟩ := h4 q.tni h7
      obtain ⟨a, ha, hal⟩ := shape_some a1
      have : n = q.tqs := by rw [h11] at a2; simpa using a2.symm
      have hs := shape_set_cell q.queues q.tni (q.tqi - 1) a none ha
      refine main q.tni (q.tqi - 1) a { q with tqi := q.tqi - 1, tailQueue := .node q.tni } rfl rfl rfl rfl rfl ha (by omega) (by omega) ?_
      constructor <;> simp only [hs] <;> (try assumption) <;> (try omega)

theorem popRight_refines {q : Q} (h : QInv q) :
    ∃ q', popRight q = .ok (q', (abs q).getLast?.join) ∧ QInv q' ∧ abs q' = (abs q).dropLast := by
  obtain ⟨q', a, b, c, _⟩ := popRight_spec h
  exact ⟨q', a, b, c⟩

/-- **PushLeft** when the head cursor is at cell 0 of node 0: reports "full", state unchanged. -/
theorem pushLeft_full (q : Q) (x : Elem) (hf : q.hni = 0 ∧ q.hqi = 0) : pushLeft q x = .ok (q, false) := by
  have : q.hni ≤ 0 ∧ q.hqi ≤ 0 := by omega
  simp [pushLeft, this]

/-- **PushLeft** refines cons whenever the head cursor is not at cell 0 of node 0. -/
theorem pushLeft_spec {q : Q} (h : QInv q) (x : Elem) (hnf : ¬ (q.hni = 0 ∧ q.hqi = 0)) :
    ∃ q', pushLeft q x = .ok (q', true) ∧ QInv q' ∧ abs q' = x :: abs q ∧ (HeadClean q → HeadClean q') := by
  have hnf' : ¬ (q.hni ≤ 0 ∧ q.hqi ≤ 0) := by omega
  obtain ⟨p1, p2, p3⟩ := h.pos
  unfold pushLeft
  simp only [hnf', if_false]
  have main : ∀ (n i : Nat) (a : Arr) (q1 : Q), q1.queues = q.queues → q1.hqi = i →
        q1.hni = n → q1.tni = q.tni → q1.tqi = q.tqi →
        q.queues[n]? = some (some a) → i < a.length → off q.queues n + i + 1 = off q.queues q.hni + q.hqi →
        QInv { q1 with queues := q.queues.set n (some (a.set i x)) } →
        ∃ q', (do
            let q2 ← writeRef q1 (.node n) i x
            pure (q2, true) : Res (Q × Bool)) = .ok (q', true) ∧ QInv q' ∧ abs q' = x :: abs q ∧
          (HeadClean q → HeadClean q') := by
    intro n i a q1 e1 e3 e4 e5 e6 ha hi hpos hinv
    have ha1 : q1.queues[n]? = some (some a) := by rw [e1]; exact ha
    refine ⟨{ q1 with queues := q.queues.set n (some (a.set i x)) }, ?_, hinv, ?_, ?_⟩
    rotate_left 2
    · intro hc
      show cleanL (q.queues.set n (some (a.set i x))) q1.hni q1.hqi
      rw [e3, e4]
      apply cleanL_set _ _ _ _ _ ha hi q.hni q.hqi n i hc
      intro p' hp'; right; omega
    · rw [writeRef_node x ha1 hi]
      simp only [Res.ok_bind, Res.pure_eq, e1]
    · show absL (q.queues.set n (some (a.set i x))) q1.hni q1.hqi q1.tni q1.tqi = _
      rw [e3, e4, e5, e6, absL_set _ _ _ _ _ ha hi]
      unfold abs absL
      have : off q.queues n + i = off q.queues q.hni + q.hqi - 1 := by omega
      rw [this]
      exact G_cons _ _ _ _ (by omega) p1 (by omega)
  obtain ⟨h1, h2, h3, h4, h5, h6, h7, h8, h9, h10, h11, h12, h13, h14, h15, h16, h17⟩ := h
  by_cases c : q.hqi = 0
  · have c0 : 1 ≤ q.hni := by omega
    obtain ⟨n, a1, a2, a3, a4⟩ := h4 (q.hni - 1) (by omega)
    obtain ⟨a, ha, hal⟩ := shape_some a1
    obtain ⟨hl, hle⟩ := getElem_of_getElem? ha
    have s2 := off_succ q.queues (q.hni - 1) hl
    rw [hle] at s2
    simp only [nodeOf, hal] at s2
    have e : q.hni - 1 + 1 = q.hni := by omega
    rw [e] at s2
    have hn0 : ¬ n = 0 := by omega
    simp only [c, if_true, size, a2, mkRef, ha, hn0, if_false, Res.ok_bind]
    have hs := shape_set_cell q.queues (q.hni - 1) (n - 1) a x ha
    refine main (q.hni - 1) (n - 1) a { q with hni := q.hni - 1, hqi := n - 1, headQueue := .node (q.hni - 1), hqs := n } rfl rfl rfl rfl rfl ha (by omega) (by omega) ?_
    constructor <;> simp only [hs] <;> (try assumption) <;> (try omega)
  · simp only [c, if_false, Res.ok_bind, h8]
    obtain ⟨n, a1, a2, a3, a4⟩ := h4 q.hni (by omega)
    obtain ⟨a, ha, hal⟩ := shape_some a1
    have : n = q.hqs := by rw [h10] at a2; simpa using a2.symm
    have hs := shape_set_cell q.queues q.hni (q.hqi - 1) a x ha
    refine main q.hni (q.hqi - 1) a { q with hqi := q.hqi - 1, headQueue := .node q.hni } rfl rfl rfl rfl rfl ha (by omega) (by omega) ?_
    constructor <;> simp only [hs] <;> (try assumption) <;> (try omega)

theorem pushLeft_refines {q : Q} (h : QInv q) (x : Elem) (hnf : ¬ (q.hni = 0 ∧ q.hqi = 0)) :
    ∃ q', pushLeft q x = .ok (q', true) ∧ QInv q' ∧ abs q' = x :: abs q := by
  obtain ⟨q', a, b, c, _⟩ := pushLeft_spec h x hnf
  exact ⟨q', a, b, c⟩

/-- **Tail** returns the last element of the abstract deque. -/
theorem tail_refines {q : Q} (h : QInv q) : tail q = .ok (abs q).getLast?.join := by
  unfold tail
  by_cases he : isEmpty q = true
  · simp [he, (h.empty_abs he).1]
  · obtain ⟨p, pe, pz⟩ := h.nonempty he
    obtain ⟨p1, p2, p3⟩ := h.pos
    simp only [he, if_false, Bool.false_eq_true]
    have last : ∀ (n i : Nat) (a : Arr), q.queues[n]? = some (some a) → (hi : i < a.length) →
        off q.queues n + i + 1 = off q.queues q.tni + q.tqi → (abs q).getLast?.join = a[i] := by
      intro n i a ha hi hpos
      unfold abs absL
      rw [G_last _ _ _ p (by omega)]
      have : off q.queues q.tni + q.tqi - 1 = off q.queues n + i := by omega
      rw [this, F_get_cell _ _ _ _ ha hi]; rfl
    obtain ⟨h1, h2, h3, h4, h5, h6, h7, h8, h9, h10, h11, h12, h13, h14, h15, h16, h17⟩ := h
    by_cases c : q.tqi = 0
    · have hlt := pz c
      have c0 : ¬ q.tni = 0 := by omega
      obtain ⟨n, a1, a2, a3, a4⟩ := h4 (q.tni - 1) (by omega)
      obtain ⟨a, ha, hal⟩ := shape_some a1
      obtain ⟨hl, hle⟩ := getElem_of_getElem? ha
      have s2 := off_succ q.queues (q.tni - 1) hl
      rw [hle] at s2
      simp only [nodeOf, hal] at s2
      have e : q.tni - 1 + 1 = q.tni := by omega
      rw [e] at s2
      have hn0 : ¬ n = 0 := by omega
      have hi : n - 1 < a.length := by omega
      simp only [c, if_true, c0, if_false, slot, ha, size, a2, hn0, Res.ok_bind, List.getElem?_eq_getElem hi]
      rw [last (q.tni - 1) (n - 1) a ha hi (by omega)]
    · obtain ⟨n, a1, a2, a3, a4⟩ := h4 q.tni h7
      obtain ⟨a, ha, hal⟩ := shape_some a1
      have : n = q.tqs := by rw [h11] at a2; simpa using a2.symm
      have hi : q.tqi - 1 < a.length := by omega
      simp only [c, if_false, h9, readRef_node ha hi]
      rw [last q.tni (q.tqi - 1) a ha hi (by omega)]

theorem sumSizes_spec {q : Q} (h : QInv q) (n i : Nat) (hb : i + n ≤ q.nodeIndex + 1) :
    sumSizes q i n = .ok (off q.queues (i + n) - off q.queues i) := by
  induction n generalizing i with
  | zero => simp [sumSizes]
  | succ n ih =>
    obtain ⟨a, ha, hsz, _, _⟩ := h.node i (by omega)
    obtain ⟨hl, hle⟩ := getElem_of_getElem? ha
    have s2 := off_succ q.queues i hl
    rw [hle] at s2
    simp only [nodeOf] at s2
    have hm : off q.queues (i + 1) ≤ off q.queues (i + 1 + n) := off_mono _ (by omega)
    have e : i + (n + 1) = i + 1 + n := by omega
    simp only [sumSizes, size, hsz, Res.ok_bind, ih (i + 1) (by omega), Res.pure_eq, e]
    congr 1; omega

/-- **Len** reports the length of the abstract deque (holes count, as in the Go code). -/
theorem len_refines {q : Q} (h : QInv q) : len q = .ok ((abs q).length : Int) := by
  obtain ⟨p1, p2, p3⟩ := h.pos
  have hl : (abs q).length = off q.queues q.tni + q.tqi - (off q.queues q.hni + q.hqi) := by
    unfold abs absL; exact G_len _ _ _ (by omega)
  unfold len
  by_cases c : q.tni ≤ q.hni
  · have e : q.hni = q.tni := by have := h.hle; omega
    have := h.ord e
    have e2 : off q.queues q.hni = off q.queues q.tni := by rw [e]
    simp only [c, if_true, hl]
    congr 1; omega
  · obtain ⟨ah, hah, hahl⟩ := h.headNode
    obtain ⟨hhl, hhe⟩ := getElem_of_getElem? hah
    have s2 := off_succ q.queues q.hni hhl
    rw [hhe] at s2
    simp only [nodeOf, hahl] at s2
    have hm : off q.queues (q.hni + 1) ≤ off q.queues q.tni := off_mono _ (by omega)
    have e : q.hni + 1 + (q.tni - (q.hni + 1)) = q.tni := by omega
    have hlt := h.hlt
    simp only [c, if_false, size, h.hqs, Res.ok_bind, sumSizes_spec h (q.tni - (q.hni + 1)) (q.hni + 1) (by have := h.tle; omega), e, Res.pure_eq, hl]
    congr 1; omega

end Slock.Queue
