import Slock.Model.Queue2
/-!
# LockManagerRingQueue refines a FIFO list

`Ring.abs q = q.queue[q.index:]` (nil entries included: a pushed nil lock is an element like any other,
`Pop` hands it out as nil — indistinguishable from "empty" for the caller, but the state is exact).
-/
namespace Slock.Queue2

/-- the only property of Go's `append` growth the theorems need -/
def GrowOK (grow : Nat → Nat) : Prop := ∀ c, grow c > c

def Ring.abs (q : Ring) : List Slot := q.queue.drop q.index

def Ring.Inv (q : Ring) : Prop := q.index ≤ q.queue.length ∧ q.queue.length ≤ q.cap

theorem headD_drop (l : List Slot) (i : Nat) : (l.drop i).headD none = (l[i]?).getD none := by
  rw [List.headD_eq_head?_getD, List.head?_drop]

theorem Ring.new_inv (size : Nat) : (Ring.new size).Inv := by
  simp [Ring.new, Ring.Inv]

theorem Ring.new_abs (size : Nat) : (Ring.new size).abs = [] := by
  simp [Ring.new, Ring.abs]

theorem goAppend_fst (grow : Nat → Nat) (d : List Slot) (c : Nat) (x : Slot) :
    (goAppend grow d c x).1 = d ++ [x] := by
  unfold goAppend; split <;> rfl

theorem goAppend_cap (grow : Nat → Nat) (hg : GrowOK grow) (d : List Slot) (c : Nat) (x : Slot)
    (h : d.length ≤ c) : (d ++ [x]).length ≤ (goAppend grow d c x).2 := by
  unfold goAppend
  have := hg c
  split <;> simp <;> omega

theorem Ring.pushCore_inv (grow : Nat → Nat) (hg : GrowOK grow) (q : Ring) (x : Slot) (h : q.Inv) :
    (q.pushCore grow x).Inv ∧ (q.pushCore grow x).abs = q.abs ++ [x] := by
  obtain ⟨h1, h2⟩ := h
  unfold Ring.pushCore
  by_cases hc : q.queue.length = q.cap ∧ q.index > q.queue.length / 2
  · rw [if_pos hc]
    constructor
    · constructor
      · simp
      · simp only [goAppend_fst]
        apply goAppend_cap grow hg
        simp; omega
    · simp [Ring.abs, goAppend_fst]
  · rw [if_neg hc]
    constructor
    · constructor
      · simp only [goAppend_fst]; simp; omega
      · simp only [goAppend_fst]
        exact goAppend_cap grow hg _ _ _ h2
    · simp only [Ring.abs, goAppend_fst]
      rw [List.drop_append_of_le_length h1]

/-- Push: never panics on a well-formed ring, appends at the tail. -/
theorem Ring.push_refines (grow : Nat → Nat) (hg : GrowOK grow) (q : Ring) (x : Slot) (h : q.Inv) :
    ∃ q', q.push grow x = .ok q' ∧ q'.Inv ∧ q'.abs = q.abs ++ [x] := by
  refine ⟨q.pushCore grow x, ?_, Ring.pushCore_inv grow hg q x h⟩
  unfold Ring.push
  have := h.1
  rw [if_neg]
  omega

/-- Pop: removes and returns the first element (nil when empty or when that element is nil). -/
theorem Ring.pop_refines (q : Ring) (h : q.Inv) :
    q.pop.1.Inv ∧ q.pop.1.abs = q.abs.tail ∧ q.pop.2 = q.abs.headD none := by
  obtain ⟨h1, h2⟩ := h
  unfold Ring.pop
  by_cases hc : q.index ≥ q.queue.length
  · simp only [hc, if_true]
    refine ⟨⟨h1, h2⟩, ?_, ?_⟩
    · simp [Ring.abs, List.drop_eq_nil_of_le hc]
    · simp [Ring.abs, List.drop_eq_nil_of_le hc]
  · simp only [hc, if_false]
    have hlt : q.index < q.queue.length := by omega
    by_cases hl : q.index + 1 ≥ (q.queue.set q.index none).length
    · simp only [hl, if_true]
      simp only [List.length_set] at hl
      refine ⟨⟨by simp, by simp⟩, ?_, ?_⟩
      · simp only [Ring.abs, List.drop_nil, List.tail_drop]
        rw [List.drop_eq_nil_of_le hl]
      · simp only [Ring.abs]; rw [headD_drop]
    · simp only [hl, if_false]
      simp only [List.length_set] at hl
      refine ⟨⟨by simp; omega, by simp; omega⟩, ?_, ?_⟩
      · simp only [Ring.abs, List.tail_drop]
        rw [List.drop_set_of_lt (by omega)]
      · simp only [Ring.abs]; rw [headD_drop]

theorem Ring.head_refines (q : Ring) : q.head = q.abs.headD none := by
  unfold Ring.head Ring.abs
  by_cases hc : q.index ≥ q.queue.length
  · simp [hc, List.drop_eq_nil_of_le hc]
  · simp only [hc, if_false]; rw [headD_drop]

theorem Ring.len_refines (q : Ring) (h : q.Inv) : q.len = (q.abs.length : Int) := by
  unfold Ring.len Ring.abs
  have := h.1
  simp only [List.length_drop]
  omega

/-- IterNodes: no node when empty, else exactly one node holding the content. -/
theorem Ring.iterNodes_refines (q : Ring) :
    q.iterNodes = if q.abs = [] then [] else [q.abs] := by
  unfold Ring.iterNodes Ring.abs
  by_cases hc : q.index < q.queue.length
  · have : List.drop q.index q.queue ≠ [] := by
      intro h; have := List.drop_eq_nil_iff.mp h; omega
    simp [hc, this]
  · have : List.drop q.index q.queue = [] := List.drop_eq_nil_of_le (by omega)
    simp [hc, this]

theorem Ring.iterNodes_flatten (q : Ring) : q.iterNodes.flatten = q.abs := by
  rw [Ring.iterNodes_refines]; split <;> simp [*]

/-- MaxPriority: 0 when empty; the priority of the first element; a Go panic (nil dereference)
when the first element is a nil lock. -/
theorem Ring.maxPriority_refines (q : Ring) :
    q.maxPriority = match q.abs with
      | [] => .ok 0
      | none :: _ => .panic
      | some e :: _ => .ok e.priority := by
  unfold Ring.maxPriority
  by_cases hc : q.index ≥ q.queue.length
  · have : q.abs = [] := List.drop_eq_nil_of_le hc
    simp [hc, this]
  · simp only [hc, if_false]
    rw [← headD_drop]
    show _ = match q.abs with | [] => _ | none :: _ => _ | some e :: _ => _
    have hne : q.abs ≠ [] := by
      intro h; have := List.drop_eq_nil_iff.mp h; omega
    unfold Ring.abs at hne ⊢
    cases hd : List.drop q.index q.queue with
    | nil => exact absurd hd hne
    | cons a t => cases a <;> simp

/-- In-place mutation of a queued lock commutes with the abstraction. -/
theorem Ring.mapId_abs (f : Elem → Elem) (id : Nat) (q : Ring) :
    (q.mapId f id).abs = q.abs.map (killSlot f id) := by
  simp [Ring.mapId, Ring.abs, List.map_drop]

theorem Ring.mapId_inv (f : Elem → Elem) (id : Nat) (q : Ring) (h : q.Inv) : (q.mapId f id).Inv := by
  simpa [Ring.mapId, Ring.Inv] using h

end Slock.Queue2
