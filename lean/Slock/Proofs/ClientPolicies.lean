import Slock.Proofs.ClientPolicy
import Slock.Properties.C01
/-!
The two policies the client primitives need (C19):

* `lenPolicy K N` — every LOCK on key `K` carries `Count ≤ N` (`N < 0xffff`)  ⟹  the key never has more than `N + 1` holders
  (Lock, RLock: N = 0; Semaphore(n), MaxConcurrentFlow(n): N = n − 1; PriorityLock: its count).
* `waPolicy K` — every LOCK on key `K` carries `Rcount = 0` and no update flag  ⟹  a holder whose command has `Count = 0`
  is the only holder (RWLock: a writer is alone; readers — `Count = 0xffff` — never coexist with a writer).
-/
namespace Slock.Engine

theorem replaceHolder_len (hs : List Hold) (h h' : Hold) : (replaceHolder hs h h').length = hs.length := by
  induction hs with
  | nil => rfl
  | cons x xs ih => unfold replaceHolder; split <;> simp [ih]

theorem KeyInv.length_le_locked {k : Key} (hk : KeyInv k) : k.holders.length ≤ k.locked := by
  rw [hk.sum]; exact length_le_depthSum _ hk.pos

def lenPolicy (K N : Nat) (hN : N < 0xffff) : Policy where
  K := K
  D := fun c => c.count ≤ N
  HP := fun hs => hs.length ≤ N + 1
  D_conn := fun _ _ h => h
  hp_nil := by simp
  hp_remove := fun hs h hh => Nat.le_trans (removeHolder_length_le hs h) hh
  hp_same := fun hs h h' hh _ _ => by rw [replaceHolder_len]; exact hh
  hp_update := fun k c h h' _ hh _ _ _ _ => by rw [replaceHolder_len]; exact hh
  hp_relock := fun k c h h' _ hh _ _ _ _ _ => by rw [replaceHolder_len]; exact hh
  hp_grant := by
    intro k c h hi _ hc hd _ _
    have hl := hi.length_le_locked
    have hlk : k.locked ≤ N := by
      rcases Slock.C01.doLock_sound k c hd with h0 | ⟨_, cur, _, hlt, hge⟩
      · omega
      · by_cases hx : k.locked < 0xffff
        · have := (hlt hx).2; omega
        · have := (hge (by omega)).2; omega
    simp only [List.length_append, List.length_singleton]
    omega

/-- writer-alone: a holder with Count 0 is the only holder -/
def WriterAlone (hs : List Hold) : Prop := ∀ h ∈ hs, h.cmd.count = 0 → hs.length = 1

theorem removeHolder_single (y h : Hold) : removeHolder [y] h = [] ∨ removeHolder [y] h = [y] := by
  unfold removeHolder
  split
  · exact Or.inl rfl
  · exact Or.inr (by simp [removeHolder])

def waPolicy (K : Nat) : Policy where
  K := K
  D := fun c => c.rcount = 0 ∧ has c.flag F_UPDATE = false
  HP := WriterAlone
  D_conn := fun _ _ h => h
  hp_nil := by intro h hm; simp at hm
  hp_remove := by
    intro hs h0 hh x hx hc
    have hm := mem_removeHolder hx
    have hl := hh x hm hc
    match hs, hl with
    | [y], _ =>
      rcases removeHolder_single y h0 with e | e
      · rw [e] at hx; simp at hx
      · rw [e]; rfl
  hp_same := by
    intro hs h h' hh hm hc x hx hx0
    rw [replaceHolder_len]
    rcases mem_replaceHolder hx with h1 | h1
    · exact hh x h1 hx0
    · rw [h1, hc] at hx0; exact hh h hm hx0
  hp_update := by
    intro k c h h' _ _ _ hd hf _
    rw [hd.2] at hf; exact absurd hf (by simp)
  hp_relock := by
    intro k c h h' hi _ hm hd _ hdep _
    have := hi.pos h hm
    rw [hd.1] at hdep; omega
  hp_grant := by
    intro k c h hi hh _ hd hcmd _ x hx hx0
    simp only [List.length_append, List.length_singleton]
    rcases List.mem_append.mp hx with h1 | h1
    · -- an existing holder with Count 0: it is alone and heads the list, so `doLock` cannot have admitted `c`
      exfalso
      have hl := hh x h1 hx0
      have hpos := hi.pos x h1
      have hle := hi.depth_le h1
      have hhead : k.holders.head? = some x := by
        match hks : k.holders, hl with
        | [y], _ => rw [hks] at h1; simp at h1; simp [h1]
      rcases Slock.C01.doLock_sound k c hd with h0 | ⟨_, cur, hcur, hlt, hge⟩
      · omega
      · rw [hhead] at hcur; injection hcur with hcur
        by_cases hb : k.locked < 0xffff
        · have := (hlt hb).1; rw [← hcur, hx0] at this; omega
        · have := (hge (by omega)).1; rw [← hcur, hx0] at this; omega
    · -- the new holder has Count 0: the key was free
      simp at h1
      rw [h1, hcmd] at hx0
      rcases Slock.C01.doLock_sound k c hd with h0 | ⟨hne, _⟩
      · have := hi.locked_zero_iff.mp h0; rw [this]; rfl
      · exact absurd hx0 hne

end Slock.Engine
