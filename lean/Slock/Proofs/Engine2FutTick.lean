import Slock.Proofs.Engine2FutOps
/-! Stage-2 engine: the sweep steps as `Ok` steps, and what each does to the entry it was called for: afterwards that record has no
entry on the swept wheel, or a fresh one. -/
namespace Slock.Engine2
open Slock.Engine (has)

/-- no entry, or one scheduled after second `c` -/
def Gone (c : Nat) (o : Option (Nat × Nat)) : Prop := o = none ∨ ∃ v q, o = some (v, q) ∧ c < v

theorem gone_of_step {c : Nat} {n : Option (Nat × Nat)} (h : Step c n none) : Gone c n := by
  rcases h with h | h | h
  · exact Or.inl h
  · exact Or.inl h
  · exact Or.inr h

theorem πT_dead (rid : Nat) : πT (deadRec rid) = none := rfl
theorem πE_dead (rid : Nat) : πE (deadRec rid) = none := rfl

/-- from a state in which `rid` has no timeout entry (or is not there) -/
theorem ownT_of_ok {ct ce : Nat} {wm w' : W} (h : Ok ct ce wm w') (rid : Nat) (hm : wm.k.hasRec rid → πT (wm.k.getR rid) = none) :
    w'.k.hasRec rid → Gone ct (πT (w'.k.getR rid)) := by
  intro hh
  have hs := (h.ks rid hh).t
  by_cases hx : wm.k.hasRec rid
  · rw [hm hx] at hs; exact gone_of_step hs
  · rw [getR_of_not_hasRec _ _ hx, πT_dead] at hs; exact gone_of_step hs

theorem ownE_of_ok {ct ce : Nat} {wm w' : W} (h : Ok ct ce wm w') (rid : Nat) (hm : wm.k.hasRec rid → πE (wm.k.getR rid) = none) :
    w'.k.hasRec rid → Gone ce (πE (w'.k.getR rid)) := by
  intro hh
  have hs := (h.ks rid hh).e
  by_cases hx : wm.k.hasRec rid
  · rw [hm hx] at hs; exact gone_of_step hs
  · rw [getR_of_not_hasRec _ _ hx, πE_dead] at hs; exact gone_of_step hs

theorem πT_tNone (w : W) (rid : Nat) : (w.modR rid (fun r => { r with tSched := none })).k.hasRec rid →
    πT ((w.modR rid (fun r => { r with tSched := none })).k.getR rid) = none := by
  intro hh
  have hk := (hasRec_modR w rid rid _ (by intro _; rfl)).mp hh
  show πT ((w.k.modRec rid _).getR rid) = none
  rw [getR_modRec_same _ _ _ (by intro _; rfl) hk]; rfl

theorem πE_eNone (w : W) (rid : Nat) : (w.modR rid (fun r => { r with eSched := none })).k.hasRec rid →
    πE ((w.modR rid (fun r => { r with eSched := none })).k.getR rid) = none := by
  intro hh
  have hk := (hasRec_modR w rid rid _ (by intro _; rfl)).mp hh
  show πE ((w.k.modRec rid _).getR rid) = none
  rw [getR_modRec_same _ _ _ (by intro _; rfl) hk]; rfl

/-- `dropT`: the record's timeout entry is gone afterwards — also after whatever `Ok` steps follow -/
theorem ownT_dropT {ct ce : Nat} {w w' : W} (rid : Nat) (h : Ok ct ce (w.dropT rid) w') (h0 : Ok ct ce w w) :
    w'.k.hasRec rid → Gone ct (πT (w'.k.getR rid)) := by
  have hm : Ok ct ce (w.modR rid (fun r => { r with tSched := none })) (w.dropT rid) := by
    unfold W.dropT
    exact (Ok.refl (w := w.modR rid (fun r => { r with tSched := none })) h0.tc h0.ec).unrefCheck rid
  exact ownT_of_ok (h.rebase hm) rid (πT_tNone w rid)

theorem ownE_dropE {ct ce : Nat} {w w' : W} (rid : Nat) (h : Ok ct ce (w.dropE rid) w') (h0 : Ok ct ce w w) :
    w'.k.hasRec rid → Gone ce (πE (w'.k.getR rid)) := by
  have hm : Ok ct ce (w.modR rid (fun r => { r with eSched := none })) (w.dropE rid) := by
    unfold W.dropE
    exact (Ok.refl (w := w.modR rid (fun r => { r with eSched := none })) h0.tc h0.ec).unrefCheck rid
  exact ownE_of_ok (h.rebase hm) rid (πE_eNone w rid)

theorem not_hasT_gone {c : Nat} (k : Key) (rid : Nat) (h : k.hasT rid = false) : k.hasRec rid → Gone c (πT (k.getR rid)) := by
  intro hh
  unfold Key.hasT at h
  rw [(any_iff_hasRec k rid).mpr hh] at h
  have : (k.getR rid).tSched.isSome = false := by simpa using h
  left; unfold πT; rw [isSome_false this]; rfl

theorem not_hasE_gone {c : Nat} (k : Key) (rid : Nat) (h : k.hasE rid = false) : k.hasRec rid → Gone c (πE (k.getR rid)) := by
  intro hh
  unfold Key.hasE at h
  rw [(any_iff_hasRec k rid).mpr hh] at h
  have : (k.getR rid).eSched.isSome = false := by simpa using h
  left; unfold πE; rw [isSome_false this]; rfl

/-! ### the four sweep steps -/

theorem visitTimeout_ok {ct ce : Nat} {w : W} (h0 : Ok ct ce w w) (slot : Bool) (rid : Nat) (w' : W) (hv : w.visitTimeout slot rid = some w') :
    Ok ct ce w w' ∧ (w'.k.hasRec rid → Gone ct (πT (w'.k.getR rid))) := by
  unfold W.visitTimeout at hv
  simp only [] at hv
  split at hv
  · rename_i hg
    injection hv with hv; subst hv
    exact ⟨h0.wheelBroken, not_hasT_gone w.k rid (by simpa using hg)⟩
  rename_i hg
  have hs := hasT_spec w.k rid (by simpa using hg)
  split at hv
  · injection hv with hv; subst hv
    exact ⟨h0.dropT rid, ownT_dropT rid (Ok.refl (h0.dropT rid).tc (h0.dropT rid).ec) h0⟩
  · split at hv
    · injection hv with hv; subst hv
      have h1 := h0.modR_eq rid (fun r => { r with tChecked := r.tChecked + 1 }) (by intro _; rfl) (by intro _; rfl) (by intro _; rfl)
      refine ⟨h1.addTimeOut rid, fun _ => ?_⟩
      have hh1 : (w.modR rid (fun r => { r with tChecked := r.tChecked + 1 })).k.hasRec rid := (hasRec_modR _ rid rid _ (by intro _; rfl)).mpr hs.1
      right
      unfold W.addTimeOut
      simp only []
      rw [getR_modRec_same _ _ _ (by intro _; rfl) hh1]
      exact ⟨_, _, rfl, Nat.lt_of_lt_of_le h1.tc (wheelAdd_visit_ge _ _ _ _)⟩
    · simp at hv

theorem visitExpire_ok {ct ce : Nat} {w : W} (h0 : Ok ct ce w w) (slot : Bool) (rid : Nat) (w' : W) (hv : w.visitExpire slot rid = some w') :
    Ok ct ce w w' ∧ (w'.k.hasRec rid → Gone ce (πE (w'.k.getR rid))) := by
  unfold W.visitExpire at hv
  simp only [] at hv
  split at hv
  · rename_i hg
    injection hv with hv; subst hv
    exact ⟨h0.wheelBroken, not_hasE_gone w.k rid (by simpa using hg)⟩
  rename_i hg
  have hs := hasE_spec w.k rid (by simpa using hg)
  split at hv
  · injection hv with hv; subst hv
    exact ⟨h0.dropE rid, ownE_dropE rid (Ok.refl (h0.dropE rid).tc (h0.dropE rid).ec) h0⟩
  · split at hv
    · injection hv with hv; subst hv
      have h1 := h0.modR_eq rid (fun r => { r with eChecked := r.eChecked + 1 }) (by intro _; rfl) (by intro _; rfl) (by intro _; rfl)
      refine ⟨h1.addExpried rid, fun _ => ?_⟩
      have hh1 : (w.modR rid (fun r => { r with eChecked := r.eChecked + 1 })).k.hasRec rid := (hasRec_modR _ rid rid _ (by intro _; rfl)).mpr hs.1
      -- after `AddExpried` the entry is the fresh one (journalling does not touch it)
      have hsch : Gone ce (πE ((((w.modR rid (fun r => { r with eChecked := r.eChecked + 1 })).schedExpried rid)).k.getR rid)) := by
        unfold W.schedExpried
        simp only []
        rw [getR_modRec_same _ _ _ (by intro _; rfl) hh1]
        exact Or.inr ⟨_, _, rfl, Nat.lt_of_lt_of_le h1.ec (wheelAdd_visit_ge _ _ _ _)⟩
      unfold W.addExpried W.when
      simp only []
      split
      · rw [pushLockAofN_proj πE (fun _ _ => rfl) (fun _ _ => rfl)]; exact hsch
      · exact hsch
    · simp at hv

theorem addExpried_fresh {ce : Nat} (w : W) (rid : Nat) (h : ce < w.db.eCheck) (hh : w.k.hasRec rid) : Gone ce (πE ((w.addExpried rid).k.getR rid)) := by
  have hsch : Gone ce (πE ((w.schedExpried rid).k.getR rid)) := by
    unfold W.schedExpried
    simp only []
    rw [getR_modRec_same _ _ _ (by intro _; rfl) hh]
    exact Or.inr ⟨_, _, rfl, Nat.lt_of_lt_of_le h (wheelAdd_visit_ge _ _ _ _)⟩
  unfold W.addExpried W.when
  simp only []
  split
  · rw [pushLockAofN_proj πE (fun _ _ => rfl) (fun _ _ => rfl)]; exact hsch
  · exact hsch

theorem fireTimeout_ok {ct ce : Nat} {w : W} (h0 : Ok ct ce w w) (rid : Nat) :
    Ok ct ce w (w.fireTimeout rid) ∧ ((w.fireTimeout rid).k.hasRec rid → Gone ct (πT ((w.fireTimeout rid).k.getR rid))) := by
  unfold W.fireTimeout
  simp only []
  split
  · rename_i hg
    exact ⟨h0.wheelBroken, not_hasT_gone w.k rid (by simpa using hg)⟩
  split
  · exact ⟨h0.dropT rid, ownT_dropT rid (Ok.refl (h0.dropT rid).tc (h0.dropT rid).ec) h0⟩
  · have h4 := ((h0.modR_eq rid (fun r => { r with timeouted := true }) (by intro _; rfl) (by intro _; rfl) (by intro _; rfl)).modK_pk (·.settleWait)
      (PKeep.settleWait ins_πT _) (PKeep.settleWait ins_πE _)).ctr (fun y => { y with waitCount := y.waitCount - 1 })
    have h5 := h4.dropT rid
    have hf := (Ok.refl (ct := ct) (ce := ce) h5.tc h5.ec).ctr (fun y => { y with timeoutedCount := y.timeoutedCount + 1 })
    have hfin := (hf.reply { (w.k.getR rid).cmd with conn := (w.k.getR rid).conn } Slock.Engine.RESULT_TIMEOUT 0
      (((((w.modR rid (fun r => { r with timeouted := true })).modK (·.settleWait)).ctr (fun y => { y with waitCount := y.waitCount - 1 })).dropT rid).ctr
        (fun y => { y with timeoutedCount := y.timeoutedCount + 1 })).lockData).wake
    exact ⟨hfin.rebase h5, ownT_dropT rid hfin (Ok.refl h4.tc h4.ec)⟩

theorem fireExpire_ok {ct ce : Nat} {w : W} (h0 : Ok ct ce w w) (rid : Nat) :
    Ok ct ce w (w.fireExpire rid) ∧ ((w.fireExpire rid).k.hasRec rid → Gone ce (πE ((w.fireExpire rid).k.getR rid))) := by
  unfold W.fireExpire
  simp only []
  split
  · rename_i hg
    exact ⟨h0.wheelBroken, not_hasE_gone w.k rid (by simpa using hg)⟩
  rename_i hg
  have hs := hasE_spec w.k rid (by simpa using hg)
  split
  · exact ⟨h0.dropE rid, ownE_dropE rid (Ok.refl (h0.dropE rid).tc (h0.dropE rid).ec) h0⟩
  · split
    · have h1 := h0.modR_eq rid (fun r => { r with expT := w.db.now + 30 }) (by intro _; rfl) (by intro _; rfl) (by intro _; rfl)
      refine ⟨h1.addExpried rid, fun _ => ?_⟩
      exact addExpried_fresh _ rid h1.ec ((hasRec_modR _ rid rid _ (by intro _; rfl)).mpr hs.1)
    · have h4 := (((h0.modR_eq rid (fun r => { r with expried := true }) (by intro _; rfl) (by intro _; rfl) (by intro _; rfl)).modK_recs
        (fun k => { k with locked := k.locked - (w.k.getR rid).depth }) rfl).when (w.k.getR rid).isAof
        (·.pushUnLockAof rid (w.k.getR rid).cmd false false AOF_EXPRIED) (fun h' => h'.pushUnLockAof rid _ false false AOF_EXPRIED)).modK_pk
        (·.removeLock rid) (PKeep.removeLock ins_πT (fun _ _ => rfl) _ rid) (PKeep.removeLock ins_πE (fun _ _ => rfl) _ rid)
      have h5 := h4.dropE rid
      have hf := (Ok.refl (ct := ct) (ce := ce) h5.tc h5.ec).ctr
        (fun y => { y with lockedCount := y.lockedCount - (w.k.getR rid).depth, expriedCount := y.expriedCount + 1 })
      have hfin := (hf.reply { (w.k.getR rid).cmd with conn := (w.k.getR rid).conn } Slock.Engine.RESULT_EXPRIED 0
        ((((((w.modR rid (fun r => { r with expried := true })).modK (fun k => { k with locked := k.locked - (w.k.getR rid).depth })).when (w.k.getR rid).isAof
          (·.pushUnLockAof rid (w.k.getR rid).cmd false false AOF_EXPRIED)).modK (·.removeLock rid)).dropE rid).ctr
          (fun y => { y with lockedCount := y.lockedCount - (w.k.getR rid).depth, expriedCount := y.expriedCount + 1 })).lockData).wake
      exact ⟨hfin.rebase h5, ownE_dropE rid hfin (Ok.refl h4.tc h4.ec)⟩

end Slock.Engine2
