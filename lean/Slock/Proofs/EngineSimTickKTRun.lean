import Slock.Proofs.EngineSimTickKTOps
import Slock.Proofs.EngineSimTickKTTick
/-! `KT` pass, part 6: `DBKT` is an invariant of every reachable state (`run_dbkt`). -/
namespace Slock.SimTick
open Slock Slock.Sim Slock.Engine2
open Slock.Engine (has)
set_option linter.unusedVariables false

theorem opLock_dbkt (s : DB) (hq : DBQ s) (hk : DBK s) (h : DBKT s) (c : Engine.Cmd) (data : Option Bytes) : DBKT (opLock s c data).1 := by
  unfold opLock
  simp only []
  have f := applyLock_fr s c data (classifyLock s c data)
  have hs := (DBside.lockBase hq.dbt.dbi c (classifyLock s c data)).of_fr f
  have hw := applyLock_wt s h c (hk.getKey c.key) data (classifyLock s c data) (fun x hx => classifyLock_holder s c data x hx)
  exact DBKT.commit _ _ f (others_lockBase_p h c (classifyLock s c data)) hs hw

theorem opUnlock_dbkt (s : DB) (hq : DBQ s) (hk : DBK s) (h : DBKT s) (c : Engine.Cmd) (data : Option Bytes) : DBKT (opUnlock s c data).1 := by
  unfold opUnlock
  simp only []
  have f := applyUnlock_fr s c data (classifyUnlock s c)
  exact DBKT.commit (s.openKey c.key) _ f (fun k hk _ => h k hk) ((hq.dbt.dbi.openKey c.key).of_fr f) (applyUnlock_wt s h c data (classifyUnlock s c))

theorem step_dbkt (s : DB) (o : Op) (hq : DBQ s) (hk : DBK s) (h : DBKT s) : DBKT (step s o).1 := by
  cases o with
  | lock c d => exact opLock_dbkt s hq hk h c d
  | unlock c d => exact opUnlock_dbkt s hq hk h c d
  | tick => exact opTick_dbkt s hq hk h
  | setLeader b => exact h.of_keys rfl

/-- **every reachable state satisfies `KT`** -/
theorem run_dbkt (s : DB) (ops : List Op) (hq : DBQ s) (hk : DBK s) (h : DBKT s) : DBKT (run s ops) := by
  induction ops generalizing s with
  | nil => exact h
  | cons o os ih => unfold run; simp only [List.foldl_cons]; exact ih _ (step_dbq s o hq) (step_dbk s o hq hk) (step_dbkt s o hq hk h)

end Slock.SimTick
