import Slock.Proofs.TransKeep
/-! M-TRANS: at most one lock / unlock result per request — the per-connection invariant behind it. -/
namespace Slock.Trans
open Slock.Gen

/-- per-connection invariant (ghost bookkeeping against the link's real fields) -/
structure CInv (x : Conn) : Prop where
  gotNodup : x.got.Nodup
  gotAsked : ∀ r ∈ x.got, r ∈ x.asked
  pendAsked : ∀ l, x.link = some l → ∀ r ∈ l.pend, r ∈ x.asked
  pendFresh : ∀ l, x.link = some l → ∀ r ∈ l.pend, r ∉ x.got
  pendNodup : ∀ l, x.link = some l → l.pend.Nodup
  /-- the latest in-flight LOCK / UNLOCK has not been answered -/
  latestPend : ∀ l ct, x.link = some l → l.latestT = some ct → ct = .lock ∨ ct = .unlock → l.latestR ∈ l.pend
  /-- a blocked (text) handler waits for the latest command written to its link, and that one is pending -/
  awaitPend : ∀ a md, x.awaiting = some (a, md) → x.kind = .text ∧
    ∃ l ct, x.link = some l ∧ l.latestT = some ct ∧ (ct = .lock ∨ ct = .unlock) ∧ l.latestR = a ∧ a ∈ l.pend

/-- the assumptions about the environment under which "at most one result" holds: the client does not reuse a
RequestId on a connection; the leader answers a LOCK / UNLOCK only on the link instance it arrived on and only once;
(whether an answer overtakes `Write`'s bookkeeping — `early` — no longer matters). -/
def Ok (s : Node) : Event → Prop
  | .request c _ q => ∀ x, s.conns[c]? = some x →
      (∀ rid, reqRid q = some rid → rid ∉ x.asked) ∧ (∀ ct md cmd rep, q = .lk ct md cmd rep → ct = .lock ∨ ct = .unlock)
  | .leaderMsg c (.lockRes r) _ => ∀ x l, s.conns[c]? = some x → x.link = some l → r.rid ∈ l.pend
  | _ => True

def OkRun : Node → List Event → Prop
  | _, [] => True
  | s, e :: es => Ok s e ∧ OkRun (step s e).1 es

def NInv (s : Node) : Prop := ∀ x ∈ s.conns, CInv x

theorem cinv_default (k : Kind) : CInv { kind := k } :=
  ⟨by simp, by simp, by simp, by simp, by simp, by simp, by simp⟩

/-! ### helpers -/

theorem mem_erase_of_ne' {l : List Nat} {a b : Nat} (h : a ∈ l) (hne : a ≠ b) : a ∈ l.erase b :=
  (List.mem_erase_of_ne hne).mpr h

theorem nodup_not_mem_erase {l : List Nat} {a : Nat} (h : l.Nodup) : a ∉ l.erase a := by
  intro hm
  exact (List.Nodup.mem_erase_iff h).mp hm |>.1 rfl

/-- the client is handed a result for `rid` which is neither delivered yet nor (any longer) pending afterwards -/
theorem cinv_addGot {x : Conn} {m : ToClient} (hx : CInv x) (hfresh : ∀ rid, lockShaped m = some rid → rid ∉ x.got ∧ rid ∈ x.asked)
    (hp : ∀ rid l, lockShaped m = some rid → x.link = some l → rid ∉ l.pend) : CInv (addGot x m) := by
  unfold addGot
  split
  · rename_i rid hrid
    obtain ⟨hng, hask⟩ := hfresh rid hrid
    refine ⟨?_, ?_, ?_, ?_, hx.pendNodup, hx.latestPend, hx.awaitPend⟩
    · simp only [List.nodup_append, List.nodup_cons, List.not_mem_nil, not_false_eq_true, List.nodup_nil, and_self, true_and]
      refine ⟨hx.gotNodup, ?_⟩
      intro a ha b hb
      simp at hb; subst hb
      intro e; subst e; exact hng ha
    · intro r hr
      simp at hr
      rcases hr with hr | rfl
      · exact hx.gotAsked r hr
      · exact hask
    · exact hx.pendAsked
    · intro l hl r hr hg
      simp at hg
      rcases hg with hg | rfl
      · exact hx.pendFresh l hl r hr hg
      · exact hp r l hrid hl hr
  · exact hx

/-- replace the link (and what the handler waits for) -/
theorem cinv_relink {x : Conn} {l' : Link} {aw : Option (Nat × TextMode)} (hx : CInv x)
    (h1 : ∀ r ∈ l'.pend, r ∈ x.asked ∧ r ∉ x.got) (h2 : l'.pend.Nodup)
    (h3 : ∀ ct, l'.latestT = some ct → ct = .lock ∨ ct = .unlock → l'.latestR ∈ l'.pend)
    (h4 : ∀ a md, aw = some (a, md) → x.kind = .text ∧ ∃ ct, l'.latestT = some ct ∧ (ct = .lock ∨ ct = .unlock) ∧ l'.latestR = a ∧ a ∈ l'.pend) :
    CInv { x with link := some l', awaiting := aw } := by
  refine ⟨hx.gotNodup, hx.gotAsked, ?_, ?_, ?_, ?_, ?_⟩
  · intro l hl r hr; cases hl; exact (h1 r hr).1
  · intro l hl r hr; cases hl; exact (h1 r hr).2
  · intro l hl; cases hl; exact h2
  · intro l ct hl; cases hl; exact h3 ct
  · intro a md ha
    obtain ⟨hk, ct, h5, h6, h7, h8⟩ := h4 a md ha
    exact ⟨hk, l', ct, rfl, h5, h6, h7, h8⟩

/-- no link: nothing is pending (the handler must not be blocked) -/
theorem cinv_unlink {x : Conn} (hx : CInv x) (ha : x.awaiting = none) : CInv { x with link := none } := by
  refine ⟨hx.gotNodup, hx.gotAsked, ?_, ?_, ?_, ?_, ?_⟩
  · intro l hl; cases hl
  · intro l hl; cases hl
  · intro l hl; cases hl
  · intro l ct hl; cases hl
  · intro a md h; rw [ha] at h; cases h

theorem cinv_dispatched {s : Node} {x : Conn} (rid : Option Nat) (hx : CInv x) : CInv (dispatched s x rid).1 := by
  have hsub : ∀ r ∈ x.asked, r ∈ (match rid with | some r' => x.asked ++ [r'] | none => x.asked) := by
    intro r hr; split <;> simp [hr]
  refine ⟨hx.gotNodup, fun r hr => hsub r (hx.gotAsked r hr), fun l hl r hr => hsub r (hx.pendAsked l hl r hr),
    hx.pendFresh, hx.pendNodup, hx.latestPend, hx.awaitPend⟩

/-- the link `CheckClient` hands out is consistent with the ghost bookkeeping -/
theorem checkClient_inv {s : Node} {x : Conn} {ic : Option (Nat × Nat)} {l : Link} {n : Bool} {pre : List Fwd}
    (hx : CInv x) (h : checkClient s x ic = some (l, n, pre)) :
    (∀ r ∈ l.pend, r ∈ x.asked ∧ r ∉ x.got) ∧ l.pend.Nodup ∧
    (∀ ct, l.latestT = some ct → ct = .lock ∨ ct = .unlock → l.latestR ∈ l.pend) ∧
    (x.awaiting = none ∨ x.link = some l) := by
  rcases checkClient_some h with ⟨_, hl, _⟩ | ⟨_, hl, rfl, _, _, _⟩
  · exact ⟨fun r hr => ⟨hx.pendAsked l hl r hr, hx.pendFresh l hl r hr⟩, hx.pendNodup l hl, fun ct => hx.latestPend l ct hl, Or.inr hl⟩
  · refine ⟨?_, ?_, ?_, ?_⟩
    · intro r hr; cases ic with
      | none => simp [newLink] at hr
      | some p => obtain ⟨a, b⟩ := p; simp [newLink] at hr
    · cases ic with
      | none => simp [newLink]
      | some p => obtain ⟨a, b⟩ := p; simp [newLink]
    · intro ct hct hlu
      cases ic with
      | none => simp [newLink] at hct
      | some p =>
        obtain ⟨a, b⟩ := p
        simp [newLink] at hct
        subst hct
        rcases hlu with h | h <;> cases h
    · cases ha : x.awaiting with
      | none => exact Or.inl rfl
      | some p =>
        obtain ⟨a, md⟩ := p
        obtain ⟨_, l0, _, hl0, _⟩ := hx.awaitPend a md ha
        rw [hl] at hl0; cases hl0

@[simp] theorem dispatched_got (s : Node) (x : Conn) (rid : Option Nat) : (dispatched s x rid).1.got = x.got := rfl
@[simp] theorem dispatched_link (s : Node) (x : Conn) (rid : Option Nat) : (dispatched s x rid).1.link = x.link := rfl
@[simp] theorem dispatched_kind (s : Node) (x : Conn) (rid : Option Nat) : (dispatched s x rid).1.kind = x.kind := rfl
@[simp] theorem dispatched_awaiting (s : Node) (x : Conn) (rid : Option Nat) : (dispatched s x rid).1.awaiting = x.awaiting := rfl
@[simp] theorem dispatched_asked_some (s : Node) (x : Conn) (r : Nat) : (dispatched s x (some r)).1.asked = x.asked ++ [r] := rfl

theorem lockShaped_localRes {ct : CType} {cmd : LockCmd} {res lc lrc : Nat} {d : List Nat} {rid : Nat}
    (h : lockShaped (.lockRes (localRes ct cmd res lc lrc d)) = some rid) : rid = cmd.rid := by
  cases ct <;> simp [lockShaped, localRes] at h
  all_goals exact h.symm

/-- a result fabricated for the request being processed (its RequestId is fresh) keeps the invariant -/
theorem cinv_answer_now {s : Node} {x : Conn} {rid : Nat} {m : ToClient} (hx : CInv x) (hfresh : rid ∉ x.asked)
    (hm : ∀ r, lockShaped m = some r → r = rid) : CInv (addGot (dispatched s x (some rid)).1 m) := by
  apply cinv_addGot (cinv_dispatched (some rid) hx)
  · intro r hr
    have := hm r hr; subst this
    refine ⟨?_, by simp⟩
    simp only [dispatched_got]
    exact fun hg => hfresh (hx.gotAsked r hg)
  · intro r l hr hl hp
    have := hm r hr; subst this
    simp only [dispatched_link] at hl
    exact hfresh (hx.pendAsked l hl r hp)

/-- the command is written to the link `CheckClient` handed out -/
theorem cinv_forward {s : Node} {x : Conn} {ic : Option (Nat × Nat)} {l : Link} {n : Bool} {pre : List Fwd} {rid : Nat} {ct : CType}
    {aw : Option (Nat × TextMode)} (hx : CInv x) (hcc : checkClient s x ic = some (l, n, pre)) (hfresh : rid ∉ x.asked)
    (haw : aw = none ∨ (x.kind = .text ∧ (ct = .lock ∨ ct = .unlock) ∧ ∃ md, aw = some (rid, md))) :
    CInv { (dispatched s x (some rid)).1 with link := some (setLatest l ct rid), awaiting := aw } := by
  obtain ⟨c1, c2, c3, _⟩ := checkClient_inv hx hcc
  have hd := cinv_dispatched (s := s) (some rid) hx
  have hnp : rid ∉ l.pend := fun h => hfresh (c1 rid h).1
  apply cinv_relink hd
  · intro r hr
    simp only [setLatest] at hr
    split at hr
    · simp at hr
      rcases hr with hr | rfl
      · exact ⟨by simp [(c1 r hr).1], by simpa using (c1 r hr).2⟩
      · exact ⟨by simp, by simp only [dispatched_got]; exact fun hg => hfresh (hx.gotAsked _ hg)⟩
    · exact ⟨by simp [(c1 r hr).1], by simpa using (c1 r hr).2⟩
  · simp only [setLatest]
    split
    · rw [List.nodup_append]
      refine ⟨c2, by simp, ?_⟩
      intro a ha b hb
      simp at hb; subst hb
      intro e; subst e; exact hnp ha
    · exact c2
  · intro ct' hct hlu
    simp only [setLatest] at hct ⊢
    cases hct
    simp [hlu]
  · intro a md ha
    rcases haw with h | ⟨hk, hlu, md', h⟩
    · rw [h] at ha; cases ha
    · rw [h] at ha; cases ha
      exact ⟨hk, ct, rfl, hlu, rfl, by simp [setLatest, hlu]⟩

/-- a link with the pending list of the candidate `l` whose latest command is `l`'s or not a LOCK / UNLOCK -/
theorem cinv_relink_same {x : Conn} {l l' : Link} (hx : CInv x)
    (c1 : ∀ r ∈ l.pend, r ∈ x.asked ∧ r ∉ x.got) (c2 : l.pend.Nodup)
    (c3 : ∀ ct, l.latestT = some ct → ct = .lock ∨ ct = .unlock → l.latestR ∈ l.pend)
    (hp : l'.pend = l.pend)
    (h3 : ∀ ct, l'.latestT = some ct → ct = .lock ∨ ct = .unlock → l.latestT = some ct ∧ l'.latestR = l.latestR)
    (h4 : x.awaiting = none) : CInv { x with link := some l' } := by
  have := cinv_relink (x := x) (l' := l') (aw := x.awaiting) hx ?_ ?_ ?_ ?_
  · exact this
  · intro r hr; rw [hp] at hr; exact c1 r hr
  · rw [hp]; exact c2
  · intro ct hct hlu
    obtain ⟨h5, h6⟩ := h3 ct hct hlu
    rw [hp, h6]; exact c3 ct h5 hlu
  · intro a md ha; rw [h4] at ha; cases ha

theorem classify_active {s : Node} {x : Conn} {short : Bool} {q : Req}
    (h1 : classify s x short q ≠ .ign) (h2 : classify s x short q ≠ .busy) : x.closed = false ∧ x.awaiting = none := by
  unfold classify at h1 h2
  by_cases hc : x.closed = true
  · simp [hc] at h1
  · by_cases ha : x.awaiting.isSome = true
    · simp [hc, ha] at h2
    · constructor
      · simpa using hc
      · cases hw : x.awaiting with
        | none => rfl
        | some p => simp [hw] at ha

/-- **the invariant survives a request** whose RequestId the client has not used on this connection before -/
theorem cinv_request {s : Node} {c : Nat} {x : Conn} {short : Bool} {q : Req} (hx : CInv x)
    (hfresh : ∀ rid, reqRid q = some rid → rid ∉ x.asked)
    (hty : ∀ ct md cmd rep, q = .lk ct md cmd rep → ct = .lock ∨ ct = .unlock) :
    CInv (applyConn s c x (reqRid q) (classify s x short q)).1 := by
  cases q with
  | will wct wcmd =>
    rcases classify_will_shape (s := s) (x := x) (short := short) (ct := wct) (cmd := wcmd) with h | h | h <;> rw [h] <;> simp only [applyConn]
    · exact hx
    · exact hx
    · exact cinv_dispatched _ hx
  | other =>
    rcases classify_other_shape (s := s) (x := x) (short := short) with h | h | h <;> rw [h] <;> simp only [applyConn]
    · exact hx
    · exact hx
    · exact cinv_dispatched _ hx
  | lk ct md cmd rep =>
    have hf : cmd.rid ∉ x.asked := hfresh cmd.rid rfl
    have hlu := hty ct md cmd rep rfl
    rcases classify_lk_shape (s := s) (x := x) (short := short) (ct := ct) (md := md) (cmd := cmd) (rep := rep) with
      h | h | h | ⟨m, h⟩ | ⟨r, h⟩ | ⟨l, n, pre, aw, ack, h⟩ <;> rw [h] <;> simp only [applyConn, reqRid]
    · exact hx
    · exact hx
    · exact cinv_dispatched _ hx
    · apply cinv_answer_now hx hf
      intro r hr
      rcases classify_lk_refuse h with rfl | rfl | rfl | rfl
      · exact lockShaped_localRes hr
      · exact lockShaped_localRes hr
      · cases hr
      · cases hr
    · apply cinv_answer_now hx hf
      intro r' hr
      obtain ⟨_, _, lc, d, _, rfl⟩ := classify_lk_probed h
      exact lockShaped_localRes hr
    · obtain ⟨_, _, _, _, hnow, hk⟩ := classify_lk_fwd h
      rcases hk with ⟨_, hcc, rfl, _⟩ | ⟨hkt, hcc, hm⟩
      · exact cinv_forward hx hcc hf (Or.inl rfl)
      · rcases hm with ⟨_, rfl, _⟩ | ⟨_, rfl, _⟩
        · exact cinv_forward hx hcc hf (Or.inl rfl)
        · exact cinv_forward hx hcc hf (Or.inr ⟨hkt, hlu, md, rfl⟩)
  | init rid cid =>
    rcases classify_init_shape (s := s) (x := x) (short := short) (rid := rid) (cid := cid) with
      h | h | h | h | ⟨l, n, pre, h, hcc⟩
    · rw [h]; exact hx
    · rw [h]; exact hx
    · rw [h]; simp only [applyConn]; exact cinv_dispatched _ hx
    · rw [h]; simp only [applyConn]
      have hd := cinv_dispatched (s := s) (reqRid (.init rid cid)) hx
      exact ⟨hd.gotNodup, hd.gotAsked, hd.pendAsked, hd.pendFresh, hd.pendNodup, hd.latestPend, hd.awaitPend⟩
    · have hact := classify_active (s := s) (x := x) (short := short) (q := .init rid cid) (by rw [h]; simp) (by rw [h]; simp)
      rw [h]; simp only [applyConn, reqRid]
      obtain ⟨c1, c2, c3, _⟩ := checkClient_inv hx hcc
      have hd := cinv_dispatched (s := s) (some rid) hx
      have key : CInv { (dispatched s x (some rid)).1 with link := some (if n = true then l else setLatest l .init rid) } := by
        apply cinv_relink_same (l := l) hd
        · intro r hr; exact ⟨by simp [(c1 r hr).1], by simpa using (c1 r hr).2⟩
        · exact c2
        · exact c3
        · split <;> simp [setLatest]
        · intro ct hct hlu
          split at hct
          · rename_i hn
            split
            · exact ⟨hct, rfl⟩
            · exact absurd hn ‹¬n = true›
          · simp [setLatest] at hct; subst hct; rcases hlu with h' | h' <;> cases h'
        · simpa using hact.2
      exact ⟨key.gotNodup, key.gotAsked, key.pendAsked, key.pendFresh, key.pendNodup, key.latestPend, key.awaitPend⟩
  | call rid fw =>
    rcases classify_call_shape (s := s) (x := x) (short := short) (rid := rid) (fw := fw) with
      h | h | h | h | ⟨l, n, pre, h, hcc⟩
    · rw [h]; exact hx
    · rw [h]; exact hx
    · rw [h]; simp only [applyConn]; exact cinv_dispatched _ hx
    · rw [h]; simp only [applyConn, reqRid]
      apply cinv_answer_now hx (hfresh rid rfl)
      intro r hr; cases hr
    · have hact := classify_active (s := s) (x := x) (short := short) (q := .call rid fw) (by rw [h]; simp) (by rw [h]; simp)
      rw [h]; simp only [applyConn, reqRid]
      obtain ⟨c1, c2, c3, _⟩ := checkClient_inv hx hcc
      have hd := cinv_dispatched (s := s) (some rid) hx
      apply cinv_relink_same (l := l) hd
      · intro r hr; exact ⟨by simp [(c1 r hr).1], by simpa using (c1 r hr).2⟩
      · exact c2
      · exact c3
      · simp [setLatest]
      · intro ct hct hlu
        simp [setLatest] at hct; subst hct; rcases hlu with h' | h' <;> cases h'
      · simpa using hact.2

/-! ### frames from the leader, link loss -/

theorem clearLatest_pend (l : Link) (r : Nat) : (clearLatest l r).pend = l.pend := by
  unfold clearLatest; split <;> rfl

theorem clearLatest_latest {l : Link} {r : Nat} {ct : CType} (h : (clearLatest l r).latestT = some ct) :
    l.latestT = some ct ∧ (clearLatest l r).latestR = l.latestR ∧ l.latestR ≠ r := by
  unfold clearLatest at h ⊢
  split at h
  · cases h
  · rename_i hne; rw [if_neg hne]; exact ⟨h, rfl, hne⟩

theorem clearLatestE_pend (e : Bool) (l : Link) (r : Nat) : (clearLatestE e l r).pend = l.pend :=
  clearLatest_pend l r

theorem clearLatestE_latest {e : Bool} {l : Link} {r : Nat} {ct : CType} (h : (clearLatestE e l r).latestT = some ct) :
    l.latestT = some ct ∧ (clearLatestE e l r).latestR = l.latestR :=
  ⟨(clearLatest_latest h).1, (clearLatest_latest h).2.1⟩

theorem relay_early (s : Node) (c : Nat) (x : Conn) (l : Link) (msg : LeaderMsg) (early : Bool) :
    relay s c x l msg early = relay s c x l msg false := rfl

/-- the link after a lock result for `ρ` was read in order (not `early`): `ρ` is no longer pending -/
theorem answeredLk_ok {x : Conn} {l : Link} {ρ : Nat} (hx : CInv x) (hl : x.link = some l) :
    (∀ r ∈ (answeredLk false l ρ).pend, r ∈ x.asked ∧ r ∉ x.got) ∧ (answeredLk false l ρ).pend.Nodup ∧
    (∀ ct, (answeredLk false l ρ).latestT = some ct → ct = .lock ∨ ct = .unlock →
        (answeredLk false l ρ).latestR ∈ (answeredLk false l ρ).pend) ∧
    ρ ∉ (answeredLk false l ρ).pend := by
  have hnd := hx.pendNodup l hl
  refine ⟨?_, ?_, ?_, ?_⟩
  · intro r hr
    have : r ∈ l.pend := List.mem_of_mem_erase hr
    exact ⟨hx.pendAsked l hl r this, hx.pendFresh l hl r this⟩
  · exact List.Nodup.erase _ hnd
  · intro ct hct hlu
    simp only [answeredLk, clearLatestE] at hct ⊢
    obtain ⟨h1, h2, h3⟩ := clearLatest_latest hct
    rw [h2]
    exact mem_erase_of_ne' (hx.latestPend l ct hl h1 hlu) h3
  · exact nodup_not_mem_erase hnd

theorem cinv_binary_awaiting {x : Conn} (hx : CInv x) (hk : x.kind = .binary) : x.awaiting = none := by
  cases ha : x.awaiting with
  | none => rfl
  | some p =>
    obtain ⟨a, md⟩ := p
    have := (hx.awaitPend a md ha).1
    rw [hk] at this; cases this

theorem relay_binary_eq {s : Node} {c : Nat} {x : Conn} {l : Link} {msg : LeaderMsg} {early : Bool} (hk : x.kind = .binary) :
    relay s c x l msg early =
    match msg with
    | .lockRes r => (addGot { x with link := some (answeredLk early l r.rid) } (.lockRes r), [(c, .lockRes r)])
    | .callRes rid res content => ({ x with link := some (answered early l rid) }, [(c, .callRes rid res content)])
    | .initRes rid res it =>
      let l₁ := answered early l rid
      if l₁.initC.map (·.1) ≠ some rid then ({ x with link := some l₁ }, [])
      else if l₁.initRes.isSome ∧ l₁.initRes ≠ some rid then ({ x with link := some l₁ }, [])
      else
        let l₂ := { l₁ with initRes := if res = 0 then some rid else none }
        ({ x with link := some l₂ }, [(c, .initRes rid res (rewriteInitType s.role s.addr it))])
    | .other => (x, []) := by
  unfold relay
  split
  · rfl
  · rename_i h; rw [hk] at h; cases h

theorem relay_text_eq {s : Node} {c : Nat} {x : Conn} {l : Link} {msg : LeaderMsg} {early : Bool} (hk : x.kind = .text) :
    relay s c x l msg early =
    match msg with
    | .lockRes r =>
      let l₁ := answeredLk early l r.rid
      match x.awaiting with
      | some (a, md) => if a = r.rid then textDeliver x l₁ md r c else ({ x with link := some l₁ }, [])
      | none => ({ x with link := some l₁ }, [])
    | _ => (x, []) := by
  unfold relay
  split
  · rename_i h; rw [hk] at h; cases h
  · cases msg <;> rfl

/-- **the invariant survives a frame from the leader** — a lock result must arrive in order (`early = false`) and, where
it is handed to a binary client as a lock / unlock result, answer a command pending on this link -/
theorem cinv_relay {s : Node} {c : Nat} {x : Conn} {l : Link} {msg : LeaderMsg} {early : Bool} (hx : CInv x) (hl : x.link = some l)
    (hd : ∀ r, msg = .lockRes r → early = false ∧ (x.kind = .binary → (r.ct = .lock ∨ r.ct = .unlock) → r.rid ∈ l.pend)) :
    CInv (relay s c x l msg early).1 := by
  have c1 : ∀ r ∈ l.pend, r ∈ x.asked ∧ r ∉ x.got := fun r hr => ⟨hx.pendAsked l hl r hr, hx.pendFresh l hl r hr⟩
  cases hk : x.kind with
  | binary =>
    have ha := cinv_binary_awaiting hx hk
    rw [relay_binary_eq hk]
    cases msg with
    | other => exact hx
    | lockRes r =>
      obtain ⟨he, hp⟩ := hd r rfl
      subst he
      obtain ⟨a1, a2, a3, a4⟩ := answeredLk_ok (ρ := r.rid) hx hl
      simp only
      have h1 : CInv { x with link := some (answeredLk false l r.rid) } :=
        cinv_relink (aw := x.awaiting) hx a1 a2 a3 (by intro a md h; rw [ha] at h; cases h)
      apply cinv_addGot h1
      · intro rid hrid
        simp only [lockShaped] at hrid
        split at hrid
        · rename_i hlu
          cases hrid
          exact ⟨hx.pendFresh l hl _ (hp hk hlu), hx.pendAsked l hl _ (hp hk hlu)⟩
        · cases hrid
      · intro rid l2 hrid hl2
        simp only [lockShaped] at hrid
        split at hrid
        · cases hrid; cases hl2; exact a4
        · cases hrid
    | callRes rid res ct =>
      simp only
      apply cinv_relink_same (l := l) hx c1 (hx.pendNodup l hl) (fun ct => hx.latestPend l ct hl)
      · exact clearLatestE_pend _ _ _
      · intro ct' h _; exact clearLatestE_latest h
      · exact ha
    | initRes rid res it =>
      simp only
      repeat' split
      all_goals
        apply cinv_relink_same (l := l) hx c1 (hx.pendNodup l hl) (fun ct => hx.latestPend l ct hl)
        · exact clearLatestE_pend _ _ _
        · intro ct' h _; exact clearLatestE_latest h
        · exact ha
  | text =>
    rw [relay_text_eq hk]
    cases msg with
    | other => exact hx
    | callRes rid res ct => exact hx
    | initRes rid res it => exact hx
    | lockRes r =>
      obtain ⟨he, _⟩ := hd r rfl
      subst he
      obtain ⟨a1, a2, a3, a4⟩ := answeredLk_ok (ρ := r.rid) hx hl
      simp only
      split
      · rename_i a md haw
        obtain ⟨_, l0, ct, hl0, hct, hlu, hlat, hap⟩ := hx.awaitPend a md haw
        rw [hl] at hl0; cases hl0
        split
        · rename_i har
          subst har
          unfold textDeliver
          split
          · -- the client is gone: the write fails, the connection closes
            refine ⟨hx.gotNodup, hx.gotAsked, ?_, ?_, ?_, ?_, ?_⟩
            · intro l' h'; cases h'
            · intro l' h'; cases h'
            · intro l' h'; cases h'
            · intro l' ct' h'; cases h'
            · intro a' md' h'; cases h'
          · have h1 : CInv { x with link := some (answeredLk false l r.rid), awaiting := none } :=
              cinv_relink hx a1 a2 a3 (by intro a' md' h; cases h)
            apply cinv_addGot h1
            · intro rid hrid
              have : rid = r.rid := by cases md <;> simp [renderText, lockShaped] at hrid <;> exact hrid.symm
              subst this
              exact ⟨hx.pendFresh l hl _ hap, hx.pendAsked l hl _ hap⟩
            · intro rid l2 hrid hl2
              have : rid = r.rid := by cases md <;> simp [renderText, lockShaped] at hrid <;> exact hrid.symm
              subst this
              cases hl2; exact a4
        · rename_i hne
          have : CInv { x with link := some (answeredLk false l r.rid), awaiting := x.awaiting } := by
            apply cinv_relink hx a1 a2 a3
            intro a' md' h
            rw [haw] at h; cases h
            refine ⟨hk, ct, ?_, hlu, ?_, ?_⟩
            · simp only [answeredLk, clearLatestE, clearLatest]
              rw [if_neg (by rw [hlat]; exact hne)]; exact hct
            · simp only [answeredLk, clearLatestE, clearLatest]
              rw [if_neg (by rw [hlat]; exact hne)]; exact hlat
            · exact mem_erase_of_ne' hap hne
          exact this
      · rename_i haw
        have : CInv { x with link := some (answeredLk false l r.rid), awaiting := x.awaiting } :=
          cinv_relink hx a1 a2 a3 (by intro a' md' h; rw [haw] at h; cases h)
        exact this

theorem rollbackRes_fields (ct : CType) (rid : Nat) : (rollbackRes ct rid).ct = ct ∧ (rollbackRes ct rid).rid = rid := ⟨rfl, rfl⟩

/-- after the rollback nobody is blocked any more: a blocked handler waits for the latest command, which is rolled back -/
theorem rollback_unblocks {s : Node} {c : Nat} {x : Conn} {l : Link} (hx : CInv x) (hl : x.link = some l) :
    ((match rollbackMsg l with | some m => relay s c x l m | none => (x, [])) : Conn × List (Nat × ToClient)).1.awaiting = none ∨
    ((match rollbackMsg l with | some m => relay s c x l m | none => (x, [])) : Conn × List (Nat × ToClient)).1.closed = true := by
  cases ha : x.awaiting with
  | none =>
    left
    cases hk : x.kind with
    | binary =>
      split
      · rename_i m _
        rw [relay_binary_eq hk]
        cases m <;> simp only [addGot_awaiting, ha]
        repeat' split
        all_goals rfl
      · exact ha
    | text =>
      split
      · rename_i m _
        rw [relay_text_eq hk]
        cases m <;> simp only [ha]
      · exact ha
  | some p =>
    obtain ⟨a, md⟩ := p
    obtain ⟨hk, l0, ct, hl0, hct, hlu, hlat, _⟩ := hx.awaitPend a md ha
    rw [hl] at hl0; cases hl0
    have hm : rollbackMsg l = some (.lockRes (rollbackRes ct a)) := by
      unfold rollbackMsg
      rw [hct]
      rcases hlu with rfl | rfl <;> simp [hlat]
    rw [hm]
    simp only [relay_text_eq hk, ha]
    rw [if_pos (rollbackRes_fields ct a).2.symm]
    unfold textDeliver
    split
    · right; rfl
    · left; simp

/-- **the invariant survives the loss of the link** -/
theorem cinv_dropLink {s : Node} {c : Nat} {x : Conn} {l : Link} (hx : CInv x) (hl : x.link = some l) :
    CInv (dropLink s c x l).1 := by
  unfold dropLink
  simp only
  have hr : CInv ((match rollbackMsg l with | some m => relay s c x l m | none => (x, [])) : Conn × List (Nat × ToClient)).1 := by
    split
    · rename_i m hm
      apply cinv_relay hx hl
      intro r hmr
      subst hmr
      refine ⟨rfl, ?_⟩
      intro _ hlu
      obtain ⟨ct, hct, hcase⟩ := rollbackMsg_some hm
      rcases hcase with ⟨_, h⟩ | ⟨_, h⟩
      · cases h
      · cases h
        exact hx.latestPend l ct hl hct hlu
    · exact hx
  have key : ∀ r : Conn × List (Nat × ToClient), CInv r.1 → (r.1.awaiting = none ∨ r.1.closed = true) →
      CInv (if r.1.closed = true then r.1 else { r.1 with link := none }) := by
    intro r hr hu
    split
    · exact hr
    · rename_i hnc
      rcases hu with h | h
      · exact cinv_unlink hr h
      · exact absurd h hnc
  exact key _ hr (rollback_unblocks hx hl)

theorem ninv_dropAll {s : Node} {xs : List Conn} {i : Nat} (h : ∀ x ∈ xs, CInv x) : ∀ y ∈ (dropAll s i xs).1, CInv y := by
  induction xs generalizing i with
  | nil => intro y hy; simp [dropAll] at hy
  | cons x xs ih =>
    intro y hy
    unfold dropAll at hy
    simp only at hy
    split at hy
    · simp only [List.mem_cons] at hy
      rcases hy with rfl | hy
      · exact h _ (by simp)
      · exact ih (fun z hz => h z (by simp [hz])) y hy
    · rename_i l hl
      simp only [List.mem_cons] at hy
      rcases hy with rfl | hy
      · exact cinv_dropLink (h x (by simp)) hl
      · exact ih (fun z hz => h z (by simp [hz])) y hy

/-- **the invariant survives every step** taken under the assumptions `Ok` -/
theorem ninv_step {s : Node} {e : Event} (hs : NInv s) (hok : Ok s e) : NInv (step s e).1 := by
  have hget : ∀ {c x}, s.conns[c]? = some x → CInv x := fun h => hs _ (List.mem_of_getElem? h)
  cases e with
  | accept k =>
    intro y hy
    simp only [step, List.mem_append, List.mem_singleton] at hy
    rcases hy with hy | rfl
    · exact hs y hy
    · exact cinv_default k
  | role r => exact hs
  | unattached c => exact hs
  | request c short q =>
    intro y hy
    simp only [step] at hy
    rcases will_or_not q with ⟨wct, wcmd, rfl⟩ | hq
    · rw [stepRequest_will] at hy
      split at hy
      · exact hs y hy
      · rename_i x hx
        simp only at hy
        rcases List.mem_or_eq_of_mem_set hy with hy | rfl
        · exact hs y hy
        · have hxi := hget hx
          have hd := cinv_dispatched (s := s) (some wcmd.rid) hxi
          unfold willConn
          repeat' split
          all_goals first
            | exact hxi
            | exact ⟨hd.gotNodup, hd.gotAsked, hd.pendAsked, hd.pendFresh, hd.pendNodup, hd.latestPend, hd.awaitPend⟩
    rw [stepRequest_eq hq] at hy
    split at hy
    · exact hs y hy
    · rename_i x hx
      simp only at hy
      rcases List.mem_or_eq_of_mem_set hy with hy | rfl
      · exact hs y hy
      · obtain ⟨h1, h2⟩ := hok x hx
        exact cinv_request (hget hx) h1 h2
  | leaderMsg c msg early =>
    intro y hy
    simp only [step, stepLeaderMsg] at hy
    split at hy
    · exact hs y hy
    · rename_i x hx
      split at hy
      · exact hs y hy
      · rename_i l hl
        simp only at hy
        rcases List.mem_or_eq_of_mem_set hy with hy | rfl
        · exact hs y hy
        · rw [relay_early]
          apply cinv_relay (hget hx) hl
          intro r hr
          subst hr
          exact ⟨rfl, fun _ _ => hok x l hx hl⟩
  | linkDown c =>
    intro y hy
    simp only [step, stepLinkDown] at hy
    split at hy
    · exact hs y hy
    · rename_i x hx
      split at hy
      · exact hs y hy
      · rename_i l hl
        simp only at hy
        rcases List.mem_or_eq_of_mem_set hy with hy | rfl
        · exact hs y hy
        · exact cinv_dropLink (hget hx) hl
  | leader a =>
    intro y hy
    simp only [step, stepLeader] at hy
    split at hy
    · simp only at hy
      exact ninv_dropAll hs y hy
    · exact hs y hy
  | close c =>
    intro y hy
    simp only [step, stepClose] at hy
    split at hy
    · exact hs y hy
    · rename_i x hx
      have hxi := hget hx
      split at hy
      · exact hs y hy
      · split at hy
        · simp only at hy
          rcases List.mem_or_eq_of_mem_set hy with hy | rfl
          · exact hs y hy
          · exact ⟨hxi.gotNodup, hxi.gotAsked, hxi.pendAsked, hxi.pendFresh, hxi.pendNodup, hxi.latestPend, hxi.awaitPend⟩
        · rename_i hna
          simp only at hy
          rcases List.mem_or_eq_of_mem_set hy with hy | rfl
          · exact hs y hy
          · have ha : x.awaiting = none := by
              cases h : x.awaiting with
              | none => rfl
              | some p => simp [h] at hna
            refine ⟨hxi.gotNodup, hxi.gotAsked, ?_, ?_, ?_, ?_, ?_⟩
            · intro l' h'; cases h'
            · intro l' h'; cases h'
            · intro l' h'; cases h'
            · intro l' ct' h'; cases h'
            · intro a' md' h'; rw [ha] at h'; cases h'

  | closeCut c k =>
    intro y hy
    simp only [step, stepClose] at hy
    split at hy
    · exact hs y hy
    · rename_i x hx
      have hxi := hget hx
      split at hy
      · exact hs y hy
      · split at hy
        · simp only at hy
          rcases List.mem_or_eq_of_mem_set hy with hy | rfl
          · exact hs y hy
          · exact ⟨hxi.gotNodup, hxi.gotAsked, hxi.pendAsked, hxi.pendFresh, hxi.pendNodup, hxi.latestPend, hxi.awaitPend⟩
        · rename_i hna
          simp only at hy
          rcases List.mem_or_eq_of_mem_set hy with hy | rfl
          · exact hs y hy
          · have ha : x.awaiting = none := by
              cases h : x.awaiting with
              | none => rfl
              | some p => simp [h] at hna
            refine ⟨hxi.gotNodup, hxi.gotAsked, ?_, ?_, ?_, ?_, ?_⟩
            · intro l' h'; cases h'
            · intro l' h'; cases h'
            · intro l' h'; cases h'
            · intro l' ct' h'; cases h'
            · intro a' md' h'; rw [ha] at h'; cases h'

theorem ninv_init : NInv {} := by intro x hx; cases hx

theorem ninv_run (evs : List Event) : ∀ {s : Node}, NInv s → OkRun s evs → NInv (runFrom s evs) := by
  induction evs with
  | nil => intro s hs _; exact hs
  | cons e es ih =>
    intro s hs hok
    have := ih (ninv_step hs hok.1) hok.2
    simpa [runFrom] using this

/-- the loss of its link always releases a blocked handler (or finds its client gone) -/
theorem dropLink_unblocks {s : Node} {c : Nat} {x : Conn} {l : Link} (hx : CInv x) (hl : x.link = some l) :
    (dropLink s c x l).1.awaiting = none ∨ (dropLink s c x l).1.closed = true := by
  unfold dropLink
  simp only
  have key : ∀ r : Conn × List (Nat × ToClient), (r.1.awaiting = none ∨ r.1.closed = true) →
      ((if r.1.closed = true then r.1 else { r.1 with link := none }).awaiting = none ∨
       (if r.1.closed = true then r.1 else { r.1 with link := none }).closed = true) := by
    intro r hu; split <;> exact hu
  exact key _ (rollback_unblocks hx hl)

/-! ### an executable check of the assumptions (for concrete scripts) -/

def okb (s : Node) : Event → Bool
  | .request c _ q =>
    match s.conns[c]? with
    | none => true
    | some x =>
      (match reqRid q with | some rid => !x.asked.contains rid | none => true) &&
      (match q with | .lk ct _ _ _ => decide (ct = .lock ∨ ct = .unlock) | _ => true)
  | .leaderMsg c (.lockRes r) early =>
    (match s.conns[c]? with
      | none => true
      | some x => match x.link with | none => true | some l => l.pend.contains r.rid)
  | _ => true

def okRunB : Node → List Event → Bool
  | _, [] => true
  | s, e :: es => okb s e && okRunB (step s e).1 es

theorem okb_ok {s : Node} {e : Event} (h : okb s e = true) : Ok s e := by
  cases e with
  | request c short q =>
    intro x hx
    simp only [okb, hx, Bool.and_eq_true] at h
    refine ⟨?_, ?_⟩
    · intro rid hr
      rw [hr] at h
      simpa using h.1
    · intro ct md cmd rep hq
      subst hq
      simpa using h.2
  | leaderMsg c msg early =>
    cases msg with
    | lockRes r =>
      simp only [okb] at h
      intro x l hx hl
      simp only [hx, hl] at h
      simpa using h
    | initRes _ _ _ => trivial
    | callRes _ _ _ => trivial
    | other => trivial
  | accept _ => trivial
  | linkDown _ => trivial
  | role _ => trivial
  | unattached _ => trivial
  | leader _ => trivial
  | close _ => trivial
  | closeCut _ _ => trivial

theorem okRunB_ok : ∀ (evs : List Event) (s : Node), okRunB s evs = true → OkRun s evs
  | [], _, _ => trivial
  | e :: es, s, h => by
    simp only [okRunB, Bool.and_eq_true] at h
    exact ⟨okb_ok h.1, okRunB_ok es _ h.2⟩

end Slock.Trans
