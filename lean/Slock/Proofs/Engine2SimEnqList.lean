import Slock.Proofs.Engine2SimShapeWake
/-! Simulation stage 2 → stage 1: list facts about the priority insertion (`insertPrio`, `rePush`'s re-sort) against stage 1's
`insertWaiter` on the sub-list of live requests. -/
namespace Slock.Sim
open Slock Slock.Engine2
open Slock.Engine (has)

def Srt (l : List WEnt) : Prop := (l.map (·.prio)).Pairwise (· ≥ ·)

theorem Srt.tail {x : WEnt} {xs : List WEnt} (h : Srt (x :: xs)) : Srt xs := by
  unfold Srt at h ⊢
  simp only [List.map_cons, List.pairwise_cons] at h
  exact h.2

theorem Srt.head_ge {x : WEnt} {xs : List WEnt} (h : Srt (x :: xs)) : ∀ y ∈ xs, y.prio ≤ x.prio := by
  unfold Srt at h
  simp only [List.map_cons, List.pairwise_cons] at h
  intro y hy
  exact h.1 y.prio (List.mem_map.mpr ⟨y, hy, rfl⟩)

theorem insertPrio_mem' (ws : List WEnt) (e x : WEnt) : x ∈ insertPrio ws e ↔ x = e ∨ x ∈ ws := by
  induction ws with
  | nil => simp [insertPrio]
  | cons a as ih =>
    unfold insertPrio
    split
    · simp
    · simp only [List.mem_cons, ih]
      constructor
      · rintro (h | h | h)
        · exact Or.inr (Or.inl h)
        · exact Or.inl h
        · exact Or.inr (Or.inr h)
      · rintro (h | h | h)
        · exact Or.inr (Or.inl h)
        · exact Or.inl h
        · exact Or.inr (Or.inr h)

theorem insertPrio_srt (ws : List WEnt) (e : WEnt) (h : Srt ws) : Srt (insertPrio ws e) := by
  induction ws with
  | nil => unfold insertPrio Srt; simp
  | cons a as ih =>
    unfold insertPrio
    split
    · rename_i hgt
      unfold Srt
      simp only [List.map_cons, List.pairwise_cons]
      refine ⟨?_, ?_⟩
      · intro p hp
        simp only [List.mem_cons, List.mem_map] at hp
        rcases hp with hp | ⟨y, hy, e1⟩
        · rw [hp]; exact Nat.le_of_lt hgt
        · have := h.head_ge y hy
          rw [← e1]; exact Nat.le_trans this (Nat.le_of_lt hgt)
      · have h' := h
        unfold Srt at h'
        simpa only [List.map_cons, List.pairwise_cons] using h'
    · rename_i hle
      unfold Srt
      simp only [List.map_cons, List.pairwise_cons]
      refine ⟨?_, ih h.tail⟩
      intro p hp
      obtain ⟨y, hy, e1⟩ := List.mem_map.mp hp
      rw [← e1]
      rcases (insertPrio_mem' as e y).mp hy with h1 | h1
      · rw [h1]; exact Nat.le_of_not_lt hle
      · exact h.head_ge y h1

theorem foldl_insertPrio_srt (l acc : List WEnt) (h : Srt acc) : Srt (l.foldl insertPrio acc) := by
  induction l generalizing acc with
  | nil => exact h
  | cons a as ih => simp only [List.foldl_cons]; exact ih _ (insertPrio_srt acc a h)

/-- stable: among the entries picked by `P`, all of one priority `q`, the order is kept -/
theorem filter_insertPrio (P : WEnt → Bool) (q : Nat) (ws : List WEnt) (e : WEnt) (hs : Srt ws) (hq : ∀ x ∈ ws, P x = true → x.prio = q)
    (he : P e = true → e.prio = q) : (insertPrio ws e).filter P = ws.filter P ++ (if P e then [e] else []) := by
  induction ws with
  | nil => unfold insertPrio; cases hp : P e <;> simp [List.filter, hp]
  | cons a as ih =>
    unfold insertPrio
    split
    · rename_i hgt
      -- `e` goes to the front: no picked entry behind it
      cases hp : P e with
      | false => simp [List.filter, hp]
      | true =>
        have heq := he hp
        have hnone : (a :: as).filter P = [] := by
          apply List.filter_eq_nil_iff.mpr
          intro x hx hpx
          have h1 := hq x hx hpx
          have h2 : x.prio ≤ a.prio := by
            rcases List.mem_cons.mp hx with h3 | h3
            · rw [h3]; exact Nat.le_refl _
            · exact hs.head_ge x h3
          omega
        simp only [if_true]
        rw [show (e :: a :: as).filter P = e :: (a :: as).filter P by simp [List.filter, hp], hnone]
        rfl
    · have ih' := ih hs.tail (fun x hx => hq x (List.mem_cons_of_mem _ hx))
      cases hpa : P a with
      | true => simp only [List.filter, hpa]; rw [ih']; rfl
      | false => simp only [List.filter, hpa]; exact ih'

theorem foldl_insertPrio_filter (P : WEnt → Bool) (q : Nat) (l acc : List WEnt) (hs : Srt acc) (ha : ∀ x ∈ acc, P x = true → x.prio = q)
    (hl : ∀ x ∈ l, P x = true → x.prio = q) : (l.foldl insertPrio acc).filter P = acc.filter P ++ l.filter P := by
  induction l generalizing acc with
  | nil => simp
  | cons a as ih =>
    simp only [List.foldl_cons]
    rw [ih (insertPrio acc a) (insertPrio_srt acc a hs) ?_ (fun x hx => hl x (List.mem_cons_of_mem _ hx)),
      filter_insertPrio P q acc a hs ha (hl a (by simp))]
    · cases hp : P a <;> simp [List.filter, hp]
    · intro x hx hpx
      rcases (insertPrio_mem' acc a x).mp hx with h1 | h1
      · rw [h1] at hpx ⊢; exact hl a (by simp) hpx
      · exact ha x h1 hpx

/-- stage 1's `insertWaiter` appends when nothing queued has a lower priority -/
theorem insertWaiter_append (ws : List Engine.Waiter) (w : Engine.Waiter) (h : ∀ x ∈ ws, ¬ Engine.cmdPriority w.cmd > Engine.cmdPriority x.cmd) :
    Engine.insertWaiter ws w = ws ++ [w] := by
  induction ws with
  | nil => rfl
  | cons a as ih =>
    unfold Engine.insertWaiter
    rw [if_neg (h a (by simp)), ih (fun x hx => h x (List.mem_cons_of_mem _ hx))]
    rfl

/-- **priority insertion into the raw queue, seen on the live requests, is stage 1's `insertWaiter`** -/
theorem filter_insertPrio_waiter (P : WEnt → Bool) (f : WEnt → Engine.Waiter) (ws : List WEnt) (e : WEnt) (hs : Srt ws)
    (hc : ∀ x ∈ ws, P x = true → x.prio = Engine.cmdPriority (f x).cmd) (hpe : P e = true) (hce : e.prio = Engine.cmdPriority (f e).cmd) :
    ((insertPrio ws e).filter P).map f = Engine.insertWaiter ((ws.filter P).map f) (f e) := by
  induction ws with
  | nil => unfold insertPrio; simp [List.filter, hpe, Engine.insertWaiter]
  | cons a as ih =>
    unfold insertPrio
    split
    · rename_i hgt
      -- in front of everything: every live entry has a lower priority
      rw [show (e :: a :: as).filter P = e :: (a :: as).filter P by simp [List.filter, hpe]]
      simp only [List.map_cons]
      cases hfl : ((a :: as).filter P).map f with
      | nil => rfl
      | cons y ys =>
        unfold Engine.insertWaiter
        have hy : y ∈ ((a :: as).filter P).map f := by rw [hfl]; simp
        obtain ⟨x, hx, hxy⟩ := List.mem_map.mp hy
        have hxm := (List.mem_filter.mp hx).1
        have hxp := (List.mem_filter.mp hx).2
        have h1 := hc x hxm hxp
        have h2 : x.prio ≤ a.prio := by
          rcases List.mem_cons.mp hxm with h3 | h3
          · rw [h3]; exact Nat.le_refl _
          · exact hs.head_ge x h3
        have : Engine.cmdPriority (f e).cmd > Engine.cmdPriority y.cmd := by rw [← hxy, ← h1, ← hce]; omega
        rw [if_pos this]
    · rename_i hle
      have ih' := ih hs.tail (fun x hx => hc x (List.mem_cons_of_mem _ hx))
      cases hpa : P a with
      | true =>
        simp only [List.filter, hpa, List.map_cons]
        rw [ih']
        have hca := hc a (by simp) hpa
        have : ¬ Engine.cmdPriority (f e).cmd > Engine.cmdPriority (f a).cmd := by rw [← hca, ← hce]; exact hle
        conv => rhs; unfold Engine.insertWaiter
        rw [if_neg this]
      | false =>
        simp only [List.filter, hpa]
        exact ih'

end Slock.Sim
