import Slock.Proofs.Engine2TightUnlock
/-! Stage-2 engine: every step of the timer sweeps keeps "nothing leaks". -/
namespace Slock.Engine2
open Slock.Engine (has)

theorem CurG.of_live {w w' : W} (cl : CurLive w.k) (d : DK w' w) (g : GoodG w') : CurG w' := fun hg => cl.of_dk d (g hg).lv

/-- after `refCount--` + free at 0 + reclaim check, a linked key record has a lock record -/
theorem settled_unrefCheck {w : W} {ex : Nat → Int} (l : Lv w ex) (hne : w.k.recs ≠ []) (rid : Nat)
    (hpos : 0 < (w.k.qRefs rid : Int) + ex rid) : SettledG (w.unrefCheck rid) := by
  unfold W.unrefCheck
  simp only []
  have hh := l.rc.dang rid hpos
  have l1 : Lv (w.modK (·.unrefOnly rid)) (fun y => ex y - delta rid y) :=
    l.modK _ (l.rc.unrefOnly rid hh (by omega)) (RecsLe.unrefOnly _ _)
  unfold W.when
  split
  · rename_i hz
    unfold W.freeCheck
    refine settled_removeIfZero (ex := fun y => ex y - delta rid y) (fun _ => l1.rc.free rid ?_)
    have hh1 : (w.modK (·.unrefOnly rid)).k.hasRec rid := by
      show (w.k.unrefOnly rid).hasRec rid
      unfold Key.unrefOnly; rw [hasRec_modRec _ _ _ _ (by intro _; rfl)]; exact hh
    have := l1.rc.refCount_of hh1
    have hz' : ((w.modK (·.unrefOnly rid)).k.getR rid).refCount = 0 := by simpa using hz
    rw [hz'] at this
    simp only [delta, if_true] at this ⊢
    omega
  · intro _
    show (w.k.unrefOnly rid).recs ≠ []
    unfold Key.unrefOnly Key.modRec
    simp only []
    intro e
    exact hne (List.map_eq_nil_iff.mp e)

/-- a record that survives `refCount--` + free at 0 is counted -/
theorem unrefCheck_pos (w : W) (rid : Nat) (hx : (w.unrefCheck rid).k.hasRec rid) : 1 ≤ ((w.unrefCheck rid).k.getR rid).refCount := by
  unfold W.unrefCheck at hx ⊢
  simp only [] at hx ⊢
  unfold W.when at hx ⊢
  split
  · rename_i hz
    simp only [hz, if_true] at hx
    exfalso
    have hx2 : ((w.modK (·.unrefOnly rid)).k.free rid).hasRec rid := by
      unfold W.freeCheck W.removeIfZero at hx
      split at hx
      · exact hx
      · exact hx
    have := hasRec_free_sub _ rid rid hx2
    exact this.2 this.1 rfl
  · rename_i hz
    have : ((w.modK (·.unrefOnly rid)).k.getR rid).refCount ≠ 0 := by simpa using hz
    omega

theorem tight_dropT {w : W} (g : Good w) (cl : CurLive w.k) (hne : w.k.recs ≠ []) (rid : Nat)
    (hs : w.k.hasRec rid ∧ (w.k.getR rid).tSched.isSome = true) : Tight (w.dropT rid) := by
  have lg := (LvG.of_lv g.lv).dropT zero_nonneg rid (fun _ => hs)
  have gg : GoodG (w.dropT rid) := fun hg => ⟨lg hg, g.nz.dropT rid⟩
  refine ⟨gg, ?_, CurG.of_live cl (dk_dropT w rid) gg⟩
  unfold W.dropT
  have l1 := g.lv.wheel rid (fun r => { r with tSched := none }) (fun _ => rfl) (fun _ => rfl) (-1)
    (by rw [wheelRefs_tNone, hs.2]; simp; omega) hs.1 (fun r hr _ => g.lv.side.ok r hr)
  refine settled_unrefCheck l1 ?_ rid (by simp only [zero, delta, if_true]; omega)
  show (w.k.modRec rid _).recs ≠ []
  unfold Key.modRec
  simp only []
  intro e
  exact hne (List.map_eq_nil_iff.mp e)

/-- dropping the expiry entry of a record that is not a hold any more -/
theorem tight_dropE {w : W} (l : Lv w zero) (n : Nz w (some rid)) (cl : CurLive w.k) (hne : w.k.recs ≠ [])
    (hs : w.k.hasRec rid ∧ (w.k.getR rid).eSched.isSome = true) (hd : (w.k.getR rid).depth = 0) : Tight (w.dropE rid) := by
  have lg := (LvG.of_lv l).dropE zero_nonneg rid (fun _ => hs)
  have n1 := n.dropE_ex rid
  have n2 : Nz (w.dropE rid) none := n1.clear rid (fun hx => by
    have hdep : ((w.dropE rid).k.getR rid).depth = 0 := by rw [(dk_dropE w rid).depth rid hx]; exact hd
    have hes : ((w.dropE rid).k.getR rid).eSched = none := by
      have p : PK (·.eSched) (w.dropE rid) (w.modR rid (fun r => { r with eSched := none })) := by
        unfold W.dropE; exact pk_unrefCheck ins_eSched _ _
      rw [p.val rid hx]
      show ((w.k.modRec rid _).getR rid).eSched = none
      rw [getR_modRec_same _ _ _ (by intro _; rfl) hs.1]
    refine ⟨?_, fun hp => by omega, fun _ => hdep, fun _ he => by rw [hes] at he; simp at he⟩
    unfold W.dropE at hx ⊢
    exact unrefCheck_pos _ rid hx)
  have gg : GoodG (w.dropE rid) := fun hg => ⟨lg hg, n2⟩
  refine ⟨gg, ?_, CurG.of_live cl (dk_dropE w rid) gg⟩
  unfold W.dropE
  have l1 := l.wheel rid (fun r => { r with eSched := none }) (fun _ => rfl) (fun _ => rfl) (-1)
    (by rw [wheelRefs_eNone, hs.2]; simp; omega) hs.1 (fun r hr _ _ => rfl)
  refine settled_unrefCheck l1 ?_ rid (by simp only [zero, delta, if_true]; omega)
  show (w.k.modRec rid _).recs ≠ []
  unfold Key.modRec
  simp only []
  intro e
  exact hne (List.map_eq_nil_iff.mp e)

theorem recFine_of {w : W} (g : Good w) (rid : Nat) (hh : w.k.hasRec rid) : RecFine (w.k.getR rid) := g.nz.nz _ (getR_mem hh) (by simp)

theorem recs_ne_of_ids {k k' : Key} (h : k'.ids = k.ids) (hne : k.recs ≠ []) : k'.recs ≠ [] := by
  intro e
  apply hne
  have hl : k'.ids.length = k.ids.length := by rw [h]
  unfold Key.ids at hl
  simp only [List.length_map] at hl
  rw [e] at hl
  exact List.eq_nil_of_length_eq_zero hl.symm

theorem tight_wheelBroken {w : W} (g : Good w) (cl : CurLive w.k) (hne : w.k.recs ≠ []) : Tight w.wheelBroken :=
  Tight.of_good (g.of_up g.lv.wheelBroken (RecsUp.of_eq rfl)) hne cl

theorem tight_visitTimeout {w : W} (g : Good w) (cl : CurLive w.k) (hne : w.k.recs ≠ []) (slot : Bool) (rid : Nat) (w' : W)
    (h : w.visitTimeout slot rid = some w') : Tight w' := by
  have lvg := LvG.visitTimeout g.lv slot rid w' h
  unfold W.visitTimeout at h
  simp only [] at h
  split at h
  · injection h with h; rw [← h]; exact tight_wheelBroken g cl hne
  rename_i hg
  have hs := hasT_spec w.k rid (by simpa using hg)
  split at h
  · injection h with h; rw [← h]; exact tight_dropT g cl hne rid hs
  · split at h
    · injection h with h
      subst h
      have u : RecsUp ((w.modR rid (fun r => { r with tChecked := r.tChecked + 1 })).addTimeOut rid).k w.k :=
        (up_addTimeOut _ rid).trans (RecsUp.modRec _ rid _ (fun _ => rfl) (fun _ h => ⟨h.pos, h.hold, h.ended, h.fin⟩))
      have gg : GoodG ((w.modR rid (fun r => { r with tChecked := r.tChecked + 1 })).addTimeOut rid) := fun hg => ⟨lvg hg, g.nz.of_up u⟩
      refine ⟨gg, fun _ => recs_ne_of_ids u.ids hne, CurG.of_live cl ?_ gg⟩
      exact (dk_addTimeOut _ rid).trans (dk_modR w rid _ (by intro _; rfl) (by intro _; rfl))
    · simp at h

theorem tight_visitExpire {w : W} (g : Good w) (cl : CurLive w.k) (hne : w.k.recs ≠ []) (slot : Bool) (rid : Nat) (w' : W)
    (h : w.visitExpire slot rid = some w') : Tight w' := by
  have lvg := LvG.visitExpire g.lv slot rid w' h
  unfold W.visitExpire at h
  simp only [] at h
  split at h
  · injection h with h; rw [← h]; exact tight_wheelBroken g cl hne
  rename_i hg
  have hs := hasE_spec w.k rid (by simpa using hg)
  split at h
  · rename_i hex
    injection h with h; rw [← h]
    exact tight_dropE g.lv (g.nz.weaken _) cl hne hs ((recFine_of g rid hs.1).ended hex)
  · rename_i hex
    split at h
    · injection h with h
      subst h
      have hdep : 0 < (w.k.getR rid).depth := by
        apply Nat.pos_of_ne_zero
        intro hz
        exact hex ((recFine_of g rid hs.1).fin hz hs.2)
      have n1 : Nz (w.modR rid (fun r => { r with eChecked := r.eChecked + 1 })) none :=
        g.nz.of_up (RecsUp.modRec _ rid _ (fun _ => rfl) (fun _ h => ⟨h.pos, h.hold, h.ended, h.fin⟩))
      have n2 := n1.addExpried_hold rid (fun _ => by
        rw [modR_k, getR_modRec_proj (·.depth) w.k rid rid _ (by intro _; rfl) (by intro _; rfl)]; exact hdep)
      have hids : ((w.modR rid (fun r => { r with eChecked := r.eChecked + 1 })).addExpried rid).k.ids = w.k.ids :=
        (ids_addExpried _ rid).trans (ids_modRec _ rid _ (by intro _; rfl))
      have gg : GoodG ((w.modR rid (fun r => { r with eChecked := r.eChecked + 1 })).addExpried rid) := fun hg => ⟨lvg hg, n2⟩
      refine ⟨gg, fun _ => recs_ne_of_ids hids hne, CurG.of_live cl ?_ gg⟩
      exact (dk_addExpried _ rid).trans (dk_modR w rid _ (by intro _; rfl) (by intro _; rfl))
    · simp at h

/-- the sweeper takes a due long-table entry in hand -/
theorem tight_collectT {w : W} (g : Good w) (cl : CurLive w.k) (hne : w.k.recs ≠ []) (rid : Nat) : Tight (w.collectT rid) := by
  have l1 := g.lv.collectT rid
  have u : RecsUp (w.collectT rid).k w.k := RecsUp.modRec _ rid _ (fun _ => rfl) (fun _ h => ⟨h.pos, h.hold, h.ended, h.fin⟩)
  exact Tight.of_good (g.of_up l1 u) (recs_ne_of_ids u.ids hne) (cl.of_dk (dk_modR w rid _ (by intro _; rfl) (by intro _; rfl)) l1)

/-- the timeout of a live queued request, up to the counter / notice / wake pass -/
theorem tight_timeout_fire {w : W} (g : Good w) (cl : CurLive w.k) (rid : Nat) (hs : w.k.hasRec rid ∧ (w.k.getR rid).tSched.isSome = true) :
    Tight ((((w.modR rid (fun r => { r with timeouted := true })).modK (·.settleWait)).ctr (fun y => { y with waitCount := y.waitCount - 1 })).dropT rid) := by
  have l := g.lv
  have l1 : Lv (w.modR rid (fun r => { r with timeouted := true })) zero :=
    l.modR rid _ (fun _ => rfl) (l.rc.modRec_plain rid _ (fun _ => rfl) (fun _ => rfl) (fun _ => rfl)) (by
      intro r _ _ hf; simp at hf)
  have n1 : Nz (w.modR rid (fun r => { r with timeouted := true })) none :=
    g.nz.of_up (RecsUp.modRec _ rid _ (fun _ => rfl) (fun _ h => ⟨h.pos, h.hold, h.ended, h.fin⟩))
  have c1 := cl.of_dk (dk_modR w rid (fun r => { r with timeouted := true }) (by intro _; rfl) (by intro _; rfl)) l1
  have hh1 : (w.modR rid (fun r => { r with timeouted := true })).k.hasRec rid := (hasRec_modR _ rid rid _ (by intro _; rfl)).mpr hs.1
  have g1 : (w.modR rid (fun r => { r with timeouted := true })).k.getR rid = { (w.k.getR rid) with timeouted := true } :=
    getR_modRec_same _ _ _ (fun _ => rfl) hs.1
  have ht1 : ((w.modR rid (fun r => { r with timeouted := true })).k.getR rid).tSched.isSome = true := by rw [g1]; exact hs.2
  have l2 : Lv ((w.modR rid (fun r => { r with timeouted := true })).modK (·.settleWait)) zero :=
    l1.modK _ (settleWait_rc zero_nonneg l1.rc) (RecsLe.settleWait _)
  have n2 : Nz ((w.modR rid (fun r => { r with timeouted := true })).modK (·.settleWait)) none := by
    have := nz_settleWait n1.nd n1.nz
    exact ⟨this.1, this.2⟩
  have c2 := c1.of_dk (dk_modK _ (·.settleWait) (DepthKeep.settleWait _)) l2
  obtain ⟨k1, k2⟩ := settleWait_keep zero_nonneg l1.rc rid hh1 (wheel_of_t ht1)
  have g3 : Good (((w.modR rid (fun r => { r with timeouted := true })).modK (·.settleWait)).ctr (fun y => { y with waitCount := y.waitCount - 1 })) :=
    (⟨l2, n2⟩ : Good _).ctr _
  have t4 := tight_dropT g3 c2 (recs_ne_of_hasRec k1) rid ⟨k1, by
    show ((w.modR rid (fun r => { r with timeouted := true })).k.settleWait.getR rid).tSched.isSome = true
    rw [k2.tSched]; exact ht1⟩
  exact t4

theorem tight_fireTimeout {w : W} (g : Good w) (cl : CurLive w.k) (hne : w.k.recs ≠ []) (rid : Nat) : Tight (w.fireTimeout rid) := by
  unfold W.fireTimeout
  simp only []
  split
  · exact tight_wheelBroken g cl hne
  rename_i hg
  have hs := hasT_spec w.k rid (by simpa using hg)
  split
  · exact tight_dropT g cl hne rid hs
  · exact good_wake (((tight_timeout_fire g cl rid hs).ctr _).reply _ _ _ _)

/-- the end of a hold by the expiry sweep, up to the counters / notice / wake pass -/
theorem tight_expire_release {w : W} (g : Good w) (cl : CurLive w.k) (rid : Nat) (hs : w.k.hasRec rid ∧ (w.k.getR rid).eSched.isSome = true) :
    Tight (((((w.modR rid (fun r => { r with expried := true })).modK (fun k => { k with locked := k.locked - (w.k.getR rid).depth })).when (w.k.getR rid).isAof
      (·.pushUnLockAof rid (w.k.getR rid).cmd false false AOF_EXPRIED)).modK (·.removeLock rid)).dropE rid) := by
  have l := g.lv
  have l1 : Lv (w.modR rid (fun r => { r with expried := true })) zero :=
    l.modR_plain rid _ (fun _ => rfl) (fun _ => rfl) (fun _ => rfl) (fun _ => rfl) (fun _ => rfl)
  have n1 : Nz (w.modR rid (fun r => { r with expried := true })) (some rid) := (g.nz.weaken (some rid)).modR_ex rid _ (by intro _; rfl)
  have c1 := cl.of_dk (dk_modR w rid (fun r => { r with expried := true }) (by intro _; rfl) (by intro _; rfl)) l1
  have hh1 : (w.modR rid (fun r => { r with expried := true })).k.hasRec rid := (hasRec_modR _ rid rid _ (by intro _; rfl)).mpr hs.1
  have g1 : (w.modR rid (fun r => { r with expried := true })).k.getR rid = { (w.k.getR rid) with expried := true } :=
    getR_modRec_same _ _ _ (fun _ => rfl) hs.1
  have l2 : Lv ((w.modR rid (fun r => { r with expried := true })).modK (fun k => { k with locked := k.locked - (w.k.getR rid).depth })) zero :=
    l1.modK _ (l1.rc.transfer rfl rfl (fun _ => rfl)) (RecsLe.of_eq rfl)
  have n2 : Nz ((w.modR rid (fun r => { r with expried := true })).modK (fun k => { k with locked := k.locked - (w.k.getR rid).depth })) (some rid) :=
    n1.modK_eq _ rfl
  have c2 : CurLive ((w.modR rid (fun r => { r with expried := true })).modK (fun k => { k with locked := k.locked - (w.k.getR rid).depth })).k := c1
  have l3 : Lv (((w.modR rid (fun r => { r with expried := true })).modK (fun k => { k with locked := k.locked - (w.k.getR rid).depth })).when
      (w.k.getR rid).isAof (·.pushUnLockAof rid (w.k.getR rid).cmd false false AOF_EXPRIED)) zero :=
    l2.when _ _ (l2.pushUnLockAof _ _ _ _ _)
  have n3 : Nz (((w.modR rid (fun r => { r with expried := true })).modK (fun k => { k with locked := k.locked - (w.k.getR rid).depth })).when
      (w.k.getR rid).isAof (·.pushUnLockAof rid (w.k.getR rid).cmd false false AOF_EXPRIED)) (some rid) :=
    n2.of_up (up_when _ _ (·.pushUnLockAof rid (w.k.getR rid).cmd false false AOF_EXPRIED) (up_pushUnLockAof _ _ _ _ _ _))
  have c3 := c2.of_dk (dk_when _ (w.k.getR rid).isAof (·.pushUnLockAof rid (w.k.getR rid).cmd false false AOF_EXPRIED)
    (dk_pushUnLockAof _ _ _ _ _ _)) l3
  have hk3 : (((w.modR rid (fun r => { r with expried := true })).modK (fun k => { k with locked := k.locked - (w.k.getR rid).depth })).when
      (w.k.getR rid).isAof (·.pushUnLockAof rid (w.k.getR rid).cmd false false AOF_EXPRIED)).k.hasRec rid ∧
      ((((w.modR rid (fun r => { r with expried := true })).modK (fun k => { k with locked := k.locked - (w.k.getR rid).depth })).when
      (w.k.getR rid).isAof (·.pushUnLockAof rid (w.k.getR rid).cmd false false AOF_EXPRIED)).k.getR rid).eSched.isSome = true := by
    unfold W.when
    split
    · refine ⟨(hasRec_of_ids (ids_pushUnLockAof _ _ _ _ _ _) rid).mpr hh1, ?_⟩
      have := pushUnLockAof_eSched ((w.modR rid (fun r => { r with expried := true })).modK (fun k => { k with locked := k.locked - (w.k.getR rid).depth }))
        rid (w.k.getR rid).cmd false false AOF_EXPRIED rid
      rw [this]; show ((w.modR rid (fun r => { r with expried := true })).k.getR rid).eSched.isSome = true
      rw [g1]; exact hs.2
    · exact ⟨hh1, by show ((w.modR rid (fun r => { r with expried := true })).k.getR rid).eSched.isSome = true; rw [g1]; exact hs.2⟩
  have l4 := l3.modK (·.removeLock rid) (removeLock_rc zero_nonneg l3.rc rid) (RecsLe.removeLock _ _)
  have n4 : Nz ((((w.modR rid (fun r => { r with expried := true })).modK (fun k => { k with locked := k.locked - (w.k.getR rid).depth })).when
      (w.k.getR rid).isAof (·.pushUnLockAof rid (w.k.getR rid).cmd false false AOF_EXPRIED)).modK (·.removeLock rid)) (some rid) := by
    have := nz_removeLock n3.nd rid n3.nz
    exact ⟨this.1, this.2⟩
  have c4 : CurLive ((((w.modR rid (fun r => { r with expried := true })).modK (fun k => { k with locked := k.locked - (w.k.getR rid).depth })).when
      (w.k.getR rid).isAof (·.pushUnLockAof rid (w.k.getR rid).cmd false false AOF_EXPRIED)).modK (·.removeLock rid)).k :=
    CurLive.removeLock c3 rid (hasRec_current l4)
  obtain ⟨m1, m2, _⟩ := removeLock_keep zero_nonneg l3.rc rid rid hk3.1 (wheel_of_e hk3.2)
  have t5 := tight_dropE l4 n4 c4 (recs_ne_of_hasRec m1) ⟨m1, by
    show ((((w.modR rid (fun r => { r with expried := true })).modK (fun k => { k with locked := k.locked - (w.k.getR rid).depth })).when
      (w.k.getR rid).isAof (·.pushUnLockAof rid (w.k.getR rid).cmd false false AOF_EXPRIED)).k.removeLock rid |>.getR rid).eSched.isSome = true
    rw [m2]; exact hk3.2⟩ (removeLock_depth _ rid m1)
  exact t5

theorem tight_fireExpire {w : W} (g : Good w) (cl : CurLive w.k) (hne : w.k.recs ≠ []) (rid : Nat) : Tight (w.fireExpire rid) := by
  have l := g.lv
  have lvg := LvG.fireExpire l rid
  unfold W.fireExpire at lvg ⊢
  simp only [] at lvg ⊢
  split
  · exact tight_wheelBroken g cl hne
  rename_i hg
  have hs := hasE_spec w.k rid (by simpa using hg)
  simp only [hg, if_false] at lvg
  split
  · rename_i hex
    exact tight_dropE l (g.nz.weaken _) cl hne hs ((recFine_of g rid hs.1).ended hex)
  · rename_i hex
    simp only [hex, if_false] at lvg
    split
    · -- deferral: the entry is pushed again
      rename_i hdf
      simp only [hdf, if_true] at lvg
      have hdep : 0 < (w.k.getR rid).depth := by
        apply Nat.pos_of_ne_zero
        intro hz
        exact hex ((recFine_of g rid hs.1).fin hz hs.2)
      have n1 : Nz (w.modR rid (fun r => { r with expT := w.db.now + 30 })) none :=
        g.nz.of_up (RecsUp.modRec _ rid _ (fun _ => rfl) (fun _ h => ⟨h.pos, h.hold, h.ended, h.fin⟩))
      have n2 := n1.addExpried_hold rid (fun _ => by
        rw [modR_k, getR_modRec_proj (·.depth) w.k rid rid _ (by intro _; rfl) (by intro _; rfl)]; exact hdep)
      have hids : ((w.modR rid (fun r => { r with expT := w.db.now + 30 })).addExpried rid).k.ids = w.k.ids :=
        (ids_addExpried _ rid).trans (ids_modRec _ rid _ (by intro _; rfl))
      have gg : GoodG ((w.modR rid (fun r => { r with expT := w.db.now + 30 })).addExpried rid) := fun hg => ⟨lvg hg, n2⟩
      refine ⟨gg, fun _ => recs_ne_of_ids hids hne, CurG.of_live cl ?_ gg⟩
      exact (dk_addExpried _ rid).trans (dk_modR w rid _ (by intro _; rfl) (by intro _; rfl))
    · exact good_finish (tight_expire_release g cl rid hs) _ _ _ _ _

end Slock.Engine2
