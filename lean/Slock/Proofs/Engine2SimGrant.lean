import Slock.Proofs.Engine2SimPop
/-! Simulation stage 2 → stage 1: the grant (`AddLock` … `AddExpried`) as stage 1's `grantHold` sees it — the new hold's record. -/
namespace Slock.Sim
open Slock Slock.Engine2
open Slock.Engine (has)

/-- the fields of a lock record `Rec.toHold` reads, plus the back-off counter -/
def πG (r : Rec) : Nat × Engine.Cmd × Nat × Nat × Nat × Nat × Nat × Option Engine.Sched :=
  (r.hid, r.cmd, r.conn, r.depth, r.startT, r.expT, r.eChecked, r.eSched)

theorem ins_πG : Ins πG := ⟨fun _ _ => rfl, fun _ _ => rfl, fun _ _ => rfl, fun _ _ => rfl⟩

theorem addLockF_more (db : DB) (k : Key) (r : Rec) :
    (addLockF db k r).hid = db.seq ∧ (addLockF db k r).startT = db.now ∧
    (addLockF db k r).expT = Engine.expiryDeadline db.now r.cmd ∧
    (addLockF db k r).eChecked = Engine.initChecked r.cmd db.now (Engine.expiryDeadline db.now r.cmd) := by
  unfold addLockF; exact ⟨rfl, rfl, rfl, rfl⟩

theorem procData_db (w : W) (t : Slock.Value.CmdType) (c : Engine.Cmd) (f : Option Bytes) (rid : Nat) :
    (w.procData t c f rid).db.seq = w.db.seq ∧ (w.procData t c f rid).db.eCheck = w.db.eCheck ∧ (w.procData t c f rid).db.tCheck = w.db.tCheck ∧
    (w.procData t c f rid).db.now = w.db.now ∧ (w.procData t c f rid).db.ctr = w.db.ctr ∧ (w.procData t c f rid).db.leader = w.db.leader := by
  unfold W.procData
  split
  · exact ⟨rfl, rfl, rfl, rfl, rfl, rfl⟩
  · simp only []
    split
    · exact ⟨rfl, rfl, rfl, rfl, rfl, rfl⟩
    · exact ⟨rfl, rfl, rfl, rfl, rfl, rfl⟩

theorem pushLockAof_db (w : W) (rid flag : Nat) :
    (w.pushLockAof rid flag).db.seq = w.db.seq ∧ (w.pushLockAof rid flag).db.eCheck = w.db.eCheck ∧ (w.pushLockAof rid flag).db.tCheck = w.db.tCheck ∧
    (w.pushLockAof rid flag).db.now = w.db.now ∧ (w.pushLockAof rid flag).db.ctr = w.db.ctr ∧ (w.pushLockAof rid flag).db.leader = w.db.leader := by
  unfold W.pushLockAof
  split
  · exact ⟨rfl, rfl, rfl, rfl, rfl, rfl⟩
  · simp only []
    split <;> exact ⟨rfl, rfl, rfl, rfl, rfl, rfl⟩

theorem pushLockAofN_db (n : Nat) (w : W) (rid : Nat) :
    (W.pushLockAofN n w rid).db.seq = w.db.seq ∧ (W.pushLockAofN n w rid).db.eCheck = w.db.eCheck ∧ (W.pushLockAofN n w rid).db.tCheck = w.db.tCheck ∧
    (W.pushLockAofN n w rid).db.now = w.db.now ∧ (W.pushLockAofN n w rid).db.ctr = w.db.ctr ∧ (W.pushLockAofN n w rid).db.leader = w.db.leader := by
  induction n generalizing w with
  | zero => exact ⟨rfl, rfl, rfl, rfl, rfl, rfl⟩
  | succ n ih =>
    unfold W.pushLockAofN
    obtain ⟨a, b, c, d, e, f⟩ := ih (w.pushLockAof rid 0)
    obtain ⟨a', b', c', d', e', f'⟩ := pushLockAof_db w rid 0
    exact ⟨a.trans a', b.trans b', c.trans c', d.trans d', e.trans e', f.trans f'⟩

theorem addExpried_db (w : W) (rid : Nat) :
    (w.addExpried rid).db.seq = w.db.seq + 1 ∧ (w.addExpried rid).db.eCheck = w.db.eCheck ∧ (w.addExpried rid).db.tCheck = w.db.tCheck ∧
    (w.addExpried rid).db.now = w.db.now ∧ (w.addExpried rid).db.ctr = w.db.ctr ∧ (w.addExpried rid).db.leader = w.db.leader := by
  unfold W.addExpried W.when
  simp only []
  split
  · obtain ⟨a, b, c, d, e, f⟩ := pushLockAofN_db (w.k.getR rid).depth (w.schedExpried rid) rid
    exact ⟨a, b, c, d, e, f⟩
  · exact ⟨rfl, rfl, rfl, rfl, rfl, rfl⟩

/-- the record of `rid` after `AddExpried(rid)`: armed, the rest as it was -/
theorem addExpried_rec (w : W) (rid : Nat) (hh : w.k.hasRec rid) :
    (w.addExpried rid).k.hasRec rid ∧
    πG ((w.addExpried rid).k.getR rid) = πG (Rec.armE (Engine.wheelAdd w.db.eCheck w.db.seq (w.k.getR rid).expT (w.k.getR rid).eChecked) (w.k.getR rid)) := by
  have h1 : (w.schedExpried rid).k.getR rid =
      Rec.armE (Engine.wheelAdd w.db.eCheck w.db.seq (w.k.getR rid).expT (w.k.getR rid).eChecked) (w.k.getR rid) :=
    getR_modRec_same _ _ _ (fun _ => rfl) hh
  refine ⟨(hasRec_of_ids (ids_addExpried w rid) rid).mpr hh, ?_⟩
  unfold W.addExpried W.when
  simp only []
  split
  · rw [pushLockAofN_proj πG (fun _ _ => rfl) (fun _ _ => rfl), h1]
  · rw [h1]

/-- the grant after `AddLock` + `locked++`: value operation, data consumed … -/
def grantMid (s0 : W) (rid : Nat) : W :=
  (s0.procData .lock (s0.k.getR rid).cmd (frameOf (s0.k.getR rid).cmd (s0.k.getR rid).data) rid).modR rid (fun r => { r with data := none })

/-- … `AddExpried`, `refCount++`, counters, reply -/
def grantTail (s0 : W) (rid : Nat) : W :=
  (((((grantMid s0 rid).addExpried rid).ref rid).ctr
      (fun c => { c with lockCount := c.lockCount + 1, lockedCount := c.lockedCount + 1 })).reply
      { (s0.k.getR rid).cmd with conn := (s0.k.getR rid).conn } Engine.RESULT_SUCCED 1 s0.lockData)

theorem grantMid_db (s0 : W) (rid : Nat) :
    (grantMid s0 rid).db.seq = s0.db.seq ∧ (grantMid s0 rid).db.eCheck = s0.db.eCheck ∧ (grantMid s0 rid).db.tCheck = s0.db.tCheck ∧
    (grantMid s0 rid).db.now = s0.db.now ∧ (grantMid s0 rid).db.ctr = s0.db.ctr ∧ (grantMid s0 rid).db.leader = s0.db.leader :=
  procData_db s0 .lock (s0.k.getR rid).cmd (frameOf (s0.k.getR rid).cmd (s0.k.getR rid).data) rid

theorem grantTail_db (s0 : W) (rid : Nat) :
    (grantTail s0 rid).db.seq = s0.db.seq + 1 ∧ (grantTail s0 rid).db.eCheck = s0.db.eCheck ∧ (grantTail s0 rid).db.tCheck = s0.db.tCheck ∧
    (grantTail s0 rid).db.now = s0.db.now ∧ (grantTail s0 rid).db.leader = s0.db.leader ∧
    (grantTail s0 rid).db.ctr = { s0.db.ctr with lockCount := s0.db.ctr.lockCount + 1, lockedCount := s0.db.ctr.lockedCount + 1 } := by
  obtain ⟨a1, a2, a3, a4, a5, a6⟩ := grantMid_db s0 rid
  obtain ⟨b1, b2, b3, b4, b5, b6⟩ := addExpried_db (grantMid s0 rid) rid
  refine ⟨?_, ?_, ?_, ?_, ?_, ?_⟩
  · show ((grantMid s0 rid).addExpried rid).db.seq = _; rw [b1, a1]
  · show ((grantMid s0 rid).addExpried rid).db.eCheck = _; rw [b2, a2]
  · show ((grantMid s0 rid).addExpried rid).db.tCheck = _; rw [b3, a3]
  · show ((grantMid s0 rid).addExpried rid).db.now = _; rw [b4, a4]
  · show ((grantMid s0 rid).addExpried rid).db.leader = _; rw [b6, a6]
  · have e : (grantTail s0 rid).db.ctr = (fun c : Engine.Counters => { c with lockCount := c.lockCount + 1, lockedCount := c.lockedCount + 1 })
        ((grantMid s0 rid).addExpried rid).db.ctr := rfl
    rw [e, b5, a5]

theorem grantTail_locked (s0 : W) (rid : Nat) : (grantTail s0 rid).k.locked = s0.k.locked := by
  show (((grantMid s0 rid).addExpried rid).ref rid).k.locked = _
  rw [(FQ.ref _ rid).qt.locked, (FQ.addExpried _ rid).qt.locked]
  exact procData_locked s0 .lock (s0.k.getR rid).cmd (frameOf (s0.k.getR rid).cmd (s0.k.getR rid).data) rid

theorem grant_eq (w : W) (rid : Nat) : w.grant rid = grantTail ((w.addLock rid).modK incLocked) rid := rfl

theorem grantTail_rec (s0 : W) (rid : Nat) (hh : s0.k.hasRec rid) :
    (grantTail s0 rid).k.hasRec rid ∧
    πG ((grantTail s0 rid).k.getR rid) =
      πG (Rec.armE (Engine.wheelAdd s0.db.eCheck s0.db.seq (s0.k.getR rid).expT (s0.k.getR rid).eChecked) (s0.k.getR rid)) := by
  have p1 := pk_procData ins_πG s0 .lock (s0.k.getR rid).cmd (frameOf (s0.k.getR rid).cmd (s0.k.getR rid).data) rid
  have hh1 := (keep_procData s0 .lock (s0.k.getR rid).cmd (frameOf (s0.k.getR rid).cmd (s0.k.getR rid).data) rid rid).1.mpr hh
  have hh2 : (grantMid s0 rid).k.hasRec rid := (hasRec_modR _ rid rid (fun r => { r with data := none }) (by intro _; rfl)).mpr hh1
  have e2 : πG ((grantMid s0 rid).k.getR rid) = πG (s0.k.getR rid) := by
    unfold grantMid
    rw [modR_k, getR_modRec_proj πG _ rid rid _ (by intro _; rfl) (by intro _; rfl), p1.val rid hh1]
  obtain ⟨hh3, e3⟩ := addExpried_rec (grantMid s0 rid) rid hh2
  obtain ⟨d1, d2, _⟩ := grantMid_db s0 rid
  have hfin : (grantTail s0 rid).k.hasRec rid := by
    show (((grantMid s0 rid).addExpried rid).ref rid).k.hasRec rid
    unfold W.ref
    rw [hasRec_modR _ _ _ _ (by intro _; rfl)]
    exact hh3
  refine ⟨hfin, ?_⟩
  show πG ((((grantMid s0 rid).addExpried rid).ref rid).k.getR rid) = _
  unfold W.ref
  rw [modR_k, getR_modRec_proj πG _ rid rid _ (by intro _; rfl) (by intro _; rfl), e3, d1, d2]
  unfold πG at e2 ⊢
  simp only [Prod.mk.injEq] at e2
  obtain ⟨a1, a2, a3, a4, a5, a6, a7, _⟩ := e2
  simp only [Rec.armE]
  rw [a1, a2, a3, a4, a5, a6, a7]

/-- **the record of a granted request** -/
theorem grant_rec (w : W) (rid : Nat) (hh : w.k.hasRec rid) :
    (w.grant rid).k.hasRec rid ∧
    ((w.grant rid).k.getR rid).toHold =
      { hid := w.db.seq, cmd := (w.k.getR rid).cmd, conn := (w.k.getR rid).conn, depth := 1, startT := w.db.now,
        expT := (Engine.wheelAdd w.db.eCheck w.db.seq (Engine.expiryDeadline w.db.now (w.k.getR rid).cmd)
          (Engine.initChecked (w.k.getR rid).cmd w.db.now (Engine.expiryDeadline w.db.now (w.k.getR rid).cmd))).1,
        sched := (Engine.wheelAdd w.db.eCheck w.db.seq (Engine.expiryDeadline w.db.now (w.k.getR rid).cmd)
          (Engine.initChecked (w.k.getR rid).cmd w.db.now (Engine.expiryDeadline w.db.now (w.k.getR rid).cmd))).2 } ∧
    ((w.grant rid).k.getR rid).timeouted = (w.k.getR rid).timeouted := by
  have hf := addLockF_fields w.db w.k
  have hm := addLockF_more w.db w.k
  obtain ⟨g0, hh0⟩ := keep_addLock w.k rid (addLockF w.db w.k) (fun r => (hf r).1) (fun r => (hf r).2.2.2.2.2.1) hh
  have hh0' : ((w.addLock rid).modK incLocked).k.hasRec rid := hh0
  have g0' : ((w.addLock rid).modK incLocked).k.getR rid = addLockF w.db w.k (w.k.getR rid) := g0
  obtain ⟨hfin, hG⟩ := grantTail_rec ((w.addLock rid).modK incLocked) rid hh0'
  rw [← grant_eq, g0'] at hG
  rw [← grant_eq] at hfin
  have pt : PK (·.timeouted) (w.grant rid) (w.addLock rid) := (qk_grant_tail w rid).t
  refine ⟨hfin, ?_, ?_⟩
  · unfold πG at hG
    simp only [Prod.mk.injEq, Rec.armE] at hG
    obtain ⟨b1, b2, b3, b4, b5, b6, _, b8⟩ := hG
    have hdb : ((w.addLock rid).modK incLocked).db = w.db := rfl
    rw [hdb] at b6 b8
    unfold Rec.toHold
    rw [b1, b2, b3, b4, b5, b6, b8, (hm _).1, (hf _).2.2.2.2.2.2.1, (hf _).2.2.2.2.2.2.2.2, (hf _).2.2.2.2.2.1, (hm _).2.1, (hm _).2.2.1, (hm _).2.2.2]
    rfl
  · rw [pt.val rid hfin]
    show ((w.k.addLock rid (addLockF w.db w.k)).getR rid).timeouted = _
    rw [g0, (hf _).2.1]

end Slock.Sim
