import Slock.Proofs.EngineSimTickFrame
/-! Clock-tick simulation (`sim_tick`): `WFK` for every step of the two sweeps, and the database-level form `WFD`. -/
namespace Slock.SimTick
open Slock Slock.Sim Slock.Engine2
open Slock.Engine (has)

/-- a chain of helper steps that edits record `rid` visibly, keeps every record's command / connection, and never sets `timeouted := false` -/
theorem wfk_of_chain {seq0 : Nat} {k' k : Key} (rid : Nat) (p : PKeepX πA (· = rid) k' k) (pc : PKeep πC k' k)
    (hl : k'.hasRec rid → (k'.getR rid).timeouted = false → (k.getR rid).timeouted = false)
    (hd : k'.hasRec rid → 0 < (k'.getR rid).depth → (k'.getR rid).hid = (k.getR rid).hid ∧ 0 < (k.getR rid).depth) : WFK (· = rid) seq0 k' k := by
  refine WFK.of_pkx p ?_
  intro y hy hyy
  subst hy
  have hv := pc.val y hyy
  exact ⟨pc.sub y hyy, congrArg (fun t => t.1) hv, congrArg (fun t => t.2) hv, hl hyy, fun h => Or.inl (hd hyy h)⟩

/-- identity and depth of a record -/
def πHD (r : Rec) : Nat × Nat := (r.hid, r.depth)
theorem ins_πHD : Ins πHD := ⟨fun _ _ => rfl, fun _ _ => rfl, fun _ _ => rfl, fun _ _ => rfl⟩

theorem hd_of_pk {k' k : Key} {rid : Nat} (ph : PKeep πHD k' k) :
    k'.hasRec rid → 0 < (k'.getR rid).depth → (k'.getR rid).hid = (k.getR rid).hid ∧ 0 < (k.getR rid).depth := by
  intro hh hd
  have hv := ph.val rid hh
  have e1 : (k'.getR rid).hid = (k.getR rid).hid := congrArg (fun t => t.1) hv
  have e2 : (k'.getR rid).depth = (k.getR rid).depth := congrArg (fun t => t.2) hv
  exact ⟨e1, by rw [← e2]; exact hd⟩

theorem dropT_wfk {seq0 : Nat} (w : W) (rid : Nat) : WFK (· = rid) seq0 (w.dropT rid).k w.k := by
  refine wfk_of_chain rid ?_ (pk_dropT ins_πC w rid (fun _ _ => rfl)) ?_ ?_
  · unfold W.dropT
    exact (PKeepX.of_pk (pk_unrefCheck ins_πA _ rid)).trans (PKeepX.modRec (X := (· = rid)) w.k rid (fun r => { r with tSched := none }) (fun _ => rfl) rfl)
  · intro hh hl
    rw [← (pk_dropT ins_timeouted w rid (fun _ _ => rfl)).val rid hh]; exact hl
  · exact hd_of_pk (pk_dropT ins_πHD w rid (fun _ _ => rfl))

theorem dropE_wfk {seq0 : Nat} (w : W) (rid : Nat) : WFK (· = rid) seq0 (w.dropE rid).k w.k := by
  refine wfk_of_chain rid ?_ (pk_dropE ins_πC w rid (fun _ _ => rfl)) ?_ ?_
  · unfold W.dropE
    exact (PKeepX.of_pk (pk_unrefCheck ins_πA _ rid)).trans (PKeepX.modRec (X := (· = rid)) w.k rid (fun r => { r with eSched := none }) (fun _ => rfl) rfl)
  · intro hh hl
    rw [← (pk_dropE ins_timeouted w rid (fun _ _ => rfl)).val rid hh]; exact hl
  · exact hd_of_pk (pk_dropE ins_πHD w rid (fun _ _ => rfl))

theorem visitTimeout_wfk {seq0 : Nat} (w : W) (slot : Bool) (rid : Nat) (w' : W) (hv : w.visitTimeout slot rid = some w') :
    WFK (· = rid) seq0 w'.k w.k := by
  unfold W.visitTimeout at hv
  simp only [] at hv
  split at hv
  · injection hv with hv; rw [← hv]; exact WFK.refl _
  split at hv
  · injection hv with hv; rw [← hv]; exact dropT_wfk w rid
  · rename_i hto
    split at hv
    · injection hv with hv; rw [← hv]
      refine wfk_of_chain rid ?_ ?_ ?_ (hd_of_pk ((pk_addTimeOut (π := πHD) _ rid (fun _ _ => rfl)).trans (pk_modR (π := πHD) w rid _ (fun _ => rfl) (fun _ => rfl))))
      · exact (PKeepX.modRec (X := (· = rid)) (w.modR rid (fun r => { r with tChecked := r.tChecked + 1 })).k rid
          (Rec.armT (Engine.wheelAdd (w.modR rid (fun r => { r with tChecked := r.tChecked + 1 })).db.tCheck
            (w.modR rid (fun r => { r with tChecked := r.tChecked + 1 })).db.seq
            ((w.modR rid (fun r => { r with tChecked := r.tChecked + 1 })).k.getR rid).timeoutT
            ((w.modR rid (fun r => { r with tChecked := r.tChecked + 1 })).k.getR rid).tChecked)) (fun _ => rfl) rfl).trans
          (PKeepX.modRec (X := (· = rid)) w.k rid (fun r => { r with tChecked := r.tChecked + 1 }) (fun _ => rfl) rfl)
      · exact (pk_addTimeOut (π := πC) _ rid (fun _ _ => rfl)).trans (pk_modR (π := πC) w rid _ (fun _ => rfl) (fun _ => rfl))
      · intro _ _
        simpa using hto
    · exact absurd hv (by simp)

theorem collectT_wfk {seq0 : Nat} (w : W) (rid : Nat) : WFK (· = rid) seq0 (w.collectT rid).k w.k := by
  refine wfk_of_chain rid (PKeepX.modRec (X := (· = rid)) w.k rid unlongT (fun _ => rfl) rfl)
    (pk_modR (π := πC) w rid unlongT (fun _ => rfl) (fun _ => rfl)) ?_ (hd_of_pk (pk_modR (π := πHD) w rid unlongT (fun _ => rfl) (fun _ => rfl)))
  intro hh hl
  have := (pk_modR (π := (·.timeouted)) w rid unlongT (fun _ => rfl) (fun _ => rfl)).val rid hh
  rw [← this]; exact hl

theorem rearmE_wfk {seq0 : Nat} (w : W) (rid : Nat) (f : Rec → Rec) (hf : ∀ r, (f r).rid = r.rid) (hc : ∀ r, πC (f r) = πC r)
    (ht : ∀ r, (f r).timeouted = r.timeouted) (hH : ∀ r, πHD (f r) = πHD r) : WFK (· = rid) seq0 ((w.modR rid f).addExpried rid).k w.k := by
  refine wfk_of_chain rid ?_ ?_ ?_ (hd_of_pk ((pk_addExpried ins_πHD _ rid (fun _ _ => rfl)).trans (pk_modR (π := πHD) w rid f hf hH)))
  · exact (((SX.refl (X := (· = rid)) w).modR_in rid f hf rfl).addExpried rid rfl).p
  · exact (pk_addExpried ins_πC _ rid (fun _ _ => rfl)).trans (pk_modR (π := πC) w rid f hf hc)
  · intro hh hl
    have := ((pk_addExpried ins_timeouted (w.modR rid f) rid (fun _ _ => rfl)).trans (pk_modR (π := (·.timeouted)) w rid f hf ht)).val rid hh
    rw [← this]; exact hl

theorem visitExpire_wfk {seq0 : Nat} (w : W) (slot : Bool) (rid : Nat) (w' : W) (hv : w.visitExpire slot rid = some w') :
    WFK (· = rid) seq0 w'.k w.k := by
  unfold W.visitExpire at hv
  simp only [] at hv
  split at hv
  · injection hv with hv; rw [← hv]; exact WFK.refl _
  split at hv
  · injection hv with hv; rw [← hv]; exact dropE_wfk w rid
  · split at hv
    · injection hv with hv; rw [← hv]
      exact rearmE_wfk w rid (fun r => { r with eChecked := r.eChecked + 1 }) (fun _ => rfl) (fun _ => rfl) (fun _ => rfl) (fun _ => rfl)
    · exact absurd hv (by simp)

/-- the wake pass that ends a firing step -/
theorem wfk_finish {w pre : W} {a : Engine.DB} {k1 : Engine.Key} {out1 : List Engine.Reply} {rid : Nat} (rel : Rel pre a k1 out1) (gw : GW pre)
    (p2 : WFK (· = rid) w.db.seq pre.k w.k) (hseq : w.db.seq ≤ pre.db.seq) : WFK (· = rid) w.db.seq pre.wake.k w.k :=
  ((wake_wfk (fun hg => (rel.live hg).good) gw).mono (fun _ h => absurd h id) hseq).trans p2

/-- `doTimeOut` of a live request -/
theorem fireT_live_wfk {w : W} (h : WSt w) (rid : Nat) (hT : w.k.hasT rid = true) (hl : (w.k.getR rid).timeouted = false) :
    WFK (· = rid) w.db.seq (w.fireTimeout rid).k w.k := by
  rw [fireTimeout_live_eq _ rid hT hl]
  have sc0 : Scal (Engine2.abs w.db) w.db := ⟨rfl, rfl, rfl, rfl, rfl, rfl⟩
  have rel := fireT_rel h (Engine2.abs w.db) sc0 _ rfl rid hT hl
  have p1 : WFK (· = rid) w.db.seq ((w.modR rid tombR).modK (·.settleWait)).k w.k := by
    refine wfk_of_chain rid ?_ ?_ ?_ (hd_of_pk ((PKeep.settleWait ins_πHD _).trans (PKeep.modRec w.k rid tombR (fun _ => rfl) (fun _ => rfl))))
    · exact (PKeepX.of_pk (PKeep.settleWait ins_πA _)).trans (PKeepX.modRec (X := (· = rid)) w.k rid tombR (fun _ => rfl) rfl)
    · exact (PKeep.settleWait ins_πC _).trans (PKeep.modRec w.k rid tombR (fun _ => rfl) (fun _ => rfl))
    · intro _ _; exact hl
  have p2 : WFK (· = rid) w.db.seq ((((w.modR rid tombR).modK (·.settleWait)).ctr ctrW).dropT rid).k w.k :=
    WFK.trans (b := ((w.modR rid tombR).modK (·.settleWait)).k) (dropT_wfk (((w.modR rid tombR).modK (·.settleWait)).ctr ctrW) rid) p1
  have gw : GW ((((w.modR rid tombR).modK (·.settleWait)).ctr ctrW).dropT rid) :=
    (GW.of_live (w := ((w.modR rid tombR).modK (·.settleWait)).ctr ctrW) h.hg).dropT rid
  have hseq : w.db.seq ≤ ((((w.modR rid tombR).modK (·.settleWait)).ctr ctrW).dropT rid).db.seq :=
    (Fr.dropT (((w.modR rid tombR).modK (·.settleWait)).ctr ctrW) rid).seq
  have gw2 : GW ((((((w.modR rid tombR).modK (·.settleWait)).ctr ctrW).dropT rid).ctr ctrT).reply
      { (w.k.getR rid).cmd with conn := (w.k.getR rid).conn } Engine.RESULT_TIMEOUT 0
      (((((w.modR rid tombR).modK (·.settleWait)).ctr ctrW).dropT rid).ctr ctrT).lockData) := (gw.ctr ctrT).reply _ _ _ _
  exact wfk_finish rel gw2 p2 hseq

theorem preE_wfk (w : W) (rid : Nat) : WFK (· = rid) w.db.seq ((preE w rid).modK (·.removeLock rid)).k w.k := by
  refine wfk_of_chain rid ?_ ?_ ?_ (fun hh hd => by
    have := removeLock_depth (preE w rid).k rid hh
    have hd' : 0 < (((preE w rid).k.removeLock rid).getR rid).depth := hd
    rw [this] at hd'; exact absurd hd' (by simp))
  · refine (removeLock_others _ rid).trans ?_
    unfold preE
    exact (SX.when (((SX.refl (X := (· = rid)) w).modR_in rid exR (fun _ => rfl) rfl).modK_same
      (subL (w.k.getR rid).depth) rfl rfl rfl rfl) _ _ (fun h' => h'.pushUnLockAof rid _ false false AOF_EXPRIED)).p
  · refine (PKeep.removeLock ins_πC (fun _ _ => rfl) _ rid).trans ?_
    unfold preE
    exact (pk_when _ _ _ (pk_pushUnLockAof ins_πC _ _ _ _ _ _)).trans ((pk_modK (w.modR rid exR)
      (subL (w.k.getR rid).depth) (PKeep.of_eq rfl)).trans (pk_modR (π := πC) w rid exR (fun _ => rfl) (fun _ => rfl)))
  · intro hh hl
    have pt : PKeep (·.timeouted) ((preE w rid).modK (·.removeLock rid)).k w.k := by
      refine (PKeep.removeLock ins_timeouted (fun _ _ => rfl) _ rid).trans ?_
      unfold preE
      exact (pk_when _ _ _ (pk_pushUnLockAof ins_timeouted _ _ _ _ _ _)).trans ((pk_modK (w.modR rid exR)
        (subL (w.k.getR rid).depth) (PKeep.of_eq rfl)).trans (pk_modR (π := (·.timeouted)) w rid exR (fun _ => rfl) (fun _ => rfl)))
    rw [← pt.val rid hh]; exact hl

/-- `doExpried` of a live hold (not deferred) -/
theorem fireE_live_wfk {w : W} (h : WSt w) (rid : Nat) (hT : w.k.hasE rid = true) (hl : (w.k.getR rid).expried = false)
    (hdf : deferExpiry w.db (w.k.getR rid) = false) : WFK (· = rid) w.db.seq (w.fireExpire rid).k w.k := by
  rw [fireExpire_live_eq _ rid hT hl hdf]
  have sc0 : Scal (Engine2.abs w.db) w.db := ⟨rfl, rfl, rfl, rfl, rfl, rfl⟩
  have rel := fireE_rel h (Engine2.abs w.db) sc0 _ rfl rid hT hl
  have p2 : WFK (· = rid) w.db.seq (((preE w rid).modK (·.removeLock rid)).dropE rid).k w.k :=
    WFK.trans (dropE_wfk ((preE w rid).modK (·.removeLock rid)) rid) (preE_wfk w rid)
  have hg4 : ((preE w rid).modK (·.removeLock rid)).gone = false := ((preE_sc w rid).trans (SC.modK _ _)).gone.trans h.hg
  have gw : GW (((preE w rid).modK (·.removeLock rid)).dropE rid) := (GW.of_live hg4).dropE rid
  have hseq : w.db.seq ≤ (((preE w rid).modK (·.removeLock rid)).dropE rid).db.seq := by
    refine Nat.le_trans ?_ (Fr.dropE _ _).seq
    show w.db.seq ≤ (preE w rid).db.seq
    rw [(preE_sc w rid).seq]; exact Nat.le_refl _
  have gw2 : GW (((((preE w rid).modK (·.removeLock rid)).dropE rid).ctr (ctrE (w.k.getR rid).depth)).reply
      { (w.k.getR rid).cmd with conn := (w.k.getR rid).conn } Engine.RESULT_EXPRIED 0
      ((((preE w rid).modK (·.removeLock rid)).dropE rid).ctr (ctrE (w.k.getR rid).depth)).lockData) := (gw.ctr (ctrE (w.k.getR rid).depth)).reply _ _ _ _
  exact wfk_finish rel gw2 p2 hseq

/-! ### database level -/

/-- what a sweep step on entry `(key, rid)` does to the lock records of the database -/
def WFD (key rid : Nat) (s' s : DB) : Prop := ∀ n, WFK (fun y => n = key ∧ y = rid) s.seq (s'.getKey n) (s.getKey n)

theorem WFD.refl (key rid : Nat) (s : DB) : WFD key rid s s := fun _ => WFK.refl _

theorem wfd_commit (s : DB) (hq : DBQ s) (key rid : Nat) (w' : W) (f : Fr (s.openKey key) w') (h : WFK (· = rid) s.seq w'.k (s.getKey key)) :
    WFD key rid w'.commit s := by
  have hs := (hq.dbt.dbi.openKey key).of_fr f
  have hkey : w'.k.key = key := f.key.trans (getKey_key s key)
  intro n
  by_cases e : n = key
  · subst e
    cases hg : w'.gone with
    | true =>
      have hh : w'.commit.hasKey n = false := by rw [commit_of_gone w' hg, ← hkey]; exact hs.absent hg
      rw [getKey_of_not_hasKey _ _ hh]
      have hno : ∀ y, ¬ (newKey n).hasRec y := by intro y ⟨r, hr, _⟩; simp [newKey] at hr
      exact ⟨fun y hy => absurd hy (hno y), fun y hy => absurd hy (hno y), fun y hy => absurd hy (hno y), fun y _ hy => absurd hy (hno y),
        fun y _ hy => absurd hy (hno y), fun y hy => absurd hy (hno y)⟩
    | false =>
      have := commit_getKey w' hg
      rw [hkey] at this
      rw [this]
      exact h.mono (fun y hy => ⟨rfl, hy⟩) (Nat.le_refl _)
  · rw [commit_getKey_other _ _ (by rw [hkey]; exact e), fr_getKey_other f n (by show n ≠ (s.getKey key).key; rw [getKey_key]; exact e)]
    exact WFK.refl _

theorem timeoutStep_wfd (slot : Bool) (s : DB) (C : List Ent) (e : Ent) (hq : DBQ s) : WFD e.key e.rid (timeoutStep slot (s, C) e).1 s := by
  unfold timeoutStep
  split
  · rename_i w hw
    exact wfd_commit s hq e.key e.rid w (W.visitTimeout_fr _ _ _ _ hw) (visitTimeout_wfk _ slot e.rid w hw)
  · cases slot
    · exact wfd_commit s hq e.key e.rid _ (W.collectT_fr _ _) (collectT_wfk _ e.rid)
    · exact WFD.refl _ _ _

theorem expireStep_wfd (slot : Bool) (s : DB) (C : List Ent) (e : Ent) (hq : DBQ s) : WFD e.key e.rid (expireStep slot (s, C) e).1 s := by
  unfold expireStep
  split
  · rename_i w hw
    exact wfd_commit s hq e.key e.rid w (W.visitExpire_fr _ _ _ _ hw) (visitExpire_wfk _ slot e.rid w hw)
  · exact WFD.refl _ _ _

theorem fireTimeoutStep_wfd (s : DB) (o : List Reply) (e : Ent) (hq : DBQ s) (hk : DBK s) (hkt : DBKT s) (k1 : K1 (s.getKey e.key)) :
    WFD e.key e.rid (fireTimeoutStep (s, o) e).1 s := by
  unfold fireTimeoutStep fireTimeout
  simp only []
  refine wfd_commit s hq e.key e.rid _ (W.fireTimeout_fr _ _) ?_
  cases hT : (s.getKey e.key).hasT e.rid with
  | false =>
    have : (s.openKey e.key).fireTimeout e.rid = (s.openKey e.key).wheelBroken := by
      unfold W.fireTimeout
      have hT' : (s.openKey e.key).k.hasT e.rid = false := hT
      simp only [hT', Bool.not_false, if_true]
    rw [this]; exact WFK.refl _
  | true =>
    have hs := hasT_spec _ e.rid hT
    cases hl : ((s.getKey e.key).getR e.rid).timeouted with
    | true =>
      have : (s.openKey e.key).fireTimeout e.rid = (s.openKey e.key).dropT e.rid := by
        unfold W.fireTimeout
        have hT' : (s.openKey e.key).k.hasT e.rid = true := hT
        have hl' : ((s.openKey e.key).k.getR e.rid).timeouted = true := hl
        simp only [hT', hl', Bool.not_true, Bool.false_eq_true, if_false, if_true]
      rw [this]; exact dropT_wfk _ e.rid
    | false =>
      exact fireT_live_wfk (ws_open s hq hk hkt e.key k1 (openKey_live_of_hasRec s e.key e.rid hs.1)) e.rid hT hl

theorem fireExpireStep_wfd (s : DB) (o : List Reply) (e : Ent) (hq : DBQ s) (hk : DBK s) (hkt : DBKT s) (k1 : K1 (s.getKey e.key))
    (hld : s.leader = true) : WFD e.key e.rid (fireExpireStep (s, o) e).1 s := by
  unfold fireExpireStep fireExpire
  simp only []
  refine wfd_commit s hq e.key e.rid _ (W.fireExpire_fr _ _) ?_
  cases hT : (s.getKey e.key).hasE e.rid with
  | false =>
    have : (s.openKey e.key).fireExpire e.rid = (s.openKey e.key).wheelBroken := by
      unfold W.fireExpire
      have hT' : (s.openKey e.key).k.hasE e.rid = false := hT
      simp only [hT', Bool.not_false, if_true]
    rw [this]; exact WFK.refl _
  | true =>
    have hs := hasE_spec _ e.rid hT
    cases hl : ((s.getKey e.key).getR e.rid).expried with
    | true =>
      have : (s.openKey e.key).fireExpire e.rid = (s.openKey e.key).dropE e.rid := by
        unfold W.fireExpire
        have hT' : (s.openKey e.key).k.hasE e.rid = true := hT
        have hl' : ((s.openKey e.key).k.getR e.rid).expried = true := hl
        simp only [hT', hl', Bool.not_true, Bool.false_eq_true, if_false, if_true]
      rw [this]; exact dropE_wfk _ e.rid
    | false =>
      have hdf : deferExpiry (s.openKey e.key).db ((s.openKey e.key).k.getR e.rid) = false := by
        unfold deferExpiry
        show (!s.leader && _ && _) = false
        rw [hld]; rfl
      exact fireE_live_wfk (ws_open s hq hk hkt e.key k1 (openKey_live_of_hasRec s e.key e.rid hs.1)) e.rid hT hl hdf

end Slock.SimTick
