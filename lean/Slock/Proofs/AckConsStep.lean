import Slock.Proofs.AckConsOps
/-! M-ACK: the balance for UNLOCK, the sweeps, journal delivery, reports and demotion; guarded events; runs. -/
namespace Slock.Ack

/-- a hold that UNLOCK releases (one level or all) is not ack-pending — on the LockId path and on the unlock-first path -/
theorem classifyUnlock_spec (db : DB) (c : Cmd) :
    (∀ h, classifyUnlock db c = .dec h ∨ classifyUnlock db c = .release h → ∃ r ∈ db.recs, r.hid = h ∧ r.depth > 0 ∧ r.pending = false) := by
  intro h hh
  unfold classifyUnlock at hh
  simp only [] at hh
  split at hh
  · simp at hh
  · split at hh
    · simp at hh
    · split at hh
      · rename_i r hr
        have hm := findHolder_mem hr
        split at hh
        · simp at hh
        · rename_i hnp
          refine ⟨r, hm.1, ?_, hm.2, by simpa using hnp⟩
          split at hh <;> simp at hh <;> exact hh
      · split at hh
        · split at hh
          · rename_i r hr
            have hm := holders_head_mem hr
            split at hh
            · simp at hh
            · rename_i hnp
              refine ⟨r, hm.1, ?_, hm.2, by simpa using hnp⟩
              split at hh <;> simp at hh <;> exact hh
          · simp at hh
        · simp at hh

theorem opUnlock_cons (x : Rid) {db : DB} (ha : InvA db) (hq : InvQ db) (c : Cmd) :
    InvQ (opUnlock db c).1 ∧ answered x (opUnlock db c).2 + openN x (opUnlock db c).1 = openN x db + hit x c.rid := by
  have hs := classifyUnlock_spec db c
  unfold opUnlock
  cases e : classifyUnlock db c with
  | stateError => unfold applyUnlock DB.bumpErr; dsimp only; exact ⟨hq.ctrMod _, by rw [answered_mk x _ _ _ _ _ (by decide), openN_ctrMod]; omega⟩
  | notLocked => unfold applyUnlock DB.bumpErr; dsimp only; exact ⟨hq.ctrMod _, by rw [answered_mk x _ _ _ _ _ (by decide), openN_ctrMod]; omega⟩
  | unown => unfold applyUnlock DB.bumpErr; dsimp only; exact ⟨hq.ctrMod _, by rw [answered_mk x _ _ _ _ _ (by decide), openN_ctrMod]; omega⟩
  | ackWaiting h => unfold applyUnlock DB.bumpErr; dsimp only; exact ⟨hq.ctrMod _, by rw [answered_mk x _ _ _ _ _ (by decide), openN_ctrMod]; omega⟩
  | dec h =>
    obtain ⟨r, hm, e1, hd, hnp⟩ := hs h (Or.inl e)
    have hqr := hq.recs r hm
    have hnq := ha.heldNQ r hm hd
    have hto : r.timeouted = true := by
      cases et : r.timeouted with
      | true => rfl
      | false => have := (hqr.1 et).1 hd; rw [hnp] at this; exact absurd this (by decide)
    have hpr : findR db.recs h = some r := by rw [← e1]; exact findR_of_mem ha.nodup hm
    have h1 := ((At.start x ha hq hpr).modR (fun r => { r with depth := r.depth - 1 }) (by intro _; rfl)).modKey c.key (fun k => { k with locked := k.locked - 1 })
    obtain ⟨r2, h2, s⟩ := h1.journalUnlock true
    obtain ⟨s1, s2, s3, s4, s5, s6⟩ := s
    have hp2 : r2.pending = false := (pending_false_iff _).mpr (by rw [s3]; exact (pending_false_iff _).mp hnp)
    obtain ⟨hq', hb⟩ := (h2.ctrMod (fun x => { x with unLockCount := x.unLockCount + 1, lockedCount := x.lockedCount - 1 })).finish
      (QR_of (by rw [s5]; simp [hto]) (by intro _; exact ⟨by rw [s5]; exact hto, hp2, by rw [s4]; exact hnq⟩) (by rw [s4]; simp [hnq]) (by rw [s3]; exact hqr.2.2.2))
    have ha' : InvA (((((db.modR h (fun r => { r with depth := r.depth - 1 })).modKey c.key (fun k => { k with locked := k.locked - 1 })).journalUnlock h true).ctrMod
        (fun x => { x with unLockCount := x.unLockCount + 1, lockedCount := x.lockedCount - 1 }))) := by
      apply InvA.ctrMod; apply InvA.journalUnlock; apply InvA.modKey
      exact ha.modR_holder h _ (by intro _; exact ⟨rfl, rfl, rfl⟩) (by intro r hd; simp at hd; omega)
    unfold applyUnlock
    simp only []
    refine ⟨(wake_cons x ha' hq' _ _).1, ?_⟩
    rw [(wake_cons x ha' hq' _ _).2, answered_mk x _ _ _ _ _ (by decide), hb]
    have e0 : openR x r = 0 := by rw [openR_eq, hnq, hnp]; simp [b2i]
    have e2 : openR x r2 = 0 := by rw [openR_eq, s4, hp2]; simp [hnq, b2i]
    omega
  | release h =>
    obtain ⟨r, hm, e1, hd, hnp⟩ := hs h (Or.inr e)
    have hqr := hq.recs r hm
    have hnq := ha.heldNQ r hm hd
    have hto : r.timeouted = true := by
      cases et : r.timeouted with
      | true => rfl
      | false => have := (hqr.1 et).1 hd; rw [hnp] at this; exact absurd this (by decide)
    have hpr : findR db.recs h = some r := by rw [← e1]; exact findR_of_mem ha.nodup hm
    have h1 := ((At.start x ha hq hpr).modR (fun r => { r with expried := true }) (by intro _; rfl)).modKey c.key
      (fun k => { k with locked := k.locked - (db.getR h).depth })
    obtain ⟨r2, h2, s⟩ := h1.journalUnlock false
    obtain ⟨s1, s2, s3, s4, s5, s6⟩ := s
    obtain ⟨r3, h3, c1, c2, c3, c4, c5, c6⟩ := h2.removeLock
    have hp3 : r3.pending = false := (pending_false_iff _).mpr c3
    obtain ⟨hq', hb⟩ := (h3.ctrMod (fun x => { x with unLockCount := x.unLockCount + (db.getR h).depth, lockedCount := x.lockedCount - (db.getR h).depth })).finish
      (QR_of (by rw [c5, s5]; simp [hto]) (by rw [c6, s6]; simp) (by rw [c4, s4]; simp [hnq]) (by rw [c3]; exact Nat.le_refl _))
    have ha' : InvA ((((db.modR h (fun r => { r with expried := true })).modKey c.key (fun k => { k with locked := k.locked - (db.getR h).depth })).journalUnlock h false).removeLock h |>.ctrMod
        (fun x => { x with unLockCount := x.unLockCount + (db.getR h).depth, lockedCount := x.lockedCount - (db.getR h).depth })) := by
      apply InvA.ctrMod; apply InvA.removeLock; apply InvA.journalUnlock; apply InvA.modKey
      exact ha.modR_irrel h _ (irrel_expried true)
    unfold applyUnlock
    simp only []
    refine ⟨(wake_cons x ha' hq' _ _).1, ?_⟩
    rw [(wake_cons x ha' hq' _ _).2, answered_mk x _ _ _ _ _ (by decide), hb]
    have e0 : openR x r = 0 := by rw [openR_eq, hnq, hnp]; simp [b2i]
    have e2 : openR x r3 = 0 := by rw [openR_eq, c4, s4, hp3]; simp [hnq, b2i]
    omega

/-! ### sweeps -/

theorem fireTimeout_cons (x : Rid) {db : DB} (ha : InvA db) (hq : InvQ db) (hid : Nat) (hnt : (db.getR hid).timeouted = false) :
    InvQ (fireTimeout db hid).1 ∧ answered x (fireTimeout db hid).2 + openN x (fireTimeout db hid).1 = openN x db := by
  have hpr := present_of (Or.inr (Or.inr (Or.inl hnt)))
  have hqr := hq.getR hid
  have h0 := (At.start x ha hq hpr).modR (fun r => { r with timeouted := true }) (by intro _; rfl)
  have ha0 : InvA (db.modR hid (fun r => { r with timeouted := true })) := ha.modR_irrel hid _ (irrel_timeouted true)
  unfold fireTimeout
  simp only []
  split
  · rename_i hd
    have hp := (hqr.1 hnt).1 hd
    have hnq := not_queued_of_pending hqr hp
    have hex := expried_of_pending hqr hp
    obtain ⟨r2, h2, c1, c2, c3, c4, c5, c6⟩ := h0.rollback
    obtain ⟨hq', hb⟩ := (h2.ctrMod (fun x => { x with timeoutedCount := x.timeoutedCount + 1 })).finish
      (QR_of (by rw [c5]; simp) (by rw [c6]; simp [hex]) (by rw [c4]; simp [hnq]) (by rw [c3]; exact Nat.le_refl _))
    have ha' := (ha0.rollback hid).ctrMod (fun x => { x with timeoutedCount := x.timeoutedCount + 1 })
    refine ⟨(wake_cons x ha' hq' _ _).1, ?_⟩
    rw [(wake_cons x ha' hq' _ _).2, answered_mk x _ _ _ _ _ (by decide), hb]
    have e0 : openR x (db.getR hid) = hit x (db.getR hid).cmd.rid := by rw [openR_eq, hnq, hp]; unfold hit b2i; simp
    have e2 : openR x r2 = 0 := by rw [openR_eq, c4, (pending_false_iff _).mpr c3]; simp [hnq, b2i]
    omega
  · rename_i hd
    have hd0 : (db.getR hid).depth = 0 := by omega
    have hqd := (hqr.1 hnt).2 hd0
    have hnp := (hqr.2.2.1 hqd).1
    have hex := (hqr.2.2.1 hqd).2
    have h1 := h0.modR (fun r => { r with queued := false }) (by intro _; rfl)
    have hfin : ∀ d : DB, At x d hid ({ ({ (db.getR hid) with timeouted := true } : Rec) with queued := false } : Rec) (openN x db - openR x (db.getR hid)) →
        InvQ (d.ctrMod (fun x => { x with waitCount := x.waitCount - 1, timeoutedCount := x.timeoutedCount + 1 })) ∧
        openN x (d.ctrMod (fun x => { x with waitCount := x.waitCount - 1, timeoutedCount := x.timeoutedCount + 1 })) = openN x db - openR x (db.getR hid) := by
      intro d hd'
      obtain ⟨hq', hb⟩ := (hd'.ctrMod (fun x => { x with waitCount := x.waitCount - 1, timeoutedCount := x.timeoutedCount + 1 })).finish
        (QR_of (by simp) (by simp [hex]) (by simp) (hqr.2.2.2))
      refine ⟨hq', ?_⟩
      have e2 : openR x ({ ({ (db.getR hid) with timeouted := true } : Rec) with queued := false } : Rec) = 0 := by
        rw [openR_eq]
        have hp' : ({ ({ (db.getR hid) with timeouted := true } : Rec) with queued := false } : Rec).pending = false := hnp
        rw [hp']; simp [b2i]
      rw [hb, e2]; omega
    have e0 : openR x (db.getR hid) = hit x (db.getR hid).cmd.rid := by rw [openR_eq, hqd, hnp]; unfold hit b2i; simp
    have hdw : InvQ (db.dropWaiter hid) ∧ openN x (db.dropWaiter hid) = openN x db - openR x (db.getR hid) := by
      unfold DB.dropWaiter
      simp only []
      split
      · exact hfin _ (h1.modKey (db.getR hid).cmd.key (fun k => { k with waited := false }))
      · exact hfin _ h1
    have hw := wake_cons x (ha.dropWaiter hid) hdw.1 (db.getR hid).cmd.key
      [mkReply (db.getR hid).cmd R_TIMEOUT ((db.dropWaiter hid).getKey (db.getR hid).cmd.key).locked 0 ((db.dropWaiter hid).curData (db.getR hid).cmd.key)]
    refine ⟨hw.1, ?_⟩
    rw [hw.2, answered_mk x _ _ _ _ _ (by decide), hdw.2]; omega

theorem fireExpire_cons (x : Rid) {db : DB} (ha : InvA db) (hq : InvQ db) (hid : Nat) (hne : (db.getR hid).expried = false) :
    InvQ (fireExpire db hid).1 ∧ answered x (fireExpire db hid).2 + openN x (fireExpire db hid).1 = openN x db := by
  have hpr := present_of (Or.inr (Or.inr (Or.inr (Or.inl hne))))
  have hqr := hq.getR hid
  obtain ⟨hto, hnp, hnq⟩ := hqr.2.1 hne
  have hs := At.start x ha hq hpr
  have e0 : openR x (db.getR hid) = 0 := by rw [openR_eq, hnq, hnp]; simp [b2i]
  unfold fireExpire
  simp only []
  split
  · have h1 := hs.modR (fun r => { r with expT := db.now + 30 }) (by intro _; rfl)
    obtain ⟨r2, h2, c1, c2, c3, c4, c5, c6⟩ := h1.addExpried
    have hp2 : r2.pending = false := (pending_false_iff _).mpr (by rw [c3]; exact (pending_false_iff _).mp hnp)
    obtain ⟨hq', hb⟩ := h2.finish (QR_of (by rw [c5]; simp [hto]) (by intro _; exact ⟨by rw [c5]; exact hto, hp2, by rw [c4]; exact hnq⟩)
      (by rw [c4]; simp [hnq]) (by rw [c3]; exact hqr.2.2.2))
    refine ⟨hq', ?_⟩
    have e2 : openR x r2 = 0 := by rw [openR_eq, c4, hp2]; simp [hnq, b2i]
    simp; omega
  · have h1 := (hs.modR (fun r => { r with expried := true }) (by intro _; rfl)).modKey (db.getR hid).cmd.key
      (fun k => { k with locked := k.locked - (db.getR hid).depth })
    obtain ⟨r2, h2, s⟩ := h1.journalUnlock false
    obtain ⟨s1, s2, s3, s4, s5, s6⟩ := s
    obtain ⟨r3, h3, c1, c2, c3, c4, c5, c6⟩ := h2.removeLock
    obtain ⟨hq', hb⟩ := (h3.ctrMod (fun x => { x with lockedCount := x.lockedCount - (db.getR hid).depth, expriedCount := x.expriedCount + 1 })).finish
      (QR_of (by rw [c5, s5]; simp [hto]) (by rw [c6, s6]; simp) (by rw [c4, s4]; simp [hnq]) (by rw [c3]; exact Nat.le_refl _))
    have ha' : InvA (((((db.modR hid (fun r => { r with expried := true })).modKey (db.getR hid).cmd.key (fun k => { k with locked := k.locked - (db.getR hid).depth })).journalUnlock hid false).removeLock hid).ctrMod
        (fun x => { x with lockedCount := x.lockedCount - (db.getR hid).depth, expriedCount := x.expriedCount + 1 })) := by
      apply InvA.ctrMod; apply InvA.removeLock; apply InvA.journalUnlock; apply InvA.modKey
      exact ha.modR_irrel hid _ (irrel_expried true)
    refine ⟨(wake_cons x ha' hq' _ _).1, ?_⟩
    rw [(wake_cons x ha' hq' _ _).2, answered_mk_expried, hb]
    have e2 : openR x r3 = 0 := by rw [openR_eq, c4, s4, (pending_false_iff _).mpr c3]; simp [hnq, b2i]
    omega

theorem openN_recs_same (x : Rid) {db db' : DB} (hid : Nat) (f : Rec → Rec) (e : db'.recs = modRecs hid f db.recs)
    (hf : ∀ r, openR x (f r) = openR x r) : openN x db' = openN x db := by
  rw [openN_frame x (db := db.modR hid f) e]; exact openN_modR_same x db hid f hf

theorem InvQ.modR' {db db' : DB} (h : InvQ db) (hid : Nat) (f : Rec → Rec) (e1 : db'.recs = modRecs hid f db.recs) (e2 : db'.cfg = db.cfg)
    (hf : ∀ r ∈ db.recs, r.hid = hid → QR r → QR (f r)) : InvQ db' := (h.modR hid f hf).frame e1 e2

theorem QR_congr {r r' : Rec} (s : SameCore r r') (h : QR r) : QR r' := by
  obtain ⟨s1, s2, s3, s4, s5, s6⟩ := s
  unfold QR Rec.pending at *
  rw [s2, s3, s4, s5, s6]; exact h

theorem timeoutStep_cons (x : Rid) (acc : DB × List Nat) (r0 : Rec) (hq : InvQ acc.1) :
    InvQ (timeoutStep acc r0).1 ∧ openN x (timeoutStep acc r0).1 = openN x acc.1 := by
  unfold timeoutStep
  simp only []
  split
  · refine ⟨hq.modR' _ _ rfl rfl (fun r _ _ hr => QR_congr ⟨rfl, rfl, rfl, rfl, rfl, rfl⟩ hr), ?_⟩
    exact openN_recs_same x _ _ rfl (fun r => openR_congr x rfl rfl rfl)
  · exact ⟨hq, rfl⟩

theorem expireStep_cons (x : Rid) (acc : DB × List Nat) (r0 : Rec) (hq : InvQ acc.1) :
    InvQ (expireStep acc r0).1 ∧ openN x (expireStep acc r0).1 = openN x acc.1 := by
  unfold expireStep
  simp only []
  split
  · refine ⟨hq.modR' _ _ rfl rfl (fun r _ _ hr => QR_congr ⟨rfl, rfl, rfl, rfl, rfl, rfl⟩ hr), ?_⟩
    exact openN_recs_same x _ _ rfl (fun r => openR_congr x rfl rfl rfl)
  · exact ⟨hq, rfl⟩

/-- invariant + balance carried by an accumulator `(db, replies)` -/
def Bal (x : Rid) (base : Int) (acc : DB × List Reply) : Prop :=
  InvA acc.1 ∧ InvQ acc.1 ∧ answered x acc.2 + openN x acc.1 = base

theorem fireTimeoutStep_bal (x : Rid) (base : Int) (acc : DB × List Reply) (hid : Nat) (h : Bal x base acc) : Bal x base (fireTimeoutStep acc hid) := by
  obtain ⟨ha, hq, hb⟩ := h
  unfold fireTimeoutStep
  split
  · exact ⟨ha, hq, hb⟩
  · rename_i hnt
    have hnt' : (acc.1.getR hid).timeouted = false := by simpa using hnt
    have := fireTimeout_cons x ha hq hid hnt'
    exact ⟨ha.fireTimeout hid, this.1, by simp only []; rw [answered_append]; have := this.2; omega⟩

theorem fireExpireStep_bal (x : Rid) (base : Int) (acc : DB × List Reply) (hid : Nat) (h : Bal x base acc) : Bal x base (fireExpireStep acc hid) := by
  obtain ⟨ha, hq, hb⟩ := h
  unfold fireExpireStep
  split
  · exact ⟨ha, hq, hb⟩
  · rename_i hne
    have hne' : (acc.1.getR hid).expried = false := by simpa using hne
    have := fireExpire_cons x ha hq hid hne'
    exact ⟨ha.fireExpire hid, this.1, by simp only []; rw [answered_append]; have := this.2; omega⟩

theorem sweepTimeout_cons (x : Rid) {db : DB} (ha : InvA db) (hq : InvQ db) (c : Nat) :
    InvQ (sweepTimeout db c).1 ∧ answered x (sweepTimeout db c).2 + openN x (sweepTimeout db c).1 = openN x db := by
  unfold sweepTimeout
  simp only []
  have h1 := foldl_inv (fun acc : DB × List Nat => InvA acc.1 ∧ InvQ acc.1 ∧ openN x acc.1 = openN x db) timeoutStep
    (fun b a hb => ⟨InvA.timeoutStep b a hb.1, (timeoutStep_cons x b a hb.2.1).1, by rw [(timeoutStep_cons x b a hb.2.1).2]; exact hb.2.2⟩)
    (slotT db c false) (db, []) ⟨ha, hq, rfl⟩
  have h2 := foldl_inv (Bal x (openN x db)) fireTimeoutStep (fun b a hb => fireTimeoutStep_bal x _ b a hb)
    (((slotT db c false).foldl timeoutStep (db, [])).2 ++ (slotT db c true).map (·.hid)) (((slotT db c false).foldl timeoutStep (db, [])).1, [])
    ⟨h1.1, h1.2.1, by simp; exact h1.2.2⟩
  exact ⟨h2.2.1, h2.2.2⟩

theorem sweepExpire_cons (x : Rid) {db : DB} (ha : InvA db) (hq : InvQ db) (c : Nat) :
    InvQ (sweepExpire db c).1 ∧ answered x (sweepExpire db c).2 + openN x (sweepExpire db c).1 = openN x db := by
  unfold sweepExpire
  simp only []
  have h1 := foldl_inv (fun acc : DB × List Nat => InvA acc.1 ∧ InvQ acc.1 ∧ openN x acc.1 = openN x db) expireStep
    (fun b a hb => ⟨InvA.expireStep b a hb.1, (expireStep_cons x b a hb.2.1).1, by rw [(expireStep_cons x b a hb.2.1).2]; exact hb.2.2⟩)
    (slotE db c false) (db, []) ⟨ha, hq, rfl⟩
  have h2 := foldl_inv (Bal x (openN x db)) fireExpireStep (fun b a hb => fireExpireStep_bal x _ b a hb)
    (((slotE db c false).foldl expireStep (db, [])).2 ++ (slotE db c true).map (·.hid)) (((slotE db c false).foldl expireStep (db, [])).1, [])
    ⟨h1.1, h1.2.1, by simp; exact h1.2.2⟩
  exact ⟨h2.2.1, h2.2.2⟩

def tickT (db : DB) : DB := { db with now := db.now + 1, tCheck := db.now + 1 + 1 }
def tickE (d : DB) (now : Nat) : DB := { d with eCheck := now + 1 }

theorem opTick_eq (db : DB) : opTick db = ((sweepExpire (tickE (sweepTimeout (tickT db) (db.now + 1)).1 (db.now + 1)) (db.now + 1)).1,
    (sweepTimeout (tickT db) (db.now + 1)).2 ++ (sweepExpire (tickE (sweepTimeout (tickT db) (db.now + 1)).1 (db.now + 1)) (db.now + 1)).2) := rfl

theorem opTick_cons (x : Rid) {db : DB} (ha : InvA db) (hq : InvQ db) :
    InvQ (opTick db).1 ∧ answered x (opTick db).2 + openN x (opTick db).1 = openN x db := by
  have ha0 : InvA (tickT db) := ha.frame rfl rfl rfl rfl
  have hq0 : InvQ (tickT db) := hq.frame rfl rfl
  have h1 := sweepTimeout_cons x ha0 hq0 (db.now + 1)
  have ha1 : InvA (tickE (sweepTimeout (tickT db) (db.now + 1)).1 (db.now + 1)) := (ha0.sweepTimeout (db.now + 1)).frame rfl rfl rfl rfl
  have hq1 : InvQ (tickE (sweepTimeout (tickT db) (db.now + 1)).1 (db.now + 1)) := h1.1.frame rfl rfl
  have h2 := sweepExpire_cons x ha1 hq1 (db.now + 1)
  rw [opTick_eq]
  refine ⟨h2.1, ?_⟩
  dsimp only
  rw [answered_append]
  have e1 : openN x (tickE (sweepTimeout (tickT db) (db.now + 1)).1 (db.now + 1)) = openN x (sweepTimeout (tickT db) (db.now + 1)).1 := openN_frame x rfl
  have e2 : openN x (tickT db) = openN x db := openN_frame x rfl
  have := h1.2; have := h2.2
  omega

/-! ### journal delivery (building blocks; used by the counting invariant too) -/

theorem InvQ.dropEnt {db : DB} (h : InvQ db) (id : Nat) : InvQ (db.dropEnt id) := h.frame rfl rfl

/-- an update that keeps a pending record pending (only the counter moves, within 0 … 254) -/
theorem pendingKeep_cons (x : Rid) {db : DB} (hq : InvQ db) (hid : Nat) (a : Nat → Nat)
    (hp : (db.getR hid).pending = true) (ha : a (db.getR hid).ack < NOACK) :
    InvQ (db.modR hid (fun r => { r with ack := a r.ack })) ∧ openN x (db.modR hid (fun r => { r with ack := a r.ack })) = openN x db := by
  have hpr := present_of (Or.inl hp)
  have hm := (findR_some_mem hpr).1
  have hqr := hq.getR hid
  have hnq := not_queued_of_pending hqr hp
  have hex := expried_of_pending hqr hp
  have hpa : ({ (db.getR hid) with ack := a (db.getR hid).ack } : Rec).pending = true := by
    unfold Rec.pending NOACK at *; simp; omega
  constructor
  · refine ⟨?_, hq.cfg⟩
    intro r hr
    rcases mem_modRecs hr with h | ⟨r0, hr0, e⟩
    · exact hq.recs r h
    · have : r0 = db.getR hid := by rw [hpr] at hr0; exact (Option.some.inj hr0).symm
      subst this
      rw [e]
      exact QR_of (by intro _; simp only []; exact ⟨fun _ => hpa, fun hd => (hqr.1 ‹_›).2 hd⟩) (by simp [hex]) (by simp [hnq]) (by simp only []; unfold NOACK at *; omega)
  · have h : openN x (db.modR hid (fun r => { r with ack := a r.ack })) =
        openN x db + openR x ({ (db.getR hid) with ack := a (db.getR hid).ack } : Rec) - openR x (db.getR hid) :=
      openN_modR_at x db hid _ hpr
    have : openR x ({ (db.getR hid) with ack := a (db.getR hid).ack } : Rec) = openR x (db.getR hid) := by
      rw [openR_eq, openR_eq, hpa, hp]
    rw [this] at h
    omega

theorem leaderPushLock_cons (x : Rid) {db : DB} (ha : InvA db) (hq : InvQ db) (id hid : Nat)
    (hg : db.leader = true → (db.getR hid).depth > 0 → (db.getR hid).pending = true) :
    InvQ (leaderPushLock db id hid).1 ∧ answered x (leaderPushLock db id hid).2 + openN x (leaderPushLock db id hid).1 = openN x db := by
  unfold leaderPushLock
  split
  · exact ackDone_cons x ha hq hid false
  · rename_i hl
    split
    · exact ackDone_cons x ha hq hid false
    · rename_i hc
      have hl' : db.leader = true := by simpa using hl
      have hd : (db.getR hid).depth > 0 := by
        simp only [Bool.or_eq_true, beq_iff_eq, not_or] at hc; omega
      have := pendingKeep_cons x hq hid (fun _ => reqAcks db.cfg) (hg hl' hd) hq.cfg
      simp only []
      exact ⟨this.1.frame rfl rfl, by simp only [answered_nil, Int.zero_add]; exact (openN_frame x rfl).trans this.2⟩

theorem leaderPushUnLock_cons (x : Rid) {db : DB} (ha : InvA db) (hq : InvQ db) (hid : Nat) :
    InvQ (leaderPushUnLock db hid).1 ∧ answered x (leaderPushUnLock db hid).2 + openN x (leaderPushUnLock db hid).1 = openN x db := by
  unfold leaderPushUnLock
  split
  · rename_i e _
    have := ackDone_cons x (ha.dropEnt e.id) (hq.dropEnt e.id) hid false
    exact ⟨this.1, by rw [this.2]; exact openN_frame x rfl⟩
  · exact ⟨hq, by simp⟩

theorem InvQ.popJ {db : DB} (h : InvQ db) (k : Nat) : InvQ (popJ db k) := h.frame rfl rfl

end Slock.Ack
