import Slock.Proofs.QueueMaint
/-! C20: iteration (`IterNodes` / `IterNodeQueues`) and in-place holes of the segmented deque. -/
namespace Slock.Queue

/-- a cell range of one node inside the flat view -/
theorem F_node_slice (L : List (Option Arr)) (j lo hi : Nat) (a : Arr) (hj : L[j]? = some (some a)) (hhi : hi ≤ a.length) :
    ((F L).take (off L j + hi)).drop (off L j + lo) = (a.take hi).drop lo := by
  apply List.ext_getElem?
  intro k
  simp only [List.getElem?_drop, List.getElem?_take]
  by_cases h : lo + k < hi
  · have h1 : off L j + lo + k < off L j + hi := by omega
    have e : off L j + lo + k = off L j + (lo + k) := by omega
    simp only [h1, h, if_true]
    rw [e, F_get_cell L j (lo + k) a hj (by omega)]
    simp
  · have h1 : ¬ off L j + lo + k < off L j + hi := by omega
    simp [h1, h]

theorem G_split {α : Type} (g : List α) (S E T : Nat) (h1 : S ≤ E) (h2 : E ≤ T) :
    (g.take T).drop S = (g.take E).drop S ++ (g.take T).drop E := by
  by_cases hg : E ≤ g.length
  · have e : g.take T = g.take E ++ (g.take T).drop E := by
      have := List.take_append_drop E (g.take T)
      rw [List.take_take, Nat.min_eq_left h2] at this
      exact this.symm
    have hl : S ≤ (g.take E).length := by simp only [List.length_take]; omega
    conv => lhs; rw [e]
    rw [List.drop_append_of_le_length hl]
  · have e1 : g.take E = g := List.take_of_length_le (by omega)
    have e2 : g.take T = g := List.take_of_length_le (by omega)
    have e3 : g.drop E = [] := List.drop_eq_nil_of_le (by omega)
    rw [e1, e2, e3, List.append_nil]


/-- global start / end position of the part of node `i` that belongs to the deque -/
def segStart (q : Q) (i : Nat) : Nat := if i = q.hni then off q.queues q.hni + q.hqi else off q.queues i
def segEnd (q : Q) (i : Nat) : Nat := if i = q.tni then off q.queues q.tni + q.tqi else off q.queues (i + 1)

/-- the cell range of node `i` exposed by `IterNodeQueues(i - hni)` -/
def segLo (q : Q) (i : Nat) : Nat := if i = q.hni then q.hqi else 0
def segHi (q : Q) (i : Nat) (len : Nat) : Nat := if i = q.tni then q.tqi else len

/-- `IterNodeQueues(i - hni)` is exactly the cells of node `i` between the cursors -/
theorem iterNode_spec {q : Q} (h : QInv q) (i : Nat) (h1 : q.hni ≤ i) (h2 : i ≤ q.tni) :
    ∃ (a : Arr), q.queues[i]? = some (some a) ∧
      iterBounds q (i - q.hni) = .ok (segLo q i, segHi q i a.length) ∧
      segLo q i ≤ segHi q i a.length ∧ segHi q i a.length ≤ a.length ∧
      iterNodeQueues q (i - q.hni) = .ok ((a.take (segHi q i a.length)).drop (segLo q i)) ∧
      (a.take (segHi q i a.length)).drop (segLo q i) = ((F q.queues).take (segEnd q i)).drop (segStart q i) ∧
      segStart q i ≤ segEnd q i ∧ segStart q i = off q.queues i + segLo q i := by
  obtain ⟨a, ha, hsz, hpos, _⟩ := h.node i (Nat.le_trans h2 h.tle)
  obtain ⟨hl, hle⟩ := getElem_of_getElem? ha
  have s2 := off_succ q.queues i hl
  rw [hle] at s2
  simp only [nodeOf] at s2
  have e : q.hni + (i - q.hni) = i := by omega
  have hqs := h.hqs
  have tqs := h.tqs
  have hlt := h.hlt
  have tlt := h.tlt
  have hle' := h.hle
  have lenH : i = q.hni → a.length = q.hqs := by
    intro c; rw [c, hqs] at hsz; simpa using hsz.symm
  have lenT : i = q.tni → a.length = q.tqs := by
    intro c; rw [c, tqs] at hsz; simpa using hsz.symm
  have ord : i = q.hni → i = q.tni → q.hqi ≤ q.tqi := fun c1 c2 => h.ord (by omega)
  have hlo : segLo q i ≤ segHi q i a.length ∧ segHi q i a.length ≤ a.length := by
    unfold segLo segHi
    by_cases c1 : i = q.hni <;> by_cases c2 : i = q.tni
    · have := lenT c2; have := ord c1 c2; rw [if_pos c1, if_pos c2]; omega
    · have := lenH c1; rw [if_pos c1, if_neg c2]; omega
    · have := lenT c2; rw [if_neg c1, if_pos c2]; omega
    · rw [if_neg c1, if_neg c2]; omega
  have hS : segStart q i = off q.queues i + segLo q i := by
    unfold segStart segLo
    by_cases c1 : i = q.hni
    · rw [if_pos c1, if_pos c1, ← c1]
    · rw [if_neg c1, if_neg c1]; omega
  have hE : segEnd q i = off q.queues i + segHi q i a.length := by
    unfold segEnd segHi
    by_cases c2 : i = q.tni
    · rw [if_pos c2, if_pos c2, ← c2]
    · rw [if_neg c2, if_neg c2, s2]
  have hb : iterBounds q (i - q.hni) = .ok (segLo q i, segHi q i a.length) := by
    unfold iterBounds segLo segHi
    simp only [e]
    by_cases c1 : i = q.hni <;> by_cases c2 : i = q.tni
    · rw [if_pos c1, if_pos c2, if_pos c1, if_pos c2]; rfl
    · rw [if_pos c1, if_neg c2, if_pos c1, if_neg c2]; simp only [size, hsz, Res.ok_bind, Res.pure_eq]
    · rw [if_neg c1, if_pos c2, if_neg c1, if_pos c2]; rfl
    · rw [if_neg c1, if_neg c2, if_neg c1, if_neg c2]; simp only [size, hsz, Res.ok_bind, Res.pure_eq]
  refine ⟨a, ha, hb, hlo.1, hlo.2, ?_, ?_, by rw [hS, hE]; omega, hS⟩
  · unfold iterNodeQueues
    simp only [e, slot, ha, Res.ok_bind, hb, sliceArr, hlo, and_self, if_true]
  · rw [hS, hE]; exact (F_node_slice _ _ _ _ _ ha hlo.2).symm


theorem iterFrom_spec {q : Q} (h : QInv q) (n : Nat) : ∀ i, q.hni ≤ i → i + n = q.tni + 1 → 1 ≤ n →
    ∃ l, iterFrom q (i - q.hni) n = .ok l ∧
      l.flatten = ((F q.queues).take (off q.queues q.tni + q.tqi)).drop (segStart q i) := by
  induction n with
  | zero => intro i _ _ h3; omega
  | succ n ih =>
    intro i h1 h2 _
    obtain ⟨a, _, _, _, _, e1, e2, e3, _⟩ := iterNode_spec h i h1 (by omega)
    by_cases c : n = 0
    · subst c
      have hi : i = q.tni := by omega
      have hE : segEnd q i = off q.queues q.tni + q.tqi := by unfold segEnd; rw [if_pos hi]
      refine ⟨[(a.take (segHi q i a.length)).drop (segLo q i)], by simp only [iterFrom, e1, Res.ok_bind, Res.pure_eq], ?_⟩
      simp only [List.flatten_cons, List.flatten_nil, List.append_nil]
      rw [e2, hE]
    · obtain ⟨l, f1, f2⟩ := ih (i + 1) (by omega) (by omega) (by omega)
      have hne : ¬ i = q.tni := by omega
      have hE : segEnd q i = off q.queues (i + 1) := by unfold segEnd; rw [if_neg hne]
      have hS : segStart q (i + 1) = off q.queues (i + 1) := by
        unfold segStart; rw [if_neg (by omega)]
      have ei : i + 1 - q.hni = i - q.hni + 1 := by omega
      rw [ei] at f1
      refine ⟨(a.take (segHi q i a.length)).drop (segLo q i) :: l, by simp only [iterFrom, e1, f1, Res.ok_bind, Res.pure_eq], ?_⟩
      simp only [List.flatten_cons]
      rw [f2, e2, hE, hS]
      have hm : off q.queues (i + 1) ≤ off q.queues q.tni := off_mono _ (by omega)
      rw [hE] at e3
      exact (G_split _ _ _ _ e3 (by omega)).symm

/-- **Iteration** (`for i := range q.IterNodes() { q.IterNodeQueues(i) }`) yields exactly the cells of the abstract
deque, in order, holes included as `none`. -/
theorem iterAll_refines {q : Q} (h : QInv q) : ∃ l, iterAll q = .ok l ∧ l.flatten = abs q := by
  have hc : q.hni ≤ q.tni + 1 ∧ q.tni + 1 ≤ q.queues.length := by
    have := h.hle; have := h.tle; have := h.niLt; rw [h.lenQ']; omega
  obtain ⟨l, e1, e2⟩ := iterFrom_spec h (q.tni + 1 - q.hni) q.hni (Nat.le_refl _) (by have := h.hle; omega) (by have := h.hle; omega)
  refine ⟨l, ?_, ?_⟩
  · simp only [iterAll, iterNodes, hc, and_self, if_true, Res.ok_bind]
    simpa using e1
  · rw [e2]; unfold abs absL segStart; rw [if_pos rfl]

/-- … hence what a caller that skips nil entries sees is exactly the non-hole content, in order. -/
theorem iterAll_nonhole {q : Q} (h : QInv q) :
    ∃ l, iterAll q = .ok l ∧ l.flatten.filterMap id = (abs q).filterMap id := by
  obtain ⟨l, e1, e2⟩ := iterAll_refines h
  exact ⟨l, e1, by rw [e2]⟩


/-- the invariant only looks at the node table through its shape -/
theorem QInv_setQueues {q : Q} (h : QInv q) (L' : List (Option Arr)) (hs : shape L' = shape q.queues) :
    QInv { q with queues := L' } := by
  obtain ⟨h1, h2, h3, h4, h5, h6, h7, h8, h9, h10, h11, h12, h13, h14, h15, h16, h17⟩ := h
  constructor <;> simp only [hs] <;> assumption

theorem segEnd_le_pt {q : Q} (h : QInv q) (i : Nat) (h2 : i ≤ q.tni) : segEnd q i ≤ off q.queues q.tni + q.tqi := by
  unfold segEnd
  by_cases c : i = q.tni
  · rw [if_pos c]; exact Nat.le_refl _
  · rw [if_neg c]
    have : off q.queues (i + 1) ≤ off q.queues q.tni := off_mono _ (by omega)
    omega

theorem holeFrom_spec {q : Q} (h : QInv q) (n : Nat) : ∀ i pos, q.hni ≤ i → i + n = q.tni + 1 → 1 ≤ n →
    ∃ q', holeFrom q (i - q.hni) n pos = .ok (q', decide (segStart q i + pos < off q.queues q.tni + q.tqi)) ∧ QInv q' ∧
      abs q' = (((F q.queues).set (segStart q i + pos) none).take (off q.queues q.tni + q.tqi)).drop
        (off q.queues q.hni + q.hqi) ∧ (HeadClean q → HeadClean q') := by
  induction n with
  | zero => intro i _ _ _ h3; omega
  | succ n ih =>
    intro i pos h1 h2 _
    obtain ⟨a, ha, hb, hl1, hl2, e1, e2, e3, e4⟩ := iterNode_spec h i h1 (by omega)
    have hle := segEnd_le_pt h i (by omega)
    have hlen : ((a.take (segHi q i a.length)).drop (segLo q i)).length = segEnd q i - segStart q i := by
      rw [e2]; simp only [List.length_drop, List.length_take]
      obtain ⟨_, p2, p3⟩ := h.pos
      omega
    have hlen2 : ((a.take (segHi q i a.length)).drop (segLo q i)).length = segHi q i a.length - segLo q i := by
      simp only [List.length_drop, List.length_take]; omega
    have eidx : q.hni + (i - q.hni) = i := by omega
    unfold holeFrom
    simp only [e1, Res.ok_bind]
    by_cases c : pos < ((a.take (segHi q i a.length)).drop (segLo q i)).length
    · -- the cell is in this node
      have hi : segLo q i + pos < a.length := by omega
      have hd : decide (segStart q i + pos < off q.queues q.tni + q.tqi) = true := by
        simp only [decide_eq_true_eq]; omega
      refine ⟨{ q with queues := q.queues.set i (some (a.set (segLo q i + pos) none)) }, ?_,
        QInv_setQueues h _ (shape_set_cell _ _ _ _ _ ha), ?_, ?_⟩
      rotate_left 2
      · intro hc
        show cleanL (q.queues.set i (some (a.set (segLo q i + pos) none))) q.hni q.hqi
        apply cleanL_set _ _ _ _ _ ha hi q.hni q.hqi q.hni q.hqi hc
        intro p' hp'
        by_cases cp : p' = off q.queues i + (segLo q i + pos)
        · exact Or.inl ⟨cp, rfl⟩
        · exact Or.inr ⟨cp, hp'⟩
      · simp only [c, if_true, hb, Res.ok_bind, eidx, ha, Res.pure_eq, hd]
      · show absL (q.queues.set i (some (a.set (segLo q i + pos) none))) q.hni q.hqi q.tni q.tqi = _
        rw [absL_set _ _ _ _ _ ha hi, e4, Nat.add_assoc]
    · simp only [c, if_false]
      by_cases cn : n = 0
      · subst cn
        have hi : i = q.tni := by omega
        have hE : segEnd q i = off q.queues q.tni + q.tqi := by unfold segEnd; rw [if_pos hi]
        have hd : decide (segStart q i + pos < off q.queues q.tni + q.tqi) = false := by
          simp only [decide_eq_false_iff_not]; omega
        refine ⟨q, by simp only [holeFrom, hd], h, ?_, id⟩
        unfold abs absL
        exact (G_takeset _ _ _ _ _ (by omega)).symm
      · have hne : ¬ i = q.tni := by omega
        have hE : segEnd q i = off q.queues (i + 1) := by unfold segEnd; rw [if_neg hne]
        have hS : segStart q (i + 1) = off q.queues (i + 1) := by unfold segStart; rw [if_neg (by omega)]
        obtain ⟨q', f1, f2, f3⟩ := ih (i + 1) (pos - ((a.take (segHi q i a.length)).drop (segLo q i)).length)
          (by omega) (by omega) (by omega)
        have ei : i + 1 - q.hni = i - q.hni + 1 := by omega
        have ep : segStart q (i + 1) + (pos - ((a.take (segHi q i a.length)).drop (segLo q i)).length) = segStart q i + pos := by
          rw [hS, hlen, hE]; omega
        rw [ei, ep] at f1
        rw [ep] at f3
        exact ⟨q', f1, f2, f3⟩

/-- **In-place hole** (`nodeQueues := q.IterNodeQueues(i); nodeQueues[p] = nil`, the db.go pattern) ≙ `set pos none`
on the abstract deque; reports whether `pos` was inside the content. -/
theorem hole_spec {q : Q} (h : QInv q) (pos : Nat) :
    ∃ q', hole q pos = .ok (q', decide (pos < (abs q).length)) ∧ QInv q' ∧ abs q' = (abs q).set pos none ∧
      (HeadClean q → HeadClean q') := by
  have hc : q.hni ≤ q.tni + 1 ∧ q.tni + 1 ≤ q.queues.length := by
    have := h.hle; have := h.tle; have := h.niLt; rw [h.lenQ']; omega
  obtain ⟨p1, p2, p3⟩ := h.pos
  obtain ⟨q', e1, e2, e3, e4⟩ := holeFrom_spec h (q.tni + 1 - q.hni) q.hni pos (Nat.le_refl _)
    (by have := h.hle; omega) (by have := h.hle; omega)
  have hS : segStart q q.hni = off q.queues q.hni + q.hqi := by unfold segStart; rw [if_pos rfl]
  have hl : (abs q).length = off q.queues q.tni + q.tqi - (off q.queues q.hni + q.hqi) := by
    unfold abs absL; exact G_len _ _ _ (by omega)
  refine ⟨q', ?_, e2, ?_, e4⟩
  · simp only [hole, iterNodes, hc, and_self, if_true, Res.ok_bind]
    have : decide (pos < (abs q).length) = decide (segStart q q.hni + pos < off q.queues q.tni + q.tqi) := by
      rw [hS, hl]; apply decide_eq_decide.mpr; omega
    rw [this]; simpa using e1
  · rw [e3, hS]; unfold abs absL; exact G_hole _ _ _ _ _

theorem hole_refines {q : Q} (h : QInv q) (pos : Nat) :
    ∃ q', hole q pos = .ok (q', decide (pos < (abs q).length)) ∧ QInv q' ∧ abs q' = (abs q).set pos none := by
  obtain ⟨q', a, b, c, _⟩ := hole_spec h pos
  exact ⟨q', a, b, c⟩

end Slock.Queue
