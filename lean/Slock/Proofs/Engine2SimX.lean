import Slock.Proofs.Engine2SimQuiet
/-! Simulation stage 2 → stage 1: steps that edit ONE lock record visibly (`PKeepX`: every other record keeps its stage-1 view), and list
lemmas for the by-value replace / remove of stage 1. -/
namespace Slock.Sim
open Slock Slock.Engine2

/-- like `PKeep`, but nothing is claimed for the records in `X` -/
structure PKeepX {α : Type} (π : Rec → α) (X : Nat → Prop) (k' k : Key) : Prop where
  sub : ∀ y, ¬ X y → k'.hasRec y → k.hasRec y
  val : ∀ y, ¬ X y → k'.hasRec y → π (k'.getR y) = π (k.getR y)

namespace PKeepX
variable {α : Type} {π : Rec → α} {X : Nat → Prop}

theorem of_pk {k' k : Key} (p : PKeep π k' k) : PKeepX π X k' k := ⟨fun y _ h => p.sub y h, fun y _ h => p.val y h⟩
theorem refl (k : Key) : PKeepX π X k k := of_pk (PKeep.refl k)
theorem trans {a b c : Key} (h1 : PKeepX π X a b) (h2 : PKeepX π X b c) : PKeepX π X a c :=
  ⟨fun y hx h => h2.sub y hx (h1.sub y hx h), fun y hx h => (h1.val y hx h).trans (h2.val y hx (h1.sub y hx h))⟩
theorem of_eq {k' k : Key} (h : k'.recs = k.recs) : PKeepX π X k' k := of_pk (PKeep.of_eq h)
/-- any edit of a record in `X` -/
theorem modRec (k : Key) (rid : Nat) (f : Rec → Rec) (hf : ∀ r, (f r).rid = r.rid) (hx : X rid) : PKeepX π X (k.modRec rid f) k := by
  refine ⟨fun y _ h => (hasRec_modRec _ _ _ _ hf).mp h, fun y hy _ => ?_⟩
  have : y ≠ rid := fun e => hy (e ▸ hx)
  rw [getR_modRec_other _ _ _ _ hf this]
/-- a new record in `X` -/
theorem addRec (k : Key) (r : Rec) (hx : X r.rid) : PKeepX π X (k.addRec r) k := by
  have hsub : ∀ y, ¬ X y → (k.addRec r).hasRec y → k.hasRec y := by
    intro y hy ⟨z, hz, e⟩
    have hz' : z ∈ k.recs ++ [r] := hz
    rcases List.mem_append.mp hz' with h | h
    · exact ⟨z, h, e⟩
    · simp at h; rw [h] at e; exact absurd (e ▸ hx) hy
  exact ⟨hsub, fun y hy h => by rw [getR_addRec _ _ _ (hsub y hy h)]⟩
end PKeepX

/-! ### by-value replace / remove over a mapped list -/

theorem replaceHolder_map (l : List Nat) (f g : Nat → Engine.Hold) (x : Nat) (hx : x ∈ l) (hnd : (l.map f).Nodup)
    (hg : ∀ y ∈ l, y ≠ x → g y = f y) : Engine.replaceHolder (l.map f) (f x) (g x) = l.map g := by
  induction l with
  | nil => simp at hx
  | cons a as ih =>
    simp only [List.map_cons, List.nodup_cons] at hnd
    unfold Engine.replaceHolder
    by_cases e : a = x
    · subst e
      simp only [List.map_cons, if_true]
      congr 1
      apply List.map_congr_left
      intro y hy
      have : y ≠ a := by
        intro e; subst e
        exact hnd.1 (List.mem_map.mpr ⟨y, hy, rfl⟩)
      exact (hg y (List.mem_cons_of_mem _ hy) this).symm
    · have hne : f a ≠ f x := by
        intro e'
        have hxa : x ∈ as := by rcases List.mem_cons.mp hx with h | h; exact absurd h.symm e; exact h
        exact hnd.1 (e' ▸ List.mem_map.mpr ⟨x, hxa, rfl⟩)
      simp only [List.map_cons, hne, if_false]
      have hxa : x ∈ as := by rcases List.mem_cons.mp hx with h | h; exact absurd h.symm e; exact h
      rw [ih hxa hnd.2 (fun y hy => hg y (List.mem_cons_of_mem _ hy))]
      rw [hg a (by simp) e]

theorem removeHolder_map (l : List Nat) (f : Nat → Engine.Hold) (x : Nat) (hx : x ∈ l) (hnd : (l.map f).Nodup) :
    Engine.removeHolder (l.map f) (f x) = (l.filter (· != x)).map f := by
  induction l with
  | nil => simp at hx
  | cons a as ih =>
    simp only [List.map_cons, List.nodup_cons] at hnd
    unfold Engine.removeHolder
    by_cases e : a = x
    · subst e
      simp only [List.map_cons, if_true, List.filter, bne_self_eq_false]
      congr 1
      symm
      apply List.filter_eq_self.mpr
      intro y hy
      have : y ≠ a := by
        intro e; subst e
        exact hnd.1 (List.mem_map.mpr ⟨y, hy, rfl⟩)
      simpa using this
    · have hne : f a ≠ f x := by
        intro e'
        have hxa : x ∈ as := by rcases List.mem_cons.mp hx with h | h; exact absurd h.symm e; exact h
        exact hnd.1 (e' ▸ List.mem_map.mpr ⟨x, hxa, rfl⟩)
      have hxa : x ∈ as := by rcases List.mem_cons.mp hx with h | h; exact absurd h.symm e; exact h
      have hb : (a != x) = true := by simpa using e
      simp only [List.map_cons, hne, if_false, List.filter, hb]
      rw [ih hxa hnd.2]

end Slock.Sim
