import Slock.Proofs.Engine2LvW
/-! Stage-2 engine: the wake pass keeps the reference-count invariant. -/
namespace Slock.Engine2

theorem deadWaiter_unref_other (k : Key) (x y : Nat) (h : y ≠ x) : (k.unref x).deadWaiter y = k.deadWaiter y := by
  unfold Key.deadWaiter; rw [getR_unref_other _ _ _ h]

/-- what `GetWaitLock` returns is the (live) head of the queue it leaves behind -/
theorem waitSkip_some (l : List WEnt) (k : Key) (hl : k.wait = l) (rid : Nat) (h : (waitSkip l k).2 = some rid) :
    ∃ e rest, (waitSkip l k).1.wait = e :: rest ∧ e.rid = rid ∧ (waitSkip l k).1.deadWaiter rid = false := by
  induction l generalizing k with
  | nil => simp [waitSkip] at h
  | cons e rest ih =>
    unfold waitSkip at h ⊢
    split
    · rename_i hd
      simp only [hd, if_true] at h
      obtain ⟨_, q2, _⟩ := unref_queues { k with wait := rest, waitPopped := if k.waitPrio then k.waitPopped else k.waitPopped + 1 } e.rid
      exact ih _ q2 h
    · rename_i hd
      simp only [hd, Bool.false_eq_true, if_false] at h
      injection h with h
      exact ⟨e, rest, hl, h, by rw [← h]; simpa using hd⟩

theorem getWaitLock_some (k : Key) (rid : Nat) (h : k.getWaitLock.2 = some rid) :
    ∃ e rest, k.getWaitLock.1.wait = e :: rest ∧ e.rid = rid ∧ k.getWaitLock.1.deadWaiter rid = false :=
  waitSkip_some _ _ rfl rid h

theorem qRefs_pos_of_wait (k : Key) (e : WEnt) (rest : List WEnt) (h : k.wait = e :: rest) : 0 < k.qRefs e.rid := by
  unfold Key.qRefs; rw [h]; simp; omega

theorem getR_removeLongT (w : W) (rid : Nat) (hh : w.k.hasRec rid) :
    (w.removeLongT rid).k.hasRec rid ∧ ((w.removeLongT rid).k.getR rid).eSched = (w.k.getR rid).eSched ∧
    ((w.removeLongT rid).k.getR rid).timeouted = (w.k.getR rid).timeouted ∧ ((w.removeLongT rid).k.getR rid).cmd = (w.k.getR rid).cmd := by
  unfold W.removeLongT Key.unrefOnly
  have h1 : (w.k.modRec rid fun r => { r with tSched := none }).hasRec rid := by
    rw [hasRec_modRec _ _ _ _ (by intro _; rfl)]; exact hh
  have h2 : ((w.k.modRec rid fun r => { r with tSched := none }).modRec rid fun r => { r with refCount := decU8 r.refCount }).hasRec rid := by
    rw [hasRec_modRec _ _ _ _ (by intro _; rfl)]; exact h1
  have hg : ((w.k.modRec rid fun r => { r with tSched := none }).modRec rid fun r => { r with refCount := decU8 r.refCount }).getR rid =
      { (w.k.getR rid) with tSched := none, refCount := decU8 (w.k.getR rid).refCount } := by
    rw [getR_modRec_same _ _ _ (by intro _; rfl) h1, getR_modRec_same _ _ _ (by intro _; rfl) hh]
  have hk : (w.modK fun k => (k.modRec rid fun r => { r with tSched := none }).modRec rid fun r => { r with refCount := decU8 r.refCount }).k =
      (w.k.modRec rid fun r => { r with tSched := none }).modRec rid fun r => { r with refCount := decU8 r.refCount } := rfl
  rw [hk, hg]
  exact ⟨h2, rfl, rfl, rfl⟩

/-- a live queued request that has been marked granted (`timeouted := true`, long-table entry removed) can take its hold -/
theorem wake_prep {w : W} {ex : Nat → Int} (hex : ∀ y, 0 ≤ ex y) (h : Lv w ex) (rid : Nat) (hh : w.k.hasRec rid)
    (hd : w.k.deadWaiter rid = false) (cf : Counters → Counters) :
    Lv (((w.modR rid (fun r => { r with timeouted := true })).dropLongT rid).ctr cf) ex ∧
    Grantable (((w.modR rid (fun r => { r with timeouted := true })).dropLongT rid).ctr cf).k rid ∧
    ((((w.modR rid (fun r => { r with timeouted := true })).dropLongT rid).ctr cf).k.getR rid).cmd = (w.k.getR rid).cmd := by
  have hto : (w.k.getR rid).timeouted = false := by simpa [Key.deadWaiter] using hd
  have he : (w.k.getR rid).eSched = none := by
    have := h.side.ok _ (getR_mem hh) hto
    cases hs : (w.k.getR rid).eSched with
    | none => rfl
    | some s => rw [hs] at this; simp at this
  have l1 : Lv (w.modR rid (fun r => { r with timeouted := true })) ex :=
    h.modR rid _ (fun _ => rfl) (h.rc.modRec_plain rid _ (fun _ => rfl) (fun _ => rfl) (fun _ => rfl)) (by
      intro r _ _ hf; simp at hf)
  have hh1 : (w.modR rid (fun r => { r with timeouted := true })).k.hasRec rid := (hasRec_modR _ rid rid _ (by intro _; rfl)).mpr hh
  have g1 : (w.modR rid (fun r => { r with timeouted := true })).k.getR rid = { (w.k.getR rid) with timeouted := true } :=
    getR_modRec_same _ _ _ (fun _ => rfl) hh
  have l2 := l1.dropLongT hex rid hh1
  have g2 : Grantable ((w.modR rid (fun r => { r with timeouted := true })).dropLongT rid).k rid ∧
      (((w.modR rid (fun r => { r with timeouted := true })).dropLongT rid).k.getR rid).cmd = (w.k.getR rid).cmd := by
    unfold W.dropLongT W.when
    split
    · obtain ⟨a, b, c, d⟩ := getR_removeLongT (w.modR rid (fun r => { r with timeouted := true })) rid hh1
      exact ⟨⟨a, by rw [b, g1]; exact he, by rw [c, g1]⟩, by rw [d, g1]⟩
    · exact ⟨⟨hh1, by rw [g1]; exact he, by rw [g1]⟩, by rw [g1]⟩
  exact ⟨l2.ctr cf, g2.1, g2.2⟩

theorem Lv.wakeOne {w : W} {ex : Nat → Int} (hex : ∀ y, 0 ≤ ex y) (h : Lv w ex) (rid : Nat) (hh : w.k.hasRec rid)
    (hd : w.k.deadWaiter rid = false) : Lv (w.wakeOne rid) ex := by
  unfold W.wakeOne
  simp only []
  obtain ⟨l, g, _⟩ := wake_prep hex h rid hh hd (fun c => { c with waitCount := c.waitCount - 1 })
  split
  · exact (l.grant hex rid g).1
  · exact ((l.grantNoHold rid).ctr _).reply _ _ _ _

/-- the wake pass -/
theorem LvG.wakePass {ex : Nat → Int} (hex : ∀ y, 0 ≤ ex y) (fuel : Nat) (w : W) (h : LvG w ex) : LvG (W.wakePass fuel w) ex := by
  induction fuel generalizing w with
  | zero => exact h
  | succ n ih =>
    unfold W.wakePass
    simp only []
    have h1 : LvG (w.modK (·.getWaitLock.1)) ex := by
      intro hg
      have hg' : w.gone = false := hg
      exact (h hg').modK _ (getWaitLock_rc hex (h hg').rc) (RecsLe.getWaitLock _)
    split
    · apply LvG.removeIfZero
      intro hg
      have hg' : (w.modK (·.getWaitLock.1)).gone = false := hg
      exact (h1 hg').modK clearWaited ((h1 hg').rc.transfer rfl rfl (fun _ => rfl)) (RecsLe.of_eq rfl)
    · rename_i rid hr
      split
      · exact h1
      · apply ih
        intro hg
        have hg0 : (w.modK (·.getWaitLock.1)).gone = false := by
          cases h0 : (w.modK (·.getWaitLock.1)).gone with
          | false => rfl
          | true => rw [(Fr.wakeOne (w.modK (·.getWaitLock.1)) rid).gone h0] at hg; exact absurd hg (by simp)
        obtain ⟨e, rest, hw, he, hd⟩ := getWaitLock_some w.k rid hr
        have l1 := h1 hg0
        have hh : (w.modK (·.getWaitLock.1)).k.hasRec rid := by
          apply l1.rc.dang
          have := qRefs_pos_of_wait w.k.getWaitLock.1 e rest hw
          have hx := hex rid
          rw [he] at this
          show 0 < ((w.k.getWaitLock.1).qRefs rid : Int) + ex rid
          omega
        exact l1.wakeOne hex rid hh hd

theorem LvG.wake {w : W} {ex : Nat → Int} (hex : ∀ y, 0 ≤ ex y) (h : LvG w ex) : LvG w.wake ex := by
  unfold W.wake W.when
  split
  · exact LvG.wakePass hex _ _ h
  · exact h

end Slock.Engine2
