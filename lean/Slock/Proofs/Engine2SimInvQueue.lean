import Slock.Proofs.Engine2SimInvUpd
/-! Simulation stage 2 → stage 1: `KI` through the filing of a request in the wait queue (`AddWaitLock`, `AddTimeOut`). -/
namespace Slock.Sim
open Slock Slock.Engine2
open Slock.Engine (has)

theorem insertPrio_mem (ws : List WEnt) (e : WEnt) (x : Nat) :
    x ∈ (insertPrio ws e).map (·.rid) ↔ x = e.rid ∨ x ∈ ws.map (·.rid) := by
  induction ws with
  | nil => simp [insertPrio]
  | cons a as ih =>
    unfold insertPrio
    split
    · simp
    · simp only [List.map_cons, List.mem_cons, ih]
      constructor
      · rintro (h | h | h)
        · exact Or.inr (Or.inl h)
        · exact Or.inl h
        · exact Or.inr (Or.inr h)
      · rintro (h | h | h)
        · exact Or.inr (Or.inl h)
        · exact Or.inl h
        · exact Or.inr (Or.inr h)

theorem insertPrio_nodup (ws : List WEnt) (e : WEnt) (hn : (ws.map (·.rid)).Nodup) (hr : e.rid ∉ ws.map (·.rid)) :
    ((insertPrio ws e).map (·.rid)).Nodup := by
  induction ws with
  | nil => simp [insertPrio]
  | cons a as ih =>
    simp only [List.map_cons, List.nodup_cons] at hn
    unfold insertPrio
    split
    · simp only [List.map_cons, List.nodup_cons]
      exact ⟨by simpa using hr, hn⟩
    · simp only [List.map_cons, List.nodup_cons]
      refine ⟨?_, ih hn.2 (fun h => hr (by simp [h]))⟩
      intro hm
      rcases (insertPrio_mem as e a.rid).mp hm with h | h
      · apply hr; simp [h]
      · exact hn.1 h

theorem foldl_insertPrio (l acc : List WEnt) :
    (∀ x, x ∈ (l.foldl insertPrio acc).map (·.rid) ↔ x ∈ acc.map (·.rid) ∨ x ∈ l.map (·.rid)) ∧
    ((acc.map (·.rid)).Nodup → (l.map (·.rid)).Nodup → (∀ x ∈ l.map (·.rid), x ∉ acc.map (·.rid)) → ((l.foldl insertPrio acc).map (·.rid)).Nodup) := by
  induction l generalizing acc with
  | nil => exact ⟨fun x => by simp, fun h _ _ => h⟩
  | cons a as ih =>
    obtain ⟨i1, i2⟩ := ih (insertPrio acc a)
    simp only [List.foldl_cons]
    refine ⟨fun x => ?_, fun h1 h2 h3 => ?_⟩
    · rw [i1, insertPrio_mem]
      simp only [List.map_cons, List.mem_cons]
      constructor
      · rintro ((h | h) | h)
        · exact Or.inr (Or.inl h)
        · exact Or.inl h
        · exact Or.inr (Or.inr h)
      · rintro (h | h | h)
        · exact Or.inl (Or.inr h)
        · exact Or.inl (Or.inl h)
        · exact Or.inr h
    · simp only [List.map_cons, List.nodup_cons] at h2
      apply i2 (insertPrio_nodup acc a h1 (h3 a.rid (by simp))) h2.2
      intro x hx hm
      rcases (insertPrio_mem acc a x).mp hm with h | h
      · rw [h] at hx; exact h2.1 hx
      · exact h3 x (by simp [hx]) h

theorem waitPush_nodup (k : Key) (e : WEnt) (hn : (k.wait.map (·.rid)).Nodup) (hr : e.rid ∉ k.wait.map (·.rid)) :
    ((k.waitPush e).wait.map (·.rid)).Nodup := by
  unfold Key.waitPush
  split
  · exact insertPrio_nodup k.wait e hn hr
  · simp only []
    have happ : ∀ l : List WEnt, (l.map (·.rid)).Sublist (k.wait.map (·.rid)) → ((l ++ [e]).map (·.rid)).Nodup := by
      intro l hl
      rw [List.map_append]
      exact List.nodup_append.mpr ⟨hl.nodup hn, by simp, by intro a ha b hb; simp at hb; rw [hb]; intro e'; exact hr (hl.subset (e' ▸ ha))⟩
    split
    · exact happ k.wait (List.Sublist.refl _)
    · split
      · simp
      · have hk := happ (k.wait.filter (fun x => !k.deadWaiter x.rid)) (List.Sublist.map _ List.filter_sublist)
        obtain ⟨_, _, q3⟩ := queues_eq (foldl_unrefW_queues (k.wait.filter (fun x => k.deadWaiter x.rid))
          (if (k.wait.filter (fun x => !k.deadWaiter x.rid)).length < k.waitPopped + k.wait.length then
            { k with wait := k.wait.filter (fun x => !k.deadWaiter x.rid) ++ [e], waitPopped := 0 }
           else { k with wait := k.wait.filter (fun x => !k.deadWaiter x.rid) ++ [e], waitCap := 2 * k.waitCap }))
        rw [q3]
        split <;> exact hk

theorem rePush_nodup (k : Key) (hn : (k.wait.map (·.rid)).Nodup) :
    (k.rePush.wait.map (·.rid)).Nodup ∧ ∀ x, x ∈ k.rePush.wait.map (·.rid) ↔ x ∈ k.wait.map (·.rid) := by
  unfold Key.rePush
  simp only []
  have hm : (k.wait.map (fun e => ({ e with prio := Engine.cmdPriority (k.getR e.rid).cmd } : WEnt))).map (·.rid) = k.wait.map (·.rid) := by
    rw [List.map_map]; rfl
  obtain ⟨i1, i2⟩ := foldl_insertPrio (k.wait.map (fun e => ({ e with prio := Engine.cmdPriority (k.getR e.rid).cmd } : WEnt))) []
  refine ⟨i2 (by simp) (by rw [hm]; exact hn) (by simp), fun x => ?_⟩
  rw [i1 x, hm]; simp

theorem addWaitLock_nodup (k : Key) (rid : Nat) (hn : (k.wait.map (·.rid)).Nodup) (hr : rid ∉ k.wait.map (·.rid)) :
    ((k.addWaitLock rid).wait.map (·.rid)).Nodup := by
  unfold Key.addWaitLock
  simp only []
  have step : ∀ k1 : Key, (k1.wait.map (·.rid)).Nodup → rid ∉ k1.wait.map (·.rid) →
      (({ (k1.waitPush ⟨rid, Slock.Engine.cmdPriority (k.getR rid).cmd⟩).modRec rid (fun r => { r with refCount := r.refCount + 1 }) with waited := true } : Key).wait.map
        (·.rid)).Nodup := by
    intro k1 h1 h2
    exact waitPush_nodup k1 ⟨rid, Slock.Engine.cmdPriority (k.getR rid).cmd⟩ h1 h2
  apply step
  · split
    · split
      · split
        · exact (rePush_nodup k hn).1
        · exact hn
      · exact hn
    · exact hn
  · split
    · split
      · split
        · intro hm; exact hr (((rePush_nodup k hn).2 rid).mp hm)
        · exact hr
      · exact hr
    · exact hr

theorem KI.addWaitLock {seq : Nat} {k : Key} (h : KI seq k) (rid : Nat) (hr : rid ∉ k.wait.map (·.rid)) : KI seq (k.addWaitLock rid) := by
  obtain ⟨_, a2, a3⟩ := addWaitLock_spec k rid
  exact h.of_pk_gen (by rw [a2, a3]; exact List.Sublist.refl _) (addWaitLock_nodup k rid h.nd hr) (PKeep.addWaitLock ins_πI k rid)

end Slock.Sim
