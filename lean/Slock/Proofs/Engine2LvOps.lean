import Slock.Proofs.Engine2LvWake
/-! Stage-2 engine: every LOCK / UNLOCK branch keeps the invariant of the record it works on. -/
namespace Slock.Engine2
open Slock.Engine (has)

def zero : Nat → Int := fun _ => 0
theorem zero_nonneg : ∀ y, 0 ≤ zero y := fun _ => Int.le_refl 0

theorem create_nextRid (db : DB) (n : Nat) : (db.create n).nextRid = db.nextRid := by unfold DB.create; split <;> rfl

theorem Lv.enter {db : DB} (h : DBI db) (n : Nat) : Lv (db.enter n) zero := by
  have := (h.create n).getKey_ok n
  exact Lv.ofKeyOK (w := db.enter n) this

theorem Lv.openKey {db : DB} (h : DBI db) (n : Nat) : Lv (db.openKey n) zero := Lv.ofKeyOK (w := db.openKey n) (h.getKey_ok n)

/-! ### what the classification guarantees -/

def LockBranch.holderOf : LockBranch → Option Nat
  | .show h | .updateEqual h | .updateEqualData h | .update h | .relockNoHold h | .relock h | .relockRefused h => some h
  | _ => none

theorem find_mem {l : List Nat} {p : Nat → Bool} {x : Nat} (h : l.find? p = some x) : x ∈ l := List.mem_of_find?_eq_some h

theorem classifyLock_holder (db : DB) (c : Cmd) (data : Option Bytes) (h : Nat)
    (hb : (classifyLock db c data).holderOf = some h) :
    h ∈ (db.getKey c.key).current.toList ++ (db.getKey c.key).locks := by
  unfold classifyLock at hb
  simp only [] at hb
  repeat' split at hb
  all_goals (try (simp [LockBranch.holderOf] at hb))
  all_goals (first
    | (have hc : findHolder (db.getKey c.key) c.lockId = some h := by rw [← hb]; assumption
       simp only [findHolder] at hc; exact find_mem hc)
    | (have hc : (if has c.flag Slock.Engine.F_SHOW = true then (db.getKey c.key).current else none) = some h := by rw [← hb]; assumption
       cases hs : has c.flag Slock.Engine.F_SHOW
       · simp [hs] at hc
       · simp [hs] at hc; simp [hc])
    | skip)

theorem qRefs_pos_of_holder (k : Key) (h : Nat) (hm : h ∈ k.current.toList ++ k.locks) : 0 < k.qRefs h := by
  unfold Key.qRefs
  rcases List.mem_append.mp hm with h1 | h1
  · have : k.current = some h := by cases hc : k.current <;> simp [hc] at h1 ⊢; exact h1.symm
    simp [this]; omega
  · have := List.count_pos_iff.mpr h1; omega

theorem hasRec_of_holder {w : W} (l : Lv w zero) (h : Nat) (hm : h ∈ w.k.current.toList ++ w.k.locks) : w.k.hasRec h := by
  apply l.rc.dang
  have := qRefs_pos_of_holder w.k h hm
  simp only [zero]; omega

/-! ### queues are untouched by value operations and journalling -/

def Key.queues (k : Key) : Option Nat × List Nat × List WEnt := (k.current, k.locks, k.wait)

theorem qRefs_of_queues {k k' : Key} (h : k'.queues = k.queues) (x : Nat) : k'.qRefs x = k.qRefs x := by
  unfold Key.queues at h
  simp only [Prod.mk.injEq] at h
  unfold Key.qRefs; rw [h.1, h.2.1, h.2.2]

theorem queues_procData (w : W) (ct : Slock.Value.CmdType) (c : Cmd) (f : Option Bytes) (rid : Nat) :
    (w.procData ct c f rid).k.queues = w.k.queues := by
  unfold W.procData
  split
  · rfl
  · simp only []
    split
    · rfl
    · split <;> rfl

theorem queues_aofLockData (k : Key) (b : Bool) (rid : Nat) : (aofLockData k b rid).1.queues = k.queues := by
  unfold aofLockData
  split
  · rfl
  · split
    · split <;> rfl
    · rfl

theorem queues_pushLockAof (w : W) (rid flag : Nat) : (w.pushLockAof rid flag).k.queues = w.k.queues := by
  unfold W.pushLockAof
  split
  · rfl
  · simp only []
    split
    · rfl
    · exact queues_aofLockData w.k true rid

theorem queues_grantNoHold (w : W) (rid : Nat) : (w.grantNoHold rid).k.queues = w.k.queues := by
  unfold W.grantNoHold W.when
  simp only []
  have hm : ∀ w' : W, (w'.modR rid (fun r => { r with data := none })).k.queues = w'.k.queues := fun _ => rfl
  rw [hm]
  split
  · exact (queues_pushLockAof _ _ _).trans (queues_procData _ _ _ _ _)
  · exact queues_procData _ _ _ _ _

/-- `AddWaitLock(rid)` for a record that is not in the wait queue: it stays, only its count goes up -/
theorem keep_addWaitLock (k : Key) (rid : Nat) (hh : k.hasRec rid) (hn : (k.wait.map (·.rid)).count rid = 0) :
    (k.addWaitLock rid).hasRec rid ∧ ((k.addWaitLock rid).getR rid).tSched = (k.getR rid).tSched ∧
    ((k.addWaitLock rid).getR rid).eSched = (k.getR rid).eSched := by
  unfold Key.addWaitLock
  simp only []
  have step : ∀ k1 : Key, k1.hasRec rid → (k1.wait.map (·.rid)).count rid = 0 → k1.getR rid = k.getR rid →
      ({ (k1.waitPush ⟨rid, Slock.Engine.cmdPriority (k.getR rid).cmd⟩).modRec rid (fun r => { r with refCount := r.refCount + 1 }) with waited := true } : Key).hasRec rid ∧
      (({ (k1.waitPush ⟨rid, Slock.Engine.cmdPriority (k.getR rid).cmd⟩).modRec rid (fun r => { r with refCount := r.refCount + 1 }) with waited := true } : Key).getR rid).tSched = (k.getR rid).tSched ∧
      (({ (k1.waitPush ⟨rid, Slock.Engine.cmdPriority (k.getR rid).cmd⟩).modRec rid (fun r => { r with refCount := r.refCount + 1 }) with waited := true } : Key).getR rid).eSched = (k.getR rid).eSched := by
    intro k1 h1 hn1 hg1
    have hp : (k1.waitPush ⟨rid, Slock.Engine.cmdPriority (k.getR rid).cmd⟩).hasRec rid := (hasRec_waitPush _ _ _ hn1).mpr h1
    have hgp : (k1.waitPush ⟨rid, Slock.Engine.cmdPriority (k.getR rid).cmd⟩).getR rid = k1.getR rid := by
      unfold Key.waitPush
      split
      · rfl
      · simp only []
        split
        · rfl
        · split
          · rfl
          · have hnd : rid ∉ (k1.wait.filter (fun y => k1.deadWaiter y.rid)).map (·.rid) := by
              intro hm
              obtain ⟨y, hy, e'⟩ := List.mem_map.mp hm
              have : 0 < (k1.wait.map (·.rid)).count rid := List.count_pos_iff.mpr (List.mem_map.mpr ⟨y, (List.mem_filter.mp hy).1, e'⟩)
              omega
            have hf : ∀ k2 : Key, (List.foldl (fun k y => k.unref y.rid) k2 (k1.wait.filter (fun y => k1.deadWaiter y.rid))).getR rid = k2.getR rid := by
              intro k2
              have : (k1.wait.filter (fun y => k1.deadWaiter y.rid)).foldl (fun k y => k.unref y.rid) k2 =
                  ((k1.wait.filter (fun y => k1.deadWaiter y.rid)).map (·.rid)).foldl (fun k y => k.unref y) k2 := by rw [List.foldl_map]
              rw [this]; exact (keep_foldl_unref _ _ _ hnd).1
            split
            · rw [hf]; rfl
            · rw [hf]; rfl
    have hm : ((k1.waitPush ⟨rid, Slock.Engine.cmdPriority (k.getR rid).cmd⟩).modRec rid (fun r => { r with refCount := r.refCount + 1 })).hasRec rid := by
      rw [hasRec_modRec _ _ _ _ (by intro _; rfl)]; exact hp
    have hgm := getR_modRec_same (k1.waitPush ⟨rid, Slock.Engine.cmdPriority (k.getR rid).cmd⟩) rid (fun r => { r with refCount := r.refCount + 1 }) (fun _ => rfl) hp
    refine ⟨hm, ?_, ?_⟩
    · show (((k1.waitPush ⟨rid, Slock.Engine.cmdPriority (k.getR rid).cmd⟩).modRec rid (fun r => { r with refCount := r.refCount + 1 })).getR rid).tSched = _
      rw [hgm, hgp, hg1]
    · show (((k1.waitPush ⟨rid, Slock.Engine.cmdPriority (k.getR rid).cmd⟩).modRec rid (fun r => { r with refCount := r.refCount + 1 })).getR rid).eSched = _
      rw [hgm, hgp, hg1]
  split
  · split
    · split
      · refine step _ hh ?_ rfl
        have := qRefs_rePush k rid
        unfold Key.qRefs at this
        have hc : k.rePush.current = k.current := rfl
        have hl : k.rePush.locks = k.locks := rfl
        rw [hc, hl] at this
        omega
      · exact step _ hh hn rfl
    · exact step _ hh hn rfl
  · exact step _ hh hn rfl

/-! ### LOCK -/

theorem newRec_grantable (w : W) (c : Cmd) (d : Option Bytes) (hh : (w.newLock c d).1.k.hasRec w.db.nextRid)
    (hg : (w.newLock c d).1.k.getR w.db.nextRid = newRec w.db.nextRid w.db.now c d) : Grantable (w.newLock c d).1.k w.db.nextRid :=
  ⟨hh, by rw [hg]; rfl, by rw [hg]; rfl⟩

theorem applyLock_lvg (db : DB) (hdb : DBI db) (c : Cmd) (data : Option Bytes) (b : LockBranch)
    (hb : ∀ h, b.holderOf = some h → h ∈ (db.getKey c.key).current.toList ++ (db.getKey c.key).locks) :
    LvG (applyLock db c data b) zero := by
  have le := Lv.enter hdb c.key
  have hold : ∀ h, b.holderOf = some h → (db.enter c.key).k.hasRec h := by
    intro h hh
    apply hasRec_of_holder le
    rw [enter_k]; exact hb h hh
  cases b with
  | p0a => exact LvG.of_lv ((Lv.openKey hdb c.key).reply _ _ _ _)
  | p0b => exact LvG.of_lv ((Lv.openKey hdb c.key).db rfl (Nat.le_refl _))
  | stateError =>
    simp only [applyLock]
    exact (LvG.removeIfZero (LvG.of_lv le)).step (Fr.reply _ _ _ _ _) (fun l => l.reply _ _ _ _)
  | «show» cur => exact LvG.of_lv (le.reply _ _ _ _)
  | updateEqual h => exact LvG.of_lv (le.reply _ _ _ _)
  | updateEqualData h => exact LvG.of_lv ((le.procData _ _ _ _).reply _ _ _ _)
  | relockNoHold h => exact LvG.of_lv (le.reply _ _ _ _)
  | relockRefused h => exact LvG.of_lv (le.reply _ _ _ _)
  | unlockedWaitRefused => exact LvG.of_lv (le.reply _ _ _ _)
  | update h =>
    simp only [applyLock]
    have hh := hold h rfl
    have l1 := le.procData .lock (lockCmdOf (db.enter c.key).k c (.update h)) (frameOf (lockCmdOf (db.enter c.key).k c (.update h)) data) h
    have hh1 := (keep_procData (db.enter c.key) .lock (lockCmdOf (db.enter c.key).k c (.update h))
      (frameOf (lockCmdOf (db.enter c.key).k c (.update h)) data) h h).1.mpr hh
    have l2 := l1.updateLocked zero_nonneg h (lockCmdOf (db.enter c.key).k c (.update h)) hh1
    exact LvG.wake zero_nonneg (LvG.of_lv ((l2.when _ _ (l2.journalLock _ _)).reply _ _ _ _))
  | relock h =>
    simp only [applyLock]
    have hh := hold h rfl
    have l1 : Lv ((db.enter c.key).modR h (fun r => { r with depth := r.depth + 1 })) zero :=
      le.modR_plain h _ (fun _ => rfl) (fun _ => rfl) (fun _ => rfl) (fun _ => rfl) (fun _ => rfl)
    have hh1 : ((db.enter c.key).modR h (fun r => { r with depth := r.depth + 1 })).k.hasRec h :=
      (hasRec_modR _ h h _ (by intro _; rfl)).mpr hh
    have l2 : Lv (((db.enter c.key).modR h (fun r => { r with depth := r.depth + 1 })).modK incLocked) zero :=
      l1.modK incLocked (l1.rc.transfer rfl rfl (fun _ => rfl)) (RecsLe.of_eq rfl)
    have l3 := l2.procData .lock c (frameOf c data) h
    have hh3 := (keep_procData (((db.enter c.key).modR h (fun r => { r with depth := r.depth + 1 })).modK incLocked) .lock c (frameOf c data) h h).1.mpr hh1
    have l4 := l3.updateLocked zero_nonneg h c hh3
    exact LvG.wake zero_nonneg (LvG.of_lv ((((l4.journalLock _ _).ctr _)).reply _ _ _ _))
  | grant =>
    simp only [applyLock]
    obtain ⟨ln, hn, _, _, _, hg⟩ := le.newLock zero_nonneg c data
    have g := newRec_grantable (db.enter c.key) c data hn hg
    have l1 := (ln.grant zero_nonneg _ g).1
    unfold W.when
    split
    · exact LvG.wake zero_nonneg (LvG.of_lv l1)
    · exact LvG.of_lv l1
  | grantNoHold =>
    simp only [applyLock]
    obtain ⟨ln, hn, _, hq, _, hg⟩ := le.newLock zero_nonneg c data
    have l1 := ln.grantNoHold (db.enter c.key).db.nextRid
    have l2 : LvG ((((db.enter c.key).newLock c data).1.grantNoHold (db.enter c.key).db.nextRid).freeCheck (db.enter c.key).db.nextRid) zero := by
      apply (LvG.of_lv l1).freeCheck
      intro _
      rw [qRefs_of_queues (queues_grantNoHold _ _), hq]; simp [zero]
    have l3 := (l2.step (FQ.ctr _ (fun x => { x with lockCount := x.lockCount + 1 })).fr (fun l => l.ctr _)).step
      (Fr.reply _ c Slock.Engine.RESULT_SUCCED 0 (db.enter c.key).lockData) (fun l => l.reply _ _ _ _)
    unfold W.when
    split
    · exact LvG.wake zero_nonneg l3
    · exact l3
  | queue =>
    simp only [applyLock]
    obtain ⟨ln, hn, _, hq, _, hg⟩ := le.newLock zero_nonneg c data
    have hcnt : (((db.enter c.key).newLock c data).1.k.wait.map (·.rid)).count (db.enter c.key).db.nextRid = 0 := by
      unfold Key.qRefs at hq; omega
    have l1 : Lv (((db.enter c.key).newLock c data).1.modK (·.addWaitLock (db.enter c.key).db.nextRid)) zero :=
      ln.modK _ (addWaitLock_rc zero_nonneg _ ln.rc hn hcnt) (RecsLe.addWaitLock _ _)
    obtain ⟨k1, k2, k3⟩ := keep_addWaitLock ((db.enter c.key).newLock c data).1.k (db.enter c.key).db.nextRid hn hcnt
    rw [hg] at k2 k3
    have l2 := l1.addTimeOut (db.enter c.key).db.nextRid k1 1 (by rw [modK_k, k2]; rfl) (by rw [modK_k, k3]; rfl)
    have hh2 := (hasRec_of_ids (ids_addTimeOut (((db.enter c.key).newLock c data).1.modK (·.addWaitLock (db.enter c.key).db.nextRid))
      (db.enter c.key).db.nextRid) (db.enter c.key).db.nextRid).mpr k1
    have l3 := (l2.ref _ hh2).congr (ex' := zero) (fun y => by simp [zero]; omega)
    exact LvG.of_lv (l3.ctr _)
  | timeout =>
    simp only [applyLock]
    obtain ⟨ln, hn, _, hq, _, hg⟩ := le.newLock zero_nonneg c data
    have l2 : LvG (((db.enter c.key).newLock c data).1.freeCheck (db.enter c.key).db.nextRid) zero := by
      apply (LvG.of_lv ln).freeCheck
      intro _
      rw [hq]; simp [zero]
    exact l2.step (Fr.reply _ _ _ _ _) (fun l => l.reply _ _ _ _)

/-! ### UNLOCK -/

def UnlockBranch.holderOf : UnlockBranch → Option Nat
  | .dec h _ | .release h _ => some h
  | _ => none

theorem classifyUnlock_holder (db : DB) (c : Cmd) (h : Nat) (hb : (classifyUnlock db c).holderOf = some h) :
    h ∈ (db.getKey c.key).current.toList ++ (db.getKey c.key).locks := by
  unfold classifyUnlock at hb
  simp only [] at hb
  repeat' split at hb
  all_goals (try (simp [UnlockBranch.holderOf] at hb))
  all_goals (first
    | (have hc : findHolder (db.getKey c.key) c.lockId = some h := by rw [← hb]; assumption
       simp only [findHolder] at hc; exact find_mem hc)
    | (have hc : (db.getKey c.key).current = some h := by rw [← hb]; assumption
       simp [hc])
    | skip)

theorem getLast?_mem {l : List Nat} {x : Nat} (h : l.getLast? = some x) : x ∈ l := List.mem_of_getLast? h

theorem classifyUnlock_cancel (db : DB) (c : Cmd) (x : Nat) (hb : classifyUnlock db c = .cancel x) :
    x ∈ (db.getKey c.key).wait.map (·.rid) ∧ (db.getKey c.key).deadWaiter x = false := by
  have key : ∀ y, findCancel (db.getKey c.key) c.lockId = some y → y ∈ (db.getKey c.key).wait.map (·.rid) ∧ (db.getKey c.key).deadWaiter y = false := by
    intro y hy
    unfold findCancel at hy
    have := List.mem_filter.mp (getLast?_mem hy)
    refine ⟨this.1, ?_⟩
    have h2 := this.2
    simp only [Bool.and_eq_true, Bool.not_eq_true'] at h2
    exact h2.1
  unfold classifyUnlock at hb
  simp only [] at hb
  repeat' split at hb
  all_goals (try (simp at hb))
  all_goals (first
    | (apply key; rw [← hb]; assumption)
    | skip)

/-- after `RemoveLock(h)`: `if long && h.refCount == 0 { FreeLock(h); … }` -/
theorem release_tail {w : W} (l : Lv w zero) (h : Nat) (b : Bool) :
    LvG (w.when (b && (w.k.getR h).refCount == 0) (·.freeCheck h)) zero := by
  unfold W.when
  split
  · rename_i hcnd
    apply (LvG.of_lv l).freeCheck
    intro _
    simp only [zero, Int.add_zero]
    by_cases hx : w.k.hasRec h
    · have := l.rc.refCount_of hx
      have hz : (w.k.getR h).refCount = 0 := by
        simp only [Bool.and_eq_true, beq_iff_eq] at hcnd; exact hcnd.2
      rw [hz] at this; simp only [zero] at this; omega
    · apply Classical.byContradiction
      intro hn
      exact hx (l.rc.dang h (by simp only [zero]; omega))
  · exact LvG.of_lv l

/-- counters, the reply, the wake pass -/
theorem LvG.finish {w : W} (l : LvG w zero) (cf : Counters → Counters) (c : Cmd) (a b : Nat) (d : Option Bytes) :
    LvG (((w.ctr cf).reply c a b d).wake) zero :=
  LvG.wake zero_nonneg ((l.step (FQ.ctr _ cf).fr (fun l => l.ctr _)).step (Fr.reply _ c a b d) (fun l => l.reply _ _ _ _))

theorem applyUnlock_lvg (db : DB) (hdb : DBI db) (c : Cmd) (data : Option Bytes) (b : UnlockBranch)
    (hb : ∀ h, b.holderOf = some h → h ∈ (db.getKey c.key).current.toList ++ (db.getKey c.key).locks)
    (hc : ∀ x, b = .cancel x → x ∈ (db.getKey c.key).wait.map (·.rid) ∧ (db.getKey c.key).deadWaiter x = false) :
    LvG (applyUnlock db c data b) zero := by
  have le := Lv.openKey hdb c.key
  cases b with
  | noManager => exact LvG.of_lv (le.db rfl (Nat.le_refl _))
  | stateError | notLocked | unown | cancelNone => exact LvG.of_lv ((le.ctr _).reply _ _ _ _)
  | cancel x =>
    simp only [applyUnlock]
    obtain ⟨hm, hd⟩ := hc x rfl
    have hh : (db.openKey c.key).k.hasRec x := by
      apply le.rc.dang
      have : 0 < ((db.getKey c.key).wait.map (·.rid)).count x := List.count_pos_iff.mpr hm
      show 0 < ((db.getKey c.key).qRefs x : Int) + zero x
      unfold Key.qRefs; simp only [zero]; omega
    have l1 : Lv ((db.openKey c.key).modR x (fun r => { r with timeouted := true })) zero :=
      le.modR x _ (fun _ => rfl) (le.rc.modRec_plain x _ (fun _ => rfl) (fun _ => rfl) (fun _ => rfl)) (by
        intro r _ _ hf; simp at hf)
    have hh1 : ((db.openKey c.key).modR x (fun r => { r with timeouted := true })).k.hasRec x :=
      (hasRec_modR _ x x _ (by intro _; rfl)).mpr hh
    have l2 := l1.dropLongT zero_nonneg x hh1
    have l3 : Lv ((((db.openKey c.key).modR x (fun r => { r with timeouted := true })).dropLongT x).modK (·.settleWait)) zero :=
      l2.modK _ (settleWait_rc zero_nonneg l2.rc) (RecsLe.settleWait _)
    have l4 := LvG.removeIfZero (LvG.of_lv (l3.ctr (fun y => { y with waitCount := y.waitCount - 1 })))
    have l5 := l4.step (FQ.ctr _ (fun y => { y with unLockCount := y.unLockCount + 1 })).fr (fun l => l.ctr _)
    exact LvG.wake zero_nonneg ((l5.step (Fr.reply _ _ _ _ _) (fun l => l.reply _ _ _ _)).step (Fr.reply _ _ _ _ _) (fun l => l.reply _ _ _ _))
  | dec h c' =>
    simp only [applyUnlock]
    have hh := hasRec_of_holder le h (hb h rfl)
    have l1 : Lv ((db.openKey c.key).modR h (fun r => { r with depth := r.depth - 1 })) zero :=
      le.modR_plain h _ (fun _ => rfl) (fun _ => rfl) (fun _ => rfl) (fun _ => rfl) (fun _ => rfl)
    have l2 : Lv (((db.openKey c.key).modR h (fun r => { r with depth := r.depth - 1 })).modK (fun k => { k with locked := k.locked - 1 })) zero :=
      l1.modK _ (l1.rc.transfer rfl rfl (fun _ => rfl)) (RecsLe.of_eq rfl)
    have l3 := ((l2.procData .unlock c' (frameOf c' data) h).journalUnlock h (has c'.flag Slock.Engine.F_FROM_AOF) true AOF_UPDATED).ctr
      (fun y => { y with unLockCount := y.unLockCount + 1, lockedCount := y.lockedCount - 1 })
    exact LvG.wake zero_nonneg (LvG.of_lv (l3.reply _ _ _ _))
  | release h c' =>
    simp only [applyUnlock]
    have hh := hasRec_of_holder le h (hb h rfl)
    have l1 : Lv ((db.openKey c.key).modR h (fun r => { r with expried := true })) zero :=
      le.modR_plain h _ (fun _ => rfl) (fun _ => rfl) (fun _ => rfl) (fun _ => rfl) (fun _ => rfl)
    have hh1 : ((db.openKey c.key).modR h (fun r => { r with expried := true })).k.hasRec h := (hasRec_modR _ h h _ (by intro _; rfl)).mpr hh
    have l2 : Lv (((db.openKey c.key).modR h (fun r => { r with expried := true })).modK
        (fun k => { k with locked := k.locked - ((db.openKey c.key).k.getR h).depth })) zero :=
      l1.modK _ (l1.rc.transfer rfl rfl (fun _ => rfl)) (RecsLe.of_eq rfl)
    have l3 := l2.procData .unlock c' (frameOf c' data) h
    have hh3 := (keep_procData (((db.openKey c.key).modR h (fun r => { r with expried := true })).modK
        (fun k => { k with locked := k.locked - ((db.openKey c.key).k.getR h).depth })) .unlock c' (frameOf c' data) h h).1.mpr hh1
    have l4 := (l3.dropLongE zero_nonneg h hh3).journalUnlock h (has c'.flag Slock.Engine.F_FROM_AOF) false 0
    have l5 := l4.modK (·.removeLock h) (removeLock_rc zero_nonneg l4.rc h) (RecsLe.removeLock _ _)
    exact ((release_tail l5 h _).finish _ _ _ _ _)

end Slock.Engine2
