import Slock.Proofs.AckStepThm
/-! M-ACK: the wake pass settles — when it returns, the head of the queue (if any) is not admissible. -/
namespace Slock.Ack

/-- queued requests of key `k`, as a sum over the records -/
def wG (k : Nat) (r : Rec) : Int := if (r.cmd.key == k && r.queued) = true then 1 else 0
def wN (k : Nat) (db : DB) : Int := (db.recs.map (wG k)).sum

theorem waiters_length (k : Nat) (db : DB) : ((db.waiters k).length : Int) = wN k db := by
  unfold DB.waiters wN
  induction db.recs with
  | nil => rfl
  | cons r rs ih =>
    simp only [List.filter, List.map_cons, List.sum_cons]
    by_cases e : (r.cmd.key == k && r.queued) = true
    · have : wG k r = 1 := by unfold wG; rw [if_pos e]
      rw [e, this]; simp only [List.length_cons]; push_cast; omega
    · have e' : (r.cmd.key == k && r.queued) = false := by simpa using e
      have : wG k r = 0 := by unfold wG; rw [if_neg e]
      rw [e', this]; simp only []; omega

@[simp] theorem wN_ctrMod (k : Nat) (db : DB) (f : Counters → Counters) : wN k (db.ctrMod f) = wN k db := rfl

structure AtW (k : Nat) (db : DB) (hid : Nat) (r : Rec) (base : Int) : Prop where
  fnd : findR db.recs hid = some r
  bal : wN k db = base + wG k r

theorem AtW.modR {k : Nat} {db : DB} {hid : Nat} {r : Rec} {base : Int} (h : AtW k db hid r base) (f : Rec → Rec)
    (hf : ∀ r, (f r).hid = r.hid) : AtW k (db.modR hid f) hid (f r) base := by
  refine ⟨by rw [modR_recs, findR_modRecs hid f hf]; simp [h.fnd], ?_⟩
  have := sum_modRecs (wG k) hid f db.recs
  rw [h.fnd] at this; simp only [] at this
  have hb := h.bal
  unfold wN at *; rw [modR_recs]; omega

theorem AtW.frame {k : Nat} {db db' : DB} {hid : Nat} {r : Rec} {base : Int} (h : AtW k db hid r base) (e : db'.recs = db.recs) :
    AtW k db' hid r base := ⟨by rw [e]; exact h.fnd, by unfold wN; rw [e]; exact h.bal⟩

theorem AtW.toEnd {k : Nat} {db : DB} {hid : Nat} {r : Rec} {base : Int} (h : AtW k db hid r base) (a : Nat) : AtW k (db.toEnd a) hid r base := by
  refine ⟨by unfold DB.toEnd; simp only []; rw [findR_toEnd]; exact h.fnd, ?_⟩
  have := sum_filter_split (wG k) (fun r => r.hid == a) db.recs
  unfold wN DB.toEnd; simp only []
  have hb := h.bal; unfold wN at hb
  simp only [bne] at *
  rw [this]; exact hb

/-- an update that leaves command and queue membership alone -/
def KeepQ (r r' : Rec) : Prop := r'.cmd = r.cmd ∧ r'.queued = r.queued
theorem KeepQ.refl (r : Rec) : KeepQ r r := ⟨rfl, rfl⟩
theorem KeepQ.trans {a b c : Rec} (h1 : KeepQ a b) (h2 : KeepQ b c) : KeepQ a c := ⟨h2.1.trans h1.1, h2.2.trans h1.2⟩

theorem AtW.valueOp {k : Nat} {db : DB} {hid : Nat} {r : Rec} {base : Int} (h : AtW k db hid r base) (b : Bool) :
    ∃ r', AtW k (db.valueOp hid b) hid r' base ∧ KeepQ r r' := by
  unfold DB.valueOp; simp only []
  split
  · exact ⟨r, h, KeepQ.refl r⟩
  · split
    · exact ⟨_, (h.frame (db' := db.modKey _ _) (by simp)).modR _ (by intro _; rfl), ⟨rfl, rfl⟩⟩
    · exact ⟨r, h.frame (by simp), KeepQ.refl r⟩

theorem AtW.pushLock {k : Nat} {db : DB} {hid : Nat} {r : Rec} {base : Int} (h : AtW k db hid r base) :
    ∃ r', AtW k (db.pushLock hid).1 hid r' base ∧ KeepQ r r' := by
  unfold DB.pushLock; simp only []
  split
  · exact ⟨_, (h.frame (pushJ_recs _ _ _)).modR _ (by intro _; rfl), ⟨rfl, rfl⟩⟩
  · exact ⟨r, h.frame (pushJ_recs _ _ _), KeepQ.refl r⟩

theorem AtW.journalUnlock {k : Nat} {db : DB} {hid : Nat} {r : Rec} {base : Int} (h : AtW k db hid r base) (keep : Bool) :
    ∃ r', AtW k (db.journalUnlock hid keep) hid r' base ∧ KeepQ r r' := by
  unfold DB.journalUnlock
  split
  · simp only []
    split
    · exact ⟨_, (h.frame (pushJ_recs _ _ _)).modR _ (by intro _; rfl), ⟨rfl, rfl⟩⟩
    · exact ⟨r, h.frame (pushJ_recs _ _ _), KeepQ.refl r⟩
  · exact ⟨r, h, KeepQ.refl r⟩

theorem AtW.addLock {k : Nat} {db : DB} {hid : Nat} {r : Rec} {base : Int} (h : AtW k db hid r base) :
    ∃ r', AtW k (db.addLock hid) hid r' base ∧ r'.cmd = r.cmd ∧ r'.queued = false := by
  unfold DB.addLock
  exact ⟨_, ((h.modR (Rec.addLockF db.now) (by intro _; rfl)).toEnd hid).frame (by simp), rfl, rfl⟩

theorem AtW.rollback {k : Nat} {db : DB} {hid : Nat} {r : Rec} {base : Int} (h : AtW k db hid r base) :
    ∃ r', AtW k (db.rollback hid) hid r' base ∧ KeepQ r r' := by
  unfold DB.rollback; simp only []
  have h1 : ∃ r1, AtW k (match (if (has (db.getR hid).cmd.flag F_DATA && (db.getR hid).pending) = true then (db.getR hid).undo else none) with
      | some u => ((db.modKey (db.getR hid).cmd.key (fun k => { k with locked := k.locked - (db.getR hid).depth })).modKey (db.getR hid).cmd.key
            (fun k => { k with cell := undoCell k.cell u })).modR hid (fun r => { r with undo := none })
      | none => db.modKey (db.getR hid).cmd.key (fun k => { k with locked := k.locked - (db.getR hid).depth })) hid r1 base ∧ KeepQ r r1 := by
    split
    · exact ⟨_, (h.frame (db' := (db.modKey _ _).modKey _ _) (by simp)).modR _ (by intro _; rfl), ⟨rfl, rfl⟩⟩
    · exact ⟨r, h.frame (by simp), KeepQ.refl r⟩
  obtain ⟨r1, h1, s1⟩ := h1
  obtain ⟨r2, h2, s2⟩ := h1.journalUnlock false
  have h3 := h2.modR (fun r => { r with depth := 0, ack := NOACK }) (by intro _; rfl)
  exact ⟨_, h3.frame rfl, (s1.trans s2).trans ⟨rfl, rfl⟩⟩

theorem AtW.addExpried {k : Nat} {db : DB} {hid : Nat} {r : Rec} {base : Int} (h : AtW k db hid r base) :
    ∃ r', AtW k (db.addExpried hid) hid r' base ∧ KeepQ r r' := by
  unfold DB.addExpried
  exact ⟨_, (h.modR _ (by intro _; rfl)).frame rfl, ⟨rfl, rfl⟩⟩

theorem wG_eq (k : Nat) {r r' : Rec} (e1 : r'.cmd = r.cmd) (e2 : r'.queued = r.queued) : wG k r' = wG k r := by unfold wG; rw [e1, e2]
theorem wG_notq (k : Nat) {r : Rec} (e : r.queued = false) : wG k r = 0 := by unfold wG; simp [e]

/-- every branch of the wake pass but `stop` takes one request out of the queue -/
theorem applyWake_dec {db : DB} (ha : InvA db) (k : Nat) (hne : classifyWake db k ≠ .stop) :
    wN k (applyWake db k (classifyWake db k)).1 + 1 = wN k db := by
  -- the head waiter: a record of key k that is queued
  have hhead : ∀ w, (classifyWake db k = .grant w ∨ classifyWake db k = .ackGrant w ∨ classifyWake db k = .ackFail w) →
      (db.getR w).queued = true ∧ (db.getR w).cmd.key = k := by
    intro w hw
    unfold classifyWake at hw
    cases e : (db.waiters k).head? with
    | none => rw [e] at hw; simp at hw
    | some w0 =>
      rw [e] at hw
      have hm : w0 ∈ db.waiters k := List.mem_of_head? e
      unfold DB.waiters at hm
      have hf := List.mem_filter.mp hm
      have hg := ha.getR_of_mem hf.1
      simp only [] at hw
      have : w = w0.hid := by
        split at hw
        · simp at hw
        · split at hw
          · split at hw <;> simp at hw <;> exact hw.symm
          · simp at hw; exact hw.symm
      subst this
      rw [hg]
      have := hf.2; simp at this
      exact ⟨this.2, this.1⟩
  have hone : ∀ w, (db.getR w).queued = true ∧ (db.getR w).cmd.key = k → wG k (db.getR w) = 1 := by
    intro w hw; unfold wG; simp [hw.1, hw.2]
  cases e : classifyWake db k with
  | stop => exact absurd e hne
  | grant w =>
    have hw := hhead w (Or.inl e)
    have hp := present_of (Or.inr (Or.inl hw.1))
    have hs : AtW k db w (db.getR w) (wN k db - wG k (db.getR w)) := ⟨hp, by omega⟩
    unfold applyWake; simp only []
    unfold DB.grant; simp only []
    have h0 := (hs.frame (db' := db.ctrMod (fun x => { x with waitCount := x.waitCount - 1 })) rfl).modR (fun r => { r with timeouted := true }) (by intro _; rfl)
    obtain ⟨r1, h1, a1, a2⟩ := h0.addLock
    obtain ⟨r2, h2, s2⟩ := h1.valueOp false
    obtain ⟨r3, h3, s3⟩ := h2.addExpried
    simp only [wN_ctrMod]
    have hb := h3.bal
    have : wG k r3 = 0 := wG_notq k (by rw [s3.2, s2.2]; exact a2)
    have := hone w hw
    omega
  | ackGrant w =>
    have hw := hhead w (Or.inr (Or.inl e))
    have hp := present_of (Or.inr (Or.inl hw.1))
    have hs : AtW k db w (db.getR w) (wN k db - wG k (db.getR w)) := ⟨hp, by omega⟩
    unfold applyWake; simp only []
    unfold DB.ackHold
    obtain ⟨r1, h1, a1, a2⟩ := hs.addLock
    obtain ⟨r2, h2, s2⟩ := h1.valueOp true
    obtain ⟨r3, h3, s3⟩ := (h2.frame (db' := ((db.addLock w).valueOp w true).ctrMod (fun x => { x with lockCount := x.lockCount + 1, lockedCount := x.lockedCount + 1 })) rfl).pushLock
    simp only [wN_ctrMod]
    have hb := h3.bal
    have : wG k r3 = 0 := wG_notq k (by rw [s3.2, s2.2]; exact a2)
    have := hone w hw
    omega
  | ackFail w =>
    have hw := hhead w (Or.inr (Or.inr e))
    have hp := present_of (Or.inr (Or.inl hw.1))
    have hs : AtW k db w (db.getR w) (wN k db - wG k (db.getR w)) := ⟨hp, by omega⟩
    unfold applyWake; simp only []
    unfold DB.ackHold
    obtain ⟨r1, h1, a1, a2⟩ := hs.addLock
    obtain ⟨r2, h2, s2⟩ := h1.valueOp true
    have h3 := ((h2.frame (db' := (((db.addLock w).valueOp w true).ctrMod (fun x => { x with lockCount := x.lockCount + 1, lockedCount := x.lockedCount + 1 })).ctrMod
      (fun x => { x with waitCount := x.waitCount - 1 })) rfl).modR (fun r => { r with timeouted := true }) (by intro _; rfl))
    obtain ⟨r4, h4, s4⟩ := h3.rollback
    have hb := h4.bal
    have : wG k r4 = 0 := wG_notq k (by rw [s4.2]; show r2.queued = false; rw [s2.2]; exact a2)
    have := hone w hw
    omega

theorem wN_nonneg (k : Nat) (db : DB) : 0 ≤ wN k db := by rw [← waiters_length]; omega

/-- with enough fuel the loop ends in `stop` -/
theorem wakeLoop_settles (fuel : Nat) : ∀ {db : DB}, InvA db → ∀ (k : Nat) (out : List Reply), wN k db < fuel →
    classifyWake (wakeLoop fuel db k out).1 k = .stop := by
  induction fuel with
  | zero => intro db _ k out h; have := wN_nonneg k db; omega
  | succ n ih =>
    intro db ha k out hf
    unfold wakeLoop
    have hd := applyWake_dec ha k
    have hi := ha.applyWake k
    cases e : classifyWake db k with
    | stop =>
      simp only []
      -- clearing `waited` does not change the decision
      split
      · have : classifyWake (db.modKey k (fun x => { x with waited := false })) k = classifyWake db k := by
          rename_i hemp
          unfold classifyWake DB.waiters
          simp only [modKey_recs]
          have : (db.waiters k).head? = none := by
            cases hh : db.waiters k with
            | nil => rfl
            | cons a b => rw [hh] at hemp; simp at hemp
          unfold DB.waiters at this
          rw [this]
        rw [this]; exact e
      · exact e
    | grant w => simp only []; rw [e] at hd hi; exact ih hi k _ (by have := hd (by simp); omega)
    | ackGrant w => simp only []; rw [e] at hd hi; exact ih hi k _ (by have := hd (by simp); omega)
    | ackFail w => simp only []; rw [e] at hd hi; exact ih hi k _ (by have := hd (by simp); omega)

/-- **the wake pass settles.** After `wakeUpWaitLocks` (the key had its `waited` flag set) no queued request of the key is admissible:
either nothing is queued, or the head of the queue fails the admission test. -/
theorem wake_settles {db : DB} (ha : InvA db) (k : Nat) (out : List Reply) (hw : (db.getKey k).waited = true) :
    classifyWake (db.wake k out).1 k = .stop := by
  unfold DB.wake
  rw [if_pos hw]
  exact wakeLoop_settles _ ha k out (by rw [← waiters_length]; omega)

theorem classifyWake_stop_iff (db : DB) (k : Nat) :
    classifyWake db k = .stop ↔ (db.waiters k).head? = none ∨ ∃ w, (db.waiters k).head? = some w ∧ doLock db k w.cmd = false := by
  unfold classifyWake
  cases e : (db.waiters k).head? with
  | none => simp
  | some w =>
    simp only []
    constructor
    · intro h
      right; refine ⟨w, rfl, ?_⟩
      split at h
      · rename_i hd; simpa using hd
      · split at h <;> (try split at h) <;> simp at h
    · rintro (h | ⟨w', hw', hd⟩)
      · simp at h
      · have : w' = w := by simpa using hw'.symm
        subst this; simp [hd]

end Slock.Ack
