import Slock.Proofs.TransSrc
/-! M-TRANS: what is forwarded (and where it comes from), who decides (tags), exact relay outputs. Per step, any state. -/
namespace Slock.Trans
open Slock.Gen

/-- the frame a request turns into when it is forwarded -/
def reqFwd : Req → Option Fwd
  | .lk ct _ c _ => some (.lk ct c)
  | .init rid cid => some (.init rid cid)
  | .call rid _ => some (.call rid)
  | .will _ _ => none
  | .other => none

/-- **What a request makes the node send**: to the leader goes the request itself, field for field — and, when the link
had to be opened for it, first the INIT command the connection announced earlier. Nothing else. -/
theorem request_fwd_source (s : Node) (c : Nat) (short : Bool) (q : Req) (c' : Nat) (f : Fwd)
    (h : (c', f) ∈ (step s (.request c short q)).2.fwd) :
    c' = c ∧ (some f = reqFwd q ∨
      ∃ x rid cid, s.conns[c]? = some x ∧ x.link = none ∧ x.initCmd = some (rid, cid) ∧ f = .init rid cid) := by
  simp only [step] at h
  rcases will_or_not q with ⟨wct, wcmd, rfl⟩ | hq
  · rw [stepRequest_will] at h
    split at h
    · simp at h
    · simp [willConn_fwd] at h
  rw [stepRequest_eq hq] at h
  split at h
  · simp at h
  · rename_i x hx
    simp only at h
    obtain ⟨rfl, hb⟩ := applyConn_fwd h
    refine ⟨rfl, ?_⟩
    have pre_case : ∀ {ic l n pre}, checkClient s x ic = some (l, n, pre) → f ∈ pre →
        x.link = none ∧ ∃ rid cid, ic = some (rid, cid) ∧ f = .init rid cid := by
      intro ic l n pre hcc hf
      rcases checkClient_some hcc with ⟨_, _, rfl⟩ | ⟨_, hl, _, rfl, _, _⟩
      · cases hf
      · refine ⟨hl, ?_⟩
        cases ic with
        | none => simp [openFwd] at hf
        | some p =>
          obtain ⟨r, cid⟩ := p
          simp [openFwd] at hf
          exact ⟨r, cid, rfl, hf⟩
    rcases hb with ⟨ct, cmd, l, n, pre, aw, ack, hb, hf⟩ | ⟨rid', cid, l, n, hb, rfl⟩ | ⟨rid', l, n, pre, hb, hf⟩
    · cases q with
      | lk ct' md cmd' rep =>
        obtain ⟨rfl, rfl, _, _, _, hk⟩ := classify_lk_fwd hb
        rcases hf with hf | rfl
        · right
          rcases hk with ⟨_, hcc, _, _⟩ | ⟨_, hcc, _⟩
          · obtain ⟨hl, rid, cid, hic, rfl⟩ := pre_case hcc hf
            exact ⟨x, rid, cid, hx, hl, hic, rfl⟩
          · obtain ⟨_, rid, cid, hic, _⟩ := pre_case hcc hf
            cases hic
        · exact Or.inl rfl
      | init rid cid =>
        rcases classify_init_shape (s := s) (x := x) (short := short) (rid := rid) (cid := cid) with h1 | h1 | h1 | h1 | ⟨_, _, _, h1, _⟩ <;>
          rw [h1] at hb <;> cases hb
      | call rid fw =>
        rcases classify_call_shape (s := s) (x := x) (short := short) (rid := rid) (fw := fw) with h1 | h1 | h1 | h1 | ⟨_, _, _, h1, _⟩ <;>
          rw [h1] at hb <;> cases hb
      | will wct wcmd => exact absurd rfl (hq wct wcmd)
      | other =>
        rcases classify_other_shape (s := s) (x := x) (short := short) with h1 | h1 | h1 <;> rw [h1] at hb <;> cases hb
    · cases q with
      | lk ct' md cmd' rep =>
        rcases classify_lk_shape (s := s) (x := x) (short := short) (ct := ct') (md := md) (cmd := cmd') (rep := rep) with
          h1 | h1 | h1 | ⟨_, h1⟩ | ⟨_, h1⟩ | ⟨_, _, _, _, _, h1⟩ <;> rw [h1] at hb <;> cases hb
      | init rid cid =>
        rcases classify_init_shape (s := s) (x := x) (short := short) (rid := rid) (cid := cid) with h1 | h1 | h1 | h1 | ⟨_, _, _, h1, _⟩ <;>
          rw [h1] at hb <;> cases hb
        exact Or.inl rfl
      | call rid fw =>
        rcases classify_call_shape (s := s) (x := x) (short := short) (rid := rid) (fw := fw) with h1 | h1 | h1 | h1 | ⟨_, _, _, h1, _⟩ <;>
          rw [h1] at hb <;> cases hb
      | will wct wcmd => exact absurd rfl (hq wct wcmd)
      | other =>
        rcases classify_other_shape (s := s) (x := x) (short := short) with h1 | h1 | h1 <;> rw [h1] at hb <;> cases hb
    · cases q with
      | lk ct' md cmd' rep =>
        rcases classify_lk_shape (s := s) (x := x) (short := short) (ct := ct') (md := md) (cmd := cmd') (rep := rep) with
          h1 | h1 | h1 | ⟨_, h1⟩ | ⟨_, h1⟩ | ⟨_, _, _, _, _, h1⟩ <;> rw [h1] at hb <;> cases hb
      | init rid cid =>
        rcases classify_init_shape (s := s) (x := x) (short := short) (rid := rid) (cid := cid) with h1 | h1 | h1 | h1 | ⟨_, _, _, h1, _⟩ <;>
          rw [h1] at hb <;> cases hb
      | call rid fw =>
        rcases classify_call_shape (s := s) (x := x) (short := short) (rid := rid) (fw := fw) with h1 | h1 | h1 | h1 | ⟨l', n', pre', h1, hcc⟩ <;>
          rw [h1] at hb <;> cases hb
        rcases hf with hf | rfl
        · right
          obtain ⟨hl, rid2, cid, hic, rfl⟩ := pre_case hcc hf
          exact ⟨x, rid2, cid, hx, hl, hic, rfl⟩
        · exact Or.inl rfl
      | will wct wcmd => exact absurd rfl (hq wct wcmd)
      | other =>
        rcases classify_other_shape (s := s) (x := x) (short := short) with h1 | h1 | h1 <;> rw [h1] at hb <;> cases hb

/-- everything else that is ever sent to the leader: the INIT a detached link object re-sends when it reconnects, and —
when a connection closes (by its client, or a half-closed text connection at the answer it waited for) — the will
commands it registered, preceded by the INIT it announced if the link has to be opened for them -/
theorem other_fwd_source (s : Node) (e : Event) (c : Nat) (f : Fwd) (h : (c, f) ∈ (step s e).2.fwd)
    (hreq : ∀ d short q, e ≠ .request d short q) :
    ∃ x, s.conns[c]? = some x ∧
      ((∃ l rid cid, x.link = some l ∧ l.initC = some (rid, cid) ∧ f = .init rid cid ∧ ((e = .linkDown c) ∨ ∃ a, e = .leader a)) ∨
       WillOf x f) := by
  cases e with
  | accept k => simp [step] at h
  | role r => simp [step] at h
  | unattached d => simp [step] at h
  | request d short q => exact absurd rfl (hreq d short q)
  | close d =>
    simp only [step, stepClose] at h
    split at h
    · simp at h
    · rename_i x hx
      split at h
      · simp at h
      · split at h
        · simp at h
        · simp only [List.mem_map] at h
          obtain ⟨g, hg, he⟩ := h
          cases he
          exact ⟨x, hx, Or.inr (closeFwd_mem hg)⟩
  | closeCut d k =>
    simp only [step, stepClose] at h
    split at h
    · simp at h
    · rename_i x hx
      split at h
      · simp at h
      · split at h
        · simp at h
        · simp only [List.mem_map] at h
          obtain ⟨g, hg, he⟩ := h
          cases he
          exact ⟨x, hx, Or.inr (closeFwd_mem (List.mem_of_mem_take hg))⟩
  | leaderMsg d msg early =>
    simp only [step, stepLeaderMsg] at h
    split at h
    · simp at h
    · rename_i x hx
      split at h
      · simp at h
      · simp only [List.mem_map] at h
        obtain ⟨g, hg, he⟩ := h
        cases he
        have hgen : ∀ (b : Prop) [Decidable b], f ∈ (if b then willFwd x else []) → WillOf x f := by
          intro b _ hb
          split at hb
          · simp only [willFwd, List.mem_map] at hb
            obtain ⟨w, hw, rfl⟩ := hb
            exact Or.inl ⟨w, hw, rfl⟩
          · cases hb
        exact ⟨x, hx, Or.inr (hgen _ hg)⟩
  | linkDown d =>
    simp only [step, stepLinkDown] at h
    split at h
    · simp at h
    · rename_i x hx
      split at h
      · simp at h
      · rename_i l hl
        simp only at h
        obtain ⟨rfl, hcase⟩ := dropLink_fwd h
        rcases hcase with ⟨rid, cid, hic, rfl, _⟩ | hw
        · exact ⟨x, hx, Or.inl ⟨l, rid, cid, hl, hic, rfl, Or.inl rfl⟩⟩
        · exact ⟨x, hx, Or.inr hw⟩
  | leader a =>
    simp only [step, stepLeader] at h
    split at h
    · simp only at h
      obtain ⟨j, x, l, hj, hcj, hl, hm⟩ := dropAll_fwd h
      obtain ⟨_, hcase⟩ := dropLink_fwd hm
      have hj' : s.conns[c]? = some x := by rw [hcj]; simpa using hj
      rcases hcase with ⟨rid, cid, hic, rfl, _⟩ | hw
      · exact ⟨x, hj', Or.inl ⟨l, rid, cid, hl, hic, rfl, Or.inr ⟨a, rfl⟩⟩⟩
      · exact ⟨x, hj', Or.inr hw⟩
    · simp at h

/-! ### who decides -/

/-- the node IS the leader: the request of an open connection goes to the node's own engine — nothing is forwarded,
nothing is fabricated; it is re-dispatched (`AGAIN`) exactly when the connection was being served by the transparency
loop; afterwards the plain loop serves it -/
theorem request_as_leader (s : Node) (c : Nat) (x : Conn) (short : Bool) (q : Req) (hq : ∀ ct cmd, q ≠ .will ct cmd)
    (hx : s.conns[c]? = some x) (ho : x.closed = false) (ha : x.awaiting = none) (hr : s.role = .leader) :
    (step s (.request c short q)).2 = { tag := .loc (x.plainLoop == some false) } ∧
    ∃ x', (step s (.request c short q)).1.conns[c]? = some x' ∧ x'.plainLoop = some true ∧ x'.link = x.link := by
  have hlt : c < s.conns.length := by
    rcases Nat.lt_or_ge c s.conns.length with h | h
    · exact h
    · rw [List.getElem?_eq_none h] at hx; cases hx
  simp only [step, stepRequest_eq hq, hx, classify_leader_open hr ho ha, applyConn, dispatched, hr]
  refine ⟨?_, ?_⟩
  · cases hp : x.plainLoop with
    | none => simp
    | some p => cases p <;> simp
  · simp [hlt]

/-- the node is NOT the leader: a LOCK / UNLOCK is never handed to the node's own engine — except the first command of
a text connection when it fits the first 64-byte read (`short`) -/
theorem lk_not_local (s : Node) (c : Nat) (short : Bool) (ct : CType) (md : TextMode) (cmd : LockCmd) (rep : Replica)
    (hr : s.role ≠ .leader)
    (hs : ∀ x, s.conns[c]? = some x → ¬(x.kind = .text ∧ x.plainLoop = none ∧ short = true)) (a : Bool) :
    (step s (.request c short (.lk ct md cmd rep))).2.tag ≠ .loc a := by
  simp only [step, stepRequest]
  split
  · simp
  · rename_i x hx
    rcases classify_lk_shape (s := s) (x := x) (short := short) (ct := ct) (md := md) (cmd := cmd) (rep := rep) with
      h1 | h1 | h1 | ⟨_, h1⟩ | ⟨_, h1⟩ | ⟨_, _, _, _, _, h1⟩
    · simp [h1, applyConn]
    · simp [h1, applyConn]
    · rcases classify_lk_loc h1 with h | h
      · exact absurd h hr
      · exact absurd h (hs x hx)
    · simp [h1, applyConn]
    · simp [h1, applyConn]
    · simp [h1, applyConn]

/-- a forwarded LOCK / UNLOCK: exactly the command goes out (last), the `AGAIN` re-dispatch happened exactly when the
plain loop was serving the connection, the transparency loop serves it from now on -/
theorem lk_forwarded (s : Node) (c : Nat) (x : Conn) (short : Bool) (ct : CType) (md : TextMode) (cmd : LockCmd) (rep : Replica)
    (a : Bool) (hx : s.conns[c]? = some x)
    (h : (step s (.request c short (.lk ct md cmd rep))).2.tag = .forwarded a) :
    s.role ≠ .leader ∧ (a = true ↔ x.plainLoop = some true) ∧
    (c, Fwd.lk ct cmd) ∈ (step s (.request c short (.lk ct md cmd rep))).2.fwd ∧
    ∃ x' l', (step s (.request c short (.lk ct md cmd rep))).1.conns[c]? = some x' ∧ x'.kind = x.kind ∧ x'.closed = false ∧
      x'.link = some l' ∧ x'.plainLoop = some false ∧ x'.half = x.half ∧
      (x.kind = .text → md ≠ .push → x'.awaiting = some (cmd.rid, md)) := by
  have hlt : c < s.conns.length := by
    rcases Nat.lt_or_ge c s.conns.length with h | h
    · exact h
    · rw [List.getElem?_eq_none h] at hx; cases hx
  simp only [step, stepRequest, hx] at h ⊢
  rcases classify_lk_shape (s := s) (x := x) (short := short) (ct := ct) (md := md) (cmd := cmd) (rep := rep) with
    h1 | h1 | h1 | ⟨_, h1⟩ | ⟨_, h1⟩ | ⟨l, n, pre, aw, ack, h1⟩
  · simp [h1, applyConn] at h
  · simp [h1, applyConn] at h
  · simp [h1, applyConn] at h
  · simp [h1, applyConn] at h
  · simp [h1, applyConn] at h
  · obtain ⟨_, _, hr, hc, haw, hk⟩ := classify_lk_fwd h1
    simp only [h1, applyConn, dispatched] at h ⊢
    have hdec : decide (s.role = .leader) = false := by simp [hr]
    refine ⟨hr, ?_, ?_, ?_⟩
    · simp only [hdec] at h
      injection h with h
      subst h
      cases hp : x.plainLoop with
      | none => simp
      | some p => cases p <;> simp
    · simp
    · simp only [hdec, List.getElem?_set_self hlt]
      refine ⟨_, _, rfl, rfl, hc, rfl, rfl, rfl, ?_⟩
      intro hkt hmd
      rcases hk with ⟨hkb, _⟩ | ⟨_, _, hm⟩
      · rw [hkb] at hkt; cases hkt
      · rcases hm with ⟨hm, _⟩ | ⟨_, hm, _⟩
        · exact absurd hm hmd
        · simp [hm]

/-! ### exact relay outputs -/

theorem leaderMsg_binary_lock (s : Node) (c : Nat) (x : Conn) (l : Link) (r : LockRes) (early : Bool)
    (hx : s.conns[c]? = some x) (hk : x.kind = .binary) (hl : x.link = some l) :
    (step s (.leaderMsg c (.lockRes r) early)).2.client = [(c, .lockRes r)] := by
  simp only [step, stepLeaderMsg, hx, hl, relay_binary_lock hk]

theorem leaderMsg_binary_call (s : Node) (c : Nat) (x : Conn) (l : Link) (rid res : Nat) (ct : List Nat) (early : Bool)
    (hx : s.conns[c]? = some x) (hk : x.kind = .binary) (hl : x.link = some l) :
    (step s (.leaderMsg c (.callRes rid res ct) early)).2.client = [(c, .callRes rid res ct)] := by
  simp only [step, stepLeaderMsg, hx, hl, relay_binary_call hk]

theorem leaderMsg_text_lock (s : Node) (c : Nat) (x : Conn) (l : Link) (r : LockRes) (md : TextMode) (early : Bool)
    (hx : s.conns[c]? = some x) (hk : x.kind = .text) (hl : x.link = some l) (ha : x.awaiting = some (r.rid, md))
    (hh : x.half = false) :
    (step s (.leaderMsg c (.lockRes r) early)).2.client = [(c, renderText md r)] := by
  simp only [step, stepLeaderMsg, hx, hl, relay_text_lock hk ha hh]

/-- what any client receives from a frame of the leader: only the client of the connection the link belongs to, and
only the frame itself (an INIT result with its InitType rewritten) -/
theorem leaderMsg_client (s : Node) (c : Nat) (msg : LeaderMsg) (early : Bool) (c' : Nat) (m : ToClient)
    (h : (c', m) ∈ (step s (.leaderMsg c msg early)).2.client) :
    c' = c ∧ ((∃ r, msg = .lockRes r ∧ Carries m r) ∨
      (∃ rid res it, msg = .initRes rid res it ∧ m = .initRes rid res (rewriteInitType s.role s.addr it)) ∨
      (∃ rid res ct, msg = .callRes rid res ct ∧ m = .callRes rid res ct)) := by
  simp only [step, stepLeaderMsg] at h
  repeat' split at h
  all_goals first | exact relay_client h | simp at h

end Slock.Trans
