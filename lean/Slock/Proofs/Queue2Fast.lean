import Slock.Proofs.Queue2Prio
/-!
# The inline fast queue and LockManagerLockQueue (holder queue)

The compaction loop keeps exactly the live non-nil entries in order and decrements the refCount of
exactly the tombstoned ones.
-/
namespace Slock.Queue2

def liveSlot (live : Elem → Bool) : Slot → Bool
  | none => false
  | some e => live e

/-- the tombstoned locks among the entries, in order -/
def tombs (live : Elem → Bool) : List Slot → List Elem
  | [] => []
  | none :: l => tombs live l
  | some e :: l => if live e then tombs live l else e :: tombs live l

def decRef (e : Elem) : Elem := { e with refCount := dec8 e.refCount }

theorem compact_fst (live : Elem → Bool) (l : List Slot) :
    (compact live l).1 = l.filter (liveSlot live) := by
  induction l with
  | nil => rfl
  | cons s l ih =>
    cases s with
    | none => simp [compact, liveSlot, ih]
    | some e =>
      by_cases h : live e = true
      · simp [compact, liveSlot, ih, h]
      · simp [compact, liveSlot, ih, h]

theorem compact_snd (live : Elem → Bool) (l : List Slot) :
    (compact live l).2 = (tombs live l).map decRef := by
  induction l with
  | nil => rfl
  | cons s l ih =>
    cases s with
    | none => simp [compact, tombs, ih]
    | some e =>
      by_cases h : live e = true
      · simp [compact, tombs, ih, h]
      · simp [compact, tombs, ih, h, decRef]

theorem tombs_mem (live : Elem → Bool) (l : List Slot) (e : Elem) :
    e ∈ tombs live l ↔ some e ∈ l ∧ live e = false := by
  induction l with
  | nil => simp [tombs]
  | cons s l ih =>
    cases s with
    | none => simp [tombs, ih]
    | some a =>
      by_cases h : live a = true
      · simp only [tombs, h, if_true, ih, List.mem_cons, Option.some.injEq]
        constructor
        · rintro ⟨h1, h2⟩; exact ⟨Or.inr h1, h2⟩
        · rintro ⟨h1 | h1, h2⟩
          · subst h1; simp [h] at h2
          · exact ⟨h1, h2⟩
      · have h' : live a = false := by simpa using h
        simp only [tombs, h', Bool.false_eq_true, if_false, List.mem_cons, ih, Option.some.injEq]
        constructor
        · rintro (h1 | ⟨h1, h2⟩)
          · subst h1; exact ⟨Or.inl rfl, h'⟩
          · exact ⟨Or.inr h1, h2⟩
        · rintro ⟨h1 | h1, h2⟩
          · exact Or.inl h1
          · exact Or.inr ⟨h1, h2⟩

theorem tombs_of_all_live (live : Elem → Bool) (l : List Slot)
    (h : ∀ s ∈ l, liveSlot live s = true) : tombs live l = [] := by
  induction l with
  | nil => rfl
  | cons s l ih =>
    have hs := h s (by simp)
    cases s with
    | none => simp [liveSlot] at hs
    | some e =>
      simp only [liveSlot] at hs
      simp only [tombs, hs, if_true]
      exact ih (fun t ht => h t (by simp [ht]))

/-- If compaction of `l[i:]` does not shorten `l`, then nothing was before `i`, nothing was nil and
nothing was tombstoned. -/
theorem compact_full (live : Elem → Bool) (l : List Slot) (i : Nat)
    (h : ¬ ((l.drop i).filter (liveSlot live)).length < l.length) :
    l.drop i = l ∧ (l.drop i).filter (liveSlot live) = l.drop i ∧ tombs live (l.drop i) = [] := by
  have h1 := List.length_filter_le (liveSlot live) (l.drop i)
  have h2 : (l.drop i).length = l.length - i := List.length_drop
  have hlen : ((l.drop i).filter (liveSlot live)).length = (l.drop i).length := by omega
  have hall := List.length_filter_eq_length_iff.mp hlen
  refine ⟨?_, List.filter_eq_self.mpr hall, tombs_of_all_live live _ hall⟩
  cases l with
  | nil => simp
  | cons a t =>
    have : i = 0 := by simp only [List.length_cons] at h2 hlen h1 h; omega
    subst this; rfl

/-! ## holder queue -/

def fastAbs (fast : Option FastQ) (i : Nat) : List Slot :=
  match fast with
  | some f => f.data.drop i
  | none => []

def scaleAbs (scale : Option Scale) : List Slot :=
  match scale with
  | some s => s.q
  | none => []

def HolderQ.abs (q : HolderQ) : List Slot := fastAbs q.fast q.fastIndex ++ scaleAbs q.scale

def HolderQ.Inv (q : HolderQ) : Prop :=
  (∀ f, q.fast = some f → f.data.length ≤ f.cap ∧ q.fastIndex ≤ f.data.length) ∧
  (q.fast = none → q.fastIndex = 0)

theorem HolderQ.inv_some (f : FastQ) (i : Nat) (scale : Option Scale)
    (h1 : f.data.length ≤ f.cap) (h2 : i ≤ f.data.length) : (HolderQ.mk (some f) i scale).Inv := by
  refine ⟨?_, by simp⟩
  intro f' hf'; simp at hf'; subst hf'; exact ⟨h1, h2⟩

theorem HolderQ.new_inv : HolderQ.new.Inv := by simp [HolderQ.new, HolderQ.Inv]
theorem HolderQ.new_abs : HolderQ.new.abs = [] := rfl

/-- What a holder/wait `Push` may do to the content: append, or drop every tombstoned and nil entry
and append.  `dropped` are exactly the tombstoned entries, refCount decremented. -/
def PushSpec (live : Elem → Bool) (old new : List Slot) (x : Slot) (dropped : List Elem) : Prop :=
  (new = old ++ [x] ∧ dropped = []) ∨
  (new = old.filter (liveSlot live) ++ [x] ∧ dropped = (tombs live old).map decRef)

theorem HolderQ.push_refines (grow : Nat → Nat) (hg : GrowOK grow) (q : HolderQ) (e : Elem) (h : q.Inv) :
    ∃ q' o, q.push grow (some e) = .ok (q', o) ∧ q'.Inv ∧
      PushSpec holderLive q.abs q'.abs (some e) o.dropped := by
  unfold HolderQ.push
  cases hs : q.scale with
  | some s =>
    refine ⟨{ q with scale := some ⟨s.q ++ [some e], mapsInsert e.lockIdKey e s.maps⟩ }, {}, ?_, ?_, ?_⟩
    · simp [Scale.push]
    · exact h
    · left; simp [HolderQ.abs, scaleAbs, hs]
  | none =>
    cases hf : q.fast with
    | none =>
      have h0 := h.2 hf
      refine ⟨_, _, rfl, ?_, ?_⟩
      · exact HolderQ.inv_some _ _ _ (by simp) (by simp [h0])
      · left; simp [HolderQ.abs, fastAbs, scaleAbs, hs, hf, h0]
    | some f =>
      obtain ⟨hcap, hidx⟩ := h.1 f hf
      simp only
      by_cases h1 : f.data.length < f.cap
      · rw [if_pos h1]
        refine ⟨_, _, rfl, ?_, ?_⟩
        · exact HolderQ.inv_some _ _ _ (by simp; omega) (by simp; omega)
        · left
          simp only [HolderQ.abs, fastAbs, scaleAbs, hs, hf, List.append_nil, and_true]
          exact List.drop_append_of_le_length hidx
      · rw [if_neg h1]
        by_cases h2 : q.fastIndex ≥ f.data.length
        · rw [if_pos h2]
          refine ⟨_, _, rfl, ?_, ?_⟩
          · apply HolderQ.inv_some
            · simp only [goAppend_fst]
              exact goAppend_cap grow hg [] f.cap (some e) (by simp)
            · simp
          · left
            simp [HolderQ.abs, fastAbs, scaleAbs, hs, hf, goAppend_fst, List.drop_eq_nil_of_le h2]
        · rw [if_neg h2]
          rw [compact_fst, compact_snd]
          by_cases h3 : ((f.data.drop q.fastIndex).filter (liveSlot holderLive)).length < f.data.length
          · rw [if_pos h3]
            refine ⟨_, _, rfl, ?_, ?_⟩
            · apply HolderQ.inv_some
              · simp only [goAppend_fst]
                exact goAppend_cap grow hg _ f.cap (some e) (by omega)
              · simp
            · right
              simp [HolderQ.abs, fastAbs, scaleAbs, hs, hf, goAppend_fst]
          · rw [if_neg h3]
            obtain ⟨c1, c2, c3⟩ := compact_full holderLive f.data q.fastIndex h3
            by_cases h4 : f.cap ≤ 128
            · rw [if_pos h4]
              refine ⟨_, _, rfl, ?_, ?_⟩
              · apply HolderQ.inv_some
                · simp only [goAppend_fst]
                  exact goAppend_cap grow hg _ f.cap (some e) hcap
                · simp only [goAppend_fst]; simp; omega
              · left
                simp only [HolderQ.abs, fastAbs, scaleAbs, hs, hf, goAppend_fst, List.append_nil, c3,
                  List.map_nil, and_true]
                exact List.drop_append_of_le_length hidx
            · rw [if_neg h4]
              refine ⟨_, _, rfl, ?_, ?_⟩
              · exact HolderQ.inv_some _ _ _ hcap hidx
              · left
                simp [HolderQ.abs, fastAbs, scaleAbs, hs, hf, Scale.new, c3]

theorem tail_append_drop (l : List Slot) (i : Nat) (b : List Slot) (h : i < l.length) :
    (l.drop i ++ b).tail = l.drop (i + 1) ++ b := by
  rw [List.tail_append_of_ne_nil]
  · rw [List.tail_drop]
  · intro hn; have := List.drop_eq_nil_iff.mp hn; omega

theorem headD_append_drop (l : List Slot) (i : Nat) (b : List Slot) (h : i < l.length) :
    (l.drop i ++ b).headD none = (l[i]?).getD none := by
  rw [← headD_drop]
  cases hd : l.drop i with
  | nil => have := List.drop_eq_nil_iff.mp hd; omega
  | cons a t => rfl

theorem Scale.pop_refines (s : Scale) : s.pop.1.q = s.q.tail ∧ s.pop.2 = s.q.headD none := by
  cases hq : s.q <;> simp [Scale.pop, hq]

theorem HolderQ.pop_refines (q : HolderQ) (h : q.Inv) :
    q.pop.1.Inv ∧ q.pop.1.abs = q.abs.tail ∧ q.pop.2 = q.abs.headD none := by
  unfold HolderQ.pop
  cases hf : q.fast with
  | none =>
    have h0 := h.2 hf
    cases hs : q.scale with
    | none => simp [HolderQ.abs, fastAbs, scaleAbs, hf, hs, HolderQ.Inv, h0]
    | some s =>
      have := Scale.pop_refines s
      simp [HolderQ.abs, fastAbs, scaleAbs, hf, hs, HolderQ.Inv, this, h0]
  | some f =>
    obtain ⟨hcap, hidx⟩ := h.1 f hf
    simp only
    by_cases h1 : q.fastIndex < f.data.length
    · rw [if_pos h1]
      refine ⟨?_, ?_, ?_⟩
      · exact HolderQ.inv_some _ _ _ (by simp; omega) (by simp; omega)
      · simp only [HolderQ.abs, fastAbs, hf]
        rw [tail_append_drop _ _ _ h1, List.drop_set_of_lt (by omega)]
      · simp only [HolderQ.abs, fastAbs, hf]
        rw [headD_append_drop _ _ _ h1]
    · rw [if_neg h1]
      have hd : f.data.drop q.fastIndex = [] := List.drop_eq_nil_of_le (by omega)
      cases hs : q.scale with
      | none =>
        refine ⟨?_, ?_, ?_⟩
        · exact h
        · simp [HolderQ.abs, fastAbs, scaleAbs, hf, hs, hd]
        · simp [HolderQ.abs, fastAbs, scaleAbs, hf, hs, hd]
      | some s =>
        have := Scale.pop_refines s
        refine ⟨?_, ?_, ?_⟩
        · exact HolderQ.inv_some _ _ _ hcap hidx
        · simp [HolderQ.abs, fastAbs, scaleAbs, hf, hs, hd, this]
        · simp [HolderQ.abs, fastAbs, scaleAbs, hf, hs, hd, this]

theorem HolderQ.head_refines (q : HolderQ) : q.head = q.abs.headD none := by
  unfold HolderQ.head
  cases hf : q.fast with
  | none =>
    cases hs : q.scale with
    | none => simp [HolderQ.abs, fastAbs, scaleAbs, hf, hs]
    | some s => simp [HolderQ.abs, fastAbs, scaleAbs, hf, hs, List.headD_eq_head?_getD]
  | some f =>
    simp only
    by_cases h1 : q.fastIndex < f.data.length
    · rw [if_pos h1]
      simp only [HolderQ.abs, fastAbs, hf]
      rw [headD_append_drop _ _ _ h1]
    · rw [if_neg h1]
      have hd : f.data.drop q.fastIndex = [] := List.drop_eq_nil_of_le (by omega)
      cases hs : q.scale with
      | none => simp [HolderQ.abs, fastAbs, scaleAbs, hf, hs, hd]
      | some s => simp [HolderQ.abs, fastAbs, scaleAbs, hf, hs, hd, List.headD_eq_head?_getD]

theorem HolderQ.len_refines (q : HolderQ) (h : q.Inv) : q.len = (q.abs.length : Int) := by
  unfold HolderQ.len HolderQ.abs
  cases hf : q.fast with
  | none => cases hs : q.scale <;> simp [fastAbs, scaleAbs]
  | some f =>
    obtain ⟨_, hidx⟩ := h.1 f hf
    cases hs : q.scale <;> simp [fastAbs, scaleAbs] <;> omega

theorem HolderQ.reset_refines (q : HolderQ) (h : q.Inv) : q.reset.Inv ∧ q.reset.abs = [] := by
  unfold HolderQ.reset
  cases hf : q.fast with
  | none => simp [HolderQ.Inv, HolderQ.abs, fastAbs, scaleAbs, h.2 hf]
  | some f =>
    simp only
    split
    · simp [HolderQ.Inv, HolderQ.abs, fastAbs, scaleAbs]
    · split
      · simp [HolderQ.Inv, HolderQ.abs, fastAbs, scaleAbs]
      · rename_i h1 h2
        have : f.data = [] := by
          cases hd : f.data with
          | nil => rfl
          | cons a t => simp [hd] at h2
        simp [HolderQ.Inv, HolderQ.abs, fastAbs, scaleAbs, this]

theorem HolderQ.resize_refines (q : HolderQ) : q.resize = q := rfl

/-- IterNodes: fast part (one node, possibly empty when a scale queue exists) then the scale content. -/
theorem HolderQ.iterNodes_refines (q : HolderQ) :
    q.iterNodes.1.flatten ++ (q.iterNodes.2.getD []) = q.abs := by
  unfold HolderQ.iterNodes HolderQ.abs
  cases hf : q.fast with
  | none => cases hs : q.scale <;> simp [fastAbs, scaleAbs]
  | some f =>
    simp only
    by_cases h1 : q.fastIndex < f.data.length
    · cases hs : q.scale <;> simp [fastAbs, scaleAbs, h1]
    · have hd : f.data.drop q.fastIndex = [] := List.drop_eq_nil_of_le (by omega)
      cases hs : q.scale <;> simp [fastAbs, scaleAbs, h1, hd]

end Slock.Queue2
