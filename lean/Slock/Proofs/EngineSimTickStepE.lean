import Slock.Proofs.EngineSimTickPendE
import Slock.Proofs.EngineSimTickStepT
/-! Clock-tick simulation (`sim_tick`): ONE step of each phase of the expiry sweep (`expireStep true`, `expireStep false`,
`fireExpireStep`) on the record level against stage 1's step. -/
namespace Slock.SimTick
open Slock Slock.Sim Slock.Engine2
open Slock.Engine (has)

theorem expireStep_sy (slot : Bool) (s : DB) (C : List Ent) (e : Ent) (h : Sy s) : Sy (expireStep slot (s, C) e).1 :=
  ⟨expireStep_dbq slot (s, C) e h.dbq, expireStep_dbk slot (s, C) e h.dbq h.dbk, expireStep_dbkt slot (s, C) e h.dbq h.dbk h.dbkt⟩

theorem fireExpireStep_sy (s : DB) (o : List Reply) (e : Ent) (h : Sy s) : Sy (fireExpireStep (s, o) e).1 :=
  ⟨fireExpireStep_dbq (s, o) e h.dbq, fireExpireStep_dbk (s, o) e h.dbq h.dbk, fireExpireStep_dbkt (s, o) e h.dbq h.dbk h.dbkt⟩

theorem commit_seq_le (s : DB) (key : Nat) (w' : W) (f : Fr (s.openKey key) w') : s.seq ≤ w'.commit.seq := by
  rw [commit_seq]; exact f.seq

theorem expireStep_seq (slot : Bool) (s : DB) (C : List Ent) (e : Ent) : s.seq ≤ (expireStep slot (s, C) e).1.seq := by
  unfold expireStep
  split
  · rename_i w hw; exact commit_seq_le s e.key w (W.visitExpire_fr _ _ _ _ hw)
  · exact Nat.le_refl _

theorem fireExpireStep_seq (s : DB) (o : List Reply) (e : Ent) : s.seq ≤ (fireExpireStep (s, o) e).1.seq := by
  unfold fireExpireStep fireExpire
  exact commit_seq_le s e.key _ (W.fireExpire_fr _ _)

theorem expireStep_leader (slot : Bool) (s : DB) (C : List Ent) (e : Ent) : (expireStep slot (s, C) e).1.leader = s.leader :=
  (expireStep_journal slot (s, C) e).1
theorem fireExpireStep_leader (s : DB) (o : List Reply) (e : Ent) : (fireExpireStep (s, o) e).1.leader = s.leader :=
  (fireExpireStep_journal (s, o) e).1

theorem hc_of_equiv {s' s : DB} {x : Engine.DB} (hn' : (s'.keys.map (·.key)).Nodup) (hn : (s.keys.map (·.key)).Nodup)
    (he : Equiv (Engine2.abs s') x) (hx : ∀ n, (x.getKey n).holders.map (·.hid) = ((Engine2.abs s).getKey n).holders.map (·.hid)) : HC s' s := by
  intro n
  rw [← abs_getKey s' hn' n, ← abs_getKey s hn n, he.keys n, hx n]

theorem replaceHolder_hid (hs : List Engine.Hold) (h h' : Engine.Hold) (e : h'.hid = h.hid) :
    (Engine.replaceHolder hs h h').map (·.hid) = hs.map (·.hid) := by
  induction hs with
  | nil => rfl
  | cons a as ih =>
    unfold Engine.replaceHolder
    split
    · rename_i hx; simp only [List.map_cons, e, hx]
    · simp only [List.map_cons, ih]

theorem rearmHold_hc (a : Engine.DB) (x : Engine.Hold) (n : Nat) :
    ((Engine.rearmHold a x).getKey n).holders.map (·.hid) = (a.getKey n).holders.map (·.hid) := by
  rw [rearmHold_eq']
  by_cases e : n = x.cmd.key
  · subst e
    have hk : (replK (a.getKey x.cmd.key) x (rearmH a.eCheck a.seq x)).key = x.cmd.key := Engine.getKey_key a x.cmd.key
    have := getKey_setKey_same (seqUp a) (replK (a.getKey x.cmd.key) x (rearmH a.eCheck a.seq x))
    rw [hk] at this
    rw [this]
    exact replaceHolder_hid _ _ _ rfl
  · have hk : (replK (a.getKey x.cmd.key) x (rearmH a.eCheck a.seq x)).key = x.cmd.key := Engine.getKey_key a x.cmd.key
    rw [getKey_setKey_other _ _ _ (by rw [hk]; exact e)]
    rfl

/-- **one step of an expiry pass, entry not a live hold**: stuttering -/
theorem passE_dead (s : DB) (a : Engine.DB) (C2 : List Ent) (e0 : Ent) (sy : Sy s) (i1 : I1 a) (he : Equiv (Engine2.abs s) a)
    (hd : liveE s e0 = false) (slot : Bool) :
    Equiv (Engine2.abs (expireStep slot (s, C2) e0).1) a ∧ (expireStep slot (s, C2) e0).2 = C2 ∧ HC (expireStep slot (s, C2) e0).1 s := by
  have k1 := k1_of_equiv sy he i1 e0.key
  obtain ⟨w', hv, e1⟩ := sim_visitE_stutter s sy.dbq sy.dbk e0.key e0.rid slot k1 (liveE_false_cases hd)
  have hs' := expireStep_sy slot s C2 e0 sy
  unfold expireStep at hs' ⊢
  simp only [hv] at hs' ⊢
  refine ⟨e1.trans he, by trivial, ?_⟩
  exact hc_of_equiv hs'.dbq.dbt.dbi.kn sy.dbq.dbt.dbi.kn e1 (fun _ => rfl)

/-- **one step of pass 1 (slot entries), live hold**: re-armed in both models, or collected in both -/
theorem pass1E_live (s : DB) (a : Engine.DB) (C2 : List Ent) (C1 : List Engine.Hold) (e0 : Ent) (sy : Sy s) (i1 : I1 a)
    (he : Equiv (Engine2.abs s) a) (hl : liveE s e0 = true) :
    Equiv (Engine2.abs (expireStep true (s, C2) e0).1) (Engine.expireStep (a, C1) (viewE s e0)).1 ∧ HC (expireStep true (s, C2) e0).1 s ∧
    (((expireStep true (s, C2) e0).2 = C2 ∧ (Engine.expireStep (a, C1) (viewE s e0)).2 = C1) ∨
     ((expireStep true (s, C2) e0).1 = s ∧ (expireStep true (s, C2) e0).2 = C2 ++ [e0] ∧ (Engine.expireStep (a, C1) (viewE s e0)).2 = C1 ++ [viewE s e0])) := by
  have k1 := k1_of_equiv sy he i1 e0.key
  obtain ⟨hT, hl'⟩ := liveE_spec hl
  have hs' := expireStep_sy true s C2 e0 sy
  by_cases hdue : ((s.getKey e0.key).getR e0.rid).expT > s.now
  · obtain ⟨hv, e1⟩ := sim_rearmE s sy.dbq sy.dbk sy.dbkt e0.key e0.rid k1 hT hl' hdue
    have h1 : Engine.expireStep (a, C1) (viewE s e0) = (Engine.rearmHold a (viewE s e0), C1) := by
      unfold Engine.expireStep
      have : (viewE s e0).expT > a.now := by rw [← he.now]; exact hdue
      simp only [this, if_true]
    unfold expireStep at hs' ⊢
    simp only [hv] at hs' ⊢
    rw [h1]
    refine ⟨e1.trans (rearmHold_congr he _), ?_, Or.inl ⟨by trivial, by trivial⟩⟩
    exact hc_of_equiv hs'.dbq.dbt.dbi.kn sy.dbq.dbt.dbi.kn e1 (fun n => rearmHold_hc _ _ n)
  · have hv : (s.openKey e0.key).visitExpire true e0.rid = none := by
      rw [visitE_live_cases _ true e0.rid hT hl']
      have : ¬ (((s.openKey e0.key).k.getR e0.rid).expT > (s.openKey e0.key).db.now) := hdue
      simp [this]
    have h1 : Engine.expireStep (a, C1) (viewE s e0) = (a, C1 ++ [viewE s e0]) := by
      unfold Engine.expireStep
      have : ¬ ((viewE s e0).expT > a.now) := by rw [← he.now]; exact hdue
      simp only [this, if_false]
    unfold expireStep
    simp only [hv]
    rw [h1]
    exact ⟨he, fun _ => rfl, Or.inr ⟨by trivial, by trivial, by trivial⟩⟩

/-- **one step of the long-table pass, live hold**: collected, nothing changes -/
theorem passLE_live (s : DB) (C2 : List Ent) (e0 : Ent) (hl : liveE s e0 = true) : expireStep false (s, C2) e0 = (s, C2 ++ [e0]) := by
  obtain ⟨hT, hl'⟩ := liveE_spec hl
  have hv : (s.openKey e0.key).visitExpire false e0.rid = none := by
    rw [visitE_live_cases _ false e0.rid hT hl']
    simp
  unfold expireStep
  simp only [hv]

/-! ### firing -/

theorem find_hid_unique (hs : List Engine.Hold) (v : Engine.Hold) (i : Nat) (hv : v ∈ hs) (hn : (hs.map (·.hid)).Nodup) (e : v.hid = i) :
    hs.find? (·.hid == i) = some v := by
  induction hs with
  | nil => simp at hv
  | cons a as ih =>
    simp only [List.map_cons, List.nodup_cons] at hn
    rcases List.mem_cons.mp hv with h1 | h1
    · subst h1
      simp [List.find?, e]
    · have hne : a.hid ≠ i := by
        intro e1
        apply hn.1
        rw [e1, ← e]; exact List.mem_map.mpr ⟨v, h1, rfl⟩
      have hc : (a.hid == i) = false := by simpa using hne
      simp only [List.find?, hc]
      exact ih h1 hn.2

/-- **one firing step against stage 1's step on `abs`**, exactly (on the leader) -/
theorem fireE_step_abs (s : DB) (o2 : List Reply) (e0 : Ent) (x0 : Engine.Hold) (sy : Sy s) (k1 : K1 (s.getKey e0.key)) (pe : PE s e0 x0)
    (hld : s.leader = true) :
    Equiv (Engine2.abs (fireExpireStep (s, o2) e0).1) (Engine.fireExpireStep (Engine2.abs s, o2.map (·.r)) x0).1 ∧
    (fireExpireStep (s, o2) e0).2.map (·.r) = (Engine.fireExpireStep (Engine2.abs s, o2.map (·.r)) x0).2 := by
  unfold fireExpireStep Engine.fireExpireStep
  simp only []
  rw [pe.key, abs_getKey s sy.dbq.dbt.dbi.kn e0.key]
  cases hl : liveE s e0 with
  | true =>
    obtain ⟨hT, hl'⟩ := liveE_spec hl
    obtain ⟨_, _, hmem⟩ := liveE_facts sy hl
    rw [find_hid_unique _ _ x0.hid hmem (sy.dbk.getKey e0.key).hidNodup (pe.live hl)]
    have hdf : deferExpiry s ((s.getKey e0.key).getR e0.rid) = false := by
      unfold deferExpiry; rw [hld]; rfl
    obtain ⟨e1, e2⟩ := sim_fireE_live s sy.dbq sy.dbk sy.dbkt e0.key e0.rid k1 hT hl' hdf
    simp only []
    exact ⟨e1, by rw [List.map_append, e2]; rfl⟩
  | false =>
    have hnone : (Key.abs (s.getKey e0.key)).holders.find? (·.hid == x0.hid) = none := by
      apply List.find?_eq_none.mpr
      intro v hv hc
      simp only [beq_iff_eq] at hc
      exact pe.dead hl v hv hc
    rw [hnone]
    obtain ⟨e1, e2⟩ := sim_fireE_stutter s sy.dbq sy.dbk e0.key e0.rid k1 (liveE_false_cases hl)
    simp only []
    exact ⟨e1, by rw [e2]; simp⟩

end Slock.SimTick
