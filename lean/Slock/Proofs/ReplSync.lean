import Slock.Proofs.ReplRun
/-!
The handshake model: what `Search` (resume), `Head` (full transfer) and one `SendProcess` iteration do to a follower whose
applied log is a prefix `1 … m` of the leader's log. Core Lean only.
-/
namespace Slock.Repl

/-- leader log and buffer history agree: record number k has id k and was pushed k-th (seq k-1) -/
def HistOk (hist : List (Nat × Nat × Nat)) : Prop := ∀ i r, hist[i]? = some r → r.1 = i + 1

/-- the follower's applied log is `1, 2, …, m` -/
def Prefix1 (l : List Nat) : Prop := l = List.range' 1 l.length

theorem prefix1_snoc {l : List Nat} (h : Prefix1 l) : Prefix1 (l ++ [l.length + 1]) := by
  unfold Prefix1 at h ⊢
  rw [List.length_append, List.length_singleton, List.range'_concat]
  simp only [Nat.one_mul]
  rw [← h, Nat.add_comm 1]

/-- A follower in the `stream` phase is consistent with its channel's cursor: the cursor has a position, its item is the
last applied record (`writed`) or the next one to apply (`¬writed`). -/
structure StreamOk (q : Q) (f : Fol) : Prop where
  pos : f.cur.seq ≠ seqNone
  cur : CurOk q f.cur
  has : CurHas q f.cur
  pre : Prefix1 f.log
  at_ : (f.cur.writed = true ∧ f.cur.seq + 1 = f.log.length) ∨
        (f.cur.writed = false ∧ f.cur.seq = f.log.length ∧ f.cur.bufId = f.cur.seq + 1)

/-- RESUME: the follower reports the id `m` of its last applied record (its log is `1 … m`, m ≥ 1) and `Search` finds it:
the channel's cursor is positioned so that streaming continues exactly with record m+1. -/
theorem resume_streamOk {A q hist} {f : Fol} {c' : Cursor} (h : Inv A q hist) (hh : HistOk hist) (hq : q.seq < seqNone)
    (hpre : Prefix1 f.log) (hid : f.curId = f.log.length) (hp : search q f.curId newCursor = (.ok, c')) :
    StreamOk q { f with conn := .stream, cur := c' } := by
  obtain ⟨_, g2, g3, _, _, g6, g7, it, hit, hcur⟩ := search_ok h hp
  have := hh _ _ g3
  simp only at this
  refine ⟨by show c'.seq ≠ seqNone; omega, g6, ?_, hpre, Or.inl ⟨g7, ?_⟩⟩
  · intro sid hs
    have hs' : c'.cur = some sid := hs
    rw [hcur] at hs'; cases hs'; exact has_of_live hit
  · show c'.seq + 1 = f.log.length
    omega

/-- FULL TRANSFER: `Head` answered H (the newest record) and the file phase delivered exactly the records `1 … H-1`:
streaming starts with record H, the item the cursor holds. -/
theorem full_streamOk {A q hist} {f : Fol} {c' : Cursor} (h : Inv A q hist) (hh : HistOk hist) (hq : q.seq < seqNone)
    (hp : head q newCursor = (.ok, c')) (hpre : Prefix1 f.log) (hlen : f.log.length + 1 = c'.bufId) :
    StreamOk q { f with conn := .stream, cur := c' } := by
  obtain ⟨g1, g2, g3, g4, it, hit, hcur⟩ := head_ok h hp
  have := hh _ _ g2
  simp only at this
  refine ⟨by show c'.seq ≠ seqNone; omega, g3, ?_, hpre, Or.inr ⟨g4, ?_, this⟩⟩
  · intro sid hs
    have hs' : c'.cur = some sid := hs
    rw [hcur] at hs'; cases hs'; exact has_of_live hit
  · show c'.seq = f.log.length
    omega

/-- ONE STREAM STEP keeps the follower's log a prefix `1 … m` of the leader's: it applies exactly record m+1, or nothing;
on "out of buf" the channel closes with the log untouched (the follower then reconnects with its id). -/
theorem streamStep_ok {A q hist} {f : Fol} (h : Inv A q hist) (hA : A < M32) (hh : HistOk hist) (hq : q.seq < seqNone)
    (hs : StreamOk q f) :
    ((streamStep q f).2.1.conn = .off ∧ (streamStep q f).2.1.log = f.log ∧ (streamStep q f).2.1.curId = f.curId) ∨
    (StreamOk (streamStep q f).1 (streamStep q f).2.1 ∧ Inv A (streamStep q f).1 hist ∧
      (streamStep q f).2.1.conn = f.conn ∧
      ((streamStep q f).2.1.log = f.log ∨ (streamStep q f).2.1.log = f.log ++ [f.log.length + 1])) := by
  unfold streamStep
  split
  · rename_i hw
    split
    · exact Or.inr ⟨hs, h, rfl, Or.inl rfl⟩
    · rename_i q' c' b ha
      right
      obtain ⟨_, _, a3, _, a5, a6⟩ := ack_spec ha
      have hat : f.cur.seq = f.log.length ∧ f.cur.bufId = f.cur.seq + 1 := by
        rcases hs.at_ with ⟨w, _⟩ | ⟨_, x, y⟩
        · rw [hw] at w; cases w
        · exact ⟨x, y⟩
      have hc' : c' = { f.cur with writed := true } := by
        unfold ack at ha
        split at ha
        · rename_i hwt; rw [hw] at hwt; cases hwt
        · split at ha
          · cases ha
          · simp only [Option.some.injEq, Prod.mk.injEq] at ha
            exact ha.2.1.symm
      have hb : f.cur.bufId = f.log.length + 1 := by omega
      refine ⟨⟨?_, ack_curOk_self ha hs.cur, ?_, ?_, Or.inl ⟨?_, ?_⟩⟩, ack_inv h ha, rfl, Or.inr (by simp only []; rw [hb])⟩
      · show c'.seq ≠ seqNone
        rw [a5]; exact hs.pos
      · intro sid hsid
        have hsid' : c'.cur = some sid := hsid
        rw [a6] at hsid'
        exact ack_has ha (hs.has sid hsid')
      · show Prefix1 (f.log ++ [f.cur.bufId])
        rw [hb]; exact prefix1_snoc hs.pre
      · show c'.writed = true
        rw [hc']
      · show c'.seq + 1 = (f.log ++ [f.cur.bufId]).length
        rw [a5, List.length_append, List.length_singleton]; omega
  · rename_i hw
    have hw' : f.cur.writed = true := by
      cases hcw : f.cur.writed with
      | true => rfl
      | false => exact absurd hcw hw
    have hlen : f.cur.seq + 1 = f.log.length := by
      rcases hs.at_ with ⟨_, x⟩ | ⟨w, _⟩
      · exact x
      · rw [hw'] at w; cases w
    simp only []
    split
    · rename_i hr
      right
      have hp : pop q f.cur = (.ok, (pop q f.cur).2) := by rw [← hr]
      obtain ⟨g1, g2, g3, g4, g5, it, hit, hcur⟩ := pop_ok h hA hs.cur hp
      have hb := hh _ _ g2
      simp only at hb
      have hsq : (pop q f.cur).2.seq = f.cur.seq + 1 := by
        rcases g3 with g | g
        · exact absurd g hs.pos
        · exact g
      refine ⟨⟨?_, g4, ?_, hs.pre, Or.inr ⟨g5, ?_, hb⟩⟩, h, rfl, Or.inl rfl⟩
      · show (pop q f.cur).2.seq ≠ seqNone
        omega
      · intro sid hsid
        have hsid' : (pop q f.cur).2.cur = some sid := hsid
        rw [hcur] at hsid'; cases hsid'; exact has_of_live hit
      · show (pop q f.cur).2.seq = f.log.length
        omega
    · exact Or.inr ⟨hs, h, rfl, Or.inl rfl⟩
    · exact Or.inl ⟨rfl, rfl, rfl⟩

/-- CONVERGE, the step: when the channel finds nothing more to send (`Pop` = EOF with the item in hand already written),
the follower has applied as many records as the leader has published. -/
theorem streamStep_idle {A q hist} {f : Fol} (h : Inv A q hist) (hs : StreamOk q f)
    (hi : (streamStep q f).2.2 = .idle) : f.log.length = q.seq := by
  unfold streamStep at hi
  split at hi
  · split at hi <;> cases hi
  · rename_i hw
    have hw' : f.cur.writed = true := by
      cases hcw : f.cur.writed with
      | true => rfl
      | false => exact absurd hcw hw
    have hlen : f.cur.seq + 1 = f.log.length := by
      rcases hs.at_ with ⟨_, x⟩ | ⟨w, _⟩
      · exact x
      · rw [hw'] at w; cases w
    simp only [] at hi
    split at hi
    · cases hi
    · rename_i hr
      have hp : pop q f.cur = (.eof, (pop q f.cur).2) := by rw [← hr]
      obtain ⟨_, g⟩ := pop_eof h hp
      rcases g with g | g
      · have := (hs.cur hs.pos).1; omega
      · omega
    · cases hi

end Slock.Repl
