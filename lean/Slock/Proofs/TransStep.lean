import Slock.Proofs.TransBasic
/-! M-TRANS: the sources of everything a client receives, and of everything the leader is sent (per step, any state). -/
namespace Slock.Trans
open Slock.Gen

/-! ### the relay function -/

theorem relay_client {s : Node} {c : Nat} {x : Conn} {l : Link} {msg : LeaderMsg} {early : Bool} {c' : Nat} {m : ToClient}
    (h : (c', m) ∈ (relay s c x l msg early).2) :
    c' = c ∧ ((∃ r, msg = .lockRes r ∧ Carries m r) ∨
      (∃ rid res it, msg = .initRes rid res it ∧ m = .initRes rid res (rewriteInitType s.role s.addr it)) ∨
      (∃ rid res ct, msg = .callRes rid res ct ∧ m = .callRes rid res ct)) := by
  unfold relay at h
  cases hk : x.kind <;> cases msg <;> simp only [hk] at h
  · simp at h; obtain ⟨rfl, rfl⟩ := h; exact ⟨rfl, Or.inl ⟨_, rfl, Or.inl rfl⟩⟩
  · repeat' split at h
    all_goals simp at h
    all_goals (obtain ⟨rfl, rfl⟩ := h; exact ⟨rfl, Or.inr (Or.inl ⟨_, _, _, rfl, rfl⟩)⟩)
  · simp at h; obtain ⟨rfl, rfl⟩ := h; exact ⟨rfl, Or.inr (Or.inr ⟨_, _, _, rfl, rfl⟩)⟩
  · simp at h
  · repeat' split at h
    all_goals (try simp at h)
    unfold textDeliver at h
    split at h
    · simp at h
    · simp at h; obtain ⟨rfl, rfl⟩ := h; exact ⟨rfl, Or.inl ⟨_, rfl, carries_renderText _ _⟩⟩
  · simp at h
  · simp at h
  · simp at h

/-- a binary connection with a link relays EVERY lock result, whatever its RequestId -/
theorem relay_binary_lock {s : Node} {c : Nat} {x : Conn} {l : Link} {r : LockRes} {early : Bool} (hk : x.kind = .binary) :
    (relay s c x l (.lockRes r) early).2 = [(c, .lockRes r)] := by
  unfold relay; simp [hk]

theorem relay_binary_call {s : Node} {c : Nat} {x : Conn} {l : Link} {rid res ct} {early : Bool} (hk : x.kind = .binary) :
    (relay s c x l (.callRes rid res ct) early).2 = [(c, .callRes rid res ct)] := by
  unfold relay; simp [hk]

/-- a text connection relays the lock result its handler is blocked on -/
theorem relay_text_lock {s : Node} {c : Nat} {x : Conn} {l : Link} {r : LockRes} {md : TextMode} {early : Bool}
    (hk : x.kind = .text) (ha : x.awaiting = some (r.rid, md)) (hh : x.half = false) :
    (relay s c x l (.lockRes r) early).2 = [(c, renderText md r)] := by
  unfold relay textDeliver; simp [hk, ha, hh]

/-- … and drops every other one -/
theorem relay_text_other {s : Node} {c : Nat} {x : Conn} {l : Link} {r : LockRes} {early : Bool}
    (hk : x.kind = .text) (ha : ∀ md, x.awaiting ≠ some (r.rid, md)) :
    (relay s c x l (.lockRes r) early).2 = [] := by
  unfold relay
  simp only [hk]
  split
  · rename_i a md h
    split
    · rename_i h2; subst h2; exact absurd h (ha md)
    · rfl
  · rfl

/-! ### link loss -/

theorem rollbackMsg_some {l : Link} {m : LeaderMsg} (h : rollbackMsg l = some m) :
    ∃ ct, l.latestT = some ct ∧ ((ct = .call ∧ m = .callRes l.latestR C.RESULT_ERROR []) ∨ (ct ≠ .call ∧ m = .lockRes (rollbackRes ct l.latestR))) := by
  unfold rollbackMsg at h
  split at h
  · cases h
  · cases h; rename_i h; exact ⟨_, h, Or.inl ⟨rfl, rfl⟩⟩
  · cases h; rename_i ct hne h; exact ⟨ct, h, Or.inr ⟨by intro e; subst e; first | exact hne rfl | exact hne h, rfl⟩⟩

theorem dropLink_client {s : Node} {c : Nat} {x : Conn} {l : Link} {c' : Nat} {m : ToClient}
    (h : (c', m) ∈ (dropLink s c x l).2.1) :
    c' = c ∧ ∃ ct, l.latestT = some ct ∧
      ((ct = .call ∧ m = .callRes l.latestR C.RESULT_ERROR []) ∨ (ct ≠ .call ∧ Carries m (rollbackRes ct l.latestR))) := by
  unfold dropLink at h
  simp only at h
  split at h
  · rename_i msg hm
    obtain ⟨ct, hct, hcase⟩ := rollbackMsg_some hm
    obtain ⟨rfl, hsrc⟩ := relay_client h
    refine ⟨rfl, ct, hct, ?_⟩
    rcases hcase with ⟨rfl, rfl⟩ | ⟨hne, rfl⟩
    · rcases hsrc with ⟨r, hr, _⟩ | ⟨_, _, _, hr, _⟩ | ⟨_, _, _, hr, hm'⟩
      · cases hr
      · cases hr
      · cases hr; exact Or.inl ⟨rfl, hm'⟩
    · rcases hsrc with ⟨r, hr, hc⟩ | ⟨_, _, _, hr, _⟩ | ⟨_, _, _, hr, _⟩
      · cases hr; exact Or.inr ⟨hne, hc⟩
      · cases hr
      · cases hr
  · simp at h

theorem dropLink_fwd {s : Node} {c : Nat} {x : Conn} {l : Link} {c' : Nat} {f : Fwd}
    (h : (c', f) ∈ (dropLink s c x l).2.2) : c' = c ∧ ∃ rid cid, l.initC = some (rid, cid) ∧ f = .init rid cid ∧ retries s = true := by
  unfold dropLink at h
  simp only at h
  split at h
  · rename_i hr
    unfold openFwd at h
    split at h
    · simp at h
    · rename_i r cid hic
      simp at h
      exact ⟨h.1, r, cid, hic, h.2, hr⟩
  · simp at h

theorem dropAll_client {s : Node} {xs : List Conn} {i : Nat} {c : Nat} {m : ToClient}
    (h : (c, m) ∈ (dropAll s i xs).2.1) :
    ∃ j x l, xs[j]? = some x ∧ c = i + j ∧ x.link = some l ∧ (c, m) ∈ (dropLink s c x l).2.1 := by
  induction xs generalizing i with
  | nil => simp [dropAll] at h
  | cons x xs ih =>
    unfold dropAll at h
    simp only at h
    split at h
    · obtain ⟨j, y, l, hj, hc, hl, hm⟩ := ih h
      exact ⟨j + 1, y, l, by simpa using hj, by omega, hl, hm⟩
    · rename_i l hl
      simp only [List.mem_append] at h
      rcases h with h | h
      · have hc := (dropLink_client h).1
        subst hc
        exact ⟨0, x, l, by simp, by omega, hl, h⟩
      · obtain ⟨j, y, l', hj, hc, hl', hm⟩ := ih h
        exact ⟨j + 1, y, l', by simpa using hj, by omega, hl', hm⟩

theorem dropAll_fwd {s : Node} {xs : List Conn} {i : Nat} {c : Nat} {f : Fwd}
    (h : (c, f) ∈ (dropAll s i xs).2.2.1) :
    ∃ j x l, xs[j]? = some x ∧ c = i + j ∧ x.link = some l ∧ (c, f) ∈ (dropLink s c x l).2.2 := by
  induction xs generalizing i with
  | nil => simp [dropAll] at h
  | cons x xs ih =>
    unfold dropAll at h
    simp only at h
    split at h
    · obtain ⟨j, y, l, hj, hc, hl, hm⟩ := ih h
      exact ⟨j + 1, y, l, by simpa using hj, by omega, hl, hm⟩
    · rename_i l hl
      simp only [List.mem_append] at h
      rcases h with h | h
      · have hc := (dropLink_fwd h).1
        subst hc
        exact ⟨0, x, l, by simp, by omega, hl, h⟩
      · obtain ⟨j, y, l', hj, hc, hl', hm⟩ := ih h
        exact ⟨j + 1, y, l', by simpa using hj, by omega, hl', hm⟩

end Slock.Trans
