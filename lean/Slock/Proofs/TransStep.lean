import Slock.Proofs.TransBasic
/-! M-TRANS: the sources of everything a client receives, and of everything the leader is sent (per step, any state). -/
namespace Slock.Trans
open Slock.Gen

/-! ### the relay function -/

theorem relay_client {s : Node} {c : Nat} {x : Conn} {l : Link} {msg : LeaderMsg} {early : Bool} {c' : Nat} {m : ToClient}
    (h : (c', m) ∈ (relay s c x l msg early).2) :
    c' = c ∧ ((∃ r, msg = .lockRes r ∧ Carries m r) ∨
      (∃ rid res it, msg = .initRes rid res it ∧ m = .initRes rid res (rewriteInitType s.role s.addr it)) ∨
      (∃ rid res ct, msg = .callRes rid res ct ∧ m = .callRes rid res ct)) := by
  unfold relay at h
  cases hk : x.kind <;> cases msg <;> simp only [hk] at h
  · simp at h; obtain ⟨rfl, rfl⟩ := h; exact ⟨rfl, Or.inl ⟨_, rfl, Or.inl rfl⟩⟩
  · repeat' split at h
    all_goals simp at h
    all_goals (obtain ⟨rfl, rfl⟩ := h; exact ⟨rfl, Or.inr (Or.inl ⟨_, _, _, rfl, rfl⟩)⟩)
  · simp at h; obtain ⟨rfl, rfl⟩ := h; exact ⟨rfl, Or.inr (Or.inr ⟨_, _, _, rfl, rfl⟩)⟩
  · simp at h
  · repeat' split at h
    all_goals (try simp at h)
    unfold textDeliver at h
    split at h
    · simp at h
    · simp at h; obtain ⟨rfl, rfl⟩ := h; exact ⟨rfl, Or.inl ⟨_, rfl, carries_renderText _ _⟩⟩
  · simp at h
  · simp at h
  · simp at h

/-- a binary connection with a link relays EVERY lock result, whatever its RequestId -/
theorem relay_binary_lock {s : Node} {c : Nat} {x : Conn} {l : Link} {r : LockRes} {early : Bool} (hk : x.kind = .binary) :
    (relay s c x l (.lockRes r) early).2 = [(c, .lockRes r)] := by
  unfold relay; simp [hk]

theorem relay_binary_call {s : Node} {c : Nat} {x : Conn} {l : Link} {rid res ct} {early : Bool} (hk : x.kind = .binary) :
    (relay s c x l (.callRes rid res ct) early).2 = [(c, .callRes rid res ct)] := by
  unfold relay; simp [hk]

/-- a text connection relays the lock result its handler is blocked on -/
theorem relay_text_lock {s : Node} {c : Nat} {x : Conn} {l : Link} {r : LockRes} {md : TextMode} {early : Bool}
    (hk : x.kind = .text) (ha : x.awaiting = some (r.rid, md)) (hh : x.half = false) :
    (relay s c x l (.lockRes r) early).2 = [(c, renderText md r)] := by
  unfold relay textDeliver; simp [hk, ha, hh]

/-- … and drops every other one -/
theorem relay_text_other {s : Node} {c : Nat} {x : Conn} {l : Link} {r : LockRes} {early : Bool}
    (hk : x.kind = .text) (ha : ∀ md, x.awaiting ≠ some (r.rid, md)) :
    (relay s c x l (.lockRes r) early).2 = [] := by
  unfold relay
  simp only [hk]
  split
  · rename_i a md h
    split
    · rename_i h2; subst h2; exact absurd h (ha md)
    · rfl
  · rfl

/-! ### link loss -/

theorem rollbackMsg_some {l : Link} {m : LeaderMsg} (h : rollbackMsg l = some m) :
    ∃ ct, l.latestT = some ct ∧ ((ct = .call ∧ m = .callRes l.latestR C.RESULT_ERROR []) ∨ (ct ≠ .call ∧ m = .lockRes (rollbackRes ct l.latestR))) := by
  unfold rollbackMsg at h
  split at h
  · cases h
  · cases h; rename_i h; exact ⟨_, h, Or.inl ⟨rfl, rfl⟩⟩
  · cases h; rename_i ct hne h; exact ⟨ct, h, Or.inr ⟨by intro e; subst e; first | exact hne rfl | exact hne h, rfl⟩⟩

theorem dropLink_client {s : Node} {c : Nat} {x : Conn} {l : Link} {c' : Nat} {m : ToClient}
    (h : (c', m) ∈ (dropLink s c x l).2.1) :
    c' = c ∧ ∃ ct, l.latestT = some ct ∧
      ((ct = .call ∧ m = .callRes l.latestR C.RESULT_ERROR []) ∨ (ct ≠ .call ∧ Carries m (rollbackRes ct l.latestR))) := by
  unfold dropLink at h
  simp only at h
  split at h
  · rename_i msg hm
    obtain ⟨ct, hct, hcase⟩ := rollbackMsg_some hm
    obtain ⟨rfl, hsrc⟩ := relay_client h
    refine ⟨rfl, ct, hct, ?_⟩
    rcases hcase with ⟨rfl, rfl⟩ | ⟨hne, rfl⟩
    · rcases hsrc with ⟨r, hr, _⟩ | ⟨_, _, _, hr, _⟩ | ⟨_, _, _, hr, hm'⟩
      · cases hr
      · cases hr
      · cases hr; exact Or.inl ⟨rfl, hm'⟩
    · rcases hsrc with ⟨r, hr, hc⟩ | ⟨_, _, _, hr, _⟩ | ⟨_, _, _, hr, _⟩
      · cases hr; exact Or.inr ⟨hne, hc⟩
      · cases hr
      · cases hr
  · simp at h

/-- what `Transparency*ServerProtocol.Close` writes to the leader: the connection's will commands, preceded by the INIT it
announced when the link has to be opened for them -/
def WillOf (x : Conn) (f : Fwd) : Prop :=
  (∃ w ∈ x.wills, f = .lk w.1 w.2) ∨ (∃ rid cid, x.initCmd = some (rid, cid) ∧ f = .init rid cid)

theorem closeFwd_mem {s : Node} {x : Conn} {f : Fwd} (h : f ∈ closeFwd s x) : WillOf x f := by
  unfold closeFwd at h
  split at h
  · split at h
    · rename_i l n pre hcc
      simp only [List.mem_append] at h
      rcases h with h | h
      · right
        rcases checkClient_some hcc with ⟨_, _, rfl⟩ | ⟨_, _, _, rfl, _, _⟩
        · cases h
        · cases hk : x.kind <;> simp only [hk] at h
          · cases hi : x.initCmd with
            | none => simp [hi, openFwd] at h
            | some p => obtain ⟨r, cid⟩ := p; simp [hi, openFwd] at h; exact ⟨r, cid, rfl, h⟩
          · simp [openFwd] at h
      · left
        simp only [willFwd, List.mem_map] at h
        obtain ⟨w, hw, rfl⟩ := h
        exact ⟨w, hw, rfl⟩
    · cases h
  · cases h

theorem dropLink_fwd {s : Node} {c : Nat} {x : Conn} {l : Link} {c' : Nat} {f : Fwd}
    (h : (c', f) ∈ (dropLink s c x l).2.2) :
    c' = c ∧ ((∃ rid cid, l.initC = some (rid, cid) ∧ f = .init rid cid ∧ retries s = true) ∨ WillOf x f) := by
  unfold dropLink at h
  simp only [List.mem_append] at h
  rcases h with h | h
  · split at h
    · rename_i hr
      cases hic : l.initC with
      | none => simp [hic, openFwd] at h
      | some p =>
        obtain ⟨r, cid⟩ := p
        simp [hic, openFwd] at h
        exact ⟨h.1, Or.inl ⟨r, cid, rfl, h.2, hr⟩⟩
    · simp at h
  · simp only [List.mem_map] at h
    obtain ⟨g, hg, he⟩ := h
    cases he
    have hgen : ∀ (b : Prop) [Decidable b], f ∈ (if b then closeFwd s { x with link := none } else []) → WillOf x f := by
      intro b _ hb
      split at hb
      · exact closeFwd_mem (x := { x with link := none }) hb
      · cases hb
    exact ⟨rfl, Or.inr (hgen _ hg)⟩

theorem dropAll_client {s : Node} {xs : List Conn} {i : Nat} {c : Nat} {m : ToClient}
    (h : (c, m) ∈ (dropAll s i xs).2.1) :
    ∃ j x l, xs[j]? = some x ∧ c = i + j ∧ x.link = some l ∧ (c, m) ∈ (dropLink s c x l).2.1 := by
  induction xs generalizing i with
  | nil => simp [dropAll] at h
  | cons x xs ih =>
    unfold dropAll at h
    simp only at h
    split at h
    · obtain ⟨j, y, l, hj, hc, hl, hm⟩ := ih h
      exact ⟨j + 1, y, l, by simpa using hj, by omega, hl, hm⟩
    · rename_i l hl
      simp only [List.mem_append] at h
      rcases h with h | h
      · have hc := (dropLink_client h).1
        subst hc
        exact ⟨0, x, l, by simp, by omega, hl, h⟩
      · obtain ⟨j, y, l', hj, hc, hl', hm⟩ := ih h
        exact ⟨j + 1, y, l', by simpa using hj, by omega, hl', hm⟩

theorem dropAll_fwd {s : Node} {xs : List Conn} {i : Nat} {c : Nat} {f : Fwd}
    (h : (c, f) ∈ (dropAll s i xs).2.2.1) :
    ∃ j x l, xs[j]? = some x ∧ c = i + j ∧ x.link = some l ∧ (c, f) ∈ (dropLink s c x l).2.2 := by
  induction xs generalizing i with
  | nil => simp [dropAll] at h
  | cons x xs ih =>
    unfold dropAll at h
    simp only at h
    split at h
    · obtain ⟨j, y, l, hj, hc, hl, hm⟩ := ih h
      exact ⟨j + 1, y, l, by simpa using hj, by omega, hl, hm⟩
    · rename_i l hl
      simp only [List.mem_append] at h
      rcases h with h | h
      · have hc := (dropLink_fwd h).1
        subst hc
        exact ⟨0, x, l, by simp, by omega, hl, h⟩
      · obtain ⟨j, y, l', hj, hc, hl', hm⟩ := ih h
        exact ⟨j + 1, y, l', by simpa using hj, by omega, hl', hm⟩

end Slock.Trans
