import Slock.Proofs.Engine2LvOps
/-! Stage-2 engine: a record that still has a wheel entry is never freed by lazy popping (the wheel's reference keeps it alive). -/
namespace Slock.Engine2

/-- the fields of a record that lazy popping never changes -/
structure SameButCount (r' r : Rec) : Prop where
  tSched : r'.tSched = r.tSched
  eSched : r'.eSched = r.eSched
  timeouted : r'.timeouted = r.timeouted
  cmd : r'.cmd = r.cmd
  conn : r'.conn = r.conn
  depth : r'.depth = r.depth

theorem SameButCount.refl (r : Rec) : SameButCount r r := ⟨rfl, rfl, rfl, rfl, rfl, rfl⟩
theorem SameButCount.trans {a b c : Rec} (h1 : SameButCount a b) (h2 : SameButCount b c) : SameButCount a c :=
  ⟨h1.tSched.trans h2.tSched, h1.eSched.trans h2.eSched, h1.timeouted.trans h2.timeouted, h1.cmd.trans h2.cmd, h1.conn.trans h2.conn,
   h1.depth.trans h2.depth⟩

/-- a record with a wheel entry survives `refCount--` for one of its queue references -/
theorem unref_keep {k : Key} {ex : Nat → Int} (h : RCx k ex) (x rid : Nat) (hpos : 0 < (k.qRefs x : Int) + ex x) (hh : k.hasRec rid)
    (hw : 1 ≤ (k.getR rid).wheelRefs) : (k.unref x).hasRec rid ∧ SameButCount ((k.unref x).getR rid) (k.getR rid) := by
  by_cases e : rid = x
  · subst e
    have hrc := h.refCount_of hh
    have h1 : (k.unrefOnly rid).hasRec rid := by unfold Key.unrefOnly; rw [hasRec_modRec _ _ _ _ (by intro _; rfl)]; exact hh
    have g1 : (k.unrefOnly rid).getR rid = { (k.getR rid) with refCount := decU8 (k.getR rid).refCount } :=
      getR_modRec_same _ _ _ (fun _ => rfl) hh
    have hne : ((k.unrefOnly rid).getR rid).refCount ≠ 0 := by
      rw [g1]; simp only [decU8]
      have : (k.getR rid).refCount ≠ 0 := by omega
      simp only [this, if_false]; omega
    unfold Key.unref
    simp only []
    have : (((k.unrefOnly rid).getR rid).refCount == 0) = false := by simpa using hne
    simp only [this, Bool.false_eq_true, if_false]
    exact ⟨h1, by rw [g1]; exact ⟨rfl, rfl, rfl, rfl, rfl, rfl⟩⟩
  · exact ⟨(hasRec_unref_other _ _ _ e).mpr hh, by rw [getR_unref_other _ _ _ e]; exact SameButCount.refl _⟩

theorem wheelRefs_of_same {r' r : Rec} (h : SameButCount r' r) : r'.wheelRefs = r.wheelRefs := by
  unfold Rec.wheelRefs; rw [h.tSched, h.eSched]

/-- … through `GetWaitLock` -/
theorem waitSkip_keep {ex : Nat → Int} (hex : ∀ y, 0 ≤ ex y) (l : List WEnt) (k : Key) (h : RCx k ex) (hl : k.wait = l) (rid : Nat)
    (hh : k.hasRec rid) (hw : 1 ≤ (k.getR rid).wheelRefs) :
    (waitSkip l k).1.hasRec rid ∧ SameButCount ((waitSkip l k).1.getR rid) (k.getR rid) := by
  induction l generalizing k with
  | nil => exact ⟨hh, SameButCount.refl _⟩
  | cons e rest ih =>
    unfold waitSkip
    split
    · have h1 : RCx { k with wait := rest, waitPopped := if k.waitPrio then k.waitPopped else k.waitPopped + 1 } (fun y => ex y + delta e.rid y) := by
        refine h.transfer rfl rfl (fun y => ?_)
        simp only [Key.qRefs, hl, List.map_cons, List.count_cons, delta]
        by_cases e' : y = e.rid
        · subst e'; simp; omega
        · have : (e.rid == y) = false := by simpa using (fun e'' : e.rid = y => e' e''.symm)
          simp [e', this]
      have hpos : 0 < (({ k with wait := rest, waitPopped := if k.waitPrio then k.waitPopped else k.waitPopped + 1 } : Key).qRefs e.rid : Int) +
          (ex e.rid + delta e.rid e.rid) := by have := hex e.rid; simp only [delta, if_true]; omega
      have h2 : RCx ({ k with wait := rest, waitPopped := if k.waitPrio then k.waitPopped else k.waitPopped + 1 }.unref e.rid) ex :=
        (h1.unref e.rid hpos).congr (fun y => by simp)
      obtain ⟨a1, a2⟩ := unref_keep h1 e.rid rid hpos hh hw
      obtain ⟨_, q2, _⟩ := unref_queues { k with wait := rest, waitPopped := if k.waitPrio then k.waitPopped else k.waitPopped + 1 } e.rid
      obtain ⟨b1, b2⟩ := ih _ h2 q2 a1 (by rw [wheelRefs_of_same a2]; exact hw)
      exact ⟨b1, b2.trans a2⟩
    · exact ⟨hh, SameButCount.refl _⟩

theorem settleWait_keep {k : Key} {ex : Nat → Int} (hex : ∀ y, 0 ≤ ex y) (h : RCx k ex) (rid : Nat) (hh : k.hasRec rid)
    (hw : 1 ≤ (k.getR rid).wheelRefs) : k.settleWait.hasRec rid ∧ SameButCount (k.settleWait.getR rid) (k.getR rid) := by
  have := waitSkip_keep hex _ k h rfl rid hh hw
  unfold Key.settleWait
  split
  · exact this
  · exact this

/-- … through the lazy popping of the holder queue -/
theorem locksSkip_keep {ex : Nat → Int} (hex : ∀ y, 0 ≤ ex y) (take : Bool) (l : List Nat) (k : Key) (h : RCx k ex) (hl : k.locks = l) (rid : Nat)
    (hh : k.hasRec rid) (hw : 1 ≤ (k.getR rid).wheelRefs) :
    (locksSkip take l k).1.hasRec rid ∧ SameButCount ((locksSkip take l k).1.getR rid) (k.getR rid) := by
  induction l generalizing k with
  | nil => exact ⟨hh, SameButCount.refl _⟩
  | cons x rest ih =>
    unfold locksSkip
    split
    · split
      · exact ⟨hh, SameButCount.refl _⟩
      · exact ⟨hh, SameButCount.refl _⟩
    · have h1 : RCx { k with locks := rest, locksPopped := k.locksPopped + 1 } (fun y => ex y + delta x y) := by
        refine h.transfer rfl rfl (fun y => ?_)
        simp only [Key.qRefs, hl, List.count_cons, delta]
        by_cases e : y = x
        · subst e; simp; omega
        · have : (x == y) = false := by simpa using (fun e' : x = y => e e'.symm)
          simp [e, this]
      have hpos : 0 < (({ k with locks := rest, locksPopped := k.locksPopped + 1 } : Key).qRefs x : Int) + (ex x + delta x x) := by
        have := hex x; simp only [delta, if_true]; omega
      have h2 : RCx ({ k with locks := rest, locksPopped := k.locksPopped + 1 }.unref x) ex := (h1.unref x hpos).congr (fun y => by simp)
      obtain ⟨a1, a2⟩ := unref_keep h1 x rid hpos hh hw
      obtain ⟨q1, _⟩ := unref_queues { k with locks := rest, locksPopped := k.locksPopped + 1 } x
      obtain ⟨b1, b2⟩ := ih _ h2 q1 a1 (by rw [wheelRefs_of_same a2]; exact hw)
      exact ⟨b1, b2.trans a2⟩

/-- … through `RemoveLock` -/
theorem removeLock_keep {k : Key} {ex : Nat → Int} (hex : ∀ y, 0 ≤ ex y) (h : RCx k ex) (rid y : Nat) (hh : k.hasRec y)
    (hw : 1 ≤ (k.getR y).wheelRefs) :
    (k.removeLock rid).hasRec y ∧ ((k.removeLock rid).getR y).eSched = (k.getR y).eSched ∧ ((k.removeLock rid).getR y).tSched = (k.getR y).tSched := by
  unfold Key.removeLock
  simp only []
  have h1 : RCx (k.modRec rid fun r => { r with depth := 0 }) ex := h.modRec_plain rid _ (fun _ => rfl) (fun _ => rfl) (fun _ => rfl)
  have hh1 : (k.modRec rid fun r => { r with depth := 0 }).hasRec y := by rw [hasRec_modRec _ _ _ _ (by intro _; rfl)]; exact hh
  have g1 : ((k.modRec rid fun r => { r with depth := 0 }).getR y).eSched = (k.getR y).eSched ∧
      ((k.modRec rid fun r => { r with depth := 0 }).getR y).tSched = (k.getR y).tSched := by
    by_cases e : y = rid
    · subst e; rw [getR_modRec_same _ _ _ (by intro _; rfl) hh]; exact ⟨rfl, rfl⟩
    · rw [getR_modRec_other _ _ _ _ (by intro _; rfl) e]; exact ⟨rfl, rfl⟩
  have hw1 : 1 ≤ ((k.modRec rid fun r => { r with depth := 0 }).getR y).wheelRefs := by
    unfold Rec.wheelRefs at hw ⊢; rw [g1.1, g1.2]; exact hw
  split
  · rename_i hc
    have hc' : k.current = some rid := by simpa [Key.modRec] using hc
    have hq : 0 < ((k.modRec rid fun r => { r with depth := 0 }).qRefs rid : Int) + ex rid := by
      have := hex rid; rw [qRefs_modRec]; simp only [Key.qRefs, hc', if_true]; omega
    have hhr := h1.dang rid hq
    have h2 := h1.unrefOnly rid hhr (by omega)
    have h3 : RCx { (k.modRec rid fun r => { r with depth := 0 }).unrefOnly rid with current := none } ex := by
      refine h2.transfer rfl rfl (fun z => ?_)
      simp only [Key.qRefs, Key.unrefOnly, Key.modRec, hc', delta]
      by_cases e : z = rid
      · subst e; simp; omega
      · have : ¬ (rid = z) := fun e' => e e'.symm
        simp [e, this]
    have hh3 : ({ (k.modRec rid fun r => { r with depth := 0 }).unrefOnly rid with current := none } : Key).hasRec y := by
      show ((k.modRec rid fun r => { r with depth := 0 }).unrefOnly rid).hasRec y
      unfold Key.unrefOnly; rw [hasRec_modRec _ _ _ _ (by intro _; rfl)]; exact hh1
    have g3 : (({ (k.modRec rid fun r => { r with depth := 0 }).unrefOnly rid with current := none } : Key).getR y).eSched =
        ((k.modRec rid fun r => { r with depth := 0 }).getR y).eSched ∧
        (({ (k.modRec rid fun r => { r with depth := 0 }).unrefOnly rid with current := none } : Key).getR y).tSched =
        ((k.modRec rid fun r => { r with depth := 0 }).getR y).tSched := by
      show (((k.modRec rid fun r => { r with depth := 0 }).unrefOnly rid).getR y).eSched = _ ∧
        (((k.modRec rid fun r => { r with depth := 0 }).unrefOnly rid).getR y).tSched = _
      unfold Key.unrefOnly
      by_cases e : y = rid
      · subst e; rw [getR_modRec_same _ _ _ (by intro _; rfl) hh1]; exact ⟨rfl, rfl⟩
      · rw [getR_modRec_other _ _ _ _ (by intro _; rfl) e]; exact ⟨rfl, rfl⟩
    have hw3 : 1 ≤ (({ (k.modRec rid fun r => { r with depth := 0 }).unrefOnly rid with current := none } : Key).getR y).wheelRefs := by
      unfold Rec.wheelRefs at hw1 ⊢; rw [g3.1, g3.2]; exact hw1
    obtain ⟨b1, b2⟩ := locksSkip_keep hex true _ _ h3 rfl y hh3 hw3
    refine ⟨b1, ?_, ?_⟩
    · show ((locksSkip true _ _).1.getR y).eSched = _
      rw [b2.eSched, g3.1, g1.1]
    · show ((locksSkip true _ _).1.getR y).tSched = _
      rw [b2.tSched, g3.2, g1.2]
  · obtain ⟨b1, b2⟩ := locksSkip_keep hex false _ _ h1 rfl y hh1 hw1
    exact ⟨b1, by rw [b2.eSched, g1.1], by rw [b2.tSched, g1.2]⟩

/-- a record edit that keeps a field keeps it for every lookup -/
theorem getR_modRec_proj {α : Type} (π : Rec → α) (k : Key) (rid y : Nat) (f : Rec → Rec) (hf : ∀ r, (f r).rid = r.rid)
    (hp : ∀ r, π (f r) = π r) : π ((k.modRec rid f).getR y) = π (k.getR y) := by
  by_cases e : y = rid
  · subst e
    unfold Key.getR Key.modRec
    simp only []
    rw [find_map_mod _ _ _ (fun r e => by rw [hf, e])]
    cases k.recs.find? (·.rid == y) with
    | none => rfl
    | some r => exact hp r
  · rw [getR_modRec_other _ _ _ _ hf e]

theorem aofLockData_eSched (k : Key) (b : Bool) (rid y : Nat) : ((aofLockData k b rid).1.getR y).eSched = (k.getR y).eSched := by
  unfold aofLockData
  split
  · exact getR_modRec_proj (·.eSched) k rid y _ (fun _ => rfl) (fun _ => rfl)
  · split
    · split <;> rfl
    · rfl

theorem pushUnLockAof_eSched (w : W) (rid : Nat) (lc : Cmd) (fa ia : Bool) (flag : Nat) (y : Nat) :
    ((w.pushUnLockAof rid lc fa ia flag).k.getR y).eSched = (w.k.getR y).eSched := by
  unfold W.pushUnLockAof
  split
  · rfl
  · split
    · exact getR_modRec_proj (·.eSched) w.k rid y _ (fun _ => rfl) (fun _ => rfl)
    · exact (getR_modRec_proj (·.eSched) (aofLockData w.k false rid).1 rid y _ (by intro _; rfl) (by intro _; rfl)).trans
        (aofLockData_eSched _ _ _ _)

end Slock.Engine2
