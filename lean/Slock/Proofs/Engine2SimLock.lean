import Slock.Proofs.Engine2SimRel
/-! Simulation stage 2 → stage 1: LOCK, the branches that grant (`grant`, `grantNoHold`), each ending in the wake pass. -/
namespace Slock.Sim
open Slock Slock.Engine2
open Slock.Engine (has)

/-- same queues, same stage-1 view of every record outside `X`, no queue refers to a record in `X` ⇒ same stage-1 view of the key -/
theorem abs_eq_x {X : Nat → Prop} {k' k : Key} (h1 : k'.key = k.key) (h2 : k'.locked = k.locked) (h3 : k'.waited = k.waited)
    (q : k'.queues = k.queues) (p : PKeepX πA X k' k)
    (hx : ∀ y ∈ k.current.toList ++ k.locks ++ k.wait.map (·.rid), ¬ X y)
    (hd : ∀ y ∈ k.current.toList ++ k.locks ++ k.wait.map (·.rid), k'.hasRec y) : Key.abs k' = Key.abs k := by
  obtain ⟨q1, q2, q3⟩ := queues_eq q
  apply abs_ext h1 h2
  · exact abs_holders_congr q1 q2 p (fun y hy => hx y (List.mem_append_left _ hy)) (fun y hy => hd y (List.mem_append_left _ hy))
  · exact abs_waiters_congr q3 p (fun y hy => hx y (List.mem_append_right _ hy)) (fun y hy => hd y (List.mem_append_right _ hy))
  · exact h3

theorem qRefs_pos_of_any (k : Key) (y : Nat) (hy : y ∈ k.current.toList ++ k.locks ++ k.wait.map (·.rid)) : 0 < k.qRefs y := by
  rcases List.mem_append.mp hy with h | h
  · exact qRefs_pos_of_holder k y h
  · exact qRefs_pos_of_wait_mem k y h

/-- the new lock record is invisible until it is filed -/
theorem abs_newLock (w : W) (l : Lv w zero) (c : Engine.Cmd) (d : Option Bytes) : Key.abs (w.newLock c d).1.k = Key.abs w.k := by
  obtain ⟨ln, hn, _, hq0, _, _⟩ := l.newLock zero_nonneg c d
  have hq : (w.newLock c d).1.k.queues = w.k.queues := rfl
  refine abs_eq_x (X := (· = w.db.nextRid)) rfl rfl rfl hq (PKeepX.addRec w.k _ rfl) ?_ ?_
  · intro y hy e
    have := qRefs_pos_of_any w.k y hy
    have h0 : (w.newLock c d).1.k.qRefs w.db.nextRid = w.k.qRefs w.db.nextRid := qRefs_of_queues hq _
    rw [e] at this; omega
  · intro y hy
    apply ln.rc.dang
    have := qRefs_pos_of_any w.k y hy
    have h0 : (w.newLock c d).1.k.qRefs y = w.k.qRefs y := qRefs_of_queues hq _
    show 0 < ((w.newLock c d).1.k.qRefs y : Int) + 0
    omega

/-- the common end of a LOCK branch: store the key record / the stage-1 key -/
theorem sim_lock_finish (s : DB) (hq : DBQ s) (c : Engine.Cmd) (data : Option Bytes) (b : LockBranch) (a1 : Engine.DB) (k' : Engine.Key)
    (hkeys : a1.keys = (Engine2.abs s).keys) (hk' : k'.key = c.key) (hsc : Scal a1 (applyLock s c data b).db)
    (hloc : Loc (applyLock s c data b) k') (hcls : classifyLock s c data = b) :
    Equiv (Engine2.abs (applyLock s c data b).commit) (a1.setKey k') := by
  have hdbi := hq.dbt.dbi
  have hkn' := (opLock_dbi s hdbi c data).kn
  unfold opLock at hkn'
  simp only [] at hkn'
  rw [hcls] at hkn'
  have f := applyLock_fr s c data b
  have hs := (DBside.lockBase hdbi c b).of_fr f
  refine sim_commit s c.key _ _ f (lockBase_key s c b) (lockBase_other s c b) hs hdbi.kn hkn' a1 k' hk' ?_ hsc.now hsc.tCheck hsc.eCheck
    hsc.seq hsc.leader hsc.ctr hloc
  intro n
  unfold Engine.DB.getKey
  rw [hkeys]

theorem scal_enter (s : DB) (n : Nat) : Scal (Engine2.abs s) (s.enter n).db := by
  obtain ⟨e1, e2, e3, e4, e5, e6⟩ := enter_fields s n
  exact ⟨e1.symm, e3.symm, e4.symm, e5.symm, e2.symm, e6.symm⟩

def keyG (k : Engine.Key) (h : Engine.Hold) : Engine.Key := { k with holders := k.holders ++ [h], locked := k.locked + 1 }
def dbG (a : Engine.DB) : Engine.DB := { a with seq := a.seq + 1, ctr := ctrG a.ctr }
theorem grantHold_eq' (a : Engine.DB) (k : Engine.Key) (c : Engine.Cmd) : Engine.grantHold a k c = (dbG a, keyG k (hold1 a c)) := rfl

theorem keyInv_grant (k : Engine.Key) (hk : Engine.KeyInv k) (h : Engine.Hold) (hd : h.depth = 1) :
    Engine.KeyInv (keyG k h) := by
  constructor
  · show k.locked + 1 = Engine.depthSum (k.holders ++ [h])
    rw [hk.sum]
    have : ∀ l : List Engine.Hold, Engine.depthSum (l ++ [h]) = Engine.depthSum l + 1 := by
      intro l
      induction l with
      | nil => simp [Engine.depthSum, hd]
      | cons x xs ih => rw [List.cons_append, Engine.depthSum_cons, Engine.depthSum_cons, ih]; omega
    exact (this _).symm
  · intro x hx
    rcases List.mem_append.mp hx with h1 | h1
    · exact hk.pos x h1
    · simp at h1; rw [h1, hd]; exact Nat.le_refl 1

/-- **LOCK, direct grant** (`AddLock` … reply, then the wake pass if the key was waited) -/
theorem sim_lock_grant (s : DB) (hq : DBQ s) (c : Engine.Cmd) (data : Option Bytes) (hcls : classifyLock s c data = .grant)
    (hwq : WQ (s.getKey c.key)) (hki : Engine.KeyInv (Key.abs (s.getKey c.key))) :
    Equiv (Engine2.abs (applyLock s c data .grant).commit) (Engine.applyLock (Engine2.abs s) c .grant).1 ∧
    (applyLock s c data .grant).out.map (·.r) = (Engine.applyLock (Engine2.abs s) c .grant).2 := by
  have hdbi := hq.dbt.dbi
  have ht := hq.dbt.tight
  have hkabs := abs_getKey s hdbi.kn c.key
  have ge := Good.enter hdbi ht c.key
  have le := ge.lv
  have ce := cur_enter ht c.key
  have hsc0 := scal_enter s c.key
  obtain ⟨ln, hn, _, hq0, _, hg⟩ := le.newLock zero_nonneg c data
  have g := newRec_grantable (s.enter c.key) c data hn hg
  have n0 : Nz ((s.enter c.key).newLock c data).1 (some (s.enter c.key).db.nextRid) := ⟨⟨ln.rc.nodup⟩, nz_addRec ge.nz.nz _⟩
  obtain ⟨l1, hh1⟩ := ln.grant zero_nonneg _ g
  have g1 : Good (((s.enter c.key).newLock c data).1.grant (s.enter c.key).db.nextRid) := ⟨l1, n0.grant _ hn⟩
  have cn0 : CurLive ((s.enter c.key).newLock c data).1.k := ce.addRec _ (hasRec_current le)
  have cl1 := cur_grant cn0 ln _ g
  have habs0 : Key.abs ((s.enter c.key).newLock c data).1.k = Key.abs (s.getKey c.key) := by
    rw [abs_newLock _ le, enter_k]
  have cnn : CurNone ((s.enter c.key).newLock c data).1.k := by
    have := (qi_getKey hq.qi c.key).cn
    rw [← enter_k] at this
    exact this.of_cl rfl rfl
  have hnot : (s.enter c.key).db.nextRid ∉ ((s.enter c.key).newLock c data).1.k.current.toList ++ ((s.enter c.key).newLock c data).1.k.locks := by
    intro hm
    have := qRefs_pos_of_holder _ _ hm
    omega
  have hga := grant_abs _ ln cnn _ g hnot
  obtain ⟨_, hhold, hto⟩ := grant_rec ((s.enter c.key).newLock c data).1 (s.enter c.key).db.nextRid hn
  obtain ⟨s1, s2, s3, s4, s5, s6⟩ := grant_scal ((s.enter c.key).newLock c data).1 (s.enter c.key).db.nextRid
  obtain ⟨w1, _, w3⟩ := grant_wait_t ((s.enter c.key).newLock c data).1 (s.enter c.key).db.nextRid
  -- the hold
  have hhold' : ((((s.enter c.key).newLock c data).1.grant (s.enter c.key).db.nextRid).k.getR (s.enter c.key).db.nextRid).toHold = hold1 (Engine2.abs s) c := by
    rw [hhold, hg]
    show _ = hold1 (Engine2.abs s) c
    unfold hold1
    simp only []
    have e1 : ((s.enter c.key).newLock c data).1.db.seq = (Engine2.abs s).seq := hsc0.seq.symm
    have e2 : ((s.enter c.key).newLock c data).1.db.now = (Engine2.abs s).now := hsc0.now.symm
    have e3 : ((s.enter c.key).newLock c data).1.db.eCheck = (Engine2.abs s).eCheck := hsc0.eCheck.symm
    rw [e1, e2, e3]
    rfl
  -- stage 1
  have hst : Engine.grantHold (Engine2.abs s) ((Engine2.abs s).getKey c.key) c =
      (dbG (Engine2.abs s), keyG (Key.abs (s.getKey c.key)) (hold1 (Engine2.abs s) c)) := by
    rw [grantHold_eq', hkabs]
  have habs1 : Key.abs (((s.enter c.key).newLock c data).1.grant (s.enter c.key).db.nextRid).k =
      keyG (Key.abs (s.getKey c.key)) (hold1 (Engine2.abs s) c) := by
    rw [hga, hhold', habs0]
    have : ((s.enter c.key).newLock c data).1.k.locked = (Key.abs (s.getKey c.key)).locked := by
      show (s.enter c.key).k.locked = _; rw [enter_k]; rfl
    rw [this]
    rfl
  have hsc1 : Scal (dbG (Engine2.abs s)) (((s.enter c.key).newLock c data).1.grant (s.enter c.key).db.nextRid).db := by
    refine ⟨?_, ?_, ?_, ?_, ?_, ?_⟩
    · show (Engine2.abs s).now = _; rw [s4]; exact hsc0.now
    · show (Engine2.abs s).tCheck = _; rw [s3]; exact hsc0.tCheck
    · show (Engine2.abs s).eCheck = _; rw [s2]; exact hsc0.eCheck
    · show (Engine2.abs s).seq + 1 = _; rw [s1]; show _ = (s.enter c.key).db.seq + 1; rw [← hsc0.seq]
    · show (Engine2.abs s).leader = _; rw [s5]; exact hsc0.leader
    · show ctrG (Engine2.abs s).ctr = _; rw [s6]; show _ = ctrG (s.enter c.key).db.ctr; rw [← hsc0.ctr]
  have hout1 : (((s.enter c.key).newLock c data).1.grant (s.enter c.key).db.nextRid).out.map (·.r) =
      [Engine.mkReply c Engine.RESULT_SUCCED ((Key.abs (s.getKey c.key)).locked + 1) 1] := by
    rw [grant_out_r _ _ hn, hg]
    show (s.enter c.key).out.map (·.r) ++ _ = _
    rw [enter_out]
    show [Engine.mkReply { c with conn := c.conn } Engine.RESULT_SUCCED ((s.enter c.key).k.locked + 1) 1] = _
    rw [enter_k]
    rfl
  have hgone1 : (((s.enter c.key).newLock c data).1.grant (s.enter c.key).db.nextRid).gone = false := by
    rw [gone_grant]
    exact enter_gone s c.key
  have hwaited : (s.enter c.key).k.waited = (Key.abs (s.getKey c.key)).waited := by rw [enter_k]; rfl
  have hk1key : (keyG (Key.abs (s.getKey c.key)) (hold1 (Engine2.abs s) c)).key = c.key := getKey_key _ _
  have hki1 : Engine.KeyInv (Key.abs (((s.enter c.key).newLock c data).1.grant (s.enter c.key).db.nextRid).k) := by
    rw [habs1]; exact keyInv_grant _ hki _ rfl
  have ha1keys : (dbG (Engine2.abs s)).keys = (Engine2.abs s).keys := rfl
  have hk1l : (keyG (Key.abs (s.getKey c.key)) (hold1 (Engine2.abs s) c)).locked = (Key.abs (s.getKey c.key)).locked + 1 := rfl
  generalize keyG (Key.abs (s.getKey c.key)) (hold1 (Engine2.abs s) c) = k1 at hst habs1 hk1key hk1l
  generalize dbG (Engine2.abs s) = a1 at hst hsc1 ha1keys
  rw [← hk1l] at hout1
  unfold Engine.applyLock
  simp only []
  rw [hst]
  simp only []
  rw [hkabs]
  show Equiv (Engine2.abs ((((s.enter c.key).newLock c data).1.grant ((s.enter c.key).newLock c data).2).when (s.enter c.key).k.waited (·.wake)).commit) _ ∧
    ((((s.enter c.key).newLock c data).1.grant ((s.enter c.key).newLock c data).2).when (s.enter c.key).k.waited (·.wake)).out.map (·.r) = _
  have hn2 : ((s.enter c.key).newLock c data).2 = (s.enter c.key).db.nextRid := rfl
  rw [hn2, hwaited]
  have hfin := fun a1 k' hkeys hk' hsc hloc => sim_lock_finish s hq c data .grant a1 k' hkeys hk' hsc hloc hcls
  have hap : applyLock s c data .grant =
      (((s.enter c.key).newLock c data).1.grant (s.enter c.key).db.nextRid).when (Key.abs (s.getKey c.key)).waited (·.wake) := by
    show (((s.enter c.key).newLock c data).1.grant ((s.enter c.key).newLock c data).2).when (s.enter c.key).k.waited (·.wake) = _
    rw [hn2, hwaited]
  rw [hap] at hfin
  cases hwd : (Key.abs (s.getKey c.key)).waited with
  | false =>
    rw [hwd] at hfin
    simp only [W.when, Bool.false_eq_true, if_false] at hfin ⊢
    refine ⟨hfin _ _ ha1keys hk1key hsc1 ⟨fun _ => habs1, fun h => by rw [hgone1] at h; exact absurd h (by simp)⟩, hout1⟩
  | true =>
    rw [hwd] at hfin
    simp only [W.when, if_true] at hfin ⊢
    have hwq1 : WQ (((s.enter c.key).newLock c data).1.grant (s.enter c.key).db.nextRid).k := by
      refine WQ.step (k := (s.enter c.key).k) (by rw [enter_k]; exact hwq) (s.enter c.key).db.nextRid w1
        ((grant_others _ _).trans (PKeepX.addRec _ _ rfl)) (wait_hasRec l1) (fun _ _ _ => ?_) (fun y hy => grant_sub ((s.enter c.key).newLock c data).1 _ y hy)
      show ((((s.enter c.key).newLock c data).1.grant (s.enter c.key).db.nextRid).k.getR (s.enter c.key).db.nextRid).timeouted = true
      rw [hto]; exact g.tomb
    obtain ⟨r1, r2, r3⟩ := sim_wake _ g1 cl1 hgone1 (fun h => absurd h w3) hwq1 _ hsc1 hki1 _ hout1
    rw [habs1] at r1 r2 r3
    refine ⟨hfin _ _ (by rw [Engine.wake_keys]; exact ha1keys) (by rw [Engine.wake_key]; exact hk1key) r1 r2, r3⟩

/-- **LOCK, grant without a hold** (Expried = 0: the lock record is freed at once; then the wake pass if the key was waited) -/
theorem sim_lock_grantNoHold (s : DB) (hq : DBQ s) (c : Engine.Cmd) (data : Option Bytes) (hcls : classifyLock s c data = .grantNoHold)
    (hwq : WQ (s.getKey c.key)) (hki : Engine.KeyInv (Key.abs (s.getKey c.key)))
    (hfl : (Key.abs (s.getKey c.key)).waited = true → (Key.abs (s.getKey c.key)).waiters ≠ []) :
    Equiv (Engine2.abs (applyLock s c data .grantNoHold).commit) (Engine.applyLock (Engine2.abs s) c .grantNoHold).1 ∧
    (applyLock s c data .grantNoHold).out.map (·.r) = (Engine.applyLock (Engine2.abs s) c .grantNoHold).2 := by
  have hdbi := hq.dbt.dbi
  have ht := hq.dbt.tight
  have hkabs := abs_getKey s hdbi.kn c.key
  have ge := Good.enter hdbi ht c.key
  have le := ge.lv
  have ce := cur_enter ht c.key
  have hsc0 := scal_enter s c.key
  obtain ⟨ln, hn, _, hq0, _, hg⟩ := le.newLock zero_nonneg c data
  have n0 : Nz ((s.enter c.key).newLock c data).1 (some (s.enter c.key).db.nextRid) := ⟨⟨ln.rc.nodup⟩, nz_addRec ge.nz.nz _⟩
  have l1 := ln.grantNoHold (s.enter c.key).db.nextRid
  have n1 := n0.of_up (up_grantNoHold ((s.enter c.key).newLock c data).1 (s.enter c.key).db.nextRid)
  have cn0 : CurLive ((s.enter c.key).newLock c data).1.k := ce.addRec _ (hasRec_current le)
  have cl1 := cn0.of_dk (dk_grantNoHold _ _) l1
  have hz : ((((s.enter c.key).newLock c data).1.grantNoHold (s.enter c.key).db.nextRid).k.qRefs (s.enter c.key).db.nextRid : Int) +
      zero (s.enter c.key).db.nextRid ≤ 0 := by
    rw [qRefs_of_queues (queues_grantNoHold _ _), hq0]; simp [zero]
  have l2 : Lv ((((s.enter c.key).newLock c data).1.grantNoHold (s.enter c.key).db.nextRid).modK (·.free (s.enter c.key).db.nextRid)) zero :=
    l1.modK _ (l1.rc.free _ hz) (RecsLe.free _ _)
  have n2 : Nz ((((s.enter c.key).newLock c data).1.grantNoHold (s.enter c.key).db.nextRid).modK (·.free (s.enter c.key).db.nextRid)) none :=
    ⟨n1.nd.free _, NZx.free_clear _ n1.nz⟩
  have cl2 : CurLive ((((s.enter c.key).newLock c data).1.grantNoHold (s.enter c.key).db.nextRid).modK (·.free (s.enter c.key).db.nextRid)).k :=
    cl1.of_dk (dk_modK _ _ (DepthKeep.free _ _)) l2
  have sx : SX (· = (s.enter c.key).db.nextRid) ((s.enter c.key).newLock c data).1
      ((((s.enter c.key).newLock c data).1.grantNoHold (s.enter c.key).db.nextRid).modK (·.free (s.enter c.key).db.nextRid)) :=
    ((SX.refl (X := (· = (s.enter c.key).db.nextRid)) ((s.enter c.key).newLock c data).1).grantNoHold _).free _
  have hfresh : ∀ y ∈ (s.enter c.key).k.current.toList ++ (s.enter c.key).k.locks ++ (s.enter c.key).k.wait.map (·.rid), ¬ y = (s.enter c.key).db.nextRid := by
    intro y hy e
    have := qRefs_pos_of_any _ y hy
    have h0 : ((s.enter c.key).newLock c data).1.k.qRefs (s.enter c.key).db.nextRid = (s.enter c.key).k.qRefs (s.enter c.key).db.nextRid :=
      qRefs_of_queues rfl _
    rw [e] at this; omega
  have hqq : ((((s.enter c.key).newLock c data).1.grantNoHold (s.enter c.key).db.nextRid).modK (·.free (s.enter c.key).db.nextRid)).k.queues =
      (s.enter c.key).k.queues := sx.q
  have habs2 : Key.abs ((((s.enter c.key).newLock c data).1.grantNoHold (s.enter c.key).db.nextRid).modK (·.free (s.enter c.key).db.nextRid)).k =
      Key.abs (s.getKey c.key) := by
    rw [← enter_k]
    refine abs_eq_x (X := (· = (s.enter c.key).db.nextRid)) sx.key ?_ sx.waited hqq (sx.p.trans (PKeepX.addRec _ _ rfl)) hfresh ?_
    · show (Key.free _ _).locked = _
      rw [free_locked, grantNoHold_locked]; rfl
    · intro y hy
      apply l2.rc.dang
      have := qRefs_pos_of_any _ y hy
      have h0 := qRefs_of_queues hqq y
      show 0 < (((((s.enter c.key).newLock c data).1.grantNoHold (s.enter c.key).db.nextRid).modK (·.free (s.enter c.key).db.nextRid)).k.qRefs y : Int) + 0
      omega
  have hgone2 : ((((s.enter c.key).newLock c data).1.grantNoHold (s.enter c.key).db.nextRid).modK (·.free (s.enter c.key).db.nextRid)).gone = false := by
    show (((s.enter c.key).newLock c data).1.grantNoHold (s.enter c.key).db.nextRid).gone = false
    rw [gone_grantNoHold]; exact enter_gone s c.key
  have hsc2 : Scal (Engine2.abs s) ((((s.enter c.key).newLock c data).1.grantNoHold (s.enter c.key).db.nextRid).modK (·.free (s.enter c.key).db.nextRid)).db := by
    obtain ⟨d1, d2, d3, d4, d5, d6⟩ := grantNoHold_db ((s.enter c.key).newLock c data).1 (s.enter c.key).db.nextRid
    exact ⟨hsc0.now.trans d4.symm, hsc0.tCheck.trans d3.symm, hsc0.eCheck.trans d2.symm, hsc0.seq.trans d1.symm, hsc0.leader.trans d6.symm,
      hsc0.ctr.trans d5.symm⟩
  have hout2 : ((((s.enter c.key).newLock c data).1.grantNoHold (s.enter c.key).db.nextRid).modK (·.free (s.enter c.key).db.nextRid)).out.map (·.r) = [] := by
    show (((s.enter c.key).newLock c data).1.grantNoHold (s.enter c.key).db.nextRid).out.map (·.r) = []
    rw [grantNoHold_qt_out]
    show (s.enter c.key).out.map (·.r) = []
    rw [enter_out]; rfl
  obtain ⟨qq1, qq2, qq3⟩ := queues_eq hqq
  have cnn : CurNone ((((s.enter c.key).newLock c data).1.grantNoHold (s.enter c.key).db.nextRid).modK (·.free (s.enter c.key).db.nextRid)).k := by
    have := (qi_getKey hq.qi c.key).cn
    rw [← enter_k] at this
    exact this.of_cl qq1 qq2
  have hwq2 : WQ ((((s.enter c.key).newLock c data).1.grantNoHold (s.enter c.key).db.nextRid).modK (·.free (s.enter c.key).db.nextRid)).k := by
    refine WQ.step (k := (s.enter c.key).k) (by rw [enter_k]; exact hwq) (s.enter c.key).db.nextRid qq3
      (sx.p.trans (PKeepX.addRec _ _ rfl)) (wait_hasRec l2) (fun _ _ _ => ?_) (fun y hy => Or.inl (by rw [← qq1, ← qq2]; exact hy))
    show ((Key.free _ _).getR _).timeouted = true
    rw [getR_free_self]; rfl
  have rel2 : Rel ((((s.enter c.key).newLock c data).1.grantNoHold (s.enter c.key).db.nextRid).modK (·.free (s.enter c.key).db.nextRid))
      (Engine2.abs s) (Key.abs (s.getKey c.key)) [] :=
    Rel.of_live hgone2 hsc2 hout2 hki ⟨⟨l2, n2⟩, cl2, cnn, hwq2, habs2⟩
  have rel3 := ((rel2.removeIfZero hfl).ctr (fun x => { x with lockCount := x.lockCount + 1 })).reply c Engine.RESULT_SUCCED 0 (s.enter c.key).lockData
  have hfin := fun a1 k' hkeys hk' hsc hloc => sim_lock_finish s hq c data .grantNoHold a1 k' hkeys hk' hsc hloc hcls
  have hwaited : (s.enter c.key).k.waited = (Key.abs (s.getKey c.key)).waited := by rw [enter_k]; rfl
  have hap : applyLock s c data .grantNoHold =
      ((((((s.enter c.key).newLock c data).1.grantNoHold (s.enter c.key).db.nextRid).modK (·.free (s.enter c.key).db.nextRid)).removeIfZero.ctr
        (fun x => { x with lockCount := x.lockCount + 1 })).reply c Engine.RESULT_SUCCED 0 (s.enter c.key).lockData).when
        (Key.abs (s.getKey c.key)).waited (·.wake) := by
    rw [← hwaited]; rfl
  rw [hap] at hfin ⊢
  unfold Engine.applyLock
  simp only []
  rw [hkabs]
  cases hwd : (Key.abs (s.getKey c.key)).waited with
  | false =>
    rw [hwd] at hfin
    simp only [W.when, Bool.false_eq_true, if_false] at hfin ⊢
    exact ⟨hfin _ _ rfl (getKey_key _ _) rel3.sc rel3.loc, rel3.out⟩
  | true =>
    rw [hwd] at hfin
    simp only [W.when, if_true] at hfin ⊢
    obtain ⟨r1, r2, r3⟩ := rel3.wake
    exact ⟨hfin _ _ (by rw [Engine.wake_keys]) (by rw [Engine.wake_key]; exact getKey_key _ _) r1 r2, r3⟩

end Slock.Sim
