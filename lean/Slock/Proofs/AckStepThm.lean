import Slock.Proofs.AckThm
/-! M-ACK: what single steps do (answers while a hold is ack-pending, the failure exits, single shot). -/
namespace Slock.Ack

/-! ### while pending: LOCK / UNLOCK for that LockId -/

theorem lock_ack_waiting (db : DB) (c : Cmd) (h : Rec) (hl : db.leader = true) (hk : (db.getKey c.key).locked > 0)
    (hf : findHolder db c.key c.lockId = some h) (hp : h.pending = true) :
    opLock db c = (db, [mkReply c R_ACK_WAITING (db.getKey c.key).locked (db.getR h.hid).depth (db.curData c.key)]) := by
  unfold opLock classifyLock
  simp only [hl, Bool.not_true, Bool.false_eq_true, if_false, hk, if_true, hf, hp]
  rfl

theorem unlock_ack_waiting (db : DB) (c : Cmd) (h : Rec) (hl : db.leader = true) (hk : (db.getKey c.key).locked > 0)
    (hf : findHolder db c.key c.lockId = some h) (hp : h.pending = true) :
    opUnlock db c = (db.bumpErr, [mkReply c R_ACK_WAITING (db.getKey c.key).locked (db.getR h.hid).depth (db.curData c.key)]) := by
  unfold opUnlock classifyUnlock
  have : ((db.getKey c.key).locked == 0) = false := by simp; omega
  simp only [hl, Bool.not_true, Bool.false_eq_true, if_false, this, hf, hp, if_true]
  rfl

/-- the unlock-first path (no hold under the command's LockId, flag 0x01): `currentLock` is tested the same way -/
theorem unlock_first_ack_waiting (db : DB) (c : Cmd) (h : Rec) (hl : db.leader = true) (hk : (db.getKey c.key).locked > 0)
    (hf : findHolder db c.key c.lockId = none) (hu : has c.flag UF_FIRST = true) (hh : (db.holders c.key).head? = some h) (hp : h.pending = true) :
    opUnlock db c = (db.bumpErr, [mkReply c R_ACK_WAITING (db.getKey c.key).locked (db.getR h.hid).depth (db.curData c.key)]) := by
  unfold opUnlock classifyUnlock
  have : ((db.getKey c.key).locked == 0) = false := by simp; omega
  simp only [hl, Bool.not_true, Bool.false_eq_true, if_false, this, hf, hu, hh, hp, if_true]
  rfl

/-- the one thing `bumpErr` changes is the UnlockErrorCount statistic -/
theorem bumpErr_same (db : DB) : db.bumpErr.keys = db.keys ∧ db.bumpErr.recs = db.recs ∧ db.bumpErr.tab = db.tab ∧ db.bumpErr.journal = db.journal := ⟨rfl, rfl, rfl, rfl⟩

/-! ### single shot -/

/-- `DoAckLock` on a record that is not pending (already settled: acknowledged, failed, timed out, unlocked) does nothing but drop its
timeout-wheel reference: no reply, no change of hold, counter, value. -/
theorem ackDone_settled (db : DB) (hid : Nat) (ok : Bool) (hp : (db.getR hid).pending = false) :
    ackDone db hid ok = (db.modR hid (fun r => { r with timeouted := true }), []) := by
  unfold ackDone classifyAck
  simp [hp, applyAck]

/-! ### the failure exits -/

/-- the state right after the hold was taken back, before the wake pass -/
def failed (db : DB) (hid : Nat) : DB := (db.modR hid (fun r => { r with timeouted := true })).rollback hid

theorem ackDone_fail (db : DB) (hid : Nat) (hp : (db.getR hid).pending = true) (he : (db.getR hid).expried = true) (hd : (db.getR hid).depth > 0) :
    ackDone db hid false = (failed db hid).wake (db.getR hid).cmd.key
      [mkReply (db.getR hid).cmd R_ERROR ((failed db hid).getKey (db.getR hid).cmd.key).locked 0 ((failed db hid).curData (db.getR hid).cmd.key)] := by
  have hpr := present_of (Or.inl hp)
  have hg : (db.modR hid (fun r => { r with timeouted := true })).getR hid = ({ (db.getR hid) with timeouted := true } : Rec) := by
    rw [getR_modR db hid _ (by intro _; rfl)]; simp [hpr]
  unfold ackDone classifyAck
  have : ((db.getR hid).depth == 0) = false := by simp; omega
  simp only [hp, he, this, Bool.not_true, Bool.false_eq_true, if_false, Bool.or_self]
  unfold applyAck
  simp only [hg]
  rfl

theorem fireTimeout_pending (db : DB) (hid : Nat) (hd : (db.getR hid).depth > 0) :
    fireTimeout db hid = ((failed db hid).ctrMod (fun x => { x with timeoutedCount := x.timeoutedCount + 1 })).wake (db.getR hid).cmd.key
      [mkReply (db.getR hid).cmd R_TIMEOUT ((failed db hid).getKey (db.getR hid).cmd.key).locked 0 ((failed db hid).curData (db.getR hid).cmd.key)] := by
  unfold fireTimeout
  simp only [hd, if_true]
  rfl

/-- effects of taking the hold back: depth off the key's count, record no longer a hold nor pending -/
theorem find_map_key (k : Key) (d : Key) : ∀ ks : List Key, (ks.any (·.key == k.key)) = true →
    ((ks.map (fun x => if x.key == k.key then k else x)).find? (·.key == k.key)).getD d = k := by
  intro ks
  induction ks with
  | nil => intro h; simp at h
  | cons x xs ih =>
    intro h
    by_cases e : (x.key == k.key) = true
    · simp only [List.map_cons, e, if_true, List.find?]
      have : (k.key == k.key) = true := by simp
      simp [this]
    · have e' : (x.key == k.key) = false := by simpa using e
      simp only [List.map_cons, e', Bool.false_eq_true, if_false, List.find?]
      simp only [List.any_cons, e', Bool.false_or] at h
      exact ih h

theorem getKey_setKey_same (db : DB) (k : Key) : (db.setKey k).getKey k.key = k := by
  unfold DB.setKey DB.getKey
  split
  · rename_i h
    exact find_map_key k _ db.keys h
  · rename_i h
    simp only [List.find?_append]
    have : List.find? (fun x => x.key == k.key) db.keys = none := by
      rw [List.find?_eq_none]; intro x hx hxe; apply h; exact List.any_eq_true.mpr ⟨x, hx, hxe⟩
    rw [this]; simp [List.find?]

theorem getKey_modKey_same (db : DB) (k : Nat) (f : Key → Key) (hf : ∀ x, (f x).key = x.key) : (db.modKey k f).getKey k = f (db.getKey k) := by
  unfold DB.modKey
  have hk : (db.getKey k).key = k := by
    unfold DB.getKey
    cases e : db.keys.find? (·.key == k) with
    | none => rfl
    | some x => have := List.find?_some e; simpa using this
  have := getKey_setKey_same db (f (db.getKey k))
  rw [hf, hk] at this; exact this

@[simp] theorem getKey_modR (db : DB) (h : Nat) (f : Rec → Rec) (k : Nat) : (db.modR h f).getKey k = db.getKey k := rfl
@[simp] theorem getKey_ctrMod (db : DB) (f : Counters → Counters) (k : Nat) : (db.ctrMod f).getKey k = db.getKey k := rfl
theorem pushJ_keys (db : DB) (r : Rec) (b : Bool) : (db.pushJ r b).1.keys = db.keys := by unfold DB.pushJ; split; rfl; split <;> rfl
theorem getKey_frame {db db' : DB} (e : db'.keys = db.keys) (k : Nat) : db'.getKey k = db.getKey k := by unfold DB.getKey; rw [e]
@[simp] theorem getKey_journalUnlock (db : DB) (h : Nat) (b : Bool) (k : Nat) : (db.journalUnlock h b).getKey k = db.getKey k := by
  apply getKey_frame
  unfold DB.journalUnlock; split
  · simp only []; split <;> simp [pushJ_keys]
  · rfl
@[simp] theorem getKey_removeLock (db : DB) (h : Nat) (k : Nat) : (db.removeLock h).getKey k = db.getKey k := rfl

theorem getR_removeLock_self (db : DB) (hid : Nat) : ((db.removeLock hid).getR hid).depth = 0 ∧ ((db.removeLock hid).getR hid).pending = false := by
  unfold DB.removeLock
  rw [getR_modR _ hid _ (by intro _; rfl)]
  simp only [if_true]
  cases e : findR db.recs hid with
  | some r => simp [Rec.pending]
  | none => simp; rw [getR_eq, e]; exact ⟨rfl, rfl⟩

/-- **hold removed, depth given back, value undone.** -/
theorem failed_spec (db : DB) (hid : Nat) (hp : (db.getR hid).pending = true) :
    let r := db.getR hid
    let k := (failed db hid).getKey r.cmd.key
    k.locked = (db.getKey r.cmd.key).locked - r.depth ∧
    k.cell = (match (if has r.cmd.flag F_DATA then r.undo else none) with
              | some u => undoCell (db.getKey r.cmd.key).cell u
              | none => (db.getKey r.cmd.key).cell) ∧
    ((failed db hid).getR hid).depth = 0 ∧ ((failed db hid).getR hid).pending = false := by
  have hpr := present_of (Or.inl hp)
  have hg : (db.modR hid (fun r => { r with timeouted := true })).getR hid = ({ (db.getR hid) with timeouted := true } : Rec) := by
    rw [getR_modR db hid _ (by intro _; rfl)]; simp [hpr]
  simp only []
  unfold failed DB.rollback
  simp only [hg]
  have hp' : ({ (db.getR hid) with timeouted := true } : Rec).pending = true := hp
  simp only [hp', Bool.and_true]
  refine ⟨?_, ?_, ?_, ?_⟩
  · simp only [getKey_ctrMod, getKey_removeLock, getKey_journalUnlock]
    split
    · rw [getKey_modR, getKey_modKey_same _ _ _ (by intro _; rfl), getKey_modKey_same _ _ _ (by intro _; rfl)]; rfl
    · rw [getKey_modKey_same _ _ _ (by intro _; rfl)]; rfl
  · simp only [getKey_ctrMod, getKey_removeLock, getKey_journalUnlock]
    split
    · rename_i u hu
      rw [getKey_modR, getKey_modKey_same _ _ _ (by intro _; rfl), getKey_modKey_same _ _ _ (by intro _; rfl)]
      simp only [] at hu ⊢
      rw [hu]; rfl
    · rename_i hu
      rw [getKey_modKey_same _ _ _ (by intro _; rfl)]
      simp only [] at hu ⊢
      rw [hu]; rfl
  · rw [getR_ctrMod]; exact (getR_removeLock_self _ hid).1
  · rw [getR_ctrMod]; exact (getR_removeLock_self _ hid).2

/-! ### which event leads to which failure exit -/

theorem report_err (db : DB) (id : Nat) (who : Option Nat) (e : Ent) (he : db.findId id = some e) :
    opReport db id who false = ackDone (db.dropEnt id) e.hid false := by
  unfold opReport; simp [he]

theorem lock_journal_closed (db : DB) (c : Cmd) (hc : classifyLock db c = .ackGrant) (hl : db.leader = true) (hcl : db.closed = true) :
    opLock db c = ackDone (((db.newRec c).1.ackHold (db.newRec c).2).addTimeOut (db.newRec c).2) (db.newRec c).2 false := by
  unfold opLock
  rw [hc]
  unfold applyLock
  simp only []
  have : ((((db.newRec c).1.ackHold (db.newRec c).2).addTimeOut (db.newRec c).2).pushLock (db.newRec c).2) =
      ((((db.newRec c).1.ackHold (db.newRec c).2).addTimeOut (db.newRec c).2), false) := by
    unfold DB.pushLock DB.pushJ
    have e1 : (((db.newRec c).1.ackHold (db.newRec c).2).addTimeOut (db.newRec c).2).leader = true := by
      unfold DB.addTimeOut DB.ackHold DB.addLock DB.valueOp; simp only []; split <;> (try split) <;> simp [hl, DB.newRec]
    have e2 : (((db.newRec c).1.ackHold (db.newRec c).2).addTimeOut (db.newRec c).2).closed = true := by
      unfold DB.addTimeOut DB.ackHold DB.addLock DB.valueOp; simp only []; split <;> (try split) <;> simp [hcl, DB.newRec]
    simp [e1, e2]
  rw [this]; simp

end Slock.Ack
