import Slock.Proofs.Engine2Ops
/-! Stage-2 engine: the timer sweeps as chains of frame steps; off-leader a tick pushes nothing to the journal; the
follower-side deferral of `doExpried`. -/
namespace Slock.Engine2
open Slock.Engine (has mkReply)

theorem Fr.dropT (w : W) (rid : Nat) : Fr w (w.dropT rid) := (FQ.modR _ _ _).fr.trans (Fr.unrefCheck _ _)
theorem Fr.dropE (w : W) (rid : Nat) : Fr w (w.dropE rid) := (FQ.modR _ _ _).fr.trans (Fr.unrefCheck _ _)

theorem Fr.wheelBroken (w : W) : Fr w w.wheelBroken :=
  ⟨rfl, rfl, rfl, fun _ => rfl, ⟨[], by simp [W.wheelBroken]⟩, id, id, Nat.le_refl _, Or.inl ⟨rfl, rfl, rfl⟩, Nat.le_refl _⟩

theorem W.fireTimeout_fr (w : W) (rid : Nat) : Fr w (w.fireTimeout rid) := by
  unfold W.fireTimeout
  simp only []
  split
  · exact Fr.wheelBroken _
  split
  · exact Fr.dropT _ _
  · refine Fr.trans ?_ (Fr.wake _)
    refine Fr.trans ?_ (Fr.reply _ _ _ _ _)
    refine Fr.trans ?_ (FQ.ctr _ _).fr
    refine Fr.trans ?_ (Fr.dropT _ _)
    exact ((FQ.modR _ _ _).trans ((settleWait_fq _).trans (FQ.ctr _ _))).fr

/-- the sweeper takes a due long-table entry in hand -/
theorem W.collectT_fr (w : W) (rid : Nat) : Fr w (w.collectT rid) := (FQ.modR _ _ _).fr

theorem W.fireExpire_fr (w : W) (rid : Nat) : Fr w (w.fireExpire rid) := by
  unfold W.fireExpire
  simp only []
  split
  · exact Fr.wheelBroken _
  split
  · exact Fr.dropE _ _
  · split
    · exact ((FQ.modR _ _ _).trans (FQ.addExpried _ _)).fr
    · refine Fr.trans ?_ (Fr.wake _)
      refine Fr.trans ?_ (Fr.reply _ _ _ _ _)
      refine Fr.trans ?_ (FQ.ctr _ _).fr
      refine Fr.trans ?_ (Fr.dropE _ _)
      refine Fr.trans ?_ (FQ.modK _ (·.removeLock rid) (by simp) (by simp) (by simp)).fr
      refine Fr.trans ?_ (Fr.when _ _ _ (FQ.pushUnLockAof _ _ _ _ _ _).fr)
      exact (FQ.modR _ _ _).fr.trans (Fr.modLocked _ _ rfl)

theorem W.visitTimeout_fr (w : W) (slot : Bool) (rid : Nat) (w' : W) (h : w.visitTimeout slot rid = some w') : Fr w w' := by
  unfold W.visitTimeout at h
  simp only [] at h
  split at h
  · injection h with h; rw [← h]; exact Fr.wheelBroken _
  split at h
  · injection h with h; rw [← h]; exact Fr.dropT _ _
  · split at h
    · injection h with h; rw [← h]; exact ((FQ.modR _ _ _).trans (FQ.addTimeOut _ _)).fr
    · simp at h

theorem W.visitExpire_fr (w : W) (slot : Bool) (rid : Nat) (w' : W) (h : w.visitExpire slot rid = some w') : Fr w w' := by
  unfold W.visitExpire at h
  simp only [] at h
  split at h
  · injection h with h; rw [← h]; exact Fr.wheelBroken _
  split at h
  · injection h with h; rw [← h]; exact Fr.dropE _ _
  · split at h
    · injection h with h; rw [← h]; exact ((FQ.modR _ _ _).trans (FQ.addExpried _ _)).fr
    · simp at h

/-- role and (off-leader) journal as a property of the database -/
def SameJournal (db db' : DB) : Prop := db'.leader = db.leader ∧ db'.now = db.now ∧ (db.leader = false → db'.aofOut = db.aofOut)

theorem SameJournal.refl (db : DB) : SameJournal db db := ⟨rfl, rfl, fun _ => rfl⟩
theorem SameJournal.trans {a b c : DB} (h1 : SameJournal a b) (h2 : SameJournal b c) : SameJournal a c :=
  ⟨h2.1.trans h1.1, h2.2.1.trans h1.2.1, fun h => by rw [h2.2.2 (by rw [h1.1]; exact h), h1.2.2 h]⟩

/-- an operation on one key record that is a frame step, stored back -/
theorem SameJournal.of_fr (db : DB) (key : Nat) (w' : W) (f : Fr (db.openKey key) w') : SameJournal db w'.commit := by
  obtain ⟨c1, c2, c3, _⟩ := commit_fields w'
  exact ⟨by rw [c1, f.leader]; rfl, by rw [c3, f.now]; rfl, fun h => by rw [c2, f.aof h]; rfl⟩

theorem timeoutStep_journal (slot : Bool) (acc : DB × List Ent) (e : Ent) : SameJournal acc.1 (timeoutStep slot acc e).1 := by
  unfold timeoutStep
  split
  · rename_i w hw; exact SameJournal.of_fr _ _ _ (W.visitTimeout_fr _ _ _ _ hw)
  · cases slot
    · exact SameJournal.of_fr _ _ _ (W.collectT_fr _ _)
    · exact SameJournal.refl _

theorem expireStep_journal (slot : Bool) (acc : DB × List Ent) (e : Ent) : SameJournal acc.1 (expireStep slot acc e).1 := by
  unfold expireStep
  split
  · rename_i w hw; exact SameJournal.of_fr _ _ _ (W.visitExpire_fr _ _ _ _ hw)
  · exact SameJournal.refl _

theorem fireTimeoutStep_journal (acc : DB × List Reply) (e : Ent) : SameJournal acc.1 (fireTimeoutStep acc e).1 := by
  unfold fireTimeoutStep fireTimeout
  exact SameJournal.of_fr _ _ _ (W.fireTimeout_fr _ _)

theorem fireExpireStep_journal (acc : DB × List Reply) (e : Ent) : SameJournal acc.1 (fireExpireStep acc e).1 := by
  unfold fireExpireStep fireExpire
  exact SameJournal.of_fr _ _ _ (W.fireExpire_fr _ _)

theorem foldl_journal {α β} (f : DB × β → α → DB × β) (hf : ∀ acc a, SameJournal acc.1 (f acc a).1)
    (l : List α) (acc : DB × β) : SameJournal acc.1 (l.foldl f acc).1 := by
  induction l generalizing acc with
  | nil => exact SameJournal.refl _
  | cons a as ih => simp only [List.foldl_cons]; exact (hf acc a).trans (ih _)

theorem sweepTimeout_journal (db : DB) (c : Nat) : SameJournal db (sweepTimeout db c).1 := by
  unfold sweepTimeout
  simp only []
  refine SameJournal.trans ?_ (foldl_journal _ fireTimeoutStep_journal _ _)
  exact (foldl_journal _ (timeoutStep_journal true) _ (db, [])).trans (foldl_journal _ (timeoutStep_journal false) _ _)

theorem sweepExpire_journal (db : DB) (c : Nat) : SameJournal db (sweepExpire db c).1 := by
  unfold sweepExpire
  simp only []
  refine SameJournal.trans ?_ (foldl_journal _ fireExpireStep_journal _ _)
  exact (foldl_journal _ (expireStep_journal true) _ (db, [])).trans (foldl_journal _ (expireStep_journal false) _ _)

theorem opTick_journal (db : DB) :
    (opTick db).1.leader = db.leader ∧ (db.leader = false → (opTick db).1.aofOut = db.aofOut) := by
  unfold opTick
  simp only []
  have h1 := sweepTimeout_journal { db with now := db.now + 1, tCheck := db.now + 1 + 1 } (db.now + 1)
  have h2 := sweepExpire_journal { (sweepTimeout { db with now := db.now + 1, tCheck := db.now + 1 + 1 } (db.now + 1)).1 with eCheck := db.now + 1 + 1 }
    (db.now + 1)
  refine ⟨by rw [h2.1]; exact h1.1, fun h => ?_⟩
  rw [h2.2.2 (by show (sweepTimeout _ _).1.leader = false; rw [h1.1]; exact h)]
  exact h1.2.2 h

/-- off-leader NO operation pushes to the journal -/
theorem step_journal (db : DB) (o : Op) (h : db.leader = false) : (step db o).1.aofOut = db.aofOut := by
  cases o with
  | lock c d => exact (opLock_journal db c d).2 h
  | unlock c d => exact (opUnlock_journal db c d).2 h
  | tick => exact (opTick_journal db).2 h
  | setLeader b => rfl

end Slock.Engine2
