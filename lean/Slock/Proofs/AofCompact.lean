import Slock.Model.Aof
/-!
Compaction: the file-system mutations that only touch `rewrite.aof.tmp(.dat)` are invisible to a start-up; replaying the kept
records is the same as replaying all records when dropped records are no-ops.
-/
namespace Slock.Aof

/-- A mutation that touches only the temporary files of the compaction. -/
def TmpOp : FsOp → Prop
  | .openAppend b => b = .rewriteTmp
  | .append n _ => n.base = .rewriteTmp
  | .remove n => n.base = .rewriteTmp
  | .rename _ _ => False

theorem relevant_remove (d : Dir) (n : FName) (h : relevantName n = false) : relevant (d.remove n) = relevant d := by
  unfold relevant Dir.remove
  rw [List.filter_filter]
  apply List.filter_congr
  intro f _
  by_cases hf : f.1 = n
  · subst hf; simp [h]
  · simp [hf]

theorem relevant_put (d : Dir) (n : FName) (x : Bytes) (h : relevantName n = false) : relevant (d.put n x) = relevant d := by
  unfold Dir.put
  have : relevant (d.remove n ++ [(n, x)]) = relevant (d.remove n) := by
    unfold relevant; simp [List.filter_append, h]
  rw [this, relevant_remove d n h]

theorem tmp_not_relevant (n : FName) (h : n.base = .rewriteTmp) : relevantName n = false := by
  unfold relevantName; rw [h]

theorem relevant_applyOp (d : Dir) (op : FsOp) (h : TmpOp op) : relevant (applyOp d op) = relevant d := by
  cases op with
  | openAppend b =>
    simp only [TmpOp] at h; subst h
    simp only [applyOp]
    split
    · exact relevant_put d _ _ rfl
    · rw [relevant_put _ _ _ rfl, relevant_put d _ _ rfl]
  | append n b =>
    simp only [TmpOp] at h
    simp only [applyOp]
    split
    · exact relevant_put d n _ (tmp_not_relevant n h)
    · rfl
  | remove n =>
    simp only [TmpOp] at h
    exact relevant_remove d n (tmp_not_relevant n h)
  | rename a b => simp [TmpOp] at h

theorem relevant_applyOps : ∀ (ops : List FsOp) (d : Dir), (∀ op ∈ ops, TmpOp op) → relevant (applyOps d ops) = relevant d
  | [], _, _ => rfl
  | op :: ops, d, h => by
    show relevant (applyOps (applyOp d op) ops) = _
    rw [relevant_applyOps ops _ (fun o ho => h o (by simp [ho])), relevant_applyOp d op (h op (by simp))]

theorem writeSteps_tmp (kept : List Rec) : ∀ op ∈ writeSteps kept, TmpOp op := by
  intro op hop
  unfold writeSteps at hop
  simp only [List.mem_append, List.mem_singleton] at hop
  rcases hop with (h | h) | h
  · subst h; rfl
  · split at h
    · simp at h
    · simp at h; subst h; rfl
  · split at h
    · simp at h
    · simp at h; subst h; rfl

/-- A crash anywhere in the first half of a compaction (while `rewrite.aof.tmp` is being written) is invisible to the next start. -/
theorem crash_in_write_phase (cfg : Nat) (now : Int) (kept : List Rec) (inputs : List Base) (d : Dir) (i : Nat)
    (hi : i ≤ (writeSteps kept).length) :
    recoverDir cfg now (applyPrefix i (writeSteps kept ++ clearSteps inputs) d) = recoverDir cfg now d := by
  unfold recoverDir applyPrefix
  rw [List.take_append_of_le_length hi]
  rw [relevant_applyOps _ d (fun op hop => writeSteps_tmp kept op (List.mem_of_mem_take hop))]

theorem compactionSteps_shape (cfg : Nat) (now : Int) (keep : Rec → Bool) (cur : Nat) (d : Dir) :
    compactionSteps cfg now keep cur d = [] ∨
    ∃ inputs, compactionSteps cfg now keep cur d = writeSteps (keptRecords cfg now keep d inputs) ++ clearSteps inputs := by
  unfold compactionSteps
  split
  · exact Or.inl rfl
  · exact Or.inl rfl
  · exact Or.inr ⟨_, rfl⟩

/-- Replaying `(recs.filter keep).map markRewritten` gives the state of replaying `recs`, when a record the keep-rule drops
is a no-op for the engine and the REWRITED bit is ignored by it. -/
theorem replay_kept {σ : Type} (replay : σ → Rec → σ) (keep : Rec → Bool)
    (hdrop : ∀ s r, keep r = false → replay s r = s) (hmark : ∀ s r, replay s (markRewritten r) = replay s r) :
    ∀ (recs : List Rec) (s : σ), ((recs.filter keep).map markRewritten).foldl replay s = recs.foldl replay s
  | [], _ => rfl
  | r :: rs, s => by
    cases hk : keep r with
    | true => simp only [List.filter_cons, hk, if_true, List.map_cons, List.foldl_cons, hmark]; exact replay_kept replay keep hdrop hmark rs _
    | false =>
      simp only [List.filter_cons, hk, Bool.false_eq_true, if_false, List.foldl_cons, hdrop s r hk]
      exact replay_kept replay keep hdrop hmark rs _

end Slock.Aof
