import Slock.Proofs.Engine2Drain
/-! Simulation stage 2 → stage 1, foundations: `abs` is key-local (`(abs s).getKey n = Key.abs (s.getKey n)`), and storing a key
record commutes with `abs` up to the order of the key table. -/
namespace Slock.Sim
open Slock

/-- two stage-1 databases with the same scalar fields and the same state under every key (the key TABLE may be ordered
differently: stage 1 re-appends a stored key, the record-level model updates it in place) -/
structure Equiv (a b : Engine.DB) : Prop where
  now : a.now = b.now
  tCheck : a.tCheck = b.tCheck
  eCheck : a.eCheck = b.eCheck
  seq : a.seq = b.seq
  leader : a.leader = b.leader
  ctr : a.ctr = b.ctr
  keys : ∀ n, a.getKey n = b.getKey n

theorem Equiv.refl (a : Engine.DB) : Equiv a a := ⟨rfl, rfl, rfl, rfl, rfl, rfl, fun _ => rfl⟩
theorem Equiv.symm {a b : Engine.DB} (h : Equiv a b) : Equiv b a :=
  ⟨h.now.symm, h.tCheck.symm, h.eCheck.symm, h.seq.symm, h.leader.symm, h.ctr.symm, fun n => (h.keys n).symm⟩
theorem Equiv.trans {a b c : Engine.DB} (h1 : Equiv a b) (h2 : Equiv b c) : Equiv a c :=
  ⟨h1.now.trans h2.now, h1.tCheck.trans h2.tCheck, h1.eCheck.trans h2.eCheck, h1.seq.trans h2.seq, h1.leader.trans h2.leader,
   h1.ctr.trans h2.ctr, fun n => (h1.keys n).trans (h2.keys n)⟩

theorem isEmpty_eq (k : Engine.Key) (h : k.isEmpty = true) : k = Engine.emptyKey k.key := by
  unfold Engine.Key.isEmpty at h
  simp only [Bool.and_eq_true, List.isEmpty_iff, beq_iff_eq, Bool.not_eq_true'] at h
  obtain ⟨⟨⟨h1, h2⟩, h3⟩, h4⟩ := h
  cases k
  simp only [Engine.emptyKey] at *
  simp_all

theorem abs_key (k : Engine2.Key) : (Engine2.Key.abs k).key = k.key := rfl

theorem abs_newKey (n : Nat) : Engine2.Key.abs (Engine2.newKey n) = Engine.emptyKey n := by
  simp [Engine2.Key.abs, Engine2.newKey, Engine.emptyKey, Engine2.Key.holders, Engine2.Key.waiters]

/-- looking a key up in the mapped and filtered table -/
theorem find_map_filter (l : List Engine2.Key) (n : Nat) (hn : (l.map (·.key)).Nodup) :
    ((l.map Engine2.Key.abs).filter (fun k => !k.isEmpty)).find? (·.key == n) =
      ((l.find? (·.key == n)).map Engine2.Key.abs).filter (fun k => !k.isEmpty) := by
  induction l with
  | nil => rfl
  | cons a as ih =>
    simp only [List.map_cons, List.nodup_cons] at hn
    by_cases hk : a.key = n
    · have h1 : (a.key == n) = true := by simpa using hk
      simp only [List.map_cons, List.find?_cons, h1, Option.map_some]
      by_cases he : (Engine2.Key.abs a).isEmpty = true
      · simp only [List.filter, he, Bool.not_true]
        -- no later key record has this key
        have : ((as.map Engine2.Key.abs).filter (fun k => !k.isEmpty)).find? (·.key == n) = none := by
          apply List.find?_eq_none.mpr
          intro x hx
          obtain ⟨y, hy, e⟩ := List.mem_map.mp (List.mem_filter.mp hx).1
          have : y.key ≠ n := by
            intro e'
            exact hn.1 (List.mem_map.mpr ⟨y, hy, e'.trans hk.symm⟩)
          rw [← e, abs_key]; simpa using this
        rw [this]
        simp [Option.filter, he]
      · have he' : (Engine2.Key.abs a).isEmpty = false := by simpa using he
        simp only [List.filter, he', Bool.not_false, List.find?_cons, abs_key, h1]
        simp [Option.filter, he']
    · have h1 : (a.key == n) = false := by simpa using hk
      simp only [List.map_cons, List.find?_cons, h1]
      rw [← ih hn.2]
      by_cases he : (Engine2.Key.abs a).isEmpty = true
      · simp only [List.filter, he, Bool.not_true]
      · have he' : (Engine2.Key.abs a).isEmpty = false := by simpa using he
        simp only [List.filter, he', Bool.not_false, List.find?_cons, abs_key, h1]

/-- **`abs` is key-local** -/
theorem abs_getKey (s : Engine2.DB) (hn : (s.keys.map (·.key)).Nodup) (n : Nat) :
    (Engine2.abs s).getKey n = Engine2.Key.abs (s.getKey n) := by
  unfold Engine.DB.getKey Engine2.abs
  simp only []
  rw [find_map_filter s.keys n hn]
  unfold Engine2.DB.getKey Engine2.DB.findKey
  cases hf : s.keys.find? (·.key == n) with
  | none => simp [Option.filter, abs_newKey]
  | some k =>
    have hk : k.key = n := by have := List.find?_some hf; simpa using this
    simp only [Option.map_some, Option.getD_some]
    by_cases he : (Engine2.Key.abs k).isEmpty = true
    · simp only [Option.filter, he, Bool.not_true]
      have := isEmpty_eq _ he
      rw [abs_key, hk] at this
      simp [this]
    · have he' : (Engine2.Key.abs k).isEmpty = false := by simpa using he
      simp [Option.filter, he']

/-! ### stage 1: storing a key -/

theorem getKey_setKey_other (a : Engine.DB) (k : Engine.Key) (n : Nat) (hne : n ≠ k.key) : (a.setKey k).getKey n = a.getKey n := by
  unfold Engine.DB.setKey Engine.DB.getKey
  simp only []
  have hf : ∀ l : List Engine.Key, (l.filter (fun x => x.key != k.key)).find? (fun x => x.key == n) = l.find? (fun x => x.key == n) := by
    intro l
    induction l with
    | nil => rfl
    | cons x xs ih =>
      by_cases hx : x.key = k.key
      · have h1 : (x.key != k.key) = false := by simp [hx]
        have h2 : (x.key == n) = false := by rw [hx]; simpa using (fun e : k.key = n => hne e.symm)
        simp only [List.filter, h1, List.find?_cons, h2]; exact ih
      · have h1 : (x.key != k.key) = true := by simpa using hx
        simp only [List.filter, h1, List.find?_cons]
        cases (x.key == n)
        · exact ih
        · rfl
  split
  · rw [hf]
  · rw [List.find?_append, hf]
    cases a.keys.find? (fun x => x.key == n) with
    | some _ => rfl
    | none =>
      have : (k.key == n) = false := by simpa using (fun e : k.key = n => hne e.symm)
      simp [List.find?, this]

theorem getKey_setKey_same (a : Engine.DB) (k : Engine.Key) : (a.setKey k).getKey k.key = k := by
  unfold Engine.DB.setKey Engine.DB.getKey
  simp only []
  have hnf : ∀ l : List Engine.Key, (l.filter (fun x => x.key != k.key)).find? (fun x => x.key == k.key) = none := by
    intro l
    apply List.find?_eq_none.mpr
    intro x hx
    have := (List.mem_filter.mp hx).2
    simpa using this
  split
  · rename_i h; rw [hnf]; exact (isEmpty_eq k h).symm
  · rw [List.find?_append, hnf]; simp

theorem getKey_key1 (a : Engine.DB) (n : Nat) : (a.getKey n).key = n := by
  unfold Engine.DB.getKey
  cases h : a.keys.find? (·.key == n) with
  | none => rfl
  | some k => have := List.find?_some h; simpa using this

/-! ### stage 2: what the database shows after an operation on one key record -/

theorem fr_getKey_other {w0 w : Engine2.W} (f : Engine2.Fr w0 w) (n : Nat) (hne : n ≠ w0.k.key) : w.db.getKey n = w0.db.getKey n := by
  rcases f.dbk with ⟨a1, _, _⟩ | ⟨_, _, a3, _⟩
  · unfold Engine2.DB.getKey Engine2.DB.findKey; rw [a1]
  · unfold Engine2.DB.getKey Engine2.DB.findKey; rw [a3, Engine2.find_filter_other _ _ _ hne]

theorem commit_getKey_other (w : Engine2.W) (n : Nat) (hne : n ≠ w.k.key) : w.commit.getKey n = w.db.getKey n := by
  unfold Engine2.W.commit
  split
  · rfl
  · exact Engine2.getKey_setKey_other _ _ _ hne

/-- **one operation on one key record commutes with `abs`**, given what it did to that record and to the scalar fields -/
theorem sim_commit (s : Engine2.DB) (key : Nat) (w0 w : Engine2.W) (f : Engine2.Fr w0 w)
    (h0k : w0.k.key = key) (h0 : ∀ n, n ≠ key → w0.db.getKey n = s.getKey n)
    (hs : Engine2.DBside w) (hn : (s.keys.map (·.key)).Nodup) (hn' : (w.commit.keys.map (·.key)).Nodup)
    (a1 : Engine.DB) (k' : Engine.Key) (hk' : k'.key = key)
    (hkeys : ∀ n, a1.getKey n = (Engine2.abs s).getKey n)
    (hnow : a1.now = w.db.now) (htc : a1.tCheck = w.db.tCheck) (hec : a1.eCheck = w.db.eCheck) (hseq : a1.seq = w.db.seq)
    (hld : a1.leader = w.db.leader) (hctr : a1.ctr = w.db.ctr)
    (hloc : (w.gone = false → Engine2.Key.abs w.k = k') ∧ (w.gone = true → k'.isEmpty = true)) :
    Equiv (Engine2.abs w.commit) (a1.setKey k') := by
  have hkey : w.k.key = key := f.key.trans h0k
  obtain ⟨c1, _, c3, c4, c5, c6⟩ := Engine2.commit_fields w
  have cseq : w.commit.seq = w.db.seq := by
    unfold Engine2.W.commit
    split
    · rfl
    · exact (Engine2.setKey_fields w.db w.k).2.2.2.2.2.2.1
  refine ⟨?_, ?_, ?_, ?_, ?_, ?_, ?_⟩
  · show w.commit.now = (a1.setKey k').now
    rw [c3]; exact hnow.symm
  · show w.commit.tCheck = (a1.setKey k').tCheck
    rw [c5]; exact htc.symm
  · show w.commit.eCheck = (a1.setKey k').eCheck
    rw [c6]; exact hec.symm
  · show w.commit.seq = (a1.setKey k').seq
    rw [cseq]; exact hseq.symm
  · show w.commit.leader = (a1.setKey k').leader
    rw [c1]; exact hld.symm
  · show w.commit.ctr = (a1.setKey k').ctr
    rw [c4]; exact hctr.symm
  · intro n
    rw [abs_getKey _ hn']
    by_cases e : n = key
    · subst e
      rw [← hk', getKey_setKey_same, hk']
      cases hg : w.gone with
      | false =>
        have := Engine2.commit_getKey w hg
        rw [hkey] at this
        rw [this]; exact hloc.1 hg
      | true =>
        have hh : w.commit.hasKey n = false := by rw [Engine2.commit_of_gone w hg]; rw [← hkey]; exact hs.absent hg
        rw [Engine2.getKey_of_not_hasKey _ _ hh, abs_newKey]
        have := isEmpty_eq k' (hloc.2 hg)
        rw [hk'] at this
        exact this.symm
    · rw [getKey_setKey_other _ _ _ (by rw [hk']; exact e), hkeys n, abs_getKey _ hn]
      rw [commit_getKey_other _ _ (by rw [hkey]; exact e), fr_getKey_other f n (by rw [h0k]; exact e), h0 n e]

end Slock.Sim
