import Slock.Proofs.EngineWake
/-! Timer-wheel arithmetic and provenance of queued requests (C05 / C06). -/
namespace Slock.Engine

/-- `AddTimeOut` / `AddExpried`: with the deadline not before the wheel's check time, the record is scheduled for a
second in `[check, deadline]` (so it is looked at no later than its deadline, and never before `check`); long-table
records are keyed by the deadline itself; the deadline is unchanged. -/
theorem wheelAdd_spec (check seq d n : Nat) (h : check ≤ d) :
    (wheelAdd check seq d n).1 = d ∧ check ≤ (wheelAdd check seq d n).2.visit ∧ (wheelAdd check seq d n).2.visit ≤ d ∧
      ((wheelAdd check seq d n).2.long = true → (wheelAdd check seq d n).2.visit = d) ∧
      ((wheelAdd check seq d n).2.long = false → (wheelAdd check seq d n).2.visit = min d (check + n)) := by
  unfold wheelAdd
  by_cases hn : n > MAX_WAIT
  · simp only [hn, if_true]
    have : ¬ d < check := by omega
    simp [this]; omega
  · simp only [hn, if_false]
    by_cases hv : d < check + n
    · have : ¬ d < check := by omega
      simp [hv, this]; omega
    · simp [hv]; omega

/-- a deadline already behind the check time is served at the check time (the earliest sweep still to come) -/
theorem wheelAdd_late (check seq d n : Nat) (h : d < check) : (wheelAdd check seq d n).2.visit = check := by
  unfold wheelAdd
  by_cases hn : n > MAX_WAIT
  · simp [hn, h]
  · simp only [hn, if_false]
    have : d < check + n := by omega
    simp [this, h]

/-! ### provenance of queued requests -/

def allW (db : DB) : List Waiter := db.keys.flatMap (·.waiters)

theorem mem_allW {db : DB} {w : Waiter} : w ∈ allW db ↔ ∃ k ∈ db.keys, w ∈ k.waiters := by
  unfold allW; simp [List.mem_flatMap]

theorem mem_getKey_waiters {db : DB} {n : Nat} {w : Waiter} (h : w ∈ (db.getKey n).waiters) : w ∈ allW db := by
  unfold DB.getKey at h
  cases hf : db.keys.find? (·.key == n) with
  | none => simp [hf, emptyKey] at h
  | some k => simp only [hf, Option.getD_some] at h; exact mem_allW.mpr ⟨k, List.mem_of_find?_eq_some hf, h⟩

theorem mem_allW_setKey {db : DB} {k : Key} {w : Waiter} (h : w ∈ allW (db.setKey k)) : w ∈ allW db ∨ w ∈ k.waiters := by
  obtain ⟨k', hk', hw⟩ := mem_allW.mp h
  unfold DB.setKey at hk'
  simp only [] at hk'
  split at hk'
  · exact Or.inl (mem_allW.mpr ⟨k', (List.mem_filter.mp hk').1, hw⟩)
  · rcases List.mem_append.mp hk' with h1 | h1
    · exact Or.inl (mem_allW.mpr ⟨k', (List.mem_filter.mp h1).1, hw⟩)
    · simp at h1; rw [h1] at hw; exact Or.inr hw

theorem allW_of_keys_eq {db db' : DB} (e : db'.keys = db.keys) : allW db' = allW db := by unfold allW; rw [e]

theorem mem_allW_of_keys_eq {db db' : DB} {w : Waiter} (e : db'.keys = db.keys) (h : w ∈ allW db') : w ∈ allW db := by
  rw [allW_of_keys_eq e] at h; exact h

theorem mem_insertWaiter {ws : List Waiter} {w x : Waiter} (h : x ∈ insertWaiter ws w) : x = w ∨ x ∈ ws := by
  obtain ⟨l1, l2, e1, e2, _, _⟩ := insertWaiter_split ws w
  rw [e2] at h; rw [e1]
  rcases List.mem_append.mp h with h | h
  · exact Or.inr (List.mem_append_left _ h)
  · rcases List.mem_cons.mp h with h | h
    · exact Or.inl h
    · exact Or.inr (List.mem_append_right _ h)

theorem mem_removeWaiter {ws : List Waiter} {w x : Waiter} (h : x ∈ removeWaiter ws w) : x ∈ ws := by
  induction ws with
  | nil => simp [removeWaiter] at h
  | cons y ys ih =>
    unfold removeWaiter at h
    split at h
    · exact List.mem_cons_of_mem _ h
    · rcases List.mem_cons.mp h with h | h
      · simp [h]
      · exact List.mem_cons_of_mem _ (ih h)

theorem wakeIter_waiters {db : DB} {k : Key} {db' : DB} {k' : Key} {r : Reply}
    (h : wakeIter db k = some (db', k', r)) : ∀ w ∈ k'.waiters, w ∈ k.waiters := by
  obtain ⟨w0, rest, e1, e2, _⟩ := wakeIter_head h
  intro w hw; rw [e2] at hw; rw [e1]; exact List.mem_cons_of_mem _ hw

theorem wakePass_waiters (fuel : Nat) (db : DB) (k : Key) (out : List Reply) :
    ∀ w ∈ (wakePass fuel db k out).2.1.waiters, w ∈ k.waiters := by
  induction fuel generalizing db k out with
  | zero => unfold wakePass; split <;> exact fun w hw => hw
  | succ n ih =>
    unfold wakePass
    split
    · exact fun w hw => hw
    · cases hw : wakeIter db k with
      | none => simp only []; split <;> exact fun w hw => hw
      | some t =>
        obtain ⟨db', k', r⟩ := t
        simp only []
        intro w hm
        exact wakeIter_waiters hw w (ih db' k' _ w hm)

theorem wake_waiters (db : DB) (k : Key) (out : List Reply) : ∀ w ∈ (wake db k out).2.1.waiters, w ∈ k.waiters :=
  wakePass_waiters _ db k out

/-- the waiter a `.queue` LOCK creates -/
def newWaiter (db : DB) (c : Cmd) : Waiter :=
  { cmd := c, conn := c.conn, timeoutT := (wheelAdd db.tCheck db.seq (timeoutDeadline db.now c) 1).1,
    sched := (wheelAdd db.tCheck db.seq (timeoutDeadline db.now c) 1).2 }

/-- LOCK: every queued request afterwards was queued before, or is the request itself (branch `.queue`). -/
theorem opLock_waiters (db : DB) (c : Cmd) :
    ∀ w ∈ allW (opLock db c).1, w ∈ allW db ∨ (classifyLock db c = .queue ∧ w = newWaiter db c) := by
  intro w hw
  unfold opLock at hw
  cases hb : classifyLock db c with
  | p0a | p0b | stateError | unlockedWaitRefused | timeout | «show» cur | updateEqual h' | relockNoHold h' | relockRefused h' =>
    rw [hb] at hw; exact Or.inl hw
  | update h' =>
    rw [hb] at hw; simp only [applyLock] at hw
    rcases mem_allW_setKey hw with h1 | h1
    · refine Or.inl (mem_allW_of_keys_eq ?_ h1); simp [wake_keys, grantHold_db_keys, updateHold_db_keys]
    · have h2 := wake_waiters _ _ _ w h1
      exact Or.inl (mem_getKey_waiters (n := c.key) h2)
  | relock h' =>
    rw [hb] at hw; simp only [applyLock] at hw
    rcases mem_allW_setKey hw with h1 | h1
    · refine Or.inl (mem_allW_of_keys_eq ?_ h1); simp [wake_keys, grantHold_db_keys, updateHold_db_keys]
    · have h2 := wake_waiters _ _ _ w h1
      exact Or.inl (mem_getKey_waiters (n := c.key) h2)
  | grant =>
    rw [hb] at hw; simp only [applyLock] at hw
    obtain ⟨_, _, _, _, _, hws, _, _⟩ := grantHold_holders db (db.getKey c.key) c
    split at hw
    · rcases mem_allW_setKey hw with h1 | h1
      · refine Or.inl (mem_allW_of_keys_eq ?_ h1); simp [wake_keys, grantHold_db_keys, updateHold_db_keys]
      · have := wake_waiters _ _ _ w h1; rw [hws] at this; exact Or.inl (mem_getKey_waiters this)
    · rcases mem_allW_setKey hw with h1 | h1
      · refine Or.inl (mem_allW_of_keys_eq ?_ h1); simp [wake_keys, grantHold_db_keys, updateHold_db_keys]
      · rw [hws] at h1; exact Or.inl (mem_getKey_waiters h1)
  | grantNoHold =>
    rw [hb] at hw; simp only [applyLock] at hw
    split at hw
    · rcases mem_allW_setKey hw with h1 | h1
      · refine Or.inl (mem_allW_of_keys_eq ?_ h1); simp [wake_keys, grantHold_db_keys, updateHold_db_keys]
      · exact Or.inl (mem_getKey_waiters (wake_waiters _ _ _ w h1))
    · rcases mem_allW_setKey hw with h1 | h1
      · exact Or.inl h1
      · exact Or.inl (mem_getKey_waiters h1)
  | queue =>
    rw [hb] at hw; simp only [applyLock] at hw
    rcases mem_allW_setKey hw with h1 | h1
    · exact Or.inl h1
    · rcases mem_insertWaiter h1 with h2 | h2
      · exact Or.inr ⟨rfl, h2⟩
      · exact Or.inl (mem_getKey_waiters h2)

/-- UNLOCK never queues anything. -/
theorem opUnlock_waiters (db : DB) (c : Cmd) : ∀ w ∈ allW (opUnlock db c).1, w ∈ allW db := by
  intro w hw
  unfold opUnlock at hw
  cases hb : classifyUnlock db c with
  | stateError | notLocked | unown | cancelNone => rw [hb] at hw; exact hw
  | cancel w0 =>
    rw [hb] at hw; simp only [applyUnlock] at hw
    rcases mem_allW_setKey hw with h1 | h1
    · refine mem_allW_of_keys_eq ?_ h1; simp [wake_keys]
    · have h2 := mem_removeWaiter (wake_waiters _ _ _ w h1)
      exact mem_getKey_waiters (n := c.key) h2
  | dec h' c' =>
    rw [hb] at hw; simp only [applyUnlock] at hw
    rcases mem_allW_setKey hw with h1 | h1
    · refine mem_allW_of_keys_eq ?_ h1; simp [wake_keys, grantHold_db_keys, updateHold_db_keys]
    · have h2 := wake_waiters _ _ _ w h1
      exact mem_getKey_waiters (n := c.key) h2
  | release h' c' =>
    rw [hb] at hw; simp only [applyUnlock] at hw
    rcases mem_allW_setKey hw with h1 | h1
    · refine mem_allW_of_keys_eq ?_ h1; simp [wake_keys, grantHold_db_keys, updateHold_db_keys]
    · have h2 := wake_waiters _ _ _ w h1
      exact mem_getKey_waiters (n := c.key) h2

end Slock.Engine
