import Slock.Proofs.Engine2SimGrant
/-! Simulation stage 2 → stage 1: the grant appends the new hold to the holders stage 1 sees. -/
namespace Slock.Sim
open Slock Slock.Engine2
open Slock.Engine (has)

/-- the live part of the holder queue after `locks.Push(rid)`: compaction only drops tombstones -/
theorem locksPush_filter (k : Key) (rid : Nat) (P : Nat → Bool) (hP : ∀ y ∈ k.locks, k.liveHolder y = false → P y = false) :
    (k.locksPush rid).locks.filter P = k.locks.filter P ++ [rid].filter P := by
  unfold Key.locksPush
  simp only []
  split
  · simp [List.filter_append]
  · split
    · rename_i he
      have : k.locks = [] := by simpa using he
      simp [this]
    · have hq := foldl_unref_queues (k.locks.filter (fun x => !k.liveHolder x))
        (if (k.locks.filter (fun x => k.liveHolder x)).length < k.locksPopped + k.locks.length then
          { k with locks := k.locks.filter (fun x => k.liveHolder x) ++ [rid], locksPopped := 0 }
        else { k with locks := k.locks.filter (fun x => k.liveHolder x) ++ [rid], locksCap := 2 * k.locksCap })
      rw [hq.1]
      have hl : (if (k.locks.filter (fun x => k.liveHolder x)).length < k.locksPopped + k.locks.length then
          ({ k with locks := k.locks.filter (fun x => k.liveHolder x) ++ [rid], locksPopped := 0 } : Key)
        else { k with locks := k.locks.filter (fun x => k.liveHolder x) ++ [rid], locksCap := 2 * k.locksCap }).locks =
          k.locks.filter (fun x => k.liveHolder x) ++ [rid] := by split <;> rfl
      rw [hl, List.filter_append, List.filter_filter]
      congr 1
      apply List.filter_congr
      intro y hy
      cases hv : k.liveHolder y with
      | true => simp
      | false => simp [hP y hy hv]

theorem locksPush_cur (k : Key) (rid : Nat) : (k.locksPush rid).current = k.current := (locksPush_wait k rid).2

theorem filter_map_congr_on {α β : Type} (l : List α) (p q : α → Bool) (f g : α → β) (h : ∀ y ∈ l, p y = q y ∧ (q y = true → f y = g y)) :
    (l.filter p).map f = (l.filter q).map g := by
  induction l with
  | nil => rfl
  | cons a as ih =>
    have ha := h a (by simp)
    have := ih (fun y hy => h y (List.mem_cons_of_mem _ hy))
    simp only [List.filter, ha.1]
    cases hq : q a
    · exact this
    · simp only [List.map_cons, this, ha.2 hq]

theorem grantTail_sx (s0 : W) (rid : Nat) : SX (· = rid) s0 (grantTail s0 rid) := by
  have h0 : SX (· = rid) s0 s0 := SX.refl _
  have := (((((h0.procData .lock (s0.k.getR rid).cmd (frameOf (s0.k.getR rid).cmd (s0.k.getR rid).data) rid).modR_in rid
    (fun r => { r with data := none }) (by intro _; rfl) rfl).addExpried rid rfl).ref rid).ctr
    (fun c => { c with lockCount := c.lockCount + 1, lockedCount := c.lockedCount + 1 })).reply
    { (s0.k.getR rid).cmd with conn := (s0.k.getR rid).conn } Engine.RESULT_SUCCED 1 s0.lockData
  exact this

/-- every record but `rid` keeps its stage-1 view through the grant -/
theorem grant_others (w : W) (rid : Nat) : PKeepX πA (· = rid) (w.grant rid).k w.k := by
  have hf := addLockF_fields w.db w.k
  have pT : PKeepX πA (· = rid) (w.grant rid).k ((w.addLock rid).modK incLocked).k := by
    rw [grant_eq]
    have h0 : SX (· = rid) ((w.addLock rid).modK incLocked) ((w.addLock rid).modK incLocked) := SX.refl _
    exact (grantTail_sx ((w.addLock rid).modK incLocked) rid).p
  have pI : PKeepX πA (· = rid) ((w.addLock rid).modK incLocked).k (w.addLock rid).k := PKeepX.of_eq rfl
  have pA : PKeepX πA (· = rid) (w.addLock rid).k w.k := by
    show PKeepX πA (· = rid) (w.k.addLock rid (addLockF w.db w.k)) w.k
    have pm : PKeepX πA (· = rid) (w.k.modRec rid (addLockF w.db w.k)) w.k := PKeepX.modRec w.k rid _ (fun r => (hf r).1) rfl
    unfold Key.addLock
    split
    · exact PKeepX.trans (b := w.k.modRec rid (addLockF w.db w.k)) (PKeepX.of_eq rfl) pm
    · exact (PKeepX.of_pk (PKeep.locksPush ins_πA _ rid)).trans pm
  exact pT.trans (pI.trans pA)

/-- the ids of the holder side after `AddLock(rid)`, as far as a filter can tell that is false on the tombstones of the queue -/
theorem addLock_ids (k : Key) (cn : CurNone k) (rid : Nat) (f : Rec → Rec) (P : Nat → Bool)
    (hP : ∀ y ∈ k.locks, (k.modRec rid f).liveHolder y = false → P y = false) :
    ((k.addLock rid f).current.toList ++ (k.addLock rid f).locks).filter P = (k.current.toList ++ k.locks).filter P ++ [rid].filter P := by
  unfold Key.addLock
  cases hc : k.current with
  | none =>
    have hl0 : k.locks = [] := cn hc
    show ([rid] ++ (k.modRec rid f).locks).filter P = _
    have : (k.modRec rid f).locks = [] := hl0
    rw [this, hl0]; rfl
  | some c =>
    simp only []
    rw [locksPush_cur]
    have hcm : (k.modRec rid f).current = some c := hc
    rw [hcm]
    show ([c] ++ ((k.modRec rid f).locksPush rid).locks).filter P = ([c] ++ k.locks).filter P ++ _
    rw [List.filter_append, List.filter_append, locksPush_filter _ rid P hP, List.append_assoc]
    rfl

theorem locksPush_mem_live (k : Key) (rid y : Nat) (hy : y ∈ k.locks) (hl : k.liveHolder y = true) : y ∈ (k.locksPush rid).locks := by
  have := locksPush_filter k rid (fun x => k.liveHolder x) (fun _ _ h => h)
  have hm : y ∈ (k.locksPush rid).locks.filter (fun x => k.liveHolder x) := by
    rw [this]; exact List.mem_append_left _ (List.mem_filter.mpr ⟨hy, hl⟩)
  exact (List.mem_filter.mp hm).1

theorem addLock_mem_live (k : Key) (rid y : Nat) (f : Rec → Rec) (hy : y ∈ k.current.toList ++ k.locks) (hl : (k.modRec rid f).liveHolder y = true) :
    y ∈ (k.addLock rid f).current.toList ++ (k.addLock rid f).locks := by
  unfold Key.addLock
  cases hc : k.current with
  | none =>
    rw [hc] at hy
    exact List.mem_append_right _ hy
  | some c =>
    simp only []
    rw [locksPush_cur]
    have hcm : (k.modRec rid f).current = some c := hc
    rw [hcm]
    rw [hc] at hy
    rcases List.mem_append.mp hy with h | h
    · exact List.mem_append_left _ h
    · exact List.mem_append_right _ (locksPush_mem_live _ rid y h hl)

/-- **the holders after the grant** -/
theorem grant_holders (w : W) (l : Lv w zero) (cn : CurNone w.k) (rid : Nat) (g : Grantable w.k rid)
    (hnot : rid ∉ w.k.current.toList ++ w.k.locks) :
    (Key.abs (w.grant rid).k).holders = (Key.abs w.k).holders ++ [((w.grant rid).k.getR rid).toHold] := by
  obtain ⟨lg, hhg⟩ := l.grant zero_nonneg rid g
  obtain ⟨hrec, hhold, _⟩ := grant_rec w rid g.has
  have hlive : (w.grant rid).k.liveHolder rid = true := by
    have e : ((w.grant rid).k.getR rid).toHold.depth = ((w.grant rid).k.getR rid).depth := rfl
    have : ((w.grant rid).k.getR rid).toHold.depth = 1 := by rw [hhold]
    unfold Key.liveHolder
    rw [← e, this]; rfl
  have p := grant_others w rid
  have d := qk_grant_tail w rid
  obtain ⟨q1, q2, _⟩ := queues_eq d.q
  have hdang : ∀ y, y ∈ (w.grant rid).k.current.toList ++ (w.grant rid).k.locks → (w.grant rid).k.hasRec y := by
    intro y hy
    apply lg.rc.dang
    have := qRefs_pos_of_holder (w.grant rid).k y hy
    simp only [zero]; omega
  -- a record other than `rid` that the final state still has: same view
  have hlv : ∀ y, y ≠ rid → (w.grant rid).k.hasRec y →
      (w.grant rid).k.liveHolder y = w.k.liveHolder y ∧ holdOf (w.grant rid).k y = holdOf w.k y := by
    intro y hne hy
    have := p.val y hne hy
    exact ⟨by unfold Key.liveHolder; rw [show ((w.grant rid).k.getR y).depth = (w.k.getR y).depth from congrArg (fun t => t.1.depth) this],
      congrArg (fun t => t.1) this⟩
  -- a record the final state no longer has is not live there
  have hgone : ∀ y, ¬ (w.grant rid).k.hasRec y → (w.grant rid).k.liveHolder y = false := by
    intro y hy
    unfold Key.liveHolder
    rw [getR_of_not_hasRec _ _ hy]; rfl
  rw [abs_holders, abs_holders, q1, q2]
  show (((w.k.addLock rid (addLockF w.db w.k)).current.toList ++ (w.k.addLock rid (addLockF w.db w.k)).locks).filter
    (fun x => (w.grant rid).k.liveHolder x)).map (holdOf (w.grant rid).k) = _
  have hids := addLock_ids w.k cn rid (addLockF w.db w.k) (fun x => (w.grant rid).k.liveHolder x) (by
    intro y hy hdead
    have hne : y ≠ rid := by intro e; apply hnot; rw [← e]; exact List.mem_append_right _ hy
    by_cases hh : (w.grant rid).k.hasRec y
    · rw [(hlv y hne hh).1]
      unfold Key.liveHolder at hdead ⊢
      rw [getR_modRec_other _ _ _ _ (fun r => (addLockF_fields w.db w.k r).1) hne] at hdead
      exact hdead
    · exact hgone y hh)
  rw [hids, List.map_append]
  congr 1
  · apply filter_map_congr_on
    intro y hy
    have hne : y ≠ rid := fun e => hnot (e ▸ hy)
    by_cases hh : (w.grant rid).k.hasRec y
    · exact ⟨(hlv y hne hh).1, fun _ => (hlv y hne hh).2⟩
    · -- not there any more: then it was a tombstone of the queue (a live entry is still queued, hence still a record)
      have hdw : w.k.liveHolder y = false := by
        cases hv : w.k.liveHolder y with
        | false => rfl
        | true =>
          exfalso
          apply hh
          apply hdang
          rw [q1, q2]
          apply addLock_mem_live w.k rid y (addLockF w.db w.k) hy
          unfold Key.liveHolder at hv ⊢
          rw [getR_modRec_other _ _ _ _ (fun r => (addLockF_fields w.db w.k r).1) hne]
          exact hv
      refine ⟨by rw [hgone y hh, hdw], fun hq => ?_⟩
      rw [hdw] at hq; exact absurd hq (by simp)
  · simp only [List.filter, hlive, List.map_cons, List.map_nil]; rfl

end Slock.Sim
