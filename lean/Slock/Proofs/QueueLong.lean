import Slock.Proofs.QueueRestr
/-! C20: `LongWaitLockQueue` (db.go 19–60) and `restructuringLong{TimeOut,Expried}Queue` (db.go, repaired) over the
segmented deque: Push / Pop / Remove (in-place hole) / restructuring. -/
namespace Slock.Queue

/-- invariant of a `LongWaitLockQueue`: the deque invariant plus "cells before the head cursor are nil" -/
def LInv (l : LongQ) : Prop := QInv l.q ∧ HeadClean l.q

/-- **LongWaitLockQueue.Push** ≙ append. -/
theorem longPush_spec {l : LongQ} (h : LInv l) (id : Nat) :
    ∃ l', longPush l id = .ok l' ∧ LInv l' ∧ abs l'.q = abs l.q ++ [some id] := by
  obtain ⟨q', e, hq, ha, hc⟩ := push_spec h.1 (some id)
  refine ⟨_, by simp only [longPush, e, Res.ok_bind, Res.pure_eq]; rfl, ⟨hq, hc h.2⟩, ha⟩

/-- **LongWaitLockQueue.Pop** ≙ remove first (a hole is returned as nil, exactly like an empty queue). -/
theorem longPop_spec {l : LongQ} (h : LInv l) :
    ∃ l', longPop l = .ok (l', (abs l.q).head?.join) ∧ LInv l' ∧ abs l'.q = (abs l.q).tail := by
  obtain ⟨q', e, hq, ha, hc⟩ := pop_spec h.1
  cases hx : (abs l.q).head?.join with
  | none =>
    rw [hx] at e
    exact ⟨{ l with q := q' }, by simp only [longPop, e, Res.ok_bind, Res.pure_eq], ⟨hq, hc h.2⟩, ha⟩
  | some id =>
    rw [hx] at e
    exact ⟨{ (l.clearIdx id) with q := q', lockCount := l.lockCount - 1 },
      by simp only [longPop, e, Res.ok_bind, Res.pure_eq], ⟨hq, hc h.2⟩, ha⟩

/-- the precondition of `Remove(lock)`: the lock's `longWaitIndex` designates the cell at content position `p` -/
def removeAt (l : LongQ) (id p : Nat) : Bool :=
  let nc := lookIdx l id
  nc.2 != 0 && decide (p < (abs l.q).length) &&
  decide (off l.q.queues nc.1 + (nc.2 - 1) = off l.q.queues l.q.hni + l.q.hqi + p) &&
  (match l.q.queues[nc.1]? with
   | some (some a) => decide (nc.2 - 1 < a.length)
   | _ => false)

/-- **LongWaitLockQueue.Remove** ≙ punch a hole at the lock's position (content position `p`). -/
theorem longRemove_spec {l : LongQ} (h : LInv l) (id p : Nat) (hp : removeAt l id p = true) :
    ∃ l', longRemove l id = .ok l' ∧ LInv l' ∧ abs l'.q = (abs l.q).set p none := by
  unfold removeAt at hp
  simp only [Bool.and_eq_true, bne_iff_ne, ne_eq, decide_eq_true_eq] at hp
  obtain ⟨⟨⟨hc0, _⟩, hpos⟩, hcell⟩ := hp
  cases hq : l.q.queues[(lookIdx l id).1]? with
  | none => simp [hq] at hcell
  | some s =>
    cases s with
    | none => simp [hq] at hcell
    | some a =>
      simp only [hq, decide_eq_true_eq] at hcell
      have hs := shape_set_cell l.q.queues (lookIdx l id).1 ((lookIdx l id).2 - 1) a none hq
      refine ⟨{ (l.clearIdx id) with q := { l.q with queues := l.q.queues.set (lookIdx l id).1 (some (a.set ((lookIdx l id).2 - 1) none)) },
                                       freeCount := l.freeCount + 1 }, ?_, ⟨QInv_setQueues h.1 _ hs, ?_⟩, ?_⟩
      · unfold longRemove
        simp only [hc0, if_false, hq, hcell, if_true]
      · show cleanL _ l.q.hni l.q.hqi
        apply cleanL_set _ _ _ _ _ hq hcell l.q.hni l.q.hqi l.q.hni l.q.hqi h.2
        intro p' hp'
        by_cases cp : p' = off l.q.queues (lookIdx l id).1 + ((lookIdx l id).2 - 1)
        · exact Or.inl ⟨cp, rfl⟩
        · exact Or.inr ⟨cp, hp'⟩
      · show absL _ l.q.hni l.q.hqi l.q.tni l.q.tqi = _
        rw [absL_set _ _ _ _ _ hq hcell, hpos]
        unfold abs absL
        exact G_hole _ _ _ _ _


/-! ### `restructuringLong{TimeOut,Expried}Queue` -/

@[simp] theorem Res.panic_bind {α β : Type} (f : α → Res β) : (Res.panic >>= f) = Res.panic := rfl
@[simp] theorem Res.unmodelled_bind {α β : Type} (f : α → Res β) : (Res.unmodelled >>= f) = Res.unmodelled := rfl

theorem longPush_proj {l : LongQ} {id : Nat} {q' : Q} (h : push l.q (some id) = .ok q') :
    ∃ l', longPush l id = .ok l' ∧ l'.q = q' :=
  ⟨_, by simp only [longPush, h, Res.ok_bind, Res.pure_eq]; rfl, rfl⟩

/-- the LongQ compaction loops do to the underlying deque exactly what the plain loops do -/
theorem longRestrRange_proj (j : Nat) : ∀ n k (l : LongQ) (q' : Q), restrRange j k n l.q = .ok q' →
    ∃ l', longRestrRange j k n l = .ok l' ∧ l'.q = q' := by
  intro n
  induction n with
  | zero => intro k l q' h; simp only [restrRange] at h; injection h with h; exact ⟨l, rfl, h⟩
  | succ n ih =>
    intro k l q' h
    unfold restrRange at h
    unfold longRestrRange
    cases hs : slot l.q j with
    | panic => simp [hs] at h
    | unmodelled => simp [hs] at h
    | ok s =>
      simp only [hs, Res.ok_bind] at h ⊢
      cases s with
      | none => simp at h
      | some a =>
        simp only [] at h ⊢
        cases hk : a[k]? with
        | none => simp [hk] at h
        | some c =>
          cases c with
          | none =>
            simp only [hk] at h ⊢
            exact ih (k + 1) l q' h
          | some x =>
            simp only [hk] at h ⊢
            cases hp : push { l.q with queues := l.q.queues.set j (some (a.set k none)) } (some x) with
            | panic => simp [hp] at h
            | unmodelled => simp [hp] at h
            | ok q1 =>
              simp only [hp, Res.ok_bind] at h
              obtain ⟨l1, e1, e2⟩ := longPush_proj (l := { l with q := { l.q with queues := l.q.queues.set j (some (a.set k none)) } }) (id := x) hp
              simp only [e1, Res.ok_bind]
              apply ih (k + 1) l1 q'
              rw [e2]; exact h

theorem longRestrNodes_proj : ∀ n j (l : LongQ) (q' : Q), restrNodes j n l.q = .ok q' →
    ∃ l', longRestrNodes j n l = .ok l' ∧ l'.q = q' := by
  intro n
  induction n with
  | zero => intro j l q' h; simp only [restrNodes] at h; injection h with h; exact ⟨l, rfl, h⟩
  | succ n ih =>
    intro j l q' h
    unfold restrNodes at h
    unfold longRestrNodes
    cases hs : size l.q j with
    | panic => simp [hs] at h
    | unmodelled => simp [hs] at h
    | ok s =>
      simp only [hs, Res.ok_bind] at h ⊢
      cases hr : restrRange j 0 s l.q with
      | panic => simp [hr] at h
      | unmodelled => simp [hr] at h
      | ok q1 =>
        simp only [hr, Res.ok_bind] at h
        obtain ⟨l1, e1, e2⟩ := longRestrRange_proj j s 0 l q1 hr
        simp only [e1, Res.ok_bind]
        apply ih (j + 1) l1 q'
        rw [e2]; exact h


theorem sumSizes_nodeIndex (q : Q) (x : Nat) : ∀ n i, sumSizes { q with nodeIndex := x } i n = sumSizes q i n := by
  intro n
  induction n with
  | zero => intro i; rfl
  | succ n ih => intro i; simp only [sumSizes, ih]; rfl

theorem len_nodeIndex (q : Q) (x : Nat) : len { q with nodeIndex := x } = len q := by
  unfold len
  simp only [sumSizes_nodeIndex]
  rfl

/-- the recomputed allocation size `baseQueueSize * 2^tailNodeIndex` fits an int32 -/
def LongQsOK (q : Q) : Prop := 0 < q.baseQueueSize ∧ q.baseQueueSize * 2 ^ q.nodeIndex < 2147483648

instance (q : Q) : Decidable (LongQsOK q) := by unfold LongQsOK; exact inferInstance

theorem longQs_bounds (B N T' : Nat) (hB : 0 < B) (hN : B * 2 ^ N < 2147483648) (hT : T' ≤ N) :
    0 < longQueueSize B T' ∧ longQueueSize B T' < 1073741824 := by
  unfold longQueueSize
  have hp : 2 ^ T' ≤ 2 ^ N := Nat.pow_le_pow_right (by omega) hT
  have hm : B * 2 ^ T' ≤ B * 2 ^ N := Nat.mul_le_mul_left _ hp
  have hpos : 0 < 2 ^ T' := Nat.two_pow_pos T'
  have h1 : 2 ^ T' ≤ B * 2 ^ T' := Nat.le_mul_of_pos_left _ hB
  have hT31 : T' < 31 := by
    by_cases c : T' < 31
    · exact c
    · have : 2 ^ 31 ≤ 2 ^ T' := Nat.pow_le_pow_right (by omega) (by omega)
      omega
  have hmm : (maxMalloc : Int) = 67108863 := by simp [maxMalloc, Slock.Gen.C.QUEUE_MAX_MALLOC_SIZE]
  have hs : shl1 T' = ((2 ^ T' : Nat) : Int) := by simp [shl1, hT31]
  have hprod : (B : Int) * ((2 ^ T' : Nat) : Int) = ((B * 2 ^ T' : Nat) : Int) := by rw [Int.natCast_mul]
  have hposP : 0 < B * 2 ^ T' := Nat.mul_pos hB hpos
  simp only [hs, hprod, hmm]
  have hlt : B * 2 ^ T' < 2147483648 := by omega
  clear hp hm h1 hpos hs hprod hN hT31
  generalize B * 2 ^ T' = P at *
  have hw : wrap32 (P : Int) = P := by unfold wrap32; omega
  rw [hw]
  by_cases c : (P : Int) > 67108863
  · simp only [c, if_true]; omega
  · simp only [c, if_false]; omega


/-- **restructuringLong{TimeOut,Expried}Queue** (db.go, as repaired in /repo f18505b) ≙ drop the holes; an emptied queue
is additionally `Reset`.  No `NoSpare` precondition is needed any more: the freeing loop starts at `nodeIndex`. -/
theorem longRestructuring_spec {l : LongQ} (h : LInv l) (hq : LongQsOK l.q) :
    ∃ l', longRestructuring l = .ok l' ∧ LInv l' ∧ abs l'.q = (abs l.q).filter Option.isSome := by
  obtain ⟨q0, q1, q2, e0, e1, e2, hq2, hn2, hqi2, ni2, bq2, ab2⟩ := restr_loops h.1 h.2
  obtain ⟨l1, f1, g1⟩ := longRestrNodes_proj l.q.tni 0 { l with q := q0, lockCount := 0, freeCount := 0 } q1 e1
  obtain ⟨l2, f2, g2⟩ := longRestrRange_proj l.q.tni l.q.tqi 0 l1 q2 (by rw [g1]; exact e2)
  obtain ⟨q3, T', e3, hq3, hT', ab3, ni3, hn3, hq3', tn3, bq3⟩ := restrFree_spec q2.nodeIndex q2.nodeIndex q2
    (QInv_ni_self hq2 rfl) (by omega)
  have hb := longQs_bounds l.q.baseQueueSize l.q.nodeIndex T' hq.1 hq.2 (by rw [← ni2]; exact hT')
  rw [← bq2, ← bq3] at hb
  -- the state after the freeing loop, with the recomputed allocation size and the lowered nodeIndex
  have hQf : QInv { q3 with nodeIndex := T', queueSize := longQueueSize q3.baseQueueSize T' } :=
    QInv_setQueueSize hq3 _ hb.1 hb.2
  have hlen := len_refines hQf
  have hlen' := len_nodeIndex { q3 with queueSize := longQueueSize q3.baseQueueSize T' } T'
  have hlen2 : len { q3 with queueSize := longQueueSize q3.baseQueueSize T' } = .ok ((abs q3).length : Int) := by
    rw [← hlen']; exact hlen
  have hd : ¬ q3.nodeIndex < q2.nodeIndex - T' := by rw [ni3]; omega
  have hsub : q3.nodeIndex - (q2.nodeIndex - T') = T' := by rw [ni3]; omega
  have habs : abs q3 = (abs l.q).filter Option.isSome := by rw [ab3, ab2]
  have hcl : HeadClean { q3 with nodeIndex := T', queueSize := longQueueSize q3.baseQueueSize T' } :=
    HeadClean_origin (by show q3.hni = 0; rw [hn3]; exact hn2) (by show q3.hqi = 0; rw [hq3']; exact hqi2)
  by_cases cz : (abs q3).length = 0
  · obtain ⟨q5, r1, r2, r3, r4⟩ := reset_spec hQf
    refine ⟨{ l2 with q := q5, lockCount := -1, freeCount := -1 }, ?_, ⟨r2, r4⟩, ?_⟩
    · simp only [longRestructuring, e0, Res.ok_bind, f1, f2, g2, e3, hlen2, hd, if_false, hsub, cz, Int.natCast_zero,
        if_true, r1, Res.pure_eq]
    · show abs q5 = _
      rw [r3, ← habs]; exact (List.length_eq_zero_iff.mp cz).symm
  · refine ⟨{ l2 with q := { q3 with nodeIndex := T', queueSize := longQueueSize q3.baseQueueSize T' } }, ?_, ⟨hQf, hcl⟩, habs⟩
    have cz' : ¬ ((abs q3).length : Int) = 0 := by omega
    simp only [longRestructuring, e0, Res.ok_bind, f1, f2, g2, e3, hlen2, hd, if_false, hsub, cz', Res.pure_eq]

end Slock.Queue
