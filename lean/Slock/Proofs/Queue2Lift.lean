import Slock.Proofs.Queue2RePush
/-!
# Arbitrary operation sequences from the constructor (ring, priority ring)

`runOps step s ops` = the observations of running `ops` from state `s`; a Go panic is the observation
`Obs.panic` and ends the run (the instance is discarded).  The theorems say: the real container and the
specification container produce the SAME observation list for EVERY operation list.
-/
namespace Slock.Queue2

inductive QOp where
  | push (x : Slot)
  | pop | head | len | iter | maxprio
  | mutate (f : Elem → Elem) (id : Nat)   -- in-place change of a queued lock (tombstoning)

inductive Obs where
  | done
  | slot (s : Slot)
  | int (n : Int)
  | content (l : List Slot)      -- IterNodes, concatenated
  | prio (n : Nat)
  | panic
  deriving DecidableEq

def runOps {σ : Type} (step : σ → QOp → Res (σ × Obs)) : σ → List QOp → List Obs
  | _, [] => []
  | s, op :: ops =>
    match step s op with
    | .panic => [Obs.panic]
    | .ok (s', o) => o :: runOps step s' ops

/-- simulation ⇒ equal observations -/
theorem runOps_sim {σ τ : Type} (f : σ → QOp → Res (σ × Obs)) (g : τ → QOp → Res (τ × Obs))
    (R : σ → τ → Prop)
    (hstep : ∀ s t op, R s t →
      (f s op = .panic ∧ g t op = .panic) ∨
      ∃ s' t' o, f s op = .ok (s', o) ∧ g t op = .ok (t', o) ∧ R s' t')
    (s : σ) (t : τ) (h : R s t) (ops : List QOp) : runOps f s ops = runOps g t ops := by
  induction ops generalizing s t with
  | nil => rfl
  | cons op ops ih =>
    rcases hstep s t op h with ⟨h1, h2⟩ | ⟨s', t', o, h1, h2, h3⟩
    · simp only [runOps, h1, h2]
    · simp only [runOps, h1, h2, ih s' t' h3]

/-! ## ring vs FIFO list -/

def Ring.step (grow : Nat → Nat) (q : Ring) : QOp → Res (Ring × Obs)
  | .push x => match q.push grow x with
    | .ok q' => .ok (q', .done)
    | .panic => .panic
  | .pop => .ok (q.pop.1, .slot q.pop.2)
  | .head => .ok (q, .slot q.head)
  | .len => .ok (q, .int q.len)
  | .iter => .ok (q, .content q.iterNodes.flatten)
  | .maxprio => match q.maxPriority with
    | .ok n => .ok (q, .prio n)
    | .panic => .panic
  | .mutate f id => .ok (q.mapId f id, .done)

/-- the specification: a plain FIFO list of (possibly nil) lock pointers -/
def fifoStep (l : List Slot) : QOp → Res (List Slot × Obs)
  | .push x => .ok (l ++ [x], .done)
  | .pop => .ok (l.tail, .slot (l.headD none))
  | .head => .ok (l, .slot (l.headD none))
  | .len => .ok (l, .int l.length)
  | .iter => .ok (l, .content l)
  | .maxprio => match l with
    | [] => .ok (l, .prio 0)
    | none :: _ => .panic          -- Go: nil dereference
    | some e :: _ => .ok (l, .prio e.priority)
  | .mutate f id => .ok (l.map (killSlot f id), .done)

theorem Ring.step_sim (grow : Nat → Nat) (hg : GrowOK grow) (q : Ring) (l : List Slot) (op : QOp)
    (h : q.Inv ∧ q.abs = l) :
    (Ring.step grow q op = .panic ∧ fifoStep l op = .panic) ∨
    ∃ q' l' o, Ring.step grow q op = .ok (q', o) ∧ fifoStep l op = .ok (l', o) ∧ (q'.Inv ∧ q'.abs = l') := by
  obtain ⟨hi, ha⟩ := h
  subst ha
  cases op with
  | push x =>
    obtain ⟨q', h1, h2, h3⟩ := Ring.push_refines grow hg q x hi
    exact Or.inr ⟨q', _, .done, by simp [Ring.step, h1], rfl, h2, h3⟩
  | pop =>
    obtain ⟨h1, h2, h3⟩ := Ring.pop_refines q hi
    exact Or.inr ⟨_, _, _, rfl, by simp [fifoStep, h3], h1, h2⟩
  | head => exact Or.inr ⟨_, _, _, rfl, by simp [fifoStep, Ring.head_refines], hi, rfl⟩
  | len => exact Or.inr ⟨_, _, _, rfl, by simp [fifoStep, Ring.len_refines q hi], hi, rfl⟩
  | iter => exact Or.inr ⟨_, _, _, rfl, by simp [fifoStep, Ring.iterNodes_flatten], hi, rfl⟩
  | maxprio =>
    have hm := Ring.maxPriority_refines q
    cases hab : q.abs with
    | nil =>
      rw [hab] at hm
      exact Or.inr ⟨q, _, .prio 0, by simp [Ring.step, hm], by simp [fifoStep], hi, hab⟩
    | cons s t =>
      rw [hab] at hm
      cases s with
      | none => exact Or.inl ⟨by simp [Ring.step, hm], by simp [fifoStep]⟩
      | some e => exact Or.inr ⟨q, _, .prio e.priority, by simp [Ring.step, hm], by simp [fifoStep], hi, hab⟩
  | mutate f id =>
    exact Or.inr ⟨_, _, _, rfl, rfl, Ring.mapId_inv f id q hi, Ring.mapId_abs f id q⟩

/-! ## priority ring vs stable priority queue -/

def PRing.step (grow : Nat → Nat) (q : PRing) : QOp → Res (PRing × Obs)
  | .push x => match q.push grow x with
    | .ok q' => .ok (q', .done)
    | .panic => .panic
  | .pop => .ok (q.pop.1, .slot q.pop.2)
  | .head => .ok (q, .slot q.head)
  | .len => .ok (q, .int q.len)
  | .iter => .ok (q, .content q.iterNodes.flatten)
  | .maxprio => .ok (q, .prio q.maxPriority)
  | .mutate f id => .ok (q.mapId f id, .done)

/-- the specification: a list kept in stable descending priority order -/
def prioStep (l : List Slot) : QOp → Res (List Slot × Obs)
  | .push none => .panic             -- Go: nil dereference
  | .push (some e) => .ok (specPushPrio (some e) l, .done)
  | .pop => .ok (l.tail, .slot (l.headD none))
  | .head => .ok (l, .slot (l.headD none))
  | .len => .ok (l, .int l.length)
  | .iter => .ok (l, .content l)
  | .maxprio => .ok (l, .prio (prioOf (l.headD none)))
  | .mutate f id => .ok (l.map (killSlot f id), .done)

/-- mutations that keep the priority of every lock (tombstoning does) -/
def PrioPreserving : QOp → Prop
  | .mutate f _ => ∀ e, (f e).priority = e.priority
  | _ => True

theorem PRing.step_sim (grow : Nat → Nat) (hg : GrowOK grow) (q : PRing) (l : List Slot) (op : QOp)
    (hop : PrioPreserving op) (h : q.Inv ∧ q.abs = l) :
    (PRing.step grow q op = .panic ∧ prioStep l op = .panic) ∨
    ∃ q' l' o, PRing.step grow q op = .ok (q', o) ∧ prioStep l op = .ok (l', o) ∧ (q'.Inv ∧ q'.abs = l') := by
  obtain ⟨hi, ha⟩ := h
  subst ha
  cases op with
  | push x =>
    cases x with
    | none => exact Or.inl ⟨by simp [PRing.step, PRing.push], rfl⟩
    | some e =>
      obtain ⟨q', h1, h2, h3, _⟩ := PRing.push_refines grow hg q e hi
      exact Or.inr ⟨q', _, .done, by simp [PRing.step, h1], rfl, h2, h3⟩
  | pop =>
    obtain ⟨h1, h2, h3⟩ := PRing.pop_refines q hi
    exact Or.inr ⟨_, _, _, rfl, by simp [prioStep, h3], h1, h2⟩
  | head => exact Or.inr ⟨_, _, _, rfl, by simp [prioStep, PRing.head_refines q hi], hi, rfl⟩
  | len => exact Or.inr ⟨_, _, _, rfl, by simp [prioStep, PRing.len_refines q hi], hi, rfl⟩
  | iter => exact Or.inr ⟨_, _, _, rfl, by simp [prioStep, (PRing.iterNodes_refines q).1], hi, rfl⟩
  | maxprio => exact Or.inr ⟨_, _, _, rfl, by simp [prioStep, PRing.maxPriority_refines q hi], hi, rfl⟩
  | mutate f id =>
    obtain ⟨h1, h2⟩ := PRing.mapId_refines f hop id q hi
    exact Or.inr ⟨_, _, _, rfl, rfl, h1, h2⟩

/-- `runOps` with a side condition on the operations -/
theorem runOps_sim_on {σ τ : Type} (P : QOp → Prop) (f : σ → QOp → Res (σ × Obs))
    (g : τ → QOp → Res (τ × Obs)) (R : σ → τ → Prop)
    (hstep : ∀ s t op, P op → R s t →
      (f s op = .panic ∧ g t op = .panic) ∨
      ∃ s' t' o, f s op = .ok (s', o) ∧ g t op = .ok (t', o) ∧ R s' t')
    (s : σ) (t : τ) (h : R s t) (ops : List QOp) (hops : ∀ op ∈ ops, P op) :
    runOps f s ops = runOps g t ops := by
  induction ops generalizing s t with
  | nil => rfl
  | cons op ops ih =>
    rcases hstep s t op (hops op (by simp)) h with ⟨h1, h2⟩ | ⟨s', t', o, h1, h2, h3⟩
    · simp only [runOps, h1, h2]
    · simp only [runOps, h1, h2, ih s' t' h3 (fun o ho => hops o (by simp [ho]))]

end Slock.Queue2
