import Slock.Proofs.EngineReplies
import Slock.Proofs.EngineExpiry
/-!
Keyed provenance of queued requests and holds: after any step, every record found under key id `n` was under `n`
before, or is one of the explicitly described records the step creates. Element-wise invariants of reachable
states (C05 / C06 not-late, key consistency) are read off these lemmas.
-/
namespace Slock.Engine

/-- `w` is queued under key id `n` -/
def WaitAt (db : DB) (n : Nat) (w : Waiter) : Prop := ∃ k ∈ db.keys, k.key = n ∧ w ∈ k.waiters
/-- `h` is a live hold under key id `n` -/
def HoldAt (db : DB) (n : Nat) (h : Hold) : Prop := ∃ k ∈ db.keys, k.key = n ∧ h ∈ k.holders

theorem getKey_mem_or_empty (db : DB) (n : Nat) : db.getKey n ∈ db.keys ∨ db.getKey n = emptyKey n := by
  unfold DB.getKey
  cases hf : db.keys.find? (·.key == n) with
  | none => exact Or.inr rfl
  | some k => exact Or.inl (List.mem_of_find?_eq_some hf)

theorem waitAt_getKey {db : DB} {n : Nat} {w : Waiter} (h : w ∈ (db.getKey n).waiters) : WaitAt db n w := by
  rcases getKey_mem_or_empty db n with h1 | h1
  · exact ⟨_, h1, getKey_key db n, h⟩
  · rw [h1] at h; simp [emptyKey] at h

theorem holdAt_getKey {db : DB} {n : Nat} {x : Hold} (h : x ∈ (db.getKey n).holders) : HoldAt db n x := by
  rcases getKey_mem_or_empty db n with h1 | h1
  · exact ⟨_, h1, getKey_key db n, h⟩
  · rw [h1] at h; simp [emptyKey] at h

theorem mem_setKey_keys {db : DB} {k x : Key} (h : x ∈ (db.setKey k).keys) : (x ∈ db.keys ∧ x.key ≠ k.key) ∨ x = k := by
  unfold DB.setKey at h
  simp only [] at h
  split at h
  · have := List.mem_filter.mp h; exact Or.inl ⟨this.1, by simpa using this.2⟩
  · rcases List.mem_append.mp h with h1 | h1
    · have := List.mem_filter.mp h1; exact Or.inl ⟨this.1, by simpa using this.2⟩
    · simp at h1; exact Or.inr h1

theorem waitAt_setKey {db : DB} {k : Key} {n : Nat} {w : Waiter} (h : WaitAt (db.setKey k) n w) :
    (n ≠ k.key ∧ WaitAt db n w) ∨ (n = k.key ∧ w ∈ k.waiters) := by
  obtain ⟨x, hx, hn, hw⟩ := h
  rcases mem_setKey_keys hx with ⟨h1, h2⟩ | h1
  · exact Or.inl ⟨by rw [← hn]; exact h2, x, h1, hn, hw⟩
  · subst h1; exact Or.inr ⟨hn.symm, hw⟩

theorem holdAt_setKey {db : DB} {k : Key} {n : Nat} {x : Hold} (h : HoldAt (db.setKey k) n x) :
    (n ≠ k.key ∧ HoldAt db n x) ∨ (n = k.key ∧ x ∈ k.holders) := by
  obtain ⟨y, hy, hn, hw⟩ := h
  rcases mem_setKey_keys hy with ⟨h1, h2⟩ | h1
  · exact Or.inl ⟨by rw [← hn]; exact h2, y, h1, hn, hw⟩
  · subst h1; exact Or.inr ⟨hn.symm, hw⟩

theorem WaitAt.of_keys_eq {db db' : DB} {n : Nat} {w : Waiter} (e : db'.keys = db.keys) (h : WaitAt db' n w) : WaitAt db n w := by
  unfold WaitAt at *; rw [e] at h; exact h

theorem HoldAt.of_keys_eq {db db' : DB} {n : Nat} {x : Hold} (e : db'.keys = db.keys) (h : HoldAt db' n x) : HoldAt db n x := by
  unfold HoldAt at *; rw [e] at h; exact h

theorem find_key_of_mem (ks : List Key) (hn : (ks.map (·.key)).Nodup) {k : Key} (hm : k ∈ ks) :
    ks.find? (·.key == k.key) = some k := by
  induction ks with
  | nil => simp at hm
  | cons x xs ih =>
    have hx : x.key ∉ xs.map (·.key) ∧ (xs.map (·.key)).Nodup := List.nodup_cons.mp (by simpa only [List.map_cons] using hn)
    rcases List.mem_cons.mp hm with h1 | h1
    · subst h1; simp
    · have hne : x.key ≠ k.key := by
        intro e; apply hx.1; rw [e]; exact List.mem_map.mpr ⟨k, h1, rfl⟩
      have hb : (x.key == k.key) = false := by simpa using hne
      rw [List.find?_cons, hb]
      exact ih hx.2 h1

theorem getKey_of_mem {db : DB} (hk : KN db) {k : Key} (hm : k ∈ db.keys) : db.getKey k.key = k := by
  unfold DB.getKey; rw [find_key_of_mem db.keys hk hm]; rfl

theorem WaitAt.getKey {db : DB} (hk : KN db) {n : Nat} {w : Waiter} (h : WaitAt db n w) : w ∈ (db.getKey n).waiters := by
  obtain ⟨k, hm, hn, hw⟩ := h
  rw [← hn, getKey_of_mem hk hm]; exact hw

theorem HoldAt.getKey {db : DB} (hk : KN db) {n : Nat} {x : Hold} (h : HoldAt db n x) : x ∈ (db.getKey n).holders := by
  obtain ⟨k, hm, hn, hw⟩ := h
  rw [← hn, getKey_of_mem hk hm]; exact hw

theorem WaitAt.allW {db : DB} {n : Nat} {w : Waiter} (h : WaitAt db n w) : w ∈ allW db := by
  obtain ⟨k, hm, _, hw⟩ := h; exact mem_allW.mpr ⟨k, hm, hw⟩

theorem waitAt_of_allW {db : DB} {w : Waiter} (h : w ∈ allW db) : ∃ n, WaitAt db n w := by
  obtain ⟨k, hm, hw⟩ := mem_allW.mp h; exact ⟨k.key, k, hm, rfl, hw⟩

/-! ### the clock fields -/

theorem clock_fields {a b : DB} (h : clock a = clock b) : a.now = b.now ∧ a.tCheck = b.tCheck ∧ a.eCheck = b.eCheck := by
  unfold clock at h
  simp only [Prod.mk.injEq] at h
  exact ⟨h.1, h.2.1, h.2.2.1⟩

/-! ### the hold a grant creates -/

def grantedHold (db : DB) (c : Cmd) : Hold :=
  { hid := db.seq, cmd := c, conn := c.conn, depth := 1, startT := db.now,
    expT := (wheelAdd db.eCheck db.seq (expiryDeadline db.now c) (initChecked c db.now (expiryDeadline db.now c))).1,
    sched := (wheelAdd db.eCheck db.seq (expiryDeadline db.now c) (initChecked c db.now (expiryDeadline db.now c))).2 }

theorem grantHold_holders_eq (db : DB) (k : Key) (c : Cmd) :
    (grantHold db k c).2.holders = k.holders ++ [grantedHold db c] := rfl
theorem grantHold_seq (db : DB) (k : Key) (c : Cmd) : (grantHold db k c).1.seq = db.seq + 1 := rfl
theorem grantHold_waiters (db : DB) (k : Key) (c : Cmd) : (grantHold db k c).2.waiters = k.waiters := rfl
theorem grantHold_waited (db : DB) (k : Key) (c : Cmd) : (grantHold db k c).2.waited = k.waited := rfl
theorem grantHold_locked (db : DB) (k : Key) (c : Cmd) : (grantHold db k c).2.locked = k.locked + 1 := rfl

/-- everything one iteration of the wake pass does -/
theorem wakeIter_spec {db : DB} {k : Key} {db' : DB} {k' : Key} {r : Reply}
    (h : wakeIter db k = some (db', k', r)) :
    ∃ w rest, k.waiters = w :: rest ∧ doLock k w.cmd = true ∧ k'.waiters = rest ∧ k'.key = k.key ∧ k'.waited = k.waited ∧
      db'.keys = db.keys ∧ clock db' = clock db ∧
      ((k'.holders = k.holders ++ [grantedHold db { w.cmd with conn := w.conn }] ∧ k'.locked = k.locked + 1 ∧ db'.seq = db.seq + 1) ∨
       (k'.holders = k.holders ∧ k'.locked = k.locked ∧ db'.seq = db.seq)) := by
  unfold wakeIter at h
  cases hw : k.waiters with
  | nil => simp [hw] at h
  | cons w rest =>
    refine ⟨w, rest, rfl, ?_⟩
    simp only [hw] at h
    by_cases hd : doLock k w.cmd = true
    · refine ⟨hd, ?_⟩
      simp only [hd, Bool.not_true, Bool.false_eq_true, if_false] at h
      by_cases he : w.cmd.expried > 0
      · simp only [he, if_true] at h
        injection h with h; injection h with h1 h2; injection h2 with h2 h3
        rw [← h1, ← h2]
        exact ⟨rfl, rfl, rfl, rfl, rfl, Or.inl ⟨rfl, rfl, rfl⟩⟩
      · simp only [he, if_false] at h
        injection h with h; injection h with h1 h2; injection h2 with h2 h3
        rw [← h1, ← h2]
        exact ⟨rfl, rfl, rfl, rfl, rfl, Or.inr ⟨rfl, rfl, rfl⟩⟩
    · simp [hd] at h

/-- induction principle for the wake pass: an in-flight property of (DB, key) kept by every iteration and by clearing
the `waited` flag is kept by the pass -/
theorem wakePass_ind (P : DB → Key → Prop)
    (hstep : ∀ db k db' k' r, P db k → wakeIter db k = some (db', k', r) → P db' k')
    (hflag : ∀ db k, P db k → P db { k with waited := false })
    (fuel : Nat) (db : DB) (k : Key) (out : List Reply) (h : P db k) :
    P (wakePass fuel db k out).1 (wakePass fuel db k out).2.1 := by
  induction fuel generalizing db k out with
  | zero => unfold wakePass; split <;> exact h
  | succ n ih =>
    unfold wakePass
    split
    · exact h
    · cases hw : wakeIter db k with
      | none => simp only []; split; exact hflag db k h; exact h
      | some t =>
        obtain ⟨db', k', r⟩ := t
        simp only []
        exact ih db' k' _ (hstep db k db' k' r h hw)

theorem wake_ind (P : DB → Key → Prop)
    (hstep : ∀ db k db' k' r, P db k → wakeIter db k = some (db', k', r) → P db' k')
    (hflag : ∀ db k, P db k → P db { k with waited := false })
    (db : DB) (k : Key) (out : List Reply) (h : P db k) : P (wake db k out).1 (wake db k out).2.1 :=
  wakePass_ind P hstep hflag _ db k out h

/-- a hold created by a wake pass that started from `(db, waiters ws)` -/
def WakeGrant (db : DB) (ws : List Waiter) (x : Hold) : Prop :=
  ∃ db' w, clock db' = clock db ∧ db.seq ≤ db'.seq ∧ w ∈ ws ∧ x = grantedHold db' { w.cmd with conn := w.conn }

theorem WakeGrant.mono {db0 db : DB} {ws0 ws : List Waiter} {x : Hold} (hc : clock db = clock db0) (hs : db0.seq ≤ db.seq)
    (hw : ∀ w ∈ ws, w ∈ ws0) (h : WakeGrant db ws x) : WakeGrant db0 ws0 x := by
  obtain ⟨db', w, h1, h2, h3, h4⟩ := h
  exact ⟨db', w, by rw [h1, hc], by omega, hw w h3, h4⟩

/-- provenance through a wake pass -/
theorem wake_prov (db : DB) (k : Key) (out : List Reply) :
    clock (wake db k out).1 = clock db ∧ db.seq ≤ (wake db k out).1.seq ∧
      (∀ w ∈ (wake db k out).2.1.waiters, w ∈ k.waiters) ∧
      ∀ x ∈ (wake db k out).2.1.holders, x ∈ k.holders ∨ WakeGrant db k.waiters x := by
  apply wake_ind (fun d q => clock d = clock db ∧ db.seq ≤ d.seq ∧ (∀ w ∈ q.waiters, w ∈ k.waiters) ∧
      ∀ x ∈ q.holders, x ∈ k.holders ∨ WakeGrant db k.waiters x)
  · intro d q d' q' r hp hw
    obtain ⟨w, rest, e1, _, e2, _, _, _, ec, hh⟩ := wakeIter_spec hw
    obtain ⟨p1, p2, p3, p4⟩ := hp
    have hwm : w ∈ k.waiters := p3 w (by rw [e1]; simp)
    refine ⟨by rw [ec, p1], ?_, ?_, ?_⟩
    · rcases hh with ⟨_, _, hs⟩ | ⟨_, _, hs⟩ <;> omega
    · intro y hy; rw [e2] at hy; exact p3 y (by rw [e1]; exact List.mem_cons_of_mem _ hy)
    · intro x hx
      rcases hh with ⟨hh, _, _⟩ | ⟨hh, _, _⟩
      · rw [hh] at hx
        rcases List.mem_append.mp hx with h1 | h1
        · exact p4 x h1
        · simp at h1
          exact Or.inr ⟨d, w, p1, p2, hwm, h1⟩
      · rw [hh] at hx; exact p4 x hx
  · intro d q hp; exact hp
  · exact ⟨rfl, Nat.le_refl _, fun w hw => hw, fun x hx => Or.inl hx⟩


/-! ### storing a key: what is found under each key id afterwards -/

theorem holdAt_store {db0 db : DB} {k : Key} {n m : Nat} {x : Hold}
    (h : HoldAt (db.setKey k) n x) (e : db.keys = db0.keys) (hk : k.key = m) : (n ≠ m ∧ HoldAt db0 n x) ∨ (n = m ∧ x ∈ k.holders) := by
  rcases holdAt_setKey h with ⟨h1, h2⟩ | ⟨h1, h2⟩
  · exact Or.inl ⟨by rw [← hk]; exact h1, h2.of_keys_eq e⟩
  · exact Or.inr ⟨by rw [← hk]; exact h1, h2⟩

theorem waitAt_store {db0 db : DB} {k : Key} {n m : Nat} {w : Waiter}
    (h : WaitAt (db.setKey k) n w) (e : db.keys = db0.keys) (hk : k.key = m) : (n ≠ m ∧ WaitAt db0 n w) ∨ (n = m ∧ w ∈ k.waiters) := by
  rcases waitAt_setKey h with ⟨h1, h2⟩ | ⟨h1, h2⟩
  · exact Or.inl ⟨by rw [← hk]; exact h1, h2.of_keys_eq e⟩
  · exact Or.inr ⟨by rw [← hk]; exact h1, h2⟩

theorem holdAt_wake_store {db0 db : DB} {k : Key} {out : List Reply} {n m : Nat} {x : Hold}
    (h : HoldAt ((wake db k out).1.setKey (wake db k out).2.1) n x) (e : db.keys = db0.keys) (hk : k.key = m) :
    (n ≠ m ∧ HoldAt db0 n x) ∨ (n = m ∧ (x ∈ k.holders ∨ WakeGrant db k.waiters x)) := by
  rcases holdAt_store (db0 := db0) (m := m) h (by rw [wake_keys, e]) (by rw [wake_key, hk]) with h1 | ⟨h1, h2⟩
  · exact Or.inl h1
  · exact Or.inr ⟨h1, (wake_prov db k out).2.2.2 x h2⟩

theorem waitAt_wake_store {db0 db : DB} {k : Key} {out : List Reply} {n m : Nat} {w : Waiter}
    (h : WaitAt ((wake db k out).1.setKey (wake db k out).2.1) n w) (e : db.keys = db0.keys) (hk : k.key = m) :
    (n ≠ m ∧ WaitAt db0 n w) ∨ (n = m ∧ w ∈ k.waiters) := by
  rcases waitAt_store (db0 := db0) (m := m) h (by rw [wake_keys, e]) (by rw [wake_key, hk]) with h1 | ⟨h1, h2⟩
  · exact Or.inl h1
  · exact Or.inr ⟨h1, (wake_prov db k out).2.2.1 w h2⟩

theorem updateHold_seq_le' (d : DB) (h : Hold) (c : Cmd) : d.seq ≤ (updateHold d h c).1.seq := by
  unfold updateHold
  split
  · exact Nat.le_refl _
  · simp only []
    split
    · split
      · exact Nat.le_succ _
      · exact Nat.le_refl _
    · exact Nat.le_refl _

/-! ### LOCK -/

theorem opLock_waitAt (db : DB) (c : Cmd) {n : Nat} {w : Waiter} (h : WaitAt (opLock db c).1 n w) :
    WaitAt db n w ∨ (n = c.key ∧ classifyLock db c = .queue ∧ w = newWaiter db c) := by
  unfold opLock at h
  have hkk := getKey_key db c.key
  cases hb : classifyLock db c with
  | p0a | p0b | stateError | unlockedWaitRefused | timeout | «show» cur | updateEqual h' | relockNoHold h' | relockRefused h' =>
    rw [hb] at h; exact Or.inl h
  | update h' =>
    rw [hb] at h; simp only [applyLock] at h
    rcases waitAt_wake_store (db0 := db) (m := c.key) h (updateHold_db_keys _ _ _) hkk with ⟨_, h1⟩ | ⟨hn, h1⟩
    · exact Or.inl h1
    · exact Or.inl (hn ▸ waitAt_getKey h1)
  | relock h' =>
    rw [hb] at h; simp only [applyLock] at h
    rcases waitAt_wake_store (db0 := db) (m := c.key) h (by simp [updateHold_db_keys]) hkk with ⟨_, h1⟩ | ⟨hn, h1⟩
    · exact Or.inl h1
    · exact Or.inl (hn ▸ waitAt_getKey h1)
  | grant =>
    rw [hb] at h; simp only [applyLock] at h
    split at h
    · rcases waitAt_wake_store (db0 := db) (m := c.key) h (grantHold_db_keys _ _ _) (by rw [grantHold_key, hkk]) with ⟨_, h1⟩ | ⟨hn, h1⟩
      · exact Or.inl h1
      · exact Or.inl (hn ▸ waitAt_getKey h1)
    · rcases waitAt_store (db0 := db) (m := c.key) h (grantHold_db_keys db (db.getKey c.key) c) (by rw [grantHold_key, hkk]) with ⟨_, h1⟩ | ⟨hn, h1⟩
      · exact Or.inl h1
      · exact Or.inl (hn ▸ waitAt_getKey h1)
  | grantNoHold =>
    rw [hb] at h; simp only [applyLock] at h
    split at h
    · rcases waitAt_wake_store (db0 := db) (m := c.key) h rfl hkk with ⟨_, h1⟩ | ⟨hn, h1⟩
      · exact Or.inl h1
      · exact Or.inl (hn ▸ waitAt_getKey h1)
    · rcases waitAt_store (db0 := db) (m := c.key) h rfl hkk with ⟨_, h1⟩ | ⟨hn, h1⟩
      · exact Or.inl h1
      · exact Or.inl (hn ▸ waitAt_getKey h1)
  | queue =>
    rw [hb] at h; simp only [applyLock] at h
    rcases waitAt_store (db0 := db) (m := c.key) h rfl hkk with ⟨_, h1⟩ | ⟨hn, h1⟩
    · exact Or.inl h1
    · rcases mem_insertWaiter h1 with h2 | h2
      · exact Or.inr ⟨hn, rfl, h2⟩
      · exact Or.inl (hn ▸ waitAt_getKey h2)

theorem opLock_holdAt (db : DB) (c : Cmd) {n : Nat} {x : Hold} (h : HoldAt (opLock db c).1 n x) :
    HoldAt db n x ∨ (n = c.key ∧ (x = grantedHold db c ∨ WakeGrant db (db.getKey c.key).waiters x ∨
      (∃ h0, classifyLock db c = .update h0 ∧ x = (updateHold db h0 { c with lockId := h0.cmd.lockId }).2) ∨
      (∃ h0, classifyLock db c = .relock h0 ∧ x = (updateHold db { h0 with depth := h0.depth + 1 } c).2))) := by
  unfold opLock at h
  have hkk := getKey_key db c.key
  cases hb : classifyLock db c with
  | p0a | p0b | stateError | unlockedWaitRefused | timeout | «show» cur | updateEqual h' | relockNoHold h' | relockRefused h' =>
    rw [hb] at h; exact Or.inl h
  | update h' =>
    rw [hb] at h; simp only [applyLock] at h
    rcases holdAt_wake_store (db0 := db) (m := c.key) h (updateHold_db_keys _ _ _) hkk with ⟨_, h1⟩ | ⟨hn, h1 | h1⟩
    · exact Or.inl h1
    · rcases mem_replaceHolder h1 with h2 | h2
      · exact Or.inl (hn ▸ holdAt_getKey h2)
      · exact Or.inr ⟨hn, Or.inr (Or.inr (Or.inl ⟨h', rfl, h2⟩))⟩
    · refine Or.inr ⟨hn, Or.inr (Or.inl ?_)⟩
      exact WakeGrant.mono (db0 := db) (clock_updateHold _ _ _) (updateHold_seq_le' _ _ _) (fun w hw => hw) h1
  | relock h' =>
    rw [hb] at h; simp only [applyLock] at h
    rcases holdAt_wake_store (db0 := db) (m := c.key) h (by simp [updateHold_db_keys]) hkk with ⟨_, h1⟩ | ⟨hn, h1 | h1⟩
    · exact Or.inl h1
    · rcases mem_replaceHolder h1 with h2 | h2
      · exact Or.inl (hn ▸ holdAt_getKey h2)
      · exact Or.inr ⟨hn, Or.inr (Or.inr (Or.inr ⟨h', rfl, h2⟩))⟩
    · refine Or.inr ⟨hn, Or.inr (Or.inl ?_)⟩
      exact WakeGrant.mono (db0 := db) (clock_updateHold db { h' with depth := h'.depth + 1 } c)
        (updateHold_seq_le' db { h' with depth := h'.depth + 1 } c) (fun w hw => hw) h1
  | grant =>
    rw [hb] at h; simp only [applyLock] at h
    have hg : ∀ y ∈ (grantHold db (db.getKey c.key) c).2.holders, y ∈ (db.getKey c.key).holders ∨ y = grantedHold db c := by
      intro y hy; rw [grantHold_holders_eq] at hy
      rcases List.mem_append.mp hy with h1 | h1
      · exact Or.inl h1
      · simp at h1; exact Or.inr h1
    split at h
    · rcases holdAt_wake_store (db0 := db) (m := c.key) h (grantHold_db_keys _ _ _) (by rw [grantHold_key, hkk]) with ⟨_, h1⟩ | ⟨hn, h1 | h1⟩
      · exact Or.inl h1
      · rcases hg x h1 with h2 | h2
        · exact Or.inl (hn ▸ holdAt_getKey h2)
        · exact Or.inr ⟨hn, Or.inl h2⟩
      · refine Or.inr ⟨hn, Or.inr (Or.inl ?_)⟩
        exact WakeGrant.mono (db0 := db) (clock_grantHold _ _ _) (by rw [grantHold_seq]; omega) (fun w hw => hw) h1
    · rcases holdAt_store (db0 := db) (m := c.key) h (grantHold_db_keys db (db.getKey c.key) c) (by rw [grantHold_key, hkk]) with ⟨_, h1⟩ | ⟨hn, h1⟩
      · exact Or.inl h1
      · rcases hg x h1 with h2 | h2
        · exact Or.inl (hn ▸ holdAt_getKey h2)
        · exact Or.inr ⟨hn, Or.inl h2⟩
  | grantNoHold =>
    rw [hb] at h; simp only [applyLock] at h
    split at h
    · rcases holdAt_wake_store (db0 := db) (m := c.key) h rfl hkk with ⟨_, h1⟩ | ⟨hn, h1 | h1⟩
      · exact Or.inl h1
      · exact Or.inl (hn ▸ holdAt_getKey h1)
      · exact Or.inr ⟨hn, Or.inr (Or.inl (WakeGrant.mono (db0 := db) rfl (Nat.le_refl _) (fun w hw => hw) h1))⟩
    · rcases holdAt_store (db0 := db) (m := c.key) h rfl hkk with ⟨_, h1⟩ | ⟨hn, h1⟩
      · exact Or.inl h1
      · exact Or.inl (hn ▸ holdAt_getKey h1)
  | queue =>
    rw [hb] at h; simp only [applyLock] at h
    rcases holdAt_store (db0 := db) (m := c.key) h rfl hkk with ⟨_, h1⟩ | ⟨hn, h1⟩
    · exact Or.inl h1
    · exact Or.inl (hn ▸ holdAt_getKey h1)

/-! ### UNLOCK -/

theorem opUnlock_waitAt (db : DB) (c : Cmd) {n : Nat} {w : Waiter} (h : WaitAt (opUnlock db c).1 n w) : WaitAt db n w := by
  unfold opUnlock at h
  have hkk := getKey_key db c.key
  cases hb : classifyUnlock db c with
  | stateError | notLocked | unown | cancelNone => rw [hb] at h; exact h
  | cancel w0 =>
    rw [hb] at h; simp only [applyUnlock] at h
    rcases waitAt_wake_store (db0 := db) (m := c.key) h rfl hkk with ⟨_, h1⟩ | ⟨hn, h1⟩
    · exact h1
    · exact hn ▸ waitAt_getKey (mem_removeWaiter h1)
  | dec h' c' =>
    rw [hb] at h; simp only [applyUnlock] at h
    rcases waitAt_wake_store (db0 := db) (m := c.key) h rfl hkk with ⟨_, h1⟩ | ⟨hn, h1⟩
    · exact h1
    · exact hn ▸ waitAt_getKey h1
  | release h' c' =>
    rw [hb] at h; simp only [applyUnlock] at h
    rcases waitAt_wake_store (db0 := db) (m := c.key) h rfl hkk with ⟨_, h1⟩ | ⟨hn, h1⟩
    · exact h1
    · exact hn ▸ waitAt_getKey h1

theorem opUnlock_holdAt (db : DB) (c : Cmd) {n : Nat} {x : Hold} (h : HoldAt (opUnlock db c).1 n x) :
    HoldAt db n x ∨ (n = c.key ∧ (WakeGrant db (db.getKey c.key).waiters x ∨
      ∃ h0 ∈ (db.getKey c.key).holders, x = { h0 with depth := h0.depth - 1 })) := by
  unfold opUnlock at h
  have hkk := getKey_key db c.key
  cases hb : classifyUnlock db c with
  | stateError | notLocked | unown | cancelNone => rw [hb] at h; exact Or.inl h
  | cancel w0 =>
    rw [hb] at h; simp only [applyUnlock] at h
    rcases holdAt_wake_store (db0 := db) (m := c.key) h rfl hkk with ⟨_, h1⟩ | ⟨hn, h1 | h1⟩
    · exact Or.inl h1
    · exact Or.inl (hn ▸ holdAt_getKey h1)
    · exact Or.inr ⟨hn, Or.inl (WakeGrant.mono (db0 := db) rfl (Nat.le_refl _) (fun w hw => mem_removeWaiter hw) h1)⟩
  | dec h' c' =>
    have hm := classifyUnlock_mem db c h' (by rw [hb]; rfl)
    rw [hb] at h; simp only [applyUnlock] at h
    rcases holdAt_wake_store (db0 := db) (m := c.key) h rfl hkk with ⟨_, h1⟩ | ⟨hn, h1 | h1⟩
    · exact Or.inl h1
    · rcases mem_replaceHolder h1 with h2 | h2
      · exact Or.inl (hn ▸ holdAt_getKey h2)
      · exact Or.inr ⟨hn, Or.inr ⟨h', hm, h2⟩⟩
    · exact Or.inr ⟨hn, Or.inl (WakeGrant.mono (db0 := db) rfl (Nat.le_refl _) (fun w hw => hw) h1)⟩
  | release h' c' =>
    rw [hb] at h; simp only [applyUnlock] at h
    rcases holdAt_wake_store (db0 := db) (m := c.key) h rfl hkk with ⟨_, h1⟩ | ⟨hn, h1 | h1⟩
    · exact Or.inl h1
    · exact Or.inl (hn ▸ holdAt_getKey (mem_removeHolder h1))
    · exact Or.inr ⟨hn, Or.inl (WakeGrant.mono (db0 := db) rfl (Nat.le_refl _) (fun w hw => hw) h1)⟩

/-! ### the sweeps' critical sections -/

theorem fireTimeout_waitAt {db : DB} {key : Nat} {w0 : Waiter} {n : Nat} {w : Waiter} (h : WaitAt (fireTimeout db key w0).1 n w) :
    (n ≠ key ∧ WaitAt db n w) ∨ (n = key ∧ w ∈ removeWaiter (db.getKey key).waiters w0) := by
  unfold fireTimeout at h
  exact waitAt_wake_store (db0 := db) (m := key) h rfl (getKey_key db key)

/-- (since the C04 fix `doTimeOut` ends with a wake pass: it may create holds) -/
theorem fireTimeout_holdAt {db : DB} {key : Nat} {w0 : Waiter} {n : Nat} {x : Hold} (h : HoldAt (fireTimeout db key w0).1 n x) :
    HoldAt db n x ∨ (n = key ∧ WakeGrant db (db.getKey key).waiters x) := by
  unfold fireTimeout at h
  rcases holdAt_wake_store (db0 := db) (m := key) h rfl (getKey_key db key) with ⟨_, h1⟩ | ⟨hn, h1 | h1⟩
  · exact Or.inl h1
  · exact Or.inl (hn ▸ holdAt_getKey h1)
  · exact Or.inr ⟨hn, WakeGrant.mono (db0 := db) rfl (Nat.le_refl _) (fun w hw => mem_removeWaiter hw) h1⟩

theorem fireExpire_waitAt {db : DB} {key : Nat} {h0 : Hold} {n : Nat} {w : Waiter} (h : WaitAt (fireExpire db key h0).1 n w) :
    WaitAt db n w := by
  unfold fireExpire at h
  rcases waitAt_wake_store (db0 := db) (m := key) h rfl (getKey_key db key) with ⟨_, h1⟩ | ⟨hn, h1⟩
  · exact h1
  · exact hn ▸ waitAt_getKey h1

theorem fireExpire_holdAt {db : DB} {key : Nat} {h0 : Hold} {n : Nat} {x : Hold} (h : HoldAt (fireExpire db key h0).1 n x) :
    (n ≠ key ∧ HoldAt db n x) ∨
      (n = key ∧ (x ∈ removeHolder (db.getKey key).holders h0 ∨ WakeGrant db (db.getKey key).waiters x)) := by
  unfold fireExpire at h
  rcases holdAt_wake_store (db0 := db) (m := key) h rfl (getKey_key db key) with h1 | ⟨hn, h1 | h1⟩
  · exact Or.inl h1
  · exact Or.inr ⟨hn, Or.inl h1⟩
  · exact Or.inr ⟨hn, Or.inr (WakeGrant.mono (db0 := db) rfl (Nat.le_refl _) (fun w hw => hw) h1)⟩

theorem rearmWaiter_waitAt {db : DB} {w0 : Waiter} {n : Nat} {w : Waiter} (h : WaitAt (rearmWaiter db w0) n w) :
    (n ≠ w0.cmd.key ∧ WaitAt db n w) ∨
      (n = w0.cmd.key ∧ ((w ∈ (db.getKey n).waiters ∧ (w.cmd.req == w0.cmd.req && w.conn == w0.conn) = false) ∨ w = rearmed db w0)) := by
  rw [rearmWaiter_eq] at h
  unfold updateWaiter at h
  rcases waitAt_store (db0 := db) (m := w0.cmd.key) h rfl (getKey_key _ _) with h1 | ⟨hn, h1⟩
  · exact Or.inl h1
  · refine Or.inr ⟨hn, ?_⟩
    simp only [List.mem_map] at h1
    obtain ⟨y, hy, e⟩ := h1
    split at e
    · exact Or.inr e.symm
    · rename_i hne
      rw [← e, hn]
      exact Or.inl ⟨hy, by simpa using hne⟩

theorem rearmWaiter_holdAt {db : DB} {w0 : Waiter} {n : Nat} {x : Hold} (h : HoldAt (rearmWaiter db w0) n x) : HoldAt db n x := by
  rw [rearmWaiter_eq] at h
  unfold updateWaiter at h
  rcases holdAt_store (db0 := db) (m := w0.cmd.key) h rfl (getKey_key _ _) with ⟨_, h1⟩ | ⟨hn, h1⟩
  · exact h1
  · exact hn ▸ holdAt_getKey (db := db) h1

theorem rearmHold_waitAt {db : DB} {h0 : Hold} {n : Nat} {w : Waiter} (h : WaitAt (rearmHold db h0) n w) : WaitAt db n w := by
  rw [rearmHold_eq] at h
  unfold updateHoldIn at h
  rcases waitAt_store (db0 := db) (m := h0.cmd.key) h rfl (getKey_key _ _) with ⟨_, h1⟩ | ⟨hn, h1⟩
  · exact h1
  · exact hn ▸ waitAt_getKey (db := db) h1

theorem rearmHold_holdAt {db : DB} {h0 : Hold} {n : Nat} {x : Hold} (h : HoldAt (rearmHold db h0) n x) :
    (n ≠ h0.cmd.key ∧ HoldAt db n x) ∨
      (n = h0.cmd.key ∧ x ∈ replaceHolder (db.getKey h0.cmd.key).holders h0 (rearmedH db h0)) := by
  rw [rearmHold_eq] at h
  unfold updateHoldIn at h
  exact holdAt_store (db0 := db) (m := h0.cmd.key) h rfl (getKey_key _ _)

end Slock.Engine
