import Slock.Model.Aof
/-!
Reader lemmas for M-AOF: what one `bufio.Reader.Read` returns, `ReadLock` on a complete record (for EVERY buffer
size and fill state), `ReadLock` at the end of the file, `ReadLock` on a torn tail (io.EOF, wherever the refills fall), `ReadLockData` on a complete / cut value frame.
-/
namespace Slock.Aof

def Rd.Inv (r : Rd) : Prop := r.avail ≤ r.s.length

theorem Rd.open_inv (cap : Nat) (f : Bytes) : (Rd.open cap f).Inv := by
  simp [Rd.Inv, Rd.open]

/-- A non-empty stream: `Read` returns between 1 and `k` bytes, a prefix of the stream. -/
theorem read_some (r : Rd) (k : Nat) (hi : r.Inv) (hk : 0 < k) (hs : 0 < r.s.length) :
    ∃ m r', r.read k = some (m, r') ∧ 0 < m ∧ m ≤ k ∧ m ≤ r.s.length ∧ r'.s = r.s.drop m ∧ r'.cap = r.cap ∧ r'.Inv := by
  unfold Rd.Inv at hi
  unfold Rd.read
  have hk0 : ¬ k = 0 := by omega
  simp only [hk0, if_false]
  by_cases ha : r.avail > 0
  · simp only [ha, if_true]
    refine ⟨_, _, rfl, ?_, ?_, ?_, rfl, rfl, ?_⟩
    · omega
    · omega
    · omega
    · simp only [Rd.Inv, List.length_drop]; omega
  · simp only [ha, if_false]
    have hs0 : ¬ r.s.length = 0 := by omega
    simp only [hs0, if_false]
    by_cases hc : k ≥ r.cap
    · simp only [hc, if_true]
      refine ⟨_, _, rfl, ?_, ?_, ?_, rfl, rfl, ?_⟩
      · omega
      · omega
      · omega
      · simp [Rd.Inv]
    · simp only [hc, if_false]
      refine ⟨_, _, rfl, ?_, ?_, ?_, rfl, rfl, ?_⟩
      · omega
      · omega
      · omega
      · simp only [Rd.Inv, List.length_drop]; omega

theorem read_none (r : Rd) (k : Nat) (hi : r.Inv) (hk : 0 < k) (hs : r.s.length = 0) : r.read k = none := by
  unfold Rd.Inv at hi
  unfold Rd.read
  have hk0 : ¬ k = 0 := by omega
  have ha : ¬ r.avail > 0 := by omega
  simp [hk0, ha, hs]

/-- Enough bytes in the stream and the buffer is either empty or holds all `k`: exactly `k` bytes. -/
theorem read_all (r : Rd) (k : Nat) (hi : r.Inv) (hk : 0 < k) (hs : k ≤ r.s.length) (ha : r.avail = 0 ∨ k ≤ r.avail) :
    ∃ r', r.read k = some (k, r') ∧ r'.s = r.s.drop k ∧ r'.cap = r.cap ∧ r'.Inv := by
  unfold Rd.Inv at hi
  unfold Rd.read
  have hk0 : ¬ k = 0 := by omega
  simp only [hk0, if_false]
  by_cases hav : r.avail > 0
  · simp only [hav, if_true]
    have hm : min k r.avail = k := by omega
    rw [hm]
    refine ⟨_, rfl, rfl, rfl, ?_⟩
    simp only [Rd.Inv, List.length_drop]; omega
  · simp only [hav, if_false]
    have hs0 : ¬ r.s.length = 0 := by omega
    simp only [hs0, if_false]
    by_cases hc : k ≥ r.cap
    · simp only [hc, if_true]
      have hm : min k r.s.length = k := by omega
      rw [hm]
      exact ⟨_, rfl, rfl, rfl, by simp [Rd.Inv]⟩
    · simp only [hc, if_false]
      have hm : min k (min r.cap r.s.length) = k := by omega
      rw [hm]
      refine ⟨_, rfl, rfl, rfl, ?_⟩
      simp only [Rd.Inv, List.length_drop]; omega

/-- Fewer than `k` bytes buffered (but some): `Read` hands out the buffered bytes only. -/
theorem read_drain (r : Rd) (k : Nat) (ha : 0 < r.avail) (hk : r.avail < k) :
    r.read k = some (r.avail, { r with s := r.s.drop r.avail, avail := 0 }) := by
  unfold Rd.read
  have hk0 : ¬ k = 0 := by omega
  have hm : min k r.avail = r.avail := by omega
  simp [hk0, ha, hm]

theorem readFull_ok : ∀ (f : Nat) (r : Rd) (k : Nat), r.Inv → k ≤ r.s.length → k ≤ f →
    ∃ r', readFull f r k = some r' ∧ r'.s = r.s.drop k ∧ r'.cap = r.cap ∧ r'.Inv
  | 0, r, k, hi, _, hf => by
    have : k = 0 := by omega
    subst this
    exact ⟨r, by simp [readFull], by simp, rfl, hi⟩
  | f + 1, r, k, hi, hk, hf => by
    by_cases hk0 : k = 0
    · subst hk0; exact ⟨r, by simp [readFull], by simp, rfl, hi⟩
    · obtain ⟨m, r1, hr1, hm0, hmk, hms, hs1, hc1, hi1⟩ := read_some r k hi (by omega) (by omega)
      obtain ⟨r2, hr2, hs2, hc2, hi2⟩ := readFull_ok f r1 (k - m) hi1 (by rw [hs1]; simp; omega) (by omega)
      refine ⟨r2, ?_, ?_, by rw [hc2, hc1], hi2⟩
      · simp [readFull, hk0, hr1, hr2]
      · rw [hs2, hs1, List.drop_drop]; congr 1; omega

theorem readFull_short : ∀ (f : Nat) (r : Rd) (k : Nat), r.Inv → r.s.length < k → readFull f r k = none
  | 0, r, k, _, hk => by
    have : ¬ k = 0 := by omega
    simp [readFull, this]
  | f + 1, r, k, hi, hk => by
    have hk0 : ¬ k = 0 := by omega
    by_cases hs : r.s.length = 0
    · simp [readFull, hk0, read_none r k hi (by omega) hs]
    · obtain ⟨m, r1, hr1, hm0, hmk, hms, hs1, hc1, hi1⟩ := read_some r k hi (by omega) (by omega)
      have := readFull_short f r1 (k - m) hi1 (by rw [hs1]; simp; omega)
      simp [readFull, hk0, hr1, this]

/-! ### record buffers -/

/-- A record as the writer emits it: 64 bytes starting with the length 62 (LE16). -/
def WFBuf (b : Bytes) : Prop := ∃ body, b = 62 :: 0 :: body ∧ body.length = 62
/-- The reader's buffer before a `ReadLock`: 64 bytes whose second byte is 0 (fresh zeros, or the previous record). -/
def OldOK (b : Bytes) : Prop := ∃ x rest, b = x :: 0 :: rest ∧ rest.length = 62

theorem WFBuf.oldOK {b : Bytes} (h : WFBuf b) : OldOK b := by
  obtain ⟨body, rfl, hl⟩ := h; exact ⟨62, body, rfl, hl⟩
theorem WFBuf.length {b : Bytes} (h : WFBuf b) : b.length = 64 := by
  obtain ⟨body, rfl, hl⟩ := h; simp [hl]
theorem OldOK.length {b : Bytes} (h : OldOK b) : b.length = 64 := by
  obtain ⟨x, rest, rfl, hl⟩ := h; simp [hl]
theorem zeros_oldOK : OldOK (zeros 64) := ⟨0, zeros 62, by decide, by decide⟩

theorem le16_cons2 (a b : UInt8) (xs : Bytes) : le16 (a :: b :: xs) 0 = a.toNat + 256 * b.toNat := rfl

theorem overlay_zero_full (old x : Bytes) (ho : old.length = 64) (hx : x.length = 64) : overlay old 0 x = x := by
  unfold overlay
  simp [hx, ← ho]

/-- `ReadLock` on a stream that starts with a complete record returns exactly that record, whatever the buffer size and
however many bytes happen to be buffered; the stream advances by 64. The returned reader does not depend on `old`. -/
theorem readLock_complete (r : Rd) (b tl : Bytes) (hi : r.Inv) (hb : WFBuf b) (hs : r.s = b ++ tl) :
    ∃ r', r'.s = tl ∧ r'.cap = r.cap ∧ r'.Inv ∧ ∀ old, OldOK old → readLock r old = .ok b r' := by
  have hbl := hb.length
  have hsl : 64 ≤ r.s.length := by rw [hs]; simp [hbl]
  have htake : r.s.take 64 = b := by rw [hs, ← hbl]; simp
  have hdrop : r.s.drop 64 = tl := by rw [hs, ← hbl]; simp
  obtain ⟨body, hbe, hbody⟩ := hb
  by_cases ha : r.avail = 0 ∨ 64 ≤ r.avail
  · obtain ⟨r', hr, hs', hc', hi'⟩ := read_all r 64 hi (by omega) hsl ha
    refine ⟨r', by rw [hs', hdrop], hc', hi', ?_⟩
    intro old ho
    unfold readLock
    simp only [hr]
    rw [htake, overlay_zero_full old b ho.length hbl]
    have : le16 b 0 = 62 := by rw [hbe]; rfl
    simp [this]
  · have ha1 : 0 < r.avail := by omega
    have ha2 : r.avail < 64 := by omega
    have hr := read_drain r 64 ha1 ha2
    -- second read (io.ReadFull): the rest of the record
    let r1 : Rd := { r with s := r.s.drop r.avail, avail := 0 }
    have hi1 : r1.Inv := by simp [Rd.Inv, r1]
    have hs1 : 64 - r.avail ≤ r1.s.length := by simp only [r1, List.length_drop]; omega
    obtain ⟨r2, hr2, hs2, hc2, hi2⟩ := readFull_ok (64 - r.avail) r1 (64 - r.avail) hi1 hs1 (Nat.le_refl _)
    refine ⟨r2, ?_, hc2, hi2, ?_⟩
    · rw [hs2]; simp only [r1, List.drop_drop]
      have : r.avail + (64 - r.avail) = 64 := by omega
      rw [this, hdrop]
    · intro old ho
      obtain ⟨x, orest, hoe, horest⟩ := ho
      unfold readLock
      simp only [hr]
      have hlen : le16 (overlay old 0 (r.s.take r.avail)) 0 = 62 := by
        rw [hs, hbe, hoe]
        unfold overlay
        rcases Nat.lt_or_ge r.avail 2 with h2 | h2
        · have : r.avail = 1 := by omega
          rw [this]; simp [le16_cons2]
        · obtain ⟨a', ha'⟩ : ∃ a', r.avail = a' + 2 := ⟨r.avail - 2, by omega⟩
          rw [ha']; simp [le16_cons2]
      rw [hlen]
      have hne : ¬ r.avail = 62 + 2 := by omega
      simp only [hne, if_false]
      change (match readFull (64 - r.avail) r1 (64 - r.avail) with
        | none => LockRes.eof _
        | some r2 => _) = _
      rw [hr2]
      simp only
      have hsum : r.avail + (64 - r.avail) = 62 + 2 := by omega
      simp only [hsum, if_true]
      congr 1
      -- the assembled buffer is the record
      unfold overlay
      have hl1 : (r.s.take r.avail).length = r.avail := by simp; omega
      have hl2 : (List.take (64 - r.avail) (List.drop r.avail r.s)).length = 64 - r.avail := by
        simp only [List.length_take, List.length_drop]; omega
      simp only [List.take_zero, List.nil_append, Nat.zero_add, hl1, hl2]
      rw [List.take_append_of_le_length (by omega), List.take_of_length_le (by omega)]
      have hd : List.drop (r.avail + (64 - r.avail)) (r.s.take r.avail ++ List.drop r.avail old) = [] := by
        apply List.drop_of_length_le
        simp only [List.length_append, hl1, List.length_drop, hoe, List.length_cons, horest]; omega
      rw [hd, List.append_nil]
      have : r.s.take r.avail ++ (List.drop r.avail r.s).take (64 - r.avail) = r.s.take 64 := by
        have h64 : 64 = r.avail + (64 - r.avail) := by omega
        conv => rhs; rw [h64, List.take_add]
      rw [this, htake]

/-- At the end of the file `ReadLock` returns io.EOF and leaves the buffer alone. -/
theorem readLock_eof (r : Rd) (old : Bytes) (hi : r.Inv) (hs : r.s = []) : readLock r old = .eof old := by
  unfold readLock
  rw [read_none r 64 hi (by omega) (by simp [hs])]


theorem le16_overlay_prefix (b old : Bytes) (m : Nat) (hb : WFBuf b) (ho : OldOK old) (hm : 0 < m) :
    le16 (overlay old 0 (b.take m)) 0 = 62 := by
  obtain ⟨body, rfl, _⟩ := hb
  obtain ⟨x, orest, rfl, _⟩ := ho
  unfold overlay
  rcases Nat.lt_or_ge m 2 with h2 | h2
  · have : m = 1 := by omega
    rw [this]; simp [le16_cons2]
  · obtain ⟨a', rfl⟩ : ∃ a', m = a' + 2 := ⟨m - 2, by omega⟩
    simp [le16_cons2]

/-- `ReadLock` on a torn tail (`t` = the first `res` bytes of a record, 0 < res < 64, nothing after it): io.EOF — the same
outcome as at a clean end of the file, wherever the bufio refills fall (the rest is read with io.ReadFull). Never success,
never an error. -/
theorem readLock_torn (r : Rd) (b : Bytes) (res : Nat) (hi : r.Inv) (hb : WFBuf b)
    (h0 : 0 < res) (h64 : res < 64) (hs : r.s = b.take res) :
    ∀ old, OldOK old → ∃ buf', readLock r old = .eof buf' := by
  have hbl := hb.length
  have hsl : r.s.length = res := by rw [hs]; simp; omega
  obtain ⟨m, r1, hr1, hm0, hmk, hms, hs1, hc1, hi1⟩ := read_some r 64 hi (by omega) (by omega)
  have htk : r.s.take m = b.take m := by rw [hs, List.take_take]; congr 1; omega
  have hne : ¬ m = 62 + 2 := by omega
  intro old ho
  have hlen : le16 (overlay old 0 (r.s.take m)) 0 = 62 := by rw [htk]; exact le16_overlay_prefix b old m hb ho hm0
  unfold readLock
  simp only [hr1, hlen, hne, if_false]
  have hshort : r1.s.length < 64 - m := by rw [hs1]; simp; omega
  rw [readFull_short (64 - m) r1 (64 - m) hi1 hshort]
  exact ⟨_, rfl⟩

/-! ### value frames -/

/-- A value frame as the writer emits it: 4-byte LE length, then that many bytes. -/
def BlobWF (blob : Bytes) : Prop := ∃ lenb payload, blob = lenb ++ payload ∧ lenb.length = 4 ∧ leNat lenb = payload.length

theorem readLockData_complete (d : Rd) (blob rest : Bytes) (hi : d.Inv) (hb : BlobWF blob) (hs : d.s = blob ++ rest) :
    ∃ d', readLockData d = some (blob, d') ∧ d'.s = rest ∧ d'.cap = d.cap ∧ d'.Inv := by
  obtain ⟨lenb, payload, rfl, hl4, hln⟩ := hb
  have h4 : 4 ≤ d.s.length := by rw [hs]; simp; omega
  obtain ⟨d1, hd1, hs1, hc1, hi1⟩ := readFull_ok 4 d 4 hi h4 (by omega)
  have htk : d.s.take 4 = lenb := by rw [hs, List.append_assoc, ← hl4]; simp
  have hs1' : d1.s = payload ++ rest := by rw [hs1, hs, List.append_assoc, ← hl4]; simp
  unfold readLockData
  simp only [hd1, htk, hln]
  by_cases hp : payload.length = 0
  · have : payload = [] := List.eq_nil_of_length_eq_zero hp
    subst this
    refine ⟨d1, by simp, by simpa using hs1', hc1, hi1⟩
  · simp only [hp, if_false]
    obtain ⟨d2, hd2, hs2, hc2, hi2⟩ := readFull_ok payload.length d1 payload.length hi1 (by rw [hs1']; simp) (by omega)
    refine ⟨d2, ?_, by rw [hs2, hs1']; simp, by rw [hc2, hc1], hi2⟩
    simp [hd2, hs1']

theorem readLockData_short (d : Rd) (blob : Bytes) (c : Nat) (hi : d.Inv) (hb : BlobWF blob) (hs : d.s = blob.take c)
    (hc : c < blob.length) : readLockData d = none := by
  obtain ⟨lenb, payload, rfl, hl4, hln⟩ := hb
  have hc' : c < 4 + payload.length := by simp [hl4] at hc; exact hc
  have hsl : d.s.length = c := by rw [hs]; simp [hl4]; omega
  unfold readLockData
  by_cases h4 : c < 4
  · rw [readFull_short 4 d 4 hi (by omega)]
  · obtain ⟨d1, hd1, hs1, hc1, hi1⟩ := readFull_ok 4 d 4 hi (by omega) (by omega)
    have htk : d.s.take 4 = lenb := by
      rw [hs, List.take_take]
      have : min 4 c = 4 := by omega
      rw [this, ← hl4]; simp
    simp only [hd1, htk, hln]
    have hp : ¬ payload.length = 0 := by omega
    simp only [hp, if_false]
    rw [readFull_short payload.length d1 payload.length hi1 (by rw [hs1, List.length_drop, hsl]; omega)]

end Slock.Aof
