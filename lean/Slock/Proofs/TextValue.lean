import Slock.Model.TextValue
/-! Totality of the value readers (C13 text part): no checked access fails. -/
namespace Slock.TextV

theorem getElem?_some_of_lt (d : Bytes) (i : Nat) (h : i < d.length) : ∃ v, d[i]? = some v :=
  ⟨d[i], by simp [h]⟩

theorem u32At_some (d : Bytes) (i : Nat) (h : i + 3 < d.length) : ∃ v, u32At d i = some v := by
  obtain ⟨a, ha⟩ := getElem?_some_of_lt d i (by omega)
  obtain ⟨b, hb⟩ := getElem?_some_of_lt d (i + 1) (by omega)
  obtain ⟨c, hc⟩ := getElem?_some_of_lt d (i + 2) (by omega)
  obtain ⟨e, he⟩ := getElem?_some_of_lt d (i + 3) (by omega)
  exact ⟨a.toNat + b.toNat * 256 + c.toNat * 65536 + e.toNat * 16777216, by simp [u32At, ha, hb, hc, he]⟩

theorem u16At_some (d : Bytes) (i : Nat) (h : i + 1 < d.length) : ∃ v, u16At d i = some v := by
  obtain ⟨a, ha⟩ := getElem?_some_of_lt d i (by omega)
  obtain ⟨b, hb⟩ := getElem?_some_of_lt d (i + 1) (by omega)
  exact ⟨a.toNat + b.toNat * 256, by simp [u16At, ha, hb]⟩

theorem sliceC_some (d : Bytes) (lo hi : Nat) (h1 : lo ≤ hi) (h2 : hi ≤ d.length) : ∃ s, sliceC d lo hi = some s :=
  ⟨(d.drop lo).take (hi - lo), by simp [sliceC, h1, h2]⟩

theorem arrayLoop_total (d : Bytes) (f index : Nat) (acc : List Bytes) : (arrayLoop d f index acc).isPanic = false := by
  induction f generalizing index acc with
  | zero => simp [arrayLoop, R.isPanic]
  | succ f ih =>
    unfold arrayLoop
    by_cases h : index + 4 ≤ d.length
    · simp only [h, if_true]
      obtain ⟨vl, hv⟩ := u32At_some d index (by omega)
      simp only [hv]
      by_cases hb : index + 4 + vl > d.length
      · simp [hb, R.isPanic]
      · simp only [hb, if_false]
        obtain ⟨s, hs⟩ := sliceC_some d (index + 4) (index + 4 + vl) (by omega) (by omega)
        simp only [hs]; exact ih _ _
    · simp [h, R.isPanic]

theorem kvLoop_total (d : Bytes) (f index : Nat) (acc : List (Bytes × Bytes)) : (kvLoop d f index acc).isPanic = false := by
  induction f generalizing index acc with
  | zero => simp [kvLoop, R.isPanic]
  | succ f ih =>
    unfold kvLoop
    by_cases h : index + 4 < d.length
    · simp only [h, if_true]
      obtain ⟨kl, hk⟩ := u32At_some d index (by omega)
      simp only [hk]
      by_cases h0 : kl = 0
      · simp only [h0, if_true]; exact ih _ _
      · simp only [h0, if_false]
        by_cases hb : index + 8 + kl > d.length
        · simp [hb, R.isPanic]
        · simp only [hb, if_false]
          obtain ⟨s, hs⟩ := sliceC_some d (index + 4) (index + 4 + kl) (by omega) (by omega)
          simp only [hs]
          obtain ⟨vl, hv⟩ := u32At_some d (index + kl + 4) (by omega)
          simp only [hv]
          by_cases h1 : vl = 0
          · simp only [h1, if_true]; exact ih _ _
          · simp only [h1, if_false]
            by_cases hb2 : index + kl + 4 + 4 + vl > d.length
            · simp [hb2, R.isPanic]
            · simp only [hb2, if_false]
              obtain ⟨v, hv2⟩ := sliceC_some d (index + kl + 4 + 4) (index + kl + 4 + 4 + vl) (by omega) (by omega)
              simp only [hv2]; exact ih _ _
    · simp [h, R.isPanic]

theorem propLoop_total (d : Bytes) (plen : Nat) (hp : plen + 8 ≤ d.length) (f index : Nat) (acc : List (Nat × Bytes)) :
    (propLoop d plen f index acc).isPanic = false := by
  induction f generalizing index acc with
  | zero => simp [propLoop, R.isPanic]
  | succ f ih =>
    unfold propLoop
    by_cases h : index + 3 ≤ plen
    · simp only [h, if_true]
      obtain ⟨code, hc⟩ := getElem?_some_of_lt d (8 + index) (by omega)
      obtain ⟨vl, hv⟩ := u16At_some d (9 + index) (by omega)
      simp only [hc, hv]
      by_cases hb : index + 3 + vl > plen
      · simp [hb, R.isPanic]
      · simp only [hb, if_false]
        by_cases h0 : vl > 0
        · simp only [h0, if_true]
          obtain ⟨s, hs⟩ := sliceC_some d (11 + index) (11 + index + vl) (by omega) (by omega)
          simp only [hs]; exact ih _ _
        · simp only [h0, if_false]; exact ih _ _
    · simp [h, R.isPanic]

theorem header_some (d : Bytes) (h : 6 ≤ d.length) : ∃ t fl, header d = some (t, fl) := by
  obtain ⟨a, ha⟩ := getElem?_some_of_lt d 4 (by omega)
  obtain ⟨b, hb⟩ := getElem?_some_of_lt d 5 (by omega)
  exact ⟨a.toNat % 64, b.toNat, by simp [header, ha, hb]⟩

end Slock.TextV
