import Slock.Proofs.Engine2QITick
/-! Stage-2 engine: the sweeps on a state in which nothing is held or queued any more. Every wheel entry is a tombstone: visiting it
drops it (`refCount--`, the record is freed at 0, the key record unlinked with its last record); nothing is re-armed, nothing fires. -/
namespace Slock.Engine2
open Slock.Engine (insertBySeq sortBySeq)

theorem mem_insertBySeq {α} (seqOf : α → Nat) (x y : α) (acc : List α) : x ∈ insertBySeq seqOf y acc ↔ x = y ∨ x ∈ acc := by
  induction acc with
  | nil => simp [insertBySeq]
  | cons z zs ih =>
    unfold insertBySeq
    split
    · simp
    · simp only [List.mem_cons, ih]
      constructor
      · rintro (h | h | h)
        · exact Or.inr (Or.inl h)
        · exact Or.inl h
        · exact Or.inr (Or.inr h)
      · rintro (h | h | h)
        · exact Or.inr (Or.inl h)
        · exact Or.inl h
        · exact Or.inr (Or.inr h)

theorem mem_sortBySeq_iff {α} (seqOf : α → Nat) (l : List α) (x : α) : x ∈ sortBySeq seqOf l ↔ x ∈ l := by
  unfold sortBySeq
  have gen : ∀ (l acc : List α), x ∈ l.foldl (fun acc y => insertBySeq seqOf y acc) acc ↔ x ∈ l ∨ x ∈ acc := by
    intro l
    induction l with
    | nil => intro acc; simp
    | cons y ys ih =>
      intro acc
      simp only [List.foldl_cons, ih, mem_insertBySeq, List.mem_cons]
      constructor
      · rintro (h | h | h)
        · exact Or.inl (Or.inr h)
        · exact Or.inl (Or.inl h)
        · exact Or.inr h
      · rintro ((h | h) | h)
        · exact Or.inr (Or.inl h)
        · exact Or.inl h
        · exact Or.inr (Or.inr h)
  rw [gen]; simp

/-- nothing is held or queued: no lock record is a hold (depth > 0) or a waiting request (`timeouted = false`) -/
def Dead (db : DB) : Prop := ∀ k ∈ db.keys, ∀ r ∈ k.recs, r.depth = 0 ∧ r.timeouted = true

/-- `r'` is `r` with possibly fewer wheel entries (and another count) -/
structure RShr (r' r : Rec) : Prop where
  rid : r'.rid = r.rid
  depth : r'.depth = r.depth
  timeouted : r'.timeouted = r.timeouted
  expried : r'.expried = r.expried
  t : r'.tSched = none ∨ r'.tSched = r.tSched
  e : r'.eSched = none ∨ r'.eSched = r.eSched

theorem RShr.refl (r : Rec) : RShr r r := ⟨rfl, rfl, rfl, rfl, Or.inr rfl, Or.inr rfl⟩
theorem RShr.trans {a b c : Rec} (h1 : RShr a b) (h2 : RShr b c) : RShr a c := by
  refine ⟨h1.rid.trans h2.rid, h1.depth.trans h2.depth, h1.timeouted.trans h2.timeouted, h1.expried.trans h2.expried, ?_, ?_⟩
  · rcases h1.t with h | h
    · exact Or.inl h
    · rcases h2.t with h' | h'
      · exact Or.inl (h.trans h')
      · exact Or.inr (h.trans h')
  · rcases h1.e with h | h
    · exact Or.inl h
    · rcases h2.e with h' | h'
      · exact Or.inl (h.trans h')
      · exact Or.inr (h.trans h')

def KShr (k' k : Key) : Prop := ∀ r' ∈ k'.recs, ∃ r ∈ k.recs, RShr r' r
def DShr (db' db : DB) : Prop := ∀ k' ∈ db'.keys, ∃ k ∈ db.keys, k.key = k'.key ∧ KShr k' k

theorem KShr.refl (k : Key) : KShr k k := fun r hr => ⟨r, hr, RShr.refl r⟩
theorem KShr.trans {a b c : Key} (h1 : KShr a b) (h2 : KShr b c) : KShr a c := by
  intro r hr
  obtain ⟨r1, hr1, s1⟩ := h1 r hr
  obtain ⟨r2, hr2, s2⟩ := h2 r1 hr1
  exact ⟨r2, hr2, s1.trans s2⟩
theorem DShr.refl (db : DB) : DShr db db := fun k hk => ⟨k, hk, rfl, KShr.refl k⟩
theorem DShr.trans {a b c : DB} (h1 : DShr a b) (h2 : DShr b c) : DShr a c := by
  intro k hk
  obtain ⟨k1, hk1, e1, s1⟩ := h1 k hk
  obtain ⟨k2, hk2, e2, s2⟩ := h2 k1 hk1
  exact ⟨k2, hk2, e2.trans e1, s1.trans s2⟩
theorem DShr.of_keys {a b : DB} (h : a.keys = b.keys) : DShr a b := by
  intro k hk; rw [h] at hk; exact ⟨k, hk, rfl, KShr.refl k⟩

theorem Dead.of_shr {db db' : DB} (h : Dead db) (s : DShr db' db) : Dead db' := by
  intro k' hk' r' hr'
  obtain ⟨k, hk, _, ks⟩ := s k' hk'
  obtain ⟨r, hr, rs⟩ := ks r' hr'
  have := h k hk r hr
  exact ⟨rs.depth.trans this.1, rs.timeouted.trans this.2⟩

/-- storing back a shrunk key record (or unlinking it) shrinks the database -/
theorem dshr_commit {db : DB} (key : Nat) (w' : W) (f : Fr (db.openKey key) w') (hk : w'.gone = false → KShr w'.k (db.getKey key)) :
    DShr w'.commit db := by
  have hkey : w'.k.key = key := f.key.trans (getKey_key db key)
  have hsub : ∀ k ∈ w'.db.keys, k ∈ db.keys := by
    intro k hk'
    rcases f.dbk with ⟨a1, _, _⟩ | ⟨_, _, a3, _⟩
    · rw [a1] at hk'; exact hk'
    · rw [a3] at hk'; exact (List.mem_filter.mp hk').1
  unfold W.commit
  cases hg : w'.gone with
  | true =>
    simp only [if_true]
    exact fun k hk' => ⟨k, hsub k hk', rfl, KShr.refl k⟩
  | false =>
    simp only [Bool.false_eq_true, if_false]
    have hg0 : (db.openKey key).gone = false := gone_of_fr f hg
    have hhas : db.hasKey key = true := by simpa [DB.openKey] using hg0
    have hmem : db.getKey key ∈ db.keys := getKey_mem db key hhas
    intro k' hk'
    unfold DB.setKey at hk'
    split at hk'
    · simp only [List.mem_map] at hk'
      obtain ⟨x, hx, e⟩ := hk'
      split at e
      · rw [← e]; exact ⟨db.getKey key, hmem, (getKey_key db key).trans hkey.symm, hk hg⟩
      · rw [← e]; exact ⟨x, hsub x hx, rfl, KShr.refl x⟩
    · rcases List.mem_append.mp hk' with h1 | h1
      · exact ⟨k', hsub k' h1, rfl, KShr.refl k'⟩
      · simp at h1; rw [h1]; exact ⟨db.getKey key, hmem, (getKey_key db key).trans hkey.symm, hk hg⟩

/-- in the stored state, a key record with this key is the one just stored -/
theorem commit_this {db : DB} (key : Nat) (w' : W) (f : Fr (db.openKey key) w') (hs : DBside w') :
    ∀ k ∈ w'.commit.keys, k.key = key → w'.gone = false ∧ k = w'.k := by
  have hkey : w'.k.key = key := f.key.trans (getKey_key db key)
  intro k hk hkk
  unfold W.commit at hk
  cases hg : w'.gone with
  | true =>
    simp only [hg, if_true] at hk
    have := (hasKey_eq_false_iff w'.db w'.k.key).mp (hs.absent hg) k hk
    rw [hkey] at this
    exact absurd hkk this
  | false =>
    simp only [hg, Bool.false_eq_true, if_false] at hk
    refine ⟨rfl, ?_⟩
    unfold DB.setKey at hk
    rw [if_pos (hs.present hg)] at hk
    simp only [List.mem_map] at hk
    obtain ⟨x, hx, e⟩ := hk
    split at e
    · exact e.symm
    · rename_i hne
      rw [← e] at hkk
      exact absurd (by rw [hkk, hkey]; simp) hne

def DoneT (db : DB) (e : Ent) : Prop := ∀ k ∈ db.keys, k.key = e.key → ∀ r ∈ k.recs, r.rid = e.rid → r.tSched = none
def DoneE (db : DB) (e : Ent) : Prop := ∀ k ∈ db.keys, k.key = e.key → ∀ r ∈ k.recs, r.rid = e.rid → r.eSched = none

theorem DoneT.of_shr {db db' : DB} {e : Ent} (h : DoneT db e) (s : DShr db' db) : DoneT db' e := by
  intro k' hk' hkey r' hr' hrid
  obtain ⟨k, hk, ek, ks⟩ := s k' hk'
  obtain ⟨r, hr, rs⟩ := ks r' hr'
  have := h k hk (ek.trans hkey) r hr (rs.rid.symm.trans hrid)
  rcases rs.t with h1 | h1
  · exact h1
  · exact h1.trans this

theorem DoneE.of_shr {db db' : DB} {e : Ent} (h : DoneE db e) (s : DShr db' db) : DoneE db' e := by
  intro k' hk' hkey r' hr' hrid
  obtain ⟨k, hk, ek, ks⟩ := s k' hk'
  obtain ⟨r, hr, rs⟩ := ks r' hr'
  have := h k hk (ek.trans hkey) r hr (rs.rid.symm.trans hrid)
  rcases rs.e with h1 | h1
  · exact h1
  · exact h1.trans this

/-- dropping a timeout-wheel entry: the key record shrinks, the entry is gone -/
theorem dropT_shr (w : W) (rid : Nat) (hh : w.k.hasRec rid) (nd : ((w.dropT rid).k.recs.map (·.rid)).Nodup) :
    KShr (w.dropT rid).k w.k ∧ (∀ r ∈ (w.dropT rid).k.recs, r.rid = rid → r.tSched = none) := by
  have q : PK (·.tSched) (w.dropT rid) (w.modR rid (fun r => { r with tSched := none })) := by
    unfold W.dropT; exact pk_unrefCheck ins_tSched _ _
  have hq : ∀ y, (w.dropT rid).k.hasRec y → ((w.dropT rid).k.getR y).tSched = if y = rid then none else (w.k.getR y).tSched := by
    intro y hy
    rw [q.val y hy]
    by_cases e : y = rid
    · subst e
      simp only [if_true]
      show ((w.k.modRec y _).getR y).tSched = none
      rw [getR_modRec_same _ _ _ (by intro _; rfl) hh]
    · simp only [e, if_false]
      show ((w.k.modRec rid _).getR y).tSched = _
      rw [getR_modRec_other _ _ _ _ (by intro _; rfl) e]
  refine ⟨?_, ?_⟩
  · intro r' hr'
    have hy : (w.dropT rid).k.hasRec r'.rid := ⟨r', hr', rfl⟩
    have eg : (w.dropT rid).k.getR r'.rid = r' := mem_eq_getR nd hr'
    have p1 := pk_dropT (π := (·.depth)) ins_depth w rid (fun _ _ => rfl)
    have p2 := pk_dropT (π := (·.timeouted)) ins_timeouted w rid (fun _ _ => rfl)
    have p3 := pk_dropT (π := (·.expried)) ins_expried w rid (fun _ _ => rfl)
    have p4 := pk_dropT (π := (·.eSched)) ins_eSched w rid (fun _ _ => rfl)
    refine ⟨w.k.getR r'.rid, getR_mem (p1.sub _ hy), ?_⟩
    have a1 := p1.val _ hy
    have a2 := p2.val _ hy
    have a3 := p3.val _ hy
    have a4 := p4.val _ hy
    have a5 := hq _ hy
    rw [eg] at a1 a2 a3 a4 a5
    refine ⟨(getR_rid _ _).symm, a1, a2, a3, ?_, Or.inr a4⟩
    by_cases e : r'.rid = rid
    · simp only [e, if_true] at a5; exact Or.inl a5
    · simp only [e, if_false] at a5; exact Or.inr a5
  · intro r hr hrid
    have hy : (w.dropT rid).k.hasRec r.rid := ⟨r, hr, rfl⟩
    have := hq _ hy
    rw [mem_eq_getR nd hr] at this
    simp only [hrid, if_true] at this
    exact this

theorem dropE_shr (w : W) (rid : Nat) (hh : w.k.hasRec rid) (nd : ((w.dropE rid).k.recs.map (·.rid)).Nodup) :
    KShr (w.dropE rid).k w.k ∧ (∀ r ∈ (w.dropE rid).k.recs, r.rid = rid → r.eSched = none) := by
  have q : PK (·.eSched) (w.dropE rid) (w.modR rid (fun r => { r with eSched := none })) := by
    unfold W.dropE; exact pk_unrefCheck ins_eSched _ _
  have hq : ∀ y, (w.dropE rid).k.hasRec y → ((w.dropE rid).k.getR y).eSched = if y = rid then none else (w.k.getR y).eSched := by
    intro y hy
    rw [q.val y hy]
    by_cases e : y = rid
    · subst e
      simp only [if_true]
      show ((w.k.modRec y _).getR y).eSched = none
      rw [getR_modRec_same _ _ _ (by intro _; rfl) hh]
    · simp only [e, if_false]
      show ((w.k.modRec rid _).getR y).eSched = _
      rw [getR_modRec_other _ _ _ _ (by intro _; rfl) e]
  refine ⟨?_, ?_⟩
  · intro r' hr'
    have hy : (w.dropE rid).k.hasRec r'.rid := ⟨r', hr', rfl⟩
    have eg : (w.dropE rid).k.getR r'.rid = r' := mem_eq_getR nd hr'
    have p1 := pk_dropE (π := (·.depth)) ins_depth w rid (fun _ _ => rfl)
    have p2 := pk_dropE (π := (·.timeouted)) ins_timeouted w rid (fun _ _ => rfl)
    have p3 := pk_dropE (π := (·.expried)) ins_expried w rid (fun _ _ => rfl)
    have p4 := pk_dropE (π := (·.tSched)) ins_tSched w rid (fun _ _ => rfl)
    refine ⟨w.k.getR r'.rid, getR_mem (p1.sub _ hy), ?_⟩
    have a1 := p1.val _ hy
    have a2 := p2.val _ hy
    have a3 := p3.val _ hy
    have a4 := p4.val _ hy
    have a5 := hq _ hy
    rw [eg] at a1 a2 a3 a4 a5
    refine ⟨(getR_rid _ _).symm, a1, a2, a3, Or.inr a4, ?_⟩
    by_cases e : r'.rid = rid
    · simp only [e, if_true] at a5; exact Or.inl a5
    · simp only [e, if_false] at a5; exact Or.inr a5
  · intro r hr hrid
    have hy : (w.dropE rid).k.hasRec r.rid := ⟨r, hr, rfl⟩
    have := hq _ hy
    rw [mem_eq_getR nd hr] at this
    simp only [hrid, if_true] at this
    exact this

theorem dead_getKey {db : DB} (hd : Dead db) (key : Nat) : ∀ r ∈ (db.getKey key).recs, r.depth = 0 ∧ r.timeouted = true := by
  cases hh : db.hasKey key with
  | true => exact hd _ (getKey_mem db key hh)
  | false => rw [getKey_of_not_hasKey db key hh]; intro r hr; simp [newKey] at hr

theorem isSome_false {α} {o : Option α} (h : o.isSome = false) : o = none := by cases o <;> simp_all

theorem timeoutStep_dead (slot : Bool) (db : DB) (acc : List Ent) (e : Ent) (h : DBQ db) (hd : Dead db) :
    ∃ db', timeoutStep slot (db, acc) e = (db', acc) ∧ DShr db' db ∧ DoneT db' e ∧ db'.now = db.now := by
  have hrecs := dead_getKey hd e.key
  have nd0 := (h.dbt.dbi.getKey_ok e.key).rc.nodup
  unfold timeoutStep
  cases hv : (db.openKey e.key).visitTimeout slot e.rid with
  | none =>
    exfalso
    unfold W.visitTimeout at hv
    simp only [] at hv
    split at hv
    · simp at hv
    rename_i hg
    have hs := hasT_spec (db.openKey e.key).k e.rid (by simpa using hg)
    split at hv
    · simp at hv
    rename_i hto
    exact hto (hrecs _ (getR_mem hs.1)).2
  | some w' =>
    simp only []
    have f := W.visitTimeout_fr _ _ _ _ hv
    have hs' := (h.dbt.dbi.openKey e.key).of_fr f
    have key : w'.gone = false → KShr w'.k (db.getKey e.key) ∧ ∀ r ∈ w'.k.recs, r.rid = e.rid → r.tSched = none := by
      intro hg'
      have hg0 := gone_of_fr f hg'
      have t := tight_visitTimeout (Good.openKey h.dbt.dbi h.dbt.tight e.key) (cur_openKey h.dbt.tight e.key)
        (settled_openKey h.dbt.tight e.key hg0) slot e.rid w' hv
      have nd' := (t.good hg').lv.rc.nodup
      unfold W.visitTimeout at hv
      simp only [] at hv
      split at hv
      · rename_i hg
        injection hv with hv
        subst hv
        refine ⟨KShr.refl _, ?_⟩
        intro r hr hrid
        have hany : (db.openKey e.key).k.recs.any (·.rid == e.rid) = true := (any_iff_hasRec _ _).mpr ⟨r, hr, hrid⟩
        have hT : (db.openKey e.key).k.hasT e.rid = false := by simpa using hg
        unfold Key.hasT at hT
        rw [hany] at hT
        have hT' : ((db.openKey e.key).k.getR e.rid).tSched.isSome = false := by simpa using hT
        have eg : (db.openKey e.key).k.getR r.rid = r := mem_eq_getR nd0 hr
        rw [hrid] at eg
        rw [eg] at hT'
        exact isSome_false hT'
      rename_i hg
      have hs := hasT_spec (db.openKey e.key).k e.rid (by simpa using hg)
      split at hv
      · injection hv with hv
        subst hv
        exact dropT_shr (db.openKey e.key) e.rid hs.1 nd'
      · rename_i hto
        exact absurd (hrecs _ (getR_mem hs.1)).2 hto
    refine ⟨w'.commit, rfl, dshr_commit e.key w' f (fun hg => (key hg).1), ?_, (commit_fields w').2.2.1.trans f.now⟩
    intro k hk hkk r hr hrid
    obtain ⟨hg, ek⟩ := commit_this e.key w' f hs' k hk hkk
    rw [ek] at hr
    exact (key hg).2 r hr hrid

theorem expireStep_dead (slot : Bool) (db : DB) (acc : List Ent) (e : Ent) (h : DBQ db) (hd : Dead db) :
    ∃ db', expireStep slot (db, acc) e = (db', acc) ∧ DShr db' db ∧ DoneE db' e ∧ db'.now = db.now := by
  have hrecs := dead_getKey hd e.key
  have nd0 := (h.dbt.dbi.getKey_ok e.key).rc.nodup
  have g0 := Good.openKey h.dbt.dbi h.dbt.tight e.key
  -- an expiry entry of a record that is not a hold is a tombstone
  have hexp : ∀ rid, (db.openKey e.key).k.hasRec rid → ((db.openKey e.key).k.getR rid).eSched.isSome = true →
      ((db.openKey e.key).k.getR rid).expried = true := by
    intro rid hh he
    exact (recFine_of g0 rid hh).fin (hrecs _ (getR_mem hh)).1 he
  unfold expireStep
  cases hv : (db.openKey e.key).visitExpire slot e.rid with
  | none =>
    exfalso
    unfold W.visitExpire at hv
    simp only [] at hv
    split at hv
    · simp at hv
    rename_i hg
    have hs := hasE_spec (db.openKey e.key).k e.rid (by simpa using hg)
    split at hv
    · simp at hv
    rename_i hex
    exact hex (hexp _ hs.1 hs.2)
  | some w' =>
    simp only []
    have f := W.visitExpire_fr _ _ _ _ hv
    have hs' := (h.dbt.dbi.openKey e.key).of_fr f
    have key : w'.gone = false → KShr w'.k (db.getKey e.key) ∧ ∀ r ∈ w'.k.recs, r.rid = e.rid → r.eSched = none := by
      intro hg'
      have hg0 := gone_of_fr f hg'
      have t := tight_visitExpire g0 (cur_openKey h.dbt.tight e.key) (settled_openKey h.dbt.tight e.key hg0) slot e.rid w' hv
      have nd' := (t.good hg').lv.rc.nodup
      unfold W.visitExpire at hv
      simp only [] at hv
      split at hv
      · rename_i hg
        injection hv with hv
        subst hv
        refine ⟨KShr.refl _, ?_⟩
        intro r hr hrid
        have hany : (db.openKey e.key).k.recs.any (·.rid == e.rid) = true := (any_iff_hasRec _ _).mpr ⟨r, hr, hrid⟩
        have hT : (db.openKey e.key).k.hasE e.rid = false := by simpa using hg
        unfold Key.hasE at hT
        rw [hany] at hT
        have hT' : ((db.openKey e.key).k.getR e.rid).eSched.isSome = false := by simpa using hT
        have eg : (db.openKey e.key).k.getR r.rid = r := mem_eq_getR nd0 hr
        rw [hrid] at eg
        rw [eg] at hT'
        exact isSome_false hT'
      rename_i hg
      have hs := hasE_spec (db.openKey e.key).k e.rid (by simpa using hg)
      split at hv
      · injection hv with hv
        subst hv
        exact dropE_shr (db.openKey e.key) e.rid hs.1 nd'
      · rename_i hex
        exact absurd (hexp _ hs.1 hs.2) hex
    refine ⟨w'.commit, rfl, dshr_commit e.key w' f (fun hg => (key hg).1), ?_, (commit_fields w').2.2.1.trans f.now⟩
    intro k hk hkk r hr hrid
    obtain ⟨hg, ek⟩ := commit_this e.key w' f hs' k hk hkk
    rw [ek] at hr
    exact (key hg).2 r hr hrid

theorem fold_timeout_dead (slot : Bool) (es : List Ent) (db : DB) (acc : List Ent) (h : DBQ db) (hd : Dead db) :
    ∃ db', es.foldl (timeoutStep slot) (db, acc) = (db', acc) ∧ DBQ db' ∧ Dead db' ∧ DShr db' db ∧ (∀ e ∈ es, DoneT db' e) ∧ db'.now = db.now := by
  induction es generalizing db with
  | nil => exact ⟨db, rfl, h, hd, DShr.refl db, fun e he => by simp at he, rfl⟩
  | cons e es ih =>
    obtain ⟨db1, e1, s1, d1, n1⟩ := timeoutStep_dead slot db acc e h hd
    have h1 : DBQ db1 := by
      have := timeoutStep_dbq slot (db, acc) e h
      rw [e1] at this; exact this
    obtain ⟨db', e2, h', hd', s2, dn, n2⟩ := ih db1 h1 (hd.of_shr s1)
    refine ⟨db', by simp only [List.foldl_cons]; rw [e1]; exact e2, h', hd', s2.trans s1, ?_, n2.trans n1⟩
    intro x hx
    rcases List.mem_cons.mp hx with hx | hx
    · rw [hx]; exact d1.of_shr s2
    · exact dn x hx

theorem fold_expire_dead (slot : Bool) (es : List Ent) (db : DB) (acc : List Ent) (h : DBQ db) (hd : Dead db) :
    ∃ db', es.foldl (expireStep slot) (db, acc) = (db', acc) ∧ DBQ db' ∧ Dead db' ∧ DShr db' db ∧ (∀ e ∈ es, DoneE db' e) ∧ db'.now = db.now := by
  induction es generalizing db with
  | nil => exact ⟨db, rfl, h, hd, DShr.refl db, fun e he => by simp at he, rfl⟩
  | cons e es ih =>
    obtain ⟨db1, e1, s1, d1, n1⟩ := expireStep_dead slot db acc e h hd
    have h1 : DBQ db1 := by
      have := expireStep_dbq slot (db, acc) e h
      rw [e1] at this; exact this
    obtain ⟨db', e2, h', hd', s2, dn, n2⟩ := ih db1 h1 (hd.of_shr s1)
    refine ⟨db', by simp only [List.foldl_cons]; rw [e1]; exact e2, h', hd', s2.trans s1, ?_, n2.trans n1⟩
    intro x hx
    rcases List.mem_cons.mp hx with hx | hx
    · rw [hx]; exact d1.of_shr s2
    · exact dn x hx

theorem mem_tEntries (db : DB) (p : Sched → Bool) (k : Key) (hk : k ∈ db.keys) (r : Rec) (hr : r ∈ k.recs) (s : Sched) (hs : r.tSched = some s)
    (hp : p s = true) : (⟨k.key, r.rid, s.seq⟩ : Ent) ∈ tEntries db p := by
  unfold tEntries
  rw [mem_sortBySeq_iff]
  refine List.mem_flatMap.mpr ⟨k, hk, List.mem_filterMap.mpr ⟨r, hr, ?_⟩⟩
  simp [hs, hp]

theorem mem_eEntries (db : DB) (p : Sched → Bool) (k : Key) (hk : k ∈ db.keys) (r : Rec) (hr : r ∈ k.recs) (s : Sched) (hs : r.eSched = some s)
    (hp : p s = true) : (⟨k.key, r.rid, s.seq⟩ : Ent) ∈ eEntries db p := by
  unfold eEntries
  rw [mem_sortBySeq_iff]
  refine List.mem_flatMap.mpr ⟨k, hk, List.mem_filterMap.mpr ⟨r, hr, ?_⟩⟩
  simp [hs, hp]

/-- the timeout sweep of second `c` in a dead state: every entry scheduled for `c` is dropped, nothing else happens -/
theorem sweepTimeout_dead (db : DB) (c : Nat) (h : DBQ db) (hd : Dead db) :
    ∃ db', sweepTimeout db c = (db', []) ∧ DBQ db' ∧ Dead db' ∧ DShr db' db ∧ db'.now = db.now ∧
      ∀ k' ∈ db'.keys, ∀ r' ∈ k'.recs, ∀ s, r'.tSched = some s → s.visit ≠ c := by
  obtain ⟨db1, e1, h1, hd1, s1, dn1, n1⟩ := fold_timeout_dead true (tEntries db (fun s => s.visit == c && !s.long)) db [] h hd
  obtain ⟨db2, e2, h2, hd2, s2, dn2, n2⟩ := fold_timeout_dead false (tEntries db (fun s => s.visit == c && s.long)) db1 [] h1 hd1
  refine ⟨db2, ?_, h2, hd2, s2.trans s1, n2.trans n1, ?_⟩
  · unfold sweepTimeout
    simp only []
    rw [e1, e2]
    rfl
  · intro k' hk' r' hr' s hs hv
    obtain ⟨k, hk, ek, ks⟩ := (s2.trans s1) k' hk'
    obtain ⟨r, hr, rs⟩ := ks r' hr'
    have hrs : r.tSched = some s := by
      rcases rs.t with h0 | h0
      · rw [h0] at hs; simp at hs
      · rw [← h0]; exact hs
    have hdone : DoneT db2 ⟨k.key, r.rid, s.seq⟩ := by
      cases hl : s.long with
      | false =>
        exact (dn1 _ (mem_tEntries db _ k hk r hr s hrs (by simp [hv, hl]))).of_shr s2
      | true =>
        exact dn2 _ (mem_tEntries db _ k hk r hr s hrs (by simp [hv, hl]))
    have := hdone k' hk' ek.symm r' hr' rs.rid
    rw [this] at hs; simp at hs

theorem sweepExpire_dead (db : DB) (c : Nat) (h : DBQ db) (hd : Dead db) :
    ∃ db', sweepExpire db c = (db', []) ∧ DBQ db' ∧ Dead db' ∧ DShr db' db ∧ db'.now = db.now ∧
      ∀ k' ∈ db'.keys, ∀ r' ∈ k'.recs, ∀ s, r'.eSched = some s → s.visit ≠ c := by
  obtain ⟨db1, e1, h1, hd1, s1, dn1, n1⟩ := fold_expire_dead true (eEntries db (fun s => s.visit == c && !s.long)) db [] h hd
  obtain ⟨db2, e2, h2, hd2, s2, dn2, n2⟩ := fold_expire_dead false (eEntries db (fun s => s.visit == c && s.long)) db1 [] h1 hd1
  refine ⟨db2, ?_, h2, hd2, s2.trans s1, n2.trans n1, ?_⟩
  · unfold sweepExpire
    simp only []
    rw [e1, e2]
    rfl
  · intro k' hk' r' hr' s hs hv
    obtain ⟨k, hk, ek, ks⟩ := (s2.trans s1) k' hk'
    obtain ⟨r, hr, rs⟩ := ks r' hr'
    have hrs : r.eSched = some s := by
      rcases rs.e with h0 | h0
      · rw [h0] at hs; simp at hs
      · rw [← h0]; exact hs
    have hdone : DoneE db2 ⟨k.key, r.rid, s.seq⟩ := by
      cases hl : s.long with
      | false =>
        exact (dn1 _ (mem_eEntries db _ k hk r hr s hrs (by simp [hv, hl]))).of_shr s2
      | true =>
        exact dn2 _ (mem_eEntries db _ k hk r hr s hrs (by simp [hv, hl]))
    have := hdone k' hk' ek.symm r' hr' rs.rid
    rw [this] at hs; simp at hs

/-- **one second of server time in a state in which nothing is held or queued**: still nothing held or queued; wheel entries only
disappear; every entry scheduled for this second is gone -/
theorem tick_dead (db : DB) (h : DBQ db) (hd : Dead db) :
    DBQ (opTick db).1 ∧ Dead (opTick db).1 ∧ DShr (opTick db).1 db ∧ (opTick db).1.now = db.now + 1 ∧
    (∀ k' ∈ (opTick db).1.keys, ∀ r' ∈ k'.recs, ∀ s, r'.tSched = some s → s.visit ≠ db.now + 1) ∧
    (∀ k' ∈ (opTick db).1.keys, ∀ r' ∈ k'.recs, ∀ s, r'.eSched = some s → s.visit ≠ db.now + 1) := by
  have h0 : DBQ { db with now := db.now + 1, tCheck := db.now + 1 + 1 } := h.of_keys rfl rfl rfl
  have hd0 : Dead { db with now := db.now + 1, tCheck := db.now + 1 + 1 } := hd
  obtain ⟨db1, e1, h1, hd1, s1, n1, v1⟩ := sweepTimeout_dead _ (db.now + 1) h0 hd0
  have h2 : DBQ { db1 with eCheck := db.now + 1 + 1 } := h1.of_keys rfl rfl rfl
  have hd2 : Dead { db1 with eCheck := db.now + 1 + 1 } := hd1
  obtain ⟨db3, e3, h3, hd3, s3, n3, v3⟩ := sweepExpire_dead _ (db.now + 1) h2 hd2
  have heq : (opTick db).1 = db3 := by
    unfold opTick
    simp only []
    rw [e1]
    simp only []
    rw [e3]
  rw [heq]
  have s31 : DShr db3 db1 := s3.trans (DShr.of_keys rfl)
  refine ⟨h3, hd3, s31.trans (s1.trans (DShr.of_keys rfl)), ?_, ?_, v3⟩
  · rw [n3]; exact n1
  · intro k' hk' r' hr' s hs
    obtain ⟨k, hk, _, ks⟩ := s31 k' hk'
    obtain ⟨r, hr, rs⟩ := ks r' hr'
    rcases rs.t with h4 | h4
    · rw [h4] at hs; simp at hs
    · exact v1 k hk r hr s (by rw [← h4]; exact hs)

/-- every wheel entry is scheduled for one of the next `n` seconds -/
def Within (db : DB) (n : Nat) : Prop :=
  ∀ k ∈ db.keys, ∀ r ∈ k.recs,
    (∀ s, r.tSched = some s → db.now < s.visit ∧ s.visit ≤ db.now + n) ∧ (∀ s, r.eSched = some s → db.now < s.visit ∧ s.visit ≤ db.now + n)

theorem run_append (db : DB) (a b : List Op) : run db (a ++ b) = run (run db a) b := by
  unfold run; rw [List.foldl_append]

/-- after the sweeps have passed every scheduled second no wheel entry is left -/
theorem ticks_dead (n : Nat) (db : DB) (h : DBQ db) (hd : Dead db) (hv : Within db n) :
    DBQ (run db (List.replicate n .tick)) ∧ Dead (run db (List.replicate n .tick)) ∧
    ∀ k ∈ (run db (List.replicate n .tick)).keys, ∀ r ∈ k.recs, r.tSched = none ∧ r.eSched = none := by
  induction n generalizing db with
  | zero =>
    refine ⟨h, hd, fun k hk r hr => ⟨?_, ?_⟩⟩
    · cases hs : r.tSched with
      | none => rfl
      | some s => have := (hv k hk r hr).1 s hs; omega
    · cases hs : r.eSched with
      | none => rfl
      | some s => have := (hv k hk r hr).2 s hs; omega
  | succ n ih =>
    obtain ⟨h1, hd1, s1, n1, v1, v2⟩ := tick_dead db h hd
    have hv1 : Within (opTick db).1 n := by
      intro k' hk' r' hr'
      obtain ⟨k, hk, _, ks⟩ := s1 k' hk'
      obtain ⟨r, hr, rs⟩ := ks r' hr'
      refine ⟨fun s hs => ?_, fun s hs => ?_⟩
      · have hne := v1 k' hk' r' hr' s hs
        rcases rs.t with h4 | h4
        · rw [h4] at hs; simp at hs
        · have := (hv k hk r hr).1 s (by rw [← h4]; exact hs)
          rw [n1]; omega
      · have hne := v2 k' hk' r' hr' s hs
        rcases rs.e with h4 | h4
        · rw [h4] at hs; simp at hs
        · have := (hv k hk r hr).2 s (by rw [← h4]; exact hs)
          rw [n1]; omega
    have := ih (opTick db).1 h1 hd1 hv1
    have e : run db (List.replicate (n + 1) .tick) = run (opTick db).1 (List.replicate n .tick) := by
      unfold run; rw [List.replicate_succ, List.foldl_cons]; rfl
    rw [e]; exact this

/-! executable forms of the two hypotheses (for concrete instances) -/
def deadB (db : DB) : Bool := db.keys.all (fun k => k.recs.all (fun r => r.depth == 0 && r.timeouted))
def okS (now n : Nat) : Option Sched → Bool
  | some s => decide (now < s.visit) && decide (s.visit ≤ now + n)
  | none => true
def withinB (db : DB) (n : Nat) : Bool := db.keys.all (fun k => k.recs.all (fun r => okS db.now n r.tSched && okS db.now n r.eSched))

theorem dead_of_b (db : DB) (h : deadB db = true) : Dead db := by
  intro k hk r hr
  unfold deadB at h
  have := List.all_eq_true.mp (List.all_eq_true.mp h k hk) r hr
  simpa using this

theorem within_of_b (db : DB) (n : Nat) (h : withinB db n = true) : Within db n := by
  intro k hk r hr
  unfold withinB at h
  have := List.all_eq_true.mp (List.all_eq_true.mp h k hk) r hr
  simp only [Bool.and_eq_true] at this
  refine ⟨fun s hs => ?_, fun s hs => ?_⟩
  · have h1 := this.1; rw [hs] at h1; simpa [okS] using h1
  · have h1 := this.2; rw [hs] at h1; simpa [okS] using h1

end Slock.Engine2
