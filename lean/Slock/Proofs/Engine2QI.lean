import Slock.Proofs.Engine2PK
import Slock.Proofs.Engine2TightRun
/-! Stage-2 engine: tombstoned queue entries cannot outlive the live ones.
* `CurNone`: while `currentLock` is nil the holder queue is empty (an entry is only ever queued behind a current holder, and when the
  current holder goes the queue is popped up to its first live entry — or emptied);
* `WLive`: a non-empty wait queue contains a live request (whenever a queued request is ended — cancelled, timed out, granted — the
  queue is popped up to its first live entry — or emptied). -/
namespace Slock.Engine2
open Slock.Engine (has)

def CurNone (k : Key) : Prop := k.current = none → k.locks = []
def WLive (k : Key) : Prop := k.wait ≠ [] → ∃ e ∈ k.wait, (k.getR e.rid).timeouted = false

structure QI (k : Key) : Prop where
  cn : CurNone k
  wl : WLive k

theorem QI.newKey (n : Nat) : QI (newKey n) := ⟨fun _ => rfl, fun h => absurd rfl h⟩

/-- a step that leaves the three queues alone, adds no record and keeps `timeouted` of the surviving ones -/
structure QK (w' w : W) : Prop where
  q : w'.k.queues = w.k.queues
  t : PKeep (·.timeouted) w'.k w.k

theorem QK.refl (w : W) : QK w w := ⟨rfl, PKeep.refl _⟩
theorem QK.trans {a b c : W} (h1 : QK a b) (h2 : QK b c) : QK a c := ⟨h1.q.trans h2.q, h1.t.trans h2.t⟩
theorem QK.of_k {w w' : W} (h : w'.k = w.k) : QK w' w := ⟨by rw [h], by rw [h]; exact PKeep.refl _⟩

theorem queues_eq {k' k : Key} (h : k'.queues = k.queues) : k'.current = k.current ∧ k'.locks = k.locks ∧ k'.wait = k.wait := by
  unfold Key.queues at h
  have h1 := (Prod.mk.inj h).1
  have h2 := (Prod.mk.inj (Prod.mk.inj h).2)
  exact ⟨h1, h2.1, h2.2⟩

theorem queues_mk {k' k : Key} (h1 : k'.current = k.current) (h2 : k'.locks = k.locks) (h3 : k'.wait = k.wait) : k'.queues = k.queues := by
  unfold Key.queues; rw [h1, h2, h3]

theorem wait_hasRec {w : W} (l : Lv w zero) : ∀ e ∈ w.k.wait, w.k.hasRec e.rid := by
  intro e he
  apply l.rc.dang
  have := qRefs_pos_of_wait_mem w.k e.rid (List.mem_map.mpr ⟨e, he, rfl⟩)
  simp only [zero]; omega

theorem CurNone.of_q {k k' : Key} (h : CurNone k) (q : k'.queues = k.queues) : CurNone k' := by
  obtain ⟨q1, q2, _⟩ := queues_eq q
  intro hc; rw [q2]; exact h (by rw [← q1]; exact hc)

/-- a live entry stays live over a quiet step, as long as its record is still there afterwards -/
theorem WLive.of_keep {k k' : Key} (h : WLive k) (hw : k'.wait = k.wait) (t : PKeep (·.timeouted) k' k) (hd : ∀ e ∈ k'.wait, k'.hasRec e.rid) : WLive k' := by
  intro hne
  rw [hw] at hne
  obtain ⟨e, he, hl⟩ := h hne
  refine ⟨e, by rw [hw]; exact he, ?_⟩
  have := t.val e.rid (hd e (by rw [hw]; exact he))
  exact this.trans hl

theorem QI.of_qk {w w' : W} (h : QI w.k) (d : QK w' w) (l : Lv w' zero) : QI w'.k :=
  ⟨h.cn.of_q d.q, h.wl.of_keep (queues_eq d.q).2.2 d.t (wait_hasRec l)⟩

/-! ### the helpers -/

theorem qk_procData (w : W) (ct : Slock.Value.CmdType) (c : Cmd) (f : Option Bytes) (rid : Nat) : QK (w.procData ct c f rid) w :=
  ⟨queues_procData w ct c f rid, pk_procData ins_timeouted w ct c f rid⟩
theorem qk_pushLockAof (w : W) (rid flag : Nat) : QK (w.pushLockAof rid flag) w := ⟨queues_pushLockAof w rid flag, pk_pushLockAof ins_timeouted w rid flag⟩
theorem qk_pushLockAofN (n : Nat) (w : W) (rid : Nat) : QK (W.pushLockAofN n w rid) w := by
  induction n generalizing w with
  | zero => exact QK.refl _
  | succ n ih => unfold W.pushLockAofN; exact (ih _).trans (qk_pushLockAof _ _ _)
theorem qk_pushUnLockAof (w : W) (rid : Nat) (lc : Cmd) (fa ia : Bool) (flag : Nat) : QK (w.pushUnLockAof rid lc fa ia flag) w := by
  refine ⟨?_, pk_pushUnLockAof ins_timeouted w rid lc fa ia flag⟩
  unfold W.pushUnLockAof
  split
  · rfl
  · split
    · rfl
    · exact queues_aofLockData w.k false rid
theorem qk_when (w : W) (b : Bool) (f : W → W) (h : QK (f w) w) : QK (w.when b f) w := by
  cases b
  · exact QK.refl _
  · exact h
theorem qk_journalLock (w : W) (rid flag : Nat) : QK (w.journalLock rid flag) w := qk_when _ _ _ (qk_pushLockAof _ _ _)
theorem qk_journalUnlock (w : W) (rid : Nat) (fa ia : Bool) (flag : Nat) : QK (w.journalUnlock rid fa ia flag) w :=
  qk_when _ _ _ (qk_pushUnLockAof _ _ _ _ _ _)
theorem qk_modR (w : W) (rid : Nat) (f : Rec → Rec) (hf : ∀ r, (f r).rid = r.rid) (hd : ∀ r, (f r).timeouted = r.timeouted) : QK (w.modR rid f) w :=
  ⟨rfl, pk_modR w rid f hf hd⟩
theorem qk_ref (w : W) (rid : Nat) : QK (w.ref rid) w := qk_modR w rid _ (fun _ => rfl) (fun _ => rfl)
theorem qk_schedExpried (w : W) (rid : Nat) : QK (w.schedExpried rid) w := ⟨rfl, pk_schedExpried w rid (fun _ _ => rfl)⟩
theorem qk_addExpried (w : W) (rid : Nat) : QK (w.addExpried rid) w := by
  unfold W.addExpried
  simp only []
  exact (qk_when _ _ _ (qk_pushLockAofN _ _ _)).trans (qk_schedExpried _ _)
theorem qk_removeLongT (w : W) (rid : Nat) : QK (w.removeLongT rid) w := ⟨rfl, pk_removeLongT ins_timeouted w rid (fun _ _ => rfl)⟩
theorem qk_removeLongE (w : W) (rid : Nat) : QK (w.removeLongE rid) w := ⟨rfl, pk_removeLongE ins_timeouted w rid (fun _ _ => rfl)⟩
theorem qk_dropLongT (w : W) (rid : Nat) : QK (w.dropLongT rid) w := qk_when _ _ _ (qk_removeLongT _ _)
theorem qk_dropLongE (w : W) (rid : Nat) : QK (w.dropLongE rid) w := qk_when _ _ _ (qk_removeLongE _ _)
theorem qk_grantNoHold (w : W) (rid : Nat) : QK (w.grantNoHold rid) w := ⟨queues_grantNoHold w rid, pk_grantNoHold ins_timeouted w rid⟩
/-- an edit of the key record that touches neither records nor queues -/
theorem qk_modK (w : W) (f : Key → Key) (h1 : (f w.k).recs = w.k.recs) (h2 : (f w.k).queues = w.k.queues) : QK (w.modK f) w :=
  ⟨h2, PKeep.of_eq h1⟩
theorem qk_free (w : W) (rid : Nat) : QK (w.modK (·.free rid)) w := by
  obtain ⟨a, b, c, _⟩ := free_queues w.k rid
  exact ⟨queues_mk c a b, PKeep.free _ _⟩
theorem qk_unrefOnly (w : W) (rid : Nat) : QK (w.modK (·.unrefOnly rid)) w := ⟨rfl, PKeep.unrefOnly ins_timeouted _ _⟩

theorem updF_timeouted (db : DB) (s : Bool) (c : Cmd) (r : Rec) : (updF db s c r).timeouted = r.timeouted := by
  unfold updF; simp only []; split <;> split <;> rfl

theorem qk_updateLocked (w : W) (rid : Nat) (c : Cmd) : QK (w.updateLocked rid c) w := by
  unfold W.updateLocked
  simp only []
  have hf := updF_fields w.db (!(w.k.getR rid).isAof && w.k.current == some rid && w.k.locks.isEmpty) c
  refine QK.trans (qk_modR _ rid (fun r => { r with conn := c.conn }) (by intro _; rfl) (by intro _; rfl)) ?_
  refine QK.trans (qk_when _ _ _ ?_) (qk_modR w rid _ (fun r => (hf r).1) (fun r => updF_timeouted _ _ _ r))
  exact (qk_ref _ _).trans ((qk_addExpried _ _).trans (qk_removeLongE _ _))

/-! ### guarded form, and the reclaim check -/

def QIG (w : W) : Prop := w.gone = false → QI w.k

theorem QIG.of_qi {w : W} (h : QI w.k) : QIG w := fun _ => h

theorem QIG.step {w w' : W} (h : QIG w) (f : Fr w w') (hs : QI w.k → w'.gone = false → QI w'.k) : QIG w' :=
  fun hg => hs (h (gone_of_fr f hg)) hg

theorem QIG.removeIfZero {w : W} (h : QIG w) : QIG w.removeIfZero := by
  rcases removeIfZero_cases w with e | ⟨hg, _⟩
  · rw [e]; exact h
  · intro hf; rw [hg] at hf; exact absurd hf (by simp)

theorem QIG.qk {w w' : W} (h : QIG w) (f : Fr w w') (d : QK w' w) (g : GoodG w') : QIG w' :=
  h.step f (fun q hg => q.of_qk d (g hg).lv)

theorem QIG.reply {w : W} (h : QIG w) (c : Cmd) (a b : Nat) (d : Option Bytes) : QIG (w.reply c a b d) := h
theorem QIG.ctr {w : W} (h : QIG w) (f : Counters → Counters) : QIG (w.ctr f) := h

/-! ### the steps that do touch a queue or `timeouted` -/

theorem getR_addRec (k : Key) (r : Rec) (c : Nat) (h : k.hasRec c) : (k.addRec r).getR c = k.getR c := by
  obtain ⟨x, hx⟩ := hasRec_find k c h
  unfold Key.getR Key.addRec
  simp only []
  rw [List.find?_append, hx]; rfl

/-- `GetOrNewLock`: a new record, in no queue -/
theorem QI.newLock {w : W} (h : QI w.k) (l : Lv w zero) (c : Cmd) (d : Option Bytes) : QI (w.newLock c d).1.k := by
  refine ⟨h.cn, ?_⟩
  intro hne
  obtain ⟨e, he, hl⟩ := h.wl hne
  refine ⟨e, he, ?_⟩
  show ((w.k.addRec _).getR e.rid).timeouted = false
  rw [getR_addRec _ _ _ (wait_hasRec l e he)]; exact hl

theorem foldl_unrefW_queues (d : List WEnt) (k : Key) :
    (d.foldl (fun k x => k.unref x.rid) k).queues = k.queues := by
  induction d generalizing k with
  | nil => rfl
  | cons a as ih =>
    simp only [List.foldl_cons]
    obtain ⟨q1, q2, q3, _⟩ := unref_queues k a.rid
    exact (ih _).trans (queues_mk q3 q1 q2)

theorem locksPush_wait (k : Key) (rid : Nat) : (k.locksPush rid).wait = k.wait ∧ (k.locksPush rid).current = k.current := by
  unfold Key.locksPush
  simp only []
  split
  · exact ⟨rfl, rfl⟩
  · split
    · exact ⟨rfl, rfl⟩
    · have := foldl_unref_queues (k.locks.filter (fun x => !k.liveHolder x))
        (if (k.locks.filter (fun x => k.liveHolder x)).length < k.locksPopped + k.locks.length then
          { k with locks := k.locks.filter (fun x => k.liveHolder x) ++ [rid], locksPopped := 0 }
        else { k with locks := k.locks.filter (fun x => k.liveHolder x) ++ [rid], locksCap := 2 * k.locksCap })
      refine ⟨this.2.1.trans ?_, this.2.2.trans ?_⟩ <;> split <;> rfl

theorem addLock_wait (k : Key) (rid : Nat) (f : Rec → Rec) : (k.addLock rid f).wait = k.wait := by
  unfold Key.addLock
  split
  · rfl
  · exact (locksPush_wait _ rid).1

theorem addLock_current (k : Key) (rid : Nat) (f : Rec → Rec) : (k.addLock rid f).current ≠ none := by
  unfold Key.addLock
  split
  · simp
  · rename_i c hc
    rw [(locksPush_wait _ rid).2]
    show k.current ≠ none
    rw [hc]; simp

/-- the grant: `AddLock` leaves a current holder; nothing else touches a queue -/
theorem QI.grant {w : W} (h : QI w.k) (l0 : Lv w zero) (rid : Nat) (g : Grantable w.k rid) : QI (w.grant rid).k := by
  obtain ⟨lg, _⟩ := l0.grant zero_nonneg rid g
  have hf := addLockF_fields w.db w.k
  have l1 := l0.addLock zero_nonneg rid g.has
  have q1 : QI (w.addLock rid).k := by
    refine ⟨fun hc => absurd hc (addLock_current _ _ _), ?_⟩
    exact h.wl.of_keep (addLock_wait _ _ _) (PKeep.addLock ins_timeouted w.k rid _ (fun r => (hf r).1) (fun r => (hf r).2.1)) (wait_hasRec l1)
  refine q1.of_qk ?_ lg
  have d1 : QK ((w.addLock rid).modK incLocked) (w.addLock rid) := qk_modK _ incLocked rfl rfl
  have d2 := (qk_procData ((w.addLock rid).modK incLocked) .lock (((w.addLock rid).modK incLocked).k.getR rid).cmd
    (frameOf (((w.addLock rid).modK incLocked).k.getR rid).cmd (((w.addLock rid).modK incLocked).k.getR rid).data) rid).trans d1
  have d3 := (qk_modR _ rid (fun r => { r with data := none }) (by intro _; rfl) (by intro _; rfl)).trans d2
  have d4 := (qk_addExpried _ rid).trans d3
  have d5 := (qk_ref _ rid).trans d4
  exact ⟨d5.q, d5.t⟩

theorem locksSkip_queues (take : Bool) (l : List Nat) (k : Key) :
    (locksSkip take l k).1.wait = k.wait ∧ (locksSkip take l k).1.current = k.current := by
  induction l generalizing k with
  | nil => exact ⟨rfl, rfl⟩
  | cons x rest ih =>
    unfold locksSkip
    split
    · split
      · exact ⟨rfl, rfl⟩
      · exact ⟨rfl, rfl⟩
    · obtain ⟨_, q2, q3, _⟩ := unref_queues { k with locks := rest, locksPopped := k.locksPopped + 1 } x
      obtain ⟨a, b⟩ := ih ({ k with locks := rest, locksPopped := k.locksPopped + 1 }.unref x)
      exact ⟨a.trans q2, b.trans q3⟩

/-- when the skip finds no live entry the queue is empty afterwards -/
theorem locksSkip_none (take : Bool) (l : List Nat) (k : Key) (hl : k.locks = l) (h : (locksSkip take l k).2 = none) :
    (locksSkip take l k).1.locks = [] := by
  induction l generalizing k with
  | nil => exact hl
  | cons x rest ih =>
    unfold locksSkip at h ⊢
    split
    · rename_i hv
      simp only [hv, if_true] at h
      split at h <;> simp at h
    · rename_i hv
      simp only [hv, Bool.false_eq_true, if_false] at h
      obtain ⟨q1, _⟩ := unref_queues { k with locks := rest, locksPopped := k.locksPopped + 1 } x
      exact ih _ q1 h

theorem removeLock_wait (k : Key) (rid : Nat) : (k.removeLock rid).wait = k.wait := by
  unfold Key.removeLock
  simp only []
  split
  · exact (locksSkip_queues true _ _).1
  · exact (locksSkip_queues false _ _).1

theorem CurNone.removeLock {k : Key} (h : CurNone k) (rid : Nat) : CurNone (k.removeLock rid) := by
  unfold Key.removeLock
  simp only []
  split
  · intro hc
    exact locksSkip_none true _ _ rfl hc
  · intro hc
    have hcur : (locksSkip false (k.modRec rid fun r => { r with depth := 0 }).locks (k.modRec rid fun r => { r with depth := 0 })).1.current = k.current :=
      (locksSkip_queues false _ _).2
    rw [hcur] at hc
    have hl : (k.modRec rid fun r => { r with depth := 0 }).locks = [] := h hc
    rw [hl]
    exact hl

theorem QI.removeLock {k : Key} (h : QI k) (rid : Nat) (hd : ∀ e ∈ (k.removeLock rid).wait, (k.removeLock rid).hasRec e.rid) : QI (k.removeLock rid) :=
  ⟨h.cn.removeLock rid, h.wl.of_keep (removeLock_wait k rid) (PKeep.removeLock ins_timeouted (fun _ _ => rfl) k rid) hd⟩

/-! ### the wait queue -/

theorem waitSkip_cl (l : List WEnt) (k : Key) : (waitSkip l k).1.current = k.current ∧ (waitSkip l k).1.locks = k.locks := by
  induction l generalizing k with
  | nil => exact ⟨rfl, rfl⟩
  | cons e rest ih =>
    unfold waitSkip
    split
    · obtain ⟨q1, _, q3, _⟩ := unref_queues { k with wait := rest, waitPopped := if k.waitPrio then k.waitPopped else k.waitPopped + 1 } e.rid
      obtain ⟨a, b⟩ := ih ({ k with wait := rest, waitPopped := if k.waitPrio then k.waitPopped else k.waitPopped + 1 }.unref e.rid)
      exact ⟨a.trans q3, b.trans q1⟩
    · exact ⟨rfl, rfl⟩

theorem waitSkip_none (l : List WEnt) (k : Key) (hl : k.wait = l) (h : (waitSkip l k).2 = none) : (waitSkip l k).1.wait = [] := by
  induction l generalizing k with
  | nil => exact hl
  | cons e rest ih =>
    unfold waitSkip at h ⊢
    split
    · rename_i hv
      simp only [hv, if_true] at h
      obtain ⟨_, q2, _⟩ := unref_queues { k with wait := rest, waitPopped := if k.waitPrio then k.waitPopped else k.waitPopped + 1 } e.rid
      exact ih _ q2 h
    · rename_i hv
      simp only [hv, Bool.false_eq_true, if_false] at h
      simp at h

/-- what the pop leaves behind is empty or starts with a live request -/
theorem wl_getWaitLock (k : Key) : WLive k.getWaitLock.1 := by
  intro hne
  cases h : k.getWaitLock.2 with
  | none => exact absurd (waitSkip_none _ _ rfl h) hne
  | some rid =>
    obtain ⟨e, rest, hw, he, hd⟩ := getWaitLock_some k rid h
    refine ⟨e, by rw [hw]; simp, ?_⟩
    rw [he]; simpa [Key.deadWaiter] using hd

theorem QI.getWaitLock {k : Key} (h : QI k) : QI k.getWaitLock.1 := by
  obtain ⟨a, b⟩ := waitSkip_cl k.wait k
  refine ⟨?_, wl_getWaitLock k⟩
  intro hc
  show (waitSkip k.wait k).1.locks = []
  rw [b]; exact h.cn (by rw [← a]; exact hc)

theorem QI.of_same {k k' : Key} (h : QI k) (h1 : k'.recs = k.recs) (h2 : k'.queues = k.queues) : QI k' := by
  obtain ⟨q1, q2, q3⟩ := queues_eq h2
  refine ⟨h.cn.of_q h2, ?_⟩
  intro hne
  rw [q3] at hne
  obtain ⟨e, he, hl⟩ := h.wl hne
  refine ⟨e, by rw [q3]; exact he, ?_⟩
  unfold Key.getR at hl ⊢; rw [h1]; exact hl

theorem QI.settleWait {k : Key} (h : QI k) : QI k.settleWait := by
  unfold Key.settleWait
  split
  · exact h.getWaitLock.of_same rfl rfl
  · exact h.getWaitLock

theorem CurNone.of_cl {k k' : Key} (h : CurNone k) (h1 : k'.current = k.current) (h2 : k'.locks = k.locks) : CurNone k' := by
  intro hc; rw [h2]; exact h (by rw [← h1]; exact hc)

end Slock.Engine2
