import Slock.Proofs.Engine2SimRelease
/-! Simulation stage 2 → stage 1: `UpdateLockedLock` + the long-table move (`W.updateLocked`) is stage 1's `updateHold` on the hold's
stage-1 view, given that the hold's wheel entry caches its back-off counter (`eSched = some sc`, `sc.checked = eChecked`). -/
namespace Slock.Sim
open Slock Slock.Engine2
open Slock.Engine (has)

theorem updF_πG_U (db : DB) (so : Bool) (c : Engine.Cmd) (r : Rec)
    (hU : (has c.eflag Engine.EF_UNLIMITED && c.expried ≥ 0xffff) = true) :
    πG (updF db so c r) = (r.hid, c, r.conn, r.depth, r.startT, r.expT, r.eChecked, r.eSched.map (fun s => { s with checked := r.eChecked })) := by
  unfold updF
  simp only [hU, if_true]
  cases so <;> rfl

theorem updF_πG_N (db : DB) (so : Bool) (c : Engine.Cmd) (r : Rec)
    (hU : (has c.eflag Engine.EF_UNLIMITED && c.expried ≥ 0xffff) = false) :
    πG (updF db so c r) = (r.hid, c, r.conn, r.depth, db.now, Engine.expiryDeadline db.now c,
      (if has c.eflag Engine.EF_NO_RESET then r.eChecked else Engine.initChecked c db.now (Engine.expiryDeadline db.now c)),
      r.eSched.map (fun s => { s with checked :=
        (if has c.eflag Engine.EF_NO_RESET then r.eChecked else Engine.initChecked c db.now (Engine.expiryDeadline db.now c)) })) := by
  unfold updF
  simp only [hU, Bool.false_eq_true, if_false]
  cases so <;> rfl

theorem toHold_of_πG {r r' : Rec} (h : πG r = πG r') : r.toHold = r'.toHold := by
  have h1 : r.hid = r'.hid := congrArg (fun t => t.1) h
  have h2 : r.cmd = r'.cmd := congrArg (fun t => t.2.1) h
  have h3 : r.conn = r'.conn := congrArg (fun t => t.2.2.1) h
  have h4 : r.depth = r'.depth := congrArg (fun t => t.2.2.2.1) h
  have h5 : r.startT = r'.startT := congrArg (fun t => t.2.2.2.2.1) h
  have h6 : r.expT = r'.expT := congrArg (fun t => t.2.2.2.2.2.1) h
  have h8 : r.eSched = r'.eSched := congrArg (fun t => t.2.2.2.2.2.2.2) h
  unfold Rec.toHold
  rw [h1, h2, h3, h4, h5, h6, h8]

theorem sched_eta (sc : Engine.Sched) : ({ sc with checked := sc.checked } : Engine.Sched) = sc := by cases sc; rfl

/-- the hold after an update that resets its times -/
def holdUpd (H : Engine.Hold) (c : Engine.Cmd) (now expT : Nat) (sd : Engine.Sched) : Engine.Hold :=
  { H with cmd := c, conn := c.conn, startT := now, expT := expT, sched := sd }

theorem bne_comm_nat (a b : Nat) : (a != b) = (b != a) := by
  by_cases h : a = b
  · subst h; rfl
  · have h' : b ≠ a := fun e => h e.symm
    rw [show (a != b) = true from bne_iff_ne.mpr h, show (b != a) = true from bne_iff_ne.mpr h']

/-- the long-table move of `UpdateLockedLock`: entry removed, `AddExpried` again, `refCount++` -/
theorem move_rec (w1 : W) (rid : Nat) (hh1 : w1.k.hasRec rid) :
    (((w1.removeLongE rid).addExpried rid).ref rid).k.hasRec rid ∧
    πG ((((w1.removeLongE rid).addExpried rid).ref rid).k.getR rid) =
      πG (Rec.armE (Engine.wheelAdd w1.db.eCheck w1.db.seq (w1.k.getR rid).expT (w1.k.getR rid).eChecked) (w1.k.getR rid)) ∧
    (((w1.removeLongE rid).addExpried rid).ref rid).db.seq = w1.db.seq + 1 ∧
    (((w1.removeLongE rid).addExpried rid).ref rid).db.eCheck = w1.db.eCheck ∧
    (((w1.removeLongE rid).addExpried rid).ref rid).db.tCheck = w1.db.tCheck ∧
    (((w1.removeLongE rid).addExpried rid).ref rid).db.now = w1.db.now ∧
    (((w1.removeLongE rid).addExpried rid).ref rid).db.ctr = w1.db.ctr ∧
    (((w1.removeLongE rid).addExpried rid).ref rid).db.leader = w1.db.leader := by
  obtain ⟨hL, _, _⟩ := getR_removeLongE w1 rid hh1
  have gL : πG ((w1.removeLongE rid).k.getR rid) = πG ({ w1.k.getR rid with eSched := none } : Rec) := by
    unfold W.removeLongE Key.unrefOnly
    have h1 : (w1.k.modRec rid fun r => { r with eSched := none }).hasRec rid := by
      rw [hasRec_modRec _ _ _ _ (by intro _; rfl)]; exact hh1
    show πG (((w1.k.modRec rid fun r => { r with eSched := none }).modRec rid _).getR rid) = _
    rw [getR_modRec_proj πG _ rid rid _ (by intro _; rfl) (by intro _; rfl), getR_modRec_same _ _ _ (by intro _; rfl) hh1]
  obtain ⟨hA, gA⟩ := addExpried_rec (w1.removeLongE rid) rid hL
  obtain ⟨d1, d2, d3, d4, d5, d6⟩ := addExpried_db (w1.removeLongE rid) rid
  refine ⟨(hasRec_modR _ rid rid (fun r => { r with refCount := r.refCount + 1 }) (fun _ => rfl)).mpr hA, ?_, d1, d2, d3, d4, d5, d6⟩
  show πG ((((w1.removeLongE rid).addExpried rid).k.modRec rid _).getR rid) = _
  rw [getR_modRec_proj πG _ rid rid _ (by intro _; rfl) (by intro _; rfl), gA]
  have e6 : ((w1.removeLongE rid).k.getR rid).expT = (w1.k.getR rid).expT := congrArg (fun t => t.2.2.2.2.2.1) gL
  have e7 : ((w1.removeLongE rid).k.getR rid).eChecked = (w1.k.getR rid).eChecked := congrArg (fun t => t.2.2.2.2.2.2.1) gL
  rw [e6, e7]
  show πG (Rec.armE _ _) = πG (Rec.armE _ _)
  unfold Rec.armE πG
  simp only []
  have e1 : ((w1.removeLongE rid).k.getR rid).hid = (w1.k.getR rid).hid := congrArg (fun t => t.1) gL
  have e2 : ((w1.removeLongE rid).k.getR rid).cmd = (w1.k.getR rid).cmd := congrArg (fun t => t.2.1) gL
  have e3 : ((w1.removeLongE rid).k.getR rid).conn = (w1.k.getR rid).conn := congrArg (fun t => t.2.2.1) gL
  have e4 : ((w1.removeLongE rid).k.getR rid).depth = (w1.k.getR rid).depth := congrArg (fun t => t.2.2.2.1) gL
  have e5 : ((w1.removeLongE rid).k.getR rid).startT = (w1.k.getR rid).startT := congrArg (fun t => t.2.2.2.2.1) gL
  rw [e1, e2, e3, e4, e5, e7]
  rfl

/-- the hold's record and the scalar fields after `W.updateLocked`, against stage 1's `updateHold` -/
theorem updateLocked_hold (w : W) (rid : Nat) (c : Engine.Cmd) (hh : w.k.hasRec rid) (a : Engine.DB) (hs : Scal a w.db)
    (sc : Engine.Sched) (hsc : (w.k.getR rid).eSched = some sc) (hck : sc.checked = (w.k.getR rid).eChecked) :
    (w.updateLocked rid c).k.hasRec rid ∧
    ((w.updateLocked rid c).k.getR rid).toHold = (Engine.updateHold a (w.k.getR rid).toHold c).2 ∧
    Scal (Engine.updateHold a (w.k.getR rid).toHold c).1 (w.updateLocked rid c).db := by
  generalize hso : (!(w.k.getR rid).isAof && w.k.current == some rid && w.k.locks.isEmpty) = so
  have hf := updF_fields w.db so c
  -- after the record edit
  have hU1 : (w.modR rid (updF w.db so c)).k.hasRec rid := (hasRec_modR _ rid rid _ (fun r => (hf r).1)).mpr hh
  have gU : (w.modR rid (updF w.db so c)).k.getR rid = updF w.db so c (w.k.getR rid) := getR_modRec_same _ _ _ (fun r => (hf r).1) hh
  have hsched : (w.k.getR rid).toHold.sched = sc := by unfold Rec.toHold; rw [hsc]; rfl
  have hlong : (w.k.getR rid).eLong = sc.long := by unfold Rec.eLong; rw [hsc]
  unfold W.updateLocked
  simp only []
  rw [hso]
  -- the branch without the long-table move
  have noMove : ∀ (X : Engine.DB × Engine.Hold), X.1 = a → X.2 = ({ updF w.db so c (w.k.getR rid) with conn := c.conn } : Rec).toHold →
      ((w.modR rid (updF w.db so c)).modR rid (fun r => { r with conn := c.conn })).k.hasRec rid ∧
      (((w.modR rid (updF w.db so c)).modR rid (fun r => { r with conn := c.conn })).k.getR rid).toHold = X.2 ∧
      Scal X.1 ((w.modR rid (updF w.db so c)).modR rid (fun r => { r with conn := c.conn })).db := by
    intro X h1 h2
    refine ⟨(hasRec_modR _ rid rid (fun r => { r with conn := c.conn }) (fun _ => rfl)).mpr hU1, ?_, by rw [h1]; exact hs⟩
    rw [h2]
    show (((w.modR rid (updF w.db so c)).k.modRec rid (fun r => { r with conn := c.conn })).getR rid).toHold = _
    rw [getR_modRec_same _ rid (fun r => { r with conn := c.conn }) (fun _ => rfl) hU1, gU]
  by_cases hU : (has c.eflag Engine.EF_UNLIMITED && c.expried ≥ 0xffff) = true
  · -- unlimited: only the command changes
    have hp := updF_πG_U w.db so c (w.k.getR rid) hU
    have hexp : (updF w.db so c (w.k.getR rid)).expT = (w.k.getR rid).expT := congrArg (fun t => t.2.2.2.2.2.1) hp
    have hcond : ((w.k.getR rid).eLong && (w.k.getR rid).expT != (updF w.db so c (w.k.getR rid)).expT) = false := by
      rw [hexp]; simp
    rw [hcond]
    unfold W.when
    simp only [Bool.false_eq_true, if_false]
    refine noMove (Engine.updateHold a (w.k.getR rid).toHold c) ?_ ?_
    · unfold Engine.updateHold; rw [if_pos hU]
    · unfold Engine.updateHold; rw [if_pos hU]
      simp only []
      have : ({ updF w.db so c (w.k.getR rid) with conn := c.conn } : Rec).toHold =
          { (updF w.db so c (w.k.getR rid)).toHold with conn := c.conn } := rfl
      rw [this]
      have e2 : (updF w.db so c (w.k.getR rid)).toHold = { (w.k.getR rid).toHold with cmd := c } := by
        have h1 : (updF w.db so c (w.k.getR rid)).hid = (w.k.getR rid).hid := congrArg (fun t => t.1) hp
        have h2 : (updF w.db so c (w.k.getR rid)).cmd = c := congrArg (fun t => t.2.1) hp
        have h3 : (updF w.db so c (w.k.getR rid)).conn = (w.k.getR rid).conn := congrArg (fun t => t.2.2.1) hp
        have h4 : (updF w.db so c (w.k.getR rid)).depth = (w.k.getR rid).depth := congrArg (fun t => t.2.2.2.1) hp
        have h5 : (updF w.db so c (w.k.getR rid)).startT = (w.k.getR rid).startT := congrArg (fun t => t.2.2.2.2.1) hp
        have h8 : (updF w.db so c (w.k.getR rid)).eSched = (w.k.getR rid).eSched.map (fun s => { s with checked := (w.k.getR rid).eChecked }) :=
          congrArg (fun t => t.2.2.2.2.2.2.2) hp
        unfold Rec.toHold
        rw [h1, h2, h3, h4, h5, hexp, h8, hsc]
        simp only [Option.map_some, Option.getD_some]
        rw [← hck, sched_eta sc]
      rw [e2]
  · have hU' : (has c.eflag Engine.EF_UNLIMITED && c.expried ≥ 0xffff) = false := by
      cases hx : (has c.eflag Engine.EF_UNLIMITED && c.expried ≥ 0xffff) with
      | false => rfl
      | true => exact absurd hx hU
    have hp := updF_πG_N w.db so c (w.k.getR rid) hU'
    have h1 : (updF w.db so c (w.k.getR rid)).hid = (w.k.getR rid).hid := congrArg (fun t => t.1) hp
    have h2 : (updF w.db so c (w.k.getR rid)).cmd = c := congrArg (fun t => t.2.1) hp
    have h3 : (updF w.db so c (w.k.getR rid)).conn = (w.k.getR rid).conn := congrArg (fun t => t.2.2.1) hp
    have h4 : (updF w.db so c (w.k.getR rid)).depth = (w.k.getR rid).depth := congrArg (fun t => t.2.2.2.1) hp
    have h5 : (updF w.db so c (w.k.getR rid)).startT = w.db.now := congrArg (fun t => t.2.2.2.2.1) hp
    have h6 : (updF w.db so c (w.k.getR rid)).expT = Engine.expiryDeadline w.db.now c := congrArg (fun t => t.2.2.2.2.2.1) hp
    have h7 : (updF w.db so c (w.k.getR rid)).eChecked =
        (if has c.eflag Engine.EF_NO_RESET then (w.k.getR rid).eChecked else Engine.initChecked c w.db.now (Engine.expiryDeadline w.db.now c)) :=
      congrArg (fun t => t.2.2.2.2.2.2.1) hp
    have h8 : (updF w.db so c (w.k.getR rid)).eSched = (w.k.getR rid).eSched.map (fun s => { s with checked :=
        (if has c.eflag Engine.EF_NO_RESET then (w.k.getR rid).eChecked else Engine.initChecked c w.db.now (Engine.expiryDeadline w.db.now c)) }) :=
      congrArg (fun t => t.2.2.2.2.2.2.2) hp
    generalize hchk : (if has c.eflag Engine.EF_NO_RESET then (w.k.getR rid).eChecked
      else Engine.initChecked c w.db.now (Engine.expiryDeadline w.db.now c)) = chk at h7 h8
    -- stage 1, in stage-2 terms
    have hchk1 : (if has c.eflag Engine.EF_NO_RESET then (w.k.getR rid).toHold.sched.checked
        else Engine.initChecked c a.now (Engine.expiryDeadline a.now c)) = chk := by
      rw [hsched, hck, hs.now]; exact hchk
    have hexpT : (w.k.getR rid).toHold.expT = (w.k.getR rid).expT := rfl
    rw [hlong, h6]
    unfold Engine.updateHold
    rw [if_neg hU]
    simp only []
    rw [hchk1, hsched, hexpT, hs.now]
    -- the record when nothing moves
    have hstay : ({ updF w.db so c (w.k.getR rid) with conn := c.conn } : Rec).toHold =
        holdUpd (w.k.getR rid).toHold c w.db.now (Engine.expiryDeadline w.db.now c) { sc with checked := chk } := by
      unfold Rec.toHold
      simp only []
      rw [h1, h2, h4, h5, h6, h8, hsc]
      rfl
    cases hl : sc.long with
    | false =>
      simp only [Bool.false_and, Bool.false_eq_true, if_false, W.when]
      rw [hl] at hstay
      exact noMove (a, _) rfl hstay.symm
    | true =>
      simp only [Bool.true_and, if_true]
      rw [bne_comm_nat (w.k.getR rid).expT (Engine.expiryDeadline w.db.now c)]
      cases hne : (Engine.expiryDeadline w.db.now c != (w.k.getR rid).expT) with
      | false =>
        simp only [Bool.false_eq_true, if_false, W.when]
        rw [hl] at hstay
        exact noMove (a, _) rfl hstay.symm
      | true =>
        simp only [if_true, W.when]
        obtain ⟨m1, m2, d1, d2, d3, d4, d5, d6⟩ := move_rec (w.modR rid (updF w.db so c)) rid hU1
        rw [gU, h6, h7] at m2
        refine ⟨(hasRec_modR _ rid rid (fun r => { r with conn := c.conn }) (fun _ => rfl)).mpr m1, ?_, ?_⟩
        · show ((((((w.modR rid (updF w.db so c)).removeLongE rid).addExpried rid).ref rid).k.modRec rid (fun r => { r with conn := c.conn })).getR rid).toHold = _
          rw [getR_modRec_same _ rid (fun r => { r with conn := c.conn }) (fun _ => rfl) m1]
          have e1 := congrArg (fun t => t.1) m2
          have e2 := congrArg (fun t => t.2.1) m2
          have e4 := congrArg (fun t => t.2.2.2.1) m2
          have e5 := congrArg (fun t => t.2.2.2.2.1) m2
          have e6 := congrArg (fun t => t.2.2.2.2.2.1) m2
          have e8 := congrArg (fun t => t.2.2.2.2.2.2.2) m2
          simp only [πG, Rec.armE] at e1 e2 e4 e5 e6 e8
          unfold Rec.toHold
          simp only []
          rw [e1, e2, e4, e5, e6, e8, h1, h2, h4, h5]
          show _ = holdUpd (w.k.getR rid).toHold c w.db.now (Engine.wheelAdd a.eCheck a.seq (Engine.expiryDeadline w.db.now c) chk).1
            (Engine.wheelAdd a.eCheck a.seq (Engine.expiryDeadline w.db.now c) chk).2
          rw [hs.eCheck, hs.seq]
          rfl
        · refine ⟨?_, ?_, ?_, ?_, ?_, ?_⟩
          · show w.db.now = ((((w.modR rid (updF w.db so c)).removeLongE rid).addExpried rid).ref rid).db.now
            rw [d4]; rfl
          · show a.tCheck = ((((w.modR rid (updF w.db so c)).removeLongE rid).addExpried rid).ref rid).db.tCheck
            rw [d3]; exact hs.tCheck
          · show a.eCheck = ((((w.modR rid (updF w.db so c)).removeLongE rid).addExpried rid).ref rid).db.eCheck
            rw [d2]; exact hs.eCheck
          · show a.seq + 1 = ((((w.modR rid (updF w.db so c)).removeLongE rid).addExpried rid).ref rid).db.seq
            rw [d1, hs.seq]; rfl
          · show a.leader = ((((w.modR rid (updF w.db so c)).removeLongE rid).addExpried rid).ref rid).db.leader
            rw [d6]; exact hs.leader
          · show a.ctr = ((((w.modR rid (updF w.db so c)).removeLongE rid).addExpried rid).ref rid).db.ctr
            rw [d5]; exact hs.ctr

theorem gone_updateLocked (w : W) (rid : Nat) (c : Engine.Cmd) : (w.updateLocked rid c).gone = w.gone := by
  unfold W.updateLocked
  simp only []
  show (((w.modR rid _).when _ _)).gone = _
  unfold W.when
  split
  · show ((((w.modR rid _).removeLongE rid).addExpried rid)).gone = _
    rw [gone_addExpried]; rfl
  · rfl

/-- `updateLocked`, then the journal record of the update: the hold, the scalars, the frame -/
theorem upd_tail (w1 : W) (h : Nat) (c' : Engine.Cmd) (b : Bool) (fl : Nat) (hh : w1.k.hasRec h) (a : Engine.DB) (hs : Scal a w1.db)
    (sc : Engine.Sched) (hsc : (w1.k.getR h).eSched = some sc) (hck : sc.checked = (w1.k.getR h).eChecked) :
    ((w1.updateLocked h c').when b (·.journalLock h fl)).k.hasRec h ∧
    holdOf ((w1.updateLocked h c').when b (·.journalLock h fl)).k h = (Engine.updateHold a (holdOf w1.k h) c').2 ∧
    Scal (Engine.updateHold a (holdOf w1.k h) c').1 ((w1.updateLocked h c').when b (·.journalLock h fl)).db ∧
    ((w1.updateLocked h c').when b (·.journalLock h fl)).gone = w1.gone ∧
    ((w1.updateLocked h c').when b (·.journalLock h fl)).out = w1.out ∧
    ((w1.updateLocked h c').when b (·.journalLock h fl)).k.locked = w1.k.locked ∧
    SX (· = h) w1 ((w1.updateLocked h c').when b (·.journalLock h fl)) ∧
    PK (·.timeouted) ((w1.updateLocked h c').when b (·.journalLock h fl)) w1 := by
  obtain ⟨u1, u2, u3⟩ := updateLocked_hold w1 h c' hh a hs sc hsc hck
  have scj : SC (w1.updateLocked h c') ((w1.updateLocked h c').when b (·.journalLock h fl)) := SC.when _ _ _ (SC.journalLock _ _ _)
  have pg : PK πG ((w1.updateLocked h c').when b (·.journalLock h fl)) (w1.updateLocked h c') := pk_when _ _ _ (pk_journalLock ins_πG _ _ _)
  have hid : ((w1.updateLocked h c').when b (·.journalLock h fl)).k.ids = (w1.updateLocked h c').k.ids := by
    unfold W.when; split
    · exact ids_journalLock _ _ _
    · rfl
  have hh3 : ((w1.updateLocked h c').when b (·.journalLock h fl)).k.hasRec h := (hasRec_of_ids hid h).mpr u1
  refine ⟨hh3, ?_, scj.scal u3, scj.gone.trans (gone_updateLocked _ _ _), scj.out.trans (FQ.updateLocked _ _ _).qt.out, ?_,
    SX.when ((SX.refl (X := (· = h)) w1).updateLocked h c' rfl) _ _ (fun x => x.journalLock h fl), ?_⟩
  · unfold holdOf
    rw [toHold_of_πG (pg.val h hh3)]
    exact u2
  · have : ((w1.updateLocked h c').when b (·.journalLock h fl)).k.locked = (w1.updateLocked h c').k.locked := by
      unfold W.when; split
      · exact (FQ.journalLock _ _ _).qt.locked
      · rfl
    rw [this, (FQ.updateLocked _ _ _).qt.locked]
  · exact (pk_when _ _ _ (pk_journalLock ins_timeouted _ _ _)).trans (qk_updateLocked w1 h c').t

end Slock.Sim
