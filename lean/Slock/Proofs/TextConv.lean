import Slock.Proofs.TextNum
import Slock.Proofs.TextNorm
/-! Helper lemmas for M-TEXT: the LOCK/UNLOCK converter keyword by keyword; panic-freedom (C14 / C13 text part). -/
namespace Slock.Text

/-! ## keyword steps of `lockLoop` -/

theorem lockLoop_nil (f : Nat) (ctx : Ctx) (name : Bytes) (c : LockCmd) (hasId : Bool) :
    lockLoop (f + 1) ctx name [] c hasId =
      if hasId then .ok c
      else if name = kLOCK then .ok { c with hdr := { c.hdr with lockId := .req } }
      else .ok { c with hdr := { c.hdr with lockId := .proto } } := by
  rw [lockLoop]

theorem lockLoop_lockId (f : Nat) (ctx : Ctx) (name v : Bytes) (rest : List Bytes) (c : LockCmd) (hasId : Bool) :
    lockLoop (f + 1) ctx name (kLOCK_ID :: v :: rest) c hasId =
      lockLoop f ctx name rest { c with hdr := { c.hdr with lockId := .bytes (convertArgId2LockId ctx.md5 v) } } true := by
  rw [lockLoop]
  have hu : upper kLOCK_ID = kLOCK_ID := by decide
  simp only [hu, if_true]

theorem lockLoop_flag (f : Nat) (ctx : Ctx) (name : Bytes) (t : Nat) (ht : t < 9223372036854775808) (rest : List Bytes) (c : LockCmd) (hasId : Bool) :
    lockLoop (f + 1) ctx name (kFLAG :: natToDec t :: rest) c hasId =
      lockLoop f ctx name rest { c with hdr := { c.hdr with flag := u8 t } } hasId := by
  rw [lockLoop]
  have hu : upper kFLAG = kFLAG := by decide
  have h1 : (kFLAG = kLOCK_ID) = False := by decide
  simp only [hu, h1, if_false, if_true, atoi_natToDec t ht]

theorem lockLoop_timeout (f : Nat) (ctx : Ctx) (name : Bytes) (t : Nat) (ht : t < 9223372036854775808) (rest : List Bytes) (c : LockCmd) (hasId : Bool) :
    lockLoop (f + 1) ctx name (kTIMEOUT :: natToDec t :: rest) c hasId =
      lockLoop f ctx name rest { c with hdr := { c.hdr with timeout := u16 t, timeoutFlag := u16 ((t : Int) / 65536) } } hasId := by
  rw [lockLoop]
  have hu : upper kTIMEOUT = kTIMEOUT := by decide
  have h1 : (kTIMEOUT = kLOCK_ID) = False := by decide
  have h2 : (kTIMEOUT = kFLAG) = False := by decide
  simp only [hu, h1, h2, if_false, if_true, atoi_natToDec t ht]

theorem lockLoop_expried (f : Nat) (ctx : Ctx) (name : Bytes) (t : Nat) (ht : t < 9223372036854775808) (rest : List Bytes) (c : LockCmd) (hasId : Bool) :
    lockLoop (f + 1) ctx name (kEXPRIED :: natToDec t :: rest) c hasId =
      lockLoop f ctx name rest { c with hdr := { c.hdr with expried := u16 t, expriedFlag := u16 ((t : Int) / 65536) } } hasId := by
  rw [lockLoop]
  have hu : upper kEXPRIED = kEXPRIED := by decide
  have h1 : (kEXPRIED = kLOCK_ID) = False := by decide
  have h2 : (kEXPRIED = kFLAG) = False := by decide
  have h3 : (kEXPRIED = kTIMEOUT) = False := by decide
  simp only [hu, h1, h2, h3, if_false, if_true, atoi_natToDec t ht]

theorem lockLoop_count (f : Nat) (ctx : Ctx) (name : Bytes) (t : Nat) (ht : t < 9223372036854775808) (rest : List Bytes) (c : LockCmd) (hasId : Bool) :
    lockLoop (f + 1) ctx name (kCOUNT :: natToDec t :: rest) c hasId =
      lockLoop f ctx name rest { c with hdr := { c.hdr with count := if (t : Int) > 0 then u16 ((u16 t : Int) - 1) else u16 t } } hasId := by
  rw [lockLoop]
  have hu : upper kCOUNT = kCOUNT := by decide
  have h1 : (kCOUNT = kLOCK_ID) = False := by decide
  have h2 : (kCOUNT = kFLAG) = False := by decide
  have h3 : (kCOUNT = kTIMEOUT) = False := by decide
  have h4 : (kCOUNT = kEXPRIED) = False := by decide
  simp only [hu, h1, h2, h3, h4, if_false, if_true, atoi_natToDec t ht]

theorem lockLoop_rcount (f : Nat) (ctx : Ctx) (name : Bytes) (t : Nat) (ht : t < 9223372036854775808) (rest : List Bytes) (c : LockCmd) (hasId : Bool) :
    lockLoop (f + 1) ctx name (kRCOUNT :: natToDec t :: rest) c hasId =
      lockLoop f ctx name rest { c with hdr := { c.hdr with rcount := if (t : Int) > 0 then u8 ((u8 t : Int) - 1) else u8 t } } hasId := by
  rw [lockLoop]
  have hu : upper kRCOUNT = kRCOUNT := by decide
  have h1 : (kRCOUNT = kLOCK_ID) = False := by decide
  have h2 : (kRCOUNT = kFLAG) = False := by decide
  have h3 : (kRCOUNT = kTIMEOUT) = False := by decide
  have h4 : (kRCOUNT = kEXPRIED) = False := by decide
  have h5 : (kRCOUNT = kCOUNT) = False := by decide
  simp only [hu, h1, h2, h3, h4, h5, if_false, if_true, atoi_natToDec t ht]

/-! ## keyword/value settings of a text LOCK/UNLOCK and the binary field values they denote -/

inductive KV
  | lockId (id : Bytes)
  | flag (f : Nat)
  | timeout (t : Nat)
  | expried (e : Nat)
  | count (c : Nat)
  | rcount (r : Nat)

/-- values that fit the binary fields (TIMEOUT/EXPRIED carry the 16-bit flag word in their upper half) -/
def KV.wf : KV → Prop
  | .lockId _ => True
  | .flag f => f < 256
  | .timeout t => t < 4294967296
  | .expried e => e < 4294967296
  | .count c => 1 ≤ c ∧ c ≤ 65536
  | .rcount r => 1 ≤ r ∧ r ≤ 256

/-- the text form: keyword, then the value in decimal (ids as the raw string) -/
def KV.render : KV → List Bytes
  | .lockId id => [kLOCK_ID, id]
  | .flag f => [kFLAG, natToDec f]
  | .timeout t => [kTIMEOUT, natToDec t]
  | .expried e => [kEXPRIED, natToDec e]
  | .count c => [kCOUNT, natToDec c]
  | .rcount r => [kRCOUNT, natToDec r]

/-- the binary command field(s) the setting denotes: COUNT / RCOUNT are stored −1 -/
def KV.apply (md5 : Bytes → Bytes) (h : Hdr) : KV → Hdr
  | .lockId id => { h with lockId := .bytes (docRule md5 id) }
  | .flag f => { h with flag := f }
  | .timeout t => { h with timeout := t % 65536, timeoutFlag := t / 65536 }
  | .expried e => { h with expried := e % 65536, expriedFlag := e / 65536 }
  | .count c => { h with count := c - 1 }
  | .rcount r => { h with rcount := r - 1 }

def KV.isId : KV → Bool
  | .lockId _ => true
  | _ => false

def renderAll : List KV → List Bytes
  | [] => []
  | kv :: kvs => kv.render ++ renderAll kvs

theorem renderAll_length (kvs : List KV) : (renderAll kvs).length = 2 * kvs.length := by
  induction kvs with
  | nil => rfl
  | cons kv kvs ih => cases kv <;> simp [renderAll, KV.render, ih] <;> omega

def finishId (name : Bytes) (hasId : Bool) (h : Hdr) : Hdr :=
  if hasId then h else if name = kLOCK then { h with lockId := .req } else { h with lockId := .proto }

theorem lockLoop_kvs (ctx : Ctx) (hmd5 : ∀ x, (ctx.md5 x).length = 16) (name : Bytes) (kvs : List KV)
    (hwf : ∀ kv ∈ kvs, kv.wf) (f : Nat) (hf : kvs.length < f) (h : Hdr) (hasId : Bool) :
    lockLoop f ctx name (renderAll kvs) { hdr := h } hasId =
      .ok { hdr := finishId name (hasId || kvs.any KV.isId) (kvs.foldl (KV.apply ctx.md5) h) } := by
  induction kvs generalizing f h hasId with
  | nil =>
    cases f with
    | zero => simp at hf
    | succ f =>
      simp only [renderAll, lockLoop_nil, finishId, List.any_nil, Bool.or_false, List.foldl_nil]
      cases hasId <;> simp
      split <;> rfl
  | cons kv kvs ih =>
    cases f with
    | zero => simp at hf
    | succ f =>
      have hf' : kvs.length < f := by simp at hf; omega
      have hwf' : ∀ kv ∈ kvs, kv.wf := fun x hx => hwf x (by simp [hx])
      have hkv := hwf kv (by simp)
      cases kv with
      | lockId id =>
        simp only [renderAll, KV.render, List.cons_append, List.nil_append, lockLoop_lockId]
        rw [ih hwf' f hf']
        simp [KV.apply, KV.isId, argId_eq_doc _ hmd5]
      | flag v =>
        simp only [KV.wf] at hkv
        simp only [renderAll, KV.render, List.cons_append, List.nil_append]
        rw [lockLoop_flag _ _ _ v (by omega), ih hwf' f hf']
        have e : u8 (v : Int) = v := by unfold u8; omega
        simp [KV.apply, KV.isId, e]
      | timeout v =>
        simp only [KV.wf] at hkv
        simp only [renderAll, KV.render, List.cons_append, List.nil_append]
        rw [lockLoop_timeout _ _ _ v (by omega), ih hwf' f hf']
        have e1 : u16 (v : Int) = v % 65536 := by unfold u16; omega
        have e2 : u16 ((v : Int) / 65536) = v / 65536 := by unfold u16; omega
        simp [KV.apply, KV.isId, e1, e2]
      | expried v =>
        simp only [KV.wf] at hkv
        simp only [renderAll, KV.render, List.cons_append, List.nil_append]
        rw [lockLoop_expried _ _ _ v (by omega), ih hwf' f hf']
        have e1 : u16 (v : Int) = v % 65536 := by unfold u16; omega
        have e2 : u16 ((v : Int) / 65536) = v / 65536 := by unfold u16; omega
        simp [KV.apply, KV.isId, e1, e2]
      | count v =>
        simp only [KV.wf] at hkv
        simp only [renderAll, KV.render, List.cons_append, List.nil_append]
        rw [lockLoop_count _ _ _ v (by omega), ih hwf' f hf']
        have e : (if (v : Int) > 0 then u16 ((u16 (v : Int) : Int) - 1) else u16 (v : Int)) = v - 1 := by
          have : (v : Int) > 0 := by omega
          simp only [this, if_true]
          unfold u16; omega
        rw [e]
        simp [KV.apply, KV.isId]
      | rcount v =>
        simp only [KV.wf] at hkv
        simp only [renderAll, KV.render, List.cons_append, List.nil_append]
        rw [lockLoop_rcount _ _ _ v (by omega), ih hwf' f hf']
        have e : (if (v : Int) > 0 then u8 ((u8 (v : Int) : Int) - 1) else u8 (v : Int)) = v - 1 := by
          have : (v : Int) > 0 := by omega
          simp only [this, if_true]
          unfold u8; omega
        rw [e]
        simp [KV.apply, KV.isId]

end Slock.Text
