import Slock.Proofs.TextChunk
/-! Helper lemmas for M-TEXT, response side: the automaton on `BuildResponse` output (C14 text part). -/
namespace Slock.Text

theorem stripCR_snoc_cr (m : Bytes) : stripCR (m ++ [13]) = stripCR m := by
  unfold stripCR
  simp [List.dropWhile]

theorem stripCR_id (m : Bytes) (h : ∀ b ∈ m, b ≠ 13) : stripCR m = m := by
  unfold stripCR
  have hm : m = m.reverse.reverse := by simp
  cases hr : m.reverse with
  | nil => rw [hm, hr]; simp
  | cons x xs =>
    have hx : x ≠ 13 := h x (by
      have : x ∈ m.reverse := by rw [hr]; simp
      simpa using this)
    rw [List.dropWhile]
    simp only [hx, decide_false]
    rw [← hr]; simp

/-- the text of a `+` reply followed by CR LF: appended to `args[0]`, CRs stripped at the LF, reply emitted -/
theorem textRun1 (xs : Bytes) (hx : ∀ b ∈ xs, b ≠ 10) (t n : Bytes) (g : Nat) (cl ac : Int) (l : Loc) (acc : Replies) (tail : Bytes) :
    runBytes ⟨.s5, n, g, cl, [t], ac, true, 1⟩ l acc (xs ++ 13 :: 10 :: tail) =
      runBytes ⟨.s0, n, g, cl, [], 0, true, 1⟩ ⟨some 10, .entry⟩ (acc ++ [(1, [stripCR (t ++ xs)])]) tail := by
  induction xs generalizing t l with
  | nil =>
    simp [runBytes, step, step5, modifyAt, lfBad_cr, stripCR_snoc_cr]
  | cons x xs ih =>
    have h10 : x ≠ 10 := hx x (by simp)
    simp only [List.cons_append]
    rw [runBytes]
    simp only [step, step5, h10, if_false, if_true, modifyAt]
    simp only [show (1 : Nat) ≠ 2 by decide, if_false, List.getElem?_cons_zero, List.set_cons_zero]
    rw [ih (fun b hb => hx b (by simp [hb])) (t ++ [x])]
    simp

/-- the message of a `-` reply followed by CR LF: appended to `args[1]` -/
theorem textRun2 (xs : Bytes) (hx : ∀ b ∈ xs, b ≠ 10) (a0 t n : Bytes) (g : Nat) (cl ac : Int) (l : Loc) (acc : Replies) (tail : Bytes) :
    runBytes ⟨.s5, n, g, cl, [a0, t], ac, true, 2⟩ l acc (xs ++ 13 :: 10 :: tail) =
      runBytes ⟨.s0, n, g, cl, [], 0, true, 2⟩ ⟨some 10, .entry⟩ (acc ++ [(2, [a0, stripCR (t ++ xs)])]) tail := by
  induction xs generalizing t l with
  | nil =>
    simp [runBytes, step, step5, modifyAt, lfBad_cr, stripCR_snoc_cr]
  | cons x xs ih =>
    have h10 : x ≠ 10 := hx x (by simp)
    simp only [List.cons_append]
    rw [runBytes]
    simp only [step, step5, h10, if_false, if_true, modifyAt]
    simp only [List.getElem?_cons_succ, List.getElem?_cons_zero, List.set_cons_succ, List.set_cons_zero]
    rw [ih (fun b hb => hx b (by simp [hb])) (t ++ [x])]
    simp

/-- the type word of a `-` reply up to the blank -/
theorem typeRunBlank (xs : Bytes) (hx : ∀ b ∈ xs, b ≠ 10 ∧ b ≠ 32) (t m n : Bytes) (g : Nat) (cl ac : Int) (l : Loc) (acc : Replies) (tail : Bytes) :
    runBytes ⟨.s6, n, g, cl, [t, m], ac, true, 2⟩ l acc (xs ++ 32 :: tail) =
      runBytes ⟨.s5, n, g, cl, [stripCR (t ++ xs), m], ac, true, 2⟩ ⟨some 32, .entry⟩ acc tail := by
  induction xs generalizing t l with
  | nil =>
    simp [runBytes, step, step6, modifyAt]
  | cons x xs ih =>
    have h := hx x (by simp)
    simp only [List.cons_append]
    rw [runBytes]
    simp only [step, step6, h.1, h.2, if_false, if_true, modifyAt]
    simp only [List.getElem?_cons_zero, List.set_cons_zero]
    rw [ih (fun b hb => hx b (by simp [hb])) (t ++ [x])]
    simp

/-- … or directly up to CR LF (`-ERR\r\n`) -/
theorem typeRunEnd (xs : Bytes) (hx : ∀ b ∈ xs, b ≠ 10 ∧ b ≠ 32) (t m n : Bytes) (g : Nat) (cl ac : Int) (l : Loc) (acc : Replies) (tail : Bytes) :
    runBytes ⟨.s6, n, g, cl, [t, m], ac, true, 2⟩ l acc (xs ++ 13 :: 10 :: tail) =
      runBytes ⟨.s0, n, g, cl, [], 0, true, 2⟩ ⟨some 10, .entry⟩ (acc ++ [(2, [stripCR (t ++ xs), m])]) tail := by
  induction xs generalizing t l with
  | nil =>
    simp [runBytes, step, step6, modifyAt, lfBad_cr, stripCR_snoc_cr]
  | cons x xs ih =>
    have h := hx x (by simp)
    simp only [List.cons_append]
    rw [runBytes]
    simp only [step, step6, h.1, h.2, if_false, if_true, modifyAt]
    simp only [List.getElem?_cons_zero, List.set_cons_zero]
    rw [ih (fun b hb => hx b (by simp [hb])) (t ++ [x])]
    simp

end Slock.Text
