import Slock.Proofs.EngineSimTickKTBase
/-! `KT` pass, part 2: the queue operations lose only tombstoned entries — a live queued request stays in the wait queue through
`GetWaitLock` / `Push` / the priority re-filing, a hold stays in the holder queue through `Push` / `RemoveLock` / `AddLock`. -/
namespace Slock.SimTick
open Slock Slock.Sim Slock.Engine2
open Slock.Engine (has)

/-! ### the wait queue -/

theorem waitSkip_live (l : List WEnt) (k : Key) (hl : k.wait = l) (y : Nat)
    (hy : ((waitSkip l k).1.getR y).timeouted = false) (hm : y ∈ l.map (·.rid)) : y ∈ (waitSkip l k).1.wait.map (·.rid) := by
  induction l generalizing k with
  | nil => simp at hm
  | cons e rest ih =>
    have hh := hasRec_of_live hy
    have hk : (k.getR y).timeouted = false := by rw [← (PKeep.waitSkip ins_timeouted (e :: rest) k).val y hh]; exact hy
    unfold waitSkip at hy ⊢
    by_cases hd : k.deadWaiter e.rid = true
    · rw [if_pos hd] at hy ⊢
      obtain ⟨_, q2, _⟩ := unref_queues { k with wait := rest, waitPopped := if k.waitPrio then k.waitPopped else k.waitPopped + 1 } e.rid
      have hne : y ≠ e.rid := by
        intro e'
        unfold Key.deadWaiter at hd
        rw [← e', hk] at hd; exact absurd hd (by simp)
      have hm' : y ∈ rest.map (·.rid) := by
        simp only [List.map_cons, List.mem_cons] at hm
        rcases hm with h | h
        · exact absurd h hne
        · exact h
      exact ih _ q2 hy hm'
    · rw [if_neg hd]
      show y ∈ k.wait.map (·.rid)
      rw [hl]; exact hm

theorem ktk_getWaitLock {XW XH : Nat → Prop} (k : Key) : KTK XW XH k.getWaitLock.1 k := by
  obtain ⟨c1, c2⟩ := waitSkip_cl k.wait k
  have e1 : k.getWaitLock.1.current = k.current := c1
  have e2 : k.getWaitLock.1.locks = k.locks := c2
  refine ⟨PKeepX.of_pk (PKeep.getWaitLock ins_πW k), PKeepX.of_pk (PKeep.getWaitLock ins_πD k), ?_, ?_⟩
  · intro y _ hy hm
    exact waitSkip_live k.wait k rfl y hy hm
  · intro y _ _ hm
    rw [e1, e2]; exact hm

theorem ktk_settleWait {XW XH : Nat → Prop} (k : Key) : KTK XW XH k.settleWait k := by
  unfold Key.settleWait
  split
  · exact (KTK.of_pk (k' := clearWaited k.getWaitLock.1) (k := k.getWaitLock.1) rfl (PKeep.of_eq rfl)).trans (ktk_getWaitLock k)
  · exact ktk_getWaitLock k

theorem rePush_mem (k : Key) (x : Nat) : x ∈ k.rePush.wait.map (·.rid) ↔ x ∈ k.wait.map (·.rid) := by
  unfold Key.rePush
  simp only []
  have hm : (k.wait.map (fun e => ({ e with prio := Engine.cmdPriority (k.getR e.rid).cmd } : WEnt))).map (·.rid) = k.wait.map (·.rid) := by
    rw [List.map_map]; rfl
  rw [(foldl_insertPrio (k.wait.map (fun e => ({ e with prio := Engine.cmdPriority (k.getR e.rid).cmd } : WEnt))) []).1 x, hm]
  simp

theorem waitPush_live (k : Key) (e : WEnt) (y : Nat) (hy : ((k.waitPush e).getR y).timeouted = false) (hm : y ∈ k.wait.map (·.rid)) :
    y ∈ (k.waitPush e).wait.map (·.rid) := by
  have hh := hasRec_of_live hy
  have hk : (k.getR y).timeouted = false := by rw [← (PKeep.waitPush ins_timeouted k e).val y hh]; exact hy
  clear hy hh
  unfold Key.waitPush
  split
  · exact (insertPrio_mem k.wait e y).mpr (Or.inr hm)
  · simp only []
    split
    · rw [List.map_append]; exact List.mem_append_left _ hm
    · split
      · rename_i he
        have : k.wait = [] := List.isEmpty_iff.mp he
        rw [this] at hm; simp at hm
      · obtain ⟨_, _, q3⟩ := queues_eq (foldl_unrefW_queues (k.wait.filter (fun x => k.deadWaiter x.rid))
          (if (k.wait.filter (fun x => !k.deadWaiter x.rid)).length < k.waitPopped + k.wait.length then
            { k with wait := k.wait.filter (fun x => !k.deadWaiter x.rid) ++ [e], waitPopped := 0 }
           else { k with wait := k.wait.filter (fun x => !k.deadWaiter x.rid) ++ [e], waitCap := 2 * k.waitCap }))
        rw [q3]
        have hkept : y ∈ (k.wait.filter (fun x => !k.deadWaiter x.rid) ++ [e]).map (·.rid) := by
          rw [List.map_append]
          apply List.mem_append_left
          obtain ⟨x, hx, ex⟩ := List.mem_map.mp hm
          refine List.mem_map.mpr ⟨x, List.mem_filter.mpr ⟨hx, ?_⟩, ex⟩
          unfold Key.deadWaiter
          rw [ex, hk]; rfl
        split <;> exact hkept

theorem addWaitLock_live (k : Key) (rid y : Nat) (hy : ((k.addWaitLock rid).getR y).timeouted = false) (hm : y ∈ k.wait.map (·.rid)) :
    y ∈ (k.addWaitLock rid).wait.map (·.rid) := by
  unfold Key.addWaitLock at hy ⊢
  simp only [] at hy ⊢
  have step : ∀ k1 : Key, y ∈ k1.wait.map (·.rid) →
      (({ (k1.waitPush ⟨rid, Slock.Engine.cmdPriority (k.getR rid).cmd⟩).modRec rid (fun r => { r with refCount := r.refCount + 1 }) with waited := true } : Key).getR y).timeouted = false →
      y ∈ ({ (k1.waitPush ⟨rid, Slock.Engine.cmdPriority (k.getR rid).cmd⟩).modRec rid (fun r => { r with refCount := r.refCount + 1 }) with waited := true } : Key).wait.map
        (·.rid) := by
    intro k1 h1 h2
    have h3 : (((k1.waitPush ⟨rid, Slock.Engine.cmdPriority (k.getR rid).cmd⟩).modRec rid (fun r => { r with refCount := r.refCount + 1 })).getR y).timeouted = false := h2
    have hh := hasRec_of_live h3
    have h4 : ((k1.waitPush ⟨rid, Slock.Engine.cmdPriority (k.getR rid).cmd⟩).getR y).timeouted = false := by
      rw [← (PKeep.modRec (π := (·.timeouted)) (k1.waitPush ⟨rid, Slock.Engine.cmdPriority (k.getR rid).cmd⟩) rid (fun r => { r with refCount := r.refCount + 1 })
        (fun _ => rfl) (fun _ => rfl)).val y hh]
      exact h3
    exact waitPush_live k1 ⟨rid, Slock.Engine.cmdPriority (k.getR rid).cmd⟩ y h4 h1
  refine step _ ?_ hy
  split
  · split
    · split
      · exact (rePush_mem k y).mpr hm
      · exact hm
    · exact hm
  · exact hm

theorem addWaitLock_self (k : Key) (rid : Nat) : rid ∈ (k.addWaitLock rid).wait.map (·.rid) := by
  obtain ⟨⟨e, he, er⟩, _⟩ := addWaitLock_spec k rid
  exact List.mem_map.mpr ⟨e, he, er⟩

theorem ktk_addWaitLock {XW XH : Nat → Prop} (k : Key) (rid : Nat) : KTK XW XH (k.addWaitLock rid) k := by
  obtain ⟨_, a2, a3⟩ := addWaitLock_spec k rid
  refine ⟨PKeepX.of_pk (PKeep.addWaitLock ins_πW k rid), PKeepX.of_pk (PKeep.addWaitLock ins_πD k rid), ?_, ?_⟩
  · intro y _ hy hm
    exact addWaitLock_live k rid y hy hm
  · intro y _ _ hm
    rw [a2, a3]; exact hm

/-! ### the holder queue -/

theorem locksSkip_live_f (l : List Nat) (k : Key) (hl : k.locks = l) (y : Nat)
    (hy : 0 < ((locksSkip false l k).1.getR y).depth) (hm : y ∈ l) : y ∈ (locksSkip false l k).1.locks := by
  induction l generalizing k with
  | nil => simp at hm
  | cons x rest ih =>
    have hh := hasRec_of_depth hy
    have hk : 0 < (k.getR y).depth := by rw [← (PKeep.locksSkip ins_depth false (x :: rest) k).val y hh]; exact hy
    unfold locksSkip at hy ⊢
    by_cases hlv : k.liveHolder x = true
    · rw [if_pos hlv]
      simp only [Bool.false_eq_true, if_false]
      rw [hl]; exact hm
    · rw [if_neg hlv] at hy ⊢
      obtain ⟨q1, _⟩ := unref_queues { k with locks := rest, locksPopped := k.locksPopped + 1 } x
      have hne : y ≠ x := by
        intro e'
        apply hlv
        unfold Key.liveHolder
        rw [← e']; simpa using hk
      have hm' : y ∈ rest := by
        rcases List.mem_cons.mp hm with h | h
        · exact absurd h hne
        · exact h
      exact ih _ q1 hy hm'

theorem locksSkip_live_t (l : List Nat) (k : Key) (hl : k.locks = l) (y : Nat)
    (hy : 0 < ((locksSkip true l k).1.getR y).depth) (hm : y ∈ l) :
    y ∈ (locksSkip true l k).2.toList ++ (locksSkip true l k).1.locks := by
  induction l generalizing k with
  | nil => simp at hm
  | cons x rest ih =>
    have hh := hasRec_of_depth hy
    have hk : 0 < (k.getR y).depth := by rw [← (PKeep.locksSkip ins_depth true (x :: rest) k).val y hh]; exact hy
    unfold locksSkip at hy ⊢
    by_cases hlv : k.liveHolder x = true
    · rw [if_pos hlv]
      simp only [if_true, Option.toList_some, List.singleton_append]
      exact hm
    · rw [if_neg hlv] at hy ⊢
      obtain ⟨q1, _⟩ := unref_queues { k with locks := rest, locksPopped := k.locksPopped + 1 } x
      have hne : y ≠ x := by
        intro e'
        apply hlv
        unfold Key.liveHolder
        rw [← e']; simpa using hk
      have hm' : y ∈ rest := by
        rcases List.mem_cons.mp hm with h | h
        · exact absurd h hne
        · exact h
      exact ih _ q1 hy hm'

theorem removeLock_depth0 (k : Key) (rid : Nat) : ((k.removeLock rid).getR rid).depth = 0 := by
  by_cases hh : (k.removeLock rid).hasRec rid
  · have pa := removeLock_after_edit πD ins_πD k rid
    have h1 := pa.sub rid hh
    have hk := (hasRec_modRec k rid rid (fun r => { r with depth := 0 }) (fun _ => rfl)).mp h1
    have v : ((k.removeLock rid).getR rid).depth = ((k.modRec rid fun r => { r with depth := 0 }).getR rid).depth := pa.val rid hh
    rw [v, getR_modRec_same k rid (fun r => { r with depth := 0 }) (fun _ => rfl) hk]
  · rw [getR_of_not_hasRec _ _ hh]; rfl

theorem removeLock_live (k : Key) (rid y : Nat) (hy : 0 < ((k.removeLock rid).getR y).depth) (hm : y ∈ k.current.toList ++ k.locks) :
    y ∈ (k.removeLock rid).current.toList ++ (k.removeLock rid).locks := by
  have hne : y ≠ rid := by
    intro e; rw [e, removeLock_depth0] at hy; exact absurd hy (by simp)
  unfold Key.removeLock at hy ⊢
  simp only [] at hy ⊢
  by_cases hc : ((k.modRec rid fun r => { r with depth := 0 }).current == some rid) = true
  · rw [if_pos hc] at hy ⊢
    have hcur : k.current = some rid := by
      have hc' : (k.current == some rid) = true := hc
      simpa using hc'
    have hml : y ∈ k.locks := by
      rw [hcur] at hm
      rcases List.mem_append.mp hm with h | h
      · simp at h; exact absurd h hne
      · exact h
    exact locksSkip_live_t ({ (k.modRec rid fun r => { r with depth := 0 }).unrefOnly rid with current := none } : Key).locks
      { (k.modRec rid fun r => { r with depth := 0 }).unrefOnly rid with current := none } rfl y hy hml
  · rw [if_neg hc] at hy ⊢
    obtain ⟨_, i2⟩ := locksSkip_queues false (k.modRec rid fun r => { r with depth := 0 }).locks (k.modRec rid fun r => { r with depth := 0 })
    rw [i2]
    rcases List.mem_append.mp hm with h | h
    · exact List.mem_append_left _ h
    · exact List.mem_append_right _ (locksSkip_live_f (k.modRec rid fun r => { r with depth := 0 }).locks _ rfl y hy h)

theorem locksPush_self (k : Key) (rid : Nat) : rid ∈ (k.locksPush rid).locks := by
  unfold Key.locksPush
  simp only []
  split
  · simp
  · split
    · simp
    · rw [(Sim.foldl_unref_queues _ _).1]
      split <;> simp

theorem addLock_self (k : Key) (rid : Nat) (f : Rec → Rec) : rid ∈ (k.addLock rid f).current.toList ++ (k.addLock rid f).locks := by
  unfold Key.addLock
  split
  · exact List.mem_append_left _ (by simp)
  · exact List.mem_append_right _ (locksPush_self _ rid)

theorem addLock_live (k : Key) (rid y : Nat) (f : Rec → Rec)
    (hy : 0 < ((k.addLock rid f).getR y).depth) (hm : y ∈ k.current.toList ++ k.locks) :
    y ∈ (k.addLock rid f).current.toList ++ (k.addLock rid f).locks := by
  apply addLock_mem_live k rid y f hm
  have hh := hasRec_of_depth hy
  have p : PKeep (·.depth) (k.addLock rid f) (k.modRec rid f) := by
    unfold Key.addLock
    split
    · exact PKeep.of_eq rfl
    · exact PKeep.locksPush ins_depth _ rid
  unfold Key.liveHolder
  have v : ((k.addLock rid f).getR y).depth = ((k.modRec rid f).getR y).depth := p.val y hh
  rw [← v]; simpa using hy

/-- `AddLock(rid)`: the wait-queue side of every record stays if the edit keeps it; the depth of every other record stays -/
theorem ktk_addLock {XW : Nat → Prop} (k : Key) (rid : Nat) (f : Rec → Rec) (hf : ∀ r, (f r).rid = r.rid) (hw : ∀ r, πW (f r) = πW r) :
    KTK XW (· = rid) (k.addLock rid f) k := by
  refine ⟨PKeepX.of_pk (PKeep.addLock ins_πW k rid f hf hw), ?_, ?_, ?_⟩
  · unfold Key.addLock
    split
    · exact PKeepX.trans (b := k.modRec rid f) (PKeepX.of_eq rfl) (PKeepX.modRec (X := (· = rid)) k rid f hf rfl)
    · exact (PKeepX.of_pk (PKeep.locksPush ins_πD _ rid)).trans (PKeepX.modRec (X := (· = rid)) k rid f hf rfl)
  · intro y _ _ hm
    rw [addLock_wait]; exact hm
  · intro y _ hy hm
    exact addLock_live k rid y f hy hm

/-- `RemoveLock(rid)` -/
theorem ktk_removeLock {XW : Nat → Prop} (k : Key) (rid : Nat) : KTK XW (· = rid) (k.removeLock rid) k := by
  refine ⟨PKeepX.of_pk (PKeep.removeLock ins_πW (fun _ _ => rfl) k rid), ?_, ?_, ?_⟩
  · exact (PKeepX.of_pk (removeLock_after_edit πD ins_πD k rid)).trans
      (PKeepX.modRec (X := (· = rid)) k rid (fun r => { r with depth := 0 }) (fun _ => rfl) rfl)
  · intro y _ _ hm
    rw [removeLock_wait]; exact hm
  · intro y _ hy hm
    exact removeLock_live k rid y hy hm

end Slock.SimTick
