import Slock.Proofs.Engine2SimKey
/-! Simulation stage 2 → stage 1: the branch tables of LOCK and UNLOCK coincide under `abs`. -/
namespace Slock.Sim
open Slock
open Slock.Engine (has)

/-- the stage-1 branch a record-level branch stands for -/
def absLB (k : Engine2.Key) : Engine2.LockBranch → Engine.LockBranch
  | .p0a => .p0a | .p0b => .p0b | .stateError => .stateError
  | .show cur => .show (holdOf k cur)
  | .updateEqual h => .updateEqual (holdOf k h)
  | .updateEqualData h => .updateEqual (holdOf k h)      -- needs a journalled value: outside stage 1's domain
  | .update h => .update (holdOf k h)
  | .relockNoHold h => .relockNoHold (holdOf k h)
  | .relock h => .relock (holdOf k h)
  | .relockRefused h => .relockRefused (holdOf k h)
  | .unlockedWaitRefused => .unlockedWaitRefused
  | .grant => .grant | .grantNoHold => .grantNoHold | .queue => .queue | .timeout => .timeout

theorem abs_locked (k : Engine2.Key) : (Engine2.Key.abs k).locked = k.locked := rfl
theorem abs_waited (k : Engine2.Key) : (Engine2.Key.abs k).waited = k.waited := rfl

theorem checkLockedEqual_lockId (now : Nat) (h : Engine.Hold) (c : Engine.Cmd) (n : Nat) :
    Engine.checkLockedEqual now h { c with lockId := n } = Engine.checkLockedEqual now h c := rfl

/-- the LOCK branch table as a function of what it reads -/
def classifyObs (c : Engine.Cmd) (locked : Nat) (waited leader : Bool) (now : Nat) (head find : Option Engine.Hold) (cwp dl : Bool) :
    Engine.LockBranch :=
  if has c.flag Engine.F_CONCURRENT && c.timeout == 0 && c.count < 0xffff && locked > c.count then .p0a
  else if has c.flag Engine.F_CONCURRENT && c.timeout == 0 && locked == 0 && has c.tflag Engine.TF_WAIT_UNLOCK then .p0b
  else if !leader && !has c.flag Engine.F_FROM_AOF then .stateError
  else
    let afterHeld (waited : Bool) : Engine.LockBranch :=
      if (!waited || (has c.tflag Engine.TF_PRIORITY && cwp)) && dl then
        (if c.expried > 0 then .grant else .grantNoHold)
      else if c.timeout > 0 then .queue else .timeout
    if locked > 0 then
      match (if has c.flag Engine.F_SHOW then head else none) with
      | some cur =>
        if !has c.flag Engine.F_UPDATE then .show cur
        else
          if !has c.flag Engine.F_CONTAINS_DATA && Engine.checkLockedEqual now cur c then .updateEqual cur else .update cur
      | none =>
        match find with
        | some h =>
          if has c.flag Engine.F_UPDATE then
            if !has c.flag Engine.F_CONTAINS_DATA && Engine.checkLockedEqual now h c then .updateEqual h else .update h
          else if h.depth < 0xff && h.depth ≤ c.rcount && !has c.tflag Engine.TF_PRIORITY then
            (if c.expried == 0 then .relockNoHold h else .relock h)
          else .relockRefused h
        | none => afterHeld waited
    else if has c.tflag Engine.TF_WAIT_UNLOCK then
      if waited && c.count == 0 then .unlockedWaitRefused else afterHeld true
    else afterHeld false

theorem classifyLock1_obs (a : Engine.DB) (c : Engine.Cmd) :
    Engine.classifyLock a c = classifyObs c (a.getKey c.key).locked (a.getKey c.key).waited a.leader a.now (a.getKey c.key).holders.head?
      (Engine.findHolder (a.getKey c.key) c.lockId) (Engine.checkWaitPriority (a.getKey c.key) c) (Engine.doLock (a.getKey c.key) c) := rfl

theorem classifyLock2_obs (s : Engine2.DB) (c : Engine.Cmd) (hcell : (s.getKey c.key).cell = none) :
    absLB (s.getKey c.key) (Engine2.classifyLock s c none) =
      classifyObs c (s.getKey c.key).locked (s.getKey c.key).waited s.leader s.now ((s.getKey c.key).current.map (holdOf (s.getKey c.key)))
        ((Engine2.findHolder (s.getKey c.key) c.lockId).map (holdOf (s.getKey c.key)))
        (Engine2.checkWaitPriority (s.getKey c.key) c) (Engine2.doLock (s.getKey c.key) c) := by
  -- the update of a hold: with no value frame and no value the data-flagged form never takes the equal-terms shortcut
  have hupd : ∀ (h : Nat) (c' : Engine.Cmd), c'.flag = c.flag →
      absLB (s.getKey c.key) (
        if has c'.flag Engine2.F_DATA then
          (if Engine2.dataSettled (({ db := s, k := s.getKey c.key } : Engine2.W).procData .lock c' (Engine2.frameOf c' none) h).k h &&
              Engine2.checkLockedEqual s.now ((s.getKey c.key).getR h) c' then .updateEqualData h else .update h)
        else if Engine2.checkLockedEqual s.now ((s.getKey c.key).getR h) c' then .updateEqual h else .update h) =
      (if !has c.flag Engine.F_CONTAINS_DATA && Engine.checkLockedEqual s.now (holdOf (s.getKey c.key) h) c' then
        Engine.LockBranch.updateEqual (holdOf (s.getKey c.key) h) else .update (holdOf (s.getKey c.key) h)) := by
    intro h c' hf
    have hfr : Engine2.frameOf c' none = none := by unfold Engine2.frameOf; split <;> rfl
    have hds : Engine2.dataSettled (({ db := s, k := s.getKey c.key } : Engine2.W).procData .lock c' (Engine2.frameOf c' none) h).k h = false := by
      rw [hfr]
      unfold Engine2.W.procData Engine2.dataSettled
      simp only [hcell]
      rfl
    rw [hf]
    have hF : Engine.F_CONTAINS_DATA = Engine2.F_DATA := rfl
    rw [hF]
    by_cases hd : has c.flag Engine2.F_DATA = true
    · simp only [hd, if_true, hds, Bool.false_and, Bool.not_true, Bool.false_eq_true, if_false]; rfl
    · have hd' : has c.flag Engine2.F_DATA = false := by simpa using hd
      simp only [hd', Bool.false_eq_true, if_false, Bool.not_false, Bool.true_and]
      have : Engine2.checkLockedEqual s.now ((s.getKey c.key).getR h) c' = Engine.checkLockedEqual s.now (holdOf (s.getKey c.key) h) c' := rfl
      rw [this]
      split <;> rfl
  unfold Engine2.classifyLock classifyObs
  simp only []
  split
  · rfl
  split
  · rfl
  split
  · rfl
  have hafter : ∀ b : Bool, absLB (s.getKey c.key)
      (if ((!b || has c.tflag Engine.TF_PRIORITY && Engine2.checkWaitPriority (s.getKey c.key) c) && Engine2.doLock (s.getKey c.key) c) = true then
        (if c.expried > 0 then Engine2.LockBranch.grant else Engine2.LockBranch.grantNoHold)
      else if c.timeout > 0 then Engine2.LockBranch.queue else Engine2.LockBranch.timeout) =
      (if ((!b || has c.tflag Engine.TF_PRIORITY && Engine2.checkWaitPriority (s.getKey c.key) c) && Engine2.doLock (s.getKey c.key) c) = true then
        (if c.expried > 0 then Engine.LockBranch.grant else Engine.LockBranch.grantNoHold)
      else if c.timeout > 0 then Engine.LockBranch.queue else Engine.LockBranch.timeout) := by
    intro b
    split
    · split <;> rfl
    · split <;> rfl
  by_cases hL : (s.getKey c.key).locked > 0
  · simp only [hL, if_true]
    have hfind : absLB (s.getKey c.key)
        (match Engine2.findHolder (s.getKey c.key) c.lockId with
          | some h =>
            if has c.flag Engine.F_UPDATE = true then
              if has c.flag Engine2.F_DATA = true then
                if (Engine2.dataSettled (({ db := s, k := s.getKey c.key } : Engine2.W).procData Value.CmdType.lock c (Engine2.frameOf c none) h).k h &&
                    Engine2.checkLockedEqual s.now ((s.getKey c.key).getR h) c) = true then Engine2.LockBranch.updateEqualData h
                else Engine2.LockBranch.update h
              else if Engine2.checkLockedEqual s.now ((s.getKey c.key).getR h) c = true then Engine2.LockBranch.updateEqual h
                else Engine2.LockBranch.update h
            else
              if (decide (((s.getKey c.key).getR h).depth < 255) && decide (((s.getKey c.key).getR h).depth ≤ c.rcount) &&
                  !has c.tflag Engine.TF_PRIORITY) = true then
                if (c.expried == 0) = true then Engine2.LockBranch.relockNoHold h else Engine2.LockBranch.relock h
              else Engine2.LockBranch.relockRefused h
          | none =>
            if ((!(s.getKey c.key).waited || has c.tflag Engine.TF_PRIORITY && Engine2.checkWaitPriority (s.getKey c.key) c) &&
                Engine2.doLock (s.getKey c.key) c) = true then
              (if c.expried > 0 then Engine2.LockBranch.grant else Engine2.LockBranch.grantNoHold)
            else if c.timeout > 0 then Engine2.LockBranch.queue else Engine2.LockBranch.timeout) =
        (match (Engine2.findHolder (s.getKey c.key) c.lockId).map (holdOf (s.getKey c.key)) with
          | some h =>
            if has c.flag Engine.F_UPDATE = true then
              if (!has c.flag Engine.F_CONTAINS_DATA && Engine.checkLockedEqual s.now h c) = true then Engine.LockBranch.updateEqual h
              else Engine.LockBranch.update h
            else if (decide (h.depth < 255) && decide (h.depth ≤ c.rcount) && !has c.tflag Engine.TF_PRIORITY) = true then
              (if (c.expried == 0) = true then Engine.LockBranch.relockNoHold h else Engine.LockBranch.relock h)
            else Engine.LockBranch.relockRefused h
          | none =>
            if ((!(s.getKey c.key).waited || has c.tflag Engine.TF_PRIORITY && Engine2.checkWaitPriority (s.getKey c.key) c) &&
                Engine2.doLock (s.getKey c.key) c) = true then
              (if c.expried > 0 then Engine.LockBranch.grant else Engine.LockBranch.grantNoHold)
            else if c.timeout > 0 then Engine.LockBranch.queue else Engine.LockBranch.timeout) := by
      cases hf : Engine2.findHolder (s.getKey c.key) c.lockId with
      | none => exact hafter _
      | some h =>
        simp only [Option.map_some]
        by_cases hU : has c.flag Engine.F_UPDATE = true
        · rw [if_pos hU, if_pos hU]
          exact hupd h c rfl
        · rw [if_neg hU, if_neg hU]
          by_cases hR : (decide (((s.getKey c.key).getR h).depth < 255) && decide (((s.getKey c.key).getR h).depth ≤ c.rcount) &&
              !has c.tflag Engine.TF_PRIORITY) = true
          · rw [if_pos hR]
            have hR' : (decide ((holdOf (s.getKey c.key) h).depth < 255) && decide ((holdOf (s.getKey c.key) h).depth ≤ c.rcount) &&
              !has c.tflag Engine.TF_PRIORITY) = true := hR
            rw [if_pos hR']
            split <;> rfl
          · rw [if_neg hR]
            have hR' : ¬ (decide ((holdOf (s.getKey c.key) h).depth < 255) && decide ((holdOf (s.getKey c.key) h).depth ≤ c.rcount) &&
              !has c.tflag Engine.TF_PRIORITY) = true := hR
            rw [if_neg hR']
            rfl
    by_cases hS : has c.flag Engine.F_SHOW = true
    · simp only [hS, if_true]
      cases hc : (s.getKey c.key).current with
      | none => simp only [Option.map_none]; exact hfind
      | some cur =>
        simp only [Option.map_some]
        by_cases hU : (!has c.flag Engine.F_UPDATE) = true
        · rw [if_pos hU, if_pos hU]; rfl
        · rw [if_neg hU, if_neg hU]
          exact hupd cur { c with lockId := ((s.getKey c.key).getR cur).cmd.lockId } rfl
    · simp only [hS, if_false]
      exact hfind
  · simp only [hL, if_false]
    split
    · split
      · rfl
      · exact hafter true
    · exact hafter false

theorem classifyObs_cwp (c : Engine.Cmd) (locked : Nat) (waited leader : Bool) (now : Nat) (head find : Option Engine.Hold) (cwp cwp' dl : Bool)
    (h : has c.tflag Engine.TF_PRIORITY = true → cwp = cwp') :
    classifyObs c locked waited leader now head find cwp dl = classifyObs c locked waited leader now head find cwp' dl := by
  cases hp : has c.tflag Engine.TF_PRIORITY with
  | true => rw [h hp]
  | false => unfold classifyObs; simp only [hp, Bool.false_and]

/-- **LOCK: the record-level branch is the stage-1 branch** (no value frame, the key has no value, and the two forms of the
waiter-priority test agree — they are only evaluated for a command with the priority flag) -/
theorem classify_lock_refines (s : Engine2.DB) (hq : Engine2.DBQ s) (c : Engine.Cmd)
    (hcell : (s.getKey c.key).cell = none)
    (hp : has c.tflag Engine.TF_PRIORITY = true →
      Engine.checkWaitPriority (Engine2.Key.abs (s.getKey c.key)) c = Engine2.checkWaitPriority (s.getKey c.key) c) :
    Engine.classifyLock (Engine2.abs s) c = absLB (s.getKey c.key) (Engine2.classifyLock s c none) := by
  have hl : Engine2.CurLive (s.getKey c.key) := Engine2.cur_getKey hq.dbt.tight c.key
  have hn : Engine2.CurNone (s.getKey c.key) := (Engine2.qi_getKey hq.qi c.key).cn
  rw [classifyLock1_obs, classifyLock2_obs s c hcell, abs_getKey s hq.dbt.dbi.kn c.key, abs_head _ hl hn, abs_findHolder, abs_doLock _ hl hn]
  exact classifyObs_cwp _ _ _ _ _ _ _ _ _ _ hp

/-! ### UNLOCK -/

/-- the stage-1 branch of a record-level UNLOCK branch (an UNLOCK on a key without key record is refused like one on an unheld key) -/
def absUB (k : Engine2.Key) (c : Engine.Cmd) : Engine2.UnlockBranch → Engine.UnlockBranch
  | .noManager => if has c.flag Engine.UF_CANCEL then .cancelNone else .notLocked
  | .stateError => .stateError
  | .notLocked => .notLocked
  | .unown => .unown
  | .cancelNone => .cancelNone
  | .cancel x => .cancel (waiterOf k x)
  | .dec h c' => .dec (holdOf k h) { c' with mgr := true }
  | .release h c' => .release (holdOf k h) { c' with mgr := true }

theorem abs_isEmpty_newKey (n : Nat) : (Engine2.Key.abs (Engine2.newKey n)).isEmpty = true := by rw [abs_newKey]; rfl

/-- **UNLOCK: the record-level branch is the stage-1 branch** (`mgr` = does the key record exist) -/
theorem classify_unlock_refines (s : Engine2.DB) (hq : Engine2.DBQ s) (c : Engine.Cmd) :
    Engine.classifyUnlock (Engine2.abs s) { c with mgr := s.hasKey c.key } = absUB (s.getKey c.key) c (Engine2.classifyUnlock s c) := by
  have hl : Engine2.CurLive (s.getKey c.key) := Engine2.cur_getKey hq.dbt.tight c.key
  have hn : Engine2.CurNone (s.getKey c.key) := (Engine2.qi_getKey hq.qi c.key).cn
  unfold Engine.classifyUnlock Engine2.classifyUnlock
  simp only []
  rw [abs_getKey s hq.dbt.dbi.kn c.key]
  simp only [abs_locked, abs_head _ hl hn, abs_findHolder, abs_findCancel]
  have hlead : (Engine2.abs s).leader = s.leader := rfl
  rw [hlead]
  have hcancel : absUB (s.getKey c.key) c
      (match Engine2.findCancel (s.getKey c.key) c.lockId with | some w => Engine2.UnlockBranch.cancel w | none => Engine2.UnlockBranch.cancelNone) =
      (match (Engine2.findCancel (s.getKey c.key) c.lockId).map (waiterOf (s.getKey c.key)) with
        | some w => Engine.UnlockBranch.cancel w | none => Engine.UnlockBranch.cancelNone) := by
    cases Engine2.findCancel (s.getKey c.key) c.lockId <;> rfl
  have hgo : ∀ (h : Nat) (c' : Engine.Cmd), absUB (s.getKey c.key) c
      (if (decide (((s.getKey c.key).getR h).depth > 1) && decide (c'.rcount > 0) && !has c'.tflag Engine.TF_PRIORITY) = true then
        Engine2.UnlockBranch.dec h c' else Engine2.UnlockBranch.release h c') =
      (if (decide ((holdOf (s.getKey c.key) h).depth > 1) && decide (c'.rcount > 0) && !has c'.tflag Engine.TF_PRIORITY) = true then
        Engine.UnlockBranch.dec (holdOf (s.getKey c.key) h) { c' with mgr := true }
       else Engine.UnlockBranch.release (holdOf (s.getKey c.key) h) { c' with mgr := true }) := by
    intro h c'
    have e : (holdOf (s.getKey c.key) h).depth = ((s.getKey c.key).getR h).depth := rfl
    rw [e]
    split <;> rfl
  cases hh : s.hasKey c.key with
  | false =>
    simp only [Bool.not_false, if_true]
    have hk : s.getKey c.key = Engine2.newKey c.key := Engine2.getKey_of_not_hasKey s c.key hh
    rw [hk]
    have h0 : (Engine2.newKey c.key).locked = 0 := rfl
    have hfc : Engine2.findCancel (Engine2.newKey c.key) c.lockId = none := rfl
    simp only [abs_isEmpty_newKey, h0, hfc, Bool.false_or, Bool.not_true, Bool.and_false, Bool.false_eq_true, if_false, beq_self_eq_true, if_true,
      Option.map_none, absUB]
  | true =>
    simp only [Bool.not_true, Bool.false_eq_true, if_false, Bool.true_or, Bool.and_true]
    by_cases h3 : (!s.leader && !has c.flag Engine.F_FROM_AOF) = true
    · rw [if_pos h3, if_pos h3]; rfl
    rw [if_neg h3, if_neg h3]
    by_cases hL : ((s.getKey c.key).locked == 0) = true
    · rw [if_pos hL, if_pos hL]
      by_cases hC : has c.flag Engine.UF_CANCEL = true
      · rw [if_pos hC, if_pos hC]; exact hcancel.symm
      · rw [if_neg hC, if_neg hC]; rfl
    rw [if_neg hL, if_neg hL]
    cases hf : Engine2.findHolder (s.getKey c.key) c.lockId with
    | some h => simp only [Option.map_some]; exact (hgo h c).symm
    | none =>
      simp only [Option.map_none]
      by_cases hF : has c.flag Engine.UF_FIRST = true
      · rw [if_pos hF, if_pos hF]
        cases hc : (s.getKey c.key).current with
        | none => rfl
        | some h =>
          simp only [Option.map_some]
          exact (hgo h (Engine2.showCmd c ((s.getKey c.key).getR h))).symm
      · rw [if_neg hF, if_neg hF]
        by_cases hC : has c.flag Engine.UF_CANCEL = true
        · rw [if_pos hC, if_pos hC]; exact hcancel.symm
        · rw [if_neg hC, if_neg hC]; rfl

end Slock.Sim
