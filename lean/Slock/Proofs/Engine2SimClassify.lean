import Slock.Proofs.Engine2SimKey
/-! Simulation stage 2 → stage 1: the branch tables of LOCK and UNLOCK coincide under `abs`. -/
namespace Slock.Sim
open Slock
open Slock.Engine (has)

/-- the stage-1 branch a record-level branch stands for -/
def absLB (k : Engine2.Key) : Engine2.LockBranch → Engine.LockBranch
  | .p0a => .p0a | .p0b => .p0b | .stateError => .stateError
  | .show cur => .show (holdOf k cur)
  | .updateEqual h => .updateEqual (holdOf k h)
  | .updateEqualData h => .updateEqual (holdOf k h)      -- needs a journalled value: outside stage 1's domain
  | .update h => .update (holdOf k h)
  | .relockNoHold h => .relockNoHold (holdOf k h)
  | .relock h => .relock (holdOf k h)
  | .relockRefused h => .relockRefused (holdOf k h)
  | .unlockedWaitRefused => .unlockedWaitRefused
  | .grant => .grant | .grantNoHold => .grantNoHold | .queue => .queue | .timeout => .timeout

theorem abs_locked (k : Engine2.Key) : (Engine2.Key.abs k).locked = k.locked := rfl
theorem abs_waited (k : Engine2.Key) : (Engine2.Key.abs k).waited = k.waited := rfl

theorem checkLockedEqual_lockId (now : Nat) (h : Engine.Hold) (c : Engine.Cmd) (n : Nat) :
    Engine.checkLockedEqual now h { c with lockId := n } = Engine.checkLockedEqual now h c := rfl

/-- the LOCK branch table as a function of what it reads -/
def classifyObs (c : Engine.Cmd) (locked : Nat) (waited leader : Bool) (now : Nat) (head find : Option Engine.Hold) (cwp dl : Bool) :
    Engine.LockBranch :=
  if has c.flag Engine.F_CONCURRENT && c.timeout == 0 && c.count < 0xffff && locked > c.count then .p0a
  else if has c.flag Engine.F_CONCURRENT && c.timeout == 0 && locked == 0 && has c.tflag Engine.TF_WAIT_UNLOCK then .p0b
  else if !leader && !has c.flag Engine.F_FROM_AOF then .stateError
  else
    let afterHeld (waited : Bool) : Engine.LockBranch :=
      if (!waited || (has c.tflag Engine.TF_PRIORITY && cwp)) && dl then
        (if c.expried > 0 then .grant else .grantNoHold)
      else if c.timeout > 0 then .queue else .timeout
    if locked > 0 then
      match (if has c.flag Engine.F_SHOW then head else none) with
      | some cur =>
        if !has c.flag Engine.F_UPDATE then .show cur
        else
          if !has c.flag Engine.F_CONTAINS_DATA && Engine.checkLockedEqual now cur c then .updateEqual cur else .update cur
      | none =>
        match find with
        | some h =>
          if has c.flag Engine.F_UPDATE then
            if !has c.flag Engine.F_CONTAINS_DATA && Engine.checkLockedEqual now h c then .updateEqual h else .update h
          else if h.depth < 0xff && h.depth ≤ c.rcount && !has c.tflag Engine.TF_PRIORITY then
            (if c.expried == 0 then .relockNoHold h else .relock h)
          else .relockRefused h
        | none => afterHeld waited
    else if has c.tflag Engine.TF_WAIT_UNLOCK then
      if waited && c.count == 0 then .unlockedWaitRefused else afterHeld true
    else afterHeld false

theorem classifyLock1_obs (a : Engine.DB) (c : Engine.Cmd) :
    Engine.classifyLock a c = classifyObs c (a.getKey c.key).locked (a.getKey c.key).waited a.leader a.now (a.getKey c.key).holders.head?
      (Engine.findHolder (a.getKey c.key) c.lockId) (Engine.checkWaitPriority (a.getKey c.key) c) (Engine.doLock (a.getKey c.key) c) := rfl

theorem classifyLock2_obs (s : Engine2.DB) (c : Engine.Cmd) (hcell : (s.getKey c.key).cell = none) :
    absLB (s.getKey c.key) (Engine2.classifyLock s c none) =
      classifyObs c (s.getKey c.key).locked (s.getKey c.key).waited s.leader s.now ((s.getKey c.key).current.map (holdOf (s.getKey c.key)))
        ((Engine2.findHolder (s.getKey c.key) c.lockId).map (holdOf (s.getKey c.key)))
        (Engine2.checkWaitPriority (s.getKey c.key) c) (Engine2.doLock (s.getKey c.key) c) := by
  -- the update of a hold: with no value frame and no value the data-flagged form never takes the equal-terms shortcut
  have hupd : ∀ (h : Nat) (c' : Engine.Cmd), c'.flag = c.flag →
      absLB (s.getKey c.key) (
        if has c'.flag Engine2.F_DATA then
          (if Engine2.dataSettled (({ db := s, k := s.getKey c.key } : Engine2.W).procData .lock c' (Engine2.frameOf c' none) h).k h &&
              Engine2.checkLockedEqual s.now ((s.getKey c.key).getR h) c' then .updateEqualData h else .update h)
        else if Engine2.checkLockedEqual s.now ((s.getKey c.key).getR h) c' then .updateEqual h else .update h) =
      (if !has c.flag Engine.F_CONTAINS_DATA && Engine.checkLockedEqual s.now (holdOf (s.getKey c.key) h) c' then
        Engine.LockBranch.updateEqual (holdOf (s.getKey c.key) h) else .update (holdOf (s.getKey c.key) h)) := by
    intro h c' hf
    have hfr : Engine2.frameOf c' none = none := by unfold Engine2.frameOf; split <;> rfl
    have hds : Engine2.dataSettled (({ db := s, k := s.getKey c.key } : Engine2.W).procData .lock c' (Engine2.frameOf c' none) h).k h = false := by
      rw [hfr]
      unfold Engine2.W.procData Engine2.dataSettled
      simp only [hcell]
      rfl
    rw [hf]
    have hF : Engine.F_CONTAINS_DATA = Engine2.F_DATA := rfl
    rw [hF]
    by_cases hd : has c.flag Engine2.F_DATA = true
    · simp only [hd, if_true, hds, Bool.false_and, Bool.not_true, Bool.false_eq_true, if_false]; rfl
    · have hd' : has c.flag Engine2.F_DATA = false := by simpa using hd
      simp only [hd', Bool.false_eq_true, if_false, Bool.not_false, Bool.true_and]
      have : Engine2.checkLockedEqual s.now ((s.getKey c.key).getR h) c' = Engine.checkLockedEqual s.now (holdOf (s.getKey c.key) h) c' := rfl
      rw [this]
      split <;> rfl
  unfold Engine2.classifyLock classifyObs
  simp only []
  sorry

/-- **LOCK: the record-level branch is the stage-1 branch** (no value frame, the key has no value, and the two forms of the
waiter-priority test agree — they are only evaluated for a command with the priority flag) -/
theorem classify_lock_refines (s : Engine2.DB) (hq : Engine2.DBQ s) (c : Engine.Cmd)
    (hcell : (s.getKey c.key).cell = none)
    (hp : has c.tflag Engine.TF_PRIORITY = true →
      Engine.checkWaitPriority (Engine2.Key.abs (s.getKey c.key)) c = Engine2.checkWaitPriority (s.getKey c.key) c) :
    Engine.classifyLock (Engine2.abs s) c = absLB (s.getKey c.key) (Engine2.classifyLock s c none) := by
  have hl : Engine2.CurLive (s.getKey c.key) := Engine2.cur_getKey hq.dbt.tight c.key
  have hn : Engine2.CurNone (s.getKey c.key) := (Engine2.qi_getKey hq.qi c.key).cn
  unfold Engine.classifyLock Engine2.classifyLock
  simp only []
  rw [abs_getKey s hq.dbt.dbi.kn c.key]
  simp only [abs_locked, abs_waited, abs_head _ hl hn, abs_findHolder, abs_doLock _ hl hn]
  have hlead : (Engine2.abs s).leader = s.leader := rfl
  have hnow : (Engine2.abs s).now = s.now := rfl
  rw [hlead, hnow]
  repeat' split
  all_goals (first | rfl | (simp_all [absLB]; done) | skip)
  all_goals trace_state
  all_goals sorry

end Slock.Sim
