import Slock.Proofs.ReplPop
/-!
Pointers never dangle (`Has`), the system invariant `SysInv`, and its preservation along every guarded operation
sequence (induction over the list — any length). Core Lean only.
-/
namespace Slock.Repl

/-- the item with identity `sid` is in one of the two lists -/
def Has (q : Q) (sid : Nat) : Prop := ∃ it ∈ q.live ++ q.free, it.sid = sid

def CurHas (q : Q) (c : Cursor) : Prop := ∀ sid, c.cur = some sid → Has q sid

theorem has_of_live {q : Q} {it : Item} (hm : it ∈ q.live) : Has q it.sid := ⟨it, List.mem_append_left _ hm, rfl⟩

theorem has_pointwise {q q' : Q} {sid} (hl : Pointwise Same q.live q'.live) (hf : Pointwise Same q.free q'.free)
    (h : Has q sid) : Has q' sid := by
  obtain ⟨it, hm, hs⟩ := h
  rcases List.mem_append.mp hm with hm | hm
  · obtain ⟨b, hb, hr⟩ := Pointwise.mem_left hl it hm
    exact ⟨b, List.mem_append_left _ hb, by rw [hr.1]; exact hs⟩
  · obtain ⟨b, hb, hr⟩ := Pointwise.mem_left hf it hm
    exact ⟨b, List.mem_append_right _ hb, by rw [hr.1]; exact hs⟩

theorem makeRoom_has {q : Q} {sid} (h : Has q sid) :
    Has (makeRoom q).1 sid ∨ ∃ it, (makeRoom q).2 = some it ∧ it.sid = sid := by
  unfold makeRoom
  split
  · exact Or.inl h
  · left
    obtain ⟨it, hm, hs⟩ := h
    refine ⟨it, ?_, hs⟩
    rcases List.mem_append.mp hm with hm | hm
    · exact List.mem_append_left _ hm
    · exact List.mem_append_right _ (List.mem_append_left _ hm)
  · split
    · exact Or.inl h
    · rename_i t rest hl
      obtain ⟨fr, h1, h2⟩ := resetLoop_spec q.bufSize t rest q.free (q.used - itemSize t)
      obtain ⟨it, hm, hs⟩ := h
      rcases List.mem_append.mp hm with hm | hm
      · rw [hl, h1] at hm
        rcases List.mem_append.mp hm with hm | hm
        · left
          refine ⟨recycle it, ?_, hs⟩
          apply List.mem_append_right
          show recycle it ∈ (resetLoop q.bufSize t rest q.free (q.used - itemSize t)).2.2.1
          rw [h2]
          exact List.mem_append_right _ (List.mem_map_of_mem hm)
        · rcases List.mem_cons.mp hm with rfl | hm
          · exact Or.inr ⟨_, rfl, hs⟩
          · exact Or.inl ⟨it, List.mem_append_left _ hm, hs⟩
      · left
        refine ⟨it, ?_, hs⟩
        apply List.mem_append_right
        show it ∈ (resetLoop q.bufSize t rest q.free (q.used - itemSize t)).2.2.1
        rw [h2]
        exact List.mem_append_left _ hm

theorem takeItem_has {q : Q} {o : Option Item} {sid} (h : Has q sid ∨ ∃ it, o = some it ∧ it.sid = sid) :
    Has (takeItem q o).1 sid ∨ (takeItem q o).2.sid = sid := by
  unfold takeItem
  split
  · rcases h with h | ⟨it, ho, hs⟩
    · exact Or.inl h
    · cases ho; exact Or.inr hs
  · rcases h with h | ⟨it, ho, _⟩
    · split
      · rename_i f fr hfr
        obtain ⟨it, hm, hs⟩ := h
        rcases List.mem_append.mp hm with hm | hm
        · exact Or.inl ⟨it, List.mem_append_left _ hm, hs⟩
        · rw [hfr] at hm
          rcases List.mem_cons.mp hm with rfl | hm
          · exact Or.inr hs
          · exact Or.inl ⟨it, List.mem_append_right _ hm, hs⟩
      · exact Or.inl h
    · cases ho

theorem push_has {q : Q} {sid} (id ord dlen : Nat) (h : Has q sid) : Has (push q id ord dlen) sid := by
  have := takeItem_has (q := (makeRoom q).1) (o := (makeRoom q).2) (makeRoom_has h)
  have e1 := push_live q id ord dlen
  have e2 := push_free q id ord dlen
  generalize push q id ord dlen = P at e1 e2 ⊢
  generalize takeItem (makeRoom q).1 (makeRoom q).2 = T at this e1 e2
  rcases this with ⟨it, hm, hs⟩ | hs
  · refine ⟨it, ?_, hs⟩
    rw [e1, e2]
    rcases List.mem_append.mp hm with hm | hm
    · exact List.mem_append_left _ (List.mem_append_left _ hm)
    · exact List.mem_append_right _ hm
  · refine ⟨fillItem T.1 T.2 id ord dlen, ?_, hs⟩
    rw [e1]
    exact List.mem_append_left _ (List.mem_append_right _ (List.mem_singleton.mpr rfl))
theorem has_setPollCount {q : Q} {sid} (n : Nat) (h : Has q sid) : Has { q with pollCount := n } sid := h

theorem addPoll_has {q c sid} (h : Has q sid) : Has (addPoll q c) sid := by
  unfold addPoll
  generalize (q.pollCount + 1) % W32 = n
  have w := walk_pointwise { q with pollCount := n } incPollCount Same same_refl same_incPollCount (addStart q c)
  exact has_pointwise w.1 w.2.1 (has_setPollCount n h)

theorem removePoll_has {q c sid} (h : Has q sid) : Has (removePoll q c) sid := by
  unfold removePoll
  generalize (q.pollCount + W32 - 1) % W32 = n
  have w := walk_pointwise { q with pollCount := n } incPollIndex Same same_refl same_incPollIndex c.cur
  exact has_pointwise w.1 w.2.1 (has_setPollCount n h)

theorem ack_has {q c q' c' b sid} (ha : ack q c = some (q', c', b)) (h : Has q sid) : Has q' sid := by
  obtain ⟨a1, a2, _, _, _, _⟩ := ack_spec ha
  exact has_pointwise (Pointwise.imp (fun _ _ h => h.1) a1) (Pointwise.imp (fun _ _ h => h.1) a2) h

/-! ### named cursors -/

theorem getC_setC (cs : List (Nat × Cursor)) (n m : Nat) (c : Cursor) :
    getC (setC cs n c) m = if m = n then some c else getC cs m := by
  induction cs with
  | nil =>
    simp only [setC, getC]
    by_cases h : n = m
    · simp [h]
    · have : ¬ m = n := fun e => h e.symm
      simp [h, this]
  | cons p cs ih =>
    obtain ⟨k, d⟩ := p
    simp only [setC]
    by_cases hk : k = n
    · simp only [hk, if_true, getC]
      by_cases h : n = m
      · simp [h]
      · have : ¬ m = n := fun e => h e.symm
        simp [h, this]
    · simp only [hk, if_false, getC]
      by_cases h : k = m
      · have : ¬ m = n := fun e => hk (h.trans e)
        simp [h, this]
      · simp only [h, if_false]; exact ih

structure SysInv (A : Nat) (s : Sys) (hist : List (Nat × Nat × Nat)) : Prop where
  q : Inv A s.q hist
  cur : ∀ n c, getC s.cs n = some c → CurOk s.q c ∧ CurHas s.q c

/-- side condition of the operations: `RemovePoll` only undoes an earlier `AddPoll` (the uint32 `pollCount` does not wrap below 0).
(`AddPoll` needs none any more: since `fix: AddPoll re-validates the cursor` it does not walk from a recycled item.) -/
def OpOk (s : Sys) : Op → Prop
  | .rm _ => 0 < s.q.pollCount
  | _ => True

def Guarded (s : Sys) : List Op → Prop
  | [] => True
  | op :: ops => OpOk s op ∧ Guarded (step s op).1 ops

instance (s : Sys) (op : Op) : Decidable (OpOk s op) := by
  cases op <;> unfold OpOk <;> exact inferInstance

instance guardedDec : (s : Sys) → (ops : List Op) → Decidable (Guarded s ops)
  | _, [] => isTrue trivial
  | s, op :: ops => @instDecidableAnd _ _ _ (guardedDec (step s op).1 ops)

def addsOf : Op → Nat
  | .add _ => 1
  | _ => 0

def numAdds : List Op → Nat
  | [] => 0
  | op :: ops => addsOf op + numAdds ops

def pushOf : Op → List (Nat × Nat × Nat)
  | .push id ord dlen => [(id, ord, dlen)]
  | _ => []

theorem pushedOf_cons (op : Op) (ops : List Op) : pushedOf (op :: ops) = pushOf op ++ pushedOf ops := by
  cases op <;> rfl

theorem sysInv_init (b m : Nat) : SysInv 0 (Sys.init b m) [] :=
  ⟨inv_new b m, fun n c h => by simp [Sys.init, getC] at h⟩

/-- updating one cursor in an unchanged queue -/
theorem sysInv_setC {A s hist} (h : SysInv A s hist) (n : Nat) (c : Cursor) (h1 : CurOk s.q c) (h2 : CurHas s.q c) :
    SysInv A { s with cs := setC s.cs n c } hist := by
  refine ⟨h.q, ?_⟩
  intro m d hd
  rw [getC_setC] at hd
  by_cases hm : m = n
  · simp only [hm, if_true, Option.some.injEq] at hd
    subst hd
    exact ⟨h1, h2⟩
  · simp only [hm, if_false] at hd
    exact h.cur m d hd

theorem step_inv {A s hist} (h : SysInv A s hist) (op : Op) (hok : OpOk s op) (hA : A + addsOf op < M32) :
    SysInv (A + addsOf op) (step s op).1 (hist ++ pushOf op) := by
  cases op with
  | push id ord dlen =>
    refine ⟨push_inv h.q id ord dlen, ?_⟩
    intro n c hc
    obtain ⟨c1, c2⟩ := h.cur n c hc
    exact ⟨push_curOk h.q c1 id ord dlen, fun sid hs => push_has id ord dlen (c2 sid hs)⟩
  | cursor n =>
    have := sysInv_setC h n newCursor (curOk_new _) (fun sid hs => by cases hs)
    simpa [step, pushOf, addsOf] using this
  | add n =>
    simp only [step, pushOf, List.append_nil, addsOf]
    cases hg : getC s.cs n with
    | none => exact ⟨h.q.mono (Nat.le_succ _), h.cur⟩
    | some c =>
      refine ⟨addPoll_inv h.q, ?_⟩
      intro m d hd
      obtain ⟨c1, c2⟩ := h.cur m d hd
      exact ⟨addPoll_curOk c1, fun sid hs => addPoll_has (c2 sid hs)⟩
  | rm n =>
    simp only [step, pushOf, List.append_nil, addsOf, Nat.add_zero]
    cases hg : getC s.cs n with
    | none => exact h
    | some c =>
      refine ⟨removePoll_inv h.q hok (by simpa [addsOf] using hA), ?_⟩
      intro m d hd
      obtain ⟨c1, c2⟩ := h.cur m d hd
      exact ⟨removePoll_curOk c1, fun sid hs => removePoll_has (c2 sid hs)⟩
  | pop n =>
    simp only [step, pushOf, List.append_nil, addsOf, Nat.add_zero]
    cases hg : getC s.cs n with
    | none => exact h
    | some c =>
      obtain ⟨c1, c2⟩ := h.cur n c hg
      simp only []
      by_cases hr : (pop s.q c).1 = .ok
      · have hp : pop s.q c = (.ok, (pop s.q c).2) := by rw [← hr]
        obtain ⟨_, _, _, g4, _, it, hit, hcur⟩ := pop_ok h.q (by simpa [addsOf] using hA) c1 hp
        exact sysInv_setC h n _ g4 (fun sid hs => by rw [hcur] at hs; cases hs; exact has_of_live hit)
      · rw [pop_fail hr]
        exact sysInv_setC h n c c1 c2
  | ack n =>
    simp only [step, pushOf, List.append_nil, addsOf, Nat.add_zero]
    cases hg : getC s.cs n with
    | none => exact h
    | some c =>
      obtain ⟨c1, c2⟩ := h.cur n c hg
      simp only []
      cases ha : ack s.q c with
      | none => exact h
      | some r =>
        obtain ⟨q', c', b⟩ := r
        simp only []
        refine ⟨ack_inv h.q ha, ?_⟩
        intro m d hd
        rw [getC_setC] at hd
        by_cases hm : m = n
        · simp only [hm, if_true, Option.some.injEq] at hd
          subst hd
          refine ⟨ack_curOk_self ha c1, ?_⟩
          intro sid hs
          rw [(ack_spec ha).2.2.2.2.2] at hs
          exact ack_has ha (c2 sid hs)
        · simp only [hm, if_false] at hd
          obtain ⟨d1, d2⟩ := h.cur m d hd
          exact ⟨ack_curOk ha d1, fun sid hs => ack_has ha (d2 sid hs)⟩
  | head n =>
    simp only [step, pushOf, List.append_nil, addsOf, Nat.add_zero]
    cases hg : getC s.cs n with
    | none => exact h
    | some c =>
      obtain ⟨c1, c2⟩ := h.cur n c hg
      simp only []
      by_cases hr : (head s.q c).1 = .ok
      · have hp : head s.q c = (.ok, (head s.q c).2) := by rw [← hr]
        obtain ⟨_, _, g3, _, it, hit, hcur⟩ := head_ok h.q hp
        exact sysInv_setC h n _ g3 (fun sid hs => by rw [hcur] at hs; cases hs; exact has_of_live hit)
      · rw [(head_fail hr).1]
        exact sysInv_setC h n c c1 c2
  | search n id =>
    simp only [step, pushOf, List.append_nil, addsOf, Nat.add_zero]
    cases hg : getC s.cs n with
    | none => exact h
    | some c =>
      obtain ⟨c1, c2⟩ := h.cur n c hg
      simp only []
      by_cases hr : (search s.q id c).1 = .ok
      · have hp : search s.q id c = (.ok, (search s.q id c).2) := by rw [← hr]
        obtain ⟨_, _, _, _, _, g6, _, it, hit, hcur⟩ := search_ok h.q hp
        exact sysInv_setC h n _ g6 (fun sid hs => by rw [hcur] at hs; cases hs; exact has_of_live hit)
      · rw [search_fail hr]
        exact sysInv_setC h n c c1 c2

/-- The invariant holds after EVERY guarded operation sequence, of any length. -/
theorem run_inv {A s hist} (ops : List Op) (h : SysInv A s hist) (hg : Guarded s ops) (hA : A + numAdds ops < M32) :
    SysInv (A + numAdds ops) (run s ops) (hist ++ pushedOf ops) := by
  induction ops generalizing A s hist with
  | nil => simpa [run, pushedOf, numAdds] using h
  | cons op ops ih =>
    obtain ⟨g1, g2⟩ := hg
    simp only [numAdds] at hA ⊢
    have h1 := step_inv h op g1 (by omega)
    have := ih h1 g2 (by omega)
    rw [pushedOf_cons, ← List.append_assoc, ← Nat.add_assoc]
    exact this

end Slock.Repl
