import Slock.Proofs.Engine2SimGrant2
/-! Simulation stage 2 → stage 1: the whole grant as `grantHold` — key record and scalar fields. -/
namespace Slock.Sim
open Slock Slock.Engine2
open Slock.Engine (has)

/-- the database fields stage 1 has -/
structure Scal (a : Engine.DB) (d : DB) : Prop where
  now : a.now = d.now
  tCheck : a.tCheck = d.tCheck
  eCheck : a.eCheck = d.eCheck
  seq : a.seq = d.seq
  leader : a.leader = d.leader
  ctr : a.ctr = d.ctr

theorem foldl_unref_waited (d : List Nat) (k : Key) : (d.foldl (fun k x => k.unref x) k).waited = k.waited ∧ (d.foldl (fun k x => k.unref x) k).key = k.key := by
  induction d generalizing k with
  | nil => exact ⟨rfl, rfl⟩
  | cons a as ih =>
    simp only [List.foldl_cons]
    obtain ⟨_, _, _, q4, _⟩ := unref_queues k a
    exact ⟨(ih _).1.trans q4, (ih _).2.trans (unref_fields k a).1⟩

theorem locksPush_kw (k : Key) (rid : Nat) : (k.locksPush rid).waited = k.waited ∧ (k.locksPush rid).key = k.key := by
  unfold Key.locksPush
  simp only []
  split
  · exact ⟨rfl, rfl⟩
  · split
    · exact ⟨rfl, rfl⟩
    · obtain ⟨a, b⟩ := foldl_unref_waited (k.locks.filter (fun x => !k.liveHolder x))
        (if (k.locks.filter (fun x => k.liveHolder x)).length < k.locksPopped + k.locks.length then
          { k with locks := k.locks.filter (fun x => k.liveHolder x) ++ [rid], locksPopped := 0 }
        else { k with locks := k.locks.filter (fun x => k.liveHolder x) ++ [rid], locksCap := 2 * k.locksCap })
      refine ⟨a.trans ?_, b.trans ?_⟩ <;> split <;> rfl

theorem addLock_kw (k : Key) (rid : Nat) (f : Rec → Rec) : (k.addLock rid f).waited = k.waited ∧ (k.addLock rid f).key = k.key := by
  unfold Key.addLock
  split
  · exact ⟨rfl, rfl⟩
  · exact locksPush_kw _ rid

/-- the waiters half of `Key.abs`, for an edit of a record that is (and stays) tombstoned as a waiter -/
theorem abs_waiters_congr_dead {k' k : Key} (x : Nat) (hw : k'.wait = k.wait) (p : PKeepX πA (· = x) k' k)
    (hx1 : k.deadWaiter x = true) (hx2 : k'.deadWaiter x = true) (hd : ∀ y ∈ k.wait.map (·.rid), k'.hasRec y) :
    (Key.abs k').waiters = (Key.abs k).waiters := by
  rw [abs_waiters, abs_waiters, hw]
  apply filter_map_congr_on
  intro y hy
  by_cases e : y = x
  · subst e
    rw [hx1, hx2]; exact ⟨rfl, fun h => by simp at h⟩
  · have := p.val y e (hd y hy)
    refine ⟨?_, fun _ => congrArg (fun t => t.2.1) this⟩
    unfold Key.deadWaiter
    rw [show (k'.getR y).timeouted = (k.getR y).timeouted from congrArg (fun t => t.2.2) this]

theorem grant_scal (w : W) (rid : Nat) :
    (w.grant rid).db.seq = w.db.seq + 1 ∧ (w.grant rid).db.eCheck = w.db.eCheck ∧ (w.grant rid).db.tCheck = w.db.tCheck ∧
    (w.grant rid).db.now = w.db.now ∧ (w.grant rid).db.leader = w.db.leader ∧
    (w.grant rid).db.ctr = { w.db.ctr with lockCount := w.db.ctr.lockCount + 1, lockedCount := w.db.ctr.lockedCount + 1 } := by
  rw [grant_eq]
  exact grantTail_db ((w.addLock rid).modK incLocked) rid

/-- **the grant is `grantHold`** (key record) -/
theorem grant_abs (w : W) (l : Lv w zero) (cn : CurNone w.k) (rid : Nat) (g : Grantable w.k rid)
    (hnot : rid ∉ w.k.current.toList ++ w.k.locks) :
    Key.abs (w.grant rid).k = { Key.abs w.k with holders := (Key.abs w.k).holders ++ [((w.grant rid).k.getR rid).toHold], locked := w.k.locked + 1 } := by
  obtain ⟨lg, _⟩ := l.grant zero_nonneg rid g
  obtain ⟨hrec, _, hto⟩ := grant_rec w rid g.has
  have d := qk_grant_tail w rid
  have hsx : SX (· = rid) ((w.addLock rid).modK incLocked) (w.grant rid) := by
    rw [grant_eq]; exact grantTail_sx _ rid
  obtain ⟨kw1, kw2⟩ := addLock_kw w.k rid (addLockF w.db w.k)
  apply abs_ext
  · show (w.grant rid).k.key = w.k.key
    rw [hsx.key]; exact kw2
  · show (w.grant rid).k.locked = w.k.locked + 1
    have q := ((FQ.addLock w rid).trans (FQ.refl _)).qt.locked
    have hq : (w.grant rid).k.locked = ((w.addLock rid).modK incLocked).k.locked := by
      rw [grant_eq]; exact grantTail_locked _ rid
    rw [hq]
    show (w.addLock rid).k.locked + 1 = w.k.locked + 1
    rw [q]
  · exact grant_holders w l cn rid g hnot
  · have hw := (grant_wait_t w rid).1
    refine abs_waiters_congr_dead rid hw (grant_others w rid) (by unfold Key.deadWaiter; exact g.tomb)
      (by unfold Key.deadWaiter; rw [hto]; exact g.tomb) ?_
    intro y hy
    apply lg.rc.dang
    have := qRefs_pos_of_wait_mem (w.grant rid).k y (by rw [hw]; exact hy)
    simp only [zero]; omega
  · show (w.grant rid).k.waited = w.k.waited
    rw [hsx.waited]; exact kw1

end Slock.Sim
