import Slock.Proofs.Engine2SimTomb
/-! Simulation stage 2 → stage 1: the record-level facts the branch simulations assume (`WQ`, distinct hold identities, `CkSync`) as ONE
invariant `KI` of a key record, and the steps that keep it because they touch nothing it reads (`IK`). -/
namespace Slock.Sim
open Slock Slock.Engine2
open Slock.Engine (has)

/-- the fields of a lock record `KI` reads -/
def πI (r : Rec) : Nat × Engine.Cmd × Nat × Option Engine.Sched × Nat × Nat × Bool :=
  (r.conn, r.cmd, r.depth, r.eSched, r.eChecked, r.hid, r.timeouted)

theorem ins_πI : Ins πI := ⟨fun _ _ => rfl, fun _ _ => rfl, fun _ _ => rfl, fun _ _ => rfl⟩

/-- the simulation's invariant of one key record (`seq` = the database's wheel sequence counter) -/
structure KI (seq : Nat) (k : Key) : Prop where
  /-- `lock.protocol` is the connection of `lock.command` -/
  cs : ∀ y, k.hasRec y → (k.getR y).conn = (k.getR y).cmd.conn
  /-- an expiry-wheel entry caches its record's back-off counter -/
  ck : ∀ y, k.hasRec y → ∀ sc, (k.getR y).eSched = some sc → sc.checked = (k.getR y).eChecked
  /-- a hold's identity is a sequence number already spent … -/
  hlt : ∀ y, k.hasRec y → 0 < (k.getR y).depth → (k.getR y).hid < seq
  /-- … and no two holds share it -/
  hinj : ∀ y y', k.hasRec y → k.hasRec y' → 0 < (k.getR y).depth → 0 < (k.getR y').depth → (k.getR y).hid = (k.getR y').hid → y = y'
  /-- what sits in `currentLock` / the holder queue is not a live queued request -/
  ht : ∀ y ∈ k.current.toList ++ k.locks, (k.getR y).timeouted = true
  /-- the wait queue holds distinct records -/
  nd : (k.wait.map (·.rid)).Nodup
  /-- so does the holder queue -/
  ln : (k.current.toList ++ k.locks).Nodup

theorem KI.newKey (seq n : Nat) : KI seq (Engine2.newKey n) := by
  have hno : ∀ y, ¬ (Engine2.newKey n).hasRec y := by intro y ⟨r, hr, _⟩; simp [Slock.Engine2.newKey] at hr
  exact ⟨fun y h => absurd h (hno y), fun y h => absurd h (hno y), fun y h => absurd h (hno y), fun y _ h => absurd h (hno y),
    by intro y hy; simp [Slock.Engine2.newKey] at hy, by simp [Slock.Engine2.newKey], by simp [Slock.Engine2.newKey]⟩

theorem KI.mono {seq seq' : Nat} {k : Key} (h : KI seq k) (hs : seq ≤ seq') : KI seq' k :=
  ⟨h.cs, h.ck, fun y hy hd => Nat.lt_of_lt_of_le (h.hlt y hy hd) hs, h.hinj, h.ht, h.nd, h.ln⟩

theorem timeouted_dead (k : Key) (y : Nat) (h : ¬ k.hasRec y) : (k.getR y).timeouted = true := by
  rw [getR_of_not_hasRec k y h]; rfl

/-- the queues shrink at most, every surviving record reads the same -/
theorem KI.of_pk_gen {seq : Nat} {k k' : Key} (h : KI seq k) (hl : (k'.current.toList ++ k'.locks).Sublist (k.current.toList ++ k.locks))
    (hw : (k'.wait.map (·.rid)).Nodup) (p : PKeep πI k' k) : KI seq k' := by
  have e1 : ∀ y, k'.hasRec y → (k'.getR y).conn = (k.getR y).conn := fun y hy => congrArg (fun t => t.1) (p.val y hy)
  have e2 : ∀ y, k'.hasRec y → (k'.getR y).cmd = (k.getR y).cmd := fun y hy => congrArg (fun t => t.2.1) (p.val y hy)
  have e3 : ∀ y, k'.hasRec y → (k'.getR y).depth = (k.getR y).depth := fun y hy => congrArg (fun t => t.2.2.1) (p.val y hy)
  have e4 : ∀ y, k'.hasRec y → (k'.getR y).eSched = (k.getR y).eSched := fun y hy => congrArg (fun t => t.2.2.2.1) (p.val y hy)
  have e5 : ∀ y, k'.hasRec y → (k'.getR y).eChecked = (k.getR y).eChecked := fun y hy => congrArg (fun t => t.2.2.2.2.1) (p.val y hy)
  have e6 : ∀ y, k'.hasRec y → (k'.getR y).hid = (k.getR y).hid := fun y hy => congrArg (fun t => t.2.2.2.2.2.1) (p.val y hy)
  have e7 : ∀ y, k'.hasRec y → (k'.getR y).timeouted = (k.getR y).timeouted := fun y hy => congrArg (fun t => t.2.2.2.2.2.2) (p.val y hy)
  refine ⟨?_, ?_, ?_, ?_, ?_, hw, hl.nodup h.ln⟩
  · intro y hy; rw [e1 y hy, e2 y hy]; exact h.cs y (p.sub y hy)
  · intro y hy sc hsc; rw [e5 y hy]; exact h.ck y (p.sub y hy) sc (by rw [← e4 y hy]; exact hsc)
  · intro y hy hd; rw [e6 y hy]; exact h.hlt y (p.sub y hy) (by rw [← e3 y hy]; exact hd)
  · intro y y' hy hy' hd hd' he
    exact h.hinj y y' (p.sub y hy) (p.sub y' hy') (by rw [← e3 y hy]; exact hd) (by rw [← e3 y' hy']; exact hd') (by rw [← e6 y hy, ← e6 y' hy']; exact he)
  · intro y hy
    by_cases hh : k'.hasRec y
    · rw [e7 y hh]; exact h.ht y (hl.subset hy)
    · exact timeouted_dead k' y hh

theorem KI.of_pk_sub {seq : Nat} {k k' : Key} (h : KI seq k) (hl : (k'.current.toList ++ k'.locks).Sublist (k.current.toList ++ k.locks))
    (hw : (k'.wait.map (·.rid)).Sublist (k.wait.map (·.rid))) (p : PKeep πI k' k) : KI seq k' := h.of_pk_gen hl (hw.nodup h.nd) p

/-- same queues, every surviving record reads the same -/
theorem KI.of_pk {seq : Nat} {k k' : Key} (h : KI seq k) (q : k'.queues = k.queues) (p : PKeep πI k' k) : KI seq k' := by
  obtain ⟨q1, q2, q3⟩ := queues_eq q
  exact h.of_pk_sub (by rw [q1, q2]; exact List.Sublist.refl _) (by rw [q3]; exact List.Sublist.refl _) p

/-- **one record changes** (every other record reads the same; the holder queue gains at most that record) -/
theorem KI.step1 {seq seq' : Nat} {k k' : Key} (h : KI seq k) (rid : Nat) (hs : seq ≤ seq')
    (px : PKeepX πI (· = rid) k' k)
    (hsub : ∀ y, y ∈ k'.current.toList ++ k'.locks → y ∈ k.current.toList ++ k.locks ∨ y = rid)
    (hln : (k'.current.toList ++ k'.locks).Nodup) (hnd : (k'.wait.map (·.rid)).Nodup)
    (cs' : k'.hasRec rid → (k'.getR rid).conn = (k'.getR rid).cmd.conn)
    (ck' : k'.hasRec rid → ∀ sc, (k'.getR rid).eSched = some sc → sc.checked = (k'.getR rid).eChecked)
    (hl' : k'.hasRec rid → 0 < (k'.getR rid).depth → (k'.getR rid).hid < seq')
    (hi' : k'.hasRec rid → 0 < (k'.getR rid).depth → ∀ y, y ≠ rid → k.hasRec y → 0 < (k.getR y).depth → (k.getR y).hid ≠ (k'.getR rid).hid)
    (ht' : rid ∈ k'.current.toList ++ k'.locks → (k'.getR rid).timeouted = true) : KI seq' k' := by
  have e1 : ∀ y, y ≠ rid → k'.hasRec y → (k'.getR y).conn = (k.getR y).conn := fun y hn hy => congrArg (fun t => t.1) (px.val y hn hy)
  have e2 : ∀ y, y ≠ rid → k'.hasRec y → (k'.getR y).cmd = (k.getR y).cmd := fun y hn hy => congrArg (fun t => t.2.1) (px.val y hn hy)
  have e3 : ∀ y, y ≠ rid → k'.hasRec y → (k'.getR y).depth = (k.getR y).depth := fun y hn hy => congrArg (fun t => t.2.2.1) (px.val y hn hy)
  have e4 : ∀ y, y ≠ rid → k'.hasRec y → (k'.getR y).eSched = (k.getR y).eSched := fun y hn hy => congrArg (fun t => t.2.2.2.1) (px.val y hn hy)
  have e5 : ∀ y, y ≠ rid → k'.hasRec y → (k'.getR y).eChecked = (k.getR y).eChecked := fun y hn hy => congrArg (fun t => t.2.2.2.2.1) (px.val y hn hy)
  have e6 : ∀ y, y ≠ rid → k'.hasRec y → (k'.getR y).hid = (k.getR y).hid := fun y hn hy => congrArg (fun t => t.2.2.2.2.2.1) (px.val y hn hy)
  have e7 : ∀ y, y ≠ rid → k'.hasRec y → (k'.getR y).timeouted = (k.getR y).timeouted := fun y hn hy => congrArg (fun t => t.2.2.2.2.2.2) (px.val y hn hy)
  refine ⟨?_, ?_, ?_, ?_, ?_, hnd, hln⟩
  · intro y hy
    by_cases e : y = rid
    · subst e; exact cs' hy
    · rw [e1 y e hy, e2 y e hy]; exact h.cs y (px.sub y e hy)
  · intro y hy sc hsc
    by_cases e : y = rid
    · subst e; exact ck' hy sc hsc
    · rw [e5 y e hy]; exact h.ck y (px.sub y e hy) sc (by rw [← e4 y e hy]; exact hsc)
  · intro y hy hd
    by_cases e : y = rid
    · subst e; exact hl' hy hd
    · rw [e6 y e hy]; exact Nat.lt_of_lt_of_le (h.hlt y (px.sub y e hy) (by rw [← e3 y e hy]; exact hd)) hs
  · intro y y' hy hy' hd hd' he
    by_cases e : y = rid
    · by_cases e' : y' = rid
      · rw [e, e']
      · exfalso
        subst e
        exact hi' hy hd y' e' (px.sub y' e' hy') (by rw [← e3 y' e' hy']; exact hd') (by rw [← e6 y' e' hy']; exact he.symm)
    · by_cases e' : y' = rid
      · exfalso
        subst e'
        exact hi' hy' hd' y e (px.sub y e hy) (by rw [← e3 y e hy]; exact hd) (by rw [← e6 y e hy]; exact he)
      · exact h.hinj y y' (px.sub y e hy) (px.sub y' e' hy') (by rw [← e3 y e hy]; exact hd) (by rw [← e3 y' e' hy']; exact hd')
          (by rw [← e6 y e hy, ← e6 y' e' hy']; exact he)
  · intro y hy
    by_cases e : y = rid
    · subst e; exact ht' hy
    · by_cases hh : k'.hasRec y
      · rw [e7 y e hh]
        rcases hsub y hy with h1 | h1
        · exact h.ht y h1
        · exact absurd h1 e
      · exact timeouted_dead k' y hh

/-- the changed record keeps its identity and does not come to life: the two hid clauses follow -/
theorem KI.step1_same {seq seq' : Nat} {k k' : Key} (h : KI seq k) (rid : Nat) (hs : seq ≤ seq')
    (px : PKeepX πI (· = rid) k' k)
    (hsub : ∀ y, y ∈ k'.current.toList ++ k'.locks → y ∈ k.current.toList ++ k.locks ∨ y = rid)
    (hln : (k'.current.toList ++ k'.locks).Nodup) (hnd : (k'.wait.map (·.rid)).Nodup)
    (cs' : k'.hasRec rid → (k'.getR rid).conn = (k'.getR rid).cmd.conn)
    (ck' : k'.hasRec rid → ∀ sc, (k'.getR rid).eSched = some sc → sc.checked = (k'.getR rid).eChecked)
    (hid' : k'.hasRec rid → 0 < (k'.getR rid).depth → k.hasRec rid ∧ 0 < (k.getR rid).depth ∧ (k'.getR rid).hid = (k.getR rid).hid)
    (ht' : rid ∈ k'.current.toList ++ k'.locks → (k'.getR rid).timeouted = true) : KI seq' k' := by
  refine h.step1 rid hs px hsub hln hnd cs' ck' ?_ ?_ ht'
  · intro hy hd
    obtain ⟨a, b, c⟩ := hid' hy hd
    rw [c]; exact Nat.lt_of_lt_of_le (h.hlt rid a b) hs
  · intro hy hd y hne hyk hdy he
    obtain ⟨a, b, c⟩ := hid' hy hd
    exact hne (h.hinj y rid hyk a hdy b (he.trans c))

/-- a helper step `KI` does not see: queues, `waited` and the queue mode kept, records read the same, the sequence counter does not go back -/
structure IK (w w' : W) : Prop where
  q : w'.k.queues = w.k.queues
  p : PKeep πI w'.k w.k
  s : w.db.seq ≤ w'.db.seq
  wd : w'.k.waited = w.k.waited
  wp : w'.k.waitPrio = w.k.waitPrio

/-- `KI` of the working state -/
def WI (w : W) : Prop := KI w.db.seq w.k

theorem WI.ik {w w' : W} (h : WI w) (d : IK w w') : WI w' := (KI.of_pk h d.q d.p).mono d.s

theorem procData_waitPrio (w : W) (t : Slock.Value.CmdType) (c : Engine.Cmd) (f : Option Bytes) (rid : Nat) :
    (w.procData t c f rid).k.waitPrio = w.k.waitPrio := by
  unfold W.procData; split
  · rfl
  · simp only []; split
    · rfl
    · split <;> rfl

theorem aofLockData_waitPrio (k : Key) (b : Bool) (rid : Nat) : (aofLockData k b rid).1.waitPrio = k.waitPrio := by
  unfold aofLockData; split
  · rfl
  · split
    · split <;> rfl
    · rfl

theorem pushLockAof_waitPrio (w : W) (rid flag : Nat) : (w.pushLockAof rid flag).k.waitPrio = w.k.waitPrio := by
  unfold W.pushLockAof; split
  · rfl
  · simp only []; split
    · rfl
    · exact aofLockData_waitPrio w.k true rid

theorem pushUnLockAof_waitPrio (w : W) (rid : Nat) (lc : Engine.Cmd) (fa ia : Bool) (flag : Nat) :
    (w.pushUnLockAof rid lc fa ia flag).k.waitPrio = w.k.waitPrio := by
  unfold W.pushUnLockAof; split
  · rfl
  · split
    · rfl
    · exact aofLockData_waitPrio w.k false rid

namespace IK
theorem refl (w : W) : IK w w := ⟨rfl, PKeep.refl _, Nat.le_refl _, rfl, rfl⟩
theorem trans {a b c : W} (h1 : IK a b) (h2 : IK b c) : IK a c :=
  ⟨h2.q.trans h1.q, h2.p.trans h1.p, Nat.le_trans h1.s h2.s, h2.wd.trans h1.wd, h2.wp.trans h1.wp⟩
theorem of_k {w w' : W} (e : w'.k = w.k) (s : w.db.seq ≤ w'.db.seq) : IK w w' := ⟨by rw [e], by rw [e]; exact PKeep.refl _, s, by rw [e], by rw [e]⟩
theorem reply (w : W) (c : Engine.Cmd) (a b : Nat) (d : Option Bytes) : IK w (w.reply c a b d) := of_k rfl (Nat.le_refl _)
theorem ctr (w : W) (f : Engine.Counters → Engine.Counters) : IK w (w.ctr f) := of_k rfl (Nat.le_refl _)
theorem when (w : W) (b : Bool) (f : W → W) (h : IK w (f w)) : IK w (w.when b f) := by
  cases b
  · exact refl w
  · exact h
theorem modR (w : W) (rid : Nat) (f : Rec → Rec) (hf : ∀ r, (f r).rid = r.rid) (hp : ∀ r, πI (f r) = πI r) : IK w (w.modR rid f) :=
  ⟨rfl, pk_modR w rid f hf hp, Nat.le_refl _, rfl, rfl⟩
theorem modK (w : W) (f : Key → Key) (h1 : (f w.k).recs = w.k.recs) (h2 : (f w.k).queues = w.k.queues)
    (h3 : (f w.k).waited = w.k.waited) (h4 : (f w.k).waitPrio = w.k.waitPrio) : IK w (w.modK f) :=
  ⟨h2, PKeep.of_eq h1, Nat.le_refl _, h3, h4⟩
theorem procData (w : W) (t : Slock.Value.CmdType) (c : Engine.Cmd) (f : Option Bytes) (rid : Nat) : IK w (w.procData t c f rid) :=
  ⟨queues_procData w t c f rid, pk_procData ins_πI w t c f rid, Nat.le_of_eq (SC.procData w t c f rid).seq.symm, procData_waited w t c f rid,
   procData_waitPrio w t c f rid⟩
theorem pushLockAof (w : W) (rid flag : Nat) : IK w (w.pushLockAof rid flag) :=
  ⟨queues_pushLockAof w rid flag, pk_pushLockAof ins_πI w rid flag, Nat.le_of_eq (SC.pushLockAof w rid flag).seq.symm, pushLockAof_waited w rid flag,
   pushLockAof_waitPrio w rid flag⟩
theorem pushLockAofN (n : Nat) (w : W) (rid : Nat) : IK w (W.pushLockAofN n w rid) := by
  induction n generalizing w with
  | zero => exact refl _
  | succ n ih => unfold W.pushLockAofN; exact (pushLockAof _ _ _).trans (ih _)
theorem pushUnLockAof (w : W) (rid : Nat) (lc : Engine.Cmd) (fa ia : Bool) (flag : Nat) : IK w (w.pushUnLockAof rid lc fa ia flag) :=
  ⟨(qk_pushUnLockAof w rid lc fa ia flag).q, pk_pushUnLockAof ins_πI w rid lc fa ia flag, Nat.le_of_eq (SC.pushUnLockAof w rid lc fa ia flag).seq.symm,
   pushUnLockAof_waited w rid lc fa ia flag, pushUnLockAof_waitPrio w rid lc fa ia flag⟩
theorem journalLock (w : W) (rid flag : Nat) : IK w (w.journalLock rid flag) := when _ _ _ (pushLockAof _ _ _)
theorem journalUnlock (w : W) (rid : Nat) (fa ia : Bool) (flag : Nat) : IK w (w.journalUnlock rid fa ia flag) := when _ _ _ (pushUnLockAof _ _ _ _ _ _)
theorem ref (w : W) (rid : Nat) : IK w (w.ref rid) := modR w rid _ (fun _ => rfl) (fun _ => rfl)
theorem removeLongT (w : W) (rid : Nat) : IK w (w.removeLongT rid) := ⟨rfl, pk_removeLongT ins_πI w rid (fun _ _ => rfl), Nat.le_refl _, rfl, rfl⟩
theorem dropLongT (w : W) (rid : Nat) : IK w (w.dropLongT rid) := when _ _ _ (removeLongT _ _)
theorem grantNoHold (w : W) (rid : Nat) : IK w (w.grantNoHold rid) := by
  unfold W.grantNoHold
  simp only []
  exact ((procData w _ _ _ rid).trans (when _ _ _ (pushLockAof _ _ _))).trans (modR _ rid (fun r => { r with data := none }) (fun _ => rfl) (fun _ => rfl))
theorem free (w : W) (rid : Nat) : IK w (w.modK (·.free rid)) := by
  obtain ⟨a, b, c, d, e, _⟩ := free_queues w.k rid
  exact ⟨queues_mk c a b, PKeep.free _ _, Nat.le_refl _, d, e⟩
theorem unrefOnly (w : W) (rid : Nat) : IK w (w.modK (·.unrefOnly rid)) := ⟨rfl, PKeep.unrefOnly ins_πI _ _, Nat.le_refl _, rfl, rfl⟩
end IK

end Slock.Sim
