import Slock.Proofs.Engine2SimInvRun
/-! Clock-tick simulation (`sim_tick`): the record-level invariant `KT` of one key record the sweeps need beyond `Sim.KI` —
a lock record that is a live queued request sits in the wait queue and carries a timeout-wheel entry that caches its back-off counter
(stage 1 re-arms with `sched.checked + 1`, the record-level model with `tChecked + 1`); a lock record that is a hold sits in
`currentLock` / the holder queue. -/
namespace Slock.SimTick
open Slock Slock.Sim Slock.Engine2

structure KT (k : Key) : Prop where
  /-- a live queued request is in the wait queue -/
  wq : ∀ y, k.hasRec y → (k.getR y).timeouted = false → y ∈ k.wait.map (·.rid)
  /-- … and has a timeout-wheel entry that caches its back-off counter -/
  ws : ∀ y, k.hasRec y → (k.getR y).timeouted = false → ∃ sc, (k.getR y).tSched = some sc ∧ sc.checked = (k.getR y).tChecked
  /-- a hold is in `currentLock` or the holder queue -/
  hq : ∀ y, k.hasRec y → 0 < (k.getR y).depth → y ∈ k.current.toList ++ k.locks

theorem KT.newKey (n : Nat) : KT (Engine2.newKey n) := by
  have hno : ∀ y, ¬ (Engine2.newKey n).hasRec y := by intro y ⟨r, hr, _⟩; simp [Slock.Engine2.newKey] at hr
  exact ⟨fun y h => absurd h (hno y), fun y h => absurd h (hno y), fun y h => absurd h (hno y)⟩

/-- every key record satisfies `KT` -/
def DBKT (s : DB) : Prop := ∀ k ∈ s.keys, KT k

theorem DBKT.init (now aofTime : Nat) : DBKT (DB.init now aofTime) := by intro k hk; simp [DB.init] at hk

theorem DBKT.getKey {s : DB} (h : DBKT s) (n : Nat) : KT (s.getKey n) := by
  cases hh : s.hasKey n with
  | true => exact h _ (getKey_mem s n hh)
  | false => rw [getKey_of_not_hasKey s n hh]; exact KT.newKey _

theorem DBKT.of_keys {s s' : DB} (h : DBKT s) (e : s'.keys = s.keys) : DBKT s' := by
  intro k hk; rw [e] at hk; exact h k hk

end Slock.SimTick
