import Slock.Proofs.ClientPolicies
import Slock.Proofs.ClientQueue
import Slock.Properties.C02
/-!
Step facts of M-ENGINE used by C19's RLock and Event theorems: what exactly a re-lock / an unlock of one level does to the
state of a key with a single holder, when a wake pass is a no-op, and which classification branches can answer SUCCED.
-/
namespace Slock.Engine

/-! ### more facts read off the classification -/

theorem classifyLock_relockNoHold_facts (db : DB) (c : Cmd) (h : Hold) (hb : classifyLock db c = .relockNoHold h) :
    h.depth ≤ c.rcount := by
  unfold classifyLock at hb
  simp only [] at hb
  repeat' split at hb
  all_goals (try (simp at hb))
  all_goals (first | (subst hb; simp_all; done) | (obtain rfl := hb; simp_all; done) | skip)

theorem classifyLock_grant_expried (db : DB) (c : Cmd) (hb : classifyLock db c = .grant) : c.expried > 0 := by
  unfold classifyLock at hb
  simp only [] at hb
  repeat' split at hb
  all_goals (try (simp at hb))
  all_goals (first | omega | (simp_all; done) | skip)

theorem classifyLock_grantNoHold_facts (db : DB) (c : Cmd) (hb : classifyLock db c = .grantNoHold) :
    doLock (db.getKey c.key) c = true ∧ c.expried = 0 := by
  unfold classifyLock at hb
  simp only [] at hb
  repeat' split at hb
  all_goals (try (simp at hb))
  all_goals (first | (refine ⟨by simp_all, by omega⟩; done) | (simp_all; done) | skip)

/-- the three re-lock branches are taken only without the update flag -/
theorem classifyLock_relock_noupdate (db : DB) (c : Cmd) (h : Hold)
    (hb : classifyLock db c = .relock h ∨ classifyLock db c = .relockNoHold h ∨ classifyLock db c = .relockRefused h) :
    has c.flag F_UPDATE = false := by
  unfold classifyLock at hb
  simp only [] at hb
  repeat' split at hb
  all_goals (try (simp at hb))
  all_goals (first | (simp_all; done) | skip)

/-! ### storing a key and reading it back -/

theorem getKey_setKey' (db : DB) (k : Key) (n : Nat) (hn : k.key = n) (hne : k.isEmpty = false) :
    (db.setKey k).getKey n = k := by
  have := getKey_setKey db k
  rw [hn] at this
  rw [this, hne]; rfl

theorem isEmpty_of_locked {k : Key} (h : k.locked ≠ 0) : k.isEmpty = false := by
  unfold Key.isEmpty
  have : (k.locked == 0) = false := by simpa using h
  simp [this]

/-! ### wake pass: monotone, and a no-op when the head request is not admissible -/

theorem wakeIter_mono {db : DB} {k : Key} {db' : DB} {k' : Key} {r : Reply} (h : wakeIter db k = some (db', k', r)) :
    k.locked ≤ k'.locked := by
  unfold wakeIter at h
  cases hw : k.waiters with
  | nil => simp [hw] at h
  | cons w rest =>
    simp only [hw] at h
    by_cases hd : doLock k w.cmd = true
    · simp only [hd, Bool.not_true, Bool.false_eq_true, if_false] at h
      by_cases he : w.cmd.expried > 0
      · simp only [he, if_true] at h
        injection h with h; injection h with h1 h2; injection h2 with h2 h3
        rw [← h2]
        obtain ⟨_, _, _, _, hl, _⟩ := grantHold_holders
          { db with ctr := { db.ctr with waitCount := db.ctr.waitCount - 1 } } { k with waiters := rest } { w.cmd with conn := w.conn }
        rw [hl]; exact Nat.le_succ _
      · simp only [he, if_false] at h
        injection h with h; injection h with h1 h2; injection h2 with h2 h3
        rw [← h2]; exact Nat.le_refl _
    · simp [hd] at h

theorem wakePass_mono (fuel : Nat) (db : DB) (k : Key) (out : List Reply) : k.locked ≤ (wakePass fuel db k out).2.1.locked := by
  induction fuel generalizing db k out with
  | zero => unfold wakePass; split <;> exact Nat.le_refl _
  | succ n ih =>
    unfold wakePass
    split
    · exact Nat.le_refl _
    · cases hw : wakeIter db k with
      | none => simp only []; split <;> exact Nat.le_refl _
      | some t =>
        obtain ⟨db', k', r⟩ := t
        simp only []
        exact Nat.le_trans (wakeIter_mono hw) (ih db' k' _)

theorem wake_mono (db : DB) (k : Key) (out : List Reply) : k.locked ≤ (wake db k out).2.1.locked := wakePass_mono _ db k out

/-- the head request (if any) is not admissible -/
def Blocked (k : Key) : Prop := ∀ w rest, k.waiters = w :: rest → doLock k w.cmd = false

theorem wakeIter_blocked (db : DB) (k : Key) (hb : Blocked k) : wakeIter db k = none := by
  unfold wakeIter
  cases hw : k.waiters with
  | nil => rfl
  | cons w rest => simp [hb w rest hw]

theorem wake_blocked (db : DB) (k : Key) (out : List Reply) (hb : Blocked k) :
    (wake db k out).2.1.holders = k.holders ∧ (wake db k out).2.1.locked = k.locked ∧ (wake db k out).2.2 = out ∧
      (wake db k out).2.1.waiters = k.waiters := by
  unfold wake wakePass
  split
  · exact ⟨rfl, rfl, rfl, rfl⟩
  · rw [wakeIter_blocked db k hb]
    simp only []
    split <;> exact ⟨rfl, rfl, rfl, rfl⟩

/-- with Count 0 nobody is admitted next to an outstanding hold -/
theorem blocked_of_count_zero (k : Key) (hl : k.locked ≠ 0) (hw : ∀ w ∈ k.waiters, w.cmd.count = 0) : Blocked k := by
  intro w rest e
  unfold doLock
  have h1 : (k.locked == 0) = false := by simpa using hl
  have h2 : w.cmd.count = 0 := hw w (by rw [e]; simp)
  simp [h1, h2]

/-- … and while the oldest holder's own Count is 0 nobody is admitted either (whatever the queued requests ask for) -/
theorem blocked_of_head_count_zero (k : Key) (hl : k.locked ≠ 0) (hh : ∃ cur, k.holders.head? = some cur ∧ cur.cmd.count = 0) :
    Blocked k := by
  intro w rest _
  obtain ⟨cur, hcur, hc⟩ := hh
  unfold doLock
  have h1 : (k.locked == 0) = false := by simpa using hl
  by_cases hw : w.cmd.count = 0
  · simp [h1, hw]
  · have hpos : 0 < k.locked := Nat.pos_of_ne_zero hl
    by_cases hb : k.locked ≥ 0xffff
    · simp [h1, hw, hcur, hc, hb]
    · have : ¬ k.locked ≤ 0 := by omega
      simp [h1, hw, hcur, hc, hb, this]

/-- a wake pass on a blocked key with something outstanding, stored back: nothing changes for the key, nothing is sent -/
theorem wake_store_blocked (db : DB) (k : Key) (out : List Reply) (n : Nat) (hn : k.key = n) (hb : Blocked k) (hl : k.locked ≠ 0) :
    (((wake db k out).1.setKey (wake db k out).2.1).getKey n).holders = k.holders ∧
    (((wake db k out).1.setKey (wake db k out).2.1).getKey n).waiters = k.waiters ∧
    (((wake db k out).1.setKey (wake db k out).2.1).getKey n).locked = k.locked ∧ (wake db k out).2.2 = out := by
  obtain ⟨e1, e2, e3, e4⟩ := wake_blocked db k out hb
  rw [getKey_setKey' (n := n)]
  · exact ⟨e1, e4, e2, e3⟩
  · rw [wake_key]; exact hn
  · exact isEmpty_of_locked (by rw [e2]; exact hl)

theorem wake_store_locked_pos (db : DB) (k : Key) (out : List Reply) (n : Nat) (hn : k.key = n) (hpos : 0 < k.locked) :
    0 < (((wake db k out).1.setKey (wake db k out).2.1).getKey n).locked := by
  have hmono := wake_mono db k out
  rw [getKey_setKey' (n := n)]
  · exact Nat.lt_of_lt_of_le hpos hmono
  · rw [wake_key]; exact hn
  · exact isEmpty_of_locked (Nat.ne_of_gt (Nat.lt_of_lt_of_le hpos hmono))

/-- the first reply of a step that ends with a wake pass is the step's own reply -/
theorem wake_head (db : DB) (k : Key) (r : Reply) (out : List Reply) : (wake db k (r :: out)).2.2.head? = some r := by
  obtain ⟨more, hm⟩ := wake_out db k (r :: out)
  rw [hm]; rfl

/-! ### a key with a single holder -/

theorem findHolder_single {k : Key} {h : Hold} (hs : k.holders = [h]) : findHolder k h.cmd.lockId = some h := by
  unfold findHolder; rw [hs]; simp

theorem locked_single {k : Key} (hi : KeyInv k) {h : Hold} (hs : k.holders = [h]) : k.locked = h.depth ∧ 1 ≤ h.depth := by
  refine ⟨by rw [hi.sum, hs]; simp, hi.pos h (by rw [hs]; simp)⟩

theorem replaceHolder_single (h h' : Hold) : replaceHolder [h] h h' = [h'] := by simp [replaceHolder]

/-- **Re-lock by the holder.** On a key whose only holder `h` bears the command's LockId, a plain LOCK asking for a hold,
with `depth ≤ Rcount`, `depth < 255`, no priority flag and Count 0, is answered SUCCED with depth + 1, and afterwards the
key's only holder is that same hold one level deeper, its terms replaced by the command's. (Since the C04 fix a wake pass
follows the re-lock; with the new command's Count 0 it admits nobody.) -/
theorem relock_state (db : DB) (c : Cmd) (h : Hold) (hinv : DBInv db) (hl : db.leader = true) (hflag : c.flag = 0)
    (hprio : has c.tflag TF_PRIORITY = false) (hexp : c.expried > 0)
    (hs : (db.getKey c.key).holders = [h]) (hid : h.cmd.lockId = c.lockId) (hd : h.depth < 0xff) (hr : h.depth ≤ c.rcount)
    (hc0 : c.count = 0) :
    ∃ h1, ((opLock db c).1.getKey c.key).holders = [h1] ∧ h1.depth = h.depth + 1 ∧ h1.cmd = c ∧
      (opLock db c).2 = [mkReply c RESULT_SUCCED ((db.getKey c.key).locked + 1) (h.depth + 1)] := by
  have hi := getKey_inv hinv c.key
  obtain ⟨hlk, hpos⟩ := locked_single hi hs
  have hfind : findHolder (db.getKey c.key) c.lockId = some h := by rw [← hid]; exact findHolder_single hs
  have hb : classifyLock db c = .relock h := by
    rw [Slock.C02.C02_reentrant_decision db c h hl (by rw [hflag]; exact has_zero' _) (by rw [hflag]; exact has_zero' _)
      (by rw [hflag]; exact has_zero' _) (by omega) hfind]
    have hne : ¬ c.expried = 0 := by omega
    simp [hd, hr, hprio, hne]
  have hbk : ∀ (k : Key), k.holders = [(updateHold db { h with depth := h.depth + 1 } c).2] → k.locked ≠ 0 → Blocked k :=
    fun k e hl => blocked_of_head_count_zero k hl ⟨_, by rw [e]; rfl, by rw [updateHold_cmd]; exact hc0⟩
  refine ⟨(updateHold db { h with depth := h.depth + 1 } c).2, ?_, by rw [updateHold_depth], updateHold_cmd _ _ _, ?_⟩
  · unfold opLock
    rw [hb]
    simp only [applyLock]
    rw [(wake_store_blocked _ _ _ c.key ?_ ?_ ?_).1]
    · simp only [hs, replaceHolder_single]
    · exact getKey_key db c.key
    · exact hbk _ (by simp only [hs, replaceHolder_single]) (by simp)
    · simp
  · unfold opLock
    rw [hb]
    simp only [applyLock, updateHold_depth]
    rw [(wake_blocked _ _ _ ?_).2.2.1]
    exact hbk _ (by simp only [hs, replaceHolder_single]) (by simp)
where
  has_zero' (f : Nat) : has 0 f = false := by unfold has; simp

/-- **Unlock of one level.** On a key whose only holder `h` (depth > 1) bears the command's LockId, with every queued
request carrying Count 0, an UNLOCK with Rcount > 0 and no priority flag removes exactly one level: the hold stays, one
level shallower; nobody else gets in. -/
theorem dec_state (db : DB) (c : Cmd) (h : Hold) (hinv : DBInv db) (hl : db.leader = true)
    (hprio : has c.tflag TF_PRIORITY = false) (hrc : c.rcount > 0)
    (hs : (db.getKey c.key).holders = [h]) (hid : h.cmd.lockId = c.lockId) (hd : 1 < h.depth)
    (hw : ∀ w ∈ (db.getKey c.key).waiters, w.cmd.count = 0) :
    ((opUnlock db c).1.getKey c.key).holders = [{ h with depth := h.depth - 1 }] ∧
      ((opUnlock db c).1.getKey c.key).waiters = (db.getKey c.key).waiters ∧
      (opUnlock db c).2 = [mkReply c RESULT_SUCCED ((db.getKey c.key).locked - 1) (h.depth - 1)] := by
  have hi := getKey_inv hinv c.key
  obtain ⟨hlk, hpos⟩ := locked_single hi hs
  have hfind : findHolder (db.getKey c.key) c.lockId = some h := by rw [← hid]; exact findHolder_single hs
  have hb : classifyUnlock db c = .dec h c := by
    rw [Slock.C02.C02_unlock_decision db c h hl (by omega) hfind]
    simp [hd, hrc, hprio]
  unfold opUnlock
  rw [hb]
  simp only [applyUnlock]
  have hblk : Blocked { db.getKey c.key with
      holders := replaceHolder (db.getKey c.key).holders h { h with depth := h.depth - 1 }, locked := (db.getKey c.key).locked - 1 } :=
    blocked_of_count_zero _ (by simp only []; omega) hw
  obtain ⟨e1, e2, e3, e4⟩ := wake_blocked
    { db with ctr := { db.ctr with unLockCount := db.ctr.unLockCount + 1, lockedCount := db.ctr.lockedCount - 1 } } _
    [mkReply c RESULT_SUCCED ((db.getKey c.key).locked - 1) (h.depth - 1)] hblk
  have hkey := wake_key
    { db with ctr := { db.ctr with unLockCount := db.ctr.unLockCount + 1, lockedCount := db.ctr.lockedCount - 1 } }
    { db.getKey c.key with
      holders := replaceHolder (db.getKey c.key).holders h { h with depth := h.depth - 1 }, locked := (db.getKey c.key).locked - 1 }
    [mkReply c RESULT_SUCCED ((db.getKey c.key).locked - 1) (h.depth - 1)]
  rw [getKey_setKey' (n := c.key)]
  · refine ⟨?_, e4, e3⟩
    rw [e1]; simp only [hs, replaceHolder_single]
  · rw [hkey]; exact getKey_key db c.key
  · exact isEmpty_of_locked (by rw [e2]; simp only []; omega)

/-- the unlock at depth 1 is a release: the reply reports nothing outstanding at that instant -/
theorem release_reply (db : DB) (c : Cmd) (h : Hold) (hinv : DBInv db) (hl : db.leader = true)
    (hs : (db.getKey c.key).holders = [h]) (hid : h.cmd.lockId = c.lockId) (hd : h.depth = 1) :
    classifyUnlock db c = .release h c ∧ (opUnlock db c).2.head? = some (mkReply c RESULT_SUCCED 0 0) := by
  have hi := getKey_inv hinv c.key
  obtain ⟨hlk, hpos⟩ := locked_single hi hs
  have hfind : findHolder (db.getKey c.key) c.lockId = some h := by rw [← hid]; exact findHolder_single hs
  have hb : classifyUnlock db c = .release h c := by
    rw [Slock.C02.C02_unlock_decision db c h hl (by omega) hfind]
    have : ¬ h.depth > 1 := by omega
    simp [this]
  refine ⟨hb, ?_⟩
  unfold opUnlock
  rw [hb]
  simp only [applyUnlock]
  obtain ⟨more, hm⟩ := wake_out
    { db with ctr := { db.ctr with unLockCount := db.ctr.unLockCount + h.depth, lockedCount := db.ctr.lockedCount - h.depth } }
    { db.getKey c.key with holders := removeHolder (db.getKey c.key).holders h, locked := (db.getKey c.key).locked - h.depth }
    [mkReply c RESULT_SUCCED ((db.getKey c.key).locked - h.depth) 0]
  rw [hm, hlk]
  simp

/-! ### which LOCK answers can be SUCCED (Event.Wait) -/

/-- A LOCK that asks for no hold (Expried = 0) with Count 0 and Rcount 0 is answered SUCCED only when nothing is
outstanding on the key at that step. -/
theorem nohold_succed_free (db : DB) (c : Cmd) (hinv : DBInv db) (hc : c.count = 0) (hrc : c.rcount = 0) (he : c.expried = 0)
    (r : Reply) (hr : (opLock db c).2.head? = some r) (hres : r.result = RESULT_SUCCED) :
    (db.getKey c.key).locked = 0 := by
  have hi := getKey_inv hinv c.key
  unfold opLock at hr
  cases hb : classifyLock db c with
  | p0a | p0b | stateError | unlockedWaitRefused | timeout | «show» cur | updateEqual h' | relockRefused h' =>
    rw [hb] at hr
    simp only [applyLock, List.head?_cons, Option.some.injEq] at hr
    rw [← hr] at hres
    simp [mkReply, RESULT_SUCCED, RESULT_TIMEOUT, RESULT_STATE_ERROR, RESULT_UNOWN_ERROR, RESULT_LOCKED_ERROR] at hres
  | update h' =>
    rw [hb] at hr
    simp only [applyLock] at hr
    rw [wake_head] at hr
    simp only [Option.some.injEq] at hr
    rw [← hr] at hres
    simp [mkReply, RESULT_SUCCED, RESULT_LOCKED_ERROR] at hres
  | relockNoHold h' =>
    have hm := classifyLock_mem db c h' (by rw [hb]; rfl)
    have := classifyLock_relockNoHold_facts db c h' hb
    have := hi.pos h' hm
    omega
  | relock h' =>
    have hm := classifyLock_mem db c h' (by rw [hb]; rfl)
    have := (classifyLock_relock_facts db c h' hb).2
    have := hi.pos h' hm
    omega
  | grant => have := classifyLock_grant_expried db c hb; omega
  | grantNoHold =>
    have hd := (classifyLock_grantNoHold_facts db c hb).1
    rcases Slock.C01.doLock_sound _ c hd with h0 | ⟨hne, _⟩
    · exact h0
    · exact absurd hc hne
  | queue =>
    rw [hb] at hr
    simp [applyLock] at hr

/-- and a queued one is granted only in a wake iteration that sees nothing outstanding -/
theorem wake_grant_count_zero_free {db : DB} {k : Key} {db' : DB} {k' : Key} {r : Reply}
    (h : wakeIter db k = some (db', k', r)) :
    ∃ w rest, k.waiters = w :: rest ∧ r.req = w.cmd.req ∧ r.conn = w.conn ∧ (w.cmd.count = 0 → k.locked = 0) := by
  obtain ⟨w, rest, e1, _, e3, e4, _⟩ := wakeIter_head h
  refine ⟨w, rest, e1, e3, e4, ?_⟩
  intro hc
  unfold wakeIter at h
  simp only [e1] at h
  by_cases hd : doLock k w.cmd = true
  · rcases Slock.C01.doLock_sound k w.cmd hd with h0 | ⟨hne, _⟩
    · exact h0
    · exact absurd hc hne
  · simp [hd] at h

/-- **Event.Clear (default-set mode).** An update-LOCK (flag = update-when-locked) that asks for a hold and is answered
SUCCED or LOCKED_ERROR leaves the key held. -/
theorem update_lock_holds (db : DB) (c : Cmd) (hinv : DBInv db) (hflag : c.flag = F_UPDATE) (he : c.expried > 0)
    (r : Reply) (hr : (opLock db c).2.head? = some r) (hres : r.result = RESULT_SUCCED ∨ r.result = RESULT_LOCKED_ERROR) :
    ((opLock db c).1.getKey c.key).locked > 0 := by
  have hi := getKey_inv hinv c.key
  have hupd : has c.flag F_UPDATE = true := by rw [hflag]; decide
  unfold opLock at hr ⊢
  cases hb : classifyLock db c with
  | p0a | p0b | stateError | unlockedWaitRefused | timeout | «show» cur =>
    rw [hb] at hr
    simp only [applyLock, List.head?_cons, Option.some.injEq] at hr
    rw [← hr] at hres
    simp [mkReply, RESULT_SUCCED, RESULT_TIMEOUT, RESULT_STATE_ERROR, RESULT_UNOWN_ERROR, RESULT_LOCKED_ERROR] at hres
  | relockNoHold h' => have := classifyLock_relock_noupdate db c h' (Or.inr (Or.inl hb)); rw [this] at hupd; simp at hupd
  | relock h' => have := classifyLock_relock_noupdate db c h' (Or.inl hb); rw [this] at hupd; simp at hupd
  | relockRefused h' => have := classifyLock_relock_noupdate db c h' (Or.inr (Or.inr hb)); rw [this] at hupd; simp at hupd
  | updateEqual h' =>
    have hm := classifyLock_mem db c h' (by rw [hb]; rfl)
    simp only [applyLock]
    have h1 := hi.pos h' hm
    have h2 := hi.depth_le hm
    omega
  | update h' =>
    have hm := classifyLock_mem db c h' (by rw [hb]; rfl)
    have h1 := hi.pos h' hm
    have h2 := hi.depth_le hm
    simp only [applyLock]
    apply wake_store_locked_pos
    · exact getKey_key db c.key
    · simp only []; omega
  | grant =>
    simp only [applyLock]
    obtain ⟨_, _, _, _, hlk, _, _, hkey⟩ := grantHold_holders db (db.getKey c.key) c
    split
    · have hmono := wake_mono (grantHold db (db.getKey c.key) c).1 (grantHold db (db.getKey c.key) c).2
        [mkReply c RESULT_SUCCED (grantHold db (db.getKey c.key) c).2.locked 1]
      have hk2 := wake_key (grantHold db (db.getKey c.key) c).1 (grantHold db (db.getKey c.key) c).2
        [mkReply c RESULT_SUCCED (grantHold db (db.getKey c.key) c).2.locked 1]
      have hpos : 0 < (grantHold db (db.getKey c.key) c).2.locked :=
        Nat.lt_of_lt_of_le (Nat.succ_pos _) (Nat.le_of_eq hlk.symm)
      rw [getKey_setKey' (n := c.key)]
      · exact Nat.lt_of_lt_of_le hpos hmono
      · rw [hk2, hkey]; exact getKey_key db c.key
      · exact isEmpty_of_locked (Nat.ne_of_gt (Nat.lt_of_lt_of_le hpos hmono))
    · have hpos : 0 < (grantHold db (db.getKey c.key) c).2.locked :=
        Nat.lt_of_lt_of_le (Nat.succ_pos _) (Nat.le_of_eq hlk.symm)
      rw [getKey_setKey' (n := c.key)]
      · exact hpos
      · rw [hkey]; exact getKey_key db c.key
      · exact isEmpty_of_locked (Nat.ne_of_gt hpos)
  | grantNoHold => have := (classifyLock_grantNoHold_facts db c hb).2; omega
  | queue =>
    rw [hb] at hr
    simp [applyLock] at hr

/-! ### another LockId while the key is held with Count 0 -/

/-- A plain LOCK with Count 0 by a LockId that holds nothing, on a key with something outstanding, is never granted:
it is queued (Timeout > 0) or answered TIMEOUT. -/
theorem other_refused (db : DB) (c : Cmd) (hl : db.leader = true) (hflag : c.flag = 0) (hcount : c.count = 0)
    (hlocked : (db.getKey c.key).locked > 0) (hnone : findHolder (db.getKey c.key) c.lockId = none) :
    classifyLock db c = if c.timeout > 0 then .queue else .timeout := by
  have hz : ∀ f, has c.flag f = false := by intro f; rw [hflag]; unfold has; simp
  have hd : doLock (db.getKey c.key) c = false := by
    unfold doLock
    have : ((db.getKey c.key).locked == 0) = false := by simp; omega
    simp [this, hcount]
  unfold classifyLock
  simp only [hz, hl, hlocked, hnone, hd, Bool.false_and, Bool.and_false, Bool.not_true, Bool.false_eq_true, if_false, if_true]

theorem opLock_leader (db : DB) (c : Cmd) : (opLock db c).1.leader = db.leader := by
  have := clock_opLock db c
  unfold clock at this
  simp only [Prod.mk.injEq] at this
  exact this.2.2.2

theorem opUnlock_leader (db : DB) (c : Cmd) : (opUnlock db c).1.leader = db.leader := by
  have := clock_opUnlock db c
  unfold clock at this
  simp only [Prod.mk.injEq] at this
  exact this.2.2.2

/-! ### n locks need n unlocks -/

/-- the same LOCK command sent `n` times in a row -/
def lockN (db : DB) (c : Cmd) : Nat → DB
  | 0 => db
  | n + 1 => lockN (opLock db c).1 c n

/-- the same UNLOCK command sent `n` times in a row -/
def unlockN (db : DB) (c : Cmd) : Nat → DB
  | 0 => db
  | n + 1 => unlockN (opUnlock db c).1 c n

/-- `n` further locks by the holder take the hold from depth `d` to depth `d + n` (up to 255) -/
theorem lockN_depth (n : Nat) (db : DB) (c : Cmd) (h : Hold) (hinv : DBInv db) (hl : db.leader = true) (hflag : c.flag = 0)
    (hprio : has c.tflag TF_PRIORITY = false) (hexp : c.expried > 0) (hrc : c.rcount = 0xff)
    (hs : (db.getKey c.key).holders = [h]) (hid : h.cmd.lockId = c.lockId) (hd : h.depth + n ≤ 0xff) (hc0 : c.count = 0) :
    ∃ h', ((lockN db c n).getKey c.key).holders = [h'] ∧ h'.depth = h.depth + n ∧ h'.cmd.lockId = c.lockId ∧
      DBInv (lockN db c n) ∧ (lockN db c n).leader = true := by
  induction n generalizing db h with
  | zero => exact ⟨h, hs, rfl, hid, hinv, hl⟩
  | succ m ih =>
    obtain ⟨h1, e1, e2, e3, _⟩ := relock_state db c h hinv hl hflag hprio hexp hs hid (by omega) (by omega) hc0
    have := ih (opLock db c).1 h1 (opLock_inv db c hinv) (by rw [opLock_leader]; exact hl) e1 (by rw [e3]) (by omega)
    obtain ⟨h', f1, f2, f3, f4, f5⟩ := this
    exact ⟨h', f1, by rw [f2, e2]; omega, f3, f4, f5⟩

/-- `n` unlocks, fewer than the depth, leave the hold in place at depth `d − n`; nobody else got in -/
theorem unlockN_depth (n : Nat) (db : DB) (c : Cmd) (h : Hold) (hinv : DBInv db) (hl : db.leader = true)
    (hprio : has c.tflag TF_PRIORITY = false) (hrc : c.rcount > 0)
    (hs : (db.getKey c.key).holders = [h]) (hid : h.cmd.lockId = c.lockId) (hd : n < h.depth)
    (hw : ∀ w ∈ (db.getKey c.key).waiters, w.cmd.count = 0) :
    ∃ h', ((unlockN db c n).getKey c.key).holders = [h'] ∧ h'.depth = h.depth - n ∧ h'.cmd.lockId = c.lockId ∧
      DBInv (unlockN db c n) ∧ (unlockN db c n).leader = true ∧
      ((unlockN db c n).getKey c.key).waiters = (db.getKey c.key).waiters := by
  induction n generalizing db h with
  | zero => exact ⟨h, hs, rfl, hid, hinv, hl, rfl⟩
  | succ m ih =>
    obtain ⟨e1, e2, _⟩ := dec_state db c h hinv hl hprio hrc hs hid (by omega) hw
    have := ih (opUnlock db c).1 { h with depth := h.depth - 1 } (opUnlock_inv db c hinv) (by rw [opUnlock_leader]; exact hl)
      e1 hid (by simp only []; omega) (by rw [e2]; exact hw)
    obtain ⟨h', f1, f2, f3, f4, f5, f6⟩ := this
    exact ⟨h', f1, by rw [f2]; simp only []; omega, f3, f4, f5, f6.trans e2⟩

end Slock.Engine
