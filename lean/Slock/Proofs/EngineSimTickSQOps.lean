import Slock.Proofs.EngineSimTickSQFresh
/-! Stage 1 (M-ENGINE), wheel sequence numbers: `SQ` is kept by LOCK, UNLOCK and by the four critical sections of the timer sweeps
(`fireTimeout`, `fireExpire`, `rearmWaiter`, `rearmHold`). Every branch is `SQ.store` / `SQ.wake_store` of a composed `Fresh`. -/
namespace Slock.SimTick
open Slock Slock.Engine

theorem opLock_sq (db : DB) (c : Cmd) (hk : KN db) (h : SQ db) : SQ (opLock db c).1 := by
  have _ := hk
  unfold opLock
  have hkk := getKey_key db c.key
  cases hb : classifyLock db c with
  | p0a | p0b | stateError | unlockedWaitRefused | timeout => exact h
  | «show» cur | updateEqual h' | relockNoHold h' | relockRefused h' => exact h
  | update h' =>
    simp only [applyLock]
    exact SQ.wake_store _ h (fresh_updateHold db _ _ h' h' _ rfl rfl rfl) hkk (updateHold_db_keys _ _ _)
  | relock h' =>
    simp only [applyLock]
    exact SQ.wake_store (db1 := { (updateHold db { h' with depth := h'.depth + 1 } c).1 with ctr := _ }) _ h
      (fresh_updateHold db _ _ h' { h' with depth := h'.depth + 1 } c rfl rfl rfl) hkk (by simp [updateHold_db_keys])
  | grant =>
    simp only [applyLock]
    split
    · exact SQ.wake_store _ h (fresh_grantHold db _ c) (by rw [grantHold_key, hkk]) (grantHold_db_keys _ _ _)
    · exact SQ.store h (fresh_grantHold db _ c) (by rw [grantHold_key, hkk]) (grantHold_db_keys db (db.getKey c.key) c)
  | grantNoHold =>
    simp only [applyLock]
    split
    · exact SQ.wake_store (db1 := { db with ctr := _ }) _ h (Fresh.refl _ _) hkk rfl
    · exact SQ.store (db1 := { db with ctr := _ }) h (Fresh.refl _ _) hkk rfl
  | queue =>
    simp only [applyLock]
    exact SQ.store (db1 := { db with seq := db.seq + 1, ctr := _ }) h
      (fresh_insertWaiter _ _ (newWaiter db c) (seqW_newWaiter db c) rfl rfl) hkk rfl

theorem opUnlock_sq (db : DB) (c : Cmd) (hk : KN db) (h : SQ db) : SQ (opUnlock db c).1 := by
  have _ := hk
  unfold opUnlock
  have hkk := getKey_key db c.key
  cases hb : classifyUnlock db c with
  | stateError | notLocked | unown | cancelNone => exact h.of_keys_eq rfl (Nat.le_refl _)
  | cancel w =>
    simp only [applyUnlock]
    exact SQ.wake_store (db1 := { db with ctr := _ }) _ h
      (Fresh.of_sublist (removeWaiter_sublist _ _) (List.Sublist.refl _)) hkk rfl
  | dec h' c' =>
    simp only [applyUnlock]
    exact SQ.wake_store (db1 := { db with ctr := _ }) _ h
      (fresh_replace_same _ _ h' { h' with depth := h'.depth - 1 } rfl rfl rfl) hkk rfl
  | release h' c' =>
    simp only [applyUnlock]
    exact SQ.wake_store (db1 := { db with ctr := _ }) _ h
      (Fresh.of_sublist (List.Sublist.refl _) (removeHolder_sublist _ _)) hkk rfl

theorem fireTimeout_sq (db : DB) (key : Nat) (w : Waiter) (hk : KN db) (h : SQ db) : SQ (fireTimeout db key w).1 := by
  have _ := hk
  unfold fireTimeout
  exact SQ.wake_store (db1 := { db with ctr := _ }) _ h
    (Fresh.of_sublist (removeWaiter_sublist _ _) (List.Sublist.refl _)) (getKey_key db key) rfl

theorem fireExpire_sq (db : DB) (key : Nat) (x : Hold) (hk : KN db) (h : SQ db) : SQ (fireExpire db key x).1 := by
  have _ := hk
  unfold fireExpire
  exact SQ.wake_store (db1 := { db with ctr := _ }) _ h
    (Fresh.of_sublist (List.Sublist.refl _) (removeHolder_sublist _ _)) (getKey_key db key) rfl

/-! ### re-arming -/

theorem map_eq_self_of {α : Type} (f : α → α) (l : List α) (h : ∀ a ∈ l, f a = a) : l.map f = l := by
  induction l with
  | nil => rfl
  | cons a as ih =>
    rw [List.map_cons, h a List.mem_cons_self, ih (fun b hb => h b (List.mem_cons_of_mem _ hb))]

/-- `updateWaiter`'s map, when at most one queued request bears the (RequestId, connection) pair -/
theorem mapWaiter_freshL {s : Nat} (ws : List Waiter) (w w' : Waiter) (e : seqW w' = s) (hu : (ws.map rcW).Nodup) :
    FreshL s (s + 1) (ws.map seqW)
      ((ws.map (fun x => if x.cmd.req == w.cmd.req && x.conn == w.conn then w' else x)).map seqW) := by
  induction ws with
  | nil => exact FreshL.refl _ _ _
  | cons x xs ih =>
    rw [List.map_cons, List.nodup_cons] at hu
    have ih := ih hu.2
    simp only [List.map_cons]
    by_cases hp : (x.cmd.req == w.cmd.req && x.conn == w.conn) = true
    · -- no other request matches
      have hx : rcW x = rcW w := by
        simp only [Bool.and_eq_true, beq_iff_eq] at hp
        unfold rcW; rw [hp.1, hp.2]
      have hrest : xs.map (fun y => if y.cmd.req == w.cmd.req && y.conn == w.conn then w' else y) = xs := by
        apply map_eq_self_of
        intro y hy
        have : ¬ ((y.cmd.req == w.cmd.req && y.conn == w.conn) = true) := by
          intro hq
          simp only [Bool.and_eq_true, beq_iff_eq] at hq
          apply hu.1
          rw [hx]
          refine List.mem_map.mpr ⟨y, hy, ?_⟩
          unfold rcW; rw [hq.1, hq.2]
        exact if_neg this
      rw [hrest, if_pos hp]
      refine ⟨?_, ?_⟩
      · intro a ha
        rcases List.mem_cons.mp ha with h1 | h1
        · exact Or.inr ⟨by omega, by omega⟩
        · exact Or.inl (List.mem_cons_of_mem _ h1)
      · intro hn hlt
        rw [List.nodup_cons] at hn
        rw [List.nodup_cons]
        refine ⟨fun hm => ?_, hn.2⟩
        have := hlt (seqW w') (List.mem_cons_of_mem _ hm); omega
    · rw [if_neg hp]
      refine ⟨?_, ?_⟩
      · intro a ha
        rcases List.mem_cons.mp ha with h1 | h1
        · exact Or.inl (by rw [h1]; exact List.mem_cons_self)
        · rcases ih.mem a h1 with h2 | h2
          · exact Or.inl (List.mem_cons_of_mem _ h2)
          · exact Or.inr h2
      · intro hn hlt
        rw [List.nodup_cons] at hn
        have hlt' : ∀ a ∈ xs.map seqW, a < s := fun a ha => hlt a (List.mem_cons_of_mem _ ha)
        rw [List.nodup_cons]
        refine ⟨fun hm => ?_, ih.nd hn.2 hlt'⟩
        rcases ih.mem _ hm with h2 | h2
        · exact hn.1 h2
        · have := hlt (seqW x) List.mem_cons_self; omega

theorem rearmWaiter_sq (db : DB) (w : Waiter) (hk : KN db) (hu : Engine.WU db) (h : SQ db) : SQ (rearmWaiter db w) := by
  have _ := hk
  rw [rearmWaiter_eq]
  unfold updateWaiter
  refine SQ.store (db := db) (db1 := { db with seq := db.seq + 1 }) (m := w.cmd.key) h ?_ (getKey_key db _) rfl
  exact ⟨Nat.le_succ _, mapWaiter_freshL _ w _ (seqW_rearmed db w) (getKey_wu hu _), FreshL.refl _ _ _⟩

theorem rearmHold_sq (db : DB) (x : Hold) (hk : KN db) (h : SQ db) : SQ (rearmHold db x) := by
  have _ := hk
  rw [rearmHold_eq]
  unfold updateHoldIn
  refine SQ.store (db := db) (db1 := { db with seq := db.seq + 1 }) (m := x.cmd.key) h ?_ (getKey_key db _) rfl
  exact ⟨Nat.le_succ _, FreshL.refl _ _ _, replaceHolder_freshL _ _ _ (seqH_rearmedH db x)⟩

end Slock.SimTick
