import Slock.Model.Aof
import Slock.Gen.Kernels
/-!
G3 tie for the journal ↔ deadline conversions (C07, C16): `Aof.GetLockCommandExpriedTime` and `Aof.GetAofLockExpriedTime` are
REGENERATED from /repo's source on every run (`Slock.Gen.K.getLockCommandExpriedTime`, `K.getAofLockExpriedTime`: Go's truncating
signed division, two's-complement narrowing to uint16 and wrapping uint16 arithmetic translated literally) and proved equal to
`loadRemaining` / `writeRemaining`, the functions the C07 deadline theorems and the C16 keep rule are stated over.
-/
namespace Slock.Aof
open Slock.Gen

theorem tdiv60 (x : Int) (h : 0 ≤ x) : Int.tdiv x 60 = x / 60 := Int.tdiv_eq_ediv_of_nonneg h
theorem tmod60 (x : Int) (h : 0 ≤ x) : Int.tmod x 60 = x % 60 := by
  rw [Int.tmod_eq_emod_of_nonneg h]

theorem sub_wrap (e x : Nat) (he : e < 65536) (hx : x < e) : ((e + 65536) - x) % 65536 = e - x := by omega

theorem u16_lt (x : Int) : u16 x < 65536 := by
  unfold u16; omega

theorem loadRemaining_generated (ef e : Nat) (ct now : Int) (he : e < 65536) :
    K.getLockCommandExpriedTime ef e ct now = loadRemaining ef e ct now := by
  unfold K.getLockCommandExpriedTime loadRemaining EXPRIED_FLAG_UNLIMITED_EXPRIED_TIME EXPRIED_FLAG_MILLISECOND_TIME EXPRIED_FLAG_MINUTE_TIME
  by_cases hu : ef &&& 16384 = 0
  · by_cases hms : ef &&& 1024 = 0
    · by_cases hm : ef &&& 64 = 0
      · -- seconds
        simp only [hu, hms, hm, bne_self_eq_false, Bool.false_eq_true, if_false, ne_eq, not_true_eq_false]
        by_cases h0 : e > 0
        · by_cases hel : now - ct ≥ 0
          · have hu16 : (now - ct) % 65536 ≥ 0 := by omega
            by_cases hgt : e > u16 (now - ct)
            · have hgt' : e > ((now - ct) % 65536).toNat := hgt
              simp only [h0, hel, hgt', decide_true, if_true, hgt]
              exact sub_wrap e _ he hgt'
            · have hgt' : ¬ e > ((now - ct) % 65536).toNat := hgt
              simp [h0, hel, hgt', hgt]
          · have hel' : ¬ ct ≤ now := by omega
            simp [h0, hel']
        · simp [h0]
      · -- minutes
        have hm' : (ef &&& 64 != 0) = true := by simpa using hm
        simp only [hu, hms, hm, hm', bne_self_eq_false, Bool.false_eq_true, if_false, if_true, ne_eq, not_true_eq_false, not_false_eq_true]
        by_cases hel : now - ct ≥ 0
        · have h1 := tdiv60 (now - ct) hel
          have h2 := tmod60 (now - ct) hel
          simp only [hel, decide_true, if_true, h1, h2]
          by_cases hc : now - ct < 60 ∨ (now - ct) % 60 ≠ 0
          · have hc' : (decide (now - ct < 60) || ((now - ct) % 60 != 0)) = true := by
              rcases hc with h | h
              · simp [h]
              · simp [h]
            simp only [hc', if_true, hc]
            by_cases hgt : e > u16 ((now - ct) / 60 + 1)
            · have hgt' : e > (((now - ct) / 60 + 1) % 65536).toNat := hgt
              simp only [hgt', decide_true, if_true, hgt]
              exact sub_wrap e _ he hgt'
            · have hgt' : ¬ e > (((now - ct) / 60 + 1) % 65536).toNat := hgt
              simp [hgt', hgt]
          · have hc' : (decide (now - ct < 60) || ((now - ct) % 60 != 0)) = false := by
              have a : ¬ now - ct < 60 := fun h => hc (Or.inl h)
              have b : ¬ (now - ct) % 60 ≠ 0 := fun h => hc (Or.inr h)
              have b' : (now - ct) % 60 = 0 := by omega
              simp [a, b']
            simp only [hc', Bool.false_eq_true, if_false, hc]
            by_cases hgt : e > u16 ((now - ct) / 60)
            · have hgt' : e > (((now - ct) / 60) % 65536).toNat := hgt
              simp only [hgt', decide_true, if_true, hgt]
              exact sub_wrap e _ he hgt'
            · have hgt' : ¬ e > (((now - ct) / 60) % 65536).toNat := hgt
              simp [hgt', hgt]
        · have hel' : ¬ ct ≤ now := by omega
          simp [hel']
    · have : (ef &&& 1024 != 0) = true := by simpa using hms
      simp [hu, hms, this]
  · have : (ef &&& 16384 != 0) = true := by simpa using hu
    simp [hu, this]

/-- `GetAofLockExpriedTime`: `dl` is the hold's deadline field (`lock.expriedTime`; 0x7fff…ffff for an unlimited hold, which the
model writes as `none`). -/
theorem writeRemaining_generated (ef e : Nat) (d : Option Int) (ct : Int) :
    K.getAofLockExpriedTime ef e (d.getD 0x7fffffffffffffff) ct = writeRemaining ef e d ct := by
  unfold K.getAofLockExpriedTime writeRemaining EXPRIED_FLAG_UNLIMITED_EXPRIED_TIME EXPRIED_FLAG_MILLISECOND_TIME EXPRIED_FLAG_MINUTE_TIME u16
  generalize d.getD 0x7fffffffffffffff = dl
  by_cases hu : ef &&& 16384 = 0
  · by_cases hms : ef &&& 1024 = 0
    · by_cases hm : ef &&& 64 = 0
      · -- seconds
        simp only [hu, hms, hm, bne_self_eq_false, Bool.false_eq_true, if_false, ne_eq, not_true_eq_false]
        by_cases hd : dl > 0
        · by_cases hs : dl - ct > 0
          · by_cases hb : dl - ct > 65535
            · simp [hd, hs, hb]
            · simp [hd, hs, hb]
          · simp [hd, hs]
        · simp [hd]
      · -- minutes
        have hm' : (ef &&& 64 != 0) = true := by simpa using hm
        simp only [hu, hms, hm, hm', bne_self_eq_false, Bool.false_eq_true, if_false, if_true, ne_eq, not_true_eq_false, not_false_eq_true]
        by_cases hs : dl - ct > 0
        · have hnn : 0 ≤ dl - ct := by omega
          have h1 := tdiv60 (dl - ct) hnn
          have h2 := tmod60 (dl - ct) hnn
          simp only [h1, h2]
          by_cases ha : dl - ct ≥ 60 ∧ (dl - ct) % 60 = 0
          · have ha' : (decide (dl - ct ≥ 60) && ((dl - ct) % 60 == 0)) = true := by simp [ha.1, ha.2]
            simp [ha.1, ha.2]
          · have ha' : (decide (dl - ct ≥ 60) && ((dl - ct) % 60 == 0)) = false := by
              by_cases x : dl - ct ≥ 60
              · have : ¬ (dl - ct) % 60 = 0 := fun y => ha ⟨x, y⟩
                simp [x, this]
              · simp [x]
            simp only [ha', Bool.false_eq_true, if_false, ha]
            by_cases hb : (dl - ct) / 60 ≥ 65535
            · simp [hs, hb]
            · simp [hs, hb]
        · have hnn : ¬ (dl - ct ≥ 60 ∧ (dl - ct) % 60 = 0) := fun h => hs (by omega)
          have ha' : (decide (dl - ct ≥ 60) && ((dl - ct).tmod 60 == 0)) = false := by
            have : ¬ dl - ct ≥ 60 := by omega
            simp [this]
          simp only [ha', Bool.false_eq_true, if_false, hnn, hs]
          simp
    · have : (ef &&& 1024 != 0) = true := by simpa using hms
      simp [hu, hms, this]
  · have : (ef &&& 16384 != 0) = true := by simpa using hu
    simp [hu, this]

end Slock.Aof
