import Slock.Proofs.EngineProv
/-!
C05 not-late, global: in reachable states every queued request is scheduled for a second that is still ahead
(`now + 1 ≤ visit`). The sweep of second `c` processes everything scheduled for `c`: a visited slot entry is re-armed to a
later second or collected as due; every collected entry (and every long-table entry of `c`) is found by `fireTimeoutStep`
and removed. Needs: queued ids pairwise distinct (from the conservation law under "RequestIds are connection-unique"),
and that a queued request sits under the key its command names.
-/
namespace Slock.Engine

/-- a queued request sits under the key its command names -/
def KW (db : DB) : Prop := ∀ n w, WaitAt db n w → w.cmd.key = n

/-- queued ids are pairwise distinct -/
def QU (db : DB) : Prop := ∀ x : Rid, queued x db.keys ≤ 1

/-- every queued request is scheduled for a second still ahead -/
def WLB (db : DB) : Prop := ∀ n w, WaitAt db n w → db.now + 1 ≤ w.sched.visit

theorem KW.of_sub {db db' : DB} (h : KW db) (hs : ∀ n w, WaitAt db' n w → WaitAt db n w) : KW db' :=
  fun n w hw => h n w (hs n w hw)

theorem KW.init (now : Nat) : KW (DB.init now) := by
  intro n w hw; obtain ⟨k, hk, _⟩ := hw; simp [DB.init] at hk

theorem opLock_KW (db : DB) (c : Cmd) (h : KW db) : KW (opLock db c).1 := by
  intro n w hw
  rcases opLock_waitAt db c hw with h1 | ⟨hn, _, h1⟩
  · exact h n w h1
  · rw [h1, hn]; rfl

theorem opUnlock_KW (db : DB) (c : Cmd) (h : KW db) : KW (opUnlock db c).1 :=
  h.of_sub (fun _ _ hw => opUnlock_waitAt db c hw)

theorem fireTimeout_waitAt_sub {db : DB} {key : Nat} {w0 : Waiter} {n : Nat} {w : Waiter}
    (h : WaitAt (fireTimeout db key w0).1 n w) : WaitAt db n w := by
  rcases fireTimeout_waitAt h with ⟨_, h1⟩ | ⟨hn, h1⟩
  · exact h1
  · exact hn ▸ waitAt_getKey (mem_removeWaiter h1)

theorem rearmWaiter_KW (db : DB) (w0 : Waiter) (h : KW db) : KW (rearmWaiter db w0) := by
  intro n w hw
  rcases rearmWaiter_waitAt hw with ⟨_, h1⟩ | ⟨hn, ⟨h1, _⟩ | h1⟩
  · exact h n w h1
  · exact h n w (waitAt_getKey h1)
  · rw [h1, hn]; rfl

/-! ### membership in the firing-order sort -/

theorem mem_insertBySeq {α} (seqOf : α → Nat) (x y : α) (acc : List α) : x ∈ insertBySeq seqOf y acc ↔ x = y ∨ x ∈ acc := by
  induction acc with
  | nil => simp [insertBySeq]
  | cons z zs ih =>
    unfold insertBySeq
    split
    · simp
    · simp only [List.mem_cons, ih]
      constructor
      · rintro (h | h | h)
        · exact Or.inr (Or.inl h)
        · exact Or.inl h
        · exact Or.inr (Or.inr h)
      · rintro (h | h | h)
        · exact Or.inr (Or.inl h)
        · exact Or.inl h
        · exact Or.inr (Or.inr h)

theorem mem_sortBySeq_iff {α} (seqOf : α → Nat) (l : List α) (x : α) : x ∈ sortBySeq seqOf l ↔ x ∈ l := by
  unfold sortBySeq
  have gen : ∀ (l acc : List α), x ∈ l.foldl (fun acc y => insertBySeq seqOf y acc) acc ↔ x ∈ l ∨ x ∈ acc := by
    intro l
    induction l with
    | nil => intro acc; simp
    | cons y ys ih =>
      intro acc
      simp only [List.foldl_cons, ih, mem_insertBySeq, List.mem_cons]
      constructor
      · rintro (h | h | h)
        · exact Or.inl (Or.inr h)
        · exact Or.inl (Or.inl h)
        · exact Or.inr h
      · rintro ((h | h) | h)
        · exact Or.inr (Or.inl h)
        · exact Or.inl h
        · exact Or.inr (Or.inr h)
  rw [gen]; simp

/-! ### counting ids -/

theorem answered_nonneg' (x : Rid) (out : List Reply) : 0 ≤ answered x out := by unfold answered; omega
theorem queuedIn_nonneg' (x : Rid) (k : Key) : 0 ≤ queuedIn x k := by unfold queuedIn; omega

theorem queued_cons (x : Rid) (k : Key) (ks : List Key) : queued x (k :: ks) = queuedIn x k + queued x ks := by
  simp [queued]

theorem queued_nonneg' (x : Rid) (ks : List Key) : 0 ≤ queued x ks := by
  induction ks with
  | nil => simp [queued]
  | cons k ks ih => rw [queued_cons]; have := queuedIn_nonneg' x k; omega

theorem queuedIn_le_queued (x : Rid) (ks : List Key) (k : Key) (hk : k ∈ ks) : queuedIn x k ≤ queued x ks := by
  induction ks with
  | nil => simp at hk
  | cons y ys ih =>
    rw [queued_cons]
    rcases List.mem_cons.mp hk with h1 | h1
    · rw [h1]; have := queued_nonneg' x ys; omega
    · have := ih h1; have := queuedIn_nonneg' x y; omega

/-- a queued request's id is counted -/
theorem queued_pos_of_waitAt {db : DB} {n : Nat} {w : Waiter} (h : WaitAt db n w) : 1 ≤ queued w.rid db.keys := by
  obtain ⟨k, hk, _, hw⟩ := h
  have h1 := queuedIn_le_queued w.rid db.keys k hk
  have h2 : 1 ≤ queuedIn w.rid k := by
    unfold queuedIn
    have : w.rid ∈ k.waiters.map Waiter.rid := List.mem_map.mpr ⟨w, hw, rfl⟩
    have := List.count_pos_iff.mpr this
    omega
  omega

/-! ### the sweep of second `c` -/

/-- what is kept all through the timeout sweep of second `c` -/
structure TMid (c : Nat) (d : DB) : Prop where
  now : d.now = c
  tc : d.tCheck = c + 1
  kn : KN d
  kw : KW d
  qu : QU d

/-- every queued request is already scheduled past `c`, or is still to be processed (listed in `P`) -/
def GoodW (c : Nat) (d : DB) (P : List Waiter) : Prop := ∀ n w, WaitAt d n w → c + 1 ≤ w.sched.visit ∨ w ∈ P

theorem rearmWaiter_TMid {c : Nat} {d : DB} (w : Waiter) (h : TMid c d) : TMid c (rearmWaiter d w) := by
  refine ⟨h.now, h.tc, (rearmWaiter_qAt (0, 0) _ d w ⟨h.kn, rfl⟩).1, rearmWaiter_KW d w h.kw, ?_⟩
  intro x
  have := (rearmWaiter_qAt x _ d w ⟨h.kn, rfl⟩).2
  rw [this]; exact h.qu x

theorem wake_answered_ge (x : Rid) (db : DB) (k : Key) (out : List Reply) : answered x out ≤ answered x (wake db k out).2.2 := by
  obtain ⟨more, hm⟩ := wake_out db k out
  rw [hm, answered_append]
  have := answered_nonneg' x more
  omega

/-- `doTimeOut` answers the request it fires (and, since the C04 fix, possibly grants others in its wake pass) -/
theorem fireTimeout_answered_ge (db : DB) (key : Nat) (w : Waiter) : 1 ≤ answered w.rid (fireTimeout db key w).2 := by
  unfold fireTimeout
  simp only []
  refine Int.le_trans ?_ (wake_answered_ge _ _ _ _)
  rw [answered_mk w.rid _ _ _ _ (by decide)]
  have e : ((({ w.cmd with conn := w.conn } : Cmd).conn), ({ w.cmd with conn := w.conn } : Cmd).req) = w.rid := rfl
  rw [e]; simp [hit]

theorem fireTimeout_TMid {c : Nat} {d : DB} (key : Nat) (w : Waiter) (hm : w ∈ (d.getKey key).waiters) (h : TMid c d) :
    TMid c (fireTimeout d key w).1 := by
  have hc := clock_fields (clock_fireTimeout d key w)
  refine ⟨by rw [hc.1]; exact h.now, by rw [hc.2.1]; exact h.tc, KN_fireTimeout _ _ _ h.kn,
    h.kw.of_sub (fun _ _ hw => fireTimeout_waitAt_sub hw), ?_⟩
  intro x
  have h1 := fireTimeout_cons x d key w hm h.kn
  have h2 := answered_nonneg' x (fireTimeout d key w).2
  have h3 := h.qu x
  omega

theorem timeoutStep_good (c : Nat) (L : List Waiter) (w : Waiter) (rest : List Waiter) (acc : DB × List Waiter)
    (h1 : TMid c acc.1) (h2 : GoodW c acc.1 ((w :: rest) ++ acc.2 ++ L)) :
    TMid c (timeoutStep acc w).1 ∧ GoodW c (timeoutStep acc w).1 (rest ++ (timeoutStep acc w).2 ++ L) := by
  unfold timeoutStep
  split
  · rename_i hd
    refine ⟨rearmWaiter_TMid w h1, ?_⟩
    dsimp only
    intro n x hx
    have old : WaitAt acc.1 n x → x ≠ w → c + 1 ≤ x.sched.visit ∨ x ∈ rest ++ acc.2 ++ L := by
      intro hx' hne
      rcases h2 n x hx' with h3 | h3
      · exact Or.inl h3
      · simp only [List.mem_append, List.mem_cons] at h3 ⊢
        rcases h3 with ((h3 | h3) | h3) | h3
        · exact absurd h3 hne
        · exact Or.inr (Or.inl (Or.inl h3))
        · exact Or.inr (Or.inl (Or.inr h3))
        · exact Or.inr (Or.inr h3)
    rcases rearmWaiter_waitAt hx with ⟨hn, h3⟩ | ⟨hn, ⟨h3, h4⟩ | h3⟩
    · apply old h3
      intro e
      apply hn
      rw [← e]; exact (h1.kw n x h3).symm
    · apply old (waitAt_getKey h3)
      intro e
      rw [e] at h4; simp at h4
    · left
      have := (rearmed_ok acc.1 w (by rw [h1.tc, h1.now]) hd).2.2
      rw [h3]; rw [h1.now] at this; exact this
  · refine ⟨h1, ?_⟩
    dsimp only
    intro n x hx
    rcases h2 n x hx with h3 | h3
    · exact Or.inl h3
    · right
      simp only [List.mem_append, List.mem_cons, List.not_mem_nil, or_false] at h3 ⊢
      rcases h3 with ((h3 | h3) | h3) | h3
      · exact Or.inl (Or.inr (Or.inr h3))
      · exact Or.inl (Or.inl h3)
      · exact Or.inl (Or.inr (Or.inl h3))
      · exact Or.inr h3

theorem timeoutPass1_good (c : Nat) (L : List Waiter) :
    ∀ (l : List Waiter) (acc : DB × List Waiter), TMid c acc.1 → GoodW c acc.1 (l ++ acc.2 ++ L) →
      TMid c (l.foldl timeoutStep acc).1 ∧ GoodW c (l.foldl timeoutStep acc).1 ((l.foldl timeoutStep acc).2 ++ L) := by
  intro l
  induction l with
  | nil => intro acc h1 h2; exact ⟨h1, by simpa using h2⟩
  | cons w rest ih =>
    intro acc h1 h2
    simp only [List.foldl_cons]
    have := timeoutStep_good c L w rest acc h1 h2
    exact ih _ this.1 this.2

theorem fireTimeoutStep_good (c : Nat) (w : Waiter) (rest : List Waiter) (acc : DB × List Reply)
    (h1 : TMid c acc.1) (h2 : GoodW c acc.1 (w :: rest)) :
    TMid c (fireTimeoutStep acc w).1 ∧ GoodW c (fireTimeoutStep acc w).1 rest := by
  unfold fireTimeoutStep
  split
  · rename_i w' hf
    have hm := List.mem_of_find?_eq_some hf
    have hmatch : (w'.cmd.req == w.cmd.req && w'.conn == w.conn) = true := by
      have := List.find?_some hf; simpa using this
    have hrid : w'.rid = w.rid := by
      simp only [Bool.and_eq_true, beq_iff_eq] at hmatch
      unfold Waiter.rid; rw [hmatch.1, hmatch.2]
    refine ⟨fireTimeout_TMid _ _ hm h1, ?_⟩
    dsimp only
    intro n x hx
    rcases h2 n x (fireTimeout_waitAt_sub hx) with h3 | h3
    · exact Or.inl h3
    · rcases List.mem_cons.mp h3 with h3 | h3
      · -- the fired request itself cannot still be queued: its id count has dropped to zero
        exfalso
        rw [h3] at hx
        have hp := queued_pos_of_waitAt hx
        have hc := fireTimeout_cons w.rid acc.1 w.cmd.key w' hm h1.kn
        have ha : 1 ≤ answered w.rid (fireTimeout acc.1 w.cmd.key w').2 := by
          rw [← hrid]; exact fireTimeout_answered_ge _ _ _
        have := h1.qu w.rid
        omega
      · exact Or.inr h3
  · rename_i hf
    refine ⟨h1, ?_⟩
    intro n x hx
    rcases h2 n x hx with h3 | h3
    · exact Or.inl h3
    · rcases List.mem_cons.mp h3 with h3 | h3
      · exfalso
        rw [h3] at hx
        have hk := h1.kw n w hx
        have hm : w ∈ (acc.1.getKey w.cmd.key).waiters := by rw [hk]; exact hx.getKey h1.kn
        have := List.find?_eq_none.mp hf w hm
        simp at this
      · exact Or.inr h3

theorem timeoutPass2_good (c : Nat) :
    ∀ (l : List Waiter) (acc : DB × List Reply), TMid c acc.1 → GoodW c acc.1 l →
      TMid c (l.foldl fireTimeoutStep acc).1 ∧ GoodW c (l.foldl fireTimeoutStep acc).1 [] := by
  intro l
  induction l with
  | nil => intro acc h1 h2; exact ⟨h1, h2⟩
  | cons w rest ih =>
    intro acc h1 h2
    simp only [List.foldl_cons]
    have := fireTimeoutStep_good c w rest acc h1 h2
    exact ih _ this.1 this.2

/-- **The sweep of second `c` leaves nothing scheduled for `c` or earlier.** -/
theorem sweepTimeout_good (c : Nat) (db : DB) (h : TMid c db) (hlb : ∀ n w, WaitAt db n w → c ≤ w.sched.visit) :
    TMid c (sweepTimeout db c).1 ∧ ∀ n w, WaitAt (sweepTimeout db c).1 n w → c + 1 ≤ w.sched.visit := by
  unfold sweepTimeout timeoutPass1
  simp only []
  have g0 : GoodW c db (slotWaiters db c ++ ([] : List Waiter) ++ longWaiters db c) := by
    intro n w hw
    have h1 := hlb n w hw
    by_cases hv : w.sched.visit = c
    · right
      have hall : w ∈ allWaiters db := hw.allW
      simp only [List.append_nil, List.mem_append]
      cases hl : w.sched.long with
      | false =>
        left; unfold slotWaiters
        rw [mem_sortBySeq_iff]
        exact List.mem_filter.mpr ⟨hall, by simp [hv, hl]⟩
      | true =>
        right; unfold longWaiters
        rw [mem_sortBySeq_iff]
        exact List.mem_filter.mpr ⟨hall, by simp [hv, hl]⟩
    · left; omega
  have p1 := timeoutPass1_good c (longWaiters db c) (slotWaiters db c) (db, []) h g0
  have p2 := timeoutPass2_good c _ (((slotWaiters db c).foldl timeoutStep (db, [])).1, []) p1.1 p1.2
  refine ⟨p2.1, ?_⟩
  intro n w hw
  rcases p2.2 n w hw with h1 | h1
  · exact h1
  · simp at h1

/-! ### the expiry sweep only removes queued requests -/

theorem foldl_waitAt_sub {α β} (f : DB × β → α → DB × β)
    (hf : ∀ acc a n w, WaitAt (f acc a).1 n w → WaitAt acc.1 n w) (l : List α) (acc : DB × β) :
    ∀ n w, WaitAt (l.foldl f acc).1 n w → WaitAt acc.1 n w := by
  induction l generalizing acc with
  | nil => intro n w h; exact h
  | cons a as ih =>
    intro n w h
    simp only [List.foldl_cons] at h
    exact hf acc a n w (ih _ n w h)

theorem sweepExpire_waitAt_sub (db : DB) (c : Nat) : ∀ n w, WaitAt (sweepExpire db c).1 n w → WaitAt db n w := by
  unfold sweepExpire expirePass1
  intro n w hw
  have h1 := foldl_waitAt_sub fireExpireStep (fun acc a n w hw => by
    unfold fireExpireStep at hw
    split at hw
    · exact fireExpire_waitAt hw
    · exact hw) _ _ n w hw
  exact foldl_waitAt_sub expireStep (fun acc a n w hw => by
    unfold expireStep at hw
    split at hw
    · exact rearmHold_waitAt hw
    · exact hw) _ _ n w h1

theorem clock_sweepExpire (db : DB) (c : Nat) : clock (sweepExpire db c).1 = clock db := by
  unfold sweepExpire expirePass1
  rw [clock_foldl _ (fun acc a => by unfold fireExpireStep; split; exact clock_fireExpire _ _ _; rfl)]
  exact clock_foldl _ (fun acc a => by unfold expireStep; split <;> rfl) _ _

/-- one second of server time keeps "scheduled ahead" and key consistency, given distinct queued ids -/
theorem opTick_WLB (db : DB) (hk : KN db) (hq : QU db) (hw : KW db) (hl : WLB db) :
    WLB (opTick db).1 ∧ KW (opTick db).1 ∧ (opTick db).1.now = db.now + 1 := by
  have h0 : TMid (db.now + 1) { db with now := db.now + 1, tCheck := db.now + 1 + 1 } :=
    ⟨rfl, rfl, hk.of_keys_eq rfl, hw.of_sub (fun _ _ h => h.of_keys_eq rfl), hq⟩
  have hs := sweepTimeout_good (db.now + 1) _ h0 (fun n w h => hl n w (h.of_keys_eq rfl))
  have hnow : (opTick db).1.now = db.now + 1 := by
    unfold opTick
    simp only []
    have := (clock_fields (clock_sweepExpire
      { (sweepTimeout { db with now := db.now + 1, tCheck := db.now + 1 + 1 } (db.now + 1)).1 with eCheck := db.now + 1 + 1 } (db.now + 1))).1
    rw [this]
    exact hs.1.now
  have hsub : ∀ n w, WaitAt (opTick db).1 n w →
      WaitAt (sweepTimeout { db with now := db.now + 1, tCheck := db.now + 1 + 1 } (db.now + 1)).1 n w := by
    intro n w h
    unfold opTick at h
    simp only [] at h
    exact (sweepExpire_waitAt_sub _ _ n w h).of_keys_eq rfl
  refine ⟨?_, hs.1.kw.of_sub hsub, hnow⟩
  intro n w h
  rw [hnow]
  exact hs.2 n w (hsub n w h)

theorem opLock_WLB (db : DB) (c : Cmd) (ht : db.tCheck = db.now + 1) (hl : WLB db) : WLB (opLock db c).1 := by
  have hc := clock_fields (clock_opLock db c)
  intro n w hw
  rw [hc.1]
  rcases opLock_waitAt db c hw with h1 | ⟨_, _, h1⟩
  · exact hl n w h1
  · rw [h1]
    have := wheelAdd_spec db.tCheck db.seq (timeoutDeadline db.now c) 1 (by rw [ht]; exact timeoutDeadline_gt _ _)
    unfold newWaiter
    simp only []
    rw [← ht]; exact this.2.1

theorem opUnlock_WLB (db : DB) (c : Cmd) (hl : WLB db) : WLB (opUnlock db c).1 := by
  have hc := clock_fields (clock_opUnlock db c)
  intro n w hw
  rw [hc.1]
  exact hl n w (opUnlock_waitAt db c hw)

end Slock.Engine
