import Slock.Proofs.Engine2Fr
/-! Stage-2 engine: what a whole LOCK / UNLOCK does to replies, value cell, journal — per branch. -/
namespace Slock.Engine2
open Slock.Value (Cell getLockData)
open Slock.Engine (has mkReply)

theorem enter_k (db : DB) (n : Nat) : (db.enter n).k = db.getKey n := (openKey_create db n).1
theorem enter_gone (db : DB) (n : Nat) : (db.enter n).gone = false := (openKey_create db n).2.1
theorem enter_db (db : DB) (n : Nat) : (db.enter n).db = db.create n := (openKey_create db n).2.2.1
theorem enter_out (db : DB) (n : Nat) : (db.enter n).out = [] := (openKey_create db n).2.2.2
theorem enter_lockData (db : DB) (n : Nat) : (db.enter n).lockData = getLockData (db.getKey n).cell := by
  unfold W.lockData; rw [enter_k]
theorem openKey_lockData (db : DB) (n : Nat) : (db.openKey n).lockData = getLockData (db.getKey n).cell := rfl

/-- what the first reply of an operation carries: the value of the key before the operation — or nothing, if the key record
was reclaimed by this very operation before the reply was assembled -/
def FirstReply (pre : Option Bytes) (w : W) : Prop :=
  w.out = [] ∨ ∃ r more, w.out = r :: more ∧ (r.data = pre ∨ (w.Reclaimed ∧ r.data = none))

theorem FirstReply.of_fr {pre : Option Bytes} {w w' : W} (h : FirstReply pre w) (hne : w.out ≠ []) (f : Fr w w') : FirstReply pre w' := by
  rcases h with h | ⟨r, more, e, hd⟩
  · exact absurd h hne
  · obtain ⟨m2, e2⟩ := f.out
    refine Or.inr ⟨r, more ++ m2, by rw [e2, e]; rfl, ?_⟩
    rcases hd with hd | ⟨hg, hd⟩
    · exact Or.inl hd
    · exact Or.inr ⟨f.recl hg, hd⟩

/-- a reply appended to a state without replies -/
theorem FirstReply.reply {pre : Option Bytes} (w : W) (c : Cmd) (a b : Nat) (d : Option Bytes) (ho : w.out = [])
    (hd : d = pre ∨ (w.Reclaimed ∧ d = none)) : FirstReply pre (w.reply c a b d) :=
  Or.inr ⟨{ r := mkReply c a w.k.locked b, data := d }, [], by simp [ho], hd⟩

theorem grant_out (w : W) (rid : Nat) : ∃ r, (w.grant rid).out = w.out ++ [r] ∧ r.data = w.lockData := by
  unfold W.grant
  simp only []
  rw [reply_out, ctr_out, (FQ.ref _ _).qt.out, (FQ.addExpried _ _).qt.out, modR_out, procData_out, modK_out, (FQ.addLock _ _).qt.out]
  refine ⟨_, rfl, ?_⟩
  unfold W.lockData
  simp [incLocked, W.addLock]

theorem grantNoHold_qt_out (w : W) (rid : Nat) : (w.grantNoHold rid).out = w.out := by
  unfold W.grantNoHold
  simp only []
  rw [modR_out]
  have := (FQ.when (w.procData .lock (w.k.getR rid).cmd (frameOf (w.k.getR rid).cmd (w.k.getR rid).data) rid)
    (has (w.k.getR rid).cmd.flag F_DATA && requireAof w.k &&
      cellNotAof (w.procData .lock (w.k.getR rid).cmd (frameOf (w.k.getR rid).cmd (w.k.getR rid).data) rid).k)
    (·.pushLockAof rid 0) (FQ.pushLockAof _ _ _)).qt.out
  rw [this, procData_out]

theorem freeCheck_out (w : W) (rid : Nat) : (w.freeCheck rid).out = w.out := by unfold W.freeCheck; simp
theorem unrefCheck_out (w : W) (rid : Nat) : (w.unrefCheck rid).out = w.out := by
  unfold W.unrefCheck
  simp only []
  cases ((w.modK (·.unrefOnly rid)).k.getR rid).refCount == 0
  · rfl
  · simp [W.when, freeCheck_out]

/-- freeing a record: the cell stays, unless the key record is reclaimed -/
theorem removeIfZero_lockData (w : W) :
    w.removeIfZero.lockData = w.lockData ∨ (w.removeIfZero.Reclaimed ∧ w.removeIfZero.lockData = none) := by
  rcases removeIfZero_cases w with h | ⟨hg, hc, h0, _⟩
  · left; rw [h]
  · right; exact ⟨removeIfZero_reclaimed w hg h0, by simp [W.lockData, hc, getLockData]⟩

theorem freeCheck_lockData (w : W) (rid : Nat) :
    (w.freeCheck rid).lockData = w.lockData ∨ ((w.freeCheck rid).Reclaimed ∧ (w.freeCheck rid).lockData = none) := by
  unfold W.freeCheck
  rcases removeIfZero_lockData (w.modK (·.free rid)) with h | h
  · left; rw [h]; simp [W.lockData]
  · right; exact h

theorem when_out (w : W) (b : Bool) (f : W → W) (h : ∀ w, (f w).out = w.out) : (w.when b f).out = w.out := by
  cases b
  · rfl
  · exact h w

/-! ### LOCK, branch by branch -/

theorem applyLock_firstReply (db : DB) (c : Cmd) (data : Option Bytes) (b : LockBranch) (hb : b ≠ .p0b) :
    FirstReply (getLockData (db.getKey c.key).cell) (applyLock db c data b) := by
  cases b with
  | p0b => exact absurd rfl hb
  | p0a =>
    simp only [applyLock]
    exact FirstReply.reply _ _ _ _ _ rfl (Or.inl rfl)
  | stateError =>
    simp only [applyLock]
    refine FirstReply.reply _ _ _ _ _ (by simp [enter_out]) ?_
    rcases removeIfZero_lockData (db.enter c.key) with h | ⟨hg, hn⟩
    · left; rw [h, enter_lockData]
    · right; exact ⟨hg, hn⟩
  | «show» cur =>
    simp only [applyLock]
    exact FirstReply.reply _ _ _ _ _ (enter_out _ _) (Or.inl (enter_lockData _ _))
  | updateEqual h =>
    simp only [applyLock]
    exact FirstReply.reply _ _ _ _ _ (enter_out _ _) (Or.inl (enter_lockData _ _))
  | updateEqualData h =>
    simp only [applyLock]
    exact FirstReply.reply _ _ _ _ _ (by simp [enter_out]) (Or.inl (enter_lockData _ _))
  | update h =>
    simp only [applyLock]
    refine (FirstReply.reply _ _ _ _ _ ?_ (Or.inl (enter_lockData _ _))).of_fr (by simp) (Fr.wake _)
    rw [when_out _ _ _ (fun w => (FQ.journalLock w _ _).qt.out), (FQ.updateLocked _ _ _).qt.out, procData_out, enter_out]
  | relockNoHold h =>
    simp only [applyLock]
    exact FirstReply.reply _ _ _ _ _ (enter_out _ _) (Or.inl (enter_lockData _ _))
  | relock h =>
    simp only [applyLock]
    refine (FirstReply.reply _ _ _ _ _ ?_ (Or.inl (enter_lockData _ _))).of_fr (by simp) (Fr.wake _)
    rw [ctr_out, (FQ.journalLock _ _ _).qt.out, (FQ.updateLocked _ _ _).qt.out, procData_out, modK_out, modR_out, enter_out]
  | relockRefused h =>
    simp only [applyLock]
    exact FirstReply.reply _ _ _ _ _ (enter_out _ _) (Or.inl (enter_lockData _ _))
  | unlockedWaitRefused =>
    simp only [applyLock]
    exact FirstReply.reply _ _ _ _ _ (enter_out _ _) (Or.inl (enter_lockData _ _))
  | grant =>
    simp only [applyLock]
    obtain ⟨r, ho, hd⟩ := grant_out ((db.enter c.key).newLock c data).1 ((db.enter c.key).newLock c data).2
    have hbase : FirstReply (getLockData (db.getKey c.key).cell)
        (((db.enter c.key).newLock c data).1.grant ((db.enter c.key).newLock c data).2) := by
      refine Or.inr ⟨r, [], ?_, Or.inl ?_⟩
      · rw [ho, (FQ.newLock _ _ _).qt.out, enter_out]; rfl
      · rw [hd, (FQ.newLock _ _ _).qt.lockData, enter_lockData]
    cases (db.enter c.key).k.waited
    · exact hbase
    · refine hbase.of_fr ?_ (Fr.wake _)
      rw [ho]; simp
  | grantNoHold =>
    simp only [applyLock]
    have hbase : FirstReply (getLockData (db.getKey c.key).cell)
        (((((db.enter c.key).newLock c data).1.grantNoHold ((db.enter c.key).newLock c data).2).freeCheck
          ((db.enter c.key).newLock c data).2).ctr (fun x => { x with lockCount := x.lockCount + 1 }) |>.reply c
            Slock.Engine.RESULT_SUCCED 0 (db.enter c.key).lockData) := by
      refine FirstReply.reply _ _ _ _ _ ?_ (Or.inl (enter_lockData _ _))
      rw [ctr_out, freeCheck_out, grantNoHold_qt_out, (FQ.newLock _ _ _).qt.out, enter_out]
    cases (db.enter c.key).k.waited
    · exact hbase
    · exact hbase.of_fr (by simp) (Fr.wake _)
  | queue =>
    simp only [applyLock]
    left
    rw [ctr_out, (FQ.ref _ _).qt.out, (FQ.addTimeOut _ _).qt.out, modK_out, (FQ.newLock _ _ _).qt.out, enter_out]
  | timeout =>
    simp only [applyLock]
    refine FirstReply.reply _ _ _ _ _ (by rw [freeCheck_out, (FQ.newLock _ _ _).qt.out, enter_out]) ?_
    rcases freeCheck_lockData ((db.enter c.key).newLock c data).1 ((db.enter c.key).newLock c data).2 with h | ⟨hg, hn⟩
    · left; rw [h, (FQ.newLock _ _ _).qt.lockData, enter_lockData]
    · right; exact ⟨hg, hn⟩

/-! ### UNLOCK, branch by branch -/

theorem classifyUnlock_noManager (db : DB) (c : Cmd) (h : classifyUnlock db c = .noManager) : db.hasKey c.key = false := by
  unfold classifyUnlock at h
  simp only [] at h
  repeat' split at h
  all_goals (try simp at h)
  all_goals simp_all

theorem settleWait_fq (w : W) : FQ w (w.modK (·.settleWait)) := FQ.modK _ _ (by simp) (by simp) (by simp)

theorem applyUnlock_firstReply (db : DB) (c : Cmd) (data : Option Bytes) (b : UnlockBranch)
    (hb : b = .noManager → db.hasKey c.key = false) :
    FirstReply (getLockData (db.getKey c.key).cell) (applyUnlock db c data b) := by
  cases b with
  | noManager =>
    simp only [applyUnlock]
    refine Or.inr ⟨_, [], rfl, Or.inl ?_⟩
    rw [getKey_of_not_hasKey db c.key (hb rfl)]; rfl
  | stateError | notLocked | unown | cancelNone =>
    simp only [applyUnlock]
    exact FirstReply.reply _ _ _ _ _ rfl (Or.inl rfl)
  | cancel x =>
    simp only [applyUnlock]
    have ho : ((((((db.openKey c.key).modR x (fun r => { r with timeouted := true })).dropLongT x).modK (·.settleWait)).ctr
        (fun y => { y with waitCount := y.waitCount - 1 })).removeIfZero).out = [] := by
      rw [removeIfZero_out, ctr_out, (settleWait_fq _).qt.out, (FQ.dropLongT _ _).qt.out, modR_out]; rfl
    have hq : Qt (db.openKey c.key) (((((db.openKey c.key).modR x (fun r => { r with timeouted := true })).dropLongT x).modK (·.settleWait)).ctr
        (fun y => { y with waitCount := y.waitCount - 1 })) :=
      ((FQ.modR _ _ _).trans ((FQ.dropLongT _ _).trans ((settleWait_fq _).trans (FQ.ctr _ _)))).qt
    refine ((FirstReply.reply _ _ _ _ _ (by rw [ctr_out]; exact ho) ?_).of_fr (by simp) (Fr.reply _ _ _ _ _)).of_fr (by simp) (Fr.wake _)
    rw [ctr_lockData]
    rcases removeIfZero_lockData (((((db.openKey c.key).modR x (fun r => { r with timeouted := true })).dropLongT x).modK (·.settleWait)).ctr
        (fun y => { y with waitCount := y.waitCount - 1 })) with h | ⟨hg, hn⟩
    · left; rw [h, hq.lockData]; rfl
    · right; exact ⟨(FQ.ctr _ _).fr.recl hg, hn⟩
  | dec h c' =>
    simp only [applyUnlock]
    refine (FirstReply.reply _ _ _ _ _ ?_ (Or.inl ?_)).of_fr (by simp) (Fr.wake _)
    · rw [ctr_out, (FQ.journalUnlock _ _ _ _ _).qt.out, procData_out]; rfl
    · rfl
  | release h c' =>
    simp only [applyUnlock]
    refine (FirstReply.reply _ _ _ _ _ ?_ (Or.inl rfl)).of_fr (by simp) (Fr.wake _)
    rw [ctr_out, when_out _ _ _ (fun w => freeCheck_out w _), modK_out, (FQ.journalUnlock _ _ _ _ _).qt.out, (FQ.dropLongE _ _).qt.out, procData_out]
    rfl

/-! ### every branch is a chain of frame steps -/

def lockBase (db : DB) (c : Cmd) : LockBranch → W
  | .p0a | .p0b => db.openKey c.key
  | _ => db.enter c.key

theorem applyLock_fr (db : DB) (c : Cmd) (data : Option Bytes) (b : LockBranch) : Fr (lockBase db c b) (applyLock db c data b) := by
  cases b with
  | p0a => exact Fr.reply _ _ _ _ _
  | p0b => exact ⟨rfl, rfl, rfl, fun _ => rfl, ⟨_, rfl⟩, id, id, Nat.le_refl _, Or.inl ⟨rfl, rfl, rfl⟩, Nat.le_refl _⟩
  | stateError => exact (Fr.removeIfZero _).trans (Fr.reply _ _ _ _ _)
  | «show» cur => exact Fr.reply _ _ _ _ _
  | updateEqual h => exact Fr.reply _ _ _ _ _
  | updateEqualData h => exact (Fr.procData _ _ _ _ _).trans (Fr.reply _ _ _ _ _)
  | update h =>
    simp only [applyLock, lockBase]
    exact (((Fr.procData _ _ _ _ _).trans ((FQ.updateLocked _ _ _).fr.trans (Fr.when _ _ _ (FQ.journalLock _ _ _).fr))).trans (Fr.reply _ _ _ _ _)).trans
      (Fr.wake _)
  | relockNoHold h => exact Fr.reply _ _ _ _ _
  | relock h =>
    simp only [applyLock, lockBase]
    refine Fr.trans ?_ (Fr.wake _)
    refine Fr.trans ?_ (Fr.reply _ _ _ _ _)
    refine Fr.trans ?_ (FQ.ctr _ _).fr
    refine Fr.trans ?_ (FQ.journalLock _ _ _).fr
    refine Fr.trans ?_ (FQ.updateLocked _ _ _).fr
    refine Fr.trans ?_ (Fr.procData _ _ _ _ _)
    exact (FQ.modR _ _ _).fr.trans (Fr.modLocked _ _ rfl)
  | relockRefused h => exact Fr.reply _ _ _ _ _
  | unlockedWaitRefused => exact Fr.reply _ _ _ _ _
  | grant =>
    simp only [applyLock, lockBase]
    exact ((FQ.newLock _ _ _).fr.trans (Fr.grant _ _)).trans (Fr.when _ _ _ (Fr.wake _))
  | grantNoHold =>
    simp only [applyLock, lockBase]
    refine Fr.trans ?_ (Fr.when _ _ _ (Fr.wake _))
    refine Fr.trans ?_ (Fr.reply _ _ _ _ _)
    refine Fr.trans ?_ (FQ.ctr _ _).fr
    refine Fr.trans ?_ (Fr.freeCheck _ _)
    exact (FQ.newLock _ _ _).fr.trans (Fr.grantNoHold _ _)
  | queue =>
    simp only [applyLock, lockBase]
    refine Fr.trans ?_ (FQ.ctr _ _).fr
    refine Fr.trans ?_ (FQ.ref _ _).fr
    refine Fr.trans ?_ (FQ.addTimeOut _ _).fr
    exact (FQ.newLock _ _ _).fr.trans (FQ.modK _ (·.addWaitLock ((db.enter c.key).newLock c data).2) (by simp) (by simp) (by simp)).fr
  | timeout =>
    simp only [applyLock, lockBase]
    exact ((FQ.newLock _ _ _).fr.trans (Fr.freeCheck _ _)).trans (Fr.reply _ _ _ _ _)

theorem applyUnlock_fr (db : DB) (c : Cmd) (data : Option Bytes) (b : UnlockBranch) : Fr (db.openKey c.key) (applyUnlock db c data b) := by
  cases b with
  | noManager => exact ⟨rfl, rfl, rfl, fun _ => rfl, ⟨_, rfl⟩, id, id, Nat.le_refl _, Or.inl ⟨rfl, rfl, rfl⟩, Nat.le_refl _⟩
  | stateError | notLocked | unown | cancelNone => exact (FQ.bumpErr _).fr.trans (Fr.reply _ _ _ _ _)
  | cancel x =>
    simp only [applyUnlock]
    refine Fr.trans ?_ (Fr.wake _)
    refine Fr.trans ?_ (Fr.reply _ _ _ _ _)
    refine Fr.trans ?_ (Fr.reply _ _ _ _ _)
    refine Fr.trans ?_ (FQ.ctr _ _).fr
    refine Fr.trans ?_ (Fr.removeIfZero _)
    exact ((FQ.modR _ _ _).trans ((FQ.dropLongT _ _).trans ((settleWait_fq _).trans (FQ.ctr _ _)))).fr
  | dec h c' =>
    simp only [applyUnlock]
    refine Fr.trans ?_ (Fr.wake _)
    refine Fr.trans ?_ (Fr.reply _ _ _ _ _)
    refine Fr.trans ?_ (FQ.ctr _ _).fr
    refine Fr.trans ?_ (FQ.journalUnlock _ _ _ _ _).fr
    refine Fr.trans ?_ (Fr.procData _ _ _ _ _)
    exact (FQ.modR _ _ _).fr.trans (Fr.modLocked _ _ rfl)
  | release h c' =>
    simp only [applyUnlock]
    refine Fr.trans ?_ (Fr.wake _)
    refine Fr.trans ?_ (Fr.reply _ _ _ _ _)
    refine Fr.trans ?_ (FQ.ctr _ _).fr
    refine Fr.trans ?_ (Fr.when _ _ _ (Fr.freeCheck _ _))
    refine Fr.trans ?_ (FQ.modK _ _ (by simp) (by simp) (by simp)).fr
    refine Fr.trans ?_ (FQ.journalUnlock _ _ _ _ _).fr
    refine Fr.trans ?_ (FQ.dropLongE _ _).fr
    refine Fr.trans ?_ (Fr.procData _ _ _ _ _)
    exact (FQ.modR _ _ _).fr.trans (Fr.modLocked _ _ rfl)

/-! ### storing the record back -/

theorem commit_fields (w : W) : w.commit.leader = w.db.leader ∧ w.commit.aofOut = w.db.aofOut ∧ w.commit.now = w.db.now ∧
    w.commit.ctr = w.db.ctr ∧ w.commit.tCheck = w.db.tCheck ∧ w.commit.eCheck = w.db.eCheck := by
  unfold W.commit
  split
  · simp
  · obtain ⟨a, b, c, d, _, _, _, e, f, _⟩ := setKey_fields w.db w.k
    exact ⟨a, b, c, d, e, f⟩

theorem commit_hasKey_of_reclaimed (w : W) (h : w.Reclaimed) : w.commit.hasKey w.k.key = false := by
  unfold W.commit; rw [h.1]; exact h.2

theorem lockBase_db (db : DB) (c : Cmd) (b : LockBranch) :
    (lockBase db c b).db.leader = db.leader ∧ (lockBase db c b).db.aofOut = db.aofOut ∧ (lockBase db c b).db.now = db.now ∧
    (lockBase db c b).k = db.getKey c.key ∧ (lockBase db c b).out = [] := by
  have h1 := create_fields db c.key
  cases b <;> simp [lockBase, enter_db, enter_k, enter_out, DB.openKey, h1]

/-- off-leader a LOCK / an UNLOCK pushes nothing to the journal; the role does not change -/
theorem opLock_journal (db : DB) (c : Cmd) (data : Option Bytes) :
    (opLock db c data).1.leader = db.leader ∧ (db.leader = false → (opLock db c data).1.aofOut = db.aofOut) := by
  unfold opLock
  simp only []
  have f := applyLock_fr db c data (classifyLock db c data)
  obtain ⟨b1, b2, _, _, _⟩ := lockBase_db db c (classifyLock db c data)
  obtain ⟨c1, c2, _⟩ := commit_fields (applyLock db c data (classifyLock db c data))
  exact ⟨by rw [c1, f.leader, b1], fun h => by rw [c2, f.aof (by rw [b1]; exact h), b2]⟩

theorem opUnlock_journal (db : DB) (c : Cmd) (data : Option Bytes) :
    (opUnlock db c data).1.leader = db.leader ∧ (db.leader = false → (opUnlock db c data).1.aofOut = db.aofOut) := by
  unfold opUnlock
  simp only []
  have f := applyUnlock_fr db c data (classifyUnlock db c)
  obtain ⟨c1, c2, _⟩ := commit_fields (applyUnlock db c data (classifyUnlock db c))
  exact ⟨by rw [c1, f.leader]; rfl, fun h => by rw [c2, f.aof h]; rfl⟩

end Slock.Engine2
