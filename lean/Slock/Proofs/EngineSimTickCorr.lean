import Slock.Proofs.EngineSimTickEntries
/-! Clock-tick simulation (`sim_tick`): stage 1's sorted list of due requests (holds) IS the record-level list of due wheel entries,
restricted to the live ones and mapped to their stage-1 views. -/
namespace Slock.SimTick
open Slock Slock.Sim Slock.Engine2
open Slock.Engine (has sortBySeq)

theorem nodup_of_map {α β : Type} (f : α → β) (l : List α) (h : (l.map f).Nodup) : l.Nodup :=
  List.Pairwise.of_map f (fun a b hne e => hne (by rw [e])) h

/-- a list of distinct elements of a list on which `f` is injective -/
theorem nodup_map_sub {α β : Type} (f : α → β) (A B : List α) (hA : (A.map f).Nodup) (hB : B.Nodup) (hsub : ∀ b ∈ B, b ∈ A) : (B.map f).Nodup :=
  nodup_map_on f B hB (fun a ha b hb e => nodup_map_inj f A hA (hsub a ha) (hsub b hb) e)

theorem viewT_sched (s : DB) (e : Ent) {sc : Engine.Sched} (hs : ((s.getKey e.key).getR e.rid).tSched = some sc) :
    (viewT s e).sched = sc := by
  unfold viewT waiterOf Rec.toWaiter
  simp only [hs, Option.getD_some]

/-- **the timeout wheel**: stage 1's sorted list of the queued requests whose wheel entry satisfies `p` -/
theorem corrT (s : DB) (sy : Sy s) (a : Engine.DB) (he : Equiv (Engine2.abs s) a) (i1 : I1 a) (p : Engine.Sched → Bool) :
    sortBySeq (·.sched.seq) ((Engine.allWaiters a).filter (fun w => p w.sched)) =
      ((tEntries s p).filter (liveT s)).map (viewT s) := by
  have hd := sy.dbq.dbt.dbi
  have hkabs : ∀ n, a.getKey n = Key.abs (s.getKey n) := fun n => (he.keys n).symm.trans (abs_getKey s hd.kn n)
  have hk1 : ∀ n, K1 (s.getKey n) := fun n => k1_of_equiv sy he i1 n
  rw [tEntries_eq, filter_sortBySeq]
  -- facts about a live entry of the raw list
  have hfact : ∀ e ∈ (rawE (·.tSched) s p).filter (liveT s), ∃ sc, ((s.getKey e.key).getR e.rid).tSched = some sc ∧ p sc = true ∧ e.seq = sc.seq ∧
      (viewT s e).sched = sc ∧ viewT s e ∈ (Key.abs (s.getKey e.key)).waiters := by
    intro e hem
    obtain ⟨hm, hl⟩ := List.mem_filter.mp hem
    obtain ⟨sc, hh, hs, hp, hq⟩ := (mem_rawE hd p e).mp hm
    exact ⟨sc, hs, hp, hq, viewT_sched s e hs, live_mem_abs (sy.dbkt.getKey e.key) e.rid hh ((liveT_iff s e).mp hl)⟩
  rw [map_sortBySeq_on (·.seq) (·.sched.seq) (viewT s) _ (fun e hem => by
    obtain ⟨sc, _, _, hq, hv, _⟩ := hfact e hem
    show (viewT s e).sched.seq = e.seq
    rw [hv, hq])]
  have hrawnd : ((rawE (·.tSched) s p).filter (liveT s)).Nodup := (List.filter_sublist).nodup (nodup_of_map eid _ (rawE_nodup hd p))
  -- membership in stage 1's list
  have hsubB : ∀ w ∈ ((rawE (·.tSched) s p).filter (liveT s)).map (viewT s), w ∈ (Engine.allWaiters a).filter (fun w => p w.sched) := by
    intro w hw
    obtain ⟨e, hem, ew⟩ := List.mem_map.mp hw
    obtain ⟨sc, _, hp, _, hv, hmem⟩ := hfact e hem
    rw [List.mem_filter, mem_allWaiters i1.s3.kn]
    refine ⟨⟨e.key, by rw [hkabs, ← ew]; exact hmem⟩, ?_⟩
    rw [← ew, hv]; exact hp
  apply sortBySeq_ext
  · exact nodup_filter_map seqW _ _ (allWaiters_nodup i1.s3.kn i1.s3.sq)
  · refine nodup_map_sub seqW _ _ (nodup_filter_map seqW _ _ (allWaiters_nodup i1.s3.kn i1.s3.sq)) ?_ hsubB
    -- distinct live entries have distinct views
    refine nodup_map_on (viewT s) _ hrawnd ?_
    intro e hem e' hem' ev
    obtain ⟨sc, hs, _, hq, _, hmem⟩ := hfact e hem
    obtain ⟨sc', hs', _, hq', _, hmem'⟩ := hfact e' hem'
    have hkey : e.key = e'.key := by
      have h1 := (hk1 e.key).kw _ hmem
      have h2 := (hk1 e'.key).kw _ hmem'
      rw [getKey_key] at h1 h2
      rw [← h1, ← h2, ev]
    have hl := (List.mem_filter.mp hem).2
    have hl' := (List.mem_filter.mp hem').2
    have kt := sy.dbkt.getKey e.key
    have hrid : e.rid = e'.rid := by
      have wu := (hk1 e.key).wu
      rw [abs_waiters, List.map_map] at wu
      have hm1 : e.rid ∈ ((s.getKey e.key).wait.map (·.rid)).filter (fun z => !(s.getKey e.key).deadWaiter z) :=
        List.mem_filter.mpr ⟨kt.wq e.rid (hasRec_of_liveT hl) ((liveT_iff s e).mp hl), by unfold Key.deadWaiter; rw [(liveT_iff s e).mp hl]; rfl⟩
      have hl'' : ((s.getKey e.key).getR e'.rid).timeouted = false := by rw [hkey]; exact (liveT_iff s e').mp hl'
      have hh'' : (s.getKey e.key).hasRec e'.rid := by rw [hkey]; exact hasRec_of_liveT hl'
      have hm2 : e'.rid ∈ ((s.getKey e.key).wait.map (·.rid)).filter (fun z => !(s.getKey e.key).deadWaiter z) :=
        List.mem_filter.mpr ⟨kt.wq e'.rid hh'' hl'', by unfold Key.deadWaiter; rw [hl'']; rfl⟩
      refine nodup_map_inj _ _ wu hm1 hm2 ?_
      show rcOf (waiterOf (s.getKey e.key) e.rid) = rcOf (waiterOf (s.getKey e.key) e'.rid)
      have : waiterOf (s.getKey e.key) e'.rid = viewT s e' := by unfold viewT; rw [hkey]
      rw [this, ← ev]; rfl
    cases e; cases e'
    simp only [] at hkey hrid hq hq' hs hs'
    subst hkey; subst hrid
    rw [hs] at hs'
    injection hs' with hs'
    rw [hq, hq', hs']
  · intro w
    constructor
    · intro hw
      rw [List.mem_filter, mem_allWaiters i1.s3.kn] at hw
      obtain ⟨⟨n, hn⟩, hp⟩ := hw
      rw [hkabs, abs_waiters] at hn
      obtain ⟨y, hy, ew⟩ := List.mem_map.mp hn
      have hl : ((s.getKey n).getR y).timeouted = false := by
        have := (List.mem_filter.mp hy).2
        unfold Key.deadWaiter at this
        simpa using this
      have hh := hasRec_of_liveWaiter (k := s.getKey n) hl
      obtain ⟨sc, hs, _⟩ := (sy.dbkt.getKey n).ws y hh hl
      have hlive : liveT s ⟨n, y, sc.seq⟩ = true := (liveT_iff s _).mpr hl
      have hv : (viewT s ⟨n, y, sc.seq⟩).sched = sc := viewT_sched s _ hs
      have ev : viewT s ⟨n, y, sc.seq⟩ = w := ew
      refine List.mem_map.mpr ⟨⟨n, y, sc.seq⟩, List.mem_filter.mpr ⟨(mem_rawE hd p _).mpr ⟨sc, hh, hs, ?_, rfl⟩, hlive⟩, ev⟩
      rw [← hv, ev]; exact hp
    · exact hsubB w

/-! ### the expiry wheel -/

/-- the record of the entry is a hold that has not ended -/
def liveE (s : DB) (e : Ent) : Bool := (s.getKey e.key).hasE e.rid && !((s.getKey e.key).getR e.rid).expried
def viewE (s : DB) (e : Ent) : Engine.Hold := holdOf (s.getKey e.key) e.rid

theorem liveE_spec {s : DB} {e : Ent} (h : liveE s e = true) :
    (s.getKey e.key).hasE e.rid = true ∧ ((s.getKey e.key).getR e.rid).expried = false := by
  unfold liveE at h
  simp only [Bool.and_eq_true, Bool.not_eq_true'] at h
  exact h

theorem liveE_facts {s : DB} (sy : Sy s) {e : Ent} (h : liveE s e = true) :
    (s.getKey e.key).hasRec e.rid ∧ 0 < ((s.getKey e.key).getR e.rid).depth ∧ viewE s e ∈ (Key.abs (s.getKey e.key)).holders := by
  obtain ⟨hT, hl⟩ := liveE_spec h
  have hs := hasE_spec _ e.rid hT
  have hdep := depth_pos_of_live (Good.openKey sy.dbq.dbt.dbi sy.dbq.dbt.tight e.key) e.rid hs hl
  exact ⟨hs.1, hdep, live_mem_holders (sy.dbkt.getKey e.key) e.rid hs.1 hdep⟩

theorem viewE_sched (s : DB) (e : Ent) {sc : Engine.Sched} (hs : ((s.getKey e.key).getR e.rid).eSched = some sc) : (viewE s e).sched = sc := by
  unfold viewE holdOf Rec.toHold
  simp only [hs, Option.getD_some]

/-- **the expiry wheel**: stage 1's sorted list of the holds whose wheel entry satisfies `p` -/
theorem corrE (s : DB) (sy : Sy s) (a : Engine.DB) (he : Equiv (Engine2.abs s) a) (i1 : I1 a) (p : Engine.Sched → Bool) :
    sortBySeq (·.sched.seq) ((Engine.allHolds a).filter (fun x => p x.sched)) =
      ((eEntries s p).filter (liveE s)).map (viewE s) := by
  have hd := sy.dbq.dbt.dbi
  have hkabs : ∀ n, a.getKey n = Key.abs (s.getKey n) := fun n => (he.keys n).symm.trans (abs_getKey s hd.kn n)
  have hk1 : ∀ n, K1 (s.getKey n) := fun n => k1_of_equiv sy he i1 n
  rw [eEntries_eq, filter_sortBySeq]
  have hfact : ∀ e ∈ (rawE (·.eSched) s p).filter (liveE s), ∃ sc, ((s.getKey e.key).getR e.rid).eSched = some sc ∧ p sc = true ∧ e.seq = sc.seq ∧
      (viewE s e).sched = sc ∧ viewE s e ∈ (Key.abs (s.getKey e.key)).holders ∧ (s.getKey e.key).hasRec e.rid ∧ 0 < ((s.getKey e.key).getR e.rid).depth := by
    intro e hem
    obtain ⟨hm, hl⟩ := List.mem_filter.mp hem
    obtain ⟨sc, hh, hs, hp, hq⟩ := (mem_rawE hd p e).mp hm
    obtain ⟨f1, f2, f3⟩ := liveE_facts sy hl
    exact ⟨sc, hs, hp, hq, viewE_sched s e hs, f3, f1, f2⟩
  rw [map_sortBySeq_on (·.seq) (·.sched.seq) (viewE s) _ (fun e hem => by
    obtain ⟨sc, _, _, hq, hv, _⟩ := hfact e hem
    show (viewE s e).sched.seq = e.seq
    rw [hv, hq])]
  have hrawnd : ((rawE (·.eSched) s p).filter (liveE s)).Nodup := (List.filter_sublist).nodup (nodup_of_map eid _ (rawE_nodup hd p))
  have hsubB : ∀ w ∈ ((rawE (·.eSched) s p).filter (liveE s)).map (viewE s), w ∈ (Engine.allHolds a).filter (fun x => p x.sched) := by
    intro w hw
    obtain ⟨e, hem, ew⟩ := List.mem_map.mp hw
    obtain ⟨sc, _, hp, _, hv, hmem, _⟩ := hfact e hem
    rw [List.mem_filter, mem_allHolds i1.s3.kn]
    refine ⟨⟨e.key, by rw [hkabs, ← ew]; exact hmem⟩, ?_⟩
    rw [← ew, hv]; exact hp
  apply sortBySeq_ext
  · exact nodup_filter_map seqH _ _ (allHolds_nodup i1.s3.kn i1.s3.sq)
  · refine nodup_map_sub seqH _ _ (nodup_filter_map seqH _ _ (allHolds_nodup i1.s3.kn i1.s3.sq)) ?_ hsubB
    refine nodup_map_on (viewE s) _ hrawnd ?_
    intro e hem e' hem' ev
    obtain ⟨sc, hs, _, hq, _, hmem, hh, hdp⟩ := hfact e hem
    obtain ⟨sc', hs', _, hq', _, hmem', hh', hdp'⟩ := hfact e' hem'
    have hkey : e.key = e'.key := by
      have h1 := (hk1 e.key).kh _ hmem
      have h2 := (hk1 e'.key).kh _ hmem'
      rw [getKey_key] at h1 h2
      rw [← h1, ← h2, ev]
    have hrid : e.rid = e'.rid := by
      have hki := sy.dbk.getKey e.key
      have hh'' : (s.getKey e.key).hasRec e'.rid := by rw [hkey]; exact hh'
      have hdp'' : 0 < ((s.getKey e.key).getR e'.rid).depth := by rw [hkey]; exact hdp'
      refine hki.hinj e.rid e'.rid hh hh'' hdp hdp'' ?_
      have h1 : (viewE s e).hid = ((s.getKey e.key).getR e.rid).hid := rfl
      have h2 : (viewE s e').hid = ((s.getKey e.key).getR e'.rid).hid := by unfold viewE; rw [hkey]; rfl
      rw [← h1, ← h2, ev]
    cases e; cases e'
    simp only [] at hkey hrid hq hq' hs hs'
    subst hkey; subst hrid
    rw [hs] at hs'
    injection hs' with hs'
    rw [hq, hq', hs']
  · intro w
    constructor
    · intro hw
      rw [List.mem_filter, mem_allHolds i1.s3.kn] at hw
      obtain ⟨⟨n, hn⟩, hp⟩ := hw
      rw [hkabs, abs_holders] at hn
      obtain ⟨y, hy, ew⟩ := List.mem_map.mp hn
      have hlv : (s.getKey n).liveHolder y = true := (List.mem_filter.mp hy).2
      have hdp : 0 < ((s.getKey n).getR y).depth := by unfold Key.liveHolder at hlv; simpa using hlv
      have hh := Slock.Sim.hasRec_of_live hlv
      have ge := Good.openKey hd sy.dbq.dbt.tight n
      have hfine : RecFine ((s.getKey n).getR y) := recFine_of ge y hh
      have hes := hfine.hold hdp
      obtain ⟨sc, hs⟩ := Option.isSome_iff_exists.mp hes
      have hex : ((s.getKey n).getR y).expried = false := by
        cases hx : ((s.getKey n).getR y).expried with
        | false => rfl
        | true => have := hfine.ended hx; omega
      have hlive : liveE s ⟨n, y, sc.seq⟩ = true := by
        unfold liveE Key.hasE
        simp only []
        rw [(any_iff_hasRec _ _).mpr hh, hes, hex]; rfl
      have hv : (viewE s ⟨n, y, sc.seq⟩).sched = sc := viewE_sched s _ hs
      have ev : viewE s ⟨n, y, sc.seq⟩ = w := ew
      refine List.mem_map.mpr ⟨⟨n, y, sc.seq⟩, List.mem_filter.mpr ⟨(mem_rawE hd p _).mpr ⟨sc, hh, hs, ?_, rfl⟩, hlive⟩, ev⟩
      rw [← hv, ev]; exact hp
    · exact hsubB w

end Slock.SimTick
