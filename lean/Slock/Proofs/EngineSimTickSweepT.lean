import Slock.Proofs.EngineSimTickCorr
import Slock.Proofs.EngineSimTickFoldT
/-! Clock-tick simulation (`sim_tick`): **the timeout sweep** `checkTimeTimeOut(c, now)` of the record-level model is stage 1's
`sweepTimeout` — same replies, `abs` of the result `Equiv` to stage 1's result. -/
namespace Slock.SimTick
open Slock Slock.Sim Slock.Engine2
open Slock.Engine (has sortBySeq)

def slotP (c : Nat) (sc : Engine.Sched) : Bool := sc.visit == c && !sc.long
def longP (c : Nat) (sc : Engine.Sched) : Bool := sc.visit == c && sc.long

theorem slotWaiters_eq (a : Engine.DB) (c : Nat) :
    Engine.slotWaiters a c = sortBySeq (·.sched.seq) ((Engine.allWaiters a).filter (fun w => slotP c w.sched)) := rfl
theorem longWaiters_eq (a : Engine.DB) (c : Nat) :
    Engine.longWaiters a c = sortBySeq (·.sched.seq) ((Engine.allWaiters a).filter (fun w => longP c w.sched)) := rfl

theorem sweepTimeout2_eq (s : DB) (c : Nat) :
    sweepTimeout s c = (((tEntries s (longP c)).foldl (timeoutStep false) ((tEntries s (slotP c)).foldl (timeoutStep true) (s, []))).2.foldl fireTimeoutStep
      (((tEntries s (longP c)).foldl (timeoutStep false) ((tEntries s (slotP c)).foldl (timeoutStep true) (s, []))).1, [])) := rfl

theorem sweepTimeout1_eq (a : Engine.DB) (c : Nat) :
    Engine.sweepTimeout a c = ((((Engine.slotWaiters a c).foldl Engine.timeoutStep (a, [])).2 ++ Engine.longWaiters a c).foldl Engine.fireTimeoutStep
      (((Engine.slotWaiters a c).foldl Engine.timeoutStep (a, [])).1, [])) := rfl

theorem sim_sweepT (s : DB) (a : Engine.DB) (c : Nat) (sy : Sy s) (i1 : I1 a) (he : Equiv (Engine2.abs s) a) :
    Sy (sweepTimeout s c).1 ∧ I1 (Engine.sweepTimeout a c).1 ∧ Equiv (Engine2.abs (sweepTimeout s c).1) (Engine.sweepTimeout a c).1 ∧
    (sweepTimeout s c).2.map (·.r) = (Engine.sweepTimeout a c).2 := by
  have hd := sy.dbq.dbt.dbi
  have hS : Engine.slotWaiters a c = ((tEntries s (slotP c)).filter (liveT s)).map (viewT s) := by
    rw [slotWaiters_eq]; exact corrT s sy a he i1 (slotP c)
  have hL : Engine.longWaiters a c = ((tEntries s (longP c)).filter (liveT s)).map (viewT s) := by
    rw [longWaiters_eq]; exact corrT s sy a he i1 (longP c)
  have nd1 : ((tEntries s (slotP c)).map eid).Nodup := by rw [tEntries_eq]; exact entries_nodup hd _
  have nd2 : ((tEntries s (longP c)).map eid).Nodup := by rw [tEntries_eq]; exact entries_nodup hd _
  have hdis : ∀ e ∈ tEntries s (longP c), eid e ∉ (tEntries s (slotP c)).map eid := by
    intro e hem hm
    obtain ⟨e', he', heq⟩ := List.mem_map.mp hm
    rw [tEntries_eq] at hem he'
    refine entries_disjoint hd (slotP c) (longP c) ?_ he' hem heq
    intro sc h1 h2
    unfold slotP at h1; unfold longP at h2
    simp only [Bool.and_eq_true, Bool.not_eq_true'] at h1 h2
    rw [h1.2] at h2; exact absurd h2.2 (by simp)
  -- pass 1
  obtain ⟨PP1, a1, a2, a3, a4, a5, a6, a7⟩ := pass1T (tEntries s (slotP c)) (s, []) (a, []) sy i1 he nd1
  rw [← hS] at a2 a4 a5
  simp only [List.nil_append] at a1 a2
  -- the long-table pass
  have hlong : ((tEntries s (longP c)).filter (liveT ((tEntries s (slotP c)).foldl (timeoutStep true) (s, [])).1)).map
      (viewT ((tEntries s (slotP c)).foldl (timeoutStep true) (s, [])).1) = Engine.longWaiters a c := by
    rw [hL]; exact pend_congr a7 _ hdis
  obtain ⟨PP2, S', b1, b2, b3, b4, b5, b6, b7⟩ := passLT (tEntries s (longP c)) ((tEntries s (slotP c)).foldl (timeoutStep true) (s, []))
    ((Engine.slotWaiters a c).foldl Engine.timeoutStep (a, [])).1 [] a3 a4 (EqL.of_equiv a5) nd2
  rw [hlong] at b2
  -- firing
  rw [sweepTimeout2_eq, sweepTimeout1_eq, b1, a1, a2, b2, ← List.map_append, ← List.map_append]
  refine fireT_fold (PP1 ++ PP2) _ _ S' b3 a4 b4 rfl ?_ ?_
  · intro p hp
    rcases List.mem_append.mp hp with h | h
    · exact b7.pt _ _ (a6 p h)
    · exact b6 p h
  · intro i hi
    rcases b5 i hi with h | ⟨p, hp, e⟩
    · simp at h
    · exact ⟨p, List.mem_append_right _ hp, e⟩

end Slock.SimTick
