import Slock.Proofs.EngineSimTickKTWake
/-! `KT` pass, part 5: LOCK and UNLOCK. -/
namespace Slock.SimTick
open Slock Slock.Sim Slock.Engine2
open Slock.Engine (has)

theorem WT.enter {s : DB} (h : DBKT s) (n : Nat) : WT (s.enter n) := by
  intro _
  rw [enter_k]; exact h.getKey n

theorem WT.openKey' {s : DB} (h : DBKT s) (n : Nat) : WT (s.openKey n) := fun _ => h.getKey n

/-- `UpdateLockedLock`: the back-off counter of a HOLD changes (a hold is not a live queued request) -/
theorem tk_updateLocked (w : W) (rid : Nat) (c : Engine.Cmd) : TK (· = rid) NoX w (w.updateLocked rid c) := by
  unfold W.updateLocked
  simp only []
  have hf := updF_fields w.db (!(w.k.getR rid).isAof && w.k.current == some rid && w.k.locks.isEmpty) c
  refine TK.trans ?_ (TK.modR_q _ rid (fun r => { r with conn := c.conn }) (fun _ => rfl) (fun _ => rfl))
  refine TK.trans ?_ (TK.when _ _ _ ?_)
  · exact TK.modR (XW := (· = rid)) (XH := NoX) w rid _ (fun r => (hf r).1) (Or.inl rfl) (Or.inr fun r => (hf r).2.2.2.2.2)
  · exact (TK.removeLongE (XW := (· = rid)) (XH := NoX) _ rid).trans ((TK.addExpried _ rid).trans (TK.ref _ rid))

theorem WT.updateLocked {w : W} (h : WT w) (rid : Nat) (c : Engine.Cmd) (ht : (w.k.getR rid).timeouted = true) : WT (w.updateLocked rid c) :=
  h.tk_tomb rid (tk_updateLocked w rid c) (tomb_pk (qk_updateLocked w rid c).t ht)

/-- a new lock record (tombstoned, depth 0, in no queue) -/
theorem WT.newLock {w : W} (h : WT w) (c : Engine.Cmd) (d : Option Bytes) : WT (w.newLock c d).1 := by
  refine h.tk (XW := (· = w.db.nextRid)) (XH := (· = w.db.nextRid))
    ⟨rfl, PKeepX.addRec w.k _ rfl, PKeepX.addRec w.k _ rfl, fun _ _ _ hm => hm, fun _ _ _ hm => hm⟩ ?_ ?_
  · intro h0 y hx hl
    have e : y = w.db.nextRid := hx
    rw [e] at hl ⊢
    by_cases hh : w.k.hasRec w.db.nextRid
    · have eg : (w.newLock c d).1.k.getR w.db.nextRid = w.k.getR w.db.nextRid := getR_addRec w.k _ _ hh
      rw [eg] at hl ⊢
      exact ⟨h0.wq _ hh hl, (ws_iff _).mp (h0.ws _ hh hl)⟩
    · have eg : (w.newLock c d).1.k.getR w.db.nextRid = newRec w.db.nextRid w.db.now c d := getR_addRec_same w.k (newRec w.db.nextRid w.db.now c d) hh
      rw [eg] at hl; exact absurd hl (by simp [newRec])
  · intro h0 y hx hd
    have e : y = w.db.nextRid := hx
    rw [e] at hd ⊢
    by_cases hh : w.k.hasRec w.db.nextRid
    · have eg : (w.newLock c d).1.k.getR w.db.nextRid = w.k.getR w.db.nextRid := getR_addRec w.k _ _ hh
      rw [eg] at hd
      exact h0.hq _ hh hd
    · have eg : (w.newLock c d).1.k.getR w.db.nextRid = newRec w.db.nextRid w.db.now c d := getR_addRec_same w.k (newRec w.db.nextRid w.db.now c d) hh
      rw [eg] at hd; exact absurd hd (by simp [newRec])

theorem WT.when_freeCheck {w : W} (h : WT w) (b : Bool) (rid : Nat) : WT (w.when b (·.freeCheck rid)) := by
  cases b
  · exact h
  · exact h.freeCheck rid

/-- a hold gains or loses a level: it stays where it is -/
theorem WT.modDepth {w : W} (h : WT w) (rid : Nat) (f : Rec → Rec) (hf : ∀ r, (f r).rid = r.rid) (hw : ∀ r, πW (f r) = πW r)
    (hm : KT w.k → 0 < (f (w.k.getR rid)).depth → rid ∈ w.k.current.toList ++ w.k.locks) : WT (w.modR rid f) := by
  refine h.tk (XW := NoX) (XH := (· = rid)) (TK.modR w rid f hf (Or.inr hw) (Or.inl rfl)) (fun _ _ hx => absurd hx id) ?_
  intro h0 y hx hd
  have e : y = rid := hx
  rw [e] at hd ⊢
  have hh : w.k.hasRec rid := (hasRec_modR w rid rid f hf).mp (hasRec_of_depth hd)
  have eg : (w.modR rid f).k.getR rid = f (w.k.getR rid) := getR_modRec_same w.k rid f hf hh
  rw [eg] at hd
  exact hm h0 hd

theorem applyLock_wt (s : DB) (h : DBKT s) (c : Engine.Cmd) (hk : KI s.seq (s.getKey c.key)) (data : Option Bytes) (b : LockBranch)
    (hb : ∀ x, b.holderOf = some x → x ∈ (s.getKey c.key).current.toList ++ (s.getKey c.key).locks) :
    WT (applyLock s c data b) := by
  have he := WT.enter h c.key
  have htomb : ∀ x, b.holderOf = some x → ((s.enter c.key).k.getR x).timeouted = true := by
    intro x hx
    rw [enter_k]; exact hk.ht x (hb x hx)
  cases b with
  | p0a => exact (WT.openKey' h c.key).q (TK.reply _ _ _ _ _)
  | p0b => exact WT.openKey' h c.key
  | stateError => exact he.removeIfZero.q (TK.reply _ _ _ _ _)
  | «show» cur => exact he.q (TK.reply _ _ _ _ _)
  | updateEqual x => exact he.q (TK.reply _ _ _ _ _)
  | relockNoHold x => exact he.q (TK.reply _ _ _ _ _)
  | relockRefused x => exact he.q (TK.reply _ _ _ _ _)
  | unlockedWaitRefused => exact he.q (TK.reply _ _ _ _ _)
  | updateEqualData x => exact (he.q (TK.procData _ _ _ _ _)).q (TK.reply _ _ _ _ _)
  | update x =>
    simp only [applyLock]
    have h1 := he.q (TK.procData (s.enter c.key) .lock (lockCmdOf (s.enter c.key).k c (.update x)) (frameOf (lockCmdOf (s.enter c.key).k c (.update x)) data) x)
    have t1 : (((s.enter c.key).procData .lock (lockCmdOf (s.enter c.key).k c (.update x)) (frameOf (lockCmdOf (s.enter c.key).k c (.update x)) data) x).k.getR x).timeouted = true :=
      tomb_pk (pk_procData ins_timeouted _ _ _ _ _) (htomb x rfl)
    have h3 := (h1.updateLocked x (lockCmdOf (s.enter c.key).k c (.update x)) t1).q
      (TK.when _ (!has (lockCmdOf (s.enter c.key).k c (.update x)).flag Slock.Engine.F_FROM_AOF) (·.journalLock x AOF_UPDATED) (TK.journalLock _ _ _))
    exact (h3.q (TK.reply _ _ _ _ _)).wake
  | relock x =>
    simp only [applyLock]
    have h1 : WT ((s.enter c.key).modR x (fun r => { r with depth := r.depth + 1 })) :=
      he.modDepth x _ (fun _ => rfl) (fun _ => rfl) (fun _ _ => by rw [enter_k]; exact hb x rfl)
    have h3 := (h1.q (TK.modK _ incLocked rfl rfl)).q (TK.procData _ .lock c (frameOf c data) x)
    have t3 : (((((s.enter c.key).modR x (fun r => { r with depth := r.depth + 1 })).modK incLocked).procData .lock c (frameOf c data) x).k.getR x).timeouted = true :=
      tomb_pk ((pk_procData ins_timeouted _ _ _ _ _).trans
        (PK.trans (b := (s.enter c.key).modR x (fun r => { r with depth := r.depth + 1 })) (PKeep.of_eq rfl)
          (pk_modR _ x (fun r => { r with depth := r.depth + 1 }) (fun _ => rfl) (fun _ => rfl)))) (htomb x rfl)
    have h5 := ((h3.updateLocked x c t3).q (TK.journalLock _ x AOF_UPDATED)).q
      (TK.ctr _ (fun y => { y with lockCount := y.lockCount + 1, lockedCount := y.lockedCount + 1 }))
    exact (h5.q (TK.reply _ _ _ _ _)).wake
  | grant =>
    simp only [applyLock]
    have h1 := (he.newLock c data).grant (s.enter c.key).db.nextRid
    unfold W.when
    split
    · exact h1.wake
    · exact h1
  | grantNoHold =>
    simp only [applyLock]
    have h3 := ((((he.newLock c data).q (TK.grantNoHold _ (s.enter c.key).db.nextRid)).freeCheck (s.enter c.key).db.nextRid).q
      (TK.ctr _ (fun x => { x with lockCount := x.lockCount + 1 }))).q (TK.reply _ c Slock.Engine.RESULT_SUCCED 0 (s.enter c.key).lockData)
    unfold W.when
    split
    · exact h3.wake
    · exact h3
  | queue =>
    simp only [applyLock]
    have h2 : WT (((s.enter c.key).newLock c data).1.modK (·.addWaitLock (s.enter c.key).db.nextRid)) :=
      (he.newLock c data).q ⟨rfl, ktk_addWaitLock _ _⟩
    have h3 := h2.armT_after (s.enter c.key).db.nextRid (TK.refl _) (fun _ => addWaitLock_self _ _)
    exact (h3.q (TK.ref _ _)).q (TK.ctr _ _)
  | timeout =>
    simp only [applyLock]
    exact ((he.newLock c data).freeCheck _).q (TK.reply _ _ _ _ _)

theorem applyUnlock_wt (s : DB) (h : DBKT s) (c : Engine.Cmd) (data : Option Bytes) (b : UnlockBranch) : WT (applyUnlock s c data b) := by
  have ho : WT (s.openKey c.key) := WT.openKey' h c.key
  cases b with
  | noManager => exact ho
  | stateError => exact (ho.q (TK.ctr _ _)).q (TK.reply _ _ _ _ _)
  | notLocked => exact (ho.q (TK.ctr _ _)).q (TK.reply _ _ _ _ _)
  | unown => exact (ho.q (TK.ctr _ _)).q (TK.reply _ _ _ _ _)
  | cancelNone => exact (ho.q (TK.ctr _ _)).q (TK.reply _ _ _ _ _)
  | cancel x =>
    simp only [applyUnlock]
    have h3 := ((ho.tomb x).dropLongT x (getR_tomb _ x)).settleWait
    have h5 := ((h3.q (TK.ctr _ (fun y => { y with waitCount := y.waitCount - 1 }))).removeIfZero).q
      (TK.ctr _ (fun y => { y with unLockCount := y.unLockCount + 1 }))
    exact ((h5.q (TK.reply _ _ _ _ _)).q (TK.reply _ _ _ _ _)).wake
  | dec x c' =>
    simp only [applyUnlock]
    have h1 : WT ((s.openKey c.key).modR x (fun r => { r with depth := r.depth - 1 })) := by
      refine ho.modDepth x _ (fun _ => rfl) (fun _ => rfl) ?_
      intro h0 hd
      have hd' : 0 < ((s.openKey c.key).k.getR x).depth := by
        have : 0 < ((s.openKey c.key).k.getR x).depth - 1 := hd
        omega
      exact h0.hq x (hasRec_of_depth hd') hd'
    have h4 := (((h1.q (TK.modK _ (fun k => { k with locked := k.locked - 1 }) rfl rfl)).q (TK.procData _ .unlock c' (frameOf c' data) x)).q
      (TK.journalUnlock _ x (has c'.flag Slock.Engine.F_FROM_AOF) true AOF_UPDATED)).q
      (TK.ctr _ (fun y => { y with unLockCount := y.unLockCount + 1, lockedCount := y.lockedCount - 1 }))
    exact (h4.q (TK.reply _ _ _ _ _)).wake
  | release x c' =>
    simp only [applyUnlock]
    have h2 := ((ho.q (TK.modR_q _ x (fun r => { r with expried := true }) (fun _ => rfl) (fun _ => rfl))).q
      (TK.modK _ (fun k => { k with locked := k.locked - ((s.openKey c.key).k.getR x).depth }) rfl rfl)).q (TK.procData _ .unlock c' (frameOf c' data) x)
    have h5 := ((h2.q (TK.dropLongE _ x)).q (TK.journalUnlock _ x (has c'.flag Slock.Engine.F_FROM_AOF) false 0)).removeLock x
    exact (((h5.when_freeCheck _ x).q (TK.ctr _ _)).q (TK.reply _ _ _ _ _)).wake

end Slock.SimTick
