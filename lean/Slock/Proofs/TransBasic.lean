import Slock.Model.Trans
/-! M-TRANS: what each kind of step hands to clients and to the leader (per-step facts, any state). -/
namespace Slock.Trans
open Slock.Gen

/-- the lock / unlock result a client message carries (binary frame or one of the two text renderings) -/
def Carries (m : ToClient) (r : LockRes) : Prop := m = .lockRes r ∨ m = .textRes r ∨ m = .valueRes r

theorem carries_renderText (md : TextMode) (r : LockRes) : Carries (renderText md r) r := by
  cases md <;> simp [renderText, Carries]

theorem carries_inj {m : ToClient} {r r' : LockRes} (h : Carries m r) (h' : Carries m r') : r = r' := by
  rcases h with rfl | rfl | rfl <;> rcases h' with h' | h' | h' <;> cases h' <;> rfl

/-! ### `CheckClient` -/

theorem checkClient_some {s : Node} {x : Conn} {ic : Option (Nat × Nat)} {l : Link} {n : Bool} {pre : List Fwd}
    (h : checkClient s x ic = some (l, n, pre)) :
    (n = false ∧ x.link = some l ∧ pre = []) ∨
    (n = true ∧ x.link = none ∧ l = newLink ic ∧ pre = openFwd ic ∧ s.role.opens = true ∧ s.addr = .live) := by
  unfold checkClient at h
  split at h
  · cases h; exact Or.inl ⟨rfl, by assumption, rfl⟩
  · split at h
    · cases h; rename_i h1 h2; exact Or.inr ⟨rfl, h1, rfl, rfl, h2.1, h2.2⟩
    · cases h

theorem checkClient_none {s : Node} {x : Conn} {ic : Option (Nat × Nat)} (h : checkClient s x ic = none) :
    x.link = none ∧ ¬(s.role.opens = true ∧ s.addr = .live) := by
  unfold checkClient at h
  split at h
  · cases h
  · split at h
    · cases h
    · exact ⟨by assumption, by assumption⟩

/-! ### classify: what each branch says about the request -/

theorem classify_lk_refuse {s : Node} {x : Conn} {short : Bool} {ct md cmd rep} {m : ToClient}
    (h : classify s x short (.lk ct md cmd rep) = .refuse m) :
    (m = .lockRes (localRes ct cmd C.RESULT_UNKNOWN_DB 0 0 []) ∨ m = .lockRes (localRes ct cmd C.RESULT_STATE_ERROR 0 0 []) ∨
       m = .textErr .unknownDb ∨ m = .textErr .leaderServerError) := by
  unfold classify at h
  repeat' split at h
  all_goals (try cases h)
  all_goals simp_all


/-- a refusal is only fabricated for the reserved database id, or when `CheckClient` yields no link -/
theorem classify_lk_refuse_why {s : Node} {x : Conn} {short : Bool} {ct md cmd rep} {m : ToClient}
    (h : classify s x short (.lk ct md cmd rep) = .refuse m) :
    cmd.dbId = 255 ∨ (∃ ic, checkClient s x ic = none) := by
  unfold classify at h
  repeat' split at h
  all_goals (try cases h)
  all_goals simp_all
  all_goals exact ⟨_, by assumption⟩

theorem classify_lk_probed {s : Node} {x : Conn} {short : Bool} {ct md cmd rep} {r : LockRes}
    (h : classify s x short (.lk ct md cmd rep) = .probed r) :
    ct = .lock ∧ x.kind = .binary ∧ ∃ lc d, probe cmd rep = some (lc, d) ∧ r = localRes .lock cmd C.RESULT_TIMEOUT lc 0 d := by
  unfold classify at h
  repeat' split at h
  all_goals (try cases h)
  all_goals simp_all
  all_goals exact ⟨_, _, ⟨rfl, rfl⟩, rfl⟩

theorem classify_lk_fwd {s : Node} {x : Conn} {short : Bool} {ct md cmd rep ct' cmd' l n pre aw ack}
    (h : classify s x short (.lk ct md cmd rep) = .fwdLk ct' cmd' l n pre aw ack) :
    ct' = ct ∧ cmd' = cmd ∧ s.role ≠ .leader ∧ x.closed = false ∧ x.awaiting = none ∧
    ((x.kind = .binary ∧ checkClient s x x.initCmd = some (l, n, pre) ∧ aw = none ∧ ack = none) ∨
     (x.kind = .text ∧ checkClient s x none = some (l, n, pre) ∧
        ((md = .push ∧ aw = none ∧ ack = some .textOk) ∨ (md ≠ .push ∧ aw = some (cmd.rid, md) ∧ ack = none)))) := by
  unfold classify at h
  repeat' split at h
  all_goals (try cases h)
  all_goals simp_all

theorem classify_lk_shape {s : Node} {x : Conn} {short : Bool} {ct md cmd rep} :
    classify s x short (.lk ct md cmd rep) = .ign ∨ classify s x short (.lk ct md cmd rep) = .busy ∨
    classify s x short (.lk ct md cmd rep) = .loc ∨ (∃ m, classify s x short (.lk ct md cmd rep) = .refuse m) ∨
    (∃ r, classify s x short (.lk ct md cmd rep) = .probed r) ∨
    (∃ l n pre aw ack, classify s x short (.lk ct md cmd rep) = .fwdLk ct cmd l n pre aw ack) := by
  unfold classify
  repeat' split
  all_goals simp_all

/-- a LOCK / UNLOCK is handed to the node's own engine only when the node is the leader, or as the first, short command
of a text connection -/
theorem classify_lk_loc {s : Node} {x : Conn} {short : Bool} {ct md cmd rep}
    (h : classify s x short (.lk ct md cmd rep) = .loc) :
    s.role = .leader ∨ (x.kind = .text ∧ x.plainLoop = none ∧ short = true) := by
  unfold classify at h
  repeat' split at h
  all_goals (try cases h)
  all_goals simp_all

theorem classify_leader {s : Node} {x : Conn} {short : Bool} {q : Req} (h : s.role = .leader) :
    classify s x short q = .ign ∨ classify s x short q = .busy ∨ classify s x short q = .loc := by
  unfold classify
  repeat' split
  all_goals simp_all

theorem classify_leader_open {s : Node} {x : Conn} {short : Bool} {q : Req} (h : s.role = .leader)
    (ho : x.closed = false) (ha : x.awaiting = none) : classify s x short q = .loc := by
  unfold classify
  simp [h, ho, ha]

theorem classify_init_shape {s : Node} {x : Conn} {short : Bool} {rid cid} :
    classify s x short (.init rid cid) = .ign ∨ classify s x short (.init rid cid) = .busy ∨
    classify s x short (.init rid cid) = .loc ∨ classify s x short (.init rid cid) = .initRefused rid cid ∨
    (∃ l n pre, classify s x short (.init rid cid) = .fwdInit rid cid l n ∧ checkClient s x (some (rid, cid)) = some (l, n, pre)) := by
  unfold classify
  repeat' split
  all_goals simp_all

theorem classify_call_shape {s : Node} {x : Conn} {short : Bool} {rid fw} :
    classify s x short (.call rid fw) = .ign ∨ classify s x short (.call rid fw) = .busy ∨
    classify s x short (.call rid fw) = .loc ∨ classify s x short (.call rid fw) = .refuse (.callRes rid C.RESULT_STATE_ERROR []) ∨
    (∃ l n pre, classify s x short (.call rid fw) = .fwdCall rid l n pre ∧ checkClient s x x.initCmd = some (l, n, pre)) := by
  unfold classify
  repeat' split
  all_goals simp_all

theorem classify_other_shape {s : Node} {x : Conn} {short : Bool} :
    classify s x short .other = .ign ∨ classify s x short .other = .busy ∨ classify s x short .other = .loc := by
  unfold classify
  repeat' split
  all_goals simp_all

theorem classify_will_shape {s : Node} {x : Conn} {short : Bool} {ct : CType} {cmd : LockCmd} :
    classify s x short (.will ct cmd) = .ign ∨ classify s x short (.will ct cmd) = .busy ∨ classify s x short (.will ct cmd) = .loc := by
  unfold classify
  repeat' split
  all_goals simp_all

/-! ### will commands are handled before `classify` -/

theorem will_or_not (q : Req) : (∃ ct cmd, q = .will ct cmd) ∨ (∀ ct cmd, q ≠ .will ct cmd) := by
  cases q <;> simp

theorem stepRequest_eq {s : Node} {c : Nat} {short : Bool} {q : Req} (hq : ∀ ct cmd, q ≠ .will ct cmd) :
    stepRequest s c short q =
    match s.conns[c]? with
    | none => (s, { tag := .ign })
    | some x => ({ s with conns := s.conns.set c (applyConn s c x (reqRid q) (classify s x short q)).1 },
                 (applyConn s c x (reqRid q) (classify s x short q)).2) := by
  cases q with
  | will ct cmd => exact absurd rfl (hq ct cmd)
  | lk _ _ _ _ => rfl
  | init _ _ => rfl
  | call _ _ => rfl
  | other => rfl

theorem stepRequest_will (s : Node) (c : Nat) (short : Bool) (ct : CType) (cmd : LockCmd) :
    stepRequest s c short (.will ct cmd) =
    match s.conns[c]? with
    | none => (s, { tag := .ign })
    | some x => ({ s with conns := s.conns.set c (willConn s c x ct cmd).1 }, (willConn s c x ct cmd).2) := rfl

theorem willConn_client {s : Node} {c : Nat} {x : Conn} {ct : CType} {cmd : LockCmd} {c' : Nat} {m : ToClient}
    (h : (c', m) ∈ (willConn s c x ct cmd).2.client) : c' = c ∧ m = .textOk := by
  unfold willConn at h
  repeat' split at h
  all_goals simp at h
  exact h

theorem willConn_fwd (s : Node) (c : Nat) (x : Conn) (ct : CType) (cmd : LockCmd) : (willConn s c x ct cmd).2.fwd = [] := by
  unfold willConn
  repeat' split
  all_goals rfl

theorem willConn_tag (s : Node) (c : Nat) (x : Conn) (ct : CType) (cmd : LockCmd) :
    (willConn s c x ct cmd).2.tag = .ign ∨ (willConn s c x ct cmd).2.tag = .busy ∨ (willConn s c x ct cmd).2.tag = .stored := by
  unfold willConn
  repeat' split
  all_goals simp

end Slock.Trans
