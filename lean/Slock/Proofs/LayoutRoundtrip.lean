import Slock.Proofs.Layout
/-! Generic round-trip theorems over any layout table satisfying the decidable conditions. -/
namespace Slock.Layout

theorem consistent_enc_length {L : Layout} (h : consistent L = true) : L.enc.length = 64 := by
  unfold consistent at h
  simp only [Bool.and_eq_true, beq_iff_eq] at h
  exact h.1.1

theorem consistent_fieldOK {L : Layout} (h : consistent L = true) {f : Nat} (hf : f < L.fields.length) :
    fieldOK L f = true := by
  unfold consistent at h
  simp only [Bool.and_eq_true, List.all_eq_true, List.mem_range] at h
  exact h.2 f hf

theorem encAt_lt {L : Layout} {o : Nat} {s : Src} (h : encAt L o = s) (hs : s ≠ .undef) : o < L.enc.length := by
  by_cases ho : o < L.enc.length
  · exact ho
  · exfalso; apply hs; rw [← h]; unfold encAt
    simp [List.getD, List.getElem?_eq_none (by omega : L.enc.length ≤ o)]

theorem intFieldOK_spec {L : Layout} {f : Nat} (h : intFieldOK L f = true) :
    (L.dec.getD f []).length = (L.fields.getD f default).width ∧
    ∀ i, i < (L.fields.getD f default).width → encAt L ((L.dec.getD f []).getD i 64) = .field f i := by
  unfold intFieldOK at h
  simp only [Bool.and_eq_true, beq_iff_eq, List.all_eq_true, List.mem_range] at h
  exact h

/-- decoding an int/bytes field of an encoded frame -/
theorem decodeInt_encode {L : Layout} (v : Val) (old : Bytes) {f : Nat}
    (h : intFieldOK L f = true) (hw : (v.getD f []).length = (L.fields.getD f default).width) :
    decodeInt (encode L v old) (L.dec.getD f []) = v.getD f [] := by
  obtain ⟨hlen, henc⟩ := intFieldOK_spec h
  unfold decodeInt
  rw [map_eq_map_range, hlen]
  have : (List.range (L.fields.getD f default).width).map
        (fun i => (encode L v old).getD ((L.dec.getD f []).getD i 64) 0)
      = (List.range (L.fields.getD f default).width).map (fun i => (v.getD f []).getD i 0) := by
    apply List.map_congr_left
    intro i hi
    have hi' := List.mem_range.mp hi
    have he := henc i hi'
    rw [encode_getD L v old _ (encAt_lt he (by simp)), he]
    rfl
  rw [this]
  exact map_range_getD _ _ hw

theorem region_encode_str {L : Layout} (v : Val) (old : Bytes) (f start n : Nat)
    (hall : ∀ i, i < n → encAt L (start + i) = .str f i) :
    region (encode L v old) start n = pad (v.getD f []) n := by
  unfold region pad
  apply List.map_congr_left
  intro i hi
  have hi' := List.mem_range.mp hi
  have he := hall i hi'
  rw [encode_getD L v old _ (encAt_lt he (by simp)), he]
  rfl

end Slock.Layout
