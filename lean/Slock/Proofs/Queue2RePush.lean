import Slock.Proofs.Queue2Wait
/-!
# RePushPriorityRingQueue, and what the stable-priority specification means
-/
namespace Slock.Queue2

/-- insert the elements of `l` one by one (in order) with the stable priority insert -/
def specSortInto (acc : List Slot) (l : List Slot) : List Slot := l.foldl (fun a x => specPushPrio x a) acc

/-- stable sort by priority, descending -/
def specSortPrio (l : List Slot) : List Slot := specSortInto [] l

theorem specSortInto_append (acc a b : List Slot) :
    specSortInto acc (a ++ b) = specSortInto (specSortInto acc a) b := by
  simp [specSortInto, List.foldl_append]

def SortedDesc (l : List Slot) : Prop := l.Pairwise (fun a b => prioOf a ≥ prioOf b)

theorem mem_specPushPrio (x y : Slot) (l : List Slot) : y ∈ specPushPrio x l ↔ y = x ∨ y ∈ l := by
  induction l with
  | nil => simp [specPushPrio]
  | cons a l ih =>
    unfold specPushPrio
    split
    · simp only [List.mem_cons, ih]
      constructor
      · rintro (h | h | h) <;> simp [h]
      · rintro (h | h | h) <;> simp [h]
    · simp

/-- the stable insert keeps a descending list descending -/
theorem specPushPrio_sorted (x : Slot) (l : List Slot) (h : SortedDesc l) : SortedDesc (specPushPrio x l) := by
  induction l with
  | nil => simp [specPushPrio, SortedDesc]
  | cons a l ih =>
    have hp := List.pairwise_cons.mp h
    unfold specPushPrio
    split
    · rename_i hge
      refine List.pairwise_cons.mpr ⟨?_, ih hp.2⟩
      intro y hy
      rcases (mem_specPushPrio x y l).mp hy with rfl | hy
      · exact hge
      · exact hp.1 y hy
    · rename_i hlt
      refine List.pairwise_cons.mpr ⟨?_, h⟩
      intro y hy
      rcases List.mem_cons.mp hy with rfl | hy
      · omega
      · have := hp.1 y hy; omega

/-- the stable insert adds exactly `x` (as a permutation) -/
theorem specPushPrio_perm (x : Slot) (l : List Slot) : (specPushPrio x l).Perm (x :: l) := by
  induction l with
  | nil => exact List.Perm.refl _
  | cons a l ih =>
    unfold specPushPrio
    split
    · exact (List.Perm.cons a ih).trans (List.Perm.swap x a l)
    · exact List.Perm.refl _

/-- stability: among the elements of any one priority, `x` comes last and the rest keep their order -/
theorem specPushPrio_stable (x : Slot) (l : List Slot) (p : Nat) (h : SortedDesc l) :
    (specPushPrio x l).filter (fun y => prioOf y == p) =
      l.filter (fun y => prioOf y == p) ++ [x].filter (fun y => prioOf y == p) := by
  induction l with
  | nil => simp [specPushPrio]
  | cons a l ih =>
    have hp := List.pairwise_cons.mp h
    unfold specPushPrio
    split
    · simp only [List.filter_cons, ih hp.2]
      split <;> simp
    · rename_i hlt
      by_cases hx : prioOf x = p
      · have hnil : (a :: l).filter (fun y => prioOf y == p) = [] := by
          apply List.filter_eq_nil_iff.mpr
          intro y hy
          have : prioOf y ≤ prioOf a := by
            rcases List.mem_cons.mp hy with rfl | hy
            · exact Nat.le_refl _
            · exact hp.1 y hy
          simp only [beq_iff_eq]; omega
        rw [List.filter_cons, hnil]
        simp [hx]
      · simp [List.filter_cons, hx]

theorem specSortInto_sorted (acc l : List Slot) (h : SortedDesc acc) : SortedDesc (specSortInto acc l) := by
  induction l generalizing acc with
  | nil => exact h
  | cons x l ih => exact ih _ (specPushPrio_sorted x acc h)

theorem specSortInto_perm (acc l : List Slot) : (specSortInto acc l).Perm (acc ++ l) := by
  induction l generalizing acc with
  | nil => simp [specSortInto]
  | cons x l ih =>
    refine (ih (specPushPrio x acc)).trans ?_
    refine ((specPushPrio_perm x acc).append_right l).trans ?_
    simp only [List.cons_append]
    exact (List.perm_middle (l₁ := acc) (a := x) (l₂ := l)).symm

theorem specSortInto_stable (acc l : List Slot) (p : Nat) (h : SortedDesc acc) :
    (specSortInto acc l).filter (fun y => prioOf y == p) =
      acc.filter (fun y => prioOf y == p) ++ l.filter (fun y => prioOf y == p) := by
  induction l generalizing acc with
  | nil => simp [specSortInto]
  | cons x l ih =>
    show (specSortInto (specPushPrio x acc) l).filter _ = _
    rw [ih _ (specPushPrio_sorted x acc h), specPushPrio_stable x acc p h]
    simp [List.filter_cons]
    split <;> simp

/-- `specSortPrio` IS the stable descending sort: sorted, a permutation, and order-preserving
within every priority class (these three determine it uniquely). -/
theorem specSortPrio_spec (l : List Slot) :
    SortedDesc (specSortPrio l) ∧ (specSortPrio l).Perm l ∧
      ∀ p, (specSortPrio l).filter (fun y => prioOf y == p) = l.filter (fun y => prioOf y == p) := by
  unfold specSortPrio
  refine ⟨specSortInto_sorted [] l (by simp [SortedDesc]), ?_, ?_⟩
  · simpa using specSortInto_perm [] l
  · intro p
    simpa using specSortInto_stable [] l p (by simp [SortedDesc])

/-! ## the implementation side -/

theorem pushAll_refines (grow : Nat → Nat) (hg : GrowOK grow) (l : List Slot) (p : PRing) (h : p.Inv)
    (hl : ∀ s ∈ l, s ≠ none) :
    ∃ p', pushAll grow p l = .ok p' ∧ p'.Inv ∧ p'.abs = specSortInto p.abs l := by
  induction l generalizing p with
  | nil => exact ⟨p, rfl, h, rfl⟩
  | cons x l ih =>
    cases x with
    | none => exact absurd rfl (hl none (by simp))
    | some e =>
      obtain ⟨p1, h1, h2, h3, _⟩ := PRing.push_refines grow hg p e h
      obtain ⟨p2, g1, g2, g3⟩ := ih p1 h2 (fun s hs => hl s (by simp [hs]))
      refine ⟨p2, ?_, g2, ?_⟩
      · simp only [pushAll, h1, g1]
      · rw [g3, h3]; rfl

theorem drainInto_ring (grow : Nat → Nat) (fuel : Nat) (r : Ring) (p : PRing) (h : r.Inv)
    (hl : ∀ s ∈ r.abs, s ≠ none) (hf : r.abs.length < fuel) :
    drainInto grow fuel (.ring r) p = pushAll grow p r.abs := by
  induction fuel generalizing r p with
  | zero => omega
  | succ fuel ih =>
    obtain ⟨a, b, c⟩ := Ring.pop_refines r h
    cases hab : r.abs with
    | nil =>
      rw [hab] at c
      simp only [drainInto, WRing.pop, c, List.headD_nil, pushAll]
    | cons s t =>
      rw [hab] at b c
      simp only [List.tail_cons] at b
      simp only [List.headD_cons] at c
      cases s with
      | none => exact absurd rfl (hl none (by simp [hab]))
      | some e =>
        simp only [drainInto, WRing.pop, c, pushAll]
        cases p.push grow (some e) with
        | panic => rfl
        | ok p' =>
          simp only
          rw [ih r.pop.1 p' a (fun s hs => hl s (by rw [hab]; rw [b] at hs; simp [hs]))
            (by rw [b]; rw [hab] at hf; simp at hf; omega), b]

theorem drainInto_nil (grow : Nat → Nat) (fuel : Nat) (p : PRing) :
    drainInto grow fuel .nil p = .ok p := by
  cases fuel <;> simp [drainInto, WRing.pop]

/-- RePushPriorityRingQueue in FIFO mode, no nil lock queued: switches to priority mode and the new
content is the stable descending sort of the old content.  (In priority mode it does nothing.) -/
theorem WaitQ.rePush_refines (grow : Nat → Nat) (hg : GrowOK grow) (q : WaitQ) (h : q.Inv)
    (hm : 0 ≤ q.fastIndex) (hnn : ∀ s ∈ q.abs, s ≠ none) :
    ∃ q', q.rePush grow = .ok q' ∧ q'.Inv ∧ q'.fastIndex < 0 ∧ q'.abs = specSortPrio q.abs := by
  obtain ⟨hr, hfast, hnone, hge, hmode⟩ := h
  have hneg : ¬ q.fastIndex < 0 := by omega
  obtain ⟨p1, a1, a2, a3⟩ := pushAll_refines grow hg q.fastPart (PRing.new 16) (PRing.new_inv 16)
    (fun s hs => hnn s (by simp [WaitQ.abs, hs]))
  rw [PRing.new_abs] at a3
  have hdrain : ∃ p2, drainInto grow (q.ring.len.toNat + 1) q.ring p1 = .ok p2 ∧ p2.Inv ∧
      p2.abs = specSortInto p1.abs q.ring.abs := by
    cases hw : q.ring with
    | prio p => exact absurd (hmode.mpr ⟨p, hw⟩) hneg
    | nil => exact ⟨p1, drainInto_nil _ _ _, a2, rfl⟩
    | ring r =>
      rw [hw] at hr
      have hl : ∀ s ∈ r.abs, s ≠ none := fun s hs => hnn s (by simp [WaitQ.abs, hw, WRing.abs, hs])
      have hlen : r.abs.length < (WRing.ring r).len.toNat + 1 := by
        have := Ring.len_refines r hr
        simp only [WRing.len, this]; omega
      rw [drainInto_ring grow _ r p1 hr hl hlen]
      exact pushAll_refines grow hg r.abs p1 a2 hl
  obtain ⟨p2, b1, b2, b3⟩ := hdrain
  refine ⟨⟨(match q.fastActive with | some f => some ⟨[], f.cap⟩ | none => q.fast), -1, .prio p2⟩,
    ?_, ?_, by simp, ?_⟩
  · unfold WaitQ.rePush
    rw [if_neg hneg]
    have : q.fastSlice = q.fastPart := rfl
    simp only [this, a1, b1]
    cases q.fastActive <;> rfl
  · refine ⟨b2, ?_, ?_, by simp, ?_⟩
    · intro f hf
      cases hfa : q.fastActive with
      | some f0 =>
        rw [hfa] at hf; simp at hf; subst hf; simp
      | none =>
        rw [hfa] at hf
        have := (hfast f hf).1
        simp only; omega
    · intro _; simp
    · simp
  · have e : (WaitQ.mk (match q.fastActive with | some f => some ⟨[], f.cap⟩ | none => q.fast) (-1)
        (.prio p2)).fastPart = [] := WaitQ.fastPart_neg _ (by simp)
    simp only [WaitQ.abs, e, List.nil_append, WRing.abs, b3, a3, specSortPrio, specSortInto_append]

/-- RePushPriorityRingQueue in priority mode is a no-op. -/
theorem WaitQ.rePush_prio (grow : Nat → Nat) (q : WaitQ) (hm : q.fastIndex < 0) :
    q.rePush grow = .ok q := by
  simp [WaitQ.rePush, hm]

end Slock.Queue2
