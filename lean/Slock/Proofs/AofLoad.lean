import Slock.Proofs.AofRead
/-!
`LoadAofFile` over a file written by the writer: complete records are delivered exactly (for every buffer size), a cut of
the value file stops the load quietly at the first record whose value is missing, a cut inside the header is a start-up
error, and a torn record is either a start-up error or replayed completed with the previous record's bytes.
-/
namespace Slock.Aof

/-- A record as the writer emits it. -/
def WFRec (r : Rec) : Prop :=
  WFBuf r.buf ∧ match r.data with
    | none => hasData r.buf = false
    | some b => hasData r.buf = true ∧ BlobWF b

/-- Records that survive the expired-record filter at `now`. -/
def live (now : Int) (recs : List Rec) : List Rec := recs.filter (fun r => !skipped r.buf now)

/-- The loop of `LoadAofFile` over a list of complete records (only their 64 bytes are used; values come from the value
reader `d`), continuing with `K` after the last one. -/
def specK (now : Int) (K : Option Rd → Bytes → List Rec × Stop × Bytes) :
    List Rec → Option Rd → Bytes → List Rec × Stop × Bytes
  | [], d, buf => K d buf
  | r :: rs, d, _ =>
    if hasData r.buf then
      match d with
      | none => ([], .err, r.buf)
      | some dr =>
        match readLockData dr with
        | none => ([], .eof, r.buf)
        | some (blob, dr') => deliver now r.buf (some blob) (specK now K rs (some dr') r.buf)
    else deliver now r.buf none (specK now K rs d r.buf)

theorem encodeRecs_cons (r : Rec) (rs : List Rec) : encodeRecs (r :: rs) = r.buf ++ encodeRecs rs := by
  simp [encodeRecs]

theorem encodeRecs_length (recs : List Rec) (h : ∀ r ∈ recs, WFBuf r.buf) : (encodeRecs recs).length = 64 * recs.length := by
  induction recs with
  | nil => rfl
  | cons r rs ih =>
    rw [encodeRecs_cons, List.length_append, (h r (by simp)).length, ih (fun x hx => h x (by simp [hx]))]
    simp; omega

/-- The record part: `loadLoop` over a stream that starts with complete records behaves as `specK`, continuing on the rest
of the stream — for every buffer size and fill state. -/
theorem loadLoop_records (now : Int) : ∀ (recs : List Rec) (r : Rd) (tl : Bytes) (fuel : Nat),
    (∀ x ∈ recs, WFBuf x.buf) → r.Inv → r.s = encodeRecs recs ++ tl → recs.length ≤ fuel →
    ∃ r', r'.s = tl ∧ r'.cap = r.cap ∧ r'.Inv ∧ ∀ d buf, OldOK buf →
      loadLoop now fuel r d buf = specK now (fun d' buf' => loadLoop now (fuel - recs.length) r' d' buf') recs d buf
  | [], r, tl, fuel, _, hi, hs, _ => by
    refine ⟨r, by simpa [encodeRecs] using hs, rfl, hi, ?_⟩
    intro d buf _
    simp [specK]
  | x :: rs, r, tl, fuel, hw, hi, hs, hf => by
    obtain ⟨f, rfl⟩ : ∃ f, fuel = f + 1 := ⟨fuel - 1, by simp at hf; omega⟩
    have hx : WFBuf x.buf := hw x (by simp)
    rw [encodeRecs_cons, List.append_assoc] at hs
    obtain ⟨r1, hs1, hc1, hi1, hrl⟩ := readLock_complete r x.buf (encodeRecs rs ++ tl) hi hx hs
    obtain ⟨r', hs', hc', hi', ih⟩ := loadLoop_records now rs r1 tl f (fun y hy => hw y (by simp [hy])) hi1 hs1
      (by simp at hf; omega)
    refine ⟨r', hs', by rw [hc', hc1], hi', ?_⟩
    intro d buf hb
    have hfl : f + 1 - (x :: rs).length = f - rs.length := by simp
    rw [hfl]
    simp only [loadLoop, hrl buf hb, specK]
    cases hd : hasData x.buf with
    | true =>
      simp only [if_true]
      cases d with
      | none => rfl
      | some dr =>
        simp only
        cases hrd : readLockData dr with
        | none => rfl
        | some p =>
          obtain ⟨blob, dr'⟩ := p
          simp only [ih (some dr') x.buf hx.oldOK]
    | false =>
      simp only [Bool.false_eq_true, if_false]
      rw [ih d x.buf hx.oldOK]

/-- How many leading records have their value completely inside the first `dc` bytes of the value file. -/
def valuePrefix : List Rec → Nat → Nat
  | [], _ => 0
  | r :: rs, dc =>
    match r.data with
    | none => 1 + valuePrefix rs dc
    | some b => if b.length ≤ dc then 1 + valuePrefix rs (dc - b.length) else 0

def Kend : Option Rd → Bytes → List Rec × Stop × Bytes := fun _ buf => ([], .fileEnd, buf)

theorem deliver_fst (now : Int) (b : Bytes) (data : Option Bytes) (rest : List Rec × Stop × Bytes) :
    (deliver now b data rest).1 = live now [⟨b, data⟩] ++ rest.1 := by
  unfold deliver live
  by_cases h : skipped b now = true <;> simp [h]

theorem deliver_stop (now : Int) (b : Bytes) (data : Option Bytes) (rest : List Rec × Stop × Bytes) :
    (deliver now b data rest).2.1 = rest.2.1 := by
  unfold deliver
  by_cases h : skipped b now = true <;> simp [h]

theorem live_cons (now : Int) (r : Rec) (rs : List Rec) : live now (r :: rs) = live now [r] ++ live now rs := by
  unfold live
  by_cases h : skipped r.buf now = true <;> simp [h]

theorem encodeData_cons (r : Rec) (rs : List Rec) : encodeData (r :: rs) = r.data.getD [] ++ encodeData rs := by
  simp [encodeData]

/-- The value part: with the value file cut at `dc`, exactly the records whose values are complete are delivered; the load
stops quietly (io.EOF) at the first record whose value is missing; otherwise it ends as the continuation `K` ends (`K` delivers
nothing and stops with `st`). -/
theorem specK_values (now : Int) (K : Option Rd → Bytes → List Rec × Stop × Bytes) (st : Stop)
    (hK1 : ∀ d b, OldOK b → (K d b).1 = []) (hK2 : ∀ d b, OldOK b → (K d b).2.1 = st) :
    ∀ (recs : List Rec) (dr : Rd) (dc : Nat) (buf : Bytes),
    (∀ x ∈ recs, WFRec x) → OldOK buf → dr.Inv → dr.s = (encodeData recs).take dc →
    (specK now K recs (some dr) buf).1 = live now (recs.take (valuePrefix recs dc)) ∧
    (specK now K recs (some dr) buf).2.1 = (if valuePrefix recs dc = recs.length then st else Stop.eof)
  | [], dr, dc, buf, _, hb, _, _ => by simp [specK, hK1 _ _ hb, hK2 _ _ hb, live, valuePrefix]
  | x :: rs, dr, dc, buf, hw, _, hi, hs => by
    have hx := hw x (by simp)
    obtain ⟨hxb, hxd⟩ := hx
    cases hdat : x.data with
    | none =>
      rw [hdat] at hxd
      simp only at hxd
      have hs' : dr.s = (encodeData rs).take dc := by rw [hs, encodeData_cons, hdat]; rfl
      obtain ⟨ih1, ih2⟩ := specK_values now K st hK1 hK2 rs dr dc x.buf (fun y hy => hw y (by simp [hy])) hxb.oldOK hi hs'
      have hx' : x = ⟨x.buf, none⟩ := by cases x; simp_all
      simp only [specK, hxd, valuePrefix, hdat, Bool.false_eq_true, if_false]
      constructor
      · rw [deliver_fst, ih1, Nat.add_comm 1, List.take_succ_cons, live_cons now x, ← hx']
      · rw [deliver_stop, ih2]; simp [Nat.add_comm 1]
    | some blob =>
      rw [hdat] at hxd
      obtain ⟨hhd, hbw⟩ := hxd
      simp only [specK, hhd, if_true, valuePrefix, hdat]
      by_cases hle : blob.length ≤ dc
      · simp only [hle, if_true]
        have hsd : dr.s = blob ++ (encodeData rs).take (dc - blob.length) := by
          rw [hs, encodeData_cons, hdat]
          simp only [Option.getD_some]
          rw [List.take_append]
          rw [List.take_of_length_le hle]
        obtain ⟨dr', hrd, hs', _, hi'⟩ := readLockData_complete dr blob _ hi hbw hsd
        obtain ⟨ih1, ih2⟩ := specK_values now K st hK1 hK2 rs dr' (dc - blob.length) x.buf (fun y hy => hw y (by simp [hy])) hxb.oldOK hi' hs'
        have hx' : x = ⟨x.buf, some blob⟩ := by cases x; simp_all
        simp only [hrd]
        constructor
        · rw [deliver_fst, ih1, Nat.add_comm 1, List.take_succ_cons, live_cons now x, ← hx']
        · rw [deliver_stop, ih2]; simp [Nat.add_comm 1]
      · simp only [hle, if_false]
        have hsd : dr.s = blob.take dc := by
          rw [hs, encodeData_cons, hdat]
          simp only [Option.getD_some]
          rw [List.take_append_of_le_length (by omega)]
        rw [readLockData_short dr blob dc hi hbw hsd (by omega)]
        simp [live]

/-! ### header -/

theorem readHeader_ok (cap : Nat) (body : Bytes) :
    ∃ r', readHeader (Rd.open cap (headerBytes ++ body)) = .ok r' ∧ r'.s = body ∧ r'.Inv := by
  have hi := Rd.open_inv cap (headerBytes ++ body)
  obtain ⟨r1, hr1, hs1, _, hi1⟩ := read_all (Rd.open cap (headerBytes ++ body)) 12 hi (by omega)
    (by simp [Rd.open, headerBytes, magic]) (Or.inl rfl)
  refine ⟨r1, ?_, by simpa [Rd.open, headerBytes, magic] using hs1, hi1⟩
  unfold readHeader
  rw [hr1]
  have : (Rd.open cap (headerBytes ++ body)).s.take 12 = headerBytes := by simp [Rd.open, headerBytes, magic]
  simp only [this]
  have h8 : List.take 8 headerBytes = magic := by decide
  have hv : le16 headerBytes 8 = 1 := by decide
  have hh : le16 headerBytes 10 = 0 := by decide
  simp [h8, hv, hh]

theorem readHeader_short (cap : Nat) (f : Bytes) (h0 : 0 < f.length) (h12 : f.length < 12) :
    readHeader (Rd.open cap f) = .error .eof := by
  obtain ⟨m, r1, hr1, _, _, hm, _, _, _⟩ := read_some (Rd.open cap f) 12 (Rd.open_inv cap f) (by omega) (by simpa [Rd.open] using h0)
  unfold readHeader
  rw [hr1]
  have : m ≠ 12 := by simp [Rd.open] at hm; omega
  simp [this]

theorem readHeader_empty (cap : Nat) : readHeader (Rd.open cap []) = .error .eof := by
  unfold readHeader
  rw [read_none _ 12 (Rd.open_inv cap []) (by omega) (by simp [Rd.open])]

end Slock.Aof
