import Slock.Proofs.Engine2FutTick
/-! Stage-2 engine: every wheel entry of every reachable state is scheduled for a second the sweeper has not passed yet
(`tCheck ≤ visit` resp. `eCheck ≤ visit`, where `tCheck = eCheck = now + 1` between operations). -/
namespace Slock.Engine2

/-- what the sweeps read of the entry `sel` selects -/
def πs (sel : Rec → Option Sched) (r : Rec) : Option (Nat × Nat) := (sel r).map (fun s => (s.visit, s.seq))

/-- every `sel`-entry is scheduled after second `c`, or for `c` itself and still on the sweeper's list -/
def Inv (sel : Rec → Option Sched) (c : Nat) (db : DB) (pend : List Ent) : Prop :=
  ∀ k ∈ db.keys, ∀ r ∈ k.recs, ∀ s, sel r = some s → c < s.visit ∨ (s.visit = c ∧ (⟨k.key, r.rid, s.seq⟩ : Ent) ∈ pend)

theorem Inv.mono {sel : Rec → Option Sched} {c : Nat} {db : DB} {p p' : List Ent} (h : Inv sel c db p) (hp : ∀ x ∈ p, x ∈ p') : Inv sel c db p' := by
  intro k hk r hr s hs
  rcases h k hk r hr s hs with h1 | ⟨h1, h2⟩
  · exact Or.inl h1
  · exact Or.inr ⟨h1, hp _ h2⟩

theorem Inv.of_keys {sel : Rec → Option Sched} {c : Nat} {db db' : DB} {p : List Ent} (h : Inv sel c db p) (e : db'.keys = db.keys) : Inv sel c db' p := by
  intro k hk; rw [e] at hk; exact h k hk

theorem commit_other {db : DB} (key : Nat) (w' : W) (f : Fr (db.openKey key) w') : ∀ k ∈ w'.commit.keys, k.key ≠ key → k ∈ db.keys := by
  have hkey : w'.k.key = key := f.key.trans (getKey_key db key)
  have hsub : ∀ k ∈ w'.db.keys, k ∈ db.keys := by
    intro k hk'
    rcases f.dbk with ⟨a1, _, _⟩ | ⟨_, _, a3, _⟩
    · rw [a1] at hk'; exact hk'
    · rw [a3] at hk'; exact (List.mem_filter.mp hk').1
  intro k hk hne
  unfold W.commit at hk
  split at hk
  · exact hsub k hk
  · unfold DB.setKey at hk
    split at hk
    · simp only [List.mem_map] at hk
      obtain ⟨x, hx, e⟩ := hk
      split at e
      · rw [← e, hkey] at hne; exact absurd rfl hne
      · rw [← e]; exact hsub x hx
    · rcases List.mem_append.mp hk with h1 | h1
      · exact hsub k h1
      · simp at h1; rw [h1, hkey] at hne; exact absurd rfl hne

/-- storing back the key record of entry `e` after an `Ok`-step -/
theorem inv_commit (sel : Rec → Option Sched) (c : Nat) (db : DB) (key : Nat) (w' : W) (f : Fr (db.openKey key) w') (hs : DBside w')
    (nd : w'.gone = false → (w'.k.recs.map (·.rid)).Nodup)
    (ks : ∀ y, w'.k.hasRec y → Step c (πs sel (w'.k.getR y)) (πs sel ((db.getKey key).getR y)))
    (hdead : ∀ rid, sel (deadRec rid) = none)
    (e : Ent) (hek : e.key = key) (pend pend' : List Ent)
    (hp : ∀ x ∈ pend, x = e ∨ x ∈ pend')
    (own : e ∈ pend → w'.gone = false → w'.k.hasRec e.rid → Gone c (πs sel (w'.k.getR e.rid)) ∨ e ∈ pend')
    (hi : Inv sel c db pend) : Inv sel c w'.commit pend' := by
  intro k' hk' r' hr' s hs'
  by_cases hkk : k'.key = key
  · obtain ⟨hg, ek⟩ := commit_this key w' f hs k' hk' hkk
    rw [ek] at hr'
    have hy : w'.k.hasRec r'.rid := ⟨r', hr', rfl⟩
    have eg : w'.k.getR r'.rid = r' := mem_eq_getR (nd hg) hr'
    have hst := ks r'.rid hy
    rw [eg] at hst
    have hπ : πs sel r' = some (s.visit, s.seq) := by unfold πs; rw [hs']; rfl
    rw [hπ] at hst
    rcases hst with h1 | h1 | ⟨v, q, h1, h2⟩
    · simp at h1
    · -- the entry it had before
      have hg0 : (db.openKey key).gone = false := gone_of_fr f hg
      have hhas : db.hasKey key = true := by simpa [DB.openKey] using hg0
      by_cases hold : (db.getKey key).hasRec r'.rid
      · cases hso : sel ((db.getKey key).getR r'.rid) with
        | none => unfold πs at h1; rw [hso] at h1; simp at h1
        | some s0 =>
          unfold πs at h1; rw [hso] at h1
          simp only [Option.map_some, Option.some.injEq, Prod.mk.injEq] at h1
          have hinv := hi _ (getKey_mem db key hhas) _ (getR_mem hold) s0 hso
          rw [getKey_key, getR_rid, ← h1.1, ← h1.2] at hinv
          rcases hinv with h3 | ⟨h3, h4⟩
          · exact Or.inl h3
          · rcases hp _ h4 with h5 | h5
            · -- it is the entry the step was called for
              have he : e ∈ pend := h5 ▸ h4
              have hrid : e.rid = r'.rid := by rw [← h5]
              rcases own he hg (hrid ▸ hy) with h6 | h6
              · rw [hrid, eg, hπ] at h6
                rcases h6 with h6 | ⟨v, q, h6, h7⟩
                · simp at h6
                · simp only [Option.some.injEq, Prod.mk.injEq] at h6
                  left; rw [h6.1]; exact h7
              · right; rw [hkk]; exact ⟨h3, h5 ▸ h6⟩
            · right; rw [hkk]; exact ⟨h3, h5⟩
      · rw [getR_of_not_hasRec _ _ hold] at h1
        unfold πs at h1; rw [hdead] at h1; simp at h1
    · simp only [Option.some.injEq, Prod.mk.injEq] at h1
      left; rw [h1.1]; exact h2
  · have hm := commit_other key w' f k' hk' hkk
    rcases hi k' hm r' hr' s hs' with h1 | ⟨h1, h2⟩
    · exact Or.inl h1
    · rcases hp _ h2 with h3 | h3
      · exfalso; apply hkk; rw [← hek, ← h3]
      · exact Or.inr ⟨h1, h3⟩

/-- `KS` read for one wheel -/
theorem ks_t {ct ce : Nat} {k' k : Key} (h : KS ct ce k' k) : ∀ y, k'.hasRec y → Step ct (πs (·.tSched) (k'.getR y)) (πs (·.tSched) (k.getR y)) :=
  fun y hy => (h y hy).t
theorem ks_e {ct ce : Nat} {k' k : Key} (h : KS ct ce k' k) : ∀ y, k'.hasRec y → Step ce (πs (·.eSched) (k'.getR y)) (πs (·.eSched) (k.getR y)) :=
  fun y hy => (h y hy).e

/-- one `Ok` step on the key record of entry `e`, stored back: both scheduling invariants move along -/
theorem stepW_fut {ct ce : Nat} (db : DB) (hd : DBI db) (key : Nat) (w' : W) (f : Fr (db.openKey key) w') (lv : LvG w' zero)
    (ok : Ok ct ce (db.openKey key) w') (e : Ent) (hek : e.key = key) (pT pT' pE pE' : List Ent)
    (hpT : ∀ x ∈ pT, x = e ∨ x ∈ pT')
    (ownT : e ∈ pT → w'.gone = false → w'.k.hasRec e.rid → Gone ct (πT (w'.k.getR e.rid)) ∨ e ∈ pT')
    (hpE : ∀ x ∈ pE, x = e ∨ x ∈ pE')
    (ownE : e ∈ pE → w'.gone = false → w'.k.hasRec e.rid → Gone ce (πE (w'.k.getR e.rid)) ∨ e ∈ pE')
    (hiT : Inv (·.tSched) ct db pT) (hiE : Inv (·.eSched) ce db pE) :
    Inv (·.tSched) ct w'.commit pT' ∧ Inv (·.eSched) ce w'.commit pE' ∧
    w'.commit.tCheck = db.tCheck ∧ w'.commit.eCheck = db.eCheck ∧ w'.commit.now = db.now := by
  have hs := (hd.openKey key).of_fr f
  have nd : w'.gone = false → (w'.k.recs.map (·.rid)).Nodup := fun hg => (lv hg).rc.nodup
  obtain ⟨_, _, c3, _, c5, c6⟩ := commit_fields w'
  refine ⟨?_, ?_, c5.trans ok.teq, c6.trans ok.eeq, c3.trans f.now⟩
  · exact inv_commit (·.tSched) ct db key w' f hs nd (ks_t ok.ks) (fun _ => rfl) e hek pT pT' hpT ownT hiT
  · exact inv_commit (·.eSched) ce db key w' f hs nd (ks_e ok.ks) (fun _ => rfl) e hek pE pE' hpE ownE hiE

/-- the scheduling invariant of the states between operations -/
structure FutDB (db : DB) : Prop where
  dbi : DBI db
  tclk : db.tCheck = db.now + 1
  eclk : db.eCheck = db.now + 1
  t : Inv (·.tSched) db.now db []
  e : Inv (·.eSched) db.now db []

theorem FutDB.init (now aofTime : Nat) : FutDB (DB.init now aofTime) :=
  ⟨DBI.init now aofTime, rfl, rfl, by intro k hk; simp [DB.init] at hk, by intro k hk; simp [DB.init] at hk⟩

theorem inv_create {sel : Rec → Option Sched} {c : Nat} {db : DB} {p : List Ent} (h : Inv sel c db p) (n : Nat) : Inv sel c (db.create n) p := by
  unfold DB.create
  split
  · exact h
  · intro k hk
    rcases List.mem_append.mp hk with h1 | h1
    · exact h k h1
    · simp at h1; rw [h1]; intro r hr; simp [newKey] at hr

/-- a LOCK / UNLOCK style operation: a chain of `Ok` steps on one key record opened from `db1`, stored back -/
theorem op_fut (db1 : DB) (h : FutDB db1) (key : Nat) (w' : W) (f : Fr (db1.openKey key) w') (lv : LvG w' zero)
    (ok : Ok db1.now db1.now (db1.openKey key) w') (hdbi : DBI w'.commit) : FutDB w'.commit := by
  obtain ⟨a, b, c1, c2, c3⟩ := stepW_fut db1 h.dbi key w' f lv ok ⟨key, 0, 0⟩ rfl [] [] [] []
    (fun x hx => by simp at hx) (fun he => by simp at he) (fun x hx => by simp at hx) (fun he => by simp at he) h.t h.e
  exact ⟨hdbi, by rw [c1, c3]; exact h.tclk, by rw [c2, c3]; exact h.eclk, by rw [c3]; exact a, by rw [c3]; exact b⟩

theorem FutDB.create {db : DB} (h : FutDB db) (n : Nat) : FutDB (db.create n) := by
  obtain ⟨_, _, c0, _, _, _, c1, c2, _⟩ := create_fields db n
  exact ⟨h.dbi.create n, by rw [c1, c0]; exact h.tclk, by rw [c2, c0]; exact h.eclk, by rw [c0]; exact inv_create h.t n, by rw [c0]; exact inv_create h.e n⟩

theorem opLock_fut (db : DB) (h : FutDB db) (c : Cmd) (data : Option Bytes) : FutDB (opLock db c data).1 := by
  have hdbi := opLock_dbi db h.dbi c data
  unfold opLock at hdbi ⊢
  simp only [] at hdbi ⊢
  have ht : db.now < db.tCheck := by rw [h.tclk]; omega
  have he : db.now < db.eCheck := by rw [h.eclk]; omega
  have ok := applyLock_ok (ct := db.now) (ce := db.now) db ht he c data (classifyLock db c data)
  have lv := applyLock_lvg db h.dbi c data (classifyLock db c data) (fun x hx => classifyLock_holder db c data x hx)
  have f := applyLock_fr db c data (classifyLock db c data)
  generalize classifyLock db c data = b at hdbi ok lv f ⊢
  -- the key record was opened from `db` (pre-checks) or from `db` with the key record created
  have key : ∀ db1 : DB, FutDB db1 → db1.now = db.now → lockBase db c b = db1.openKey c.key → db1.getKey c.key = db.getKey c.key →
      FutDB (applyLock db c data b).commit := by
    intro db1 h1 hn e hk
    rw [e] at f
    have ok1 : Ok db1.now db1.now (db1.openKey c.key) (applyLock db c data b) := by
      rw [hn]
      exact ⟨ok.tc, ok.ec, by show KS _ _ _ (db1.getKey c.key); rw [hk]; exact ok.ks,
        by rw [ok.teq]; show db.tCheck = db1.tCheck; rw [h.tclk, h1.tclk, hn],
        by rw [ok.eeq]; show db.eCheck = db1.eCheck; rw [h.eclk, h1.eclk, hn]⟩
    exact op_fut db1 h1 c.key _ f lv ok1 hdbi
  have hcn : (db.create c.key).now = db.now := (create_fields db c.key).2.2.1
  cases b with
  | p0a => exact key db h rfl rfl rfl
  | p0b => exact key db h rfl rfl rfl
  | _ => exact key (db.create c.key) (h.create c.key) hcn rfl (getKey_create db c.key c.key)

theorem opUnlock_fut (db : DB) (h : FutDB db) (c : Cmd) (data : Option Bytes) : FutDB (opUnlock db c data).1 := by
  have hdbi := opUnlock_dbi db h.dbi c data
  unfold opUnlock at hdbi ⊢
  simp only [] at hdbi ⊢
  have ht : db.now < db.tCheck := by rw [h.tclk]; omega
  have he : db.now < db.eCheck := by rw [h.eclk]; omega
  exact op_fut db h c.key _ (applyUnlock_fr db c data _)
    (applyUnlock_lvg db h.dbi c data (classifyUnlock db c) (fun x hx => classifyUnlock_holder db c x hx) (fun x hx => classifyUnlock_cancel db c x hx))
    (applyUnlock_ok db ht he c data _) hdbi

/-! ### the sweeps -/

/-- what a sweep keeps of the database while it runs: the record invariant, and the check seconds ahead of `c` / `ce` -/
structure SwS (ct ce : Nat) (db : DB) : Prop where
  dbi : DBI db
  tc : ct < db.tCheck
  ec : ce < db.eCheck

structure SameClk (db' db : DB) : Prop where
  t : db'.tCheck = db.tCheck
  e : db'.eCheck = db.eCheck
  n : db'.now = db.now

theorem SameClk.refl (db : DB) : SameClk db db := ⟨rfl, rfl, rfl⟩
theorem SameClk.trans {a b c : DB} (h1 : SameClk a b) (h2 : SameClk b c) : SameClk a c := ⟨h1.t.trans h2.t, h1.e.trans h2.e, h1.n.trans h2.n⟩
theorem SwS.of_clk {ct ce : Nat} {db db' : DB} (h : SwS ct ce db) (hd : DBI db') (c : SameClk db' db) : SwS ct ce db' :=
  ⟨hd, by rw [c.t]; exact h.tc, by rw [c.e]; exact h.ec⟩

theorem timeoutStep_fut (slot : Bool) {c ce : Nat} (db : DB) (coll : List Ent) (e : Ent) (X : List Ent) (hs : SwS c ce db)
    (hiT : Inv (·.tSched) c db (e :: X ++ coll)) (hiE : Inv (·.eSched) ce db []) :
    SwS c ce (timeoutStep slot (db, coll) e).1 ∧ SameClk (timeoutStep slot (db, coll) e).1 db ∧
    Inv (·.tSched) c (timeoutStep slot (db, coll) e).1 (X ++ (timeoutStep slot (db, coll) e).2) ∧
    Inv (·.eSched) ce (timeoutStep slot (db, coll) e).1 [] := by
  have hdbi := timeoutStep_dbi slot (db, coll) e hs.dbi
  have h0 : Ok c ce (db.openKey e.key) (db.openKey e.key) := Ok.refl hs.tc hs.ec
  unfold timeoutStep at hdbi ⊢
  cases hv : (db.openKey e.key).visitTimeout slot e.rid with
  | some w' =>
    simp only [hv] at hdbi ⊢
    obtain ⟨ok, own⟩ := visitTimeout_ok h0 slot e.rid w' hv
    obtain ⟨a, b, c1, c2, c3⟩ := stepW_fut db hs.dbi e.key w' (W.visitTimeout_fr _ _ _ _ hv) (LvG.visitTimeout (Lv.openKey hs.dbi e.key) slot e.rid w' hv)
      ok e rfl (e :: X ++ coll) (X ++ coll) [] []
      (fun x hx => by rcases List.mem_cons.mp hx with h | h; exact Or.inl h; exact Or.inr h)
      (fun _ _ hh => Or.inl (own hh)) (fun x hx => by simp at hx) (fun he => by simp at he) hiT hiE
    exact ⟨hs.of_clk hdbi ⟨c1, c2, c3⟩, ⟨c1, c2, c3⟩, a, b⟩
  | none =>
    simp only [hv] at hdbi ⊢
    have hmem : ∀ x ∈ e :: X ++ coll, x ∈ X ++ (coll ++ [e]) := by
      intro x hx
      rcases List.mem_cons.mp hx with h | h
      · rw [h]; simp
      · rcases List.mem_append.mp h with h' | h'
        · exact List.mem_append_left _ h'
        · exact List.mem_append_right _ (List.mem_append_left _ h')
    cases slot
    · simp only [Bool.false_eq_true, if_false] at hdbi ⊢
      obtain ⟨a, b, c1, c2, c3⟩ := stepW_fut db hs.dbi e.key _ (W.collectT_fr _ _) (LvG.of_lv ((Lv.openKey hs.dbi e.key).collectT e.rid))
        (h0.collectT e.rid) e rfl (e :: X ++ coll) (X ++ (coll ++ [e])) [] []
        (fun x hx => Or.inr (hmem x hx)) (fun _ _ _ => Or.inr (by simp)) (fun x hx => by simp at hx) (fun he => by simp at he) hiT hiE
      exact ⟨hs.of_clk hdbi ⟨c1, c2, c3⟩, ⟨c1, c2, c3⟩, a, b⟩
    · simp only [if_true]
      exact ⟨hs, SameClk.refl _, hiT.mono hmem, hiE⟩

theorem fold_timeout_fut (slot : Bool) {c ce : Nat} (es P : List Ent) (db : DB) (coll : List Ent) (hs : SwS c ce db)
    (hiT : Inv (·.tSched) c db (es ++ P ++ coll)) (hiE : Inv (·.eSched) ce db []) :
    SwS c ce (es.foldl (timeoutStep slot) (db, coll)).1 ∧ SameClk (es.foldl (timeoutStep slot) (db, coll)).1 db ∧
    Inv (·.tSched) c (es.foldl (timeoutStep slot) (db, coll)).1 (P ++ (es.foldl (timeoutStep slot) (db, coll)).2) ∧
    Inv (·.eSched) ce (es.foldl (timeoutStep slot) (db, coll)).1 [] := by
  induction es generalizing db coll with
  | nil => exact ⟨hs, SameClk.refl _, by simpa using hiT, hiE⟩
  | cons e es ih =>
    simp only [List.foldl_cons]
    have h1 := timeoutStep_fut slot db coll e (es ++ P) hs (by simpa [List.append_assoc] using hiT) hiE
    have h2 := ih (timeoutStep slot (db, coll) e).1 (timeoutStep slot (db, coll) e).2 h1.1 h1.2.2.1 h1.2.2.2
    exact ⟨h2.1, h2.2.1.trans h1.2.1, h2.2.2.1, h2.2.2.2⟩

theorem fireTimeoutStep_fut {c ce : Nat} (acc : DB × List Reply) (e : Ent) (X : List Ent) (hs : SwS c ce acc.1)
    (hiT : Inv (·.tSched) c acc.1 (e :: X)) (hiE : Inv (·.eSched) ce acc.1 []) :
    SwS c ce (fireTimeoutStep acc e).1 ∧ SameClk (fireTimeoutStep acc e).1 acc.1 ∧
    Inv (·.tSched) c (fireTimeoutStep acc e).1 X ∧ Inv (·.eSched) ce (fireTimeoutStep acc e).1 [] := by
  have hdbi := fireTimeoutStep_dbi acc e hs.dbi
  have h0 : Ok c ce (acc.1.openKey e.key) (acc.1.openKey e.key) := Ok.refl hs.tc hs.ec
  unfold fireTimeoutStep fireTimeout at hdbi ⊢
  simp only [] at hdbi ⊢
  obtain ⟨ok, own⟩ := fireTimeout_ok h0 e.rid
  obtain ⟨a, b, c1, c2, c3⟩ := stepW_fut acc.1 hs.dbi e.key _ (W.fireTimeout_fr _ _) (LvG.fireTimeout (Lv.openKey hs.dbi e.key) e.rid)
    ok e rfl (e :: X) X [] []
    (fun x hx => by rcases List.mem_cons.mp hx with h | h; exact Or.inl h; exact Or.inr h)
    (fun _ _ hh => Or.inl (own hh)) (fun x hx => by simp at hx) (fun he => by simp at he) hiT hiE
  exact ⟨hs.of_clk hdbi ⟨c1, c2, c3⟩, ⟨c1, c2, c3⟩, a, b⟩

theorem fold_fireTimeout_fut {c ce : Nat} (es : List Ent) (acc : DB × List Reply) (hs : SwS c ce acc.1)
    (hiT : Inv (·.tSched) c acc.1 es) (hiE : Inv (·.eSched) ce acc.1 []) :
    SwS c ce (es.foldl fireTimeoutStep acc).1 ∧ SameClk (es.foldl fireTimeoutStep acc).1 acc.1 ∧
    Inv (·.tSched) c (es.foldl fireTimeoutStep acc).1 [] ∧ Inv (·.eSched) ce (es.foldl fireTimeoutStep acc).1 [] := by
  induction es generalizing acc with
  | nil => exact ⟨hs, SameClk.refl _, hiT, hiE⟩
  | cons e es ih =>
    simp only [List.foldl_cons]
    have h1 := fireTimeoutStep_fut acc e es hs hiT hiE
    have h2 := ih (fireTimeoutStep acc e) h1.1 h1.2.2.1 h1.2.2.2
    exact ⟨h2.1, h2.2.1.trans h1.2.1, h2.2.2.1, h2.2.2.2⟩

end Slock.Engine2
