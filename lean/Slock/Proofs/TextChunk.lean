import Slock.Proofs.TextParse
/-! Helper lemmas for M-TEXT: when may the chunk-local parser state be forgotten (C14 text part, chunking). -/
namespace Slock.Text

/-- What the chunk-local state always satisfies (a reachability invariant of the automaton): in the block copy the
bytes still to go are exactly `cargLen - cargIndex`; in the trailing LF scan `cargIndex` has reached `cargLen`.
So the chunk-local state carries no information beyond the persistent one (except `prev`, which only matters for a
lone LF) and may be forgotten at any byte position. -/
def Inv (s : PState) (l : Loc) : Prop :=
  s.stage = .s4 →
    match l.phase with
    | .entry => True
    | .scan => s.cargLen - (s.got : Int) ≤ 0
    | .data left => 1 ≤ left ∧ (left : Int) = s.cargLen - (s.got : Int)

theorem Inv_fresh (s : PState) (p : Option UInt8) : Inv s ⟨p, .entry⟩ := by
  intro _; trivial

def Step.good : Step → Bool
  | .cont _ _ => true
  | .emit _ _ _ => true
  | _ => false

theorem scanByte_prev (s : PState) (p : Option UInt8) (ph ph' : Phase) (b : UInt8)
    (hg : (scanByte s ⟨p, ph⟩ b).good = true) : scanByte s ⟨none, ph'⟩ b = scanByte s ⟨p, ph⟩ b := by
  unfold scanByte at hg ⊢
  by_cases hb : b = 10
  · simp only [hb, if_true] at hg ⊢
    cases hp : lfBad p with
    | true => simp [hp, Step.good] at hg
    | false => simp [lfBad]
  · simp [hb]

theorem numStep_prev (num : Bytes) (p : Option UInt8) (b : UInt8) (hg : numStep num p b ≠ .err) :
    numStep num none b = numStep num p b := by
  unfold numStep at hg ⊢
  by_cases hb : b = 10
  · simp only [hb, if_true] at hg ⊢
    cases hp : lfBad p with
    | true => simp [hp] at hg
    | false => simp [lfBad]
  · simp [hb]

theorem step5_prev (s : PState) (p : Option UInt8) (ph ph' : Phase) (b : UInt8)
    (hg : (step5 s ⟨p, ph⟩ b).good = true) : step5 s ⟨none, ph'⟩ b = step5 s ⟨p, ph⟩ b := by
  unfold step5 at hg ⊢
  by_cases hb : b = 10
  · simp only [hb, if_true] at hg ⊢
    cases hm : modifyAt s.args (if s.ty = 2 then 1 else 0) stripCR with
    | none => simp [hm, Step.good] at hg
    | some a =>
      simp only [hm] at hg ⊢
      cases hp : lfBad p with
      | true => simp [hp, Step.good] at hg
      | false => simp [lfBad]
  · simp [hb]

theorem step6_prev (s : PState) (p : Option UInt8) (ph ph' : Phase) (b : UInt8)
    (hg : (step6 s ⟨p, ph⟩ b).good = true) : step6 s ⟨none, ph'⟩ b = step6 s ⟨p, ph⟩ b := by
  unfold step6 at hg ⊢
  by_cases hs : b = 32
  · simp [hs]
  · by_cases hb : b = 10
    · simp only [hs, hb, if_true, if_false] at hg ⊢
      cases hm : modifyAt s.args 0 stripCR with
      | none => simp [hm, Step.good] at hg
      | some a =>
        simp only [hm] at hg ⊢
        cases hp : lfBad p with
        | true => simp [hp, Step.good] at hg
        | false => simp [lfBad]
    · simp [hs, hb]

/-- forgetting the chunk-local state does not change a step that succeeds -/
theorem step_reset (s : PState) (l : Loc) (b : UInt8) (hc : Inv s l) (hg : (step s l b).good = true) :
    step s {} b = step s l b := by
  obtain ⟨p, ph⟩ := l
  unfold step at hg ⊢
  cases hs : s.stage with
  | s0 => simp
  | s2 => simp
  | s5 =>
    simp only [hs] at hg ⊢
    by_cases hr : s.resp = true
    · simp only [hr, if_true] at hg ⊢
      exact step5_prev s p ph .entry b hg
    · simp [hr]
  | s6 =>
    simp only [hs] at hg ⊢
    by_cases hr : s.resp = true
    · simp only [hr, if_true] at hg ⊢
      exact step6_prev s p ph .entry b hg
    · simp [hr]
  | s1 =>
    simp only [hs] at hg ⊢
    have : numStep s.num p b ≠ .err := by
      intro h; simp [h, Step.good] at hg
    rw [numStep_prev s.num p b this]
  | s3 =>
    simp only [hs] at hg ⊢
    have : numStep s.num p b ≠ .err := by
      intro h; simp [h, Step.good] at hg
    rw [numStep_prev s.num p b this]
  | s4 =>
    simp only [hs] at hg ⊢
    have hc := hc hs
    unfold step4 at hg ⊢
    cases ph with
    | data left =>
      simp only at hg hc ⊢
      have hr : s.cargLen - (s.got : Int) > 0 := by omega
      have e : (s.cargLen - (s.got : Int)).toNat = left := by omega
      simp only [hr, if_true, e]
    | entry =>
      simp only at hg ⊢
      by_cases hr : s.cargLen - (s.got : Int) > 0
      · simp only [hr, if_true]
      · simp only [hr, if_false] at hg ⊢
        exact scanByte_prev s p .entry .entry b hg
    | scan =>
      simp only at hg hc ⊢
      have hr : ¬ (s.cargLen - (s.got : Int) > 0) := by omega
      simp only [hr, if_false]
      exact scanByte_prev s p .scan .entry b hg

theorem dataByte_inv (s : PState) (b : UInt8) (left : Nat) (_hs : s.stage = .s4) (h1 : 1 ≤ left)
    (h2 : (left : Int) = s.cargLen - (s.got : Int)) :
    match dataByte s b left with
    | .cont s' l' => Inv s' l'
    | .emit _ s' l' => Inv s' l'
    | _ => True := by
  unfold dataByte
  cases (if s.got = 0 then some (s.args ++ [[b]]) else appendLast s.args b) with
  | none => trivial
  | some args' =>
    simp only
    by_cases hl : left ≤ 1
    · simp only [hl, if_true]
      intro _
      show s.cargLen - ((s.cargLen.toNat : Nat) : Int) ≤ 0
      omega
    · simp only [hl, if_false]
      intro _
      show 1 ≤ left - 1 ∧ ((left - 1 : Nat) : Int) = s.cargLen - ((s.got + 1 : Nat) : Int)
      omega

theorem scanByte_inv (s : PState) (l : Loc) (b : UInt8) (hr : s.cargLen - (s.got : Int) ≤ 0) :
    match scanByte s l b with
    | .cont s' l' => Inv s' l'
    | .emit _ s' l' => Inv s' l'
    | _ => True := by
  unfold scanByte
  by_cases hb : b = 10
  · simp only [hb, if_true]
    cases lfBad l.prev with
    | true => simp
    | false =>
      simp only [Bool.false_eq_true, if_false]
      by_cases hlt : ((if s.cargLen = 0 then s.args ++ [[]] else s.args).length : Int) < s.argsCount
      · simp only [hlt, if_true]; intro h; simp at h
      · simp only [hlt, if_false]; intro h; simp at h
  · simp only [hb, if_false]
    intro _
    exact hr

theorem Inv_of_ne (s : PState) (l : Loc) (h : s.stage ≠ .s4) : Inv s l := fun hs => absurd hs h

theorem step0R_inv (s : PState) (b : UInt8) :
    match step0R s b with
    | .cont s' l' => Inv s' l'
    | .emit _ s' l' => Inv s' l'
    | _ => True := by
  unfold step0R
  by_cases h1 : b = 43
  · simp only [h1, if_true]; exact Inv_of_ne _ _ (by simp)
  · by_cases h2 : b = 45
    · simp only [h1, h2, if_true, if_false]; exact Inv_of_ne _ _ (by simp)
    · by_cases h3 : b = 36
      · simp only [h1, h2, h3, if_true, if_false]; exact Inv_of_ne _ _ (by simp)
      · by_cases h4 : b = 42
        · simp only [h1, h2, h3, h4, if_true, if_false]; exact Inv_of_ne _ _ (by simp)
        · simp [h1, h2, h3, h4]

theorem step5_inv (s : PState) (l : Loc) (b : UInt8) (hs : s.stage = .s5) :
    match step5 s l b with
    | .cont s' l' => Inv s' l'
    | .emit _ s' l' => Inv s' l'
    | _ => True := by
  unfold step5
  by_cases hb : b = 10
  · simp only [hb, if_true]
    cases modifyAt s.args (if s.ty = 2 then 1 else 0) stripCR with
    | none => trivial
    | some a =>
      simp only
      cases lfBad l.prev with
      | true => simp
      | false => simp only [Bool.false_eq_true, if_false]; exact Inv_of_ne _ _ (by simp)
  · simp only [hb, if_false]
    cases modifyAt s.args (if s.ty = 2 then 1 else 0) (· ++ [b]) with
    | none => trivial
    | some a => simp only; exact Inv_of_ne _ _ (by simp [hs])

theorem step6_inv (s : PState) (l : Loc) (b : UInt8) (hs : s.stage = .s6) :
    match step6 s l b with
    | .cont s' l' => Inv s' l'
    | .emit _ s' l' => Inv s' l'
    | _ => True := by
  unfold step6
  by_cases h32 : b = 32
  · simp only [h32, if_true]
    cases modifyAt s.args 0 stripCR with
    | none => trivial
    | some a => simp only; exact Inv_of_ne _ _ (by simp)
  · by_cases hb : b = 10
    · simp only [h32, hb, if_true, if_false]
      cases modifyAt s.args 0 stripCR with
      | none => trivial
      | some a =>
        simp only
        cases lfBad l.prev with
        | true => simp
        | false => simp only [Bool.false_eq_true, if_false]; exact Inv_of_ne _ _ (by simp)
    · simp only [h32, hb, if_false]
      cases modifyAt s.args 0 (· ++ [b]) with
      | none => trivial
      | some a => simp only; exact Inv_of_ne _ _ (by simp [hs])

/-- the invariant is preserved by every step -/
theorem step_inv (s : PState) (l : Loc) (b : UInt8) (hc : Inv s l) :
    match step s l b with
    | .cont s' l' => Inv s' l'
    | .emit _ s' l' => Inv s' l'
    | _ => True := by
  obtain ⟨p, ph⟩ := l
  unfold step
  cases hs : s.stage with
  | s0 =>
    simp only
    by_cases hr : s.resp = true
    · simp only [hr, if_true]; exact step0R_inv s b
    · simp only [hr, if_false]
      by_cases hb : b = 42
      · simp only [hb, if_true]; intro h; simp at h
      · simp [hb]
  | s5 =>
    simp only
    by_cases hr : s.resp = true
    · simp only [hr, if_true]; exact step5_inv s _ b hs
    · simp [hr]
  | s6 =>
    simp only
    by_cases hr : s.resp = true
    · simp only [hr, if_true]; exact step6_inv s _ b hs
    · simp [hr]
  | s2 =>
    simp only
    by_cases hb : b = 36
    · simp only [hb, if_true]; intro h; simp at h
    · simp [hb]
  | s1 =>
    simp only
    cases numStep s.num p b with
    | more n => intro h; simp at h
    | done v => intro h; simp at h
    | err => trivial
  | s3 =>
    simp only
    cases numStep s.num p b with
    | more n => intro h; simp at h
    | done v => intro _; trivial
    | err => trivial
  | s4 =>
    simp only
    have hc := hc hs
    unfold step4
    cases ph with
    | data left =>
      simp only at hc ⊢
      exact dataByte_inv s b left hs hc.1 hc.2
    | entry =>
      simp only
      by_cases hr : s.cargLen - (s.got : Int) > 0
      · simp only [hr, if_true]
        exact dataByte_inv s b _ hs (by omega) (by omega)
      · simp only [hr, if_false]
        exact scanByte_inv s _ b (by omega)
    | scan =>
      simp only at hc ⊢
      exact scanByte_inv s _ b hc

theorem runBytes_inv (ys : Bytes) (s : PState) (l : Loc) (acc : Replies) (hc : Inv s l)
    (c : Replies) (sf : PState) (lf : Loc) (h : runBytes s l acc ys = .ok c sf lf) : Inv sf lf := by
  induction ys generalizing s l acc with
  | nil =>
    simp only [runBytes, Run.ok.injEq] at h
    rw [← h.2.1, ← h.2.2]; exact hc
  | cons b ys ih =>
    rw [runBytes] at h
    have hi := step_inv s l b hc
    cases hst : step s l b with
    | cont s' l' => simp only [hst] at h hi; exact ih s' l' acc hi h
    | emit cmd s' l' => simp only [hst] at h hi; exact ih s' l' _ hi h
    | err => simp [hst] at h
    | panic => simp [hst] at h

/-- … hence the rest of the run is unchanged -/
theorem runBytes_reset (s : PState) (l : Loc) (acc : Replies) (ys : Bytes) (hc : Inv s l)
    (c : Replies) (sf : PState) (lf : Loc) (h : runBytes s l acc ys = .ok c sf lf) :
    ∃ lf', runBytes s {} acc ys = .ok c sf lf' := by
  cases ys with
  | nil =>
    simp only [runBytes, Run.ok.injEq] at h
    exact ⟨{}, by simp [runBytes, h.1, h.2.1]⟩
  | cons b ys =>
    have hg : (step s l b).good = true := by
      rw [runBytes] at h
      cases hst : step s l b <;> simp [hst, Step.good] at h ⊢
    refine ⟨lf, ?_⟩
    rw [runBytes, step_reset s l b hc hg, ← h, runBytes]

/-- the chunked run equals the one-buffer run whenever the latter does not fail — for EVERY chunking -/
theorem feed_eq_run (chunks : List Bytes) (s : PState) (acc : Replies) (c : Replies) (sf : PState) (lf : Loc)
    (href : runBytes s {} acc chunks.flatten = .ok c sf lf) :
    ∃ lf', feed s acc chunks = .ok c sf lf' := by
  induction chunks generalizing s acc lf with
  | nil =>
    simp only [List.flatten_nil, runBytes, Run.ok.injEq] at href
    exact ⟨{}, by simp [feed, href.1, href.2.1]⟩
  | cons ch cs ih =>
    simp only [List.flatten_cons] at href
    rw [runBytes_append] at href
    unfold feed
    cases h1 : runBytes s {} acc ch with
    | err a => simp [h1] at href
    | panic a => simp [h1] at href
    | ok acc' s' l' =>
      simp only [h1] at href ⊢
      have hinv : Inv s' l' := runBytes_inv ch s {} acc (Inv_fresh s none) acc' s' l' h1
      obtain ⟨lf', h2⟩ := runBytes_reset s' l' acc' cs.flatten hinv c sf lf href
      exact ih s' acc' lf' h2

/-- an argument list `BuildRequest`/the parser can carry: at least one argument, sizes representable as Go `int` -/
def sizeOK (args : List Bytes) : Prop :=
  args ≠ [] ∧ args.length < 9223372036854775808 ∧ ∀ a ∈ args, a.length < 9223372036854775808

theorem buildManyRun (cmds : Cmds) (h : ∀ c ∈ cmds, sizeOK c) (l : Loc) (acc : Replies) :
    ∃ l', runBytes {} l acc (cmds.map buildRequest).flatten = .ok (acc ++ cmds.map (fun c => (0, c))) {} l' := by
  induction cmds generalizing l acc with
  | nil => exact ⟨l, by simp [runBytes]⟩
  | cons c cs ih =>
    have hc := h c (by simp)
    simp only [List.map_cons, List.flatten_cons]
    rw [buildRun c hc.1 hc.2.1 hc.2.2]
    obtain ⟨l', h2⟩ := ih (fun x hx => h x (by simp [hx])) ⟨some 10, .entry⟩ (acc ++ [(0, c)])
    exact ⟨l', by simpa using h2⟩

theorem map_drop_ty (cmds : Cmds) :
    List.map ((fun x : Nat × List Bytes => x.2) ∘ fun c : List Bytes => ((0 : Nat), c)) cmds = cmds := by
  induction cmds with
  | nil => rfl
  | cons c cs ih => simp [ih]

end Slock.Text
